/-
  AHP.Lemmas.AttrsStr — string lemmas for the attribute store (C08, C09, C10): `lower` is idempotent,
  `strip` / `collapseSpaces` / `splitChar` only keep characters of their input, `words (join " " ws) = ws`
  for clean names, `unescQ (escQ v) = v` for values without `&`.
-/
import AHP.Model.Attrs
namespace AHP.Attrs
open AHP

/-! #### `lower` -/

theorem lowerChar_idem (c : Char) : lowerChar (lowerChar c) = lowerChar c := by
  unfold lowerChar
  split
  · next h =>
    have h1 : ∀ n : Nat, n < 91 → 65 ≤ n →
        ¬ ('A' ≤ Char.ofNat (n + 32) ∧ Char.ofNat (n + 32) ≤ 'Z') := by decide
    have ha : 65 ≤ c.toNat := h.1
    have hz : c.toNat ≤ 90 := h.2
    rw [if_neg (h1 c.toNat (by omega) ha)]
  · rfl

theorem lower_idem (s : Str) : lower (lower s) = lower s := by
  unfold lower
  rw [List.map_map]
  apply List.map_congr_left
  intro c _
  exact lowerChar_idem c

/-! #### membership through the trimming functions -/

theorem mem_of_mem_dropWhile {p : Char → Bool} {s : Str} {x : Char} (h : x ∈ s.dropWhile p) : x ∈ s :=
  (List.dropWhile_sublist p).subset h

theorem mem_lstrip {s : Str} {x : Char} (h : x ∈ lstrip s) : x ∈ s := mem_of_mem_dropWhile h

theorem mem_rstrip {s : Str} {x : Char} (h : x ∈ rstrip s) : x ∈ s := by
  unfold rstrip at h
  have := mem_of_mem_dropWhile (List.mem_reverse.mp h)
  exact List.mem_reverse.mp this

theorem mem_strip {s : Str} {x : Char} (h : x ∈ strip s) : x ∈ s := mem_lstrip (mem_rstrip h)

theorem mem_collapseAux {x : Char} : ∀ (b : Bool) (s : Str), x ∈ collapseAux b s → x ∈ s
  | _, [], h => by simp [collapseAux] at h
  | b, c :: r, h => by
    unfold collapseAux at h
    split at h
    · split at h
      · exact List.mem_cons_of_mem _ (mem_collapseAux true r h)
      · rcases List.mem_cons.mp h with h | h
        · subst h; simp_all
        · exact List.mem_cons_of_mem _ (mem_collapseAux true r h)
    · rcases List.mem_cons.mp h with h | h
      · subst h; simp
      · exact List.mem_cons_of_mem _ (mem_collapseAux false r h)

theorem mem_stripWordsOnly {s : Str} {x : Char} (h : x ∈ stripWordsOnly s) : x ∈ s :=
  mem_strip (mem_collapseAux false _ h)

/-! #### `splitChar` -/

theorem splitChar_cons_sep (sep : Char) (r : Str) : splitChar sep (sep :: r) = [] :: splitChar sep r := by
  conv => lhs; unfold splitChar
  simp

theorem splitChar_ne_nil (sep : Char) : ∀ s : Str, splitChar sep s ≠ []
  | [] => by simp [splitChar]
  | c :: r => by
    unfold splitChar
    split
    · simp
    · have := splitChar_ne_nil sep r
      split
      · simp
      · simp

theorem splitChar_cons_ne {sep c : Char} (h : ¬ c = sep) (r : Str) :
    ∃ w ws, splitChar sep r = w :: ws ∧ splitChar sep (c :: r) = (c :: w) :: ws := by
  rcases hs : splitChar sep r with _ | ⟨w, ws⟩
  · exact absurd hs (splitChar_ne_nil sep r)
  · refine ⟨w, ws, rfl, ?_⟩
    conv => lhs; unfold splitChar
    simp [h, hs]

/-- a field of `s.split(sep)` contains no separator and only characters of `s` -/
theorem mem_splitChar {sep : Char} : ∀ {s : Str} {w : Str}, w ∈ splitChar sep s → sep ∉ w ∧ ∀ x ∈ w, x ∈ s
  | [], w, h => by
    simp [splitChar] at h
    subst h
    simp
  | c :: r, w, h => by
    unfold splitChar at h
    split at h
    · next hc =>
      rcases List.mem_cons.mp h with h | h
      · subst h; simp
      · have := mem_splitChar h
        exact ⟨this.1, fun x hx => List.mem_cons_of_mem _ (this.2 x hx)⟩
    · next hc =>
      split at h
      · next heq => exact absurd heq (splitChar_ne_nil sep r)
      · next w0 ws heq =>
        have hw0 : w0 ∈ splitChar sep r := by rw [heq]; simp
        rcases List.mem_cons.mp h with h | h
        · subst h
          have := mem_splitChar hw0
          refine ⟨?_, ?_⟩
          · intro hm
            rcases List.mem_cons.mp hm with hm | hm
            · exact hc hm.symm
            · exact this.1 hm
          · intro x hx
            rcases List.mem_cons.mp hx with hx | hx
            · subst hx; simp
            · exact List.mem_cons_of_mem _ (this.2 x hx)
        · have hw : w ∈ splitChar sep r := by rw [heq]; exact List.mem_cons_of_mem _ h
          have := mem_splitChar hw
          exact ⟨this.1, fun x hx => List.mem_cons_of_mem _ (this.2 x hx)⟩

theorem splitChar_no_sep {sep : Char} : ∀ {w : Str}, sep ∉ w → splitChar sep w = [w]
  | [], _ => by simp [splitChar]
  | c :: r, h => by
    have hc : ¬ c = sep := fun e => h (by simp [e])
    have hr : sep ∉ r := fun m => h (List.mem_cons_of_mem _ m)
    obtain ⟨w, ws, h1, h2⟩ := splitChar_cons_ne hc r
    rw [h2]
    rw [splitChar_no_sep hr] at h1
    simp at h1
    rw [← h1.1, ← h1.2]

theorem splitChar_append_sep {sep : Char} : ∀ {w : Str} (r : Str), sep ∉ w →
    splitChar sep (w ++ sep :: r) = w :: splitChar sep r
  | [], r, _ => by simp [splitChar_cons_sep]
  | c :: w, r, h => by
    have hc : ¬ c = sep := fun e => h (by simp [e])
    have hr : sep ∉ w := fun m => h (List.mem_cons_of_mem _ m)
    show splitChar sep (c :: (w ++ sep :: r)) = _
    obtain ⟨w1, ws1, h1, h2⟩ := splitChar_cons_ne hc (w ++ sep :: r)
    rw [h2]
    rw [splitChar_append_sep r hr] at h1
    simp at h1
    rw [← h1.1, ← h1.2]

/-! #### every element of `words s` is a non-empty name without a space, made of characters of `s` -/

theorem mem_words {s w : Str} (h : w ∈ words s) : w ≠ [] ∧ ' ' ∉ w ∧ ∀ x ∈ w, x ∈ s := by
  unfold words at h
  rw [List.mem_filter] at h
  have := mem_splitChar h.1
  refine ⟨by simpa using h.2, this.1, fun x hx => mem_stripWordsOnly (this.2 x hx)⟩

/-! #### clean names: `words (" ".join(ws)) = ws` -/

/-- a class name as the property's operands produce them: non-empty, free of white space -/
def CleanName (w : Str) : Prop := w ≠ [] ∧ ∀ c ∈ w, isWs c = false

theorem CleanName.no_space {w : Str} (h : CleanName w) : ' ' ∉ w := fun m => by
  have := h.2 ' ' m
  simp [isWs] at this

theorem lstrip_cons_of_not_ws {c : Char} {r : Str} (h : isWs c = false) : lstrip (c :: r) = c :: r := by
  simp [lstrip, List.dropWhile, h]

theorem rstrip_append_of_not_ws (s : Str) {c : Char} (h : isWs c = false) : rstrip (s ++ [c]) = s ++ [c] := by
  simp [rstrip, h]

theorem joinWith_cons_cons (sep w w' : Str) (ws : List Str) :
    joinWith sep (w :: w' :: ws) = w ++ sep ++ joinWith sep (w' :: ws) := rfl

/-- the joined string is empty or starts and ends with a non-blank character -/
theorem join_clean_shape : ∀ {ws : List Str}, (∀ w ∈ ws, CleanName w) → ws ≠ [] →
    ∃ c r c' r', joinWith [' '] ws = c :: r ∧ isWs c = false ∧ joinWith [' '] ws = r' ++ [c'] ∧ isWs c' = false
  | [], _, h => absurd rfl h
  | [w], hw, _ => by
    have hc := hw w (by simp)
    simp only [joinWith]
    rcases w with _ | ⟨c, r⟩
    · exact absurd rfl hc.1
    · refine ⟨c, r, ?_⟩
      rcases List.eq_nil_or_concat (c :: r) with h | ⟨r', c', h⟩
      · simp at h
      · refine ⟨c', r', rfl, hc.2 c (by simp), by simpa using h, hc.2 c' (by rw [h]; simp)⟩
  | w :: w' :: ws, hw, _ => by
    have hc := hw w (by simp)
    obtain ⟨_, _, c', r', _, _, h3, h4⟩ := join_clean_shape (ws := w' :: ws) (fun x hx => hw x (List.mem_cons_of_mem _ hx)) (by simp)
    rw [joinWith_cons_cons]
    rcases w with _ | ⟨c, r⟩
    · exact absurd rfl hc.1
    · refine ⟨c, r ++ [' '] ++ joinWith [' '] (w' :: ws), c', (c :: r) ++ [' '] ++ r', by simp, hc.2 c (by simp), ?_, h4⟩
      rw [h3]; simp

theorem strip_join_clean {ws : List Str} (hw : ∀ w ∈ ws, CleanName w) :
    strip (joinWith [' '] ws) = joinWith [' '] ws := by
  by_cases h : ws = []
  · subst h; simp [joinWith, strip, lstrip, rstrip]
  · obtain ⟨c, r, c', r', h1, h2, h3, h4⟩ := join_clean_shape hw h
    unfold strip
    rw [h1, lstrip_cons_of_not_ws h2, ← h1, h3, rstrip_append_of_not_ws _ h4]

theorem collapseAux_cons_ne {c : Char} (h : ¬ c = ' ') (b : Bool) (r : Str) :
    collapseAux b (c :: r) = c :: collapseAux false r := by
  conv => lhs; unfold collapseAux
  simp [h]

theorem collapseAux_space_false (r : Str) : collapseAux false (' ' :: r) = ' ' :: collapseAux true r := by
  conv => lhs; unfold collapseAux
  simp

theorem collapseAux_space_true (r : Str) : collapseAux true (' ' :: r) = collapseAux true r := by
  conv => lhs; unfold collapseAux
  simp

theorem collapseAux_word {w : Str} (hw : ' ' ∉ w) (b : Bool) (r : Str) (hne : w ≠ []) :
    collapseAux b (w ++ r) = w ++ collapseAux false r := by
  induction w generalizing b with
  | nil => exact absurd rfl hne
  | cons c w ih =>
    have hc : ¬ c = ' ' := fun e => hw (by simp [e])
    have hr : ' ' ∉ w := fun m => hw (List.mem_cons_of_mem _ m)
    show collapseAux b (c :: (w ++ r)) = _
    rw [collapseAux_cons_ne hc]
    by_cases hwn : w = []
    · subst hwn; simp
    · rw [ih hr false hwn]; simp

theorem collapse_join_clean : ∀ {ws : List Str}, (∀ w ∈ ws, CleanName w) → ∀ b,
    ws ≠ [] → collapseAux b (joinWith [' '] ws) = joinWith [' '] ws
  | [], _, _, h => absurd rfl h
  | [w], hw, b, _ => by
    have hc := hw w (by simp)
    have := collapseAux_word hc.no_space b [] hc.1
    simpa [joinWith, collapseAux] using this
  | w :: w' :: ws, hw, b, _ => by
    have hc := hw w (by simp)
    have ih := collapse_join_clean (ws := w' :: ws) (fun x hx => hw x (List.mem_cons_of_mem _ hx)) true (by simp)
    rw [joinWith_cons_cons, List.append_assoc, collapseAux_word hc.no_space b _ hc.1]
    show w ++ collapseAux false (' ' :: joinWith [' '] (w' :: ws)) = _
    rw [collapseAux_space_false, ih]
    simp

theorem split_join_clean : ∀ {ws : List Str}, (∀ w ∈ ws, CleanName w) → ws ≠ [] →
    splitChar ' ' (joinWith [' '] ws) = ws
  | [], _, h => absurd rfl h
  | [w], hw, _ => by
    have hc := hw w (by simp)
    simp [joinWith, splitChar_no_sep hc.no_space]
  | w :: w' :: ws, hw, _ => by
    have hc := hw w (by simp)
    have ih := split_join_clean (ws := w' :: ws) (fun x hx => hw x (List.mem_cons_of_mem _ hx)) (by simp)
    rw [joinWith_cons_cons, List.append_assoc]
    show splitChar ' ' (w ++ ' ' :: joinWith [' '] (w' :: ws)) = _
    rw [splitChar_append_sep _ hc.no_space, ih]

/-- splitting the rendered `class` value gives the list back (the parse ∘ render round trip of C09) -/
theorem words_join_clean {ws : List Str} (hw : ∀ w ∈ ws, CleanName w) : words (joinWith [' '] ws) = ws := by
  by_cases h : ws = []
  · subst h; decide
  · unfold words stripWordsOnly collapseSpaces
    rw [strip_join_clean hw, collapse_join_clean hw false h, split_join_clean hw h]
    apply List.filter_eq_self.mpr
    intro w hwm
    simpa using (hw w hwm).1

/-! #### quotes -/

theorem unescQ_cons_of_ne {c : Char} (h : c ≠ '&') (r : Str) : unescQ (c :: r) = c :: unescQ r := by
  rw [unescQ]
  intro _ hc
  exact absurd hc h

/-- `&quot;` written by `escapeQuotes` reads back as `"`; nothing else changes, when the value has no `&` -/
theorem unescQ_escQ : ∀ {v : Str}, '&' ∉ v → unescQ (escQ v) = v
  | [], _ => by simp [escQ, replaceQuote, unescQ]
  | c :: r, h => by
    have hc : c ≠ '&' := fun e => h (by simp [e])
    have hr : '&' ∉ r := fun m => h (List.mem_cons_of_mem _ m)
    have ih := unescQ_escQ hr
    unfold escQ at *
    unfold replaceQuote
    split
    · next hq =>
      show unescQ ('&' :: 'q' :: 'u' :: 'o' :: 't' :: ';' :: replaceQuote r) = _
      rw [unescQ, ih, hq]
    · rw [unescQ_cons_of_ne hc, ih]

end AHP.Attrs
