/-
  AHP.Lemmas.Dom — the invariant of the DOM bookkeeping model and the generic facts about the edit
  combinator `upd` (one traversal that rewrites the element with uid `t` and collects what left it).
-/
import AHP.Model.Dom
import AHP.Model.DomView
namespace AHP.Dom

/-! ### the invariant -/

/-- "not marked self-closing if it has any text or child" -/
def noContent (bs : List DN) : Prop := elemIds bs = [] ∧ textOf bs = []

mutual
/-- The per-element invariant, threaded top-down: `par`/`own` are the parent uid and the document
    the element must point to. Children mirror the element blocks; the text cache is the
    concatenation of the text blocks; self-closing implies no content; the same below. -/
def OK (par own : Option Nat) : DN → Prop
  | .text _ => True
  | .el m bs => m.parent = par ∧ m.owner = own ∧ m.children = elemIds bs ∧ m.text = textOf bs ∧
      (m.sc = true → noContent bs) ∧ OKL (some m.id) own bs
def OKL (par own : Option Nat) : List DN → Prop
  | [] => True
  | b :: bs => OK par own b ∧ OKL par own bs
end

/-- a root of the world: an element without parent whose whole tree carries the root's document -/
def RootOK (r : DN) : Prop := ∃ m bs, r = .el m bs ∧ OK none m.owner r

/-- a detached root: additionally `ownerDocument` is None throughout -/
def Detached (r : DN) : Prop := ∃ m bs, r = .el m bs ∧ OK none none r

/-- The world invariant of C04: every root consistent, no element twice (all uids distinct), and
    uids below the allocation counter. -/
structure Inv (w : World) : Prop where
  roots : ∀ r ∈ w.roots, RootOK r
  nodup : (idsL w.roots).Nodup
  fresh : ∀ i ∈ idsL w.roots, i < w.next

theorem Detached.rootOK {r : DN} (h : Detached r) : RootOK r := by
  obtain ⟨m, bs, rfl, h⟩ := h
  have : m.owner = none := by simp only [OK] at h; exact h.2.1
  exact ⟨m, bs, rfl, this ▸ h⟩

/-! ### block-list functions and append -/

@[simp] theorem elemIds_nil : elemIds [] = [] := rfl
@[simp] theorem elemIds_text (s) (bs : List DN) : elemIds (.text s :: bs) = elemIds bs := rfl
@[simp] theorem elemIds_el (m k) (bs : List DN) : elemIds (.el m k :: bs) = m.id :: elemIds bs := rfl
@[simp] theorem textOf_nil : textOf [] = [] := rfl
@[simp] theorem textOf_text (s) (bs : List DN) : textOf (.text s :: bs) = s ++ textOf bs := rfl
@[simp] theorem textOf_el (m k) (bs : List DN) : textOf (.el m k :: bs) = textOf bs := rfl
@[simp] theorem idsL_nil : idsL [] = [] := by simp [idsL]
@[simp] theorem idsL_cons (b) (bs : List DN) : idsL (b :: bs) = ids b ++ idsL bs := by simp [idsL]
@[simp] theorem ids_text (s) : ids (.text s) = [] := by simp [ids]
@[simp] theorem ids_el (m bs) : ids (.el m bs) = m.id :: idsL bs := by simp [ids]
@[simp] theorem OKL_nil (p o) : OKL p o [] = True := by simp [OKL]
@[simp] theorem OKL_cons (p o b bs) : OKL p o (b :: bs) = (OK p o b ∧ OKL p o bs) := by simp [OKL]
@[simp] theorem OK_text (p o s) : OK p o (.text s) = True := by simp [OK]
theorem OK_el (p o m bs) : OK p o (.el m bs) = (m.parent = p ∧ m.owner = o ∧ m.children = elemIds bs ∧
    m.text = textOf bs ∧ (m.sc = true → noContent bs) ∧ OKL (some m.id) o bs) := by simp [OK]

theorem elemIds_append (a b : List DN) : elemIds (a ++ b) = elemIds a ++ elemIds b := by
  induction a with
  | nil => rfl
  | cons x xs ih => cases x <;> simp [ih]

theorem textOf_append (a b : List DN) : textOf (a ++ b) = textOf a ++ textOf b := by
  induction a with
  | nil => rfl
  | cons x xs ih => cases x <;> simp [ih]

theorem idsL_append (a b : List DN) : idsL (a ++ b) = idsL a ++ idsL b := by
  induction a with
  | nil => simp
  | cons x xs ih => simp [ih]

theorem OKL_append (p o) (a b : List DN) : OKL p o (a ++ b) ↔ OKL p o a ∧ OKL p o b := by
  induction a with
  | nil => simp
  | cons x xs ih => simp [ih, and_assoc]

theorem OKL_mem {p o} {bs : List DN} (h : OKL p o bs) {b : DN} (hb : b ∈ bs) : OK p o b := by
  induction bs with
  | nil => cases hb
  | cons x xs ih =>
    simp only [OKL_cons] at h
    cases hb with
    | head => exact h.1
    | tail _ hb => exact ih h.2 hb

theorem OKL_of_forall {p o} {bs : List DN} (h : ∀ b ∈ bs, OK p o b) : OKL p o bs := by
  induction bs with
  | nil => simp
  | cons x xs ih =>
    simp only [OKL_cons]
    exact ⟨h x (by simp), ih (fun b hb => h b (by simp [hb]))⟩

theorem elemIds_subset_idsL (bs : List DN) : ∀ i ∈ elemIds bs, i ∈ idsL bs := by
  induction bs with
  | nil => simp
  | cons x xs ih =>
    cases x with
    | text s => simpa using ih
    | el m k =>
      intro i hi
      simp only [elemIds_el, List.mem_cons] at hi
      simp only [idsL_cons, ids_el, List.mem_append, List.mem_cons]
      cases hi with
      | inl h => exact Or.inl (Or.inl h)
      | inr h => exact Or.inr (ih i h)

/-! ### `reown`, `setParent` -/

@[simp] theorem reownL_nil (o) : reownL o [] = [] := by simp [reownL]
@[simp] theorem reownL_cons (o b bs) : reownL o (b :: bs) = reown o b :: reownL o bs := by simp [reownL]
@[simp] theorem reown_text (o s) : reown o (.text s) = .text s := by simp [reown]
@[simp] theorem reown_el (o m bs) : reown o (.el m bs) = .el { m with owner := o } (reownL o bs) := by simp [reown]
@[simp] theorem setParent_text (p s) : setParent p (.text s) = .text s := rfl
@[simp] theorem setParent_el (p m bs) : setParent p (.el m bs) = .el { m with parent := p } bs := rfl

theorem elemIds_reownL (o) (bs : List DN) : elemIds (reownL o bs) = elemIds bs := by
  induction bs with
  | nil => simp
  | cons b bs ih => cases b <;> simp [ih]

theorem textOf_reownL (o) (bs : List DN) : textOf (reownL o bs) = textOf bs := by
  induction bs with
  | nil => simp
  | cons b bs ih => cases b <;> simp [ih]

mutual
theorem ids_reown (o) (n : DN) : ids (reown o n) = ids n := by
  match n with
  | .text s => simp
  | .el m bs => simp [idsL_reownL o bs]
theorem idsL_reownL (o) (bs : List DN) : idsL (reownL o bs) = idsL bs := by
  match bs with
  | [] => simp
  | b :: bs => simp [ids_reown o b, idsL_reownL o bs]
end

theorem ids_setParent (p) (n : DN) : ids (setParent p n) = ids n := by
  cases n <;> simp

mutual
theorem reown_OK (par own own' : Option Nat) (n : DN) (h : OK par own n) : OK par own' (reown own' n) := by
  match n, h with
  | .text x, _ => simp
  | .el m bs, h =>
    simp only [OK_el] at h
    obtain ⟨hp, _, hc, ht, hs, hk⟩ := h
    simp only [reown_el, OK_el]
    refine ⟨hp, trivial, ?_, ?_, ?_, reownL_OK _ own own' bs hk⟩
    · rw [elemIds_reownL]; exact hc
    · rw [textOf_reownL]; exact ht
    · intro h; unfold noContent; rw [elemIds_reownL, textOf_reownL]; exact hs h
theorem reownL_OK (par own own' : Option Nat) (bs : List DN) (h : OKL par own bs) :
    OKL par own' (reownL own' bs) := by
  match bs, h with
  | [], _ => simp
  | b :: bs, h =>
    simp only [OKL_cons] at h
    simp only [reownL_cons, OKL_cons]
    exact ⟨reown_OK par own own' b h.1, reownL_OK par own own' bs h.2⟩
end

theorem setParent_OK (p p' own : Option Nat) (n : DN) (h : OK p own n) : OK p' own (setParent p' n) := by
  cases n with
  | text x => simp
  | el m bs =>
    simp only [OK_el] at h
    simp only [setParent_el, OK_el]
    exact ⟨trivial, h.2.1, h.2.2.1, h.2.2.2.1, h.2.2.2.2.1, h.2.2.2.2.2⟩

/-- what `attach` does to a consistent tree: it becomes a consistent child of `m` -/
theorem attach_OK (m : Meta) (c : DN) {p o} (h : OK p o c) : OK (some m.id) m.owner (attach m c) :=
  reown_OK _ o _ _ (setParent_OK p _ o c h)

theorem ids_attach (m : Meta) (c : DN) : ids (attach m c) = ids c := by
  unfold attach; rw [ids_reown, ids_setParent]

theorem rid_attach (m : Meta) (c : DN) : (attach m c).rid = c.rid := by
  cases c <;> simp [attach, DN.rid]

theorem isEl_attach (m : Meta) (c : DN) : (attach m c).isEl = c.isEl := by
  cases c <;> simp [attach, DN.isEl]

/-- detaching a consistent subtree gives a detached root -/
theorem detach_Detached {p o} (x : DN) (hx : x.isEl = true) (h : OK p o x) :
    Detached (reown none (setParent none x)) := by
  cases x with
  | text s => simp [DN.isEl] at hx
  | el m bs =>
    refine ⟨{ m with parent := none, owner := none }, reownL none bs, by simp, ?_⟩
    have := reown_OK none o none _ (setParent_OK p none o _ h)
    simpa using this

/-! ### the edit combinator -/

@[simp] theorem upd_text (t f s) : upd t f (.text s) = (.text s, []) := by simp [upd]
theorem upd_el (t f m bs) : upd t f (.el m bs) =
    if m.id = t then (.el (f m bs).m (f m bs).blocks, (f m bs).out)
    else (.el m (updL t f bs).1, (updL t f bs).2) := by simp [upd]
@[simp] theorem updL_nil (t f) : updL t f [] = ([], []) := by simp [updL]
@[simp] theorem updL_cons (t f b bs) : updL t f (b :: bs) =
    ((upd t f b).1 :: (updL t f bs).1, (upd t f b).2 ++ (updL t f bs).2) := by simp [updL]

/-- an edit keeps the uid of the element it is applied to -/
def KeepsId (f : Meta → List DN → Edit) : Prop := ∀ m bs, (f m bs).m.id = m.id

theorem upd_isEl_rid (t f) (hid : KeepsId f) (n : DN) :
    (upd t f n).1.isEl = n.isEl ∧ (upd t f n).1.rid = n.rid := by
  cases n with
  | text s => simp
  | el m bs =>
    rw [upd_el]; split
    · simp [DN.isEl, DN.rid, hid m bs]
    · simp [DN.isEl, DN.rid]

theorem elemIds_updL (t f) (hid : KeepsId f) (bs : List DN) : elemIds (updL t f bs).1 = elemIds bs := by
  induction bs with
  | nil => simp
  | cons b bs ih =>
    cases b with
    | text s => simp [ih]
    | el m k =>
      simp only [updL_cons, upd_el]
      split
      · simp [ih, hid m k]
      · simp [ih]

theorem textOf_updL (t f) (bs : List DN) : textOf (updL t f bs).1 = textOf bs := by
  induction bs with
  | nil => simp
  | cons b bs ih =>
    cases b with
    | text s => simp [ih]
    | el m k =>
      simp only [updL_cons, upd_el]
      split <;> simp [ih]

/-- the local obligation of an edit for `OK`: the rewritten element is consistent in the same context -/
def KeepsOK (f : Meta → List DN → Edit) : Prop :=
  ∀ par own m bs, OK par own (.el m bs) → OK par own (.el (f m bs).m (f m bs).blocks)

mutual
theorem upd_OK (t f) (hid : KeepsId f) (hok : KeepsOK f) (par own) (n : DN) (h : OK par own n) :
    OK par own (upd t f n).1 := by
  match n, h with
  | .text s, _ => simp
  | .el m bs, h =>
    rw [upd_el]; split
    · exact hok par own m bs h
    · simp only [OK_el] at h ⊢
      obtain ⟨hp, ho, hc, ht, hs, hk⟩ := h
      refine ⟨hp, ho, ?_, ?_, ?_, updL_OK t f hid hok _ _ bs hk⟩
      · rw [elemIds_updL t f hid]; exact hc
      · rw [textOf_updL]; exact ht
      · intro h; unfold noContent; rw [elemIds_updL t f hid, textOf_updL]; exact hs h
theorem updL_OK (t f) (hid : KeepsId f) (hok : KeepsOK f) (par own) (bs : List DN) (h : OKL par own bs) :
    OKL par own (updL t f bs).1 := by
  match bs, h with
  | [], _ => simp
  | b :: bs, h =>
    simp only [OKL_cons] at h
    simp only [updL_cons, OKL_cons]
    exact ⟨upd_OK t f hid hok par own b h.1, updL_OK t f hid hok par own bs h.2⟩
end

/-- the local obligation for what leaves the element: detached roots -/
def OutDetached (f : Meta → List DN → Edit) : Prop :=
  ∀ par own m bs, OK par own (.el m bs) → ∀ x ∈ (f m bs).out, Detached x

mutual
theorem upd_out (t f) (ho : OutDetached f) (par own) (n : DN) (h : OK par own n) :
    ∀ x ∈ (upd t f n).2, Detached x := by
  match n, h with
  | .text s, _ => simp
  | .el m bs, h =>
    rw [upd_el]; split
    · exact ho par own m bs h
    · simp only [OK_el] at h
      exact updL_out t f ho _ _ bs h.2.2.2.2.2
theorem updL_out (t f) (ho : OutDetached f) (par own) (bs : List DN) (h : OKL par own bs) :
    ∀ x ∈ (updL t f bs).2, Detached x := by
  match bs, h with
  | [], _ => simp
  | b :: bs, h =>
    simp only [OKL_cons] at h
    intro x hx
    simp only [updL_cons, List.mem_append] at hx
    cases hx with
    | inl hx => exact upd_out t f ho par own b h.1 x hx
    | inr hx => exact updL_out t f ho par own bs h.2 x hx
end

mutual
/-- an element that is not there is not edited -/
theorem upd_not_mem (t f) (n : DN) (h : t ∉ ids n) : upd t f n = (n, []) := by
  match n with
  | .text s => simp
  | .el m bs =>
    simp only [ids_el, List.mem_cons, not_or] at h
    rw [upd_el, if_neg (fun e => h.1 e.symm), updL_not_mem t f bs h.2]
theorem updL_not_mem (t f) (bs : List DN) (h : t ∉ idsL bs) : updL t f bs = (bs, []) := by
  match bs with
  | [] => simp
  | b :: bs =>
    simp only [idsL_cons, List.mem_append, not_or] at h
    rw [updL_cons, upd_not_mem t f b h.1, updL_not_mem t f bs h.2]
    rfl
end

/-- the local obligation for uids: the edit keeps the uids of the element, adding `extra` -/
def IdsPlus (f : Meta → List DN → Edit) (extra : List Nat) : Prop :=
  ∀ m bs, ((f m bs).m.id :: idsL (f m bs).blocks ++ idsL (f m bs).out).Perm (m.id :: idsL bs ++ extra)

mutual
theorem upd_ids (t f extra) (hp : IdsPlus f extra) (n : DN) (hn : (ids n).Nodup) (ht : t ∈ ids n) :
    (ids (upd t f n).1 ++ idsL (upd t f n).2).Perm (ids n ++ extra) := by
  match n with
  | .text s => simp at ht
  | .el m bs =>
    rw [upd_el]; split
    · simpa using hp m bs
    · rename_i hne
      simp only [ids_el, List.mem_cons] at ht
      have ht' : t ∈ idsL bs := by
        cases ht with
        | inl h => exact absurd h.symm hne
        | inr h => exact h
      simp only [ids_el, List.nodup_cons] at hn
      have := updL_ids t f extra hp bs hn.2 ht'
      simp only [ids_el, List.cons_append]
      exact List.Perm.cons _ this
theorem updL_ids (t f extra) (hp : IdsPlus f extra) (bs : List DN) (hn : (idsL bs).Nodup) (ht : t ∈ idsL bs) :
    (idsL (updL t f bs).1 ++ idsL (updL t f bs).2).Perm (idsL bs ++ extra) := by
  match bs with
  | [] => simp at ht
  | b :: bs =>
    simp only [idsL_cons, List.mem_append] at ht
    simp only [idsL_cons] at hn
    have hd := List.nodup_append.mp hn
    simp only [updL_cons, idsL_cons, idsL_append]
    by_cases hb : t ∈ ids b
    · have hnot : t ∉ idsL bs := fun h => hd.2.2 t hb t h rfl
      rw [updL_not_mem t f bs hnot]
      have := upd_ids t f extra hp b hd.1 hb
      simp only [idsL_nil, List.append_nil]
      -- (ids b' ++ idsL bs) ++ out  ~  (ids b ++ idsL bs) ++ extra
      have h1 : (ids (upd t f b).1 ++ idsL bs ++ idsL (upd t f b).2).Perm
          (ids (upd t f b).1 ++ idsL (upd t f b).2 ++ idsL bs) := by
        rw [List.append_assoc, List.append_assoc]
        exact List.Perm.append_left _ List.perm_append_comm
      have h2 : (ids b ++ extra ++ idsL bs).Perm (ids b ++ idsL bs ++ extra) := by
        rw [List.append_assoc, List.append_assoc]
        exact List.Perm.append_left _ List.perm_append_comm
      exact h1.trans ((List.Perm.append_right _ this).trans h2)
    · have hbs : t ∈ idsL bs := by
        cases ht with
        | inl h => exact absurd h hb
        | inr h => exact h
      rw [upd_not_mem t f b hb]
      have := updL_ids t f extra hp bs hd.2.1 hbs
      simp only [idsL_nil, List.nil_append]
      rw [List.append_assoc, List.append_assoc]
      exact List.Perm.append_left _ this
end

/-! ### `find?` -/

@[simp] theorem find?_text (t s) : find? t (.text s) = none := by simp [find?]
theorem find?_el (t m bs) : find? t (.el m bs) = if m.id = t then some (m, bs) else findL? t bs := by simp [find?]
@[simp] theorem findL?_nil (t) : findL? t [] = none := by simp [findL?]
theorem findL?_cons (t b bs) : findL? t (b :: bs) = match find? t b with
    | some r => some r
    | none => findL? t bs := by
  rw [findL?]; cases find? t b <;> rfl

mutual
theorem find?_mem (t) (n : DN) {r} (h : find? t n = some r) : t ∈ ids n := by
  match n with
  | .text s => simp at h
  | .el m bs =>
    rw [find?_el] at h
    split at h
    · simp [*]
    · simp [findL?_mem t bs h]
theorem findL?_mem (t) (bs : List DN) {r} (h : findL? t bs = some r) : t ∈ idsL bs := by
  match bs with
  | [] => simp at h
  | b :: bs =>
    rw [findL?_cons] at h
    split at h
    · rename_i r' hr; simp [find?_mem t b hr]
    · simp [findL?_mem t bs h]
end

mutual
/-- what `find?` returns is an element of the tree that is consistent in its context, with uid `t` -/
theorem find?_OK (t) (n : DN) {par own} (hn : OK par own n) {m bs} (h : find? t n = some (m, bs)) :
    m.id = t ∧ ∃ p o, OK p o (.el m bs) := by
  match n with
  | .text s => simp at h
  | .el m' bs' =>
    rw [find?_el] at h
    split at h
    · rename_i he
      simp only [Option.some.injEq, Prod.mk.injEq] at h
      obtain ⟨rfl, rfl⟩ := h
      exact ⟨he, par, own, hn⟩
    · simp only [OK_el] at hn
      exact findL?_OK t bs' hn.2.2.2.2.2 h
theorem findL?_OK (t) (l : List DN) {par own} (hn : OKL par own l) {m bs} (h : findL? t l = some (m, bs)) :
    m.id = t ∧ ∃ p o, OK p o (.el m bs) := by
  match l with
  | [] => simp at h
  | b :: l' =>
    simp only [OKL_cons] at hn
    rw [findL?_cons] at h
    split at h
    · rename_i r hr
      simp only [Option.some.injEq] at h
      subst h
      exact find?_OK t b hn.1 hr
    · exact findL?_OK t l' hn.2 h
end

end AHP.Dom
