/-
  AHP.Lemmas.AttrsWriteOps — the FRAME law for every operation of the attribute store, and the readers as
  functions of the one list (so that a law about the list is a law about every reader).

    `addresses T op`   the (lower-case) keys an operation may write;
    `frame_lookup`     every key outside `addresses T op` is listed after the operation exactly as before —
                       for every operation, every key (class and style included), every state satisfying `DictInv`;
    `readers_congr`    `attributes[k]`, `attributes.get`, `getAttribute`, `hasAttribute`, `in`, the DOM node: equal on
                       two states that list the same under `k`.
-/
import AHP.Lemmas.AttrsWrite
namespace AHP.Attrs
open AHP

/-- the keys (as stored: lower-case) an operation may write -/
def addresses (T : Tables) : Op → List Str
  | .setAttr n _ => [lower n]
  | .setAttrs l => l.map (fun p => lower p.1)
  | .rmAttr n => [lower n]
  | .mapSet n _ => [lower n]
  | .mapDel n => [lower n]
  | .dot n _ =>
    if n = classNameK then [classK]
    else match aget n T.links with
      | none => []
      | some L => [lower L.attr]
  | .addClass _ => [classK]
  | .rmClass _ => [classK]
  | .className _ => [classK]
  | .styDot _ _ => [styleK]
  | .styProp _ _ => [styleK]
  | .setStyle _ _ => [styleK]
  | .setStyles _ => [styleK]
  | .styAssign _ => [styleK]
  | .styCopy _ => [styleK]
  | .stySelf => []
  | .sync => []

/-! #### the raw slot under an ordinary key is touched only by the operations that address it -/

theorem mapDel_aget_other {k k' : Str} (e : El) (hne : lower k' ≠ k) (hs : k ≠ styleK) :
    aget k (mapDel k' e).dict = aget k e.dict := by
  unfold mapDel
  simp only
  split
  · unfold assignStyle; exact ensureStyle_aget_other _ hs
  · split
    · rfl
    · exact aget_adel_ne (Ne.symm hne) _

theorem setAttribute_aget_other (T : Tables) {k k' : Str} (v : Option Str) (e : El) (hne : lower k' ≠ k) (hs : k ≠ styleK) :
    aget k (setAttribute T k' v e).2.dict = aget k e.dict := by
  unfold setAttribute
  split
  · rfl
  · exact mapSet_aget_other T v e hne hs

theorem setAttributes_aget_other (T : Tables) {k : Str} (hs : k ≠ styleK) : ∀ (l : List (Str × Option Str)) (e : El),
    (∀ p ∈ l, lower p.1 ≠ k) → aget k (setAttributes T l e).2.dict = aget k e.dict
  | [], _, _ => rfl
  | (n, v) :: r, e, h => by
    unfold setAttributes
    have h1 := setAttribute_aget_other T v e (h (n, v) (by simp)) hs
    split
    · next e' heq =>
      rw [heq] at h1
      rw [setAttributes_aget_other T hs r e' (fun p hp => h p (List.mem_cons_of_mem _ hp))]
      exact h1
    · next o e' _ heq => rw [heq] at h1; exact h1

theorem getAttribute_aget_other (T : Tables) (n : Str) (d : PyVal) (e : El) {k : Str} (hc : k ≠ classK) (hs : k ≠ styleK) :
    aget k (getAttribute T n d e).2.dict = aget k e.dict := by
  rcases getAttribute_snd T n d e with h | h <;> rw [h]
  exact aget_other_sync e hc hs

theorem dotSet_aget_other (T : Tables) {n : Str} (v : DotVal) (e : El) {k : Str} (hc : k ≠ classK) (hs : k ≠ styleK)
    (hl : n ≠ classNameK → ∀ L, aget n T.links = some L → lower L.attr ≠ k) :
    aget k (dotSet T n v e).2.dict = aget k e.dict := by
  unfold dotSet
  by_cases hn : n = classNameK
  · rw [if_pos hn]; rfl
  · rw [if_neg hn]
    split
    · rfl
    · next L heq =>
      have hk := hl hn L heq
      split
      · rfl
      · split
        · have h1 := setAttribute_aget_other T (some v.boolString) e hk hs
          split
          · next e' heq2 =>
            rw [heq2] at h1
            dsimp only
            rw [getAttribute_aget_other T _ _ _ hc hs]
            exact h1
          · next r hne => exact h1
        · split
          · split
            · exact setAttribute_aget_other T _ e hk hs
            · unfold removeAttribute
              exact mapDel_aget_other e (by rw [lower_idem]; exact hk) hs
          · exact setAttribute_aget_other T _ e hk hs

theorem setStyles_aget_other {k : Str} (hs : k ≠ styleK) : ∀ (l : List (Str × Option Str)) (e : El),
    aget k (setStyles l e).dict = aget k e.dict
  | [], _ => rfl
  | p :: l, e => by
    unfold setStyles
    simp only [List.foldl_cons]
    have := setStyles_aget_other hs l (setStyle p.1 p.2 e)
    unfold setStyles at this
    rw [this]
    unfold setStyle styleDotSet
    exact ensureStyle_aget_other _ hs

theorem step_raw_frame (T : Tables) (op : Op) (e : El) {k : Str} (hc : k ≠ classK) (hs : k ≠ styleK)
    (hk : k ∉ addresses T op) : aget k (step T e op).2.dict = aget k e.dict := by
  cases op <;> dsimp only [step]
  case setAttr n v => exact setAttribute_aget_other T v e (fun h => hk (by simp [addresses, h])) hs
  case setAttrs l =>
    apply setAttributes_aget_other T hs
    intro p hp h
    exact hk (by simp only [addresses, List.mem_map]; exact ⟨p, hp, h⟩)
  case rmAttr n =>
    unfold removeAttribute
    exact mapDel_aget_other e (by rw [lower_idem]; exact fun h => hk (by simp [addresses, h])) hs
  case mapSet n v => exact mapSet_aget_other T v e (fun h => hk (by simp [addresses, h])) hs
  case mapDel n => exact mapDel_aget_other e (fun h => hk (by simp [addresses, h])) hs
  case dot n v =>
    apply dotSet_aget_other T v e hc hs
    intro hn L hL h
    apply hk
    simp only [addresses, hn, if_false, hL, List.mem_singleton]
    exact h.symm
  case addClass s => rfl
  case rmClass s => rfl
  case className v => rfl
  case styDot n v => unfold styleDotSet; exact ensureStyle_aget_other _ hs
  case styProp n v => unfold setProperty; exact ensureStyle_aget_other _ hs
  case setStyle n v => unfold setStyle styleDotSet; exact ensureStyle_aget_other _ hs
  case setStyles l => exact setStyles_aget_other hs l e
  case styAssign v => unfold assignStyle; exact ensureStyle_aget_other _ hs
  case styCopy src => unfold assignStyleFrom assignStyle; exact ensureStyle_aget_other _ hs
  case stySelf => exact ensureStyle_aget_other _ hs
  case sync => exact aget_other_sync e hc hs

/-! #### an operation that does not address `class` / `style` keeps the class list / the style map -/

theorem step_cls_of_addresses (T : Tables) (op : Op) (e : El) (h : classK ∉ addresses T op) :
    (step T e op).2.cls = e.cls := by
  cases op <;> simp only [addresses, List.mem_singleton, List.mem_map] at h
  case dot n v =>
    by_cases hn : n = classNameK
    · simp [hn] at h
    · apply step_cls_frame T (.dot n v) ⟨hn, ?_⟩ e
      intro L hL e'
      simp only [hn, if_false, hL, List.mem_singleton] at h
      exact h e'.symm
  case setAttr n v => exact step_cls_frame T (.setAttr n v) (fun e' => h e'.symm) e
  case setAttrs l => exact step_cls_frame T (.setAttrs l) (fun p hp e' => h ⟨p, hp, e'⟩) e
  case rmAttr n => exact step_cls_frame T (.rmAttr n) (fun e' => h e'.symm) e
  case mapSet n v => exact step_cls_frame T (.mapSet n v) (fun e' => h e'.symm) e
  case mapDel n => exact step_cls_frame T (.mapDel n) (fun e' => h e'.symm) e
  case addClass s => exact absurd trivial h
  case rmClass s => exact absurd trivial h
  case className v => exact absurd trivial h
  case styDot n v => exact step_cls_frame T (.styDot n v) trivial e
  case styProp n v => exact step_cls_frame T (.styProp n v) trivial e
  case setStyle n v => exact step_cls_frame T (.setStyle n v) trivial e
  case setStyles l => exact step_cls_frame T (.setStyles l) trivial e
  case styAssign v => exact step_cls_frame T (.styAssign v) trivial e
  case styCopy src => exact step_cls_frame T (.styCopy src) trivial e
  case stySelf => exact step_cls_frame T .stySelf trivial e
  case sync => exact step_cls_frame T .sync trivial e

theorem step_sty_of_addresses (T : Tables) (op : Op) (e : El) (h : styleK ∉ addresses T op) :
    (step T e op).2.sty = e.sty := by
  cases op <;> simp only [addresses, List.mem_singleton, List.mem_map] at h
  case dot n v =>
    by_cases hn : n = classNameK
    · -- `className` is intercepted before the tables are read: only the class list changes
      show (dotSet T n v e).2.sty = e.sty
      unfold dotSet
      rw [if_pos hn]
      rfl
    · apply step_sty_frame T (.dot n v) ?_ e
      intro L hL e'
      simp only [hn, if_false, hL, List.mem_singleton] at h
      exact h e'.symm
  case setAttr n v => exact step_sty_frame T (.setAttr n v) (fun e' => h e'.symm) e
  case setAttrs l => exact step_sty_frame T (.setAttrs l) (fun p hp e' => h ⟨p, hp, e'⟩) e
  case rmAttr n => exact step_sty_frame T (.rmAttr n) (fun e' => h e'.symm) e
  case mapSet n v => exact step_sty_frame T (.mapSet n v) (fun e' => h e'.symm) e
  case mapDel n => exact step_sty_frame T (.mapDel n) (fun e' => h e'.symm) e
  case addClass s => exact step_sty_frame T (.addClass s) trivial e
  case rmClass s => exact step_sty_frame T (.rmClass s) trivial e
  case className v => exact step_sty_frame T (.className v) trivial e
  case styDot n v => exact absurd trivial h
  case styProp n v => exact absurd trivial h
  case setStyle n v => exact absurd trivial h
  case setStyles l => exact absurd trivial h
  case styAssign v => exact absurd trivial h
  case styCopy src => exact absurd trivial h
  case stySelf => exact step_sty_frame T .stySelf trivial e
  case sync => exact step_sty_frame T .sync trivial e

/-- **FRAME, every operation, every key.** A key the operation does not address is listed afterwards exactly as
    before (present or absent, same value) — in every state satisfying the invariant of all histories. -/
theorem frame_lookup (T : Tables) (op : Op) {e : El} (h : DictInv e) {k : Str} (hk : k ∉ addresses T op) :
    aget k (viewList (step T e op).2) = aget k (viewList e) := by
  have h' := dictInv_step T op h
  rw [viewList_lookup h', viewList_lookup h]
  by_cases hc : k = classK
  · subst hc
    have := step_cls_of_addresses T op e hk
    simp only [if_true]
    unfold El.className
    rw [this]
  · by_cases hs : k = styleK
    · subst hs
      have := step_sty_of_addresses T op e hk
      simp only [hc, if_false, if_true]
      rw [this]
    · simp only [hc, hs, if_false]
      unfold rawLookup
      rw [step_raw_frame T op e hc hs hk]

/-! #### the per-key readers are functions of the one list -/

/-- two states (both inside the invariants of all histories) that list the same under `k` answer the same through
    `attributes[k]`, `attributes.get(k, d)`, `getAttribute(k, d)`, `hasAttribute(k)`, `k in attributes` and the DOM
    node map — for every key other than class / style (C09 / C10 read those from the class list / the style map) -/
theorem readers_congr (T : Tables) {e e' : El} (h : DictInv e) (h' : DictInv e') (hb : BinStrInv T e) (hb' : BinStrInv T e')
    {k : Str} (hc : lower k ≠ classK) (hs : lower k ≠ styleK)
    (hsame : aget (lower k) (viewList e') = aget (lower k) (viewList e)) (d : PyVal) :
    getitem T k e' = getitem T k e ∧ (mapGet T k d e').1 = (mapGet T k d e).1 ∧
    (getAttribute T k d e').1 = (getAttribute T k d e).1 ∧ hasAttribute k e' = hasAttribute k e ∧
    contains k e' = contains k e ∧ domItem T k e' = domItem T k e := by
  have hget : ∀ k0, lower k0 = lower k → getitem T k0 e' = getitem T k0 e := by
    intro k0 hk0
    cases hk : T.binStr.contains (lower k0) with
    | true =>
      rw [getitem_binStr T h' hb' (by rw [hk0]; exact hc) (by rw [hk0]; exact hs) hk,
          getitem_binStr T h hb (by rw [hk0]; exact hc) (by rw [hk0]; exact hs) hk, hk0, hsame]
    | false =>
      rw [getitem_eq_viewList T h' (by rw [hk0]; exact hc) (by rw [hk0]; exact hs) hk,
          getitem_eq_viewList T h (by rw [hk0]; exact hc) (by rw [hk0]; exact hs) hk, hk0, hsame]
  have hcont : ∀ k0, lower k0 = lower k → contains k0 e' = contains k0 e := by
    intro k0 hk0
    rw [contains_eq_viewList h', contains_eq_viewList h, hk0, hsame]
  have hmg : (mapGet T k d e').1 = (mapGet T k d e).1 := by
    rw [mapGet_listed T h' hb' hc hs, mapGet_listed T h hb hc hs, hsame]
  refine ⟨hget k rfl, hmg, ?_, ?_, hcont k rfl, ?_⟩
  · unfold getAttribute
    cases T.binary.contains k with
    | true =>
      simp only [if_true]
      rw [hcont k rfl, hget k rfl]
      cases contains k e <;> rfl
    | false => simp only [Bool.false_eq_true, if_false]; exact hmg
  · unfold hasAttribute
    exact hcont (lower k) (lower_idem k)
  · unfold domItem
    simp only
    rw [hcont (lower k) (lower_idem k), hget (lower k) (lower_idem k)]

end AHP.Attrs
