/-
  AHP.Lemmas.FormatLexPretty — C12d at string level, tree side: **what re-tokenising and re-formatting does to the
  blocks of pretty output, and why it stops changing after the second pass**.

  One pass of a formatter followed by re-tokenisation maps the children `kk` of an element `m` that sits in context
  `c` to `gK cfg c m sc kk = mergeL (expandL … kk ++ dataTok (endInd …))` (`outRoot` of `FormatLexDoc` is `gK` at the
  root).  `mergeL ∘ expandL` is computed from the left by `mx_data` / `mx_tok` / `mx_elem` (`pushData` = put a data
  text in front of a merged block list).  Then, for the pretty classes (`cfg.mini = false`, indent unit of
  spaces/tabs) and every strict tree: `gK (gK (gK kk)) = gK (gK kk)` (`stabN`), by cases on where the element sits:

  * below pre/code, or pre/code itself: nothing is rewritten, `gK kk = mergeL kk`, already `gK (gK kk) = gK kk`;
  * script/style outside pre/code: the content becomes one data block that ends with the element's `_indent` after
    the first pass; `getEndTag` then omits the indent — `gK (gK kk) = gK kk` (the fix `2c6b5d9`);
  * every other element: the position-wise induction `stabL`.  After the first pass every element child is preceded
    by a data block that ends with the child's `_indent` `I`, and the last block ends with the element's own
    `_indent`; the data block `d ++ I` becomes `sq (d ++ I) ++ I` in the next pass and
    `sq (sq (d ++ I) ++ I) ++ I = sq (d ++ I) ++ I` in the one after (`squeeze_indent_stable`); data blocks that meet
    no indent are fixed by idempotence of the data rule.
-/
import AHP.Lemmas.FormatLexMini
namespace AHP.Fmt
open AHP

/-! ### a data text in front of a merged block list -/

/-- put the data text `a` in front of `r`: nothing for the empty text, glued to a leading data block -/
def pushData (a : Str) (r : List FNode) : List FNode := if a.isEmpty then r else pushTok (.data a) r

theorem pushData_nil (r : List FNode) : pushData [] r = r := by simp [pushData]

theorem pushData_ne (a : Str) (h : a ≠ []) (r : List FNode) : pushData a r = pushTok (.data a) r := by
  have : a.isEmpty = false := by cases a <;> simp_all
  simp [pushData, this]

theorem pushTok_notData (t : Token) (h : isData t = false) (r : List FNode) : pushTok t r = .tok t :: r := by
  unfold pushTok
  split
  · simp [isData] at h
  · rfl

theorem pushTok_data_nil (a : Str) : pushTok (.data a) [] = [.tok (.data a)] := by
  unfold pushTok
  split
  · rename_i heq; simp at heq
  · rfl

theorem pushTok_data_data (a b : Str) (r : List FNode) :
    pushTok (.data a) (.tok (.data b) :: r) = .tok (.data (a ++ b)) :: r := by
  simp [pushTok]

theorem pushTok_data_tok (a : Str) (t : Token) (h : isData t = false) (r : List FNode) :
    pushTok (.data a) (.tok t :: r) = .tok (.data a) :: .tok t :: r := by
  unfold pushTok
  split
  · rename_i heq
    simp only [List.cons.injEq, FNode.tok.injEq] at heq
    rw [heq.1] at h
    simp [isData] at h
  · rfl

theorem pushData_empty (a : Str) : pushData a [] = dataTok a := by
  unfold pushData dataTok
  split
  · rfl
  · exact pushTok_data_nil a

theorem pushData_data (a b : Str) (r : List FNode) :
    pushData a (.tok (.data b) :: r) = .tok (.data (a ++ b)) :: r := by
  unfold pushData
  split
  · rename_i h
    have : a = [] := by simpa using h
    subst this; rfl
  · exact pushTok_data_data a b r

theorem pushData_tok (a : Str) (t : Token) (h : isData t = false) (r : List FNode) :
    pushData a (.tok t :: r) = dataTok a ++ .tok t :: r := by
  unfold pushData dataTok
  split
  · rfl
  · exact pushTok_data_tok a t h r

theorem pushData_elem (a : Str) (n : Str) (st : AStore) (sc : Bool) (kids r : List FNode) :
    pushData a (.elem n st sc kids :: r) = dataTok a ++ .elem n st sc kids :: r := by
  unfold pushData dataTok
  split
  · rfl
  · exact pushTok_elem _ n st sc kids r

theorem pushData_dataTok (a b : Str) : pushData a (dataTok b) = dataTok (a ++ b) := by
  by_cases hb : b = []
  · subst hb
    simp [dataTok, pushData_empty]
  · rw [dataTok_ne b hb, pushData_data, dataTok_ne]
    simp [hb]

theorem pushData_pushData (a b : Str) (r : List FNode) : pushData a (pushData b r) = pushData (a ++ b) r := by
  by_cases hb : b = []
  · subst hb; simp [pushData_nil]
  · cases r with
    | nil => rw [pushData_empty, pushData_empty, pushData_dataTok]
    | cons k r' =>
      cases k with
      | elem n st sc kids =>
        rw [pushData_elem, pushData_elem, dataTok_ne b hb]
        simp only [List.cons_append, List.nil_append]
        rw [pushData_data, dataTok_ne _ (by simp [hb])]
        rfl
      | tok t =>
        by_cases hd : isData t = true
        · cases t with
          | data c =>
            rw [pushData_data, pushData_data, pushData_data, List.append_assoc]
          | _ => simp [isData] at hd
        · have hd' : isData t = false := by simpa using hd
          rw [pushData_tok b t hd', pushData_tok (a ++ b) t hd', dataTok_ne b hb]
          simp only [List.cons_append, List.nil_append]
          rw [pushData_data, dataTok_ne _ (by simp [hb])]
          rfl

theorem mergeL_dataTok_append (a : Str) (l : List FNode) : mergeL (dataTok a ++ l) = pushData a (mergeL l) := by
  unfold dataTok pushData
  split
  · rfl
  · simp [mergeL]

theorem mergeL_dataTok (a : Str) : mergeL (dataTok a) = dataTok a := by
  have := mergeL_dataTok_append a []
  simp only [List.append_nil] at this
  rw [this]
  simp [mergeL, pushData_empty]

/-! ### `mergeL ∘ expandL`, from the left -/

/-- what one formatter pass followed by re-tokenisation makes of the children `kk` of the element `m` (self-closing
    flag `sc`) that sits in context `c` -/
def gK (cfg : Cfg) (c : Ctx) (m : Str) (sc : Bool) (kk : List FNode) : List FNode :=
  mergeL (if sc then [] else
    expandL cfg (c.push m) m kk
      ++ dataTok (endInd m (indentAt cfg c) (decorateL cfg (c.push m) m (toNodeL kk))))

theorem outRoot_eq_gK (cfg : Cfg) (n : Str) (st : AStore) (sc : Bool) (kids : List FNode) :
    outRoot cfg n st sc kids = .elem n st sc (gK cfg ⟨0, 0⟩ n sc kids) := rfl

theorem mx_data (cfg : Cfg) (c : Ctx) (p s : Str) (ks z : List FNode) :
    mergeL (expandL cfg c p (.tok (.data s) :: ks) ++ z)
      = pushData (dataRule c p s) (mergeL (expandL cfg c p ks ++ z)) := by
  simp only [expandL, expand, expandTok, List.append_assoc]
  exact mergeL_dataTok_append _ _

theorem mx_tok (cfg : Cfg) (c : Ctx) (p : Str) (t : Token) (h : isData t = false) (ks z : List FNode) :
    mergeL (expandL cfg c p (.tok t :: ks) ++ z) = .tok t :: mergeL (expandL cfg c p ks ++ z) := by
  have he : expandTok c p t = [.tok t] := by
    cases t <;> first | rfl | simp [isData] at h
  simp only [expandL, expand, he, List.cons_append, List.nil_append, mergeL]
  exact pushTok_notData t h _

theorem mx_elem (cfg : Cfg) (c : Ctx) (p m : Str) (st : AStore) (sc : Bool) (kk ks z : List FNode) :
    mergeL (expandL cfg c p (.elem m st sc kk :: ks) ++ z)
      = pushData (indentAt cfg c) (.elem m st sc (gK cfg c m sc kk) :: mergeL (expandL cfg c p ks ++ z)) := by
  simp only [expandL, expand, List.append_assoc, List.cons_append, List.nil_append]
  rw [mergeL_dataTok_append]
  simp only [mergeL, gK]

theorem mx_dataTok (cfg : Cfg) (c : Ctx) (p a : Str) (hr : dataRule c p [] = []) (l z : List FNode) :
    mergeL (expandL cfg c p (dataTok a ++ l) ++ z)
      = pushData (dataRule c p a) (mergeL (expandL cfg c p l ++ z)) := by
  by_cases ha : a = []
  · subst ha
    simp [dataTok, hr, pushData_nil]
  · rw [dataTok_ne a ha]
    exact mx_data cfg c p a l z

/-! ### tables, contexts, indents -/

theorem preTags_eq : preTags = [str "code", str "pre"] := by decide
theorem preserveTags_eq : preserveTags = [str "code", str "pre", str "script", str "style"] := by decide

/-- content is preserved in pre/code and in the raw-text elements, nowhere else -/
theorem preserve_cases (n : Str) (h : isPreserve n = true) : isPre n = true ∨ isRawText n = true := by
  simp only [isPreserve, isPre, preserveTags_eq, preTags_eq, isRawText, List.contains_cons, List.contains_nil,
    Bool.or_false, Bool.or_eq_true, beq_iff_eq, decide_eq_true_eq, str] at h ⊢
  rcases h with h | h | h | h
  · exact Or.inl (Or.inl h)
  · exact Or.inl (Or.inr h)
  · exact Or.inr (Or.inl h)
  · exact Or.inr (Or.inr h)

theorem pre_preserve (n : Str) (h : isPre n = true) : isPreserve n = true := by
  simp only [isPreserve, isPre, preserveTags_eq, preTags_eq, List.contains_cons, List.contains_nil,
    Bool.or_false, Bool.or_eq_true, beq_iff_eq] at h ⊢
  rcases h with h | h
  · exact Or.inl h
  · exact Or.inr (Or.inl h)

theorem raw_not_pre (n : Str) (h : isRawText n = true) : isPre n = false := by
  rcases rawName_cases n h with rfl | rfl <;> decide

theorem squeeze_nil : squeeze [] = [] := by decide

theorem dataRule_nil (c : Ctx) (p : Str) : dataRule c p [] = [] := by
  unfold dataRule
  split
  · exact squeeze_nil
  · rfl

theorem dataRule_sq (c : Ctx) (p s : Str) (hc : c.inPre = 0) (hp : isPreserve p = false) :
    dataRule c p s = squeeze s := by
  simp [dataRule, hc, hp]

theorem dataRule_id_pre (c : Ctx) (p s : Str) (hc : c.inPre ≠ 0) : dataRule c p s = s := by
  simp [dataRule, hc]

theorem dataRule_id_preserve (c : Ctx) (p s : Str) (hp : isPreserve p = true) : dataRule c p s = s := by
  simp [dataRule, hp]

theorem push_inPre_zero (c : Ctx) (n : Str) (hc : c.inPre = 0) (hn : isPre n = false) : (c.push n).inPre = 0 := by
  simp [Ctx.push, hc, hn]

theorem push_inPre_of_pre (c : Ctx) (n : Str) (hn : isPre n = true) : (c.push n).inPre ≠ 0 := by
  simp [Ctx.push, hn]

theorem indentAt_pre (cfg : Cfg) (c : Ctx) (hc : c.inPre ≠ 0) : indentAt cfg c = [] := by
  simp [indentAt, hc]

theorem rep_unit (n : Nat) (s : Str) (h : ∀ c ∈ s, c = ' ' ∨ c = '\t') : ∀ c ∈ rep n s, c = ' ' ∨ c = '\t' := by
  induction n with
  | zero => intro c hc; simp [rep] at hc
  | succ k ih =>
    intro c hc
    simp only [rep, List.mem_append] at hc
    rcases hc with hc | hc
    · exact h c hc
    · exact ih c hc

/-- the `_indent` of the pretty classes outside pre/code: a line break, then `level` copies of the unit -/
theorem indentAt_pretty (cfg : Cfg) (hm : cfg.mini = false) (c : Ctx) (hc : c.inPre = 0) :
    indentAt cfg c = '\n' :: rep c.level cfg.indent := by
  simp [indentAt, getIndent, hc, hm]

theorem indentAt_isIndent (cfg : Cfg) (hm : cfg.mini = false) (hi : IndentWS cfg) (c : Ctx) (hc : c.inPre = 0) :
    IsIndent (indentAt cfg c) := by
  rw [indentAt_pretty cfg hm c hc]
  exact ⟨_, rfl, rep_unit _ _ hi⟩

theorem isIndent_ne (i : Str) (h : IsIndent i) : i ≠ [] := by
  obtain ⟨j, rfl, _⟩ := h
  simp

/-- `getEndTag` writes nothing before `</name>` for pre/code and below pre/code -/
theorem endInd_pre (cfg : Cfg) (c : Ctx) (m : Str) (kids : List Node) (h : c.inPre ≠ 0 ∨ isPre m = true) :
    endInd m (indentAt cfg c) kids = [] := by
  by_cases hc : c.inPre = 0
  · rcases h with h | h
    · exact absurd hc h
    · unfold endInd
      by_cases he : (indentAt cfg c).isEmpty = true
      · have : indentAt cfg c = [] := by simpa using he
        simp [this]
      · simp [he, h]
  · rw [indentAt_pre cfg c hc]
    exact endInd_nil m kids

/-- … and the `_indent` for every element that is neither pre/code nor script/style -/
theorem endInd_normal (m ind : Str) (kids : List Node) (hp : isPreserve m = false) : endInd m ind kids = ind := by
  have hpre : isPre m = false := by
    cases h : isPre m with
    | false => rfl
    | true => rw [pre_preserve m h] at hp; cases hp
  simp [endInd, hp, hpre]

/-! ### below pre/code nothing is rewritten -/

mutual
theorem expand_inPre (cfg : Cfg) (c : Ctx) (p : Str) (hc : c.inPre ≠ 0) :
    ∀ u : FNode, u.Buildable → expand cfg c p u = [u]
  | .tok t, h => by
    simp only [FNode.Buildable] at h
    cases t with
    | data s =>
      simp only [expand, expandTok, dataRule_id_pre c p s hc]
      exact dataTok_ne s (h.2 s rfl)
    | _ => rfl
  | .elem n st sc kids, h => by
    simp only [FNode.Buildable] at h
    obtain ⟨_, _, hsc, _, hk⟩ := h
    simp only [expand, indentAt_pre cfg c hc, endInd_nil, dataTok, List.isEmpty_nil, if_true, List.nil_append,
      List.append_nil]
    cases sc with
    | true => rw [hsc rfl]; rfl
    | false =>
      simp only [Bool.false_eq_true, if_false]
      rw [expandL_inPre cfg (c.push n) n (push_inPre_pos c n hc) kids hk]
theorem expandL_inPre (cfg : Cfg) (c : Ctx) (p : Str) (hc : c.inPre ≠ 0) :
    ∀ ks : List FNode, BuildableL ks → expandL cfg c p ks = ks
  | [], _ => rfl
  | k :: ks, h => by
    simp only [BuildableL] at h
    simp only [expandL]
    rw [expand_inPre cfg c p hc k h.1, expandL_inPre cfg c p hc ks h.2]
    rfl
end

theorem mergeL_idem (ks : List FNode) : mergeL (mergeL ks) = mergeL ks :=
  mergeL_glued _ (glued_mergeL ks).1 (glued_mergeL ks).2

/-- pre/code elements and everything below pre/code: one pass glues adjacent data blocks, a second one changes
    nothing -/
theorem gK_pre (cfg : Cfg) (c : Ctx) (m : Str) (kk : List FNode) (h : c.inPre ≠ 0 ∨ isPre m = true)
    (hb : BuildableL kk) : gK cfg c m false kk = mergeL kk := by
  have hc' : (c.push m).inPre ≠ 0 := by
    rcases h with h | h
    · exact push_inPre_pos c m h
    · exact push_inPre_of_pre c m h
  unfold gK
  simp only [Bool.false_eq_true, if_false]
  rw [endInd_pre cfg c m _ h, expandL_inPre cfg _ m hc' kk hb]
  simp [dataTok]

/-! ### script/style outside pre/code -/

theorem mergeL_rawText (l : List FNode) (raw : Str) (h : rawText l = some raw) : mergeL l = dataTok raw := by
  have h1 := rawText_mergeL l raw h
  rcases rawText_noAdj (mergeL l) raw h1 (glued_mergeL l).2 with ⟨e1, e2⟩ | ⟨e1, e2⟩
  · rw [e1, e2]; rfl
  · rw [e1, dataTok_ne raw e2]

theorem lastText_data (ind s : Str) (c : Ctx) (cfg : Cfg) (m : Str) (hp : isPreserve m = true) :
    lastTextEndsWith ind (decorateL cfg c m (toNodeL [.tok (.data s)])) = endsWith ind s := by
  simp [toNodeL, FNode.toNode, isVerb, renderTok, decorateL, decorate, hp, lastTextEndsWith]

theorem endsWith_iff (suf s : Str) : endsWith suf s = true ↔ suf <:+ s := by
  simp [endsWith, List.isSuffixOf_iff_suffix]

/-- if the last block of raw content ends with the indent, the content does -/
theorem lastText_raw (cfg : Cfg) (c : Ctx) (m : Str) (hp : isPreserve m = true) (ind : Str) (hne : ind ≠ []) :
    ∀ (kk : List FNode) (raw : Str), rawText kk = some raw →
      lastTextEndsWith ind (decorateL cfg c m (toNodeL kk)) = true → ind <:+ raw
  | [], raw, _, h => by
    simp only [toNodeL, decorateL, lastTextEndsWith, List.getLast?_nil] at h
    rw [endsWith_iff] at h
    exact absurd (List.suffix_nil.mp h) hne
  | [k], raw, hr, h => by
    obtain ⟨s, r', rfl, _, hr', rfl⟩ := rawText_cons k [] raw hr
    simp only [rawText, Option.some.injEq] at hr'
    subst hr'
    rw [lastText_data ind s c cfg m hp, endsWith_iff] at h
    simpa using h
  | k :: k2 :: ks, raw, hr, h => by
    obtain ⟨s, r', rfl, _, hr', rfl⟩ := rawText_cons k (k2 :: ks) raw hr
    have h' : lastTextEndsWith ind (decorateL cfg c m (toNodeL (k2 :: ks))) = true := by
      simp only [toNodeL, decorateL, lastTextEndsWith, List.getLast?_cons_cons] at h ⊢
      exact h
    have := lastText_raw cfg c m hp ind hne (k2 :: ks) r' hr' h'
    exact List.suffix_append_of_suffix this |>.trans (List.suffix_refl _) |> fun x => by simpa using x

/-- first pass over script/style outside pre/code: the content becomes one data block that ends with the `_indent` -/
theorem gK_raw1 (cfg : Cfg) (c : Ctx) (m : Str) (hr : isRawText m = true) (hne : indentAt cfg c ≠ [])
    (kk : List FNode) (raw : Str) (hraw : rawText kk = some raw) :
    ∃ raw1, gK cfg c m false kk = [.tok (.data raw1)] ∧ indentAt cfg c <:+ raw1 := by
  have hp := rawName_preserve m hr
  have hpre := raw_not_pre m hr
  refine ⟨raw ++ endInd m (indentAt cfg c) (decorateL cfg (c.push m) m (toNodeL kk)), ?_, ?_⟩
  · unfold gK
    simp only [Bool.false_eq_true, if_false]
    rw [expandL_raw cfg (c.push m) m hp kk raw hraw, mergeL_rawText _ _ (rawText_append_dataTok kk raw _ hraw)]
    apply dataTok_ne
    intro h0
    have h1 := List.append_eq_nil_iff.mp h0
    have hlt : lastTextEndsWith (indentAt cfg c) (decorateL cfg (c.push m) m (toNodeL kk)) = true := by
      cases hl : lastTextEndsWith (indentAt cfg c) (decorateL cfg (c.push m) m (toNodeL kk)) with
      | true => rfl
      | false =>
        have := h1.2
        simp only [endInd, hpre, hp, hl, Bool.and_false, Bool.false_eq_true, if_false] at this
        exact absurd this hne
    have := lastText_raw cfg (c.push m) m hp _ hne kk raw hraw hlt
    rw [h1.1] at this
    exact hne (List.suffix_nil.mp this)
  · cases hl : lastTextEndsWith (indentAt cfg c) (decorateL cfg (c.push m) m (toNodeL kk)) with
    | true =>
      have he : endInd m (indentAt cfg c) (decorateL cfg (c.push m) m (toNodeL kk)) = [] := by
        have hne' : (indentAt cfg c).isEmpty = false := by
          cases h : indentAt cfg c with
          | nil => exact absurd h hne
          | cons x xs => rfl
        simp [endInd, hpre, hp, hl, hne']
      rw [he, List.append_nil]
      exact lastText_raw cfg (c.push m) m hp _ hne kk raw hraw hl
    | false =>
      have he : endInd m (indentAt cfg c) (decorateL cfg (c.push m) m (toNodeL kk)) = indentAt cfg c := by
        simp [endInd, hpre, hl]
      rw [he]
      exact List.suffix_append _ _

/-- … and from then on `getEndTag` finds the indent already there: nothing changes -/
theorem gK_raw2 (cfg : Cfg) (c : Ctx) (m : Str) (hr : isRawText m = true) (hne : indentAt cfg c ≠ [])
    (raw1 : Str) (hsuf : indentAt cfg c <:+ raw1) :
    gK cfg c m false [.tok (.data raw1)] = [.tok (.data raw1)] := by
  have hp := rawName_preserve m hr
  have hpre := raw_not_pre m hr
  have hr1 : raw1 ≠ [] := by
    intro h0; rw [h0] at hsuf
    exact hne (List.suffix_nil.mp hsuf)
  have hraw : rawText [FNode.tok (.data raw1)] = some raw1 := by
    have : raw1.isEmpty = false := by cases raw1 <;> simp_all
    simp [rawText, this]
  have hne' : (indentAt cfg c).isEmpty = false := by
    cases h : indentAt cfg c with
    | nil => exact absurd h hne
    | cons x xs => rfl
  unfold gK
  simp only [Bool.false_eq_true, if_false]
  rw [expandL_raw cfg (c.push m) m hp _ raw1 hraw]
  have he : endInd m (indentAt cfg c) (decorateL cfg (c.push m) m (toNodeL [FNode.tok (.data raw1)])) = [] := by
    rw [endInd, lastText_data _ raw1 (c.push m) cfg m hp, (endsWith_iff _ _).mpr hsuf]
    simp [hpre, hp, hne']
  rw [he]
  simp [dataTok, mergeL, pushTok_data_nil]

/-! ### every other element: the position-wise induction -/

/-- one pass + re-tokenisation on a block list in context `(c, p)` that is followed by the data text `e` (the
    parent's `_indent` before its end tag) -/
def MX (cfg : Cfg) (c : Ctx) (p e : Str) (v : List FNode) : List FNode := mergeL (expandL cfg c p v ++ dataTok e)

theorem MX_nil (cfg : Cfg) (c : Ctx) (p e : Str) : MX cfg c p e [] = dataTok e := by
  simp [MX, expandL, mergeL_dataTok]

theorem MX_data (cfg : Cfg) (c : Ctx) (p e : Str) (hc : c.inPre = 0) (hp : isPreserve p = false) (s : Str)
    (v : List FNode) : MX cfg c p e (.tok (.data s) :: v) = pushData (squeeze s) (MX cfg c p e v) := by
  unfold MX
  rw [mx_data, dataRule_sq c p s hc hp]

theorem MX_tok (cfg : Cfg) (c : Ctx) (p e : Str) (t : Token) (h : isData t = false) (v : List FNode) :
    MX cfg c p e (.tok t :: v) = .tok t :: MX cfg c p e v := mx_tok cfg c p t h v _

theorem MX_elem (cfg : Cfg) (c : Ctx) (p e m : Str) (st : AStore) (sc : Bool) (kk v : List FNode) :
    MX cfg c p e (.elem m st sc kk :: v)
      = pushData (indentAt cfg c) (.elem m st sc (gK cfg c m sc kk) :: MX cfg c p e v) := mx_elem cfg c p m st sc kk v _

theorem MX_dataTok (cfg : Cfg) (c : Ctx) (p e : Str) (hc : c.inPre = 0) (hp : isPreserve p = false) (a : Str)
    (l : List FNode) : MX cfg c p e (dataTok a ++ l) = pushData (squeeze a) (MX cfg c p e l) := by
  unfold MX
  rw [mx_dataTok cfg c p a (dataRule_nil c p), dataRule_sq c p a hc hp]

/-- what "stable from the second pass on" means for one element in context `c` -/
def StabAt (cfg : Cfg) (c : Ctx) : FNode → Prop
  | .tok _ => True
  | .elem m _ sc kk => gK cfg c m sc (gK cfg c m sc (gK cfg c m sc kk)) = gK cfg c m sc (gK cfg c m sc kk)

theorem strict_gK (cfg : Cfg) (hi : IndentWS cfg) (c : Ctx) (m : Str) (st : AStore) (sc : Bool) (kk : List FNode)
    (hs : (FNode.elem m st sc kk).Strict) : (FNode.elem m st sc (gK cfg c m sc kk)).Strict := by
  have h1 := strict_expand cfg hi c [] _ hs
  simp only [expand] at h1
  rw [strictL_append] at h1
  have h2 := strict_merge _ h1.2.1
  simpa [merge, gK] using h2

theorem strict_kids_buildable (m : Str) (st : AStore) (sc : Bool) (kk : List FNode)
    (hs : (FNode.elem m st sc kk).Strict) : BuildableL kk := by
  have := strict_buildable _ hs
  simp only [FNode.Buildable] at this
  exact this.2.2.2.2

mutual
theorem stabN (cfg : Cfg) (hm : cfg.mini = false) (hi : IndentWS cfg) :
    ∀ u : FNode, u.Strict → ∀ c : Ctx, StabAt cfg c u
  | .tok _, _, _ => trivial
  | .elem m st sc kk, hs, c => by
    simp only [StabAt]
    cases sc with
    | true => simp [gK]
    | false =>
      by_cases hpre : c.inPre ≠ 0 ∨ isPre m = true
      · -- nothing is rewritten
        have hb := strict_kids_buildable m st false kk hs
        have h1 := gK_pre cfg c m kk hpre hb
        have hs2 := strict_gK cfg hi c m st false kk hs
        rw [h1] at hs2
        have h2 : gK cfg c m false (gK cfg c m false kk) = gK cfg c m false kk := by
          rw [h1, gK_pre cfg c m _ hpre (strict_kids_buildable m st false _ hs2), mergeL_idem]
        rw [h2]
        exact h2
      · have hc : c.inPre = 0 := by
          cases h : c.inPre with
          | zero => rfl
          | succ k => exact absurd (Or.inl (by simp [h])) hpre
        have hnpre : isPre m = false := by
          cases h : isPre m with
          | false => rfl
          | true => exact absurd (Or.inr h) hpre
        have hI := indentAt_isIndent cfg hm hi c hc
        by_cases hr : isRawText m = true
        · -- script/style
          have hk := hs
          simp only [FNode.Strict, hr, if_true] at hk
          obtain ⟨raw, hraw, _⟩ := hk.2.2.2.2.2
          obtain ⟨raw1, e1, hsuf⟩ := gK_raw1 cfg c m hr (isIndent_ne _ hI) kk raw hraw
          have e2 := gK_raw2 cfg c m hr (isIndent_ne _ hI) raw1 hsuf
          rw [e1, e2, e2]
        · -- the general case
          have hp : isPreserve m = false := by
            cases h : isPreserve m with
            | false => rfl
            | true =>
              rcases preserve_cases m h with h' | h'
              · rw [h'] at hnpre; cases hnpre
              · exact absurd h' hr
          have hk := hs
          simp only [FNode.Strict, hr] at hk
          have hkk : StrictL kk := hk.2.2.2.2.2
          have hg : ∀ v, gK cfg c m false v = MX cfg (c.push m) m (indentAt cfg c) v := by
            intro v
            simp only [gK, MX, Bool.false_eq_true, if_false, endInd_normal m _ _ hp]
          have := stabL cfg hm hi kk hkk (c.push m) m (indentAt cfg c) (push_inPre_zero c m hc hnpre) hp (Or.inr hI) []
          simp only [pushData_nil] at this
          rw [hg, hg, hg]
          exact this
theorem stabL (cfg : Cfg) (hm : cfg.mini = false) (hi : IndentWS cfg) :
    ∀ ks : List FNode, StrictL ks → ∀ (c : Ctx) (p e : Str), c.inPre = 0 → isPreserve p = false →
      (e = [] ∨ IsIndent e) →
      ∀ a : Str, MX cfg c p e (MX cfg c p e (pushData a (MX cfg c p e ks))) = MX cfg c p e (pushData a (MX cfg c p e ks))
  | [], _, c, p, e, hc, hp, he, a => by
    have hd : ∀ x, MX cfg c p e (dataTok x) = dataTok (squeeze x ++ e) := by
      intro x
      have := MX_dataTok cfg c p e hc hp x []
      rw [List.append_nil] at this
      rw [this, MX_nil, pushData_dataTok]
    rw [MX_nil, pushData_dataTok, hd, hd]
    rcases he with rfl | he
    · simp only [List.append_nil, squeeze_idem]
    · rw [squeeze_indent_stable a e he]
  | .tok t :: ks, hs, c, p, e, hc, hp, he, a => by
    simp only [StrictL] at hs
    by_cases hd : isData t = true
    · cases t with
      | data s =>
        rw [MX_data cfg c p e hc hp, pushData_pushData]
        exact stabL cfg hm hi ks hs.2 c p e hc hp he _
      | _ => simp [isData] at hd
    · have hd' : isData t = false := by simpa using hd
      have ih := stabL cfg hm hi ks hs.2 c p e hc hp he []
      simp only [pushData_nil] at ih
      rw [MX_tok cfg c p e t hd', pushData_tok a t hd', MX_dataTok cfg c p e hc hp, MX_tok cfg c p e t hd',
        pushData_tok _ t hd', MX_dataTok cfg c p e hc hp, MX_tok cfg c p e t hd', ih, squeeze_idem,
        pushData_tok _ t hd']
  | .elem m st sc kk :: ks, hs, c, p, e, hc, hp, he, a => by
    simp only [StrictL] at hs
    have ih := stabL cfg hm hi ks hs.2 c p e hc hp he []
    simp only [pushData_nil] at ih
    have ihN := stabN cfg hm hi (.elem m st sc kk) hs.1 c
    simp only [StabAt] at ihN
    have hI := indentAt_isIndent cfg hm hi c hc
    have hne := isIndent_ne _ hI
    have step : ∀ (x : Str) (K R : List FNode),
        MX cfg c p e (.tok (.data (x ++ indentAt cfg c)) :: .elem m st sc K :: R)
          = .tok (.data (squeeze (x ++ indentAt cfg c) ++ indentAt cfg c))
              :: .elem m st sc (gK cfg c m sc K) :: MX cfg c p e R := by
      intro x K R
      rw [MX_data cfg c p e hc hp, MX_elem, pushData_pushData, pushData_elem, dataTok_ne _ (by simp [hne])]
      rfl
    have h0 : pushData a (MX cfg c p e (.elem m st sc kk :: ks))
        = .tok (.data (a ++ indentAt cfg c)) :: .elem m st sc (gK cfg c m sc kk) :: MX cfg c p e ks := by
      rw [MX_elem, pushData_pushData, pushData_elem, dataTok_ne _ (by simp [hne])]
      rfl
    rw [h0, step, step, ih, ihN, squeeze_indent_stable a _ hI]
end

/-- **pass 3 = pass 2 on the blocks of the root element** (pretty classes, every strict tree) -/
theorem outRoot_stable (cfg : Cfg) (hm : cfg.mini = false) (hi : IndentWS cfg) (n : Str) (st : AStore) (sc : Bool)
    (kids : List FNode) (hs : (FNode.elem n st sc kids).Strict) :
    gK cfg ⟨0, 0⟩ n sc (gK cfg ⟨0, 0⟩ n sc (gK cfg ⟨0, 0⟩ n sc kids)) = gK cfg ⟨0, 0⟩ n sc (gK cfg ⟨0, 0⟩ n sc kids) := by
  have := stabN cfg hm hi _ hs ⟨0, 0⟩
  simpa only [StabAt] using this

/-! ### the reserved name stays out (all classes) -/

theorem nwL_append (xs ys : List FNode) : NoWrapperL (xs ++ ys) ↔ NoWrapperL xs ∧ NoWrapperL ys := by
  induction xs with
  | nil => simp [NoWrapperL]
  | cons x xs ih => simp [NoWrapperL, ih, and_assoc]

theorem nw_dataTok (s : Str) : NoWrapperL (dataTok s) := by
  unfold dataTok
  split <;> simp [NoWrapperL, FNode.NoWrapper]

mutual
theorem nw_expand (cfg : Cfg) (c : Ctx) (p : Str) : ∀ u : FNode, u.NoWrapper → NoWrapperL (expand cfg c p u)
  | .tok t, _ => by
    cases t with
    | data s => simp only [expand, expandTok]; exact nw_dataTok _
    | _ => simp [expand, expandTok, NoWrapperL, FNode.NoWrapper]
  | .elem n st sc kids, h => by
    simp only [FNode.NoWrapper] at h
    simp only [expand]
    rw [nwL_append]
    refine ⟨nw_dataTok _, ?_, trivial⟩
    simp only [FNode.NoWrapper]
    refine ⟨h.1, ?_⟩
    cases sc with
    | true => trivial
    | false =>
      simp only [Bool.false_eq_true, if_false]
      rw [nwL_append]
      exact ⟨nw_expandL cfg (c.push n) n kids h.2, nw_dataTok _⟩
theorem nw_expandL (cfg : Cfg) (c : Ctx) (p : Str) : ∀ ks : List FNode, NoWrapperL ks → NoWrapperL (expandL cfg c p ks)
  | [], _ => trivial
  | k :: ks, h => by
    simp only [NoWrapperL] at h
    simp only [expandL]
    rw [nwL_append]
    exact ⟨nw_expand cfg c p k h.1, nw_expandL cfg c p ks h.2⟩
end

theorem nw_pushTok (t : Token) (r : List FNode) (h : NoWrapperL r) : NoWrapperL (pushTok t r) := by
  unfold pushTok
  split
  · simp only [NoWrapperL] at h ⊢
    exact ⟨trivial, h.2⟩
  · exact ⟨trivial, h⟩

theorem nw_mergeL : ∀ ks : List FNode, NoWrapperL ks → NoWrapperL (mergeL ks)
  | [], _ => by simp [mergeL, NoWrapperL]
  | .tok t :: ks, h => by
    simp only [NoWrapperL] at h
    simp only [mergeL]
    exact nw_pushTok t _ (nw_mergeL ks h.2)
  | .elem n st sc kids :: ks, h => by
    simp only [NoWrapperL, FNode.NoWrapper] at h
    simp only [mergeL, NoWrapperL, FNode.NoWrapper]
    exact ⟨⟨h.1.1, nw_mergeL kids h.1.2⟩, nw_mergeL ks h.2⟩

theorem nw_gK (cfg : Cfg) (c : Ctx) (m : Str) (st : AStore) (sc : Bool) (kk : List FNode)
    (h : (FNode.elem m st sc kk).NoWrapper) : (FNode.elem m st sc (gK cfg c m sc kk)).NoWrapper := by
  simp only [FNode.NoWrapper] at h ⊢
  refine ⟨h.1, ?_⟩
  unfold gK
  apply nw_mergeL
  cases sc with
  | true => trivial
  | false =>
    simp only [Bool.false_eq_true, if_false]
    rw [nwL_append]
    exact ⟨nw_expandL cfg _ m kk h.2, nw_dataTok _⟩

theorem nw_dtToks (dt : Option Str) : ∀ t ∈ dtToks dt, (Tok.ofToken t).startName? ≠ some wrapper := by
  intro t ht
  cases dt with
  | none => simp [dtToks] at ht
  | some d =>
    by_cases hd : d.isEmpty = true
    · simp [dtToks, hd] at ht
    · simp [dtToks, hd] at ht; subst ht; simp [Tok.ofToken, Tok.startName?]

/-! ### one pass through the real pipeline -/

/-- the tokens of a strict document without the reserved name do not start the wrapper -/
theorem noWrapperStart_strictToks (dt : Option Str) (u : FNode) (hs : u.Strict) (hnw : u.NoWrapper) :
    NoWrapperStart (strictToks dt u) := by
  intro t ht
  simp only [strictToks, List.map_append, List.mem_append, List.mem_map] at ht
  rcases ht with ⟨t0, ht0, rfl⟩ | ⟨t0, ht0, rfl⟩
  · exact nw_dtToks dt t0 ht0
  · exact noWrapper_toks _ (strict_textLike _ hs) hnw t0 ht0

/-- **One pass, text to text.**  Any class with a spaces/tabs indent unit; a token sequence that the plain parser
    builds into the strict single-root document `u` (doctype `dt`) — `ps` is the parser's final state, **elements still
    open at the end of the input included** (`ps.root` is the tree with them closed, what `getHTML` serialises).  The formatter's output is the rendering of
    `outToks cfg dt u`; the strict lexer reads it back as exactly those tokens; they do not start the wrapper; and the
    plain parser builds from them the document whose root is `u` with its children replaced by `gK` of them — again
    strict and free of the reserved name.  (So the next pass is this lemma again, with `gK … kids` for `kids`.) -/
theorem pass_step_open (cfg : Cfg) (hi : IndentWS cfg) (dt : Option Str) (hdt : DtOK dt) (n : Str) (st : AStore) (sc : Bool)
    (kids : List FNode) (hs : (FNode.elem n st sc kids).Strict) (hnw : (FNode.elem n st sc kids).NoWrapper)
    (toks : List Tok) (hnws : NoWrapperStart toks) (ps : St)
    (hp : Plain.feed toks = .ok ps) (hroot : ps.root = some (FNode.elem n st sc kids).toNode) (hd : ps.doctype = dt) :
    format cfg toks = .ok (renderToksY (styleOf cfg.kind) (outToks cfg dt (.elem n st sc kids)))
    ∧ lexStrict (renderToksY (styleOf cfg.kind) (outToks cfg dt (.elem n st sc kids)))
        = some (outToks cfg dt (.elem n st sc kids))
    ∧ NoWrapperStart ((outToks cfg dt (.elem n st sc kids)).map Tok.ofToken)
    ∧ Plain.feed ((outToks cfg dt (.elem n st sc kids)).map Tok.ofToken)
        = .ok ⟨[], some (FNode.elem n st sc (gK cfg ⟨0, 0⟩ n sc kids)).toNode, dt, 0, 0⟩
    ∧ (FNode.elem n st sc (gK cfg ⟨0, 0⟩ n sc kids)).Strict
    ∧ (FNode.elem n st sc (gK cfg ⟨0, 0⟩ n sc kids)).NoWrapper := by
  have hn : n ≠ wrapper := by
    have h1 := hnw
    have h2 := hs
    simp only [FNode.NoWrapper] at h1
    simp only [FNode.Strict] at h2
    rw [← h2.1.2.2]; exact h1.1
  have htext := format_text cfg toks hnws ps hp n st sc kids hroot (fun e => absurd e hn) hs
  have hdoc : docToks cfg dt n st sc kids = outToks cfg dt (.elem n st sc kids) := by
    unfold docToks; simp [hn]
  rw [hd, hdoc] at htext
  have hstrict2 := strict_gK cfg hi ⟨0, 0⟩ n st sc kids hs
  have hnw2 := nw_gK cfg ⟨0, 0⟩ n st sc kids hnw
  refine ⟨htext, doc_lex cfg hi dt _ hs hdt, ?_, ?_, hstrict2, hnw2⟩
  · intro t ht
    simp only [outToks, outBlocks_eq, outRoot_eq_gK, List.map_append, List.mem_append, List.mem_map, ftoksL_append]
      at ht
    rcases ht with ⟨t0, ht0, rfl⟩ | ⟨t0, ht0, rfl⟩ | ⟨t0, ht0, rfl⟩
    · exact nw_dtToks dt t0 ht0
    · have : ∀ s, ∀ t ∈ ftoksL (dataTok s), (Tok.ofToken t).startName? ≠ some wrapper := by
        intro s t ht
        unfold dataTok at ht
        split at ht
        · simp [ftoksL] at ht
        · simp [ftoksL, FNode.toks] at ht; subst ht; simp [Tok.ofToken, Tok.startName?]
      exact this _ t0 ht0
    · simp only [ftoksL, List.append_nil] at ht0
      exact noWrapper_toks _ (strict_textLike _ hstrict2) hnw2 t0 ht0
  · have := doc_reparse cfg hi dt n st sc kids hs hdt
    rw [outRoot_eq_gK] at this
    exact this

/-- `pass_step_open` for a token sequence that leaves nothing open -/
theorem pass_step (cfg : Cfg) (hi : IndentWS cfg) (dt : Option Str) (hdt : DtOK dt) (n : Str) (st : AStore) (sc : Bool)
    (kids : List FNode) (hs : (FNode.elem n st sc kids).Strict) (hnw : (FNode.elem n st sc kids).NoWrapper)
    (toks : List Tok) (hnws : NoWrapperStart toks)
    (hp : Plain.feed toks = .ok ⟨[], some (FNode.elem n st sc kids).toNode, dt, 0, 0⟩) :
    format cfg toks = .ok (renderToksY (styleOf cfg.kind) (outToks cfg dt (.elem n st sc kids)))
    ∧ lexStrict (renderToksY (styleOf cfg.kind) (outToks cfg dt (.elem n st sc kids)))
        = some (outToks cfg dt (.elem n st sc kids))
    ∧ NoWrapperStart ((outToks cfg dt (.elem n st sc kids)).map Tok.ofToken)
    ∧ Plain.feed ((outToks cfg dt (.elem n st sc kids)).map Tok.ofToken)
        = .ok ⟨[], some (FNode.elem n st sc (gK cfg ⟨0, 0⟩ n sc kids)).toNode, dt, 0, 0⟩
    ∧ (FNode.elem n st sc (gK cfg ⟨0, 0⟩ n sc kids)).Strict
    ∧ (FNode.elem n st sc (gK cfg ⟨0, 0⟩ n sc kids)).NoWrapper :=
  pass_step_open cfg hi dt hdt n st sc kids hs hnw toks hnws _ hp rfl rfl

/-- the output text depends on the root's children only through `gK` of them -/
theorem outToks_congr (cfg : Cfg) (dt : Option Str) (n : Str) (st : AStore) (sc : Bool) (k1 k2 : List FNode)
    (h : gK cfg ⟨0, 0⟩ n sc k1 = gK cfg ⟨0, 0⟩ n sc k2) :
    outToks cfg dt (.elem n st sc k1) = outToks cfg dt (.elem n st sc k2) := by
  simp only [outToks, outBlocks_eq, outRoot_eq_gK, h]

/-- **C12d at string level (pretty³ = pretty²).**  Pretty class (normal or slim elements, indent unit of spaces/tabs),
    any doctype, any strict single-root document `u` — any size and depth — without the reserved name.  Feed the
    formatter the tokens of `u`; lex the output text; feed the formatter those tokens; lex again; feed again: the third
    output text is the second. -/
theorem pretty_text_stable_core (cfg : Cfg) (hm : cfg.mini = false) (hi : IndentWS cfg) (dt : Option Str)
    (hdt : DtOK dt) (n : Str) (st : AStore) (sc : Bool) (kids : List FNode)
    (hs : (FNode.elem n st sc kids).Strict) (hnw : (FNode.elem n st sc kids).NoWrapper) :
    ∃ out1 toks2 out2 toks3, format cfg (strictToks dt (.elem n st sc kids)) = .ok out1 ∧ lexStrict out1 = some toks2 ∧
      format cfg (toks2.map Tok.ofToken) = .ok out2 ∧ lexStrict out2 = some toks3 ∧
      format cfg (toks3.map Tok.ofToken) = .ok out2 := by
  obtain ⟨f1, l1, w1, p1, s1, n1⟩ := pass_step cfg hi dt hdt n st sc kids hs hnw _
    (noWrapperStart_strictToks dt _ hs hnw) (plain_feed_strictToks dt hdt n st sc kids hs)
  obtain ⟨f2, l2, w2, p2, s2, n2⟩ := pass_step cfg hi dt hdt n st sc _ s1 n1 _ w1 p1
  obtain ⟨f3, _, _, _, _, _⟩ := pass_step cfg hi dt hdt n st sc _ s2 n2 _ w2 p2
  refine ⟨_, _, _, _, f1, l1, f2, l2, ?_⟩
  rw [f3]
  congr 2
  exact outToks_congr cfg dt n st sc _ _ (outRoot_stable cfg hm hi n st sc kids hs)

/-- `pretty_text_stable_core` for ANY token sequence whose plain-parser tree is the strict single-root document (implicit
    closes, elements left open at the end of the input) -/
theorem pretty_text_stable_core_open (cfg : Cfg) (hm : cfg.mini = false) (hi : IndentWS cfg)
    (n : Str) (st : AStore) (sc : Bool) (kids : List FNode)
    (hs : (FNode.elem n st sc kids).Strict) (hnw : (FNode.elem n st sc kids).NoWrapper)
    (toks : List Tok) (hnws : NoWrapperStart toks) (ps : St) (hp : Plain.feed toks = .ok ps)
    (hroot : ps.root = some (FNode.elem n st sc kids).toNode) (hdt : DtOK ps.doctype) :
    ∃ out1 toks2 out2 toks3, format cfg toks = .ok out1 ∧ lexStrict out1 = some toks2 ∧
      format cfg (toks2.map Tok.ofToken) = .ok out2 ∧ lexStrict out2 = some toks3 ∧
      format cfg (toks3.map Tok.ofToken) = .ok out2 := by
  obtain ⟨f1, l1, w1, p1, s1, n1⟩ := pass_step_open cfg hi ps.doctype hdt n st sc kids hs hnw toks hnws ps hp hroot rfl
  obtain ⟨f2, l2, w2, p2, s2, n2⟩ := pass_step cfg hi ps.doctype hdt n st sc _ s1 n1 _ w1 p1
  obtain ⟨f3, _, _, _, _, _⟩ := pass_step cfg hi ps.doctype hdt n st sc _ s2 n2 _ w2 p2
  refine ⟨_, _, _, _, f1, l1, f2, l2, ?_⟩
  rw [f3]
  congr 2
  exact outToks_congr cfg ps.doctype n st sc _ _ (outRoot_stable cfg hm hi n st sc kids hs)

end AHP.Fmt
