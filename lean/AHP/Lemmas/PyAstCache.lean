/-
  Lemmas for the code tie of xpath/_cache.py (Props/C15Code.lean): association lists, Python lists/dicts of the
  interpreter against the hand model's (`Model/Cache.lean`) under the embedding of text keys, and the two loops of the
  methods (`while True: try: recent.remove(key) except ValueError: break`; `for k in keys: try: del map[k] except: pass`)
  evaluated once and for all, for every fuel that suffices.
-/
import AHP.Lemmas.PyAst
import AHP.Lemmas.Cache
namespace AHP.PyAst
open AHP AHP.Gen AHP.Conv AHP.Gen.Code AHP.Cache

/-! ### the hand model's keys (texts) and maps inside the interpreter's lists and dicts -/

def embK (l : List Str) : List PyV := l.map PyV.str
def embD (m : List (Str × PyV)) : List (PyV × PyV) := m.map (fun p => (PyV.str p.1, p.2))

/-- `l.erase k` with the equality test the hand model uses (`DecidableEq`), not the list instance. -/
abbrev eraseK (l : List Str) (k : Str) : List Str := @List.erase Str instBEqOfDecidableEq l k

theorem pyEqV_str (a b : Str) : pyEqV (.str a) (.str b) = decide (a = b) := rfl

theorem removeFirst_emb (k : Str) (l : List Str) :
    removeFirst (.str k) (embK l) = if k ∈ l then some (embK (eraseK l k)) else none := by
  induction l with
  | nil => rfl
  | cons a r ih =>
    simp only [embK, List.map_cons, removeFirst, pyEqV_str] at ih ⊢
    by_cases h : a = k
    · subst h; simp
    · have h2 : ¬ k = a := fun e => h e.symm
      have h3 : (a == k) = false := by simpa using h
      rw [ih]
      by_cases hm : k ∈ r
      · simp [h, h2, hm, List.erase_cons, h3]
      · simp [h, h2, hm]

theorem dGet_emb (m : List (Str × PyV)) (k : Str) : dGet (embD m) (.str k) = Cache.dictGet m k := by
  induction m with
  | nil => rfl
  | cons p r ih =>
    obtain ⟨a, v⟩ := p
    simp only [embD, List.map_cons, dGet, Cache.dictGet, pyEqV_str] at ih ⊢
    by_cases h : a = k <;> simp [h, ih]

theorem dSet_emb (m : List (Str × PyV)) (k : Str) (v : PyV) : dSet (embD m) (.str k) v = embD (Cache.dictSet m k v) := by
  induction m with
  | nil => rfl
  | cons p r ih =>
    obtain ⟨a, w⟩ := p
    simp only [embD, List.map_cons, dSet, Cache.dictSet, pyEqV_str] at ih ⊢
    by_cases h : a = k
    · subst h; simp
    · simp [h, ih]

theorem dDel_emb (m : List (Str × PyV)) (k : Str) : dDel (embD m) (.str k) = embD (Cache.dictDel m k) := by
  induction m with
  | nil => rfl
  | cons p r ih =>
    obtain ⟨a, w⟩ := p
    simp only [embD, dDel, Cache.dictDel, List.map_cons, List.filter_cons, pyEqV_str] at ih ⊢
    by_cases h : a = k <;> simp [h, ih]

theorem sliceTo_map {α β : Type} (f : α → β) (l : List α) (n : Int) : sliceTo (l.map f) n = (sliceTo l n).map f := by
  simp [sliceTo, List.map_take]

theorem sliceFrom_map {α β : Type} (f : α → β) (l : List α) (n : Int) : sliceFrom (l.map f) n = (sliceFrom l n).map f := by
  simp [sliceFrom, List.map_drop]

theorem embK_length (l : List Str) : (embK l).length = l.length := by simp [embK]
theorem embK_append (a b : List Str) : embK (a ++ b) = embK a ++ embK b := by simp [embK]

/-! ### the object, the context -/

/-- The cache object: the three fields `__init__` creates, holding the hand model's state and the lock. -/
def ofState (s : State Str PyV) (held : Bool) : List (String × Field) :=
  [("cachedCompiledExpressions", .dict (embD s.map)),
   ("recentCachedExpressionStrs", .list (embK s.recent)),
   ("cacheLock", .lock held)]

/-- What the methods of `XPathExpressionCacheType` run in: the module constants `MAX_CACHED_EXPRESSIONS` and
`CLEAR_AT_ONE_TIME` as read at call time, the static method `getKeyForExpressionStr` (sha1 of the text, hex) as the
function `key`, and `fuel` iterations for each `while`. -/
def cacheCx (key : Str → Str) (MAX CLEAR fuel : Nat) : Ctx :=
  { parseInt := fun _ => .error .valueError
    funs := fun _ => none
    fuel := fuel
    globals := fun x =>
      if x = "MAX_CACHED_EXPRESSIONS" then some (.py (.int MAX))
      else if x = "CLEAR_AT_ONE_TIME" then some (.py (.int CLEAR))
      else none
    selfMeth := fun m =>
      if m = "getKeyForExpressionStr" then
        some (fun args => match args with
          | [.py (.str e)] => .ok (.py (.str (key e)))
          | _ => .error (unsupported "getKeyForExpressionStr of something else than a text"))
      else none }

theorem cacheCx_max (key : Str → Str) (MAX CLEAR fuel : Nat) :
    (cacheCx key MAX CLEAR fuel).globals "MAX_CACHED_EXPRESSIONS" = some (.py (.int MAX)) := rfl
theorem cacheCx_clear (key : Str → Str) (MAX CLEAR fuel : Nat) :
    (cacheCx key MAX CLEAR fuel).globals "CLEAR_AT_ONE_TIME" = some (.py (.int CLEAR)) := rfl
theorem cacheCx_fuel (key : Str → Str) (MAX CLEAR fuel : Nat) : (cacheCx key MAX CLEAR fuel).fuel = fuel := rfl
theorem cacheCx_funs (key : Str → Str) (MAX CLEAR fuel : Nat) (f : String) : (cacheCx key MAX CLEAR fuel).funs f = none := rfl
theorem cacheCx_key (key : Str → Str) (MAX CLEAR fuel : Nat) :
    (cacheCx key MAX CLEAR fuel).selfMeth "getKeyForExpressionStr"
      = some (fun args => match args with
          | [.py (.str e)] => .ok (.py (.str (key e)))
          | _ => .error (unsupported "getKeyForExpressionStr of something else than a text")) := rfl

/-! ### the loop `while True: try: self.recentCachedExpressionStrs.remove(key) except ValueError: break` -/

/-- the body of that loop, as dumped (in both methods) -/
def rmBody : List Stmt :=
  [.tryS [.fieldCall "self" "recentCachedExpressionStrs" "remove" [(.var "key")]] [.mk (some "ValueError") [.brk]]]

theorem removeAll_erase (k : Str) (l : List Str) : removeAll k (eraseK l k) = removeAll k l := by
  rw [removeAll_eq, removeAll_eq]; exact filter_erase_self k l

theorem removeAll_not_mem (k : Str) (l : List Str) (h : k ∉ l) : removeAll k l = l := by
  rw [removeAll_eq]; exact filter_ne_of_not_mem h

/-- The loop removes every occurrence of the key from the recency list and changes nothing else, for every fuel above the
length of the list. -/
theorem rmLoop_run (cx : Ctx) (k : Str) (cond : Env → Except PyErr Val) (hc : ∀ env, cond env = .ok (.py (.bool true))) :
    ∀ (fuel : Nat) (l : List Str) (fs : List (String × Field)) (rest : Env),
    rest.lookup "key" = some (.py (.str k)) →
    fs.lookup "recentCachedExpressionStrs" = some (.list (embK l)) →
    l.length < fuel →
    whileLoop cond (fun env => execL cx env rmBody) fuel (("self", .obj fs) :: rest)
      = (("self", .obj (assocSet fs "recentCachedExpressionStrs" (.list (embK (removeAll k l))))) :: rest, .next) := by
  intro fuel
  induction fuel with
  | zero => intro l fs rest _ _ h; omega
  | succ n ih =>
    intro l fs rest hk hf hl
    by_cases hm : k ∈ l
    · have hstep : execL cx (("self", .obj fs) :: rest) rmBody
          = (("self", .obj (assocSet fs "recentCachedExpressionStrs" (.list (embK (eraseK l k))))) :: rest, .next) := by
        simp [rmBody, execL, execS, evalList, eval, List.lookup, hk, getField, hf, mutCall, removeFirst_emb, hm, putField,
          assocSet]
      have hl' : (eraseK l k).length < n := by
        have h0 := List.length_pos_of_mem hm
        have h1 : (eraseK l k).length = l.length - 1 := @List.length_erase_of_mem Str instBEqOfDecidableEq _ k l hm
        omega
      have := ih (eraseK l k) (assocSet fs "recentCachedExpressionStrs" (.list (embK (eraseK l k)))) rest hk
        (lookup_assocSet_eq _ _ _) hl'
      rw [whileLoop, hc]
      simp only [Val.truthy, truthy, if_true, hstep]
      rw [this, assocSet_assocSet, removeAll_erase]
    · have hstep : execL cx (("self", .obj fs) :: rest) rmBody = (("self", .obj fs) :: rest, .brk) := by
        simp [rmBody, execL, execS, execH, evalList, eval, List.lookup, hk, getField, hf, mutCall, removeFirst_emb, hm,
          catches, errIsA, excOf]
      rw [whileLoop, hc]
      simp only [Val.truthy, truthy, if_true, hstep]
      rw [removeAll_not_mem k l hm, assocSet_self _ _ _ hf]

/-! ### the loop `for keyToRemove in keysToRemove: try: del self.cachedCompiledExpressions[keyToRemove] except: pass` -/

/-- the body of that loop, as dumped -/
def delBody : List Stmt :=
  [.tryS [.delItem "self" "cachedCompiledExpressions" (.var "keyToRemove")] [.mk none [.pass]]]

theorem dictDel_absent (m : List (Str × PyV)) (k : Str) (h : Cache.dictGet m k = none) : Cache.dictDel m k = m := by
  induction m with
  | nil => rfl
  | cons p r ih =>
    obtain ⟨a, v⟩ := p
    simp only [Cache.dictGet] at h
    by_cases ha : a = k
    · simp [ha] at h
    · simp only [ha, if_false] at h
      have := ih h
      simp only [Cache.dictDel] at this ⊢
      simp [List.filter_cons, ha, this]

/-- the loop variable after the loop -/
def bindKeys (rest : Env) (ks : List Str) : Env := ks.foldl (fun r k => assocSet r "keyToRemove" (.py (.str k))) rest

theorem lookup_bindKeys (rest : Env) (ks : List Str) (x : String) (hx : x ≠ "keyToRemove") :
    (bindKeys rest ks).lookup x = rest.lookup x := by
  induction ks generalizing rest with
  | nil => rfl
  | cons k r ih =>
    simp only [bindKeys, List.foldl_cons] at ih ⊢
    rw [ih, lookup_assocSet_ne _ _ _ _ hx]

/-- The loop deletes the keys from the map one after the other (an absent key is skipped) and changes nothing else but
its own variable; the list it iterates over (`V`, held by `keysToRemove`) stays what it was. -/
theorem delLoop_run (cx : Ctx) (V : Val) (same : Env → Bool)
    (hsame : ∀ fs rest, rest.lookup "keysToRemove" = some V → same (("self", .obj fs) :: rest) = true) :
    ∀ (ks : List Str) (m : List (Str × PyV)) (fs : List (String × Field)) (rest : Env),
    rest.lookup "keysToRemove" = some V →
    fs.lookup "cachedCompiledExpressions" = some (.dict (embD m)) →
    forLoop (fun env v => assocSet env "keyToRemove" v) (fun env => execL cx env delBody) same ((embK ks).map Val.py)
        (("self", .obj fs) :: rest)
      = (("self", .obj (assocSet fs "cachedCompiledExpressions" (.dict (embD (ks.foldl Cache.dictDel m))))) :: bindKeys rest ks,
         .next) := by
  intro ks
  induction ks with
  | nil =>
    intro m fs rest _ hf
    simp only [embK, List.map_nil, forLoop, List.foldl_nil, bindKeys]
    rw [assocSet_self _ _ _ hf]
  | cons k r ih =>
    intro m fs rest hV hf
    have hV' : (assocSet rest "keyToRemove" (.py (.str k))).lookup "keysToRemove" = some V := by
      rw [lookup_assocSet_ne _ _ _ _ (by decide), hV]
    have hstep : execL cx (assocSet (("self", .obj fs) :: rest) "keyToRemove" (.py (.str k))) delBody
        = (("self", .obj (assocSet fs "cachedCompiledExpressions" (.dict (embD (Cache.dictDel m k)))))
            :: assocSet rest "keyToRemove" (.py (.str k)), .next) := by
      cases hg : Cache.dictGet m k with
      | none =>
        rw [dictDel_absent m k hg, assocSet_self _ _ _ hf]
        simp [delBody, execL, execS, execH, eval, List.lookup, assocSet, lookup_assocSet_eq, getField, hf, hashable, dGet_emb,
          hg, catches]
      | some v =>
        simp [delBody, execL, execS, eval, List.lookup, assocSet, lookup_assocSet_eq, getField, hf, hashable, dGet_emb,
          hg, putField, dDel_emb]
    simp only [embK, List.map_cons, forLoop, hstep, hsame _ _ hV', if_true]
    have := ih (Cache.dictDel m k) (assocSet fs "cachedCompiledExpressions" (.dict (embD (Cache.dictDel m k))))
      (assocSet rest "keyToRemove" (.py (.str k))) hV' (lookup_assocSet_eq _ _ _)
    simp only [embK] at this
    rw [this, assocSet_assocSet]
    rfl

/-! ### the two loops as statements of the dump -/

theorem rmLoop_stmt (cx : Ctx) (k : Str) (l : List Str) (fs : List (String × Field)) (rest : Env)
    (hk : rest.lookup "key" = some (.py (.str k)))
    (hf : fs.lookup "recentCachedExpressionStrs" = some (.list (embK l)))
    (hl : l.length < cx.fuel) :
    execS cx (("self", .obj fs) :: rest)
      (.whileS (.const (.bool true))
        [.tryS [.fieldCall "self" "recentCachedExpressionStrs" "remove" [(.var "key")]] [.mk (some "ValueError") [.brk]]])
      = (("self", .obj (assocSet fs "recentCachedExpressionStrs" (.list (embK (removeAll k l))))) :: rest, .next) := by
  rw [execS]
  exact rmLoop_run cx k _ (fun _ => rfl) cx.fuel l fs rest hk hf hl

theorem delLoop_stmt (cx : Ctx) (ks : List Str) (m : List (Str × PyV)) (fs : List (String × Field)) (rest : Env)
    (hk : rest.lookup "keysToRemove" = some (.list (embK ks)))
    (hf : fs.lookup "cachedCompiledExpressions" = some (.dict (embD m))) :
    execS cx (("self", .obj fs) :: rest)
      (.forS "keyToRemove" (.var "keysToRemove")
        [.tryS [.delItem "self" "cachedCompiledExpressions" (.var "keyToRemove")] [.mk none [.pass]]])
      = (("self", .obj (assocSet fs "cachedCompiledExpressions" (.dict (embD (ks.foldl Cache.dictDel m))))) :: bindKeys rest ks,
         .next) := by
  rw [execS]
  have hv : eval cx (("self", .obj fs) :: rest) (.var "keysToRemove") = .ok (.list (embK ks)) := by
    simp [eval, List.lookup, hk]
  simp only [hv, iterItems, Expr.isVar, Bool.or_true, Bool.true_or, if_true]
  refine delLoop_run cx (.list (embK ks)) _ ?_ ks m fs rest hk hf
  intro fs' rest' h
  simp [eval, List.lookup, h]

/-! the same, on the environments the two methods have at their loops (everything is then determined by the left side) -/

theorem rmLoop_get_stmt (cx : Ctx) (k : Str) (l : List Str) (M L : Field) (a b : Val) (hl : l.length < cx.fuel) :
    execS cx [("self", .obj [("cachedCompiledExpressions", M), ("recentCachedExpressionStrs", .list (embK l)), ("cacheLock", L)]),
              ("expressionStr", a), ("key", .py (.str k)), ("xpathExpressionObj", b)]
      (.whileS (.const (.bool true))
        [.tryS [.fieldCall "self" "recentCachedExpressionStrs" "remove" [(.var "key")]] [.mk (some "ValueError") [.brk]]])
      = ([("self", .obj [("cachedCompiledExpressions", M), ("recentCachedExpressionStrs", .list (embK (removeAll k l))),
                         ("cacheLock", L)]),
          ("expressionStr", a), ("key", .py (.str k)), ("xpathExpressionObj", b)], .next) := by
  rw [rmLoop_stmt cx k l _ _ (by simp [List.lookup]) (by simp [List.lookup]) hl]
  simp [assocSet]

theorem rmLoop_set_stmt (cx : Ctx) (k : Str) (l : List Str) (M L : Field) (a b : Val) (hl : l.length < cx.fuel) :
    execS cx [("self", .obj [("cachedCompiledExpressions", M), ("recentCachedExpressionStrs", .list (embK l)), ("cacheLock", L)]),
              ("expressionStr", a), ("xpathExpressionObj", b), ("key", .py (.str k))]
      (.whileS (.const (.bool true))
        [.tryS [.fieldCall "self" "recentCachedExpressionStrs" "remove" [(.var "key")]] [.mk (some "ValueError") [.brk]]])
      = ([("self", .obj [("cachedCompiledExpressions", M), ("recentCachedExpressionStrs", .list (embK (removeAll k l))),
                         ("cacheLock", L)]),
          ("expressionStr", a), ("xpathExpressionObj", b), ("key", .py (.str k))], .next) := by
  rw [rmLoop_stmt cx k l _ _ (by simp [List.lookup]) (by simp [List.lookup]) hl]
  simp [assocSet]

theorem delLoop_set_stmt (cx : Ctx) (ks : List Str) (m : List (Str × PyV)) (R L : Field) (a b c d e : Val) :
    execS cx [("self", .obj [("cachedCompiledExpressions", .dict (embD m)), ("recentCachedExpressionStrs", R), ("cacheLock", L)]),
              ("expressionStr", a), ("xpathExpressionObj", b), ("key", c), ("numCachedExpressionStrs", d),
              ("numRemainingAfterClear", e), ("keysToRemove", .list (embK ks))]
      (.forS "keyToRemove" (.var "keysToRemove")
        [.tryS [.delItem "self" "cachedCompiledExpressions" (.var "keyToRemove")] [.mk none [.pass]]])
      = (("self", .obj [("cachedCompiledExpressions", .dict (embD (ks.foldl Cache.dictDel m))),
                        ("recentCachedExpressionStrs", R), ("cacheLock", L)]) ::
          bindKeys [("expressionStr", a), ("xpathExpressionObj", b), ("key", c), ("numCachedExpressionStrs", d),
              ("numRemainingAfterClear", e), ("keysToRemove", .list (embK ks))] ks, .next) := by
  rw [delLoop_stmt cx ks m _ _ (by simp [List.lookup]) (by simp [List.lookup])]
  simp [assocSet]

theorem embK_snoc (r : List Str) (k : Str) : embK r ++ [PyV.str k] = embK (r ++ [k]) := by simp [embK]
theorem sliceTo_embK (l : List Str) (n : Int) : Cache.sliceTo (embK l) n = embK (Cache.sliceTo l n) := sliceTo_map _ _ _
theorem sliceFrom_embK (l : List Str) (n : Int) : Cache.sliceFrom (embK l) n = embK (Cache.sliceFrom l n) := sliceFrom_map _ _ _

/-- Evaluate the straight-line parts of a dumped method of the cache (after `py_stmts`). -/
macro "py_cache" "[" ts:Lean.Parser.Tactic.simpLemma,* "]" : tactic => `(tactic| simp [$ts,*,
  eval, evalList, cacheCx_max, cacheCx_clear, cacheCx_fuel, cacheCx_funs, cacheCx_key, List.lookup, assocSet,
  delLoop_set_stmt, embK_snoc, sliceTo_embK, sliceFrom_embK, embK_length, getField, putField, mutCall, getAttr, Field.toVal, Val.toField, callMethod,
  hashable, dGet_emb, dSet_emb, aliasOK, Val.mutable, Expr.makesNew, pyCompare, compareB, pyIs, pyOrd, numOf, Val.unique,
  Val.truthy, truthy, Lit.toPy, builtin, pyLen, pyBinop, pySlice, resultOf, lookup_assocSet_eq, lookup_bindKeys])

end AHP.PyAst
