/-
  Helper lemmas for C07 (indexes are transparent).

    * association lists as dicts (`assocSet`, `assocPush`, `assocGet`, `assocDel`)
    * `Node.find?` finds every element of a document with distinct ids
    * the parent chain: `hasTagInParentLine doc x r` ⇔ `x` is a strict descendant of `r`
    * restricting a document-order list to a subtree
-/
import AHP.Model.Index
import AHP.Lemmas.Search
namespace AHP.G3
/-! ### association lists -/

theorem beqT {a b : Str} (h : a = b) : (a == b) = true := by simp [h]
theorem beqF {a b : Str} (h : a ≠ b) : (a == b) = false := by simp [h]

theorem lookup_assocSet_same {β : Type} (m : List (Str × β)) (k : Str) (v : β) :
    (assocSet m k v).lookup k = some v := by
  induction m with
  | nil => simp [assocSet]
  | cons p rest ih =>
    obtain ⟨k', v'⟩ := p
    by_cases h : k' = k
    · simp [assocSet, beqT h, List.lookup_cons, beqT h.symm]
    · simp [assocSet, beqF h, List.lookup_cons, beqF (Ne.symm h), ih]

theorem lookup_assocSet_other {β : Type} (m : List (Str × β)) (k k2 : Str) (v : β) (hne : k2 ≠ k) :
    (assocSet m k v).lookup k2 = m.lookup k2 := by
  induction m with
  | nil => simp [assocSet, List.lookup_cons, beqF hne]
  | cons p rest ih =>
    obtain ⟨k', v'⟩ := p
    by_cases h : k' = k
    · subst h
      simp [assocSet, List.lookup_cons, beqF hne]
    · simp only [assocSet, beqF h, List.lookup_cons, ih, Bool.false_eq_true, if_false]

theorem assocGet_push_same (m : List (Str × List Nat)) (k : Str) (x : Nat) :
    assocGet (assocPush m k x) k = assocGet m k ++ [x] := by
  induction m with
  | nil => simp [assocPush, assocGet]
  | cons p rest ih =>
    obtain ⟨k', xs⟩ := p
    simp only [assocGet] at ih
    by_cases h : k' = k
    · simp [assocPush, assocGet, beqT h, List.lookup_cons, beqT h.symm]
    · simp [assocPush, assocGet, beqF h, List.lookup_cons, beqF (Ne.symm h), ih]

theorem assocGet_push_other (m : List (Str × List Nat)) (k k2 : Str) (x : Nat) (hne : k2 ≠ k) :
    assocGet (assocPush m k x) k2 = assocGet m k2 := by
  induction m with
  | nil => simp [assocPush, assocGet, List.lookup_cons, beqF hne]
  | cons p rest ih =>
    obtain ⟨k', xs⟩ := p
    simp only [assocGet] at ih
    by_cases h : k' = k
    · subst h
      simp [assocPush, assocGet, List.lookup_cons, beqF hne]
    · simp only [assocPush, assocGet, beqF h, List.lookup_cons, Bool.false_eq_true, if_false]
      cases (k2 == k') <;> simp [ih]

theorem assocGet_push (m : List (Str × List Nat)) (k k2 : Str) (x : Nat) :
    assocGet (assocPush m k x) k2 = assocGet m k2 ++ (if k2 = k then [x] else []) := by
  by_cases h : k2 = k
  · subst h; simp [assocGet_push_same]
  · simp [assocGet_push_other m k k2 x h, h]

theorem lookup_assocDel_same {β : Type} (m : List (Str × β)) (k : Str) : (assocDel m k).lookup k = none := by
  induction m with
  | nil => simp [assocDel]
  | cons p rest ih =>
    obtain ⟨k', v'⟩ := p
    simp only [assocDel] at ih
    by_cases h : k' = k
    · simp [assocDel, List.filter_cons, beqT h, ih]
    · simp [assocDel, List.filter_cons, beqF h, List.lookup_cons, beqF (Ne.symm h), ih]

theorem lookup_assocDel_other {β : Type} (m : List (Str × β)) (k k2 : Str) (hne : k2 ≠ k) :
    (assocDel m k).lookup k2 = m.lookup k2 := by
  induction m with
  | nil => simp [assocDel]
  | cons p rest ih =>
    obtain ⟨k', v'⟩ := p
    simp only [assocDel] at ih
    by_cases h : k' = k
    · subst h
      simp [assocDel, List.filter_cons, List.lookup_cons, beqF hne, ih]
    · simp only [assocDel, List.filter_cons, beqF h, Bool.not_false, if_true, List.lookup_cons, ih]

/-! ### uids identify the elements of a document with distinct ids -/

theorem eq_of_uid_eq {xs : List Node} (h : (uidsOf xs).Nodup) {a b : Node} (ha : a ∈ xs) (hb : b ∈ xs)
    (e : a.uid = b.uid) : a = b := by
  induction xs with
  | nil => cases ha
  | cons x xs ih =>
    simp only [uidsOf, List.map_cons] at h
    have h' := List.nodup_cons.mp h
    rcases List.mem_cons.mp ha with rfl | ha' <;> rcases List.mem_cons.mp hb with rfl | hb'
    · rfl
    · exact absurd (e ▸ List.mem_map_of_mem hb') h'.1
    · exact absurd (e ▸ List.mem_map_of_mem ha') h'.1
    · exact ih h'.2 ha' hb'

theorem mem_of_uid_mem {xs : List Node} {u : Nat} (h : u ∈ uidsOf xs) : ∃ a ∈ xs, a.uid = u := by
  simpa [uidsOf] using h

mutual
theorem find?_none (x : Nat) : ∀ n : Node, x ∉ uidsOf n.preorder → n.find? x = none
  | .mk e ks, h => by
    simp only [Node.preorder, uidsOf, List.map_cons, List.mem_cons, not_or] at h
    have h1 : (e.uid == x) = false := by
      have : e.uid ≠ x := fun c => h.1 (by simp [Node.uid, Node.elem, c])
      simpa using this
    simp only [Node.find?, h1, Bool.false_eq_true, if_false]
    exact findL?_none x ks h.2
theorem findL?_none (x : Nat) : ∀ ks : List Node, x ∉ uidsOf (preorderL ks) → findL? ks x = none
  | [], _ => rfl
  | k :: ks, h => by
    simp only [preorderL, uidsOf, List.map_append, List.mem_append, not_or] at h
    simp only [findL?, find?_none x k h.1, findL?_none x ks h.2]
end

mutual
theorem find?_mem (x : Nat) : ∀ n : Node, n.Distinct → ∀ a ∈ n.preorder, a.uid = x → n.find? x = some a
  | .mk e ks, hd, a, ha, hx => by
    by_cases h1 : (e.uid == x) = true
    · have e1 : e.uid = x := by simpa using h1
      have hroot : (Node.mk e ks).uid = x := e1
      have : a = .mk e ks := eq_of_uid_eq hd ha (by simp [Node.preorder]) (hx.trans hroot.symm)
      simp [Node.find?, h1, this]
    · have h1' : (e.uid == x) = false := by simpa using h1
      simp only [Node.find?, h1', Bool.false_eq_true, if_false]
      simp only [Node.preorder, List.mem_cons] at ha
      rcases ha with rfl | ha
      · have hroot : (Node.mk e ks).uid = e.uid := rfl
        exact absurd (hroot.symm.trans hx) (by simpa using h1)
      · exact findL?_mem x ks (Node.Distinct.desc hd) a ha hx
theorem findL?_mem (x : Nat) : ∀ ks : List Node, (uidsOf (preorderL ks)).Nodup →
    ∀ a ∈ preorderL ks, a.uid = x → findL? ks x = some a
  | [], _, a, ha, _ => by simp [preorderL] at ha
  | k :: ks, hd, a, ha, hx => by
    have hd' : (uidsOf k.preorder ++ uidsOf (preorderL ks)).Nodup := by simpa [preorderL, uidsOf] using hd
    have h2 := List.nodup_append.mp hd'
    simp only [preorderL, List.mem_append] at ha
    rcases ha with ha | ha
    · simp [findL?, find?_mem x k h2.1 a ha hx]
    · have hnot : x ∉ uidsOf k.preorder := by
        intro hm
        exact h2.2.2 _ hm _ (List.mem_map_of_mem ha) hx.symm
      simp only [findL?, find?_none x k hnot]
      exact findL?_mem x ks h2.2.1 a ha hx
end

/-- resolving the uids of elements of the document gives those elements back -/
theorem resolve_uids {doc : Node} (hd : doc.Distinct) {ys : List Node} (hs : ∀ y ∈ ys, y ∈ doc.preorder) :
    resolve doc (uidsOf ys) = ys := by
  induction ys with
  | nil => rfl
  | cons y ys ih =>
    have hy := find?_mem y.uid doc hd y (hs y List.mem_cons_self) rfl
    simp only [resolve, uidsOf, List.map_cons, List.filterMap_cons, hy]
    congr 1
    exact ih (fun z hz => hs z (List.mem_cons_of_mem _ hz))

/-! ### the parent chain -/

theorem inParentLine_iff (c : List Nat) (r : Nat) : inParentLine c r = true ↔ r ∈ c := by
  induction c with
  | nil => simp [inParentLine]
  | cons p rest ih =>
    simp only [inParentLine, Bool.or_eq_true, beq_iff_eq, ih, List.mem_cons]
    constructor
    · rintro (h | h)
      · exact Or.inl h.symm
      · exact Or.inr h
    · rintro (h | h)
      · exact Or.inl h.symm
      · exact Or.inr h

mutual
theorem chain_sound (x : Nat) : ∀ (n : Node) (c : List Nat), chain n x = some c →
    x ∈ uidsOf n.preorder ∧ ∀ u ∈ c, u ∈ uidsOf n.preorder
  | .mk e ks, c, h => by
    simp only [chain] at h
    by_cases h1 : (e.uid == x) = true
    · simp only [h1, if_true, Option.some.injEq] at h
      subst h
      have : e.uid = x := by simpa using h1
      exact ⟨by simp [Node.preorder, uidsOf, Node.uid, Node.elem, this], by simp⟩
    · have h1' : (e.uid == x) = false := by simpa using h1
      simp only [h1', Bool.false_eq_true, if_false, Option.map_eq_some_iff] at h
      obtain ⟨c', hc', rfl⟩ := h
      have := chainL_sound x ks c' hc'
      refine ⟨by simp [Node.preorder, uidsOf, List.map_cons]; exact Or.inr (by simpa [uidsOf] using this.1), ?_⟩
      intro u hu
      simp only [List.mem_append, List.mem_singleton] at hu
      simp only [Node.preorder, uidsOf, List.map_cons, List.mem_cons]
      rcases hu with hu | hu
      · exact Or.inr (by simpa [uidsOf] using this.2 u hu)
      · exact Or.inl (by simp [hu, Node.uid, Node.elem])
theorem chainL_sound (x : Nat) : ∀ (ks : List Node) (c : List Nat), chainL ks x = some c →
    x ∈ uidsOf (preorderL ks) ∧ ∀ u ∈ c, u ∈ uidsOf (preorderL ks)
  | [], c, h => by simp [chainL] at h
  | k :: ks, c, h => by
    simp only [chainL] at h
    simp only [preorderL, uidsOf, List.map_append, List.mem_append]
    cases hk : chain k x with
    | some c' =>
      simp only [hk, Option.some.injEq] at h
      subst h
      have := chain_sound x k c' hk
      exact ⟨Or.inl this.1, fun u hu => Or.inl (this.2 u hu)⟩
    | none =>
      simp only [hk] at h
      have := chainL_sound x ks c h
      exact ⟨Or.inr this.1, fun u hu => Or.inr (this.2 u hu)⟩
end

mutual
theorem chain_none (x : Nat) : ∀ n : Node, chain n x = none → x ∉ uidsOf n.preorder
  | .mk e ks, h => by
    simp only [chain] at h
    by_cases h1 : (e.uid == x) = true
    · simp [h1] at h
    · have h1' : (e.uid == x) = false := by simpa using h1
      simp only [h1', Bool.false_eq_true, if_false, Option.map_eq_none_iff] at h
      have := chainL_none x ks h
      have hne : e.uid ≠ x := by simpa using h1
      simp only [Node.preorder, uidsOf, List.map_cons, List.mem_cons, not_or]
      exact ⟨fun c => hne (by simpa [Node.uid, Node.elem] using c.symm), by simpa [uidsOf] using this⟩
theorem chainL_none (x : Nat) : ∀ ks : List Node, chainL ks x = none → x ∉ uidsOf (preorderL ks)
  | [], _ => by simp [preorderL]
  | k :: ks, h => by
    simp only [chainL] at h
    simp only [preorderL, uidsOf, List.map_append, List.mem_append, not_or]
    cases hk : chain k x with
    | some c' => simp [hk] at h
    | none =>
      simp only [hk] at h
      exact ⟨chain_none x k hk, chainL_none x ks h⟩
end

theorem desc_uids_subset {n r : Node} (hr : r ∈ n.preorder) : ∀ u ∈ uidsOf r.desc, u ∈ uidsOf n.preorder := by
  intro u hu
  have hs := preorder_sublist_of_mem n r hr
  rw [Node.preorder_eq r] at hs
  have : (uidsOf r.desc).Sublist (uidsOf n.preorder) := ((List.sublist_cons_self _ _).trans hs).map _
  exact this.subset hu

theorem descL_uids_subset {ks : List Node} {r : Node} (hr : r ∈ preorderL ks) :
    ∀ u ∈ uidsOf r.preorder, u ∈ uidsOf (preorderL ks) := by
  intro u hu
  exact ((preorderL_sublist_of_mem ks r hr).map Node.uid).subset hu

mutual
/-- Following `parentNode` from `x` meets `r` exactly when `x` is a strict descendant of `r`. -/
theorem chain_spec (x : Nat) : ∀ (n : Node) (c : List Nat), n.Distinct → chain n x = some c →
    ∀ r ∈ n.preorder, (r.uid ∈ c ↔ x ∈ uidsOf r.desc)
  | .mk e ks, c, hd, h, r, hr => by
    have hdk : (uidsOf (preorderL ks)).Nodup := Node.Distinct.desc hd
    have hroot : e.uid ∉ uidsOf (preorderL ks) := by
      have := hd
      simp only [Node.Distinct, Node.preorder, uidsOf, List.map_cons] at this
      exact (List.nodup_cons.mp this).1
    simp only [chain] at h
    by_cases h1 : (e.uid == x) = true
    · -- x is the root of this subtree: no proper ancestors here, and it is nobody's strict descendant
      simp only [h1, if_true, Option.some.injEq] at h
      subst h
      have ex : e.uid = x := by simpa using h1
      simp only [List.not_mem_nil, false_iff]
      intro hx
      have : x ∈ uidsOf (preorderL ks) := by
        simp only [Node.preorder, List.mem_cons] at hr
        rcases hr with rfl | hr
        · simpa [Node.desc, Node.kids] using hx
        · exact descL_uids_subset hr x (by rw [Node.preorder_eq]; exact List.mem_cons_of_mem _ hx)
      exact hroot (ex ▸ this)
    · have h1' : (e.uid == x) = false := by simpa using h1
      simp only [h1', Bool.false_eq_true, if_false, Option.map_eq_some_iff] at h
      obtain ⟨c', hc', rfl⟩ := h
      have hs := chainL_sound x ks c' hc'
      simp only [Node.preorder, List.mem_cons] at hr
      rcases hr with rfl | hr
      · -- r is the root: it is an ancestor, and x is below it
        simp only [List.mem_append, List.mem_singleton, Node.uid, Node.elem, or_true, true_iff]
        simpa [Node.desc, Node.kids] using hs.1
      · have hne : r.uid ≠ e.uid := by
          intro c
          exact hroot (c ▸ List.mem_map_of_mem hr)
        simp only [List.mem_append, List.mem_singleton, hne, or_false]
        exact chainL_spec x ks c' hdk hc' r hr
theorem chainL_spec (x : Nat) : ∀ (ks : List Node) (c : List Nat), (uidsOf (preorderL ks)).Nodup →
    chainL ks x = some c → ∀ r ∈ preorderL ks, (r.uid ∈ c ↔ x ∈ uidsOf r.desc)
  | [], c, _, h, _, _ => by simp [chainL] at h
  | k :: ks, c, hd, h, r, hr => by
    have hd' : (uidsOf k.preorder ++ uidsOf (preorderL ks)).Nodup := by simpa [preorderL, uidsOf] using hd
    have h2 := List.nodup_append.mp hd'
    have hdisj : ∀ u, u ∈ uidsOf k.preorder → u ∈ uidsOf (preorderL ks) → False :=
      fun u a b => h2.2.2 u a u b rfl
    simp only [chainL] at h
    simp only [preorderL, List.mem_append] at hr
    cases hk : chain k x with
    | some c' =>
      simp only [hk, Option.some.injEq] at h
      subst h
      have hs := chain_sound x k c' hk
      rcases hr with hr | hr
      · exact chain_spec x k c' h2.1 hk r hr
      · constructor
        · intro hm
          exact absurd (descL_uids_subset hr r.uid (by rw [Node.preorder_eq]; simp [uidsOf]))
            (fun b => hdisj _ (hs.2 _ hm) b)
        · intro hx
          have : x ∈ uidsOf (preorderL ks) :=
            descL_uids_subset hr x (by rw [Node.preorder_eq]; exact List.mem_cons_of_mem _ hx)
          exact absurd this (fun b => hdisj _ hs.1 b)
    | none =>
      simp only [hk] at h
      have hs := chainL_sound x ks c h
      have hxk := chain_none x k hk
      rcases hr with hr | hr
      · constructor
        · intro hm
          have : r.uid ∈ uidsOf k.preorder := List.mem_map_of_mem (preorder_self_mem_of hr)
          exact absurd (hs.2 _ hm) (fun b => hdisj _ this b)
        · intro hx
          exact absurd (desc_uids_subset hr x hx) hxk
      · exact chainL_spec x ks c h2.2.1 h r hr
where
  preorder_self_mem_of {k r : Node} (h : r ∈ k.preorder) : r ∈ k.preorder := h
end

/-- `_hasTagInParentLine` for an element `a` of the document and a subtree root `r` of the document. -/
theorem hasTagInParentLine_iff {doc : Node} (hd : doc.Distinct) {a r : Node} (ha : a ∈ doc.preorder)
    (hr : r ∈ doc.preorder) : hasTagInParentLine doc a.uid r = true ↔ a.uid ∈ uidsOf r.desc := by
  simp only [hasTagInParentLine]
  cases hc : chain doc a.uid with
  | none => exact absurd (List.mem_map_of_mem ha) (chain_none a.uid doc hc)
  | some c =>
    simp only [inParentLine_iff]
    exact chain_spec a.uid doc c hd hc r hr

/-! ### restricting a document-order list to a subtree -/

theorem filter_mem_sublist {xs ys : List Node} (hs : ys.Sublist xs) (hn : (uidsOf xs).Nodup) :
    xs.filter (fun x => decide (x.uid ∈ uidsOf ys)) = ys := by
  induction hs with
  | slnil => rfl
  | cons a hs ih =>
    simp only [uidsOf, List.map_cons] at hn
    have hn' := List.nodup_cons.mp hn
    rename_i l₁ l₂
    have : a.uid ∉ uidsOf l₁ := fun hm => hn'.1 ((hs.map Node.uid).subset hm)
    simp only [List.filter_cons, this, decide_false, Bool.false_eq_true, if_false]
    exact ih hn'.2
  | cons_cons a hs ih =>
    simp only [uidsOf, List.map_cons] at hn
    have hn' := List.nodup_cons.mp hn
    rename_i l₁ l₂
    simp only [List.filter_cons, uidsOf, List.map_cons, List.mem_cons, true_or, decide_true, if_true]
    congr 1
    refine Eq.trans ?_ (ih hn'.2)
    apply List.filter_congr
    intro x hx
    have hne : x.uid ≠ a.uid := fun c => hn'.1 (c ▸ List.mem_map_of_mem hx)
    simp only [uidsOf, List.map_cons, List.mem_cons, hne, false_or]

/-- The subtree restriction of the indexed lookups: from the matches of the whole document keep those
    that `_hasTagInParentLine` accepts — these are the matches among the strict descendants of `r`. -/
theorem restrict_desc {doc : Node} (hd : doc.Distinct) {r : Node} (hr : r ∈ doc.preorder) (p : Elem → Bool) :
    (fil p doc.preorder).filter (fun x => hasTagInParentLine doc x.uid r) = fil p r.desc := by
  have hsub : r.desc.Sublist doc.preorder := by
    have := preorder_sublist_of_mem doc r hr
    rw [Node.preorder_eq r] at this
    exact (List.sublist_cons_self _ _).trans this
  have h1 : doc.preorder.filter (fun x => hasTagInParentLine doc x.uid r) = r.desc := by
    rw [← filter_mem_sublist hsub hd]
    apply List.filter_congr
    intro x hx
    have := hasTagInParentLine_iff hd hx hr
    cases hh : hasTagInParentLine doc x.uid r
    · have : x.uid ∉ uidsOf r.desc := fun c => by simp [this.mpr c] at hh
      simp [this]
    · simp [this.mp hh]
  simp only [fil, List.filter_filter]
  rw [← h1, List.filter_filter]
  apply List.filter_congr
  intro x _
  exact Bool.and_comm _ _

end AHP.G3