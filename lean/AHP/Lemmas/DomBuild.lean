/-
  AHP.Lemmas.DomBuild — trees as the constructor / the parser build them (`mk`) satisfy the
  invariant, and their uids are the consecutive numbers from the allocation counter on.
-/
import AHP.Lemmas.DomWorld
namespace AHP.Dom

@[simp] theorem mk_text (p o s n) : mk p o (.text s) n = (.text s, n) := by simp [mk]
theorem mk_el (p o name attrs sc kids n) : mk p o (.el name attrs sc kids) n =
    (.el ⟨n, name, attrs, (sc || isVoid name) && kids.isEmpty, elemIds (mkL (some n) o kids (n+1)).1,
          textOf (mkL (some n) o kids (n+1)).1, p, o⟩ (.text [] :: (mkL (some n) o kids (n+1)).1),
     (mkL (some n) o kids (n+1)).2) := by simp [mk]
@[simp] theorem mkL_nil (p o n) : mkL p o [] n = ([], n) := by simp [mkL]
theorem mkL_cons (p o k ks n) : mkL p o (k :: ks) n =
    ((mk p o k n).1 :: (mkL p o ks (mk p o k n).2).1, (mkL p o ks (mk p o k n).2).2) := by simp [mkL]

mutual
theorem mk_OK (p o) (f : FN) (n : Nat) : OK p o (mk p o f n).1 := by
  match f with
  | .text s => simp
  | .el name attrs sc kids =>
    rw [mk_el]
    simp only [OK_el, elemIds_text, textOf_text, List.nil_append, OKL_cons, OK_text, true_and]
    refine ⟨?_, mkL_OK (some n) o kids (n+1)⟩
    intro h
    simp only [Bool.and_eq_true, List.isEmpty_iff] at h
    rw [h.2]
    simp [noContent]
theorem mkL_OK (p o) (fs : List FN) (n : Nat) : OKL p o (mkL p o fs n).1 := by
  match fs with
  | [] => simp
  | k :: ks =>
    rw [mkL_cons]
    simp only [OKL_cons]
    exact ⟨mk_OK p o k n, mkL_OK p o ks _⟩
end

mutual
theorem mk_ids (p o) (f : FN) (n : Nat) :
    ∃ k, ids (mk p o f n).1 = List.range' n k ∧ (mk p o f n).2 = n + k := by
  match f with
  | .text s => exact ⟨0, by simp⟩
  | .el name attrs sc kids =>
    obtain ⟨k, h1, h2⟩ := mkL_ids (some n) o kids (n+1)
    refine ⟨k + 1, ?_, ?_⟩
    · rw [mk_el]
      simp only [ids_el, idsL_cons, ids_text, List.nil_append, h1]
      rw [List.range'_succ]
    · rw [mk_el]; simp only [h2]; omega
theorem mkL_ids (p o) (fs : List FN) (n : Nat) :
    ∃ k, idsL (mkL p o fs n).1 = List.range' n k ∧ (mkL p o fs n).2 = n + k := by
  match fs with
  | [] => exact ⟨0, by simp⟩
  | f :: fs =>
    obtain ⟨k1, h1, h2⟩ := mk_ids p o f n
    obtain ⟨k2, h3, h4⟩ := mkL_ids p o fs (mk p o f n).2
    rw [h2] at h3 h4
    refine ⟨k1 + k2, ?_, ?_⟩
    · rw [mkL_cons]
      simp only [idsL_cons, h1, h2, h3]
      rw [List.range'_append_1]
    · rw [mkL_cons]; simp only [h2, h4]; omega
end

theorem mk_isEl (p o name attrs sc kids n) : ∃ m bs, (mk p o (.el name attrs sc kids) n).1 = .el m bs ∧ m.owner = o ∧ m.parent = p := by
  rw [mk_el]; exact ⟨_, _, rfl, rfl, rfl⟩

theorem range'_nodup (n k : Nat) : (List.range' n k).Nodup := by
  exact List.nodup_range' (step := 1) (by omega)

/-- every top-level tree `mkL` builds is a root carrying document `o`; text entries aside -/
theorem mkL_roots (o) (fs : List FN) (n : Nat) :
    ∀ r ∈ (mkL none o fs n).1, r.isEl = true → ∃ m bs, r = .el m bs ∧ OK none o r := by
  intro r hr hel
  have := OKL_mem (mkL_OK none o fs n) hr
  cases r with
  | text s => simp [DN.isEl] at hel
  | el m bs => exact ⟨m, bs, rfl, this⟩

end AHP.Dom
