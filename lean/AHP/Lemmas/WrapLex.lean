/-
  C02f, composition with the strict lexer (first half): `DOCTYPE_MATCH` read on the *rendering* of a token list
  in the serialiser's image (`ListOK`) is `leadDoctype` read on the token list:

      doctypePrefix (renderToks ts) = (leadDoctype ts).map (render both parts)

  Helper lemmas only; the property theorems are in Props/C02.lean.
-/
import AHP.Lemmas.WrapStr
namespace AHP

/-! ### `[\n]*[ \t]*` in front of a character that is neither -/

theorem isNl_of_isBl (b : Char) (h : isBl b = true) : isNl b = false := by
  unfold isBl at h; unfold isNl
  simp at h ⊢
  rcases h with e | e <;> (rw [e]; decide)

theorem skipNlBl_cons (c : Char) (r : Str) (hc1 : isNl c = false) (hc2 : isBl c = false) :
    skipNlBl (c :: r) = c :: r := by
  simp [skipNlBl, List.dropWhile_cons, hc1, hc2]

theorem skipNlBl_ws (nl bl : Str) (c : Char) (r : Str)
    (hnl : ∀ x ∈ nl, isNl x = true) (hbl : ∀ x ∈ bl, isBl x = true) (hc1 : isNl c = false) (hc2 : isBl c = false) :
    skipNlBl (nl ++ bl ++ c :: r) = c :: r := by
  unfold skipNlBl
  have e1 : (nl ++ bl ++ c :: r) = nl ++ (bl ++ c :: r) := by simp
  rw [e1]
  have hsplit1 : (nl ++ (bl ++ c :: r)).dropWhile isNl = bl ++ c :: r := by
    cases bl with
    | nil => simpa using (takeWhile_append_stop nl c r hnl hc1).2
    | cons b bs =>
      have hb : isNl b = false := isNl_of_isBl b (hbl b (by simp))
      simpa using (takeWhile_append_stop nl b (bs ++ c :: r) hnl hb).2
  rw [hsplit1, (takeWhile_append_stop bl c r hbl hc2).2]

theorem skipNlBl_all (nl bl : Str) (hnl : ∀ x ∈ nl, isNl x = true) (hbl : ∀ x ∈ bl, isBl x = true) :
    skipNlBl (nl ++ bl) = [] := by
  unfold skipNlBl
  have h1 : (nl ++ bl).dropWhile isNl = bl := by
    cases bl with
    | nil => simpa using (takeWhile_all nl hnl).2
    | cons b bs =>
      have hb : isNl b = false := isNl_of_isBl b (hbl b (by simp))
      simpa using (takeWhile_append_stop nl b bs hnl hb).2
  rw [h1, (takeWhile_all bl hbl).2]

theorem dropWhile_append_of_ne_nil (p : Char → Bool) (l r : Str) (h : l.dropWhile p ≠ []) :
    (l ++ r).dropWhile p = l.dropWhile p ++ r := by
  induction l with
  | nil => simp at h
  | cons c cs ih =>
    by_cases hc : p c = true
    · simp only [List.cons_append, List.dropWhile_cons, hc, if_true] at h ⊢
      exact ih h
    · simp [List.dropWhile_cons, hc]

theorem mem_of_mem_dropWhile (p : Char → Bool) (l : Str) (x : Char) (h : x ∈ l.dropWhile p) : x ∈ l :=
  (List.dropWhile_sublist p).subset h

theorem wsNL_eq (s : Str) : wsNL s = (skipNlBl s).isEmpty := rfl

/-- a data run that is not of the shape `[\n]*[ \t]*`: the text after the skipped white space still starts inside it -/
theorem skipNlBl_append_of_not_wsNL (s R : Str) (h : wsNL s = false) :
    ∃ c r, c ∈ s ∧ skipNlBl (s ++ R) = c :: r := by
  rw [wsNL_eq] at h
  have h2 : skipNlBl s ≠ [] := by intro e; rw [e] at h; simp at h
  have h1 : s.dropWhile isNl ≠ [] := by
    intro e; apply h2; unfold skipNlBl; rw [e]; rfl
  have e : skipNlBl (s ++ R) = skipNlBl s ++ R := by
    unfold skipNlBl
    rw [dropWhile_append_of_ne_nil isNl s R h1, dropWhile_append_of_ne_nil isBl _ R h2]
  obtain ⟨c, r, hcr⟩ := List.exists_cons_of_ne_nil h2
  refine ⟨c, r ++ R, ?_, by rw [e, hcr]; rfl⟩
  apply mem_of_mem_dropWhile isNl
  apply mem_of_mem_dropWhile isBl
  show c ∈ skipNlBl s
  rw [hcr]; simp

/-! ### texts that do not start as `DOCTYPE_MATCH` reads it -/

theorem startsWithDoctype_of_skip (s : Str) (c : Char) (r : Str) (h : skipNlBl s = c :: r) (hc : c ≠ '<') :
    startsWithDoctype s = false := by
  unfold startsWithDoctype
  rw [h]
  split
  · rename_i heq; simp at heq; exact absurd heq.1 hc
  · rfl

theorem startsWithDoctype_nil_skip (s : Str) (h : skipNlBl s = []) : startsWithDoctype s = false := by
  unfold startsWithDoctype
  rw [h]

/-- `<` followed by something other than `!` -/
theorem startsWithDoctype_lt (s : Str) (c2 : Char) (r : Str) (h : skipNlBl s = '<' :: c2 :: r) (hc : c2 ≠ '!') :
    startsWithDoctype s = false := by
  unfold startsWithDoctype
  rw [h]
  split
  · rename_i heq; simp at heq; exact absurd heq.1 hc
  · rfl

/-- `<!` followed by a character that is not a `d` of either case (a comment) -/
theorem startsWithDoctype_bang (s : Str) (c3 : Char) (r : Str) (h : skipNlBl s = '<' :: '!' :: c3 :: r)
    (hc : lowerChar c3 ≠ 'd') : startsWithDoctype s = false := by
  unfold startsWithDoctype
  rw [h]
  have hf : decide (lower (List.take 7 (c3 :: r)) = "doctype".toList) = false := by
    apply decide_eq_false
    intro e
    have := congrArg List.head? e
    simp [lower] at this
    exact hc this
  show (decide (lower (List.take 7 (c3 :: r)) = "doctype".toList) && (List.drop 7 (c3 :: r)).contains '>') = false
  rw [hf]; rfl

theorem startsWithDoctype_lt_only (s : Str) (h : skipNlBl s = ['<']) : startsWithDoctype s = false := by
  unfold startsWithDoctype
  rw [h]
  rfl

/-- what the skipped white space is followed by decides: `[\n]*[ \t]*` in front changes nothing -/
theorem startsWithDoctype_ws (nl bl : Str) (c : Char) (r : Str)
    (hnl : ∀ x ∈ nl, isNl x = true) (hbl : ∀ x ∈ bl, isBl x = true) (hc1 : isNl c = false) (hc2 : isBl c = false) :
    startsWithDoctype (nl ++ bl ++ c :: r) = startsWithDoctype (c :: r) := by
  unfold startsWithDoctype
  rw [skipNlBl_ws nl bl c r hnl hbl hc1 hc2, skipNlBl_cons c r hc1 hc2]

/-! ### the head of a rendered token -/

theorem alpha_not_nlbl (c : Char) (h : isAlpha c = true) : c ≠ '!' := by
  intro e; rw [e] at h; revert h; decide

/-- a token that is neither a data run nor a doctype declaration: its rendering, whatever follows, does not start
    as `DOCTYPE_MATCH` reads it -/
theorem startsWithDoctype_render_other (t : Token) (h : TokOK t) (hd : isData t = false)
    (hdecl : ∀ d, t ≠ .decl d) (R : Str) : startsWithDoctype (renderTok t ++ R) = false := by
  have hlt1 : isNl '<' = false := by decide
  have hlt2 : isBl '<' = false := by decide
  have ham1 : isNl '&' = false := by decide
  have ham2 : isBl '&' = false := by decide
  cases t with
  | data s => simp [isData] at hd
  | unknownDecl d => exact absurd h (by simp [TokOK])
  | decl d => exact absurd rfl (hdecl d)
  | start n a =>
    obtain ⟨⟨⟨c, cs, rfl, hca⟩, _, _⟩, _, _⟩ := h
    apply startsWithDoctype_lt _ c (cs ++ renderAttrs a ++ " >".toList ++ R) _ (alpha_not_nlbl c hca)
    rw [← skipNlBl_cons '<' _ hlt1 hlt2]
    simp [renderTok]
  | startend n a =>
    obtain ⟨⟨⟨c, cs, rfl, hca⟩, _, _⟩, _⟩ := h
    apply startsWithDoctype_lt _ c (cs ++ renderAttrs a ++ " />".toList ++ R) _ (alpha_not_nlbl c hca)
    rw [← skipNlBl_cons '<' _ hlt1 hlt2]
    simp [renderTok]
  | end_ n =>
    apply startsWithDoctype_lt _ '/' (n ++ ['>'] ++ R) _ (by decide)
    rw [← skipNlBl_cons '<' _ hlt1 hlt2]
    simp [renderTok]
  | pi p =>
    apply startsWithDoctype_lt _ '?' (p ++ ['>'] ++ R) _ (by decide)
    rw [← skipNlBl_cons '<' _ hlt1 hlt2]
    simp [renderTok]
  | comment c =>
    apply startsWithDoctype_bang _ '-' ('-' :: (c ++ "-->".toList ++ R)) _ (by decide)
    rw [← skipNlBl_cons '<' _ hlt1 hlt2]
    simp [renderTok]
  | entity n =>
    apply startsWithDoctype_of_skip _ '&' (n ++ [';'] ++ R) _ (by decide)
    rw [← skipNlBl_cons '&' _ ham1 ham2]
    simp [renderTok]
  | charref n =>
    apply startsWithDoctype_of_skip _ '&' ('#' :: (n ++ [';'] ++ R)) _ (by decide)
    rw [← skipNlBl_cons '&' _ ham1 ham2]
    simp [renderTok]

/-! ### the token-level reading -/

theorem leadDoctype_data_not_ws (s : Str) (rest : List Token) (h : wsNL s = false) :
    leadDoctype (.data s :: rest) = none := by
  unfold leadDoctype
  split
  · rename_i heq; simp at heq
  · rename_i ws d r heq
    simp at heq
    rw [← heq.1] at *
    simp [h]
  · rfl

theorem leadDoctype_data_not_decl (s : Str) (t : Token) (rest : List Token) (h : ∀ d, t ≠ .decl d) :
    leadDoctype (.data s :: t :: rest) = none := by
  unfold leadDoctype
  split
  · rename_i heq; simp at heq
  · rename_i ws d r heq
    simp at heq
    exact absurd heq.2.1 (h d)
  · rfl

theorem leadDoctype_other (t : Token) (rest : List Token) (hd : isData t = false) (h : ∀ d, t ≠ .decl d) :
    leadDoctype (t :: rest) = none := by
  unfold leadDoctype
  split
  · rename_i d r heq; simp at heq; exact absurd heq.1 (h d)
  · rename_i ws d r heq; simp at heq; rw [heq.1] at hd; simp [isData] at hd
  · rfl

/-- the rendering of a well-formed list whose first token is not a data run starts with `<` or `&` -/
theorem renderToks_head_of_not_data (t : Token) (rest : List Token) (h : TokOK t) (hd : isData t = false) :
    ∃ r, renderToks (t :: rest) = '<' :: r ∨ renderToks (t :: rest) = '&' :: r := by
  obtain ⟨r, hr⟩ := render_head t h hd
  rcases hr with hr | hr
  · exact ⟨r ++ renderToks rest, Or.inl (by simp [renderToks, hr])⟩
  · exact ⟨r ++ renderToks rest, Or.inr (by simp [renderToks, hr])⟩

/-- a well-formed list that does not begin with a doctype declaration or a data run -/
theorem startsWithDoctype_renderToks_other (t : Token) (rest : List Token) (h : TokOK t)
    (hf : Follows t (renderToks rest)) (hdecl : ∀ d, t ≠ .decl d)
    (hws : ∀ s, t = .data s → s = ['<'] ∨ s = ['&']) :
    startsWithDoctype (renderToks (t :: rest)) = false := by
  cases hd : isData t with
  | false => exact startsWithDoctype_render_other t h hd hdecl (renderToks rest)
  | true =>
    cases t with
    | data s =>
      rcases hws s rfl with rfl | rfl
      · simp only [Follows, if_true] at hf
        obtain ⟨c, r, hr, _, _, h3, _⟩ := hf
        apply startsWithDoctype_lt _ c r _ h3
        have e : renderToks (Token.data ['<'] :: rest) = '<' :: c :: r := by simp [renderToks, renderTok, hr]
        rw [e]
        exact skipNlBl_cons '<' _ (by decide) (by decide)
      · apply startsWithDoctype_of_skip _ '&' (renderToks rest) _ (by decide)
        have e : renderToks (Token.data ['&'] :: rest) = '&' :: renderToks rest := by simp [renderToks, renderTok]
        rw [e]
        exact skipNlBl_cons '&' _ (by decide) (by decide)
    | _ => simp [isData] at hd

/-! ### raw-text elements (`script` / `style`): the list begins with their start tag -/

/-- a start tag with a well-formed name (of a raw-text element or not), whatever follows: `<` and a letter -/
theorem startsWithDoctype_render_start (n : Str) (a : List Attr) (hn : TagNameOK n) (R : Str) :
    startsWithDoctype (renderTok (.start n a) ++ R) = false := by
  obtain ⟨⟨c, cs, rfl, hca⟩, _, _⟩ := hn
  apply startsWithDoctype_lt _ c (cs ++ renderAttrs a ++ " >".toList ++ R) _ (alpha_not_nlbl c hca)
  rw [← skipNlBl_cons '<' _ (by decide) (by decide)]
  simp [renderTok]

/-- a list in the serialiser's image (raw-text elements included) that does not begin with a doctype declaration
    or an ordinary data run -/
theorem startsWithDoctype_listOK_other (t : Token) (rest : List Token) (h : ListOK (t :: rest))
    (hdecl : ∀ d, t ≠ .decl d) (hws : ∀ s, t = .data s → s = ['<'] ∨ s = ['&']) :
    startsWithDoctype (renderToks (t :: rest)) = false := by
  cases h with
  | cons ht hf _ => exact startsWithDoctype_renderToks_other t rest ht hf hdecl hws
  | raw hr _ _ _ _ =>
    simp only [renderToks]
    exact startsWithDoctype_render_start _ _ (rawName_tagNameOK _ hr) _
  | rawEmpty hr _ _ =>
    simp only [renderToks]
    exact startsWithDoctype_render_start _ _ (rawName_tagNameOK _ hr) _

/-- a non-empty list in the serialiser's image does not render to the empty text -/
theorem renderToks_ne_nil_of_listOK (t : Token) (rest : List Token) (h : ListOK (t :: rest)) :
    renderToks (t :: rest) ≠ [] := by
  cases h with
  | cons ht _ _ =>
    intro e
    have := renderTok_ne_nil t ht
    simp [renderToks] at e
    exact this e.1
  | raw _ _ _ _ _ => simp [renderToks, renderTok]
  | rawEmpty _ _ _ => simp [renderToks, renderTok]

/-- **`DOCTYPE_MATCH` on the rendering = `leadDoctype` on the tokens.**  For every token list in the
    serialiser's image (raw-text elements included) the character-level match finds exactly the rendering of
    the token-level prefix. -/
theorem doctypePrefix_renderToks (ts : List Token) (h : ListOK ts) :
    doctypePrefix (renderToks ts) = (leadDoctype ts).map (fun pr => (renderToks pr.1, renderToks pr.2)) := by
  cases h with
  | nil => rfl
  | raw hr ha hne hok hts =>
    -- the list begins with `<script …` / `<style …`: no doctype on either side
    rw [leadDoctype_other _ _ rfl (by simp)]
    exact doctypePrefix_none_of_not _
      (startsWithDoctype_listOK_other _ _ (.raw hr ha hne hok hts) (by simp) (by simp))
  | rawEmpty hr ha hts =>
    rw [leadDoctype_other _ _ rfl (by simp)]
    exact doctypePrefix_none_of_not _
      (startsWithDoctype_listOK_other _ _ (.rawEmpty hr ha hts) (by simp) (by simp))
  | @cons t rest ht hf hrest =>
    cases t with
    | decl d =>
      obtain ⟨hd, hgt⟩ := ht
      have := doctypePrefix_decl [] [] d (renderToks rest) (by simp) (by simp) hd hgt
      simpa [leadDoctype, renderToks, renderTok] using this
    | data s =>
      by_cases hsing : s = ['<'] ∨ s = ['&']
      · have hl : leadDoctype (.data s :: rest) = none := by
          apply leadDoctype_data_not_ws
          rcases hsing with rfl | rfl <;> decide
        rw [hl]
        exact doctypePrefix_none_of_not _
          (startsWithDoctype_renderToks_other _ rest ht hf (by simp) (fun s' e => by cases e; exact hsing))
      · have hn1 : s ≠ ['<'] := fun e => hsing (Or.inl e)
        have hn2 : s ≠ ['&'] := fun e => hsing (Or.inr e)
        have hall : s ≠ [] ∧ ∀ c ∈ s, (c ≠ '<' ∧ c ≠ '&') := by
          rcases ht with e | e | e
          · exact absurd e hn1
          · exact absurd e hn2
          · exact e
        simp only [Follows, hn1, hn2, if_false] at hf
        cases hws : wsNL s with
        | false =>
          rw [leadDoctype_data_not_ws s rest hws]
          obtain ⟨c, r, hc, hskip⟩ := skipNlBl_append_of_not_wsNL s (renderToks rest) hws
          exact doctypePrefix_none_of_not _ (startsWithDoctype_of_skip _ c r hskip (hall.2 c hc).1)
        | true =>
          obtain ⟨nl, bl, rfl, hnl, hbl⟩ := wsNL_split s hws
          cases rest with
          | nil =>
            have : leadDoctype [Token.data (nl ++ bl)] = none := rfl
            rw [this]
            apply doctypePrefix_none_of_not
            apply startsWithDoctype_nil_skip
            simpa [renderToks, renderTok] using skipNlBl_all nl bl hnl hbl
          | cons t2 rest2 =>
            by_cases hdecl : ∃ d, t2 = .decl d
            · obtain ⟨d, rfl⟩ := hdecl
              obtain ⟨hd, hgt⟩ : TokOK (.decl d) := by
                cases hrest with
                | cons ht2 _ _ => exact ht2
              have := doctypePrefix_decl nl bl d (renderToks rest2) hnl hbl hd hgt
              simpa [leadDoctype, hws, renderToks, renderTok] using this
            · have hnd : ∀ d, t2 ≠ .decl d := fun d e => hdecl ⟨d, e⟩
              rw [leadDoctype_data_not_decl _ t2 rest2 hnd]
              apply doctypePrefix_none_of_not
              -- the rendering of the rest starts with `<` or `&` …
              have hne2 : renderToks (t2 :: rest2) ≠ [] := renderToks_ne_nil_of_listOK t2 rest2 hrest
              obtain ⟨c, r, hcr, hc⟩ : ∃ c r, renderToks (t2 :: rest2) = c :: r ∧ (c = '<' ∨ c = '&') := by
                rcases hf with e | ⟨r, e | e⟩
                · exact absurd e hne2
                · exact ⟨'<', r, e, Or.inl rfl⟩
                · exact ⟨'&', r, e, Or.inr rfl⟩
              have hc1 : isNl c = false := by rcases hc with e | e <;> (rw [e]; decide)
              have hc2 : isBl c = false := by rcases hc with e | e <;> (rw [e]; decide)
              have hrender : renderToks (.data (nl ++ bl) :: t2 :: rest2) = nl ++ bl ++ c :: r := by
                rw [← hcr]; simp [renderToks, renderTok]
              rw [hrender, startsWithDoctype_ws nl bl c r hnl hbl hc1 hc2, ← hcr]
              -- … so the second token is not an ordinary data run (it may be the start tag of a raw-text element)
              apply startsWithDoctype_listOK_other t2 rest2 hrest hnd
              intro s2 e
              subst e
              have ht2 : TokOK (.data s2) := by
                cases hrest with
                | cons ht2 _ _ => exact ht2
              rcases ht2 with e | e | ⟨hne, hall2⟩
              · exact Or.inl e
              · exact Or.inr e
              · exfalso
                obtain ⟨c', s', rfl⟩ := List.exists_cons_of_ne_nil hne
                simp [renderToks, renderTok] at hcr
                have := hall2 c' (by simp)
                rw [hcr.1] at this
                rcases hc with e | e
                · exact this.1 e
                · exact this.2 e
    | start n a =>
      rw [leadDoctype_other _ rest rfl (by simp)]
      exact doctypePrefix_none_of_not _ (startsWithDoctype_renderToks_other _ rest ht hf (by simp) (by simp))
    | startend n a =>
      rw [leadDoctype_other _ rest rfl (by simp)]
      exact doctypePrefix_none_of_not _ (startsWithDoctype_renderToks_other _ rest ht hf (by simp) (by simp))
    | end_ n =>
      rw [leadDoctype_other _ rest rfl (by simp)]
      exact doctypePrefix_none_of_not _ (startsWithDoctype_renderToks_other _ rest ht hf (by simp) (by simp))
    | entity n =>
      rw [leadDoctype_other _ rest rfl (by simp)]
      exact doctypePrefix_none_of_not _ (startsWithDoctype_renderToks_other _ rest ht hf (by simp) (by simp))
    | charref n =>
      rw [leadDoctype_other _ rest rfl (by simp)]
      exact doctypePrefix_none_of_not _ (startsWithDoctype_renderToks_other _ rest ht hf (by simp) (by simp))
    | comment c =>
      rw [leadDoctype_other _ rest rfl (by simp)]
      exact doctypePrefix_none_of_not _ (startsWithDoctype_renderToks_other _ rest ht hf (by simp) (by simp))
    | pi p =>
      rw [leadDoctype_other _ rest rfl (by simp)]
      exact doctypePrefix_none_of_not _ (startsWithDoctype_renderToks_other _ rest ht hf (by simp) (by simp))
    | unknownDecl d => exact absurd ht (by simp [TokOK])

end AHP
