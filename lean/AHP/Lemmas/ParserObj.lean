/-
  The parser OBJECT across parses (C02c / C02d): `AdvancedHTMLParser` / `IndexedAdvancedHTMLParser` as a state that
  survives between calls — `_inTag`, `root`, `doctype` (`Core.tree`, `Core.doctype`), the index maps of the indexed
  class (`Core.log`: the elements handed to `_indexTag` since the last `_resetIndexInternal`, in order; the maps
  `_idMap`, `_nameMap`, `_classNameMap`, `_tagNameMap`, `_otherAttributeIndexes` are functions of this list and of
  the index flags, which no parse changes), `HTMLParser`'s own fields (`rawdata`, `cdata_elem`, `interesting`,
  `lasttag` …: `ParserObj.tk`, abstract) and `encoding` (never reset).

  Code followed (Parser.py): `__init__` (fields, `self.reset = self._reset`), `_reset` (`HTMLParser.reset`,
  `root = None`, `doctype = None`, `_inTag = []`), `IndexedAdvancedHTMLParser._reset` (`AdvancedHTMLParser._reset`
  then `_resetIndexInternal`), `IndexedAdvancedHTMLParser.handle_starttag` (`_indexTag(newTag)` after the plain
  handler returned), `feed` (`stripIEConditionals`; `HTMLParser.feed`; on MultipleRootNodeException `self.reset()`
  and `HTMLParser.feed` of the wrapped text — `feed` itself does NOT reset first), `parseStr` (`self.reset()`; bytes
  are decoded with `self.encoding` AFTER the reset; `self.feed`).

  The tokenizer is a parameter with its own state (`Tokenizer τ`): what `HTMLParser.feed` delivers depends on what
  an earlier `feed` left in `rawdata` / on raw-text mode, unless `HTMLParser.reset()` ran — the theorems hold for
  every such tokenizer.
-/
import AHP.Model.StripIE
import AHP.Lemmas.Builder
namespace AHP.PObj
open AHP

/-- `HTMLParser`'s half of the object, abstract. -/
structure Tokenizer (τ : Type) where
  /-- the fields after `HTMLParser.reset()` -/
  fresh : τ
  /-- `HTMLParser.feed(text)` from a state when no callback raises: the callbacks made, in order, and the state
      left (unfinished text stays in `rawdata`; raw-text mode may stay on) -/
  feed : τ → Str → List Token × τ
  /-- the state left when callback number `k` raised (`rawdata` is not trimmed then) -/
  aborted : τ → Str → Nat → τ

/-- the library's half: `_inTag` / `root`, `doctype`, the index -/
structure Core where
  tree : TState
  doctype : Option Str
  log : List (Str × AttrState)
  deriving Inhabited

/-- after `_reset` (both classes: the plain class never writes the log) -/
def Core.init : Core := ⟨TState.init, none, []⟩

/-- the document the public API shows in any state (`getRoot()`, `doctype`): open elements are already linked in
    the code, `finish` links them in the model -/
def Core.doc (c : Core) : Doc := ⟨c.doctype, (finish c.tree).root⟩

/-- the elements a callback hands to `_indexTag` -/
def newTags : Token → List (Str × AttrState)
  | .start n a => [(lower n, intake a AttrState.empty)]
  | .startend n a => [(lower n, intake a AttrState.empty)]
  | _ => []

/-- one callback on the object: the plain handlers; the indexed class indexes the new element after its plain
    `handle_starttag` returned (so not when it raised) -/
def stepObj (indexed : Bool) (c : Core) (t : Token) : Outcome Core :=
  (step ⟨c.tree, c.doctype⟩ t).map (fun b => ⟨b.tree, b.doctype, if indexed then c.log ++ newTags t else c.log⟩)

/-- the callbacks in order; when one raises: the state before it (a raising handler changes nothing), its number
    and the exception -/
def runObj (indexed : Bool) : Core → List Token → Nat → Core × Option (Nat × Exc)
  | c, [], _ => (c, none)
  | c, t :: ts, k =>
    match stepObj indexed c t with
    | .ok c' => runObj indexed c' ts (k + 1)
    | .multipleRoot => (c, some (k, .multipleRoot))
    | .invalidClose => (c, some (k, .invalidClose))
    | .missedClose => (c, some (k, .missedClose))
    | .invalidAttr => (c, some (k, .invalidAttr))

structure ParserObj (τ ε : Type) where
  core : Core
  tk : τ
  /-- `self.encoding` -/
  enc : ε
  /-- the class: `IndexedAdvancedHTMLParser` or not -/
  indexed : Bool

/-- the object `__init__` leaves (no `filename`) -/
def ParserObj.fresh {τ ε : Type} (T : Tokenizer τ) (enc : ε) (indexed : Bool) : ParserObj τ ε :=
  ⟨Core.init, T.fresh, enc, indexed⟩

/-- `self.reset()` = `_reset` of the object's class -/
def ParserObj.reset {τ ε : Type} (T : Tokenizer τ) (o : ParserObj τ ε) : ParserObj τ ε :=
  { o with core := Core.init, tk := T.fresh }

/-- what a call can end with -/
inductive Raised where
  | parse (e : Exc)          -- from a handler (MultipleRootNodeException of the second pass)
  | decode                   -- `bytes.decode(self.encoding)` failed
  deriving Repr, DecidableEq, Inhabited

/-- `AdvancedHTMLParser.feed(contents)` on the object AS IT IS (no reset in front) -/
def feedObj {τ ε : Type} (T : Tokenizer τ) (o : ParserObj τ ε) (contents : Str) : ParserObj τ ε × Option Raised :=
  let text := stripIE contents
  let r1 := T.feed o.tk text
  match runObj o.indexed o.core r1.1 0 with
  | (c1, none) => ({ o with core := c1, tk := r1.2 }, none)
  | (_, some (_, .multipleRoot)) =>
    -- `except MultipleRootNodeException: self.reset()` then the wrapped text
    let r2 := T.feed T.fresh (wrapStr text)
    match runObj o.indexed Core.init r2.1 0 with
    | (c2, none) => ({ o with core := c2, tk := r2.2 }, none)
    | (c2, some (k2, e)) => ({ o with core := c2, tk := T.aborted T.fresh (wrapStr text) k2 }, some (.parse e))
  | (c1, some (k, e)) => ({ o with core := c1, tk := T.aborted o.tk text k }, some (.parse e))

/-- what `parseStr` is given -/
inductive Input (β : Type) where
  | str (s : Str)
  | bytes (b : β)

/-- `parseStr(html)`: `self.reset()`, decode bytes with `self.encoding`, `self.feed` -/
def parseOn {τ ε β : Type} (T : Tokenizer τ) (decode : ε → β → Option Str) (o : ParserObj τ ε) :
    Input β → ParserObj τ ε × Option Raised
  | .str s => feedObj T (o.reset T) s
  | .bytes b =>
    match decode o.enc b with
    | some s => feedObj T (o.reset T) s
    | none => (o.reset T, some .decode)

/-- a history of `parseStr` calls on one object (a call that raised leaves the object as it is; the caller goes on):
    the object and the outcome of the LAST call -/
def parseHist {τ ε β : Type} (T : Tokenizer τ) (decode : ε → β → Option Str) :
    ParserObj τ ε × Option Raised → List (Input β) → ParserObj τ ε × Option Raised
  | r, [] => r
  | r, i :: is => parseHist T decode (parseOn T decode r.1 i) is

/-! ### what a parse keeps of the object it starts from -/

theorem feedObj_enc {τ ε : Type} (T : Tokenizer τ) (o : ParserObj τ ε) (s : Str) :
    (feedObj T o s).1.enc = o.enc ∧ (feedObj T o s).1.indexed = o.indexed := by
  unfold feedObj
  simp only
  split
  · exact ⟨rfl, rfl⟩
  · split
    · exact ⟨rfl, rfl⟩
    · exact ⟨rfl, rfl⟩
  · exact ⟨rfl, rfl⟩

theorem parseOn_enc {τ ε β : Type} (T : Tokenizer τ) (decode : ε → β → Option Str) (o : ParserObj τ ε) (i : Input β) :
    (parseOn T decode o i).1.enc = o.enc ∧ (parseOn T decode o i).1.indexed = o.indexed := by
  cases i with
  | str s => exact feedObj_enc T (o.reset T) s
  | bytes b =>
    cases hd : decode o.enc b with
    | some s =>
      simp only [parseOn, hd]
      exact feedObj_enc T (o.reset T) s
    | none =>
      simp only [parseOn, hd]
      exact ⟨rfl, rfl⟩

/-- `reset` forgets everything but the encoding and the class -/
theorem reset_eq_fresh {τ ε : Type} (T : Tokenizer τ) (o : ParserObj τ ε) :
    o.reset T = ParserObj.fresh T o.enc o.indexed := rfl

/-- **a parse depends on the object only through its encoding and class** — whatever an earlier parse left in
    `_inTag` / `root` / `doctype`, in the index maps, in the tokenizer -/
theorem parseOn_fresh {τ ε β : Type} (T : Tokenizer τ) (decode : ε → β → Option Str) (o : ParserObj τ ε) (i : Input β) :
    parseOn T decode o i = parseOn T decode (ParserObj.fresh T o.enc o.indexed) i := by
  cases i <;> rfl

theorem parseHist_snoc {τ ε β : Type} (T : Tokenizer τ) (decode : ε → β → Option Str) :
    ∀ (h : List (Input β)) (r : ParserObj τ ε × Option Raised) (last : Input β),
    parseHist T decode r (h ++ [last]) = parseOn T decode (parseHist T decode r h).1 last
  | [], _, _ => rfl
  | i :: is, r, last => by
    simp only [List.cons_append, parseHist]
    exact parseHist_snoc T decode is _ last

theorem parseHist_enc {τ ε β : Type} (T : Tokenizer τ) (decode : ε → β → Option Str) :
    ∀ (h : List (Input β)) (r : ParserObj τ ε × Option Raised),
    (parseHist T decode r h).1.enc = r.1.enc ∧ (parseHist T decode r h).1.indexed = r.1.indexed
  | [], _ => ⟨rfl, rfl⟩
  | i :: is, r => by
    simp only [parseHist]
    have h1 := parseHist_enc T decode is (parseOn T decode r.1 i)
    have h2 := parseOn_enc T decode r.1 i
    exact ⟨h1.1.trans h2.1, h1.2.trans h2.2⟩

/-- **C02d on the object.** For every history of inputs and EVERY starting object — any `_inTag` / `root` /
    `doctype`, any index content, any tokenizer residue: in particular a state left by a parse that raised or left
    elements open — the object and the outcome after the last `parseStr` are those of a freshly constructed object
    (same encoding, same class) given the last input alone. -/
theorem reuse_object {τ ε β : Type} (T : Tokenizer τ) (decode : ε → β → Option Str)
    (o0 : ParserObj τ ε) (r0 : Option Raised) (h : List (Input β)) (last : Input β) :
    parseHist T decode (o0, r0) (h ++ [last]) = parseOn T decode (ParserObj.fresh T o0.enc o0.indexed) last := by
  rw [parseHist_snoc, parseOn_fresh]
  have := parseHist_enc T decode h (o0, r0)
  rw [this.1, this.2]

/-! ### the object against the token-level `feedTokens` -/

def excOutcome {σ : Type} : Exc → Outcome σ
  | .multipleRoot => .multipleRoot
  | .invalidClose => .invalidClose
  | .missedClose => .missedClose
  | .invalidAttr => .invalidAttr

/-- the handlers on the object are the handlers of `run`, paired with the index log -/
theorem run_of_runObj (indexed : Bool) : ∀ (ts : List Token) (c : Core) (k : Nat),
    run ⟨c.tree, c.doctype⟩ ts = match runObj indexed c ts k with
      | (c', none) => .ok ⟨c'.tree, c'.doctype⟩
      | (_, some (_, e)) => excOutcome e
  | [], c, k => rfl
  | t :: ts, c, k => by
    simp only [run, runObj, stepObj]
    cases hs : step ⟨c.tree, c.doctype⟩ t with
    | ok b =>
      simp only [Outcome.map]
      exact run_of_runObj indexed ts ⟨b.tree, b.doctype, _⟩ (k + 1)
    | multipleRoot => rfl
    | invalidClose => rfl
    | missedClose => rfl
    | invalidAttr => rfl

/-- the index after a pass that did not raise: what was there, then the elements of the pass in document order
    (indexed class), nothing (plain class) -/
theorem runObj_log (indexed : Bool) : ∀ (ts : List Token) (c c' : Core) (k : Nat),
    runObj indexed c ts k = (c', none) → c'.log = c.log ++ (if indexed then ts.flatMap newTags else [])
  | [], c, c', k, h => by
    simp only [runObj, Prod.mk.injEq, and_true] at h
    subst h
    cases indexed <;> simp
  | t :: ts, c, c', k, h => by
    simp only [runObj, stepObj] at h
    cases hs : step ⟨c.tree, c.doctype⟩ t with
    | ok b =>
      rw [hs] at h
      simp only [Outcome.map] at h
      have := runObj_log indexed ts _ c' (k + 1) h
      rw [this]
      cases indexed <;> simp
    | multipleRoot => rw [hs] at h; simp [Outcome.map] at h
    | invalidClose => rw [hs] at h; simp [Outcome.map] at h
    | missedClose => rw [hs] at h; simp [Outcome.map] at h
    | invalidAttr => rw [hs] at h; simp [Outcome.map] at h

/-- the two passes with the tokens the tokenizer delivered for the text and for the wrapped text -/
def feedTwo (toks toks2 : List Token) : FeedResult :=
  match run BState.init toks with
  | .multipleRoot => FeedResult.ofPass true (run BState.init toks2)
  | o => FeedResult.ofPass false o

theorem feedTokens_eq_feedTwo (toks : List Token) : feedTokens toks = feedTwo toks (wrapToks toks) := rfl

/-- the public view of a call's result: the document, or the exception -/
def viewOf {τ ε : Type} (r : ParserObj τ ε × Option Raised) : Doc ⊕ Raised :=
  match r.2 with
  | none => .inl r.1.core.doc
  | some e => .inr e

def viewOfFeed : FeedResult → Doc ⊕ Raised
  | .doc d _ => .inl d
  | .raised e => .inr (.parse e)

/-- **the object's `parseStr` is the token-level two-pass `feed`** on the callbacks the tokenizer delivers from its
    fresh state for the stripped text and for the wrapped stripped text. -/
theorem parseOn_str_view {τ ε β : Type} (T : Tokenizer τ) (decode : ε → β → Option Str) (o : ParserObj τ ε) (s : Str) :
    viewOf (parseOn T decode o (.str s))
      = viewOfFeed (feedTwo (T.feed T.fresh (stripIE s)).1 (T.feed T.fresh (wrapStr (stripIE s))).1) := by
  unfold parseOn feedObj feedTwo
  simp only [ParserObj.reset]
  have h1 := run_of_runObj o.indexed (T.feed T.fresh (stripIE s)).1 Core.init 0
  have h2 := run_of_runObj o.indexed (T.feed T.fresh (wrapStr (stripIE s))).1 Core.init 0
  have hi : (⟨Core.init.tree, Core.init.doctype⟩ : BState) = BState.init := rfl
  rw [hi] at h1 h2
  rw [h1, h2]
  rcases hr1 : runObj o.indexed Core.init (T.feed T.fresh (stripIE s)).1 0 with ⟨c1, _ | ⟨k1, e1⟩⟩
  · rfl
  · cases e1 with
    | multipleRoot =>
      simp only [excOutcome]
      rcases hr2 : runObj o.indexed Core.init (T.feed T.fresh (wrapStr (stripIE s))).1 0 with ⟨c2, _ | ⟨k2, e2⟩⟩
      · rfl
      · cases e2 <;> rfl
    | invalidClose => rfl
    | missedClose => rfl
    | invalidAttr => rfl

/-- the index of an indexed object after a `parseStr` that did not raise: exactly the elements of the pass that
    built the document, in document order — nothing of any earlier parse, nothing of the abandoned first pass -/
theorem parseOn_str_log {τ ε β : Type} (T : Tokenizer τ) (decode : ε → β → Option Str) (o : ParserObj τ ε) (s : Str)
    (hok : (parseOn T decode o (.str s)).2 = none) :
    (parseOn T decode o (.str s)).1.core.log
      = (if o.indexed then
          (match run BState.init (T.feed T.fresh (stripIE s)).1 with
           | .multipleRoot => (T.feed T.fresh (wrapStr (stripIE s))).1
           | _ => (T.feed T.fresh (stripIE s)).1).flatMap newTags
         else []) := by
  have h1 := run_of_runObj o.indexed (T.feed T.fresh (stripIE s)).1 Core.init 0
  have h2 := run_of_runObj o.indexed (T.feed T.fresh (wrapStr (stripIE s))).1 Core.init 0
  have hi : (⟨Core.init.tree, Core.init.doctype⟩ : BState) = BState.init := rfl
  rw [hi] at h1 h2
  rw [h1]
  unfold parseOn feedObj at hok ⊢
  simp only [ParserObj.reset] at hok ⊢
  rcases hr1 : runObj o.indexed Core.init (T.feed T.fresh (stripIE s)).1 0 with ⟨c1, _ | ⟨k1, e1⟩⟩
  · have := runObj_log o.indexed _ _ _ _ hr1
    simp only [this, Core.init, List.nil_append]
  · rw [hr1] at hok
    cases e1 with
    | multipleRoot =>
      simp only [excOutcome] at hok ⊢
      rcases hr2 : runObj o.indexed Core.init (T.feed T.fresh (wrapStr (stripIE s))).1 0 with ⟨c2, _ | ⟨k2, e2⟩⟩
      · have := runObj_log o.indexed _ _ _ _ hr2
        simp only [this, Core.init, List.nil_append]
      · rw [hr2] at hok; simp at hok
    | invalidClose => simp at hok
    | missedClose => simp at hok
    | invalidAttr => simp at hok

/-! ### entry points: bytes -/

/-- `parseStr(bytes)` is `parseStr` of the decoded text (decoding happens after the reset, with the object's own
    encoding) -/
theorem parseOn_bytes {τ ε β : Type} (T : Tokenizer τ) (decode : ε → β → Option Str) (o : ParserObj τ ε) (b : β) (s : Str)
    (h : decode o.enc b = some s) : parseOn T decode o (.bytes b) = parseOn T decode o (.str s) := by
  simp only [parseOn, h]

/-- bytes that do not decode: the call raises — AFTER the reset: the earlier document is gone, the object is as
    new -/
theorem parseOn_bytes_undecodable {τ ε β : Type} (T : Tokenizer τ) (decode : ε → β → Option Str) (o : ParserObj τ ε) (b : β)
    (h : decode o.enc b = none) :
    parseOn T decode o (.bytes b) = (ParserObj.fresh T o.enc o.indexed, some .decode) := by
  simp only [parseOn, h]; rfl

/-! ### variants WITHOUT the reset (counter-models: the reset is what the theorems rest on) -/

/-- `parseStr` without its first line -/
def parseOnNoReset {τ ε β : Type} (T : Tokenizer τ) (decode : ε → β → Option Str) (o : ParserObj τ ε) :
    Input β → ParserObj τ ε × Option Raised
  | .str s => feedObj T o s
  | .bytes b =>
    match decode o.enc b with
    | some s => feedObj T o s
    | none => (o, some .decode)

/-- `_reset` of the plain class used by the indexed class (the library before its fix `c1d2cb2`: the index maps
    survive `reset()`) -/
def ParserObj.resetPlainOnly {τ ε : Type} (T : Tokenizer τ) (o : ParserObj τ ε) : ParserObj τ ε :=
  { o with core := { Core.init with log := o.core.log }, tk := T.fresh }

/-- `reset` that forgets to call `HTMLParser.reset` -/
def ParserObj.resetNoTokenizer {τ ε : Type} (o : ParserObj τ ε) : ParserObj τ ε :=
  { o with core := Core.init }

end AHP.PObj
