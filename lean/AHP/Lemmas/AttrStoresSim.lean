/-
  AttrStores, part 3 — the constructor loops of the four models build the same store.

  Model (1) (`AttrState`, Model/Token.lean) keeps the most: the raw text under the `style` key.  The other
  three keep a marker there (`Slot.sty`, `DVal.style`, `some []`): `toA`, `toP`, `toF` forget the raw text
  and are otherwise the identity.  Every constructor step commutes with them (`initStep_toA`, `setitem_toP`,
  `set_toF`), hence so do the loops; the listing of the image is the listing of the original
  (`attrsList_toA`, `attrsList_toP`, `items_toF`).  The only state invariant needed is that the keys of the
  dict are pairwise distinct (`Inv`), which every step keeps.
-/
import AHP.Lemmas.AttrStoresDict
namespace AHP.AttrStores
open AHP

/-! ### the keys, spelled four ways -/

abbrev kStyle : Str := Attrs.styleK
abbrev kClass : Str := Attrs.classK
def kSpell : Str := ['s', 'p', 'e', 'l', 'l', 'c', 'h', 'e', 'c', 'k']

theorem tok_style : "style".toList = kStyle := rfl
theorem tok_class : "class".toList = kClass := rfl
theorem tok_spell : "spellcheck".toList = kSpell := by decide
theorem pk_style : Pk.sStyle = kStyle := rfl
theorem pk_class : Pk.sClass = kClass := rfl
theorem str_style : str "style" = kStyle := rfl
theorem str_class : str "class" = kClass := rfl
theorem class_ne_style : kClass ≠ kStyle := by decide
theorem spell_ne_style : kSpell ≠ kStyle := by decide

/-- `constants.TAG_ITEM_BINARY_ATTRIBUTES_STRING_ATTR` as models (3) and (4) read it from the generated
    tables is the one name model (1) has inline. -/
theorem pk_boolStr : Pk.boolStrAttrs = [kSpell] := by decide
theorem fmt_boolStr : Fmt.binaryStringAttrs = [kSpell] := by decide
theorem pk_binary : Pk.binaryAttrs = binaryAttrs := rfl
theorem fmt_binary : Fmt.binaryAttrs = binaryAttrs := by decide

theorem contains_single (k a : Str) : [a].contains k = decide (k = a) := by simp

theorem getD_match (v : Option Str) : (match v with | some s => s | none => []) = v.getD [] := by
  cases v <;> rfl

/-! ### one constructor step of model (1), the invariant -/

def Inv (st : AttrState) : Prop := (keys st.d).Nodup

theorem inv_empty : Inv AttrState.empty := by simp [Inv, AttrState.empty, keys]

/-- the body of the loop of `intake` -/
def intakeStep (st : AttrState) (p : Attr) : AttrState :=
  if validAttrName (lower p.1) then st.set (lower p.1) p.2 else st

theorem intake_cons (p : Attr) (r : List Attr) (st : AttrState) : intake (p :: r) st = intake r (intakeStep st p) := by
  obtain ⟨k, v⟩ := p
  simp only [intake, intakeStep]
  split <;> rfl

theorem intake_eq_foldl : ∀ (l : List Attr) (st : AttrState), intake l st = l.foldl intakeStep st
  | [], _ => rfl
  | p :: r, st => by rw [intake_cons, List.foldl_cons, intake_eq_foldl r]

theorem set_unfold (st : AttrState) (k : Str) (v : Option Str) :
    st.set k v =
      if k = kStyle then
        { st with d := (if (styleToDict (v.getD [])).isEmpty then dictDel st.d k else dictSet st.d k v),
                  style := styleToDict (v.getD []) }
      else if k = kClass then { st with classes := classNamesOf v }
      else if k = kSpell then { st with d := dictSet st.d k (some (boolString v)) }
      else { st with d := dictSet st.d k v } := by
  unfold AttrState.set
  cases v <;> rfl

theorem set_style (st : AttrState) (v : Option Str) :
    st.set kStyle v =
      { st with d := (if (styleToDict (v.getD [])).isEmpty then dictDel st.d kStyle else dictSet st.d kStyle v),
                style := styleToDict (v.getD []) } := by
  rw [set_unfold]; simp only [if_true]

theorem set_class (st : AttrState) (v : Option Str) : st.set kClass v = { st with classes := classNamesOf v } := by
  rw [set_unfold]; simp only [class_ne_style, if_false, if_true]

theorem spell_ne_class : kSpell ≠ kClass := by decide

theorem set_spell (st : AttrState) (v : Option Str) :
    st.set kSpell v = { st with d := dictSet st.d kSpell (some (boolString v)) } := by
  rw [set_unfold]; simp only [spell_ne_style, spell_ne_class, if_false, if_true]

theorem set_plain (st : AttrState) {k : Str} (h1 : k ≠ kStyle) (h2 : k ≠ kClass) (h3 : k ≠ kSpell) (v : Option Str) :
    st.set k v = { st with d := dictSet st.d k v } := by
  rw [set_unfold]; simp only [h1, h2, h3, if_false]

theorem inv_set {st : AttrState} (h : Inv st) (k : Str) (v : Option Str) : Inv (st.set k v) := by
  by_cases h1 : k = kStyle
  · subst h1; rw [set_style]; unfold Inv; simp only
    split
    · exact nodup_dictDel _ h
    · exact nodup_dictSet _ _ h
  by_cases h2 : k = kClass
  · subst h2; rw [set_class]; exact h
  by_cases h3 : k = kSpell
  · subst h3; rw [set_spell]; exact nodup_dictSet _ _ h
  · rw [set_plain st h1 h2 h3]; exact nodup_dictSet _ _ h

theorem inv_step {st : AttrState} (h : Inv st) (p : Attr) : Inv (intakeStep st p) := by
  unfold intakeStep; split
  · exact inv_set h _ _
  · exact h

theorem inv_intake : ∀ (l : List Attr) {st : AttrState}, Inv st → Inv (intake l st)
  | [], _, h => h
  | p :: r, _, h => by rw [intake_cons]; exact inv_intake r (inv_step h p)

/-! ### forgetting the raw style text -/

/-- the dict with the value under `style` replaced by a marker and every other value embedded -/
def conv {σ : Type} (sty : σ) (emb : Option Str → σ) (d : List (Str × Option Str)) : List (Str × σ) :=
  d.map (fun p => (p.1, if p.1 = kStyle then sty else emb p.2))

theorem conv_set_style {σ : Type} (sty : σ) (emb : Option Str → σ) (d : List (Str × Option Str)) (v : Option Str) :
    conv sty emb (dictSet d kStyle v) = dictSet (conv sty emb d) kStyle sty := by
  have := map_dictSet (fun k v => if k = kStyle then sty else emb v) kStyle v d
  simpa [conv] using this

theorem conv_set_ne {σ : Type} (sty : σ) (emb : Option Str → σ) (d : List (Str × Option Str)) {k : Str}
    (hk : k ≠ kStyle) (v : Option Str) :
    conv sty emb (dictSet d k v) = dictSet (conv sty emb d) k (emb v) := by
  have := map_dictSet (fun k v => if k = kStyle then sty else emb v) k v d
  simpa [conv, hk] using this

theorem conv_del {σ : Type} (sty : σ) (emb : Option Str → σ) (d : List (Str × Option Str)) (k : Str) :
    conv sty emb (dictDel d k) = dictDel (conv sty emb d) k :=
  map_dictDel (fun k v => if k = kStyle then sty else emb v) k d

theorem keys_conv {σ : Type} (sty : σ) (emb : Option Str → σ) (d : List (Str × Option Str)) :
    keys (conv sty emb d) = keys d :=
  keys_map (fun k v => if k = kStyle then sty else emb v) d

/-- the value under `style` overwritten by `f`, everything else untouched -/
def forget (f : Option Str → Option Str) (d : List (Str × Option Str)) : List (Str × Option Str) :=
  d.map (fun p => (p.1, if p.1 = kStyle then f p.2 else p.2))

theorem forget_set_class (f : Option Str → Option Str) (d : List (Str × Option Str)) (v : Option Str) :
    dictSet (forget f d) kClass v = forget f (dictSet d kClass v) := by
  have := map_dictSet (fun k v => if k = kStyle then f v else v) kClass v d
  simp only [class_ne_style, if_false] at this
  exact this.symm

theorem forget_del (f : Option Str → Option Str) (d : List (Str × Option Str)) (k : Str) :
    dictDel (forget f d) k = forget f (dictDel d k) :=
  (map_dictDel (fun k v => if k = kStyle then f v else v) k d).symm

/-- The two synchronising writes of `_handleClassAttr` erase whatever was stored under `style`. -/
theorem view_of_forget {st : AttrState} (h : Inv st) (f : Option Str → Option Str) :
    (let d1 := if st.classes.isEmpty then dictDel (forget f st.d) kClass
               else dictSet (forget f st.d) kClass (some (joinWith [' '] st.classes))
     if st.style.isEmpty then dictDel d1 kStyle else dictSet d1 kStyle (some (styleStr st.style))) = st.view := by
  unfold AttrState.view
  simp only [tok_style, tok_class]
  by_cases hc : st.classes.isEmpty = true <;> by_cases hs : st.style.isEmpty = true <;>
    simp only [hc, hs, if_true, if_false, Bool.false_eq_true]
  · rw [forget_del]; exact dictDel_forget f kStyle _
  · rw [forget_del]; exact dictSet_forget f kStyle _ (nodup_dictDel _ h)
  · rw [forget_set_class]; exact dictDel_forget f kStyle _
  · rw [forget_set_class]; exact dictSet_forget f kStyle _ (nodup_dictSet _ _ h)

/-! ### model (2): `AHP.Attrs` -/

def toA (tag : Str) (sc : Bool) (st : AttrState) : Attrs.El :=
  { tag := tag, sc := sc, dict := conv Attrs.Slot.sty Attrs.Slot.val st.d, cls := st.classes, sty := st.style }

/-- the only row of the dot-access tables the constructor consults -/
def TablesOK (T : Attrs.Tables) : Prop := ∀ k : Str, T.binStr.contains k = decide (k = kSpell)

theorem mapSet_toA {T : Attrs.Tables} (hT : TablesOK T) (tag : Str) (sc : Bool) (st : AttrState) {k : Str}
    (hl : lower k = k) (hv : validAttrName k = true) (v : Option Str) :
    (Attrs.mapSet T k v (toA tag sc st)).2 = toA tag sc (st.set k v) := by
  unfold Attrs.mapSet
  simp only [hl, validName_attrs, hv, Bool.not_true, Bool.false_eq_true, if_false]
  by_cases h1 : k = kStyle
  · subst h1
    rw [set_style]
    simp only [if_true, Attrs.assignStyleFrom, Attrs.assignStyle, Option.getD_some, styleStr_attrs,
      styleToDict_attrs, styleToDict_idem, Attrs.ensureStyle, toA]
    split
    · simp only [adel_eq, conv_del]
    · simp only [aset_eq, conv_set_style]
  by_cases h2 : k = kClass
  · subst h2
    rw [set_class]
    simp only [class_ne_style, if_false, if_true, Attrs.setClassName, toA, words_attrs, classNamesOf_getD]
  by_cases h3 : k = kSpell
  · subst h3
    rw [set_spell]
    have : T.binStr.contains kSpell = true := by rw [hT]; simp
    simp only [h1, h2, if_false, this, if_true, toA, aset_eq, conv_set_ne _ _ _ h1, boolString_attrs]
  · rw [set_plain st h1 h2 h3]
    have : T.binStr.contains k = false := by rw [hT]; simp [h3]
    simp only [h1, h2, if_false, this, toA, aset_eq, conv_set_ne _ _ _ h1, Bool.false_eq_true]

theorem initStep_toA {T : Attrs.Tables} (hT : TablesOK T) (tag : Str) (sc : Bool) (st : AttrState) (p : Attr) :
    Attrs.initStep T (toA tag sc st) p = toA tag sc (intakeStep st p) := by
  simp only [Attrs.initStep, intakeStep, validName_attrs]
  by_cases hv : validAttrName (lower p.1) = true
  · simp only [hv, if_true]
    exact mapSet_toA hT tag sc st (Attrs.lower_idem _) hv p.2
  · simp only [hv, if_false, Bool.false_eq_true]

theorem foldl_toA {T : Attrs.Tables} (hT : TablesOK T) (tag : Str) (sc : Bool) : ∀ (l : List Attr) (st : AttrState),
    l.foldl (Attrs.initStep T) (toA tag sc st) = toA tag sc (intake l st)
  | [], _ => rfl
  | p :: r, st => by rw [List.foldl_cons, initStep_toA hT, foldl_toA hT tag sc r, intake_cons]

theorem empty_toA (tag : Str) (sc : Bool) : Attrs.El.empty tag sc = toA (lower tag) sc AttrState.empty := rfl

/-- what a reader is shown for a slot -/
def slotStr (sty : List (Str × Str)) : Attrs.Slot → Option Str
  | .val v => v
  | .cls s => some s
  | .sty => some (styleStr sty)

theorem slotStr_cls (sty : List (Str × Str)) (s : Str) : slotStr sty (.cls s) = some s := rfl
theorem slotStr_sty (sty : List (Str × Str)) : slotStr sty .sty = some (styleStr sty) := rfl

theorem slotVal_tostr (e : Attrs.El) (s : Attrs.Slot) : (Attrs.slotVal e s).tostrOpt = slotStr e.sty s := by
  cases s with
  | val v => cases v <;> rfl
  | cls s => rfl
  | sty => rfl

theorem attrsList_eq_map (e : Attrs.El) :
    (Attrs.attrsList e).1 = (Attrs.handleClassAttr e).dict.map (fun p => (p.1, slotStr e.sty p.2)) := by
  simp only [Attrs.attrsList, Attrs.items, List.map_map]
  apply List.map_congr_left
  intro p _
  simp only [Function.comp, slotVal_tostr]
  rfl

theorem map_slotStr_conv (sty : List (Str × Str)) (d : List (Str × Option Str)) :
    (conv Attrs.Slot.sty Attrs.Slot.val d).map (fun p => (p.1, slotStr sty p.2))
      = forget (fun _ => some (styleStr sty)) d := by
  simp only [conv, forget, List.map_map]
  apply List.map_congr_left
  intro p _
  by_cases h : p.1 = kStyle <;> simp [h, slotStr]

theorem attrsList_toA (tag : Str) (sc : Bool) {st : AttrState} (h : Inv st) :
    (Attrs.attrsList (toA tag sc st)).1 = st.view := by
  rw [attrsList_eq_map, ← view_of_forget h (fun _ => some (styleStr st.style))]
  simp only [Attrs.handleClassAttr, toA, Attrs.El.className, adel_eq, aset_eq]
  have m1 := fun (k : Str) (v : Attrs.Slot) (d : List (Str × Attrs.Slot)) =>
    map_dictSet (fun _ s => slotStr st.style s) k v d
  have m2 := fun (k : Str) (d : List (Str × Attrs.Slot)) =>
    map_dictDel (fun _ s => slotStr st.style s) k d
  by_cases hc : st.classes.isEmpty = true <;> by_cases hs : st.style.isEmpty = true <;>
    simp only [hc, hs, if_true, if_false, Bool.false_eq_true, m1, m2, map_slotStr_conv, slotStr_cls, slotStr_sty]

/-! ### model (3): `AHP.Pk` -/

def toP (st : AttrState) : Pk.Attrs :=
  { dict := conv Pk.DVal.style Pk.DVal.ofOpt st.d, cls := st.classes, sty := st.style }

theorem ensure_eq {m : List (Str × Str)} {d : List (Str × Pk.DVal)} (hd : (keys d).Nodup) :
    Pk.Attrs.ensureStyle m d = if m.isEmpty then dictDel d kStyle else dictSet d kStyle Pk.DVal.style := by
  unfold Pk.Attrs.ensureStyle
  rw [pk_style, ddel_eq _ hd, dset_eq]

theorem dictSet_idem {β : Type} (k : Str) (v : β) : ∀ d : List (Str × β), dictSet (dictSet d k v) k v = dictSet d k v
  | [] => by simp [dictSet]
  | (k', v') :: r => by
    by_cases h : k' = k
    · simp [dictSet, h]
    · simp [dictSet, h, dictSet_idem k v r]

theorem dictDel_idem {β : Type} (k : Str) (d : List (Str × β)) : dictDel (dictDel d k) k = dictDel d k := by
  unfold dictDel; rw [List.filter_filter]; simp

theorem ensure_thrice {m : List (Str × Str)} {d : List (Str × Pk.DVal)} (hd : (keys d).Nodup) :
    Pk.Attrs.ensureStyle m (Pk.Attrs.ensureStyle m (Pk.Attrs.ensureStyle m d))
      = if m.isEmpty then dictDel d kStyle else dictSet d kStyle Pk.DVal.style := by
  have h1 : (keys (Pk.Attrs.ensureStyle m d)).Nodup := by
    rw [ensure_eq hd]; split
    · exact nodup_dictDel _ hd
    · exact nodup_dictSet _ _ hd
  have h2 : (keys (Pk.Attrs.ensureStyle m (Pk.Attrs.ensureStyle m d))).Nodup := by
    rw [ensure_eq h1]; split
    · exact nodup_dictDel _ h1
    · exact nodup_dictSet _ _ h1
  rw [ensure_eq h2, ensure_eq h1, ensure_eq hd]
  split
  · rw [dictDel_idem, dictDel_idem]
  · rw [dictSet_idem, dictSet_idem]

theorem setitem_unfold (a : Pk.Attrs) (k : Str) (v : Option Str) :
    Pk.Attrs.setitem a k v =
      if lower k = kStyle then
        some { a with
          sty := Pk.styleToDict (Pk.styleStr (Pk.styleToDict (v.getD []))),
          dict := Pk.Attrs.ensureStyle (Pk.styleToDict (Pk.styleStr (Pk.styleToDict (v.getD []))))
                    (Pk.Attrs.ensureStyle (Pk.styleToDict (Pk.styleStr (Pk.styleToDict (v.getD []))))
                      (Pk.Attrs.ensureStyle (Pk.styleToDict (v.getD [])) a.dict)) }
      else if lower k = kClass then some { a with cls := Pk.classTokens (v.getD []) }
      else if Pk.boolStrAttrs.contains (lower k) then
        some { a with dict := Pk.dset (lower k) (.str (Pk.convBoolStr v)) a.dict }
      else some { a with dict := Pk.dset (lower k) (Pk.DVal.ofOpt v) a.dict } := by
  unfold Pk.Attrs.setitem
  cases v <;> rfl

theorem setitem_toP {st : AttrState} (h : Inv st) {k : Str} (hl : lower k = k) (v : Option Str) :
    Pk.Attrs.setitem (toP st) k v = some (toP (st.set k v)) := by
  have hd : (keys (toP st).dict).Nodup := by simp only [toP, keys_conv]; exact h
  rw [setitem_unfold]
  simp only [hl]
  by_cases h1 : k = kStyle
  · subst h1
    rw [set_style]
    simp only [if_true, styleToDict_pk, styleStr_pk, styleToDict_idem, ensure_thrice hd]
    simp only [toP]
    split
    · simp only [conv_del]
    · simp only [conv_set_style]
  by_cases h2 : k = kClass
  · subst h2
    rw [set_class]
    simp only [class_ne_style, if_false, if_true, toP, classTokens_pk, classNamesOf_getD]
  by_cases h3 : k = kSpell
  · subst h3
    rw [set_spell]
    simp only [h1, h2, if_false, pk_boolStr, contains_single, decide_true, if_true, toP, dset_eq,
      conv_set_ne _ _ _ h1, boolString_pk, Pk.DVal.ofOpt]
  · rw [set_plain st h1 h2 h3]
    simp only [h1, h2, h3, if_false, pk_boolStr, contains_single, decide_false, toP, dset_eq,
      conv_set_ne _ _ _ h1, Bool.false_eq_true]

theorem initGo_toP : ∀ (l : List Attr) {st : AttrState}, Inv st →
    Pk.Attrs.initGo (toP st) l = some (toP (intake l st))
  | [], _, _ => rfl
  | (k, v) :: r, st, h => by
    rw [intake_cons]
    unfold Pk.Attrs.initGo intakeStep
    rw [validName_pk]
    by_cases hv : validAttrName (lower k) = true
    · simp only [hv, if_true, setitem_toP h (Attrs.lower_idem k) v]
      exact initGo_toP r (inv_set h _ _)
    · simp only [hv, if_false, Bool.false_eq_true]
      exact initGo_toP r h

theorem empty_toP : Pk.Attrs.empty = toP AttrState.empty := rfl

/-- `tostr(value)` of a raw entry -/
def dvalStr (sty : List (Str × Str)) : Pk.DVal → Option Str
  | .none => none
  | .str s => some s
  | .style => some (styleStr sty)

theorem dvalStr_str (sty : List (Str × Str)) (s : Str) : dvalStr sty (.str s) = some s := rfl
theorem dvalStr_style (sty : List (Str × Str)) : dvalStr sty .style = some (styleStr sty) := rfl

theorem render_eq (a : Pk.Attrs) (v : Pk.DVal) : Pk.Attrs.render a v = dvalStr a.sty v := by
  cases v <;> rfl

theorem map_dvalStr_conv (sty : List (Str × Str)) (d : List (Str × Option Str)) :
    (conv Pk.DVal.style Pk.DVal.ofOpt d).map (fun p => (p.1, dvalStr sty p.2))
      = forget (fun _ => some (styleStr sty)) d := by
  simp only [conv, forget, List.map_map]
  apply List.map_congr_left
  intro p _
  obtain ⟨k, v⟩ := p
  by_cases h : k = kStyle
  · simp [h, dvalStr]
  · cases v <;> simp [h, dvalStr, Pk.DVal.ofOpt]

theorem handle_toP {st : AttrState} (h : Inv st) :
    (Pk.Attrs.handle (toP st)).dict =
      (let d1 := if st.classes.isEmpty then dictDel (toP st).dict kClass
                 else dictSet (toP st).dict kClass (Pk.DVal.str (joinWith [' '] st.classes))
       if st.style.isEmpty then dictDel d1 kStyle else dictSet d1 kStyle Pk.DVal.style) := by
  have hd : (keys (toP st).dict).Nodup := by simp only [toP, keys_conv]; exact h
  unfold Pk.Attrs.handle
  simp only [pk_class, Pk.className, dset_eq, ddel_eq _ hd]
  have hd1 : (keys (if (toP st).cls.isEmpty then dictDel (toP st).dict kClass
      else dictSet (toP st).dict kClass (Pk.DVal.str (joinWith [' '] (toP st).cls)))).Nodup := by
    split
    · exact nodup_dictDel _ hd
    · exact nodup_dictSet _ _ hd
  rw [ensure_eq hd1]
  rfl

theorem attrsList_toP {st : AttrState} (h : Inv st) : Pk.Attrs.attrsList (toP st) = st.view := by
  unfold Pk.Attrs.attrsList
  rw [handle_toP h, ← view_of_forget h (fun _ => some (styleStr st.style))]
  have e : (fun p : Str × Pk.DVal => (p.1, Pk.Attrs.render (toP st) p.2))
      = (fun p => (p.1, dvalStr st.style p.2)) := by
    funext p; rw [render_eq]; rfl
  rw [e]
  have m1 := fun (k : Str) (v : Pk.DVal) (d : List (Str × Pk.DVal)) =>
    map_dictSet (fun _ s => dvalStr st.style s) k v d
  have m2 := fun (k : Str) (d : List (Str × Pk.DVal)) =>
    map_dictDel (fun _ s => dvalStr st.style s) k d
  simp only [toP]
  by_cases hc : st.classes.isEmpty = true <;> by_cases hs : st.style.isEmpty = true <;>
    simp only [hc, hs, if_true, if_false, Bool.false_eq_true, m1, m2, map_dvalStr_conv, dvalStr_str, dvalStr_style]

/-! ### model (4): `AHP.Fmt` -/

def toF (st : AttrState) : Fmt.AStore :=
  { dict := conv (some []) id st.d, classes := st.classes, style := st.style }

theorem conv_fmt (d : List (Str × Option Str)) : conv (some []) id d = forget (fun _ => some []) d := rfl

theorem set_toF {st : AttrState} (h : Inv st) (p : Attr) :
    (toF st).set p.1 p.2 = toF (intakeStep st p) := by
  have hd : (keys (toF st).dict).Nodup := by simp only [toF, keys_conv]; exact h
  obtain ⟨k0, v⟩ := p
  unfold Fmt.AStore.set intakeStep
  simp only [validName_fmt, str_style, str_class]
  cases hv : validAttrName (lower k0) with
  | false => simp only [Bool.not_false, if_true, Bool.false_eq_true, if_false]
  | true =>
  simp only [Bool.not_true, Bool.false_eq_true, if_false, if_true]
  generalize hk : lower k0 = k
  by_cases h1 : k = kStyle
  · subst h1
    rw [set_style]
    simp only [if_true, styleToDict_fmt_twice, fdel_eq, fset_eq _ _ hd]
    simp only [toF]
    split
    · simp only [conv_del]
    · simp only [conv_set_style]
  by_cases h2 : k = kClass
  · subst h2
    rw [set_class]
    simp only [class_ne_style, if_false, if_true, toF, classNames_fmt, classNamesOf_getD]
  by_cases h3 : k = kSpell
  · subst h3
    rw [set_spell]
    simp only [h1, h2, if_false, fmt_boolStr, contains_single, decide_true, if_true, fset_eq _ _ hd, boolString_fmt]
    simp only [toF, conv_set_ne _ _ _ h1, id]
  · rw [set_plain st h1 h2 h3]
    simp only [h1, h2, h3, if_false, fmt_boolStr, contains_single, decide_false, Bool.false_eq_true, fset_eq _ _ hd]
    simp only [toF, conv_set_ne _ _ _ h1, id]

theorem mkStore_toF : ∀ (l : List Attr) {st : AttrState}, Inv st →
    Fmt.mkStore l (toF st) = toF (intake l st)
  | [], _, _ => rfl
  | (k, v) :: r, st, h => by
    rw [intake_cons]
    unfold Fmt.mkStore
    rw [set_toF h (k, v)]
    exact mkStore_toF r (inv_step h _)

theorem empty_toF : ({} : Fmt.AStore) = toF AttrState.empty := rfl

theorem items_toF {st : AttrState} (h : Inv st) : (toF st).items = st.view := by
  have hd : (keys (toF st).dict).Nodup := by simp only [toF, keys_conv]; exact h
  rw [← view_of_forget h (fun _ => some [])]
  unfold Fmt.AStore.items
  simp only [str_class, str_style, fdel_eq, fset_eq _ _ hd]
  have hd1 : (keys (if (toF st).classes.isEmpty then dictDel (toF st).dict kClass
      else dictSet (toF st).dict kClass (some (joinWith [' '] (toF st).classes)))).Nodup := by
    split
    · exact nodup_dictDel _ hd
    · exact nodup_dictSet _ _ hd
  rw [fset_eq _ _ hd1, styleStr_fmt]
  rfl

end AHP.AttrStores
