/-
  C03 — `IndexedAdvancedHTMLParser`'s handlers over the token sequence: the inherited handler of the plain parser
  (`AHP.handleStart`/`AHP.stepT`, Model/Builder.lean), then `self._indexTag(newTag)` with its KeyError kept
  (`Idx.indexTagE`, Model/Index.lean).  A MODEL of code, kept here rather than in Model/Index.lean because that
  file cannot import Model/Builder.lean without re-resolving `Node` (`AHP.Node` vs `AHP.G3.Node`) in the C06/C07
  files.  No driver uses it: what ties it to the library is (i) its tree component IS the plain parser's
  (`idxRun_total`, stream C03 diffs the documents of the indexed class too) and (ii) its index component is
  `indexTag` folded over the created elements — the shape of `Idx.parse`, tied by stream C07.
-/
import AHP.Model.Index
import AHP.Model.Builder
namespace AHP.G3
open AHP

/-- how a handler of the indexed parser can end: an exception of the inherited handler, or a KeyError out of
    `_indexTag` -/
inductive PErr where
  | raised (e : Exc)
  | keyError
  deriving Repr, DecidableEq, Inhabited

/-- The indexed parser while it parses: the inherited tree state, the index, and (ghost) the elements
    `_indexTag` was called on so far, in creation order. -/
structure IState where
  tree : TState
  idx : Idx
  made : List Elem
  deriving Inhabited

/-- `IndexedAdvancedHTMLParser.handle_starttag`: `newTag = AdvancedHTMLParser.handle_starttag(…)`, then
    `self._indexTag(newTag)`.  `view k name attrs` is what the index functions read of the `k`-th element
    created (`getAttribute`, `classNames`, `tagName` right after construction) — a parameter: the statements
    hold for every such reading. -/
def idxStart (view : Nat → Str → List Attr → Elem) (st : IState) (n : Str) (a : List Attr) (sc : Bool) :
    Except PErr IState :=
  match handleStart st.tree n a sc with
  | .ok s' =>
    let e := view st.made.length (lower n) a
    match st.idx.indexTagE e with
    | some i' => .ok ⟨s', i', st.made ++ [e]⟩
    | none => .error .keyError
  | o => .error (.raised o.exc)

/-- one tokenizer callback of the indexed parser (only `handle_starttag` is overridden) -/
def idxStep (view : Nat → Str → List Attr → Elem) (st : IState) : Token → Except PErr IState
  | .start n a => idxStart view st n a false
  | .startend n a => idxStart view st n a true
  | t =>
    match stepT st.tree t with
    | .ok s' => .ok { st with tree := s' }
    | o => .error (.raised o.exc)

def idxRun (view : Nat → Str → List Attr → Elem) (st : IState) : List Token → Except PErr IState
  | [] => .ok st
  | t :: ts =>
    match idxStep view st t with
    | .ok st' => idxRun view st' ts
    | .error e => .error e

/-- `IndexedAdvancedHTMLParser._reset`: the inherited `_reset`, then `_resetIndexInternal` -/
def IState.reset (st : IState) : IState := ⟨TState.init, st.idx.resetInternal, []⟩

/-- the state a pass leaves behind (as `AHP.runS`): the state before the offending token -/
def idxRunS (view : Nat → Str → List Attr → Elem) (st : IState) : List Token → IState × Option PErr
  | [] => (st, none)
  | t :: ts =>
    match idxStep view st t with
    | .ok st' => idxRunS view st' ts
    | .error e => (st, some e)

/-- `feed` of the indexed parser on the object as it is: the pass; on MultipleRootNodeException `self.reset()`
    (which also empties the index) and the wrapped text -/
def idxFeedS (view : Nat → Str → List Attr → Elem) (st : IState) (toks : List Token) : IState × Option PErr :=
  match idxRunS view st toks with
  | (st1, some (.raised .multipleRoot)) => idxRunS view st1.reset (wrapToks toks)
  | r => r

/-- `parseStr`: `self.reset()`, then `feed` -/
def idxParseStrS (view : Nat → Str → List Attr → Elem) (st : IState) (toks : List Token) : IState × Option PErr :=
  idxFeedS view st.reset toks


end AHP.G3
