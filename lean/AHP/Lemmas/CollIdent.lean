/-
  AHP.Lemmas.CollIdent — element identity and `isTagEqual` against independent specifications; collection-level
  `contains` / `containsUid` (review B, H3).
-/
import AHP.Lemmas.Coll
namespace AHP
open Ident

/-! ### Python list primitives on elements are the `Nat` primitives on the uids -/

theorem pyIn_by_uid (l : List Elem) (x : Elem) : pyIn l x = (l.map (·.uid)).contains x.uid := by
  induction l with
  | nil => rfl
  | cons y ys ih =>
    simp only [pyIn, List.any_cons, List.map_cons, List.contains_cons] at ih ⊢
    rw [ih]
    simp only [Elem.eq]
    cases h1 : (y.uid == x.uid) <;> cases h2 : (x.uid == y.uid) <;> simp_all

/-- first position of `x` in a list of uids -/
def natIndex : List Nat → Nat → Option Nat
  | [], _ => none
  | y :: ys, x => if y = x then some 0 else (natIndex ys x).map (· + 1)

theorem pyIndex_by_uid (l : List Elem) (x : Elem) : pyIndex l x = natIndex (l.map (·.uid)) x.uid := by
  induction l with
  | nil => rfl
  | cons y ys ih =>
    simp only [pyIndex, natIndex, List.map_cons, Elem.eq, ih]
    by_cases h : y.uid = x.uid <;> simp [h]

theorem pyRemove_by_uid (l : List Elem) (x : Elem) :
    (pyRemove l x).map (List.map (·.uid)) =
      if (l.map (·.uid)).contains x.uid then some ((l.map (·.uid)).erase x.uid) else none := by
  induction l with
  | nil => rfl
  | cons y ys ih =>
    simp only [pyRemove, Elem.eq, List.map_cons]
    by_cases h : y.uid = x.uid
    · simp [h]
    · have hb : (y.uid == x.uid) = false := by simp [h]
      have hb' : (x.uid == y.uid) = false := by rw [beq_eq_false_iff_ne]; exact fun e => h e.symm
      simp only [hb, Bool.false_eq_true, if_false, Option.map_map, List.contains_cons, hb', Bool.false_or,
        List.erase_cons, beq_iff_eq, h]
      have : (List.map (fun x => x.uid) ∘ fun x => y :: x) = (fun l => y.uid :: l) ∘ List.map (fun x => x.uid) := by
        funext l; simp
      rw [this, ← Option.map_map, ih]
      by_cases hc : (ys.map (·.uid)).contains x.uid = true
      · simp [hc]
      · simp [hc]

/-! ### `isTagEqual`: same name and the same attribute mapping -/

/-- the specification: equal tag names and the same set of (attribute name, value) pairs — nothing else -/
def SameTag (n1 : Str) (a1 : List (Str × Option Str)) (n2 : Str) (a2 : List (Str × Option Str)) : Prop :=
  n1 = n2 ∧ ∀ k v, (k, v) ∈ a1 ↔ (k, v) ∈ a2

/-- an attribute dictionary: pairwise distinct keys (`_attributes` is a `dict`) -/
def IsDict (a : List (Str × Option Str)) : Prop := (a.map (·.1)).Nodup

theorem pyGet_of_mem : ∀ {a : List (Str × Option Str)} {k : Str} {v : Option Str}, IsDict a → (k, v) ∈ a → pyGet a k = v
  | [], _, _, _, h => by cases h
  | (k', v') :: r, k, v, hd, h => by
    simp only [IsDict, List.map_cons, List.nodup_cons] at hd
    simp only [List.mem_cons, Prod.mk.injEq] at h
    rcases h with ⟨rfl, rfl⟩ | h
    · simp [pyGet]
    · have hne : k' ≠ k := by
        intro e
        subst e
        exact hd.1 (List.mem_map.2 ⟨(k', v), h, rfl⟩)
      simp only [pyGet, if_neg hne]
      exact pyGet_of_mem hd.2 h

theorem mem_keys_iff (a : List (Str × Option Str)) (k : Str) : k ∈ a.map (·.1) ↔ ∃ v, (k, v) ∈ a := by
  constructor
  · intro h
    obtain ⟨⟨k', v⟩, hm, rfl⟩ := List.mem_map.1 h
    exact ⟨v, hm⟩
  · rintro ⟨v, hm⟩
    exact List.mem_map.2 ⟨(k, v), hm, rfl⟩

theorem isTagEqual_iff (n1 n2 : Str) (a1 a2 : List (Str × Option Str)) (h1 : IsDict a1) (h2 : IsDict a2) :
    isTagEqual n1 a1 n2 a2 = true ↔ SameTag n1 a1 n2 a2 := by
  simp only [isTagEqual, Bool.and_eq_true, beq_iff_eq, List.all_eq_true, List.contains_iff_mem, SameTag]
  constructor
  · rintro ⟨⟨hn, hk12, hk21⟩, hv⟩
    refine ⟨hn, ?_⟩
    have fwd : ∀ k v, (k, v) ∈ a1 → (k, v) ∈ a2 := by
      intro k v hm
      obtain ⟨v', hm'⟩ := (mem_keys_iff a2 k).1 (hk12 (k, v) hm)
      have e := hv (k, v) hm
      simp only at e
      rw [pyGet_of_mem h1 hm, pyGet_of_mem h2 hm'] at e
      rw [e]; exact hm'
    intro k v
    refine ⟨fwd k v, ?_⟩
    intro hm
    obtain ⟨v', hm'⟩ := (mem_keys_iff a1 k).1 (hk21 (k, v) hm)
    have := fwd k v' hm'
    have e1 := pyGet_of_mem h2 hm
    have e2 := pyGet_of_mem h2 this
    rw [e1] at e2
    rw [e2]; exact hm'
  · rintro ⟨hn, hp⟩
    refine ⟨⟨hn, ?_, ?_⟩, ?_⟩
    · rintro ⟨k, v⟩ hm
      exact (mem_keys_iff a2 k).2 ⟨v, (hp k v).1 hm⟩
    · rintro ⟨k, v⟩ hm
      exact (mem_keys_iff a1 k).2 ⟨v, (hp k v).2 hm⟩
    · rintro ⟨k, v⟩ hm
      simp only
      rw [pyGet_of_mem h1 hm, pyGet_of_mem h2 ((hp k v).1 hm)]

/-! ### "itself or below it", as a relation on trees -/

/-- `t.Has y`: the element with uid `y` is `t` itself or lies below it, at any depth -/
inductive UTree.Has : UTree → Nat → Prop
  | here (u : Nat) (ks : List UTree) : UTree.Has (.node u ks) u
  | under (u : Nat) (ks : List UTree) (k : UTree) (y : Nat) : k ∈ ks → UTree.Has k y → UTree.Has (.node u ks) y

mutual
theorem UTree.has_of_contains : ∀ (t : UTree) (y : Nat), t.containsUid y = true → t.Has y
  | .node u ks, y, h => by
    simp only [UTree.containsUid, Bool.or_eq_true, beq_iff_eq] at h
    rcases h with rfl | h
    · exact .here _ _
    · obtain ⟨k, hk, hh⟩ := UTree.hasL_of_contains ks y h
      exact .under _ _ k y hk hh
theorem UTree.hasL_of_contains : ∀ (ts : List UTree) (y : Nat), UTree.containsUidL ts y = true → ∃ k ∈ ts, k.Has y
  | [], _, h => by simp [UTree.containsUidL] at h
  | t :: ts, y, h => by
    simp only [UTree.containsUidL, Bool.or_eq_true] at h
    rcases h with h | h
    · exact ⟨t, by simp, UTree.has_of_contains t y h⟩
    · obtain ⟨k, hk, hh⟩ := UTree.hasL_of_contains ts y h
      exact ⟨k, by simp [hk], hh⟩
end

theorem UTree.containsL_of_mem : ∀ (ts : List UTree) (k : UTree) (y : Nat), k ∈ ts → k.containsUid y = true →
    UTree.containsUidL ts y = true
  | [], _, _, h, _ => by cases h
  | t :: ts, k, y, h, hc => by
    simp only [List.mem_cons] at h
    simp only [UTree.containsUidL, Bool.or_eq_true]
    rcases h with rfl | h
    · exact Or.inl hc
    · exact Or.inr (UTree.containsL_of_mem ts k y h hc)

theorem UTree.contains_of_has {t : UTree} {y : Nat} (h : t.Has y) : t.containsUid y = true := by
  induction h with
  | here u ks => simp [UTree.containsUid]
  | under u ks k y hk _ ih =>
    simp only [UTree.containsUid, Bool.or_eq_true]
    exact Or.inr (UTree.containsL_of_mem ks k y hk ih)

theorem UTree.containsUid_iff_has (t : UTree) (y : Nat) : t.containsUid y = true ↔ t.Has y :=
  ⟨UTree.has_of_contains t y, UTree.contains_of_has⟩

/-- member `x` of a collection over the forest `f` has `y` at or below it: `x` names a tree of the forest (the first
    with that uid) — or, for a uid that is not in the forest, only itself -/
def Forest.Below (f : Forest) (x y : Nat) : Prop :=
  match f.find? x with
  | some t => t.Has y
  | none => y = x

theorem Forest.containsUid_iff_below (f : Forest) (x y : Nat) : f.containsUid x y = true ↔ f.Below x y := by
  unfold Forest.containsUid Forest.Below
  cases f.find? x with
  | some t => exact UTree.containsUid_iff_has t y
  | none => simp only [beq_iff_eq]; exact eq_comm

theorem Forest.mem_selfAndDesc_iff_below (f : Forest) (x y : Nat) : y ∈ f.selfAndDesc x ↔ f.Below x y := by
  rw [← Forest.containsUid_iff_below]
  unfold Forest.containsUid Forest.selfAndDesc
  cases f.find? x with
  | some t => exact (UTree.containsUid_iff t y).symm
  | none => simp only [List.mem_singleton, beq_iff_eq]; exact eq_comm

theorem Coll.containsUid_iff (f : Forest) (c : Coll) (y : Nat) :
    c.containsUid f y = true ↔ ∃ x ∈ c.items, f.Below x y := by
  simp only [Coll.containsUid, List.any_eq_true, Forest.containsUid_iff_below]

end AHP
