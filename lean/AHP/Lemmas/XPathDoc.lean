/-
  Helper lemmas for C14c: in a document table listed in pre-order the recursive descendant walk
  (`Doc.desc`, the model of `getAllChildNodes` / `TagCollection._subset`) is the list of elements that
  have the start element among their ancestors, in document order (`specDesc`).
-/
import AHP.Model.XPathSpec
namespace AHP.XPath

/-- The table is a pre-order listing of a forest: a parent precedes its children, and the element after
    `j` is a child of `j`, or of an ancestor of `j`, or a new root. -/
structure PreOrder (d : Doc) : Prop where
  parentLt : ∀ j p, d.parent j = some p → p < j
  next : ∀ j p, d.parent (j + 1) = some p → p = j ∨ p ∈ d.anc j

theorem parent_lt_length (d : Doc) (j p : Nat) (h : d.parent j = some p) : j < d.length := by
  rcases Nat.lt_or_ge j d.length with h1 | h1
  · exact h1
  · simp only [Doc.parent, List.getD] at h
    rw [List.getElem?_eq_none_iff.mpr h1] at h
    have hd : (default : Elem).parent = none := rfl
    simp only [Option.getD_none] at h
    rw [hd] at h
    cases h

/-- the decidable check the driver runs on every document implies the hypothesis of C14c/d -/
theorem preOrder_of_check (d : Doc) (h : d.isPreOrder = true) : PreOrder d := by
  simp only [Doc.isPreOrder, List.all_eq_true, List.mem_range, Bool.and_eq_true] at h
  refine ⟨?_, ?_⟩
  · intro j p hp
    have hj := parent_lt_length d j p hp
    have := (h j hj).1
    rw [hp] at this
    simpa using this
  · intro j p hp
    have hj1 := parent_lt_length d (j + 1) p hp
    have := (h j (by omega)).2
    rw [hp] at this
    simp only [Bool.or_eq_true, beq_iff_eq, List.contains_iff_mem] at this
    exact this

/-! ### ancestors: enough fuel is enough -/

theorem ancFuel_stable (d : Doc) (hp : ∀ j p, d.parent j = some p → p < j) :
    ∀ (f f' j : Nat), j < f → j < f' → d.ancFuel f j = d.ancFuel f' j := by
  intro f
  induction f with
  | zero => intro f' j h; omega
  | succ f ih =>
    intro f' j h h'
    cases f' with
    | zero => omega
    | succ f' =>
      simp only [Doc.ancFuel]
      cases hpar : d.parent j with
      | none => rfl
      | some p =>
        have := hp j p hpar
        simp only
        rw [ih f' p (by omega) (by omega)]

theorem anc_unfold (d : Doc) (hp : PreOrder d) (j : Nat) :
    d.anc j = match d.parent j with
      | none => []
      | some p => p :: d.anc p := by
  unfold Doc.anc
  cases hpar : d.parent j with
  | none =>
    cases hl : d.length with
    | zero => rfl
    | succ n => simp [Doc.ancFuel, hpar]
  | some p =>
    have hj := parent_lt_length d j p hpar
    have hpj := hp.parentLt j p hpar
    cases hl : d.length with
    | zero => omega
    | succ n =>
      simp only [Doc.ancFuel, hpar]
      congr 1
      exact ancFuel_stable d hp.parentLt n (n + 1) p (by omega) (by omega)

theorem anc_lt (d : Doc) (hp : PreOrder d) : ∀ (j i : Nat), i ∈ d.anc j → i < j := by
  intro j
  induction j using Nat.strongRecOn with
  | _ j ih =>
    intro i hi
    rw [anc_unfold d hp] at hi
    cases hpar : d.parent j with
    | none => rw [hpar] at hi; cases hi
    | some p =>
      rw [hpar] at hi
      have hpj := hp.parentLt j p hpar
      rcases List.mem_cons.mp hi with rfl | h
      · exact hpj
      · have := ih p hpj i h
        omega

theorem anc_trans (d : Doc) (hp : PreOrder d) : ∀ (k j i : Nat), j ∈ d.anc k → i ∈ d.anc j → i ∈ d.anc k := by
  intro k
  induction k using Nat.strongRecOn with
  | _ k ih =>
    intro j i hj hi
    rw [anc_unfold d hp] at hj ⊢
    cases hpar : d.parent k with
    | none => rw [hpar] at hj; cases hj
    | some p =>
      rw [hpar] at hj
      simp only
      have hpk := hp.parentLt k p hpar
      rcases List.mem_cons.mp hj with rfl | h
      · exact List.mem_cons_of_mem _ hi
      · exact List.mem_cons_of_mem _ (ih p hpk j i h hi)

theorem mem_anc_of_parent (d : Doc) (hp : PreOrder d) {j p : Nat} (h : d.parent j = some p) : p ∈ d.anc j := by
  rw [anc_unfold d hp, h]; exact List.mem_cons_self

/-- the parent of `x` is `c` or below `c`, whenever `c` is a proper ancestor of `x` -/
theorem parent_of_mem_anc (d : Doc) (hp : PreOrder d) {x c : Nat} (h : c ∈ d.anc x) :
    ∃ q, d.parent x = some q ∧ (q = c ∨ c ∈ d.anc q) := by
  rw [anc_unfold d hp] at h
  cases hpar : d.parent x with
  | none => rw [hpar] at h; cases h
  | some q =>
    rw [hpar] at h
    rcases List.mem_cons.mp h with rfl | h
    · exact ⟨_, rfl, Or.inl rfl⟩
    · exact ⟨q, rfl, Or.inr h⟩

/-! ### children -/

theorem mem_children (d : Doc) (i c : Nat) : c ∈ d.children i ↔ d.parent c = some i := by
  simp only [Doc.children, List.mem_filter, List.mem_range, beq_iff_eq]
  constructor
  · exact fun h => h.2
  · exact fun h => ⟨parent_lt_length d c i h, h⟩

theorem children_sorted (d : Doc) (i : Nat) : (d.children i).Pairwise (· < ·) := by
  unfold Doc.children
  exact (List.pairwise_lt_range).filter _

/-! ### the subtree of a child ends before the next sibling -/

theorem subtree_before_next_sibling (d : Doc) (hp : PreOrder d) {i c1 c2 : Nat}
    (h1 : d.parent c1 = some i) (h2 : d.parent c2 = some i) (hlt : c1 < c2) :
    ∀ x, c1 ∈ d.anc x → x < c2 := by
  -- c1 is not an ancestor of c2
  have hnot : c1 ∉ d.anc c2 := by
    intro h
    rw [anc_unfold d hp, h2] at h
    have hi := hp.parentLt c1 i h1
    rcases List.mem_cons.mp h with e | h
    · omega
    · have := anc_lt d hp i c1 h; omega
  intro x
  induction x using Nat.strongRecOn with
  | _ x ih =>
    intro hx
    rcases Nat.lt_or_ge x c2 with hlt2 | hge
    · exact hlt2
    · exfalso
      have hxc : x ≠ c2 := fun e => hnot (e ▸ hx)
      have hgt : c2 < x := by omega
      obtain ⟨q, hq, hqc⟩ := parent_of_mem_anc d hp hx
      have hqx := hp.parentLt x q hq
      -- x = (x-1)+1
      obtain ⟨y, rfl⟩ : ∃ y, x = y + 1 := ⟨x - 1, by omega⟩
      have hy : c2 ≤ y := by omega
      -- c1 is an ancestor of y as well
      have hc1y : c1 ∈ d.anc y := by
        rcases hp.next y q hq with rfl | hqy
        · rcases hqc with rfl | h
          · omega
          · exact h
        · rcases hqc with rfl | h
          · exact hqy
          · exact anc_trans d hp y q c1 hqy h
      have := ih y (by omega) hc1y
      omega

/-! ### the descendant walk -/

theorem descFuel_mem_anc (d : Doc) (hp : PreOrder d) : ∀ (f i x : Nat), x ∈ d.descFuel f i → i ∈ d.anc x := by
  intro f
  induction f with
  | zero => intro i x h; cases h
  | succ f ih =>
    intro i x h
    simp only [Doc.descFuel, List.mem_flatMap] at h
    obtain ⟨c, hc, hx⟩ := h
    have hpc := (mem_children d i c).mp hc
    rcases List.mem_cons.mp hx with rfl | hx
    · exact mem_anc_of_parent d hp hpc
    · exact anc_trans d hp x c i (ih c x hx) (mem_anc_of_parent d hp hpc)

/-- with fuel beyond the distance, every descendant is reached -/
theorem mem_descFuel (d : Doc) (hp : PreOrder d) : ∀ (f x i : Nat), i ∈ d.anc x → x < i + f + 1 → x ∈ d.descFuel f i ∨ f = 0 := by
  intro f
  induction f with
  | zero => intro _ _ _ _; exact Or.inr rfl
  | succ f ih =>
    intro x
    induction x using Nat.strongRecOn with
    | _ x ihx =>
      intro i hi hlt
      left
      obtain ⟨q, hq, hqi⟩ := parent_of_mem_anc d hp hi
      simp only [Doc.descFuel, List.mem_flatMap]
      rcases hqi with rfl | hqi
      · exact ⟨x, (mem_children d _ x).mpr hq, List.mem_cons_self⟩
      · -- i is a proper ancestor of the parent q: find the child c of i on the way
        have hqx := hp.parentLt x q hq
        -- walk up from x to the child of i
        have : ∃ c, d.parent c = some i ∧ (c = x ∨ c ∈ d.anc x) := by
          clear ihx hlt
          induction x using Nat.strongRecOn generalizing q with
          | _ x ihw =>
            obtain ⟨q2, hq2, hq2i⟩ := parent_of_mem_anc d hp hqi
            rcases hq2i with rfl | h
            · exact ⟨q, hq2, Or.inr (mem_anc_of_parent d hp hq)⟩
            · obtain ⟨c, hc, hcq⟩ := ihw q hqx (anc_trans d hp q q2 i (mem_anc_of_parent d hp hq2) h |> fun _ => hqi) q2 hq2 h (hp.parentLt q q2 hq2)
              refine ⟨c, hc, Or.inr ?_⟩
              rcases hcq with rfl | hcq
              · exact mem_anc_of_parent d hp hq
              · exact anc_trans d hp x q c (mem_anc_of_parent d hp hq) hcq
        obtain ⟨c, hc, hcx⟩ := this
        refine ⟨c, (mem_children d i c).mpr hc, ?_⟩
        rcases hcx with rfl | hcx
        · exact List.mem_cons_self
        · have hic := hp.parentLt c i hc
          rcases ih x c hcx (by omega) with h | h
          · exact List.mem_cons_of_mem _ h
          · -- f = 0: x < i + 2 and i < c < x is impossible
            have := anc_lt d hp x c hcx
            omega

theorem descFuel_sorted (d : Doc) (hp : PreOrder d) : ∀ (f i : Nat), (d.descFuel f i).Pairwise (· < ·) := by
  intro f
  induction f with
  | zero => intro i; exact List.Pairwise.nil
  | succ f ih =>
    intro i
    simp only [Doc.descFuel]
    have hch := children_sorted d i
    have hmem : ∀ c ∈ d.children i, d.parent c = some i := fun c hc => (mem_children d i c).mp hc
    generalize d.children i = cs at hch hmem
    induction cs with
    | nil => exact List.Pairwise.nil
    | cons c cs ihc =>
      have ⟨hc1, hc2⟩ := List.pairwise_cons.mp hch
      simp only [List.flatMap_cons]
      rw [List.pairwise_append]
      refine ⟨?_, ihc hc2 (fun c' h => hmem c' (List.mem_cons_of_mem _ h)), ?_⟩
      · refine List.pairwise_cons.mpr ⟨?_, ih c⟩
        intro x hx
        exact anc_lt d hp x c (descFuel_mem_anc d hp f c x hx)
      · intro x hx y hy
        simp only [List.mem_flatMap] at hy
        obtain ⟨c2, hc2m, hy⟩ := hy
        have hlt : c < c2 := hc1 c2 hc2m
        have hpc := hmem c List.mem_cons_self
        have hpc2 := hmem c2 (List.mem_cons_of_mem _ hc2m)
        have hxlt : x < c2 := by
          rcases List.mem_cons.mp hx with rfl | hx
          · exact hlt
          · exact subtree_before_next_sibling d hp hpc hpc2 hlt x (descFuel_mem_anc d hp f c x hx)
        have hyge : c2 ≤ y := by
          rcases List.mem_cons.mp hy with rfl | hy
          · exact Nat.le_refl _
          · exact Nat.le_of_lt (anc_lt d hp y c2 (descFuel_mem_anc d hp f c2 y hy))
        omega

theorem sorted_ext : ∀ (l1 l2 : List Nat), l1.Pairwise (· < ·) → l2.Pairwise (· < ·) →
    (∀ x, x ∈ l1 ↔ x ∈ l2) → l1 = l2 := by
  intro l1
  induction l1 with
  | nil =>
    intro l2 _ _ h
    cases l2 with
    | nil => rfl
    | cons y ys => exact absurd ((h y).mpr List.mem_cons_self) (by simp)
  | cons x xs ih =>
    intro l2 h1 h2 h
    cases l2 with
    | nil => exact absurd ((h x).mp List.mem_cons_self) (by simp)
    | cons y ys =>
      have ⟨hx, hxs⟩ := List.pairwise_cons.mp h1
      have ⟨hy, hys⟩ := List.pairwise_cons.mp h2
      have hxy : x = y := by
        have a := (h x).mp List.mem_cons_self
        have b := (h y).mpr List.mem_cons_self
        rcases List.mem_cons.mp a with e | a
        · exact e
        · rcases List.mem_cons.mp b with e | b
          · exact e.symm
          · have := hy x a; have := hx y b; omega
      subst hxy
      congr 1
      apply ih ys hxs hys
      intro z
      constructor
      · intro hz
        rcases List.mem_cons.mp ((h z).mp (List.mem_cons_of_mem _ hz)) with e | hz'
        · have := hx z hz; omega
        · exact hz'
      · intro hz
        rcases List.mem_cons.mp ((h z).mpr (List.mem_cons_of_mem _ hz)) with e | hz'
        · have := hy z hz; omega
        · exact hz'

/-- C14c core. -/
theorem desc_eq_specDesc (d : Doc) (hp : PreOrder d) (i : Nat) : d.desc i = specDesc d i := by
  apply sorted_ext
  · exact descFuel_sorted d hp d.length i
  · unfold specDesc
    exact (List.pairwise_lt_range).filter _
  · intro x
    unfold specDesc Doc.desc
    simp only [List.mem_filter, List.mem_range, List.contains_iff_mem]
    constructor
    · intro h
      have hi := descFuel_mem_anc d hp d.length i x h
      obtain ⟨q, hq, _⟩ := parent_of_mem_anc d hp hi
      exact ⟨parent_lt_length d x q hq, hi⟩
    · intro ⟨hx, hi⟩
      rcases mem_descFuel d hp d.length x i hi (by omega) with h | h
      · exact h
      · omega

end AHP.XPath
