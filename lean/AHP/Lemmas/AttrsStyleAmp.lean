/-
  AHP.Lemmas.AttrsStyleAmp — C10: the style map of an element stays free of `&` as long as the operands
  of the style writers are (names, values, whole-style strings); hence the rendered `style="…"` value is
  free of `&` and is read back unchanged by a re-parse.  `NoAmp` is an invariant of all histories.
-/
import AHP.Lemmas.AttrsFrame
namespace AHP.Attrs
open AHP

/-- no property name and no value of the style map contains `&` -/
def NoAmp (m : AL Str) : Prop := ∀ p ∈ m, '&' ∉ p.1 ∧ '&' ∉ p.2

theorem noAmp_nil : NoAmp [] := fun p hp => by cases hp

theorem noAmp_aset {d : AL Str} (h : NoAmp d) {n v : Str} (hn : '&' ∉ n) (hv : '&' ∉ v) : NoAmp (aset n v d) := by
  intro p hp
  rcases mem_aset hp with hp | hp
  · subst hp; exact ⟨hn, hv⟩
  · exact h p hp

theorem noAmp_adel {d : AL Str} (h : NoAmp d) (n : Str) : NoAmp (adel n d) :=
  fun p hp => h p (mem_adel.mp hp).1

theorem amp_not_mem_lower {s : Str} (h : '&' ∉ s) : '&' ∉ lower s :=
  fun hm => h (mem_lower_of_nonletter (by decide) (lowerChar_eq_punct (by decide)) hm)

theorem noAmp_styleItem {d : AL Str} (h : NoAmp d) {item : Str} (hi : '&' ∉ item) : NoAmp (styleItem d item) := by
  unfold styleItem
  rcases hf : findColon item with _ | ⟨a, b⟩
  · exact h
  · have h2 := findColon_fst_no_colon hf
    have ha : '&' ∉ a := fun m => hi (by rw [h2.2]; exact List.mem_append_left _ m)
    have hb : '&' ∉ b := fun m => hi (by rw [h2.2]; exact List.mem_append_right _ (List.mem_cons_of_mem _ m))
    exact noAmp_aset h (amp_not_mem_lower (not_mem_strip ha)) (not_mem_strip hb)

theorem noAmp_foldl_styleItem : ∀ (items : List Str) {d : AL Str}, NoAmp d → (∀ it ∈ items, '&' ∉ it) →
    NoAmp (items.foldl styleItem d)
  | [], _, h, _ => h
  | it :: items, _, h, hi => by
    simp only [List.foldl_cons]
    exact noAmp_foldl_styleItem items (noAmp_styleItem h (hi it (by simp))) (fun x hx => hi x (List.mem_cons_of_mem _ hx))

/-- a style string without `&` parses to a map without `&` -/
theorem noAmp_styleToDict {s : Str} (h : '&' ∉ s) : NoAmp (styleToDict s) := by
  unfold styleToDict
  refine noAmp_foldl_styleItem _ noAmp_nil ?_
  intro it hit hm
  exact h (mem_strip ((mem_splitChar hit).2 _ hm))

theorem not_mem_joinWith {x : Char} {sep : Str} (hx : x ∉ sep) : ∀ (ws : List Str), (∀ w ∈ ws, x ∉ w) → x ∉ joinWith sep ws
  | [], _ => by simp [joinWith]
  | [w], h => by simpa [joinWith] using h w (by simp)
  | w :: w' :: ws, h => by
    rw [joinWith_cons_cons]
    intro hm
    rcases List.mem_append.mp hm with hm | hm
    · rcases List.mem_append.mp hm with hm | hm
      · exact h w (by simp) hm
      · exact hx hm
    · exact not_mem_joinWith hx (w' :: ws) (fun y hy => h y (List.mem_cons_of_mem _ hy)) hm

/-- the rendering of a map without `&` is free of `&` -/
theorem amp_not_mem_asStr {m : AL Str} (h : NoAmp m) : '&' ∉ asStr m := by
  unfold asStr
  refine not_mem_joinWith (by decide) _ ?_
  intro w hw
  obtain ⟨p, hp, rfl⟩ := List.mem_map.mp hw
  unfold declStr
  intro hm
  rcases List.mem_append.mp hm with hm | hm
  · rcases List.mem_append.mp hm with hm | hm
    · exact (h p hp).1 hm
    · simp at hm
  · exact (h p hp).2 hm

theorem noAmp_write {m : AL Str} (h : NoAmp m) {n : Str} (hn : '&' ∉ n) {v : Option Str}
    (hv : ∀ s, v = some s → '&' ∉ s) : NoAmp (if emptyVal v then adel n m else aset n (v.getD []) m) := by
  split
  · exact noAmp_adel h n
  · cases v with
    | none => exact noAmp_aset h hn (by simp)
    | some s => exact noAmp_aset h hn (hv s rfl)

/-! #### the invariant over all operations -/

def AmpInv (e : El) : Prop := NoAmp e.sty

theorem ampInv_of_eq {e e' : El} (h : e'.sty = e.sty) (hi : AmpInv e) : AmpInv e' := by
  unfold AmpInv; rw [h]; exact hi

theorem getD_no_amp {v : Option Str} (hv : ∀ s, v = some s → '&' ∉ s) : '&' ∉ v.getD [] := by
  cases v with
  | none => simp
  | some s => exact hv s rfl

theorem ampInv_mapSet (T : Tables) (k : Str) {v : Option Str} (hv : lower k = styleK → ∀ s, v = some s → '&' ∉ s)
    {e : El} (h : AmpInv e) : AmpInv (mapSet T k v e).2 := by
  by_cases hk : lower k = styleK
  · unfold AmpInv
    rw [mapSet_sty_eq T v e hk]
    exact noAmp_styleToDict (amp_not_mem_asStr (noAmp_styleToDict (getD_no_amp (hv hk))))
  · exact ampInv_of_eq (mapSet_sty_ne T v e hk) h

theorem ampInv_mapDel (k : Str) {e : El} (h : AmpInv e) : AmpInv (mapDel k e) := by
  unfold AmpInv
  rw [mapDel_sty]
  split
  · exact noAmp_nil
  · exact h

theorem ampInv_setAttribute (T : Tables) (n : Str) {v : Option Str} (hv : lower n = styleK → ∀ s, v = some s → '&' ∉ s)
    {e : El} (h : AmpInv e) : AmpInv (setAttribute T n v e).2 := by
  unfold setAttribute
  split
  · exact h
  · exact ampInv_mapSet T n hv h

theorem ampInv_setAttributes (T : Tables) : ∀ (l : List (Str × Option Str)) {e : El},
    (∀ p ∈ l, lower p.1 = styleK → ∀ s, p.2 = some s → '&' ∉ s) → AmpInv e → AmpInv (setAttributes T l e).2
  | [], _, _, h => h
  | (n, v) :: r, e, hl, h => by
    unfold setAttributes
    have h1 := ampInv_setAttribute T n (hl (n, v) (by simp)) h
    split
    · next e' heq => rw [heq] at h1; exact ampInv_setAttributes T r (fun p hp => hl p (List.mem_cons_of_mem _ hp)) h1
    · next o e' _ heq => rw [heq] at h1; exact h1

theorem amp_not_mem_boolString (v : DotVal) : '&' ∉ v.boolString :=
  fun hm => (goodStr_boolString v '&' hm).2 rfl

theorem ampInv_dotSet (T : Tables) (n : Str) {v : DotVal}
    (hv : ∀ L, aget n T.links = some L → lower L.attr = styleK → '&' ∉ v.tostr) {e : El} (h : AmpInv e) :
    AmpInv (dotSet T n v e).2 := by
  unfold dotSet
  split
  · exact h
  · split
    · exact h
    · next L heq =>
      split
      · exact h
      · split
        · have h1 := ampInv_setAttribute T L.attr (v := some v.boolString)
            (fun _ s hs => by cases hs; exact amp_not_mem_boolString v) h
          split
          · next e' heq2 => rw [heq2] at h1; exact ampInv_of_eq (getAttribute_sty _ _ _ _) h1
          · next r hne => exact h1
        · split
          · split
            · exact ampInv_setAttribute T L.attr (v := some []) (fun _ s hs => by cases hs; simp) h
            · exact ampInv_mapDel _ h
          · exact ampInv_setAttribute T L.attr (v := some v.tostr) (fun hk s hs => by cases hs; exact hv L heq hk) h

theorem ampInv_setStyles : ∀ (l : List (Str × Option Str)) {e : El},
    (∀ p ∈ l, '&' ∉ camelToDash p.1 ∧ ∀ s, p.2 = some s → '&' ∉ s) → AmpInv e → AmpInv (setStyles l e)
  | [], _, _, h => h
  | p :: l, e, hl, h => by
    unfold setStyles
    simp only [List.foldl_cons]
    have hp := hl p (by simp)
    have h1 : AmpInv (setStyle p.1 p.2 e) := by
      unfold AmpInv setStyle
      rw [styleDotSet_sty]
      exact noAmp_write h hp.1 hp.2
    have := ampInv_setStyles l (fun q hq => hl q (List.mem_cons_of_mem _ hq)) h1
    unfold setStyles at this
    exact this

/-- The operand condition: whatever an operation hands to the style attribute — property names (after the
    camelCase → dash mapping), property values, whole-style strings, the value of a `style` attribute written
    through any attribute writer — is free of `&`. Operations that do not address `style` are unrestricted. -/
def AmpFreeOp (T : Tables) : Op → Prop
  | .setAttr n v => lower n = styleK → ∀ s, v = some s → '&' ∉ s
  | .setAttrs l => ∀ p ∈ l, lower p.1 = styleK → ∀ s, p.2 = some s → '&' ∉ s
  | .mapSet n v => lower n = styleK → ∀ s, v = some s → '&' ∉ s
  | .dot n v => ∀ L, aget n T.links = some L → lower L.attr = styleK → '&' ∉ v.tostr
  | .styDot n v => '&' ∉ camelToDash n ∧ ∀ s, v = some s → '&' ∉ s
  | .setStyle n v => '&' ∉ camelToDash n ∧ ∀ s, v = some s → '&' ∉ s
  | .styProp n v => '&' ∉ n ∧ ∀ s, v = some s → '&' ∉ s
  | .setStyles l => ∀ p ∈ l, '&' ∉ camelToDash p.1 ∧ ∀ s, p.2 = some s → '&' ∉ s
  | .styAssign v => ∀ s, v = some s → '&' ∉ s
  | .styCopy src => '&' ∉ src
  | _ => True

/-- the same for the attribute list handed to the constructor / read by the parser -/
def AmpFreeAttrs (attrs : List (Str × Option Str)) : Prop :=
  ∀ p ∈ attrs, lower p.1 = styleK → ∀ s, p.2 = some s → '&' ∉ s

theorem ampInv_step (T : Tables) (op : Op) (hop : AmpFreeOp T op) {e : El} (h : AmpInv e) : AmpInv (step T e op).2 := by
  cases op <;> dsimp only [step]
  case setAttr n v => exact ampInv_setAttribute T n hop h
  case setAttrs l => exact ampInv_setAttributes T l hop h
  case rmAttr n => exact ampInv_mapDel _ h
  case mapSet n v => exact ampInv_mapSet T n hop h
  case mapDel n => exact ampInv_mapDel n h
  case dot n v => exact ampInv_dotSet T n hop h
  case addClass s => exact h
  case rmClass s => exact h
  case className v => exact h
  case styDot n v =>
    unfold AmpInv; rw [styleDotSet_sty]; exact noAmp_write h hop.1 hop.2
  case styProp n v =>
    unfold AmpInv; rw [setProperty_sty]; exact noAmp_write h hop.1 hop.2
  case setStyle n v =>
    unfold AmpInv setStyle; rw [styleDotSet_sty]; exact noAmp_write h hop.1 hop.2
  case setStyles l => exact ampInv_setStyles l hop h
  case styAssign v =>
    unfold AmpInv; rw [assignStyle_sty]; exact noAmp_styleToDict (getD_no_amp hop)
  case styCopy src =>
    unfold AmpInv; rw [assignStyleFrom_sty]
    exact noAmp_styleToDict (amp_not_mem_asStr (noAmp_styleToDict hop))
  case stySelf => exact ampInv_of_eq (ensureStyle_sty e) h
  case sync => exact h

theorem ampInv_run (T : Tables) : ∀ (ops : List Op) {e : El}, (∀ op ∈ ops, AmpFreeOp T op) → AmpInv e → AmpInv (run T e ops)
  | [], _, _, h => h
  | op :: ops, e, hops, h => by
    unfold run
    simp only [List.foldl_cons]
    exact ampInv_run T ops (fun o ho => hops o (List.mem_cons_of_mem _ ho)) (ampInv_step T op (hops op (by simp)) h)

theorem ampInv_initStep (T : Tables) (p : Str × Option Str) (hp : lower p.1 = styleK → ∀ s, p.2 = some s → '&' ∉ s)
    {e : El} (h : AmpInv e) : AmpInv (initStep T e p) := by
  unfold initStep
  simp only
  split
  · exact ampInv_mapSet T (lower p.1) (by rw [lower_idem]; exact hp) h
  · exact h

theorem ampInv_foldl_initStep (T : Tables) : ∀ (l : List (Str × Option Str)) {e : El}, AmpFreeAttrs l → AmpInv e →
    AmpInv (l.foldl (initStep T) e)
  | [], _, _, h => h
  | p :: l, e, hl, h => by
    simp only [List.foldl_cons]
    exact ampInv_foldl_initStep T l (fun q hq => hl q (List.mem_cons_of_mem _ hq)) (ampInv_initStep T p (hl p (by simp)) h)

theorem ampInv_mk (T : Tables) (tag : Str) (sc : Bool) (attrs : List (Str × Option Str)) (ha : AmpFreeAttrs attrs) :
    AmpInv (mk T tag sc attrs) :=
  ampInv_foldl_initStep T attrs ha noAmp_nil

end AHP.Attrs
