/-
  Helper lemmas for C14c/C14d: de-duplication, the predicate filter, the step driver against the
  specification `specSteps`.
-/
import AHP.Lemmas.XPathFlat
namespace AHP.XPath

variable {N : Type}

/-! ### `dedup` (TagCollection construction): first occurrences, in order -/

theorem mem_dedup {x : Nat} {l : List Nat} : x ∈ dedup l ↔ x ∈ l := by
  induction l with
  | nil => simp [dedup]
  | cons y ys ih =>
    simp only [dedup, List.mem_cons, List.mem_filter, ih]
    by_cases h : x = y
    · simp [h]
    · simp [h]

theorem nodup_dedup (l : List Nat) : (dedup l).Nodup := by
  induction l with
  | nil => simp [dedup]
  | cons y ys ih =>
    simp only [dedup]
    refine List.nodup_cons.mpr ⟨?_, ih.filter _⟩
    simp

theorem dedup_of_nodup {l : List Nat} (h : l.Nodup) : dedup l = l := by
  induction l with
  | nil => rfl
  | cons y ys ih =>
    have ⟨h1, h2⟩ := List.nodup_cons.mp h
    simp only [dedup, ih h2]
    congr 1
    apply List.filter_eq_self.mpr
    intro a ha
    have : a ≠ y := fun e => h1 (e ▸ ha)
    simpa using this

theorem flatten_ne_nil : ∀ (p : P N), flatten p ≠ []
  | .lit _ | .attr _ | .text | .last | .position | .concat _ | .contains _ _ | .nspace0 | .nspace1 _ | .group _ => by
    simp [flatten]
  | .bin o l r => by simp [flatten]

/-! ### the predicate filter -/

theorem go_eq_specFilter (nm : Num N) (d : Doc) (l : List (BE N)) (p : P N)
    (h : ∀ i, evalLevel nm (d.ctx i) l = evalP nm (d.ctx i) p) :
    ∀ cur, filterByBody.go nm d l cur = specFilter nm d p cur := by
  intro cur
  induction cur with
  | nil => rfl
  | cons i rest ih =>
    simp only [filterByBody.go, specFilter, specKeep, h, ih]
    cases (evalP nm (d.ctx i) p).bind (keepTag nm d i) <;> cases specFilter nm d p rest <;> rfl

theorem specFilter_sublist (nm : Num N) (d : Doc) (p : P N) :
    ∀ (cur r : List Nat), specFilter nm d p cur = some r → r.Sublist cur := by
  intro cur
  induction cur with
  | nil => intro r h; simp only [specFilter, Option.some.injEq] at h; subst h; exact List.Sublist.slnil
  | cons i rest ih =>
    intro r h
    simp only [specFilter] at h
    cases hk : specKeep nm d p i with
    | none => simp [hk] at h
    | some b =>
      cases hr : specFilter nm d p rest with
      | none => simp [hk, hr] at h
      | some r' =>
        simp only [hk, hr, Option.some.injEq] at h
        subst h
        have := ih r' hr
        cases b
        · exact List.Sublist.cons _ this
        · exact List.Sublist.cons_cons _ this

/-- `filterTagsByBody` on a duplicate-free collection is the specification's filter. -/
theorem filterByBody_eq_spec (nm : Num N) (d : Doc) (p : P N) (hw : P.wf 3 p = true)
    (cur : List Nat) (hn : cur.Nodup) :
    filterByBody nm d (flatten p) cur = specFilter nm d p cur := by
  have hev : ∀ i, evalLevel nm (d.ctx i) (flatten p) = evalP nm (d.ctx i) p :=
    fun i => (flatOK nm (d.ctx i) p 3 hw).evalLevel
  unfold filterByBody
  cases cur with
  | nil => rfl
  | cons i rest =>
    have hne : (flatten p).isEmpty = false := by
      cases h : flatten p with
      | nil => exact absurd h (flatten_ne_nil p)
      | cons _ _ => rfl
    simp only [List.isEmpty_cons, Bool.false_eq_true, ite_false, hne]
    rw [go_eq_specFilter nm d (flatten p) p hev]
    cases h : specFilter nm d p (i :: rest) with
    | none => rfl
    | some r =>
      simp only [Option.map_some]
      rw [dedup_of_nodup ((specFilter_sublist nm d p _ r h).nodup hn)]

theorem specFilter_nodup (nm : Num N) (d : Doc) (p : P N) {cur r : List Nat} (hn : cur.Nodup)
    (h : specFilter nm d p cur = some r) : r.Nodup :=
  (specFilter_sublist nm d p cur r h).nodup hn

theorem runPreds_eq_spec (nm : Num N) (d : Doc) :
    ∀ (ps : List (P N)), (∀ p ∈ ps, P.wf 3 p = true) → ∀ cur : List Nat, cur.Nodup →
      runPreds nm d (ps.map flatten) cur = specPreds nm d ps cur := by
  intro ps
  induction ps with
  | nil => intro _ cur _; rfl
  | cons p ps ih =>
    intro hw cur hn
    simp only [List.map_cons, runPreds, specPreds]
    rw [filterByBody_eq_spec nm d p (hw p List.mem_cons_self) cur hn]
    cases h : specFilter nm d p cur with
    | none => rfl
    | some r =>
      cases r with
      | nil => rfl
      | cons x xs =>
        simp only
        exact ih (fun q hq => hw q (List.mem_cons_of_mem _ hq)) _ (specFilter_nodup nm d p hn h)

theorem specPreds_nodup (nm : Num N) (d : Doc) :
    ∀ (ps : List (P N)) (cur r : List Nat), cur.Nodup → specPreds nm d ps cur = some r → r.Nodup := by
  intro ps
  induction ps with
  | nil => intro cur r hn h; simp only [specPreds, Option.some.injEq] at h; subst h; exact hn
  | cons p ps ih =>
    intro cur r hn h
    simp only [specPreds] at h
    cases hf : specFilter nm d p cur with
    | none => simp [hf] at h
    | some r' =>
      cases r' with
      | nil => simp only [hf, Option.some.injEq] at h; subst h; exact List.nodup_nil
      | cons x xs =>
        simp only [hf] at h
        exact ih _ r (specFilter_nodup nm d p hn hf) h

/-- The find-function the parser picks is the specification's axis, given that the recursive
    descendant walk agrees with the ancestor-based definition (C14c: true of every well-formed document). -/
theorem stepFn_eq_spec (d : Doc) (hdesc : ∀ i, d.desc i = specDesc d i) (first : Bool) (s : SStep N) (i : Nat) :
    stepFn d first { dbl := s.dbl, axis := s.axis, name := s.name, preds := s.preds.map flatten } i
      = specAxis d first s i := by
  unfold stepFn specAxis
  cases s.axis with
  | some a =>
    cases a <;>
      simp only [axisFn, oneLevel, multiLevel, multiLevelOrSelf, parentLevel, ancestorLevel, ancestorOrSelfLevel,
        specSelf, hdesc]
    -- parent
    cases d.parent i with
    | none => rfl
    | some p => simp only [Option.toList, List.filter]; cases nameOk d s.name p <;> rfl
  | none =>
    cases s.dbl <;> cases first <;>
      simp [oneLevel, oneLevelOrSelf, multiLevel, multiLevelOrSelf, specSelf, hdesc]

theorem runSteps_eq_spec (nm : Num N) (d : Doc) (hdesc : ∀ i, d.desc i = specDesc d i) :
    ∀ (ss : List (SStep N)), (∀ s ∈ ss, ∀ p ∈ s.preds, P.wf 3 p = true) → ∀ (first : Bool) (cur : List Nat),
      runSteps nm d first (flattenSteps ss) cur = specSteps nm d first ss cur := by
  intro ss
  induction ss with
  | nil => intro _ first cur; rfl
  | cons s ss ih =>
    intro hw first cur
    simp only [flattenSteps, List.map_cons, runSteps, specSteps, applyFind]
    have hfn : (stepFn d first { dbl := s.dbl, axis := s.axis, name := s.name, preds := s.preds.map flatten })
        = specAxis d first s := funext (stepFn_eq_spec d hdesc first s)
    rw [hfn]
    cases hc : dedup (cur.flatMap (specAxis d first s)) with
    | nil => rfl
    | cons x xs =>
      simp only
      have hn : (x :: xs).Nodup := hc ▸ nodup_dedup _
      rw [runPreds_eq_spec nm d s.preds (hw s List.mem_cons_self) _ hn]
      cases hp : specPreds nm d s.preds (x :: xs) with
      | none => rfl
      | some r =>
        cases r with
        | nil => rfl
        | cons y ys =>
          simp only
          exact ih (fun t ht => hw t (List.mem_cons_of_mem _ ht)) false _

end AHP.XPath
