/-
  IntakeStable, part 4 — trees with ARBITRARY text segmentation (built through the DOM API: several adjacent text
  blocks, empty text blocks), at `norm` level:

  * `docHTML_norm` — `getHTML` depends only on the normal form (adjacent text merged, empty text dropped);
  * `norm_reintake` — re-reading the stores and dropping empty text blocks commutes with `norm`;
  * `obs_reintake_norm` — for a `Stable` tree, the re-read normal form shows the same names, attribute pairs, flags
    and text as the normal form.
-/
import AHP.Lemmas.IntakeStableTree
namespace AHP

theorem docHTML_norm (dt : Option Str) (t : Node) : docHTML dt t.norm = docHTML dt t := by
  cases t with
  | text s => simp [Node.norm]
  | elem n a sc kids =>
    simp only [Node.norm, docHTML, Node.innerHTML]
    rw [htmlL_norm kids]
    have := html_norm (.elem n a sc kids)
    simp only [Node.norm] at this
    rw [this]

/-- the normal form has no empty text block in front (hence none anywhere) -/
theorem normL_head_ne : ∀ (ks : List Node) (s' : Str) (r : List Node), normL ks = .text s' :: r → s' ≠ []
  | [], _, _, h => by simp [normL] at h
  | .text s :: ks, s', r, h => by
    simp only [normL] at h
    split at h
    · rename_i s2 r2 heq
      have h2 := normL_head_ne ks s2 r2 heq
      injection h with h1 _
      injection h1 with h1
      rw [← h1]
      intro e
      exact h2 (List.append_eq_nil_iff.mp e).2
    · rename_i hne
      split at h
      · exact absurd h (hne s' r)
      · rename_i hs
        injection h with h1 _
        injection h1 with h1
        rw [← h1]
        intro e; rw [e] at hs; simp at hs
  | .elem n a sc kids :: ks, _, _, h => by simp [normL] at h

theorem isEmpty_false_of_ne {s : Str} (h : s ≠ []) : s.isEmpty = false := by
  cases s with
  | nil => exact absurd rfl h
  | cons _ _ => rfl

mutual
theorem norm_reintake (t : Node) : t.reintake.norm = t.norm.reintake := by
  match t with
  | .text s => simp [Node.reintake, Node.norm]
  | .elem n a sc kids =>
    simp only [Node.reintake, Node.norm]
    rw [normL_reintakeL kids]
theorem normL_reintakeL (ks : List Node) : normL (reintakeL ks) = reintakeL (normL ks) := by
  match ks with
  | [] => simp [reintakeL, normL]
  | .text s :: ks =>
    have ih := normL_reintakeL ks
    by_cases hs : s.isEmpty = true
    · have hs' : s = [] := by simpa using hs
      subst hs'
      have hl : reintakeL (.text [] :: ks) = reintakeL ks := by simp [reintakeL]
      have hr : normL (.text [] :: ks) = normL ks := by
        simp only [normL]
        split
        · rename_i s2 r2 heq; rw [heq]; simp
        · simp
      rw [hl, hr, ih]
    · have hsf : s.isEmpty = false := by simpa using hs
      have hl : reintakeL (.text s :: ks) = .text s :: reintakeL ks := by simp [reintakeL, hsf]
      rw [hl]
      conv => lhs; unfold normL
      conv => rhs; arg 1; unfold normL
      rw [ih]
      cases hnk : normL ks with
      | nil => simp [reintakeL, hsf]
      | cons k r2 =>
        cases k with
        | text s2 =>
          have h2 := isEmpty_false_of_ne (normL_head_ne ks s2 r2 hnk)
          have h3 : (s ++ s2).isEmpty = false := by
            cases s with
            | nil => simp at hsf
            | cons _ _ => rfl
          simp [reintakeL, h2, h3]
        | elem n a sc kk => simp [reintakeL, hsf]
  | .elem n a sc kids :: ks =>
    simp only [reintakeL, normL]
    rw [normL_reintakeL kids, normL_reintakeL ks]
end

mutual
theorem obs_reintake_norm (t : Node) (h : t.Stable) : t.norm.reintake.obs = t.norm.obs := by
  match t, h with
  | .text s, _ => simp [Node.norm, Node.reintake]
  | .elem n a sc kids, h =>
    simp only [Node.Stable] at h
    simp only [Node.norm, Node.reintake, Node.obs]
    have hv : (reintakeA a).view = a.view := h.1
    rw [hv, obsL_reintake_normL kids h.2]
theorem obsL_reintake_normL (ks : List Node) (h : StableL ks) : obsL (reintakeL (normL ks)) = obsL (normL ks) := by
  match ks, h with
  | [], _ => simp [normL, reintakeL]
  | .text s :: ks, h =>
    simp only [StableL] at h
    have ih := obsL_reintake_normL ks h.2
    conv => lhs; arg 1; arg 1; unfold normL
    conv => rhs; arg 1; unfold normL
    cases hnk : normL ks with
    | nil =>
      simp only
      by_cases hs : s.isEmpty = true
      · simp [hs, reintakeL]
      · simp [hs, reintakeL, obsL]
    | cons k r2 =>
      rw [hnk] at ih
      cases k with
      | text s2 =>
        have h2 := isEmpty_false_of_ne (normL_head_ne ks s2 r2 hnk)
        have h3 : (s ++ s2).isEmpty = false := by
          cases s with
          | nil => simpa using h2
          | cons _ _ => rfl
        simp only [reintakeL, h2, h3, Bool.false_eq_true, if_false, obsL, Node.obs] at ih ⊢
        injection ih with _ ih2
        rw [ih2]
      | elem n a sc kk =>
        simp only
        by_cases hs : s.isEmpty = true
        · simp only [hs, if_true]; exact ih
        · simp only [hs, if_false, Bool.false_eq_true]
          have hsf : s.isEmpty = false := by simpa using hs
          simp only [reintakeL, hsf, Bool.false_eq_true, if_false, obsL, Node.obs] at ih ⊢
          rw [ih]
  | .elem n a sc kids :: ks, h =>
    simp only [StableL, Node.Stable] at h
    simp only [normL, reintakeL, obsL, Node.obs]
    have hv : (reintakeA a).view = a.view := h.1.1
    rw [hv, obsL_reintake_normL kids h.1.2, obsL_reintake_normL ks h.2]
end

end AHP
