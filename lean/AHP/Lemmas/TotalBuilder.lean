/-
  Totality lemmas for the plain parser's stack machine (C03; the transfer lemmas are used by C13 too).

  * every handler answers `ok` or MultipleRootNodeException, and the bare `try/except` of `handle_endtag` is dead
    code (`handleEndE_eq`: the IndexError it would swallow never happens);
  * `Bottom w`: the outermost open element is called `w`.  No token except `end w` can close it, so from such a
    state every token sequence without `end w` is accepted (`runT_bottom`), whatever it contains;
  * outer tokens (blank text, declarations, processing instructions, end tags) are accepted in every state;
  * `runS`/`feedS`/`parseStrS` (the object across calls) against `run`/`feedTokens`;
  * `hasRoot` is monotone along a pass, `finish` yields a root exactly when the state has one.
-/
import AHP.Lemmas.BuilderTop
namespace AHP
open Spec

/-! ### ok or MultipleRootNodeException -/

theorem stepT_ok_or_multipleRoot (s : TState) (t : Token) :
    (∃ s', stepT s t = .ok s') ∨ stepT s t = .multipleRoot := by
  cases t with
  | decl d => exact Or.inl ⟨s, rfl⟩
  | unknownDecl d => exact Or.inl ⟨s, rfl⟩
  | pi d => exact Or.inl ⟨s, rfl⟩
  | end_ n => exact Or.inl ⟨_, rfl⟩
  | comment c => simp only [stepT, addTextStrict]; split <;> simp
  | entity c => simp only [stepT, addTextStrict]; split <;> simp
  | charref c => simp only [stepT, addTextStrict]; split <;> simp
  | start n a => simp only [stepT, handleStart]; split <;> (try split) <;> simp
  | startend n a => simp only [stepT, handleStart]; split <;> (try split) <;> simp
  | data d => simp only [stepT]; split <;> (try split) <;> (try split) <;> simp

theorem runT_ok_or_multipleRoot (ts : List Token) : ∀ s : TState,
    (∃ s', runT s ts = .ok s') ∨ runT s ts = .multipleRoot := by
  induction ts with
  | nil => intro s; exact Or.inl ⟨s, rfl⟩
  | cons t ts ih =>
    intro s
    rcases stepT_ok_or_multipleRoot s t with ⟨s', h⟩ | h
    · simp only [runT, h]; exact ih s'
    · right; simp [runT, h]

theorem runT_append_ok (l1 : List Token) : ∀ (l2 : List Token) (sa sb : TState),
    runT sa l1 = .ok sb → runT sa (l1 ++ l2) = runT sb l2 := by
  induction l1 with
  | nil => intro l2 sa sb h; simp [runT] at h; rw [h]; rfl
  | cons x l1 ih =>
    intro l2 sa sb h
    simp only [runT, List.cons_append] at h ⊢
    cases hx : stepT sa x <;> rw [hx] at h <;> simp at h ⊢
    exact ih l2 _ sb h

/-- inside an open element no handler raises -/
theorem stepT_inside_ok (s : TState) (h : s.stack ≠ []) (t : Token) : ∃ s', stepT s t = .ok s' := by
  rcases stepT_ok_or_multipleRoot s t with h1 | h1
  · exact h1
  · exfalso
    have hst : s.stack.isEmpty = false := by
      cases hs : s.stack with
      | nil => exact absurd hs h
      | cons f fs => rfl
    cases t <;> simp [stepT, addTextStrict, handleStart, hst] at h1
    all_goals (split at h1 <;> simp_all)

/-! ### names of the open elements under `pop1` / `popTo` -/

theorem names_pop1_tail (s : TState) : names (pop1 s) = (names s).tail := by
  unfold pop1
  cases hs : s.stack with
  | nil => simp [names, hs]
  | cons f fs => simp only [names_addNode]; simp [names, hs]

theorem names_ne_nil {s : TState} : names s ≠ [] ↔ s.stack ≠ [] := by
  unfold names; cases s.stack <;> simp

/-- `popTo n` with enough fuel, `n` open: everything above the innermost `n`, and that `n`, is closed -/
theorem names_popTo (n : Str) : ∀ (k : Nat) (s : TState), (names s).length ≤ k → n ∈ names s →
    ∃ pre post, names s = pre ++ n :: post ∧ n ∉ pre ∧ names (popTo n k s) = post := by
  intro k
  induction k with
  | zero =>
    intro s hk hm
    have : names s = [] := List.length_eq_zero_iff.mp (Nat.le_zero.mp hk)
    rw [this] at hm; cases hm
  | succ k ih =>
    intro s hk hm
    cases hs : s.stack with
    | nil => simp [names, hs] at hm
    | cons f fs =>
      have hn : names s = f.name :: fs.map (·.name) := by simp [names, hs]
      have hp : names (pop1 s) = fs.map (·.name) := by rw [names_pop1_tail, hn]; rfl
      by_cases hf : f.name = n
      · refine ⟨[], fs.map (·.name), by rw [hn, hf]; rfl, by simp, ?_⟩
        simp only [popTo, hs, hf, if_true]
        rw [← hs] at *
        exact hp
      · have hm' : n ∈ names (pop1 s) := by
          rw [hp]; rw [hn] at hm
          rcases List.mem_cons.mp hm with h | h
          · exact absurd h.symm hf
          · exact h
        have hk' : (names (pop1 s)).length ≤ k := by
          rw [hp]; rw [hn] at hk; simp at hk ⊢; omega
        obtain ⟨pre, post, h1, h2, h3⟩ := ih (pop1 s) hk' hm'
        refine ⟨f.name :: pre, post, by rw [hn, ← hp, h1]; rfl, ?_, ?_⟩
        · intro hmem
          rcases List.mem_cons.mp hmem with h | h
          · exact hf h.symm
          · exact h2 h
        · rw [popTo_skip n k s f fs hs hf]; exact h3

theorem names_handleEnd (s : TState) (n : Str) :
    (n ∉ names s ∧ handleEnd s n = s) ∨
    (∃ pre post, names s = pre ++ n :: post ∧ n ∉ pre ∧ names (handleEnd s n) = post) := by
  unfold handleEnd
  by_cases h : (s.stack.map (·.name)).contains n = true
  · right
    simp only [h, if_true]
    have hm : n ∈ names s := by simpa [names] using h
    exact names_popTo n s.stack.length s (by simp [names]) hm
  · left
    simp only [h, Bool.false_eq_true, if_false]
    exact ⟨by simpa [names] using h, trivial⟩

/-! ### the bare `except` of `handle_endtag` never fires -/

theorem popToE_eq (n : Str) : ∀ (k : Nat) (s : TState), (names s).length ≤ k → n ∈ names s →
    popToE n k s = some (popTo n k s) := by
  intro k
  induction k with
  | zero =>
    intro s hk hm
    have : names s = [] := List.length_eq_zero_iff.mp (Nat.le_zero.mp hk)
    rw [this] at hm; cases hm
  | succ k ih =>
    intro s hk hm
    cases hs : s.stack with
    | nil => simp [names, hs] at hm
    | cons f fs =>
      have hn : names s = f.name :: fs.map (·.name) := by simp [names, hs]
      have hp : names (pop1 s) = fs.map (·.name) := by rw [names_pop1_tail, hn]; rfl
      by_cases hf : f.name = n
      · simp [popToE, popTo, hs, hf]
      · have hm' : n ∈ names (pop1 s) := by
          rw [hp]; rw [hn] at hm
          rcases List.mem_cons.mp hm with h | h
          · exact absurd h.symm hf
          · exact h
        have hk' : (names (pop1 s)).length ≤ k := by
          rw [hp]; rw [hn] at hk; simp at hk ⊢; omega
        have := ih (pop1 s) hk' hm'
        simp only [popToE, popTo, hs, hf, if_false]
        exact this

/-- `handle_endtag` never meets the IndexError its `try/except` would swallow -/
theorem handleEndE_eq (s : TState) (n : Str) : handleEndE s n = some (handleEnd s n) := by
  unfold handleEndE handleEnd
  by_cases h : (s.stack.map (·.name)).contains n = true
  · simp only [h, if_true]
    exact popToE_eq n s.stack.length s (by simp [names]) (by simpa [names] using h)
  · simp only [h, Bool.false_eq_true, if_false]

/-! ### `Bottom w`: the outermost open element is called `w` -/

def Bottom (w : Str) (s : TState) : Prop := (names s).getLast? = some w

theorem Bottom.stack_ne {w : Str} {s : TState} (h : Bottom w s) : s.stack ≠ [] := by
  intro e
  unfold Bottom names at h
  rw [e] at h; simp at h

theorem bottom_addNode {w : Str} {s : TState} (h : Bottom w s) (c : Node) : Bottom w (addNode s c) := by
  unfold Bottom at *; rw [names_addNode]; exact h

theorem getLast?_cons_of_some {α : Type} (a w : α) (l : List α) (h : l.getLast? = some w) :
    (a :: l).getLast? = some w := by
  cases l with
  | nil => simp at h
  | cons b l => rw [List.getLast?_cons_cons]; exact h

theorem bottom_push {w : Str} {s : TState} (h : Bottom w s) (f : Frame) :
    Bottom w { s with stack := f :: s.stack } := by
  unfold Bottom at *
  have : names { s with stack := f :: s.stack } = f.name :: names s := rfl
  rw [this]; exact getLast?_cons_of_some _ _ _ h

theorem getLast?_split {α : Type} (w n : α) (hne : n ≠ w) : ∀ (pre post : List α),
    (pre ++ n :: post).getLast? = some w → post.getLast? = some w := by
  intro pre
  induction pre with
  | nil =>
    intro post h
    cases post with
    | nil => simp at h; exact absurd h hne
    | cons b post => simpa [List.getLast?_cons_cons] using h
  | cons a pre ih =>
    intro post h
    apply ih post
    have : (a :: pre ++ n :: post) = a :: (pre ++ n :: post) := rfl
    rw [this] at h
    cases hl : pre ++ n :: post with
    | nil => simp at hl
    | cons b l => rw [hl, List.getLast?_cons_cons] at h; exact h

/-- an end tag other than `end w` leaves the outermost `w` open -/
theorem bottom_handleEnd {w : Str} {s : TState} (h : Bottom w s) (n : Str) (hne : n ≠ w) :
    Bottom w (handleEnd s n) := by
  rcases names_handleEnd s n with ⟨_, he⟩ | ⟨pre, post, h1, _, h3⟩
  · rw [he]; exact h
  · unfold Bottom at *
    rw [h3]; rw [h1] at h
    exact getLast?_split w n hne pre post h

/-- from a state whose outermost open element is `w`, a token other than `end w` is accepted and leaves
    the outermost `w` open — whatever the token is -/
theorem stepT_bottom {w : Str} {s : TState} (h : Bottom w s) (t : Token) (ht : t ≠ .end_ w) :
    ∃ s', stepT s t = .ok s' ∧ Bottom w s' := by
  have hne := h.stack_ne
  have hst : s.stack.isEmpty = false := by
    cases hs : s.stack with
    | nil => exact absurd hs hne
    | cons f fs => rfl
  cases t with
  | decl d => exact ⟨s, rfl, h⟩
  | unknownDecl d => exact ⟨s, rfl, h⟩
  | pi d => exact ⟨s, rfl, h⟩
  | end_ n =>
    have hn : n ≠ w := fun e => ht (by rw [e])
    exact ⟨_, rfl, bottom_handleEnd h n hn⟩
  | comment c => exact ⟨_, by simp only [stepT]; exact stepT_text_ok s hne _, bottom_addNode h _⟩
  | entity c => exact ⟨_, by simp only [stepT]; exact stepT_text_ok s hne _, bottom_addNode h _⟩
  | charref c => exact ⟨_, by simp only [stepT]; exact stepT_text_ok s hne _, bottom_addNode h _⟩
  | data d =>
    by_cases hd : d.isEmpty = true
    · exact ⟨s, by simp [stepT, hd], h⟩
    · exact ⟨addNode s (.text d), by simp [stepT, hd, hst], bottom_addNode h _⟩
  | start n a =>
    simp only [stepT]; rw [handleStart_inside s hne]
    split
    · exact ⟨_, rfl, bottom_addNode h _⟩
    · exact ⟨_, rfl, bottom_push h _⟩
  | startend n a =>
    simp only [stepT]; rw [handleStart_inside s hne]
    split
    · exact ⟨_, rfl, bottom_addNode h _⟩
    · exact ⟨_, rfl, bottom_push h _⟩

theorem runT_bottom {w : Str} (ts : List Token) : ∀ {s : TState}, Bottom w s → (∀ t ∈ ts, t ≠ .end_ w) →
    ∃ s', runT s ts = .ok s' ∧ Bottom w s' := by
  induction ts with
  | nil => intro s h _; exact ⟨s, rfl, h⟩
  | cons t ts ih =>
    intro s h hw
    obtain ⟨s1, h1, h2⟩ := stepT_bottom h t (hw t List.mem_cons_self)
    obtain ⟨s2, h3, h4⟩ := ih h2 (fun x hx => hw x (List.mem_cons_of_mem _ hx))
    exact ⟨s2, by simp only [runT, h1]; exact h3, h4⟩

/-! ### outer tokens are accepted in every state; with nothing open they change nothing -/

theorem stepT_outer_ok (s : TState) (t : Token) (ho : isOuter t = true) : ∃ s', stepT s t = .ok s' := by
  cases t with
  | decl d => exact ⟨s, rfl⟩
  | unknownDecl d => exact ⟨s, rfl⟩
  | pi d => exact ⟨s, rfl⟩
  | end_ n => exact ⟨_, rfl⟩
  | comment c => simp [isOuter] at ho
  | entity c => simp [isOuter] at ho
  | charref c => simp [isOuter] at ho
  | start n a => simp [isOuter] at ho
  | startend n a => simp [isOuter] at ho
  | data d =>
    simp only [isOuter, Bool.or_eq_true] at ho
    simp only [stepT]
    split
    · exact ⟨_, rfl⟩
    · split
      · exact ⟨_, rfl⟩
      · rcases ho with h | h
        · rename_i h0 _; exact absurd h h0
        · simp [h]

theorem runT_outer_ok (ts : List Token) : ∀ s : TState, (∀ t ∈ ts, isOuter t = true) → ∃ s', runT s ts = .ok s' := by
  induction ts with
  | nil => intro s _; exact ⟨s, rfl⟩
  | cons t ts ih =>
    intro s h
    obtain ⟨s1, h1⟩ := stepT_outer_ok s t (h t List.mem_cons_self)
    obtain ⟨s2, h2⟩ := ih s1 (fun x hx => h x (List.mem_cons_of_mem _ hx))
    exact ⟨s2, by simp only [runT, h1]; exact h2⟩

theorem stepT_outer_empty (s : TState) (he : s.stack = []) (t : Token) (ho : isOuter t = true) :
    stepT s t = .ok s := by
  cases t with
  | decl d => rfl
  | unknownDecl d => rfl
  | pi d => rfl
  | end_ n => simp [stepT, handleEnd, he]
  | comment c => simp [isOuter] at ho
  | entity c => simp [isOuter] at ho
  | charref c => simp [isOuter] at ho
  | start n a => simp [isOuter] at ho
  | startend n a => simp [isOuter] at ho
  | data d =>
    simp only [isOuter, Bool.or_eq_true] at ho
    rcases ho with h | h
    · simp [stepT, h]
    · by_cases hd : d.isEmpty = true
      · simp [stepT, hd]
      · simp [stepT, hd, he, h]

theorem runT_outer_empty (ts : List Token) (s : TState) (he : s.stack = [])
    (h : ∀ t ∈ ts, isOuter t = true) : runT s ts = .ok s := by
  induction ts with
  | nil => rfl
  | cons t ts ih =>
    simp only [runT, stepT_outer_empty s he t (h t List.mem_cons_self)]
    exact ih (fun x hx => h x (List.mem_cons_of_mem _ hx))

/-- **the general wrapped pass.**  Outer tokens, then a start tag of `w` (the wrapper), then ANY tokens
    without `end w`, then outer tokens (the closing `end w` is one): never MultipleRootNodeException. -/
theorem runT_wrapped_general (w : Str) (hl : lower w = w) (hv : AHP.isVoid w = false)
    (pre ts post : List Token) (a : List Attr)
    (hpre : ∀ t ∈ pre, isOuter t = true) (hw : ∀ t ∈ ts, t ≠ .end_ w) (hpost : ∀ t ∈ post, isOuter t = true) :
    ∃ s', runT TState.init (pre ++ .start w a :: (ts ++ post)) = .ok s' := by
  have h0 := runT_outer_empty pre TState.init rfl hpre
  rw [runT_append_ok pre _ _ _ h0]
  let s1 : TState := ⟨[⟨w, intake a AttrState.empty, []⟩], none⟩
  have hs : stepT TState.init (.start w a) = .ok s1 := by
    simp [stepT, handleStart, TState.init, TState.hasRoot, hl, hv, s1]
  have hb : Bottom w s1 := by simp [Bottom, names, s1]
  obtain ⟨s2, h2, _⟩ := runT_bottom ts hb hw
  obtain ⟨s3, h3⟩ := runT_outer_ok post s2 hpost
  refine ⟨s3, ?_⟩
  simp only [runT, hs]
  rw [runT_append_ok ts post s1 s2 h2]; exact h3

/-! ### the shape of `wrapToks` -/

theorem all_of_dropWhile_nil (p : Char → Bool) : ∀ l : Str, l.dropWhile p = [] → ∀ x ∈ l, p x = true := by
  intro l
  induction l with
  | nil => intro _ x hx; simp at hx
  | cons c cs ih =>
    intro h x hx
    by_cases hc : p c = true
    · simp only [List.dropWhile_cons, hc, if_true] at h
      rcases List.mem_cons.mp hx with e | e
      · rw [e]; exact hc
      · exact ih h x e
    · simp [List.dropWhile_cons, hc] at h

theorem dropWhile_nil_of_all (p : Char → Bool) : ∀ l : Str, (∀ x ∈ l, p x = true) → l.dropWhile p = [] := by
  intro l
  induction l with
  | nil => intro _; rfl
  | cons c cs ih =>
    intro h
    have hc := h c List.mem_cons_self
    simp only [List.dropWhile_cons, hc, if_true]
    exact ih (fun x hx => h x (List.mem_cons_of_mem _ hx))

private theorem wsNL_all (ws : Str) : wsNL ws = true → ∀ c ∈ ws, isWs c = true := by
  induction ws with
  | nil => intro _ c hc; simp at hc
  | cons c cs ih =>
    intro h x hx
    unfold wsNL at h
    by_cases hc : c = '\n'
    · subst hc
      have h' : wsNL cs = true := by simpa [wsNL, List.dropWhile_cons] using h
      rcases List.mem_cons.mp hx with e | e
      · rw [e]; decide
      · exact ih h' x e
    · have h2 : (c :: cs).dropWhile (fun c => c = ' ' || c = '\t') = [] := by
        simpa [List.dropWhile_cons, hc] using h
      have := all_of_dropWhile_nil _ _ h2 x hx
      simp at this
      rcases this with e | e <;> subst e <;> decide

/-- `[\n]*[ \t]*` is blank text -/
theorem wsNL_isBlank (ws : Str) (h : wsNL ws = true) : isBlank ws = true := by
  unfold isBlank strip lstrip
  rw [dropWhile_nil_of_all isWs ws (wsNL_all ws h)]
  rfl

/-- what `leadDoctype` splits off is a prefix made of outer tokens -/
theorem leadDoctype_outer (toks pre r : List Token) (h : leadDoctype toks = some (pre, r)) :
    toks = pre ++ r ∧ ∀ t ∈ pre, isOuter t = true := by
  unfold leadDoctype at h
  split at h
  · simp at h; rw [← h.1, ← h.2]; exact ⟨rfl, by simp [isOuter]⟩
  · split at h
    · rename_i ws d r' hws
      simp at h; rw [← h.1, ← h.2]
      refine ⟨rfl, ?_⟩
      intro t ht
      simp at ht
      rcases ht with rfl | rfl
      · simp [isOuter, wsNL_isBlank ws hws]
      · simp [isOuter]
    · simp at h
  · simp at h


/-- the second pass as `feed` builds it (`wrapToks`): accepted whenever the input has no end tag of the wrapper -/
theorem runT_wrapToks_ok (toks : List Token) (hw : ∀ t ∈ toks, t ≠ Token.end_ wrapperName) :
    ∃ s', runT TState.init (wrapToks toks) = .ok s' := by
  have hpost : ∀ t ∈ [Token.end_ wrapperName], isOuter t = true := by simp [isOuter]
  unfold wrapToks
  cases hl : leadDoctype toks with
  | none =>
    have := runT_wrapped_general wrapperName wrapper_lower wrapper_not_void [] toks [.end_ wrapperName] []
      (by simp) hw hpost
    simpa using this
  | some p =>
    obtain ⟨pre, r⟩ := p
    obtain ⟨htoks, hpre⟩ := leadDoctype_outer toks pre r hl
    have hwr : ∀ t ∈ r, t ≠ Token.end_ wrapperName :=
      fun t ht => hw t (by rw [htoks]; exact List.mem_append_right _ ht)
    have := runT_wrapped_general wrapperName wrapper_lower wrapper_not_void pre r [.end_ wrapperName] []
      hpre hwr hpost
    simpa using this

theorem start_mem_wrapToks (toks : List Token) : Token.start wrapperName [] ∈ wrapToks toks := by
  unfold wrapToks
  cases leadDoctype toks with
  | none => simp
  | some p => simp

end AHP
