/-
  Lemmas for the code tie (Props/C19Code.lean): linking the functions of the generated module `Gen.Code.conversions`
  (each body sees the functions defined before it), the interpreter on `_handleInvalid` once and for all, the tactic that
  unfolds the interpreter on a dumped function.
-/
import AHP.Gen.Code
import AHP.Lemmas.Conv
namespace AHP.PyAst
open AHP AHP.Gen AHP.Conv AHP.Gen.Code

theorem excOf_TypeError : excOf "TypeError" = .typeError := by decide
theorem excOf_ValueError : excOf "ValueError" = .valueError := by decide

/-! ### association lists -/

theorem lookup_assocSet_eq {α : Type} (l : List (String × α)) (x : String) (v : α) :
    (assocSet l x v).lookup x = some v := by
  induction l with
  | nil => simp [assocSet, List.lookup]
  | cons p r ih =>
    obtain ⟨y, w⟩ := p
    by_cases h : y = x
    · simp [assocSet, h, List.lookup]
    · have h' : (x == y) = false := by simpa using fun e => h e.symm
      simp [assocSet, h, List.lookup, h', ih]

theorem lookup_assocSet_ne {α : Type} (l : List (String × α)) (x z : String) (v : α) (hz : z ≠ x) :
    (assocSet l x v).lookup z = l.lookup z := by
  induction l with
  | nil =>
    have h' : (z == x) = false := by simpa using hz
    simp [assocSet, List.lookup, h']
  | cons p r ih =>
    obtain ⟨y, w⟩ := p
    by_cases h : y = x
    · subst h
      have h' : (z == y) = false := by simpa using hz
      simp [assocSet, List.lookup, h']
    · simp only [assocSet, h, if_false, List.lookup]
      cases (z == y) <;> simp [ih]

theorem assocSet_assocSet {α : Type} (l : List (String × α)) (x : String) (v w : α) :
    assocSet (assocSet l x v) x w = assocSet l x w := by
  induction l with
  | nil => simp [assocSet]
  | cons p r ih =>
    obtain ⟨y, u⟩ := p
    by_cases h : y = x
    · simp [assocSet, h]
    · simp [assocSet, h, ih]

theorem assocSet_self {α : Type} (l : List (String × α)) (x : String) (v : α) (h : l.lookup x = some v) :
    assocSet l x v = l := by
  induction l with
  | nil => simp [List.lookup] at h
  | cons p r ih =>
    obtain ⟨y, u⟩ := p
    by_cases hy : y = x
    · subst hy
      simp [List.lookup] at h
      simp [assocSet, h]
    · have h' : (x == y) = false := by simpa using fun e => hy e.symm
      simp only [List.lookup, h'] at h
      simp [assocSet, hy, ih h]

/-- The equations of `execS` for the straight-line statements (not the loops: those are rewritten as a whole). -/
macro "py_stmts" : tactic => `(tactic| simp only [execS.eq_1, execS.eq_2, execS.eq_3, execS.eq_4, execS.eq_5, execS.eq_6,
  execS.eq_7, execS.eq_10, execS.eq_11, execS.eq_12, execS.eq_13, execS.eq_14, execS.eq_15, execL, execH])

/-- `simp` with the equations of the straight-line statements and further facts (the loops stay folded). -/
macro "py_straight" "[" ts:Lean.Parser.Tactic.simpLemma,* "]" : tactic => `(tactic| simp [$ts,*, execS.eq_1, execS.eq_2,
  execS.eq_3, execS.eq_4, execS.eq_5, execS.eq_6, execS.eq_7, execS.eq_10, execS.eq_11, execS.eq_12, execS.eq_13, execS.eq_14,
  execS.eq_15, execL, execH, eval, evalList, List.lookup, Val.truthy, truthy, Lit.toPy, resultOf])

/-! ### the functions of conversions.py, by name, each in the context of the functions defined before it -/

@[simp] theorem name_1 : convertToIntOrNegativeOneIfUnset_ast.name = "convertToIntOrNegativeOneIfUnset" := rfl
@[simp] theorem name_2 : convertToBooleanString_ast.name = "convertToBooleanString" := rfl
@[simp] theorem name_3 : convertBooleanStringToBoolean_ast.name = "convertBooleanStringToBoolean" := rfl
@[simp] theorem name_4 : convertToPositiveInt_ast.name = "convertToPositiveInt" := rfl
@[simp] theorem name_5 : _handleInvalid_ast.name = "_handleInvalid" := rfl
@[simp] theorem name_6 : convertPossibleValues_ast.name = "convertPossibleValues" := rfl
@[simp] theorem name_7 : convertToIntRange_ast.name = "convertToIntRange" := rfl
@[simp] theorem name_8 : convertToIntRangeCapped_ast.name = "convertToIntRangeCapped" := rfl

/-- The context of the `k+1`-th function of conversions.py: the first `k` functions, latest first. -/
def cxAt (parseInt : Str → Except PyErr Int) (k : Nat) : Ctx :=
  { parseInt := parseInt, funs := callIn parseInt (conversions.take k).reverse }

variable (parseInt : Str → Except PyErr Int) (args : List Val)

theorem link_1 : runModule parseInt conversions "convertToIntOrNegativeOneIfUnset" args
    = run (cxAt parseInt 0) convertToIntOrNegativeOneIfUnset_ast args := rfl
theorem link_2 : runModule parseInt conversions "convertToBooleanString" args
    = run (cxAt parseInt 1) convertToBooleanString_ast args := rfl
theorem link_3 : runModule parseInt conversions "convertBooleanStringToBoolean" args
    = run (cxAt parseInt 2) convertBooleanStringToBoolean_ast args := rfl
theorem link_4 : runModule parseInt conversions "convertToPositiveInt" args
    = run (cxAt parseInt 3) convertToPositiveInt_ast args := rfl
theorem link_5 : runModule parseInt conversions "_handleInvalid" args
    = run (cxAt parseInt 4) _handleInvalid_ast args := rfl
theorem link_6 : runModule parseInt conversions "convertPossibleValues" args
    = run (cxAt parseInt 5) convertPossibleValues_ast args := rfl
theorem link_7 : runModule parseInt conversions "convertToIntRange" args
    = run (cxAt parseInt 6) convertToIntRange_ast args := rfl
theorem link_8 : runModule parseInt conversions "convertToIntRangeCapped" args
    = run (cxAt parseInt 7) convertToIntRangeCapped_ast args := rfl

@[simp] theorem cxAt_parseInt (k : Nat) : (cxAt parseInt k).parseInt = parseInt := rfl

/-- No function of conversions.py shadows a builtin of the interpreter. -/
theorem cxAt_builtin (k : Nat) (f : String)
    (hf : f = "int" ∨ f = "bool" ∨ f = "str" ∨ f = "tostr" ∨ f = "hasattr" ∨ f = "issubclass") :
    (cxAt parseInt k).funs f = none := by
  have h : ∀ l : List Fun, (∀ g ∈ l, g.name ≠ f) → callIn parseInt l f = none := by
    intro l
    induction l with
    | nil => intro _; rfl
    | cons g r ih =>
      intro hl
      simp only [callIn]
      rw [if_neg (hl g (List.mem_cons_self ..))]
      exact ih (fun g' hg' => hl g' (List.mem_cons_of_mem _ hg'))
  apply h
  intro g hg
  have hg' : g ∈ conversions := List.mem_of_mem_take (List.mem_reverse.mp hg)
  simp only [conversions, List.mem_cons, List.not_mem_nil, or_false] at hg'
  rcases hf with rfl | rfl | rfl | rfl | rfl | rfl <;>
    rcases hg' with rfl | rfl | rfl | rfl | rfl | rfl | rfl | rfl <;> simp

theorem cxAt_handleInvalid_5 : (cxAt parseInt 5).funs "_handleInvalid" = some (runKw (cxAt parseInt 4) _handleInvalid_ast) := rfl
theorem cxAt_handleInvalid_6 : (cxAt parseInt 6).funs "_handleInvalid" = some (runKw (cxAt parseInt 4) _handleInvalid_ast) := rfl
theorem cxAt_handleInvalid_7 : (cxAt parseInt 7).funs "_handleInvalid" = some (runKw (cxAt parseInt 4) _handleInvalid_ast) := rfl

/-! ### `_handleInvalid`, for every argument -/

/-- What `_handleInvalid(x)` does: an exception instance or class is raised, anything else is returned. -/
def handleInvalidV : Val → Except PyErr Val
  | .excInst n => .error (excOf n)
  | .excType n => .error (excOf n)
  | .caught e => .error e
  | v => .ok v

theorem handleInvalid_run (x : Val) : runKw (cxAt parseInt 4) _handleInvalid_ast [x] [] = handleInvalidV x := by
  cases x <;> simp [_handleInvalid_ast, runKw, bindArgs, execL, execS, execH, eval, evalList, cxAt_builtin, builtin, getAttr,
    pyIsSubclass, Val.truthy, truthy, catches, errIsA, excOf_TypeError, callValue, raiseOf, handleInvalidV, Lit.toPy, List.lookup,
    assocSet, aliasOK, Val.mutable, resultOf]

theorem handleInvalidV_ofInv (inv : Inv) : handleInvalidV (ofInv inv) = liftPy (handleInvalid inv) := by
  cases inv <;> rfl

/-- `emptyValue is EMPTY_IS_INVALID` and what follows, as the hand model's `handleEmpty`. -/
theorem handleEmpty_eq (inv : Inv) (emp : Emp) :
    (if ofEmp emp = .singleton "EMPTY_IS_INVALID" then handleInvalidV (ofInv inv) else .ok (ofEmp emp))
      = liftPy (handleEmpty inv emp) := by
  cases emp with
  | val l => simp [ofEmp, handleEmpty, liftPy]
  | invalid => simp [ofEmp, handleEmpty, handleInvalidV_ofInv]

/-- `val in possibleValues` for a tuple of texts. -/
theorem any_members (s : Str) (ms : List String) :
    (ms.map (fun m => PyV.str m.toList)).any (fun e => pyEqV (.str s) e) = ms.contains (String.ofList s) := by
  induction ms with
  | nil => rfl
  | cons m r ih =>
    rw [List.map_cons, List.any_cons, ih, List.contains_cons]
    congr 1
    simp only [pyEqV]
    by_cases h : s = m.toList
    · subst h; simp
    · have : ¬ (String.ofList s = m) := fun h' => h (by rw [← h']; simp)
      simp [h, this]

/-! `==` between values of different kinds (the catch-all equation of `pyEqV`, spelled out for text and `None`) -/
theorem pyEqV_none_str (b : Str) : pyEqV .none (.str b) = false := rfl
theorem pyEqV_int_str (a : Int) (b : Str) : pyEqV (.int a) (.str b) = false := rfl
theorem pyEqV_bool_str (a : Bool) (b : Str) : pyEqV (.bool a) (.str b) = false := rfl
theorem pyEqV_tokens_str (a : List Str) (b : Str) : pyEqV (.tokens a) (.str b) = false := rfl
theorem pyEqV_ancestor_str (a : Nat) (b : Str) : pyEqV (.ancestor a) (.str b) = false := rfl
theorem pyEqV_opaque_str (a : String) (b : Str) : pyEqV (.opaque a) (.str b) = false := rfl
theorem pyEqV_str_none (a : Str) : pyEqV (.str a) .none = false := rfl
theorem pyEqV_int_none (a : Int) : pyEqV (.int a) .none = false := rfl
theorem pyEqV_bool_none (a : Bool) : pyEqV (.bool a) .none = false := rfl
theorem pyEqV_tokens_none (a : List Str) : pyEqV (.tokens a) .none = false := rfl
theorem pyEqV_ancestor_none (a : Nat) : pyEqV (.ancestor a) .none = false := rfl
theorem pyEqV_opaque_none (a : String) : pyEqV (.opaque a) .none = false := rfl

/-- `v == ''` for a value that is not the empty text. -/
theorem pyEqV_nil_of_ne (v : PyV) (h : v ≠ .str []) : pyEqV v (.str []) = false := by
  cases v <;> simp_all [pyEqV]

theorem isNoneOrEmpty_false (v : PyV) (h : isNoneOrEmpty v = false) : v ≠ .none ∧ v ≠ .str [] := by
  constructor <;> (intro hv; subst hv; simp [isNoneOrEmpty] at h)

/-- `int(v)` fails with `ValueError` (text) or `TypeError` (an object) only. -/
theorem pyInt_error (parseInt : Str → Except PyErr Int) (hpi : ValueErrorOnly parseInt) (v : PyV) (e : PyErr)
    (h : pyInt parseInt v = .error e) : e = .valueError ∨ e = .typeError := by
  cases v <;> simp [pyInt] at h
  case str s => exact Or.inl (hpi s e h)
  all_goals exact Or.inr h.symm

theorem isNoneOrEmpty_true (v : PyV) (h : isNoneOrEmpty v = true) : v = .none ∨ v = .str [] := by
  cases v <;> simp [isNoneOrEmpty] at h ⊢
  case str s => cases s <;> simp_all

theorem pyIn_py_tuple (a : PyV) (vs : List PyV) : pyIn (.py a) (.tuple vs) = .ok (vs.any (fun e => pyEqV a e)) := rfl

theorem pyIn_ofMembers (t : Str) (ms : List String) :
    pyIn (.py (.str t)) (ofMembers ms) = .ok (ms.contains (String.ofList t)) := by
  rw [ofMembers, pyIn_py_tuple, any_members]

/-- The hand model of convertPossibleValues on a value that is not `None`. -/
theorem possible_ne_none (v : PyV) (hv : v ≠ .none) (ms : List String) (inv : Inv) (emp : Emp) :
    Conv.convertPossibleValues v ms inv emp
      = if lower (tostr v) = [] then handleEmpty inv emp
        else if ms.contains (String.ofList (lower (tostr v))) then .ok (.str (lower (tostr v))) else handleInvalid inv := by
  cases v <;> first | exact absurd rfl hv | rfl

/-! ### constants.py (`_special_value_*`) after conversions.py -/

/-- The context of the `k+1`-th dumped function of constants.py: conversions.py and the `k` functions before it. -/
def cxC (parseInt : Str → Except PyErr Int) (k : Nat) : Ctx :=
  { parseInt := parseInt, funs := callIn parseInt (constants_scope.take (8 + k)).reverse }

theorem linkC_1 : runModule parseInt constants_scope "_special_value_rows" args
    = run (cxC parseInt 0) _special_value_rows_ast args := rfl
theorem linkC_2 : runModule parseInt constants_scope "_special_value_cols" args
    = run (cxC parseInt 1) _special_value_cols_ast args := rfl
theorem linkC_3 : runModule parseInt constants_scope "_special_value_autocomplete" args
    = run (cxC parseInt 2) _special_value_autocomplete_ast args := rfl
theorem linkC_4 : runModule parseInt constants_scope "_special_value_size" args
    = run (cxC parseInt 3) _special_value_size_ast args := rfl
theorem linkC_5 : runModule parseInt constants_scope "_special_value_maxLength" args
    = run (cxC parseInt 4) _special_value_maxLength_ast args := rfl

@[simp] theorem cxC_parseInt (k : Nat) : (cxC parseInt k).parseInt = parseInt := rfl

/-- The imported converters, as constants.py sees them: the functions of conversions.py in their own contexts. -/
theorem cxC_intRange (k : Nat) (hk : k ≤ 4) :
    (cxC parseInt k).funs "convertToIntRange" = some (runKw (cxAt parseInt 6) convertToIntRange_ast) := by
  have : k = 0 ∨ k = 1 ∨ k = 2 ∨ k = 3 ∨ k = 4 := by omega
  rcases this with rfl | rfl | rfl | rfl | rfl <;> rfl
theorem cxC_possible (k : Nat) (hk : k ≤ 4) :
    (cxC parseInt k).funs "convertPossibleValues" = some (runKw (cxAt parseInt 5) convertPossibleValues_ast) := by
  have : k = 0 ∨ k = 1 ∨ k = 2 ∨ k = 3 ∨ k = 4 := by omega
  rcases this with rfl | rfl | rfl | rfl | rfl <;> rfl
theorem cxC_positiveInt (k : Nat) (hk : k ≤ 4) :
    (cxC parseInt k).funs "convertToPositiveInt" = some (runKw (cxAt parseInt 3) convertToPositiveInt_ast) := by
  have : k = 0 ∨ k = 1 ∨ k = 2 ∨ k = 3 ∨ k = 4 := by omega
  rcases this with rfl | rfl | rfl | rfl | rfl <;> rfl

/-! keyword calls of the converters as they occur in constants.py = the positional calls -/

theorem intRange_kw (v a b d c : Val) :
    runKw (cxAt parseInt 6) convertToIntRange_ast [v]
        [("minValue", a), ("maxValue", b), ("invalidDefault", d), ("emptyValue", c)]
      = run (cxAt parseInt 6) convertToIntRange_ast [v, a, b, d, c] := by
  simp [run, runKw, convertToIntRange_ast, bindArgs, List.lookup, List.filter]

theorem intRange_kw' (v a b d c : Val) :
    runKw (cxAt parseInt 6) convertToIntRange_ast [v]
        [("minValue", a), ("maxValue", b), ("emptyValue", c), ("invalidDefault", d)]
      = run (cxAt parseInt 6) convertToIntRange_ast [v, a, b, d, c] := by
  simp [run, runKw, convertToIntRange_ast, bindArgs, List.lookup, List.filter]

theorem possible_kw (v ms d c : Val) :
    runKw (cxAt parseInt 5) convertPossibleValues_ast [v, ms] [("invalidDefault", d), ("emptyValue", c)]
      = run (cxAt parseInt 5) convertPossibleValues_ast [v, ms, d, c] := by
  simp [run, runKw, convertPossibleValues_ast, bindArgs, List.lookup, List.filter]

theorem positiveInt_kw (v d : Val) :
    runKw (cxAt parseInt 3) convertToPositiveInt_ast [v] [("invalidDefault", d)]
      = run (cxAt parseInt 3) convertToPositiveInt_ast [v, d] := by
  simp [run, runKw, convertToPositiveInt_ast, bindArgs, List.lookup, List.filter]

theorem toList_eq_iff (s t : String) : s.toList = t.toList ↔ s = t := by
  constructor
  · intro h
    have := congrArg String.ofList h
    simpa using this
  · intro h; rw [h]

/-- Unfold the interpreter on the body of a dumped function of conversions.py (after `simp only [link_k, run, runKw, f_ast]`;
`runKw` itself is not in the set, so that the call of `_handleInvalid` is rewritten by `handleInvalid_run`). -/
macro "py_eval" : tactic => `(tactic| simp [
  bindArgs, execL, execS, execH, eval, evalList, toTuple, pyCompare, compareB, bnot, pyIn_py_tuple, pyIn_ofMembers, pyEq, pyIs, pyOrd, numOf, isText,
  Val.unique, pyEqV.eq_1, pyEqV.eq_2, pyEqV.eq_3, pyEqV.eq_4, pyEqV.eq_5, pyEqV.eq_6, pyEqV.eq_7, pyEqV.eq_8, pyEqV.eq_9,
  pyEqV_none_str, pyEqV_int_str, pyEqV_bool_str, pyEqV_tokens_str, pyEqV_ancestor_str, pyEqV_opaque_str, pyEqV_str_none,
  pyEqV_int_none, pyEqV_bool_none, pyEqV_tokens_none, pyEqV_ancestor_none, pyEqV_opaque_none, Lit.toPy, Val.truthy, truthy, builtin, catches, errIsA, excOf_TypeError, excOf_ValueError, callMethod, hasLower,
  List.lookup, cxAt_builtin, cxAt_handleInvalid_5, cxAt_handleInvalid_6, cxAt_handleInvalid_7, handleInvalid_run,
  assocSet, aliasOK, Val.mutable, resultOf])
/-- `py_eval` with further facts (case hypotheses, the hand model's definitions). -/
macro "py_eval" "[" ts:Lean.Parser.Tactic.simpLemma,* "]" : tactic => `(tactic| simp [$ts,*,
  bindArgs, execL, execS, execH, eval, evalList, toTuple, pyCompare, compareB, bnot, pyIn_py_tuple, pyIn_ofMembers, pyEq, pyIs, pyOrd, numOf, isText,
  Val.unique, pyEqV.eq_1, pyEqV.eq_2, pyEqV.eq_3, pyEqV.eq_4, pyEqV.eq_5, pyEqV.eq_6, pyEqV.eq_7, pyEqV.eq_8, pyEqV.eq_9,
  pyEqV_none_str, pyEqV_int_str, pyEqV_bool_str, pyEqV_tokens_str, pyEqV_ancestor_str, pyEqV_opaque_str, pyEqV_str_none,
  pyEqV_int_none, pyEqV_bool_none, pyEqV_tokens_none, pyEqV_ancestor_none, pyEqV_opaque_none, Lit.toPy, Val.truthy, truthy, builtin, catches, errIsA, excOf_TypeError, excOf_ValueError, callMethod, hasLower,
  List.lookup, cxAt_builtin, cxAt_handleInvalid_5, cxAt_handleInvalid_6, cxAt_handleInvalid_7, handleInvalid_run,
  assocSet, aliasOK, Val.mutable, resultOf])

end AHP.PyAst
