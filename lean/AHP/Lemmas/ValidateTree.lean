/-
  Helper lemmas for C13 ("the serialisation of any tree produced by this library validates"):

  * attribute stores: every key of the underlying dict is a legal attribute name (`AttrState.Legal`) — an
    invariant of `intake` (the constructor loop drops illegal names), hence of every store the tree builder
    creates; the view the serialiser iterates (`AttrState.view`) then lists legal names only;
  * trees: the token rendering of a tree in the serialiser's image (`LNode.toks`, Lemmas/RoundTrip.lean) is a
    balanced token list (`Spec.Bal`);
  * the tree builder only builds trees with legal stores (`runT_legal`, `finish_legal`).
-/
import AHP.Lemmas.RoundTrip
import AHP.Spec.Validate
namespace AHP
open AHP.Spec

/-! ### legal attribute names are an invariant of the store -/

/-- every key of the underlying dict is a legal attribute name -/
def AttrState.Legal (a : AttrState) : Prop := ∀ p ∈ a.d, validAttrName p.1 = true

theorem mem_dictSet {β : Type} (d : List (Str × β)) (k : Str) (v : β) :
    ∀ p ∈ dictSet d k v, p.1 = k ∨ p ∈ d := by
  induction d with
  | nil => intro p hp; simp [dictSet] at hp; left; rw [hp]
  | cons q d ih =>
    intro p hp
    obtain ⟨k', v'⟩ := q
    by_cases hk : k' = k
    · simp only [dictSet, hk, if_true, List.mem_cons] at hp
      rcases hp with e | e
      · left; rw [e]
      · right; exact List.mem_cons_of_mem _ e
    · simp only [dictSet, hk, if_false, List.mem_cons] at hp
      rcases hp with e | e
      · right; rw [e]; exact List.mem_cons_self
      · rcases ih p e with h | h
        · left; exact h
        · right; exact List.mem_cons_of_mem _ h

theorem mem_dictDel {β : Type} (d : List (Str × β)) (k : Str) : ∀ p ∈ dictDel d k, p ∈ d := by
  intro p hp
  unfold dictDel at hp
  exact (List.mem_filter.mp hp).1

theorem AttrState.empty_legal : AttrState.empty.Legal := by
  intro p hp; simp [AttrState.empty] at hp

/-- one `myAttributes[key] = value` with a legal key keeps the store legal -/
theorem AttrState.set_legal (st : AttrState) (k : Str) (v : Option Str) (hk : validAttrName k = true)
    (h : st.Legal) : (st.set k v).Legal := by
  have hset : ∀ w : Option Str, ∀ p ∈ dictSet st.d k w, validAttrName p.1 = true := by
    intro w p hp
    rcases mem_dictSet st.d k w p hp with e | e
    · rw [e]; exact hk
    · exact h p e
  have hdel : ∀ p ∈ dictDel st.d k, validAttrName p.1 = true := fun p hp => h p (mem_dictDel _ _ p hp)
  unfold AttrState.set
  split
  · intro p hp
    simp only at hp
    cases v with
    | none =>
      simp only at hp
      split at hp
      · exact hdel p hp
      · exact hset _ p hp
    | some w =>
      simp only at hp
      split at hp
      · exact hdel p hp
      · exact hset _ p hp
  · split
    · exact h
    · split
      · exact hset _
      · exact hset _

/-- **the intake drops illegal names**: the attribute loop of `AdvancedTag.__init__` keeps the store legal -/
theorem intake_legal (xs : List Attr) : ∀ st : AttrState, st.Legal → (intake xs st).Legal := by
  induction xs with
  | nil => intro st h; exact h
  | cons x xs ih =>
    intro st h
    obtain ⟨k, v⟩ := x
    simp only [intake]
    split
    · rename_i hv
      exact ih _ (AttrState.set_legal st (lower k) v hv h)
    · exact ih _ h

/-- every store the tree builder creates is legal -/
theorem intake_empty_legal (xs : List Attr) : (intake xs AttrState.empty).Legal :=
  intake_legal xs _ AttrState.empty_legal

theorem reintakeA_legal (a : AttrState) : (reintakeA a).Legal := intake_empty_legal _

/-- the pairs `getStartTag` iterates have legal names when the stored names are legal (`class` and `style`, which
    the lazy synchronisation adds, are legal names) -/
theorem view_legal (a : AttrState) (h : a.Legal) : legalAttrs a.view = true := by
  unfold legalAttrs
  rw [List.all_eq_true]
  intro p hp
  have hc : validAttrName "class".toList = true := by decide
  have hs : validAttrName "style".toList = true := by decide
  have h1 : ∀ q ∈ (if a.classes.isEmpty then dictDel a.d "class".toList
      else dictSet a.d "class".toList (some (joinWith [' '] a.classes))), validAttrName q.1 = true := by
    intro q hq
    split at hq
    · exact h q (mem_dictDel _ _ q hq)
    · rcases mem_dictSet _ _ _ q hq with e | e
      · rw [e]; exact hc
      · exact h q e
  unfold AttrState.view at hp
  simp only at hp
  split at hp
  · exact h1 p (mem_dictDel _ _ p hp)
  · rcases mem_dictSet _ _ _ p hp with e | e
    · rw [e]; exact hs
    · exact h1 p e

/-! ### trees with legal stores -/

mutual
/-- every attribute store of the tree holds legal names only -/
def LNode.Legal : LNode → Prop
  | .tok _ => True
  | .elem _ a _ kids => a.Legal ∧ LegalLL kids
def LegalLL : List LNode → Prop
  | [] => True
  | k :: ks => k.Legal ∧ LegalLL ks
end

mutual
def Node.LegalN : Node → Prop
  | .text _ => True
  | .elem _ a _ kids => a.Legal ∧ LegalNL kids
def LegalNL : List Node → Prop
  | [] => True
  | k :: ks => k.LegalN ∧ LegalNL ks
end

theorem legalNL_iff (ks : List Node) : LegalNL ks ↔ ∀ k ∈ ks, k.LegalN := by
  induction ks with
  | nil => simp [LegalNL]
  | cons k ks ih => simp [LegalNL, ih]

theorem legalNL_reverse (ks : List Node) (h : LegalNL ks) : LegalNL ks.reverse := by
  rw [legalNL_iff] at h ⊢
  intro k hk
  exact h k (List.mem_reverse.mp hk)

mutual
/-- a tree in lexical normal form is legal when the plain tree it stands for is -/
theorem legal_of_toNode (t : LNode) (h : t.toNode.LegalN) : t.Legal := by
  match t, h with
  | .tok _, _ => simp [LNode.Legal]
  | .elem n a sc kids, h =>
    simp only [LNode.toNode, Node.LegalN] at h
    simp only [LNode.Legal]
    exact ⟨h.1, legalLL_of_toNodeL kids h.2⟩
theorem legalLL_of_toNodeL (ks : List LNode) (h : LegalNL (toNodeL ks)) : LegalLL ks := by
  match ks, h with
  | [], _ => simp [LegalLL]
  | k :: ks, h =>
    simp only [toNodeL, LegalNL] at h
    simp only [LegalLL]
    exact ⟨legal_of_toNode k h.1, legalLL_of_toNodeL ks h.2⟩
end

mutual
/-- the tree a parse of the serialisation builds has legal stores, whatever the original held -/
theorem reintake_legalN (t : Node) : t.reintake.LegalN := by
  match t with
  | .text s => simp [Node.reintake, Node.LegalN]
  | .elem n a sc kids =>
    simp only [Node.reintake, Node.LegalN]
    exact ⟨reintakeA_legal a, reintakeL_legalNL kids⟩
theorem reintakeL_legalNL (ks : List Node) : LegalNL (reintakeL ks) := by
  match ks with
  | [] => simp [reintakeL, LegalNL]
  | .text s :: ks =>
    simp only [reintakeL]
    split
    · exact reintakeL_legalNL ks
    · simp only [LegalNL, Node.LegalN, true_and]; exact reintakeL_legalNL ks
  | .elem n a sc kids :: ks =>
    simp only [reintakeL, LegalNL, Node.LegalN]
    exact ⟨⟨reintakeA_legal a, reintakeL_legalNL kids⟩, reintakeL_legalNL ks⟩
end

/-! ### the token rendering of a tree is balanced -/

theorem bal_append {xs : List Token} (hx : Bal xs) : ∀ {ys : List Token}, Bal ys → Bal (xs ++ ys) := by
  induction hx with
  | nil => intro ys hy; exact hy
  | inert t ts hi _ ih => intro ys hy; exact Bal.inert t _ hi (ih hy)
  | void n a ts hl hv _ ih => intro ys hy; exact Bal.void n a _ hl hv (ih hy)
  | selfClosed n a ts hl _ ih => intro ys hy; exact Bal.selfClosed n a _ hl (ih hy)
  | elem n a inner ts hl hv hin _ _ iht =>
    intro ys hy
    have := Bal.elem n a inner (ts ++ ys) hl hv hin (iht hy)
    simpa [List.append_assoc] using this

theorem inert_of_textlike (t : Token) (h : (Spec.textOf t).isSome) : isInert t = true := by
  cases t <;> simp [Spec.textOf] at h <;> rfl

mutual
theorem toks_bal (t : LNode) (h : t.WF) (hl : t.Legal) : Bal t.toks := by
  match t, h, hl with
  | .tok tk, h, _ =>
    simp only [LNode.WF] at h
    simp only [LNode.toks]
    exact Bal.inert tk [] (inert_of_textlike tk h) Bal.nil
  | .elem n a sc kids, h, hl =>
    simp only [LNode.WF] at h
    simp only [LNode.Legal] at hl
    obtain ⟨hlow, hv, _, hk⟩ := h
    have hla := view_legal a hl.1
    unfold LNode.toks
    cases hs : sc with
    | true => exact Bal.selfClosed n a.view [] hla Bal.nil
    | false =>
      have hnv : Spec.isVoid (lower n) = false := by
        rw [hlow, ← isVoid_eq]
        cases hvv : AHP.isVoid n with
        | false => rfl
        | true => have := hv hvv; simp_all
      have := Bal.elem n a.view (toksL kids) [] hla hnv (toksL_bal kids hk hl.2) Bal.nil
      rw [hlow] at this
      simpa using this
theorem toksL_bal (ks : List LNode) (h : WFLL ks) (hl : LegalLL ks) : Bal (toksL ks) := by
  match ks, h, hl with
  | [], _, _ => exact Bal.nil
  | k :: ks, h, hl =>
    simp only [WFLL] at h
    simp only [LegalLL] at hl
    unfold toksL
    exact bal_append (toks_bal k h.1 hl.1) (toksL_bal ks h.2 hl.2)
end

/-- dropping a leading inert token keeps a list balanced -/
theorem bal_tail_of_inert {t : Token} {ts : List Token} (hi : isInert t = true) (h : Bal (t :: ts)) : Bal ts := by
  cases h with
  | inert _ _ _ h' => exact h'
  | void n a _ _ _ _ => simp [isInert] at hi
  | selfClosed n a _ _ _ => simp [isInert] at hi
  | elem n a inner ts' _ _ _ _ => simp [isInert] at hi

/-- the wrapped token list of the second pass is balanced when the input is -/
theorem bal_wrapToks {ts : List Token} (h : Bal ts) : Bal (wrapToks ts) := by
  have hw : ∀ r : List Token, Bal r → Bal (Token.start wrapperName [] :: r ++ [Token.end_ wrapperName]) := by
    intro r hr
    have := Bal.elem wrapperName [] r [] (by decide) (by decide) hr Bal.nil
    rw [wrapper_lower] at this
    exact this
  unfold wrapToks
  cases hl : leadDoctype ts with
  | none => exact hw _ h
  | some p =>
    obtain ⟨pre, r⟩ := p
    simp only
    unfold leadDoctype at hl
    split at hl
    · rename_i d r'
      simp only [Option.some.injEq, Prod.mk.injEq] at hl
      obtain ⟨h1, h2⟩ := hl
      subst h1; subst h2
      have hr := bal_tail_of_inert (t := .decl d) rfl h
      exact Bal.inert _ _ rfl (hw _ hr)
    · rename_i ws d r'
      split at hl
      · simp only [Option.some.injEq, Prod.mk.injEq] at hl
        obtain ⟨h1, h2⟩ := hl
        subst h1; subst h2
        have hr := bal_tail_of_inert (t := .decl d) rfl (bal_tail_of_inert (t := .data ws) rfl h)
        exact Bal.inert _ _ rfl (Bal.inert _ _ rfl (hw _ hr))
      · cases hl
    · cases hl

/-! ### the tree builder only builds trees with legal stores -/

def Frame.Legal (f : Frame) : Prop := f.attrs.Legal ∧ LegalNL f.rev

def TState.Legal (s : TState) : Prop := (∀ f ∈ s.stack, f.Legal) ∧ (∀ r, s.root = some r → r.LegalN)

theorem TState.init_legal : TState.init.Legal := by
  constructor
  · intro f hf; simp [TState.init] at hf
  · intro r hr; simp [TState.init] at hr

theorem addNode_legal (s : TState) (c : Node) (h : s.Legal) (hc : c.LegalN) : (addNode s c).Legal := by
  unfold addNode
  cases hs : s.stack with
  | nil =>
    refine ⟨by intro f hf; simp at hf, ?_⟩
    intro r hr; simp at hr; rw [← hr]; exact hc
  | cons f fs =>
    have hf := h.1 f (by rw [hs]; exact List.mem_cons_self)
    refine ⟨?_, h.2⟩
    intro g hg
    simp only [List.mem_cons] at hg
    rcases hg with e | e
    · rw [e]; exact ⟨hf.1, by simp only [LegalNL]; exact ⟨hc, hf.2⟩⟩
    · exact h.1 g (by rw [hs]; exact List.mem_cons_of_mem _ e)

theorem pop1_legal (s : TState) (h : s.Legal) : (pop1 s).Legal := by
  unfold pop1
  cases hs : s.stack with
  | nil => simpa [hs] using h
  | cons f fs =>
    have hf := h.1 f (by rw [hs]; exact List.mem_cons_self)
    apply addNode_legal
    · exact ⟨fun g hg => h.1 g (by rw [hs]; exact List.mem_cons_of_mem _ hg), h.2⟩
    · simp only [Frame.close, Node.LegalN]
      exact ⟨hf.1, legalNL_reverse _ hf.2⟩

theorem popTo_legal (n : Str) (k : Nat) : ∀ s : TState, s.Legal → (popTo n k s).Legal := by
  induction k with
  | zero => intro s h; exact h
  | succ k ih =>
    intro s h
    unfold popTo
    cases hs : s.stack with
    | nil => exact h
    | cons f fs =>
      simp only
      split
      · exact pop1_legal s h
      · exact ih _ (pop1_legal s h)

theorem stepT_legal (s s' : TState) (t : Token) (h : s.Legal) (hs : stepT s t = .ok s') : s'.Legal := by
  have hstart : ∀ (n : Str) (a : List Attr) (sc : Bool), handleStart s n a sc = .ok s' → s'.Legal := by
    intro n a sc he
    unfold handleStart at he
    simp only at he
    split at he
    · split at he
      · cases he
        exact addNode_legal s _ h (by simp only [Node.LegalN, LegalNL, and_true]; exact intake_empty_legal a)
      · cases he
        refine ⟨?_, h.2⟩
        intro g hg
        simp only [List.mem_cons] at hg
        rcases hg with e | e
        · rw [e]; exact ⟨intake_empty_legal a, by simp [LegalNL]⟩
        · exact h.1 g e
    · cases he
  have htext : ∀ txt : Str, addTextStrict s txt = .ok s' → s'.Legal := by
    intro txt he
    unfold addTextStrict at he
    split at he
    · cases he
    · cases he; exact addNode_legal s _ h (by simp [Node.LegalN])
  cases t with
  | start n a => exact hstart n a false hs
  | startend n a => exact hstart n a true hs
  | end_ n =>
    simp only [stepT] at hs
    cases hs
    unfold handleEnd
    split
    · exact popTo_legal n _ s h
    · exact h
  | data d =>
    simp only [stepT] at hs
    split at hs
    · cases hs; exact h
    · split at hs
      · cases hs; exact addNode_legal s _ h (by simp [Node.LegalN])
      · split at hs
        · cases hs; exact h
        · cases hs
  | entity e => exact htext _ hs
  | charref e => exact htext _ hs
  | comment e => exact htext _ hs
  | decl d => cases hs; exact h
  | unknownDecl d => cases hs; exact h
  | pi d => cases hs; exact h

theorem runT_legal (ts : List Token) : ∀ s s' : TState, s.Legal → runT s ts = .ok s' → s'.Legal := by
  induction ts with
  | nil => intro s s' h hr; cases hr; exact h
  | cons t ts ih =>
    intro s s' h hr
    simp only [runT] at hr
    cases hst : stepT s t with
    | ok s1 => rw [hst] at hr; exact ih s1 s' (stepT_legal s s1 t h hst) hr
    | multipleRoot => rw [hst] at hr; cases hr
    | invalidClose => rw [hst] at hr; cases hr
    | missedClose => rw [hst] at hr; cases hr
    | invalidAttr => rw [hst] at hr; cases hr

theorem closeAll_legal (k : Nat) : ∀ s : TState, s.Legal → (closeAll k s).Legal := by
  induction k with
  | zero => intro s h; exact h
  | succ k ih =>
    intro s h
    unfold closeAll
    cases hs : s.stack with
    | nil => exact h
    | cons f fs => exact ih _ (pop1_legal s h)

theorem finish_legal (s : TState) (h : s.Legal) : (finish s).Legal := closeAll_legal _ s h


/-! ### the tree builder only builds trees of the serialiser's element shape

  lower-case names, void ⇒ self-closing, self-closing ⇒ no blocks: the element part of `LNode.WF`, as an invariant
  of the open-element stack machine. -/

mutual
def Node.WFN : Node → Prop
  | .text _ => True
  | .elem n _ sc kids => lower n = n ∧ (AHP.isVoid n = true → sc = true) ∧ (sc = true → kids = []) ∧ WFNL kids
def WFNL : List Node → Prop
  | [] => True
  | k :: ks => k.WFN ∧ WFNL ks
end

theorem wfNL_iff (ks : List Node) : WFNL ks ↔ ∀ k ∈ ks, k.WFN := by
  induction ks with
  | nil => simp [WFNL]
  | cons k ks ih => simp [WFNL, ih]

theorem wfNL_reverse (ks : List Node) (h : WFNL ks) : WFNL ks.reverse := by
  rw [wfNL_iff] at h ⊢
  intro k hk
  exact h k (List.mem_reverse.mp hk)

private theorem lowerChar_idem' (c : Char) : lowerChar (lowerChar c) = lowerChar c := by
  unfold lowerChar
  split
  · next h =>
    have h1 : ∀ n : Nat, n < 91 → 65 ≤ n →
        ¬ ('A' ≤ Char.ofNat (n + 32) ∧ Char.ofNat (n + 32) ≤ 'Z') := by decide
    have ha : 65 ≤ c.toNat := h.1
    have hz : c.toNat ≤ 90 := h.2
    rw [if_neg (h1 c.toNat (by omega) ha)]
  · rfl

theorem lower_lower (s : Str) : lower (lower s) = lower s := by
  unfold lower
  rw [List.map_map]
  apply List.map_congr_left
  intro c _
  exact lowerChar_idem' c

/-- an open element: lower-case, not void (a void element never stays open), blocks so far well shaped -/
def Frame.WFF (f : Frame) : Prop := lower f.name = f.name ∧ AHP.isVoid f.name = false ∧ WFNL f.rev

def TState.WFS (s : TState) : Prop := (∀ f ∈ s.stack, f.WFF) ∧ (∀ r, s.root = some r → r.WFN)

theorem TState.init_wfs : TState.init.WFS := by
  constructor
  · intro f hf; simp [TState.init] at hf
  · intro r hr; simp [TState.init] at hr

theorem addNode_wfs (s : TState) (c : Node) (h : s.WFS) (hc : c.WFN) : (addNode s c).WFS := by
  unfold addNode
  cases hs : s.stack with
  | nil =>
    refine ⟨by intro f hf; simp at hf, ?_⟩
    intro r hr; simp at hr; rw [← hr]; exact hc
  | cons f fs =>
    have hf := h.1 f (by rw [hs]; exact List.mem_cons_self)
    refine ⟨?_, h.2⟩
    intro g hg
    simp only [List.mem_cons] at hg
    rcases hg with e | e
    · rw [e]; exact ⟨hf.1, hf.2.1, by simp only [WFNL]; exact ⟨hc, hf.2.2⟩⟩
    · exact h.1 g (by rw [hs]; exact List.mem_cons_of_mem _ e)

theorem pop1_wfs (s : TState) (h : s.WFS) : (pop1 s).WFS := by
  unfold pop1
  cases hs : s.stack with
  | nil => simpa [hs] using h
  | cons f fs =>
    have hf := h.1 f (by rw [hs]; exact List.mem_cons_self)
    apply addNode_wfs
    · exact ⟨fun g hg => h.1 g (by rw [hs]; exact List.mem_cons_of_mem _ hg), h.2⟩
    · simp only [Frame.close, Node.WFN]
      refine ⟨hf.1, ?_, ?_, wfNL_reverse _ hf.2.2⟩
      · intro hv; rw [hf.2.1] at hv; cases hv
      · intro hsc; cases hsc

theorem popTo_wfs (n : Str) (k : Nat) : ∀ s : TState, s.WFS → (popTo n k s).WFS := by
  induction k with
  | zero => intro s h; exact h
  | succ k ih =>
    intro s h
    unfold popTo
    cases hs : s.stack with
    | nil => exact h
    | cons f fs =>
      simp only
      split
      · exact pop1_wfs s h
      · exact ih _ (pop1_wfs s h)

theorem stepT_wfs (s s' : TState) (t : Token) (h : s.WFS) (hs : stepT s t = .ok s') : s'.WFS := by
  have hstart : ∀ (n : Str) (a : List Attr) (sc : Bool), handleStart s n a sc = .ok s' → s'.WFS := by
    intro n a sc he
    unfold handleStart at he
    simp only at he
    split at he
    · split at he
      · rename_i hsc
        cases he
        apply addNode_wfs s _ h
        simp only [Node.WFN, WFNL, and_true]
        exact ⟨lower_lower n, fun _ => trivial, fun _ => trivial⟩
      · rename_i hsc
        cases he
        have hv : AHP.isVoid (lower n) = false := by
          cases hvv : AHP.isVoid (lower n) with
          | false => rfl
          | true => simp [hvv] at hsc
        refine ⟨?_, h.2⟩
        intro g hg
        simp only [List.mem_cons] at hg
        rcases hg with e | e
        · rw [e]; exact ⟨lower_lower n, hv, by simp [WFNL]⟩
        · exact h.1 g e
    · cases he
  have htext : ∀ txt : Str, addTextStrict s txt = .ok s' → s'.WFS := by
    intro txt he
    unfold addTextStrict at he
    split at he
    · cases he
    · cases he; exact addNode_wfs s _ h (by simp [Node.WFN])
  cases t with
  | start n a => exact hstart n a false hs
  | startend n a => exact hstart n a true hs
  | end_ n =>
    simp only [stepT] at hs
    cases hs
    unfold handleEnd
    split
    · exact popTo_wfs n _ s h
    · exact h
  | data d =>
    simp only [stepT] at hs
    split at hs
    · cases hs; exact h
    · split at hs
      · cases hs; exact addNode_wfs s _ h (by simp [Node.WFN])
      · split at hs
        · cases hs; exact h
        · cases hs
  | entity e => exact htext _ hs
  | charref e => exact htext _ hs
  | comment e => exact htext _ hs
  | decl d => cases hs; exact h
  | unknownDecl d => cases hs; exact h
  | pi d => cases hs; exact h

theorem runT_wfs (ts : List Token) : ∀ s s' : TState, s.WFS → runT s ts = .ok s' → s'.WFS := by
  induction ts with
  | nil => intro s s' h hr; cases hr; exact h
  | cons t ts ih =>
    intro s s' h hr
    simp only [runT] at hr
    cases hst : stepT s t with
    | ok s1 => rw [hst] at hr; exact ih s1 s' (stepT_wfs s s1 t h hst) hr
    | multipleRoot => rw [hst] at hr; cases hr
    | invalidClose => rw [hst] at hr; cases hr
    | missedClose => rw [hst] at hr; cases hr
    | invalidAttr => rw [hst] at hr; cases hr

theorem closeAll_wfs (k : Nat) : ∀ s : TState, s.WFS → (closeAll k s).WFS := by
  induction k with
  | zero => intro s h; exact h
  | succ k ih =>
    intro s h
    unfold closeAll
    cases hs : s.stack with
    | nil => exact h
    | cons f fs => exact ih _ (pop1_wfs s h)

theorem finish_wfs (s : TState) (h : s.WFS) : (finish s).WFS := closeAll_wfs _ s h

/-! #### from the plain tree to its lexical normal form -/

mutual
/-- every text block of the normal form is a text-like token (data run, reference, comment) -/
def LNode.TextLike : LNode → Prop
  | .tok t => (Spec.textOf t).isSome
  | .elem _ _ _ kids => TextLikeL kids
def TextLikeL : List LNode → Prop
  | [] => True
  | k :: ks => k.TextLike ∧ TextLikeL ks
end

theorem toNodeL_eq_nil (ks : List LNode) (h : toNodeL ks = []) : ks = [] := by
  cases ks with
  | nil => rfl
  | cons k ks => simp [toNodeL] at h

mutual
theorem wf_of_toNode (t : LNode) (ht : t.TextLike) (h : t.toNode.WFN) : t.WF := by
  match t, ht, h with
  | .tok tk, ht, _ => simpa [LNode.WF, LNode.TextLike] using ht
  | .elem n a sc kids, ht, h =>
    simp only [LNode.TextLike] at ht
    simp only [LNode.toNode, Node.WFN] at h
    simp only [LNode.WF]
    exact ⟨h.1, h.2.1, fun hsc => toNodeL_eq_nil kids (h.2.2.1 hsc), wfLL_of_toNodeL kids ht h.2.2.2⟩
theorem wfLL_of_toNodeL (ks : List LNode) (ht : TextLikeL ks) (h : WFNL (toNodeL ks)) : WFLL ks := by
  match ks, ht, h with
  | [], _, _ => simp [WFLL]
  | k :: ks, ht, h =>
    simp only [TextLikeL] at ht
    simp only [toNodeL, WFNL] at h
    simp only [WFLL]
    exact ⟨wf_of_toNode k ht.1 h.1, wfLL_of_toNodeL ks ht.2 h.2⟩
end

end AHP
