/-
  `stripIEConditionals` on a text with several conditional comments: `g₀ c₁ g₁ … cₖ gₖ`.

  `findall` finds `c₁ … cₖ` (each is what the pattern matches at its place, no opener in the gaps); the removals
  are done one after the other on the whole text, every occurrence each time.  They do not disturb one another
  when (a) the gaps, joined, contain no opener — so cutting out a conditional makes no new one —, (b) no opener
  stands inside a conditional behind its own, (c) no conditional is a proper prefix of another (equal ones are
  fine: the first removal takes them all).  Then the result is the gaps joined, up to the html-tag rule.
-/
import AHP.Lemmas.StripIE
namespace AHP

/-- (conditional, text behind it) pairs -/
abbrev Segs := List (Str × Str)

def segText : Segs → Str
  | [] => []
  | (c, g) :: L => c ++ g ++ segText L

def joinGaps : Segs → Str
  | [] => []
  | (_, g) :: L => g ++ joinGaps L

/-- the segment structure after `replace(m, '')`: pairs whose conditional is `m` give their gap to what precedes -/
def dropSeg (m : Str) : Str → Segs → Str × Segs
  | pre, [] => (pre, [])
  | pre, (c, g) :: L =>
    if c = m then dropSeg m (pre ++ g) L
    else (pre, (c, (dropSeg m g L).1) :: (dropSeg m g L).2)

/-- at every conditional the pattern matches exactly that conditional (`ieMatchAt_iff`: it is an opener, a body
    on one line and `-->`, and the rest of the line behind it has no further `-->`) -/
def MatchOK : Segs → Prop
  | [] => True
  | (c, g) :: L => ieMatchAt (c ++ (g ++ segText L)) = some c ∧ MatchOK L

/-- neither is a proper prefix of the other -/
def Incomp (a b : Str) : Prop := (a.isPrefixOf b = true → a = b) ∧ (b.isPrefixOf a = true → b = a)

instance (a b : Str) : Decidable (Incomp a b) := by unfold Incomp; exact inferInstance

/-! ### openers in parts of a text -/

theorem hasIEMarker_of_append_left (a b : Str) (h : hasIEMarker (a ++ b) = false) : hasIEMarker a = false := by
  cases ha : hasIEMarker a with
  | false => rfl
  | true =>
    obtain ⟨x, op, y, hop, rfl⟩ := (hasIEMarker_iff a).mp ha
    have : hasIEMarker (x ++ op ++ y ++ b) = true :=
      (hasIEMarker_iff _).mpr ⟨x, op, y ++ b, hop, by simp⟩
    rw [this] at h
    exact absurd h (by simp)

theorem hasIEMarker_of_append_right (a b : Str) (h : hasIEMarker (a ++ b) = false) : hasIEMarker b = false := by
  cases hb : hasIEMarker b with
  | false => rfl
  | true =>
    obtain ⟨x, op, y, hop, rfl⟩ := (hasIEMarker_iff b).mp hb
    have : hasIEMarker (a ++ (x ++ op ++ y)) = true :=
      (hasIEMarker_iff _).mpr ⟨a ++ x, op, y, hop, by simp⟩
    rw [this] at h
    exact absurd h (by simp)

/-! ### the segment structure -/

theorem dropSeg_pre (m x : Str) : ∀ (L : Segs) (g : Str),
    dropSeg m (x ++ g) L = (x ++ (dropSeg m g L).1, (dropSeg m g L).2) := by
  intro L
  induction L with
  | nil => intro g; rfl
  | cons cg L ih =>
    intro g
    obtain ⟨c, g1⟩ := cg
    unfold dropSeg
    by_cases hc : c = m
    · simp only [hc, if_true]
      rw [List.append_assoc, ih (g ++ g1)]
    · simp only [hc, if_false]

theorem dropSeg_join (m : Str) : ∀ (L : Segs) (pre : Str),
    (dropSeg m pre L).1 ++ joinGaps (dropSeg m pre L).2 = pre ++ joinGaps L := by
  intro L
  induction L with
  | nil => intro pre; rfl
  | cons cg L ih =>
    intro pre
    obtain ⟨c, g⟩ := cg
    unfold dropSeg
    by_cases hc : c = m
    · simp only [hc, if_true]
      rw [ih (pre ++ g)]
      simp [joinGaps]
    · simp only [hc, if_false, joinGaps]
      rw [ih g]

theorem dropSeg_mem (m : Str) : ∀ (L : Segs) (pre : Str) (cg : Str × Str), cg ∈ (dropSeg m pre L).2 →
    cg.1 ≠ m ∧ ∃ cg' ∈ L, cg'.1 = cg.1 := by
  intro L
  induction L with
  | nil => intro pre cg h; simp [dropSeg] at h
  | cons cg0 L ih =>
    intro pre cg h
    obtain ⟨c, g⟩ := cg0
    unfold dropSeg at h
    by_cases hc : c = m
    · simp only [hc, if_true] at h
      obtain ⟨h1, cg', h2, h3⟩ := ih _ cg h
      exact ⟨h1, cg', List.mem_cons_of_mem _ h2, h3⟩
    · simp only [hc, if_false] at h
      rcases List.mem_cons.mp h with e | e
      · rw [e]
        exact ⟨hc, (c, g), List.mem_cons_self, rfl⟩
      · obtain ⟨h1, cg', h2, h3⟩ := ih _ cg e
        exact ⟨h1, cg', List.mem_cons_of_mem _ h2, h3⟩

theorem dropSeg_cons_eq (m pre c g : Str) (L : Segs) (h : c = m) :
    dropSeg m pre ((c, g) :: L) = dropSeg m (pre ++ g) L := by
  conv => lhs; unfold dropSeg
  simp [h]

theorem dropSeg_cons_ne (m pre c g : Str) (L : Segs) (h : c ≠ m) :
    dropSeg m pre ((c, g) :: L) = (pre, (c, (dropSeg m g L).1) :: (dropSeg m g L).2) := by
  conv => lhs; unfold dropSeg
  simp [h]

/-! ### one removal on a segmented text -/

/-- what one removal needs of the text: no opener in the gaps joined; every conditional is of the shape of a
    match and has no opener behind its own -/
def SegInv (pre : Str) (L : Segs) : Prop :=
  hasIEMarker (pre ++ joinGaps L) = false ∧ ∀ cg ∈ L, MatchShaped cg.1 ∧ hasIEMarker (cg.1.drop 1) = false

theorem matchShaped_split (m : Str) (h : MatchShaped m) :
    ∃ op t m', IsIEOpener op ∧ m = op ++ t ∧ m = '<' :: (m' ++ ['>']) := by
  obtain ⟨op, body, hop, _, rfl⟩ := h
  obtain ⟨op', rfl⟩ := isIEOpener_head op hop
  exact ⟨'<' :: op', body ++ arrow, op' ++ body ++ ['-', '-'], hop, by simp, by simp [arrow]⟩

theorem removeAux_markerless (m : Str) (hm : MatchShaped m) (z : Str) (h : hasIEMarker z = false) :
    removeAux m 0 z = z := by
  obtain ⟨op, t, _, hop, rfl, _⟩ := matchShaped_split m hm
  exact removeAux_id op t hop z h

theorem prefix_cases (m c r : Str) (h : m.isPrefixOf (c ++ r) = true) : m.isPrefixOf c = true ∨ c.isPrefixOf m = true := by
  have h1 : m <+: c ++ r := List.isPrefixOf_iff_prefix.mp h
  have h2 : c <+: c ++ r := List.prefix_append c r
  rcases Nat.le_total m.length c.length with hl | hl
  · exact Or.inl (List.isPrefixOf_iff_prefix.mpr (List.prefix_of_prefix_length_le h1 h2 hl))
  · exact Or.inr (List.isPrefixOf_iff_prefix.mpr (List.prefix_of_prefix_length_le h2 h1 hl))

/-- **one `replace` on a segmented text**: the conditionals equal to `m` go, everything else stays -/
theorem removeAux_segs (m : Str) (hm : MatchShaped m) : ∀ (L : Segs) (pre : Str), SegInv pre L →
    (∀ cg ∈ L, Incomp m cg.1) →
    removeAux m 0 (pre ++ segText L) = (dropSeg m pre L).1 ++ segText (dropSeg m pre L).2 := by
  intro L
  induction L with
  | nil =>
    intro pre hinv _
    simp only [segText, List.append_nil, dropSeg]
    have := hinv.1
    simp only [joinGaps, List.append_nil] at this
    exact removeAux_markerless m hm pre this
  | cons cg L ih =>
    intro pre hinv hinc
    obtain ⟨c, g⟩ := cg
    obtain ⟨hmark, hconds⟩ := hinv
    obtain ⟨hcs, hcin⟩ := hconds (c, g) List.mem_cons_self
    simp only at hcs hcin
    obtain ⟨_, _, c', _, _, hc⟩ := matchShaped_split c hcs
    obtain ⟨op, t, _, hop, hmop, _⟩ := matchShaped_split m hm
    have hpre : hasIEMarker pre = false := hasIEMarker_of_append_left _ _ hmark
    have hrest : hasIEMarker (g ++ joinGaps L) = false := by
      have := hasIEMarker_of_append_right _ _ hmark
      simpa [joinGaps] using this
    have hL : ∀ cg ∈ L, MatchShaped cg.1 ∧ hasIEMarker (cg.1.drop 1) = false :=
      fun cg h => hconds cg (List.mem_cons_of_mem _ h)
    have hincL : ∀ cg ∈ L, Incomp m cg.1 := fun cg h => hinc cg (List.mem_cons_of_mem _ h)
    have htext : pre ++ segText ((c, g) :: L) = pre ++ '<' :: (c' ++ ['>'] ++ (g ++ segText L)) := by
      simp only [segText]; rw [hc]; simp
    rw [htext]
    conv => lhs; rw [hmop]
    rw [removeAux_pre op t _ hop pre hpre, ← hmop, removeAux_zero_cons]
    by_cases hcm : c = m
    · -- this conditional is `m`: skip it
      have hp : m.isPrefixOf ('<' :: (c' ++ ['>'] ++ (g ++ segText L))) = true := by
        rw [← hcm, hc]
        exact List.isPrefixOf_iff_prefix.mpr ⟨g ++ segText L, by simp⟩
      rw [hp]
      simp only [if_true]
      have hlen : m.length - 1 = (c' ++ ['>']).length := by rw [← hcm, hc]; simp
      rw [hlen, removeAux_skip m (g ++ segText L) (c' ++ ['>']), ih g ⟨hrest, hL⟩ hincL,
        dropSeg_cons_eq m pre c g L hcm, dropSeg_pre m pre L g]
      simp
    · -- another conditional: it stays
      have hp : m.isPrefixOf ('<' :: (c' ++ ['>'] ++ (g ++ segText L))) = false := by
        cases hp : m.isPrefixOf ('<' :: (c' ++ ['>'] ++ (g ++ segText L))) with
        | false => rfl
        | true =>
          exfalso
          have e : '<' :: (c' ++ ['>'] ++ (g ++ segText L)) = c ++ (g ++ segText L) := by rw [hc]; simp
          rw [e] at hp
          have hi := hinc (c, g) List.mem_cons_self
          rcases prefix_cases m c _ hp with h1 | h1
          · exact hcm (hi.1 h1).symm
          · exact hcm (hi.2 h1)
      rw [hp]
      simp only [Bool.false_eq_true, if_false]
      have hin : hasIEMarker ((c' ++ ['>'] ++ g) ++ joinGaps L) = false := by
        have e : (c' ++ ['>'] ++ g) ++ joinGaps L = c' ++ '>' :: (g ++ joinGaps L) := by simp
        rw [e, hasIEMarker_split '>' ieStop_gt (by decide), hrest, Bool.or_false]
        have : hasIEMarker (c' ++ ['>']) = false := by
          have := hcin; rw [hc] at this; simpa using this
        exact hasIEMarker_of_append_left _ _ this
      have e2 : c' ++ ['>'] ++ (g ++ segText L) = (c' ++ ['>'] ++ g) ++ segText L := by simp
      rw [e2, ih (c' ++ ['>'] ++ g) ⟨hin, hL⟩ hincL, dropSeg_pre m (c' ++ ['>']) L g,
        dropSeg_cons_ne m pre c g L hcm]
      simp only [segText]
      rw [hc]
      simp

/-! ### all removals -/

theorem removeAll_eq_aux (m s : Str) (hm : MatchShaped m) : removeAll m s = removeAux m 0 s := by
  obtain ⟨_, _, m', _, _, h⟩ := matchShaped_split m hm
  unfold removeAll
  rw [h]
  rfl

theorem foldl_removeAll_segs : ∀ (ms : List Str) (pre : Str) (L : Segs), SegInv pre L →
    (∀ m ∈ ms, MatchShaped m ∧ ∀ cg ∈ L, Incomp m cg.1) → (∀ cg ∈ L, cg.1 ∈ ms) →
    ms.foldl (fun acc m => removeAll m acc) (pre ++ segText L) = pre ++ joinGaps L := by
  intro ms
  induction ms with
  | nil =>
    intro pre L _ _ hall
    cases L with
    | nil => rfl
    | cons cg L => exact absurd (hall cg List.mem_cons_self) (by simp)
  | cons m ms ih =>
    intro pre L hinv hms hall
    obtain ⟨hm, hinc⟩ := hms m List.mem_cons_self
    rw [List.foldl_cons, removeAll_eq_aux m _ hm, removeAux_segs m hm L pre hinv hinc]
    have hsub : ∀ cg ∈ (dropSeg m pre L).2, cg.1 ≠ m ∧ ∃ cg' ∈ L, cg'.1 = cg.1 := dropSeg_mem m L pre
    rw [ih (dropSeg m pre L).1 (dropSeg m pre L).2 ?_ ?_ ?_, dropSeg_join]
    · refine ⟨by rw [dropSeg_join]; exact hinv.1, ?_⟩
      intro cg hcg
      obtain ⟨_, cg', h1, h2⟩ := hsub cg hcg
      rw [← h2]; exact hinv.2 cg' h1
    · intro m2 hm2
      obtain ⟨hs, hi⟩ := hms m2 (List.mem_cons_of_mem _ hm2)
      refine ⟨hs, ?_⟩
      intro cg hcg
      obtain ⟨_, cg', h1, h2⟩ := hsub cg hcg
      rw [← h2]; exact hi cg' h1
    · intro cg hcg
      obtain ⟨hne, cg', h1, h2⟩ := hsub cg hcg
      have := hall cg' h1
      rw [h2] at this
      rcases List.mem_cons.mp this with e | e
      · exact absurd e hne
      · exact e

/-! ### `findall` on a segmented text -/

theorem matchOK_shaped : ∀ L : Segs, MatchOK L → ∀ cg ∈ L, MatchShaped cg.1 := by
  intro L
  induction L with
  | nil => intro _ cg h; simp at h
  | cons cg0 L ih =>
    intro h cg hcg
    obtain ⟨c, g⟩ := cg0
    rcases List.mem_cons.mp hcg with e | e
    · rw [e]; exact matchShaped_of_match _ _ h.1
    · exact ih h.2 cg e

theorem ieFindAll_segs : ∀ (L : Segs) (pre : Str), hasIEMarker (pre ++ joinGaps L) = false → MatchOK L →
    ieFindAllAux 0 (pre ++ segText L) = L.map (·.1) := by
  intro L
  induction L with
  | nil =>
    intro pre h _
    simp only [segText, joinGaps, List.append_nil] at h ⊢
    exact ieFindAllAux_nil pre h 0
  | cons cg L ih =>
    intro pre h hok
    obtain ⟨c, g⟩ := cg
    obtain ⟨hat, hokL⟩ := hok
    obtain ⟨_, _, c', _, _, hc⟩ := matchShaped_split c (matchShaped_of_match _ _ hat)
    have hpre : hasIEMarker pre = false := hasIEMarker_of_append_left _ _ h
    have hrest : hasIEMarker (g ++ joinGaps L) = false := by
      have := hasIEMarker_of_append_right _ _ h
      simpa [joinGaps] using this
    have htext : pre ++ segText ((c, g) :: L) = pre ++ '<' :: (c' ++ ['>'] ++ (g ++ segText L)) := by
      simp only [segText]; rw [hc]; simp
    have hat' : ieMatchAt ('<' :: (c' ++ ['>'] ++ (g ++ segText L))) = some c := by
      have e : '<' :: (c' ++ ['>'] ++ (g ++ segText L)) = c ++ (g ++ segText L) := by rw [hc]; simp
      rw [e]; exact hat
    rw [htext, ieFindAllAux_pre _ pre hpre, ieFindAllAux_zero_cons, hat']
    simp only [List.map_cons]
    have hlen : c.length - 1 = (c' ++ ['>']).length := by rw [hc]; simp
    rw [hlen, ieFindAllAux_skip (g ++ segText L) (c' ++ ['>']), ih g hrest hokL]

/-- **several conditionals**: the result is the gaps joined, up to the html-tag rule -/
theorem stripIE_segs (g0 : Str) (L : Segs) (hne : L ≠ []) (hok : MatchOK L)
    (hgaps : hasIEMarker (g0 ++ joinGaps L) = false)
    (hin : ∀ cg ∈ L, hasIEMarker (cg.1.drop 1) = false)
    (hinc : ∀ a ∈ L, ∀ b ∈ L, Incomp a.1 b.1) :
    stripIE (g0 ++ segText L) = addHtmlIfMissing (g0 ++ joinGaps L) := by
  have hshape := matchOK_shaped L hok
  unfold stripIE ieFindAll
  rw [ieFindAll_segs L g0 hgaps hok]
  have hemp : (L.map (·.1)).isEmpty = false := by
    cases L with
    | nil => exact absurd rfl hne
    | cons _ _ => rfl
  simp only [hemp, Bool.false_eq_true, if_false]
  rw [foldl_removeAll_segs (L.map (·.1)) g0 L ⟨hgaps, fun cg h => ⟨hshape cg h, hin cg h⟩⟩]
  · intro m hm
    obtain ⟨a, ha, rfl⟩ := List.mem_map.mp hm
    exact ⟨hshape a ha, fun cg hcg => hinc a ha cg hcg⟩
  · intro cg hcg
    exact List.mem_map.mpr ⟨cg, hcg, rfl⟩

end AHP
