/-
  Helper lemmas for the C14 round trip, predicate level: the tokenizer loop (`loop` / `item` of
  AHP.Model.XPathParse) on the canonical text of a well-formed predicate delivers its in-order flat list
  (`flatten`), for every size and nesting — mutual induction over the surface syntax.
-/
import AHP.Lemmas.XPathParseRender
namespace AHP.XPath

variable {N : Type}
set_option linter.unusedSimpArgs false

/-! ### Regular-expression odds and ends -/

theorem dotPlusEnd_plain {r : Str} (hne : r ≠ []) (hn : '\n' ∉ r) : dotPlusEnd r = some r := by
  have hl : r.getLast? ≠ some '\n' := fun h => hn (List.mem_of_getLast? h)
  have hc : r.contains '\n' = false := by simpa using hn
  have he : r.isEmpty = false := by simpa using hne
  simp [dotPlusEnd, hl, hn, he]

theorem lstrip_tight {c : Char} {r : Str} (h : isWs c = false) : lstrip (c :: r) = c :: r := by
  simp [lstrip, List.dropWhile, h]

theorem rstrip_tight {s : Str} (h : EndsTight s) : rstrip s = s := by
  unfold rstrip
  cases hr : s.reverse with
  | nil => simp at hr; simp [hr]
  | cons d t =>
    have hs : s = t.reverse ++ [d] := by
      have := congrArg List.reverse hr
      simpa using this
    have hd : isWs d = false := h d (by rw [hs]; simp)
    simp [List.dropWhile, hd, hs]

theorem strip_tight {c : Char} {r : Str} (hc : isWs c = false) (h : EndsTight (c :: r)) : strip (c :: r) = c :: r := by
  unfold strip
  rw [lstrip_tight hc, rstrip_tight h]

theorem lstrip_ws {w : Str} (hw : w.all isSpTab = true) (s : Str) : lstrip (w ++ s) = lstrip s := by
  induction w with
  | nil => rfl
  | cons c r ih =>
    simp only [List.all_cons, Bool.and_eq_true] at hw
    have : isWs c = true := by
      have : c = ' ' ∨ c = '\t' := by simpa [isSpTab] using hw.1
      rcases this with rfl | rfl <;> decide
    simp only [lstrip, List.cons_append, List.dropWhile, this] at ih ⊢
    exact ih hw.2

/-- `strip` of a tight text with `[ \t]*` in front -/
theorem strip_ws_tight {w : Str} (hw : w.all isSpTab = true) {c : Char} {r : Str} (hc : isWs c = false)
    (h : EndsTight (c :: r)) : strip (w ++ c :: r) = c :: r := by
  unfold strip
  rw [lstrip_ws hw, lstrip_tight hc, rstrip_tight h]

/-! ### One round of the loop -/

theorem loop_item (nm : Num N) (f : Nat) (mode : Mode) {s : Str} (cur done : List (BE N)) {e : BE N} {rest : Str}
    (hs : s ≠ []) (hc : groupClose s = none) (ha : nextArg s = none) (hi : item nm f s = some (e, rest)) :
    loop nm (f + 1) mode s cur done = loop nm f mode rest (cur ++ [e]) done := by
  have he : s.isEmpty = false := by simpa using hs
  simp [loop, he, hc, ha, hi]

theorem loop_close (nm : Num N) (f : Nat) {mode : Mode} {s : Str} (cur done : List (BE N)) {rest : Str}
    (hs : s ≠ []) (hm : mode ≠ .top) (hc : groupClose s = some rest) :
    loop nm (f + 1) mode s cur done = some (cur, done, rest) := by
  have he : s.isEmpty = false := by simpa using hs
  simp [loop, he, hc, hm]

theorem loop_comma (nm : Num N) (f : Nat) {s : Str} (cur done : List (BE N)) {rest : Str}
    (hs : s ≠ []) (hc : groupClose s = none) (ha : nextArg s = some rest) (hcur : cur ≠ []) :
    loop nm (f + 1) .args s cur done = loop nm f .args rest [] (done ++ [.group cur]) := by
  have he : s.isEmpty = false := by simpa using hs
  have hce : cur.isEmpty = false := by simpa using hcur
  simp [loop, he, hc, ha, hce]

theorem groupClose_paren (rest : Str) : groupClose (')' :: rest) = some (skipSp rest) := by
  simp [groupClose, skipSp, List.dropWhile, isSpTab]

theorem nextArg_comma (rest : Str) : nextArg (',' :: rest) = some (skipSp rest) := by
  simp [nextArg, skipSp, List.dropWhile, isSpTab]

/-! ### Follow texts -/

/-- `[ \t]*` and then a follow character -/
theorem RestOK.ws_cons' {w : Str} (hw : w.all isSpTab = true) {c : Char} {t : Str} (hc : w ≠ [] ∨ c ∈ followChars)
    (hn : '\n' ∉ c :: t) (ht : EndsTight (c :: t)) : RestOK (w ++ c :: t) := by
  refine ⟨?_, ?_, (endsTight_append_cons w c t).2 ht⟩
  · cases w with
    | nil =>
      rcases hc with h | h
      · exact absurd rfl h
      · exact okFollow_of_mem h
    | cons d r =>
      apply okFollow_of_mem
      rcases ws_mem hw (c := d) (by simp) with rfl | rfl <;> decide
  · simp only [List.mem_append, not_or]
    exact ⟨ws_nonl hw, hn⟩

theorem RestOK.ws_cons {w : Str} (hw : w.all isSpTab = true) {c : Char} {t : Str} (hc : c ∈ followChars) (hn : '\n' ∉ c :: t)
    (ht : EndsTight (c :: t)) : RestOK (w ++ c :: t) := RestOK.ws_cons' hw (.inr hc) hn ht

theorem RestOK.paren {rest : Str} (h : RestOK rest) {w : Str} (hw : w.all isSpTab = true) : RestOK (w ++ ')' :: rest) := by
  apply RestOK.ws_cons hw (by decide)
  · simp only [List.mem_cons, not_or]
    exact ⟨by decide, h.nonl⟩
  · cases rest with
    | nil => exact endsTight_single (by decide)
    | cons d r => exact endsTight_cons_of h.last (by simp)

theorem RestOK.paren' {rest : Str} (h : RestOK rest) : RestOK (')' :: rest) := h.paren (w := []) rfl

/-- what a rendered predicate followed by a follow text ends with -/
theorem endsTight_render {st : Style} {π : List Nat} {p : S N} (hp : RenderOK st π p) {rest : Str} (h : RestOK rest) :
    EndsTight (renderS st π p ++ rest) := by
  cases rest with
  | nil => simpa using hp.last
  | cons d r => exact (endsTight_append_cons _ d r).2 h.last

/-! ### Chains -/

/-- The loop, in any of its three modes, on the text of `p` followed by `rest`: after `cost p` rounds the
    elements of `p` have been appended and the loop stands at `rest`. -/
def ChainOK (nm : Num N) (st : Style) (π : List Nat) (p : S N) : Prop :=
  ∀ (f : Nat) (mode : Mode) (rest : Str) (cur done : List (BE N)),
    RestOK rest → 2 * (renderS st π p ++ rest).length < f + cost p →
    loop nm (f + cost p) mode (renderS st π p ++ rest) cur done
      = loop nm f mode (skipSp rest) (cur ++ flatten p.toP) done

/-- an atom (anything but `bin`) is one round -/
theorem chain_of_item (nm : Num N) (st : Style) (π : List Nat) (p : S N) (e : BE N) (hcost : cost p = 1)
    (hflat : flatten p.toP = [e]) (hok : RenderOK st π p)
    (hi : ∀ f rest, RestOK rest → 2 * (renderS st π p ++ rest).length < f + 1 →
      item nm f (renderS st π p ++ rest) = some (e, skipSp rest)) : ChainOK nm st π p := by
  intro f mode rest cur done hr hf
  rw [hcost] at hf ⊢
  rw [hflat]
  obtain ⟨c, r, hc, hcs⟩ := hok.head
  obtain ⟨_, h2, h3, h4, _⟩ := startOk_facts hcs
  have hi' := hi f rest hr hf
  rw [hc] at hi' ⊢
  exact loop_item nm f mode cur done (by simp) (groupClose_head h2 h3) (nextArg_head h2 h4) hi'

theorem fuel_succ {f n : Nat} (h : 2 * n < f + 1) (hn : 1 ≤ n) : ∃ k, f = k + 1 := ⟨f - 1, by omega⟩

theorem chain_num (nm : Num N) (st : Style) (π : List Nat) (l : NumLit) (x : N) (h : S.wf nm (.num l x)) :
    ChainOK nm st π (.num l x) := by
  have hw : l.wf = true ∧ nm.parse l.text = some x := by simpa [S.wf] using h
  apply chain_of_item nm st π _ (.val (.num x)) rfl rfl (renderOK nm st π _ h)
  intro f rest hr hf
  obtain ⟨c, r, ht, hp, _⟩ := numLit_head l hw.1
  obtain ⟨k, rfl⟩ := fuel_succ hf (by simp [renderS, ht])
  have hres := restTok_num nm l x rest hw.1 hw.2 (numStop_of_follow hr.follow)
  simp only [renderS]
  rw [ht] at hres ⊢
  rw [List.cons_append, item_plain nm k hp]
  exact hres

theorem chain_str (nm : Num N) (st : Style) (π : List Nat) (s : Str) (h : S.wf nm (.str s)) : ChainOK nm st π (.str s) := by
  have hw : strOk s = true := by simpa [S.wf] using h
  apply chain_of_item nm st π _ (.val (.str s)) rfl rfl (renderOK nm st π _ h)
  intro f rest hr hf
  obtain ⟨k, rfl⟩ := fuel_succ hf (by simp [renderS])
  simp only [renderS, List.cons_append, List.append_assoc, List.nil_append]
  rw [item_plain nm k (plainHead_quoteWith _ s)]
  exact restTok_str nm _ s rest hw

theorem chain_attr (nm : Num N) (st : Style) (π : List Nat) (n : Str) (h : S.wf nm (.attr n)) : ChainOK nm st π (.attr n) := by
  have hw : attrNameOk n = true := by simpa [S.wf] using h
  apply chain_of_item nm st π _ (.attr n) rfl rfl (renderOK nm st π _ h)
  intro f rest hr hf
  obtain ⟨k, rfl⟩ := fuel_succ hf (by simp [renderS])
  simp only [renderS, List.cons_append]
  exact item_gen nm k (by decide) (by decide) (genTok_attr n rest hw hr.follow)

/-- `text()`, `last()`, `position()` in any layout -/
theorem chain_fn0 (nm : Num N) (st : Style) (π : List Nat) (p : S N) (e : BE N) (w : Str) (hw : WordOK w)
    (hcost : cost p = 1) (hflat : flatten p.toP = [e]) (hwf : S.wf nm p)
    (hrender : renderS st π p = st.spell π w ++ (st.sp .fnName π ++ ('(' :: (st.sp .open π ++ [')']))))
    (hg : ∀ (v w1 w2 rest : Str), v.map lowerChar = w → w1.all isSpTab = true → w2.all isSpTab = true →
      genTok (N := N) (v ++ (w1 ++ ('(' :: (w2 ++ (')' :: rest))))) = some (e, skipSp rest)) : ChainOK nm st π p := by
  apply chain_of_item nm st π p e hcost hflat (renderOK nm st π p hwf)
  intro f rest hr hf
  have hv := spell_map st π hw.1
  obtain ⟨_, _, x, t, hxt, hx1, _, _, _, hx5⟩ := hw
  obtain ⟨c, r, hcr, hc, _⟩ := spelled_head hxt hv
  rw [hrender] at hf ⊢
  obtain ⟨k, rfl⟩ := fuel_succ hf (by simp [hcr])
  have hg' := hg _ _ _ rest hv (sp_all st .fnName π) (sp_all st .open π)
  simp only [List.append_assoc, List.cons_append, List.nil_append] at hg' ⊢
  rw [hcr] at hg' ⊢
  refine item_gen nm k (isWs_isSpTab (isWs_of_lowerChar hc hx1)) ?_ hg'
  exact ne_of_lowerChar hc (by rw [show lowerChar '(' = '(' by decide]; exact Ne.symm hx5)

/-! ### Groups and function calls as one round -/

theorem item_group (nm : Num N) (f : Nat) {body body' : Str} {cur done : List (BE N)} {rest : Str}
    (hne : body ≠ []) (hn : '\n' ∉ body) (hs : strip body = body')
    (hl : loop nm f .group body' [] [] = some (cur, done, rest)) :
    item nm (f + 1) ('(' :: body) = some (.group cur, rest) := by
  have : groupOpen ('(' :: body) = some body := by
    simp [groupOpen, skipSp, isSpTab, List.dropWhile, dotPlusEnd_plain hne hn]
  simp [item, this, hs, hl]

/-- the head of a spelled function name: no group, no argument-less generator starts with it -/
theorem fnHead_facts {w v : Str} (hw : WordOK w) (hv : v.map lowerChar = w) {x : Char} {t : Str} (hxt : w = x :: t)
    (h1 : x ≠ 't') (h2 : x ≠ 'l') (h3 : x ≠ 'p') (h4 : x ≠ '@') :
    ∃ c r, v = c :: r ∧ lowerChar c = x ∧ isSpTab c = false ∧ groupOpen (c :: r) = none ∧
      (∀ s : Str, genTok (N := N) (c :: (r ++ s)) = none) := by
  obtain ⟨hl, _, x', t', hxt', hx1, _, _, _, hx5⟩ := hw
  rw [hxt] at hxt'
  obtain ⟨rfl, rfl⟩ := List.cons.inj hxt'
  obtain ⟨c, r, rfl, hc, _⟩ := spelled_head hxt hv
  have hlx : lowerChar x = x := by
    rw [hxt] at hl
    simp only [List.map_cons, List.cons.injEq] at hl
    exact hl.1
  have hsp := isWs_isSpTab (isWs_of_lowerChar hc hx1)
  have hne : ∀ k, lowerChar k = k → x ≠ k → c ≠ k := fun k hk hkx => ne_of_lowerChar hc (by rw [hk]; exact Ne.symm hkx)
  refine ⟨c, r, rfl, hc, hsp, groupOpen_head hsp (hne '(' (by decide) hx5), ?_⟩
  intro s
  simp [genTok, attrTok_head (hne '@' (by decide) h4), fn0Tok_head (show lowerChar c ≠ 't' by rw [hc]; exact h1),
    fn0Tok_head (show lowerChar c ≠ 'l' by rw [hc]; exact h2), fn0Tok_head (show lowerChar c ≠ 'p' by rw [hc]; exact h3)]

theorem fnOpenTok_spelled (w v w1 body : Str) (hv : v.map lowerChar = w) (h1 : w1.all isSpTab = true)
    (hne : body ≠ []) (hn : '\n' ∉ body) : fnOpenTok w (v ++ (w1 ++ ('(' :: body))) = some body := by
  simp [fnOpenTok, wordCI_spelled w v _ hv, skipSp_ws_cons h1 (show isSpTab '(' = false by decide), dotPlusEnd_plain hne hn]

theorem fnOpenTok_none {w : Str} {s : Str} (h : wordCI w s = none) : fnOpenTok w s = none := by
  simp [fnOpenTok, h]

theorem item_concat (nm : Num N) (f : Nat) {v w1 body body' : Str} {cur done : List (BE N)} {rest : Str}
    (hv : v.map lowerChar = wConcat) (h1 : w1.all isSpTab = true)
    (hne : body ≠ []) (hn : '\n' ∉ body) (hs : strip body = body')
    (hl : loop nm f .args body' [] [] = some (cur, done, rest)) :
    item nm (f + 1) (v ++ (w1 ++ ('(' :: body))) = (mkConcat (finishArgs cur done)).map (·, rest) := by
  obtain ⟨c, r, rfl, hc, hsp, hgo, hgen⟩ := fnHead_facts (N := N) wordOK_concat hv (x := 'c') rfl
    (by decide) (by decide) (by decide) (by decide)
  have hopen := fnOpenTok_spelled wConcat (c :: r) w1 body hv h1 hne hn
  simp only [List.cons_append] at hopen ⊢
  have hgo' : groupOpen (c :: (r ++ (w1 ++ '(' :: body))) = none := by
    have := groupOpen_head (c := c) (r := r ++ (w1 ++ '(' :: body)) hsp
      (by intro e; rw [e] at hc; revert hc; decide)
    exact this
  simp only [wConcat] at hopen
  simp [item, hgo', skipSp_cons_of_not hsp, hgen, hopen, hs, hl]

theorem item_contains (nm : Num N) (f : Nat) {v w1 body body' : Str} {cur done : List (BE N)} {rest : Str}
    (hv : v.map lowerChar = wContains) (h1 : w1.all isSpTab = true)
    (hne : body ≠ []) (hn : '\n' ∉ body) (hs : strip body = body')
    (hl : loop nm f .args body' [] [] = some (cur, done, rest)) :
    item nm (f + 1) (v ++ (w1 ++ ('(' :: body))) = (mkContains (finishArgs cur done)).map (·, rest) := by
  have hcat : fnOpenTok wConcat (v ++ (w1 ++ ('(' :: body))) = none :=
    fnOpenTok_none (wordCI_spelled_ne wConcat wContains v _ hv (by decide) (by decide))
  obtain ⟨c, r, rfl, hc, hsp, hgo, hgen⟩ := fnHead_facts (N := N) wordOK_contains hv (x := 'c') rfl
    (by decide) (by decide) (by decide) (by decide)
  have hopen := fnOpenTok_spelled wContains (c :: r) w1 body hv h1 hne hn
  simp only [List.cons_append] at hopen hcat ⊢
  have hgo' : groupOpen (c :: (r ++ (w1 ++ '(' :: body))) = none :=
    groupOpen_head (c := c) (r := r ++ (w1 ++ '(' :: body)) hsp (by intro e; rw [e] at hc; revert hc; decide)
  simp only [wContains] at hopen
  simp only [wConcat] at hcat
  simp [item, hgo', skipSp_cons_of_not hsp, hgen, hcat, hopen, hs, hl]

theorem item_nspace (nm : Num N) (f : Nat) {v w1 body body' : Str} {cur done : List (BE N)} {rest : Str}
    (hv : v.map lowerChar = wNspace) (h1 : w1.all isSpTab = true)
    (hne : body ≠ []) (hn : '\n' ∉ body) (hs : strip body = body')
    (hl : loop nm f .args body' [] [] = some (cur, done, rest)) :
    item nm (f + 1) (v ++ (w1 ++ ('(' :: body))) = (mkNspace (finishArgs cur done)).map (·, rest) := by
  obtain ⟨c, r, rfl, hc, hsp, hgo, hgen⟩ := fnHead_facts (N := N) wordOK_nspace hv (x := 'n') rfl
    (by decide) (by decide) (by decide) (by decide)
  have hopen := fnOpenTok_spelled wNspace (c :: r) w1 body hv h1 hne hn
  have hcat : fnOpenTok wConcat (c :: (r ++ (w1 ++ '(' :: body))) = none := fnOpenTok_head (by rw [hc]; decide)
  have hcon : fnOpenTok wContains (c :: (r ++ (w1 ++ '(' :: body))) = none := fnOpenTok_head (by rw [hc]; decide)
  simp only [List.cons_append] at hopen ⊢
  have hgo' : groupOpen (c :: (r ++ (w1 ++ '(' :: body))) = none :=
    groupOpen_head (c := c) (r := r ++ (w1 ++ '(' :: body)) hsp (by intro e; rw [e] at hc; revert hc; decide)
  simp only [wNspace] at hopen
  simp only [wConcat] at hcat
  simp only [wContains] at hcon
  simp [item, hgo', skipSp_cons_of_not hsp, hgen, hcat, hcon, hopen, hs, hl]

theorem cost_pos (p : S N) : 1 ≤ cost p := by
  cases p <;> simp [cost]

theorem flattenArgs_length (ps : List (P N)) : (flattenArgs ps).length = ps.length := by
  induction ps with
  | nil => rfl
  | cons p ps ih => simp [flattenArgs, ih]

theorem toPs_length (ps : List (S N)) : (S.toPs ps).length = ps.length := by
  induction ps with
  | nil => rfl
  | cons p ps ih => simp [S.toPs, ih]

/-- `normalize-space()` -/
theorem chain_nspace0 (nm : Num N) (st : Style) (π : List Nat) : ChainOK nm st π (.nspace0 : S N) := by
  apply chain_of_item nm st π _ .nspace0 rfl rfl (renderOK nm st π _ (by simp [S.wf]))
  intro f rest hr hf
  have hv := spell_map st π wordOK_nspace.1
  have hlen : 1 ≤ (st.spell π wNspace).length := by rw [spelled_length hv]; decide
  simp only [renderS, List.length_append, List.length_cons, List.length_nil] at hf
  obtain ⟨k, rfl⟩ : ∃ k, f = k + 2 := ⟨f - 2, by omega⟩
  have hp := hr.paren (sp_all st .open π)
  have hst : strip (st.sp .open π ++ ')' :: rest) = ')' :: rest :=
    strip_ws_tight (sp_all st .open π) (by decide) hr.paren'.last
  have hl : loop nm (k + 1) .args (')' :: rest) ([] : List (BE N)) [] = some ([], [], skipSp rest) :=
    loop_close nm k [] [] (by simp) (by decide) (groupClose_paren rest)
  have := item_nspace nm (k + 1) hv (sp_all st .fnName π) (body := st.sp .open π ++ ')' :: rest) (by simp) hp.nonl hst hl
  simpa [renderS, finishArgs, mkNspace, List.append_assoc] using this

/-- The argument list of a function call, from the first character of an argument to just after the `)`. -/
theorem args_ok (nm : Num N) (st : Style) (π : List Nat) : ∀ (ps : List (S N)) (k : Nat), ps ≠ [] → S.wfs nm ps →
    (∀ (j : Nat) (p : S N), ps[j]? = some p → ChainOK nm st ((k + j) :: π) p) →
    ∀ (f : Nat) (w3 rest : Str) (done : List (BE N)), w3.all isSpTab = true → RestOK rest →
    2 * (renderArgs st π k ps ++ (w3 ++ ')' :: rest)).length < f →
    ∃ cur' done', loop nm f .args (renderArgs st π k ps ++ (w3 ++ ')' :: rest)) [] done = some (cur', done', skipSp rest)
      ∧ finishArgs cur' done' = done ++ flattenArgs (S.toPs ps)
  | [], _, h, _, _ => absurd rfl h
  | [p], k, _, hw, hch => by
    intro f w3 rest done hw3 hr hf
    have hwp : S.wf nm p := by simpa [S.wfs] using hw
    have hok := renderOK nm st (k :: π) p hwp
    have hc : ChainOK nm st (k :: π) p := by simpa using hch 0 p rfl
    have hcost := hok.cost
    simp only [renderArgs, List.isEmpty_nil, if_true, List.append_nil] at hf ⊢
    simp only [List.length_append, List.length_cons] at hf
    obtain ⟨m, rfl⟩ : ∃ m, f = (m + 1) + cost p := ⟨f - cost p - 1, by omega⟩
    rw [hc (m + 1) .args (w3 ++ ')' :: rest) [] done (hr.paren hw3) (by simp only [List.length_append, List.length_cons]; omega)]
    rw [skipSp_ws_cons hw3 (by decide), List.nil_append]
    refine ⟨flatten p.toP, done, loop_close nm m _ _ (by simp) (by decide) (groupClose_paren rest), ?_⟩
    have : (flatten p.toP).isEmpty = false := by simpa using hok.flat
    simp [finishArgs, this, S.toPs, flattenArgs]
  | p :: q :: qs, k, _, hw, hch => by
    intro f w3 rest done hw3 hr hf
    have hww : S.wf nm p ∧ S.wfs nm (q :: qs) := by simpa [S.wfs] using hw
    have hwq : S.wf nm q := (by simpa [S.wfs] using hww.2 : S.wf nm q ∧ S.wfs nm qs).1
    have hok := renderOK nm st (k :: π) p hww.1
    have hokq := renderOK nm st ((k + 1) :: π) q hwq
    have hc : ChainOK nm st (k :: π) p := by simpa using hch 0 p rfl
    have hcost := hok.cost
    have hlen : 1 ≤ (renderS st (k :: π) p).length := by
      obtain ⟨c, r, hcr, _⟩ := hok.head
      rw [hcr]; simp
    have ih := args_ok nm st π (q :: qs) (k + 1) (by simp) hww.2 (by
      intro j x hx
      have := hch (j + 1) x (by simpa using hx)
      simpa [Nat.add_assoc, Nat.add_comm 1 j] using this)
    have hR : renderArgs st π k (p :: q :: qs) = renderS st (k :: π) p ++
        (st.sp .commaL (k :: π) ++ (',' :: (st.sp .commaR (k :: π) ++ renderArgs st π (k + 1) (q :: qs)))) := by
      simp [renderArgs]
    have hRq : ∃ t, renderArgs st π (k + 1) (q :: qs) = renderS st ((k + 1) :: π) q ++ t :=
      ⟨(if qs.isEmpty then [] else st.sp .commaL ((k + 1) :: π) ++ (',' :: (st.sp .commaR ((k + 1) :: π) ++
        renderArgs st π (k + 1 + 1) qs))), by simp only [renderArgs]⟩
    obtain ⟨t, ht⟩ := hRq
    rw [hR] at hf ⊢
    simp only [List.append_assoc, List.cons_append] at hf ⊢
    simp only [List.length_append, List.length_cons] at hf
    have hnlq : '\n' ∉ renderArgs st π (k + 1) (q :: qs) := renderArgs_nonl nm st π (k + 1) _ hww.2
    have htail : EndsTight (renderArgs st π (k + 1) (q :: qs) ++ (w3 ++ ')' :: rest)) := by
      rw [← List.append_assoc]
      exact (endsTight_append_cons _ ')' rest).2 hr.paren'.last
    have hrest1 : RestOK (st.sp .commaL (k :: π) ++ ',' :: (st.sp .commaR (k :: π) ++
        (renderArgs st π (k + 1) (q :: qs) ++ (w3 ++ ')' :: rest)))) := by
      apply RestOK.ws_cons (sp_all st _ _) (by decide)
      · simp only [List.mem_cons, List.mem_append, not_or]
        exact ⟨by decide, ws_nonl (sp_all st _ _), hnlq, ws_nonl hw3, by decide, hr.nonl⟩
      · apply endsTight_cons_of _ (by rw [ht]; simp [hokq.ne_nil])
        rw [ht, List.append_assoc]
        obtain ⟨c, r, hcr, _⟩ := hokq.head
        rw [hcr, List.cons_append, endsTight_append_cons, ← List.cons_append, ← hcr, ← List.append_assoc, ← ht]
        exact htail
    obtain ⟨m, rfl⟩ : ∃ m, f = (m + 1) + cost p := ⟨f - cost p - 1, by omega⟩
    rw [hc (m + 1) .args _ [] done hrest1 (by simp only [List.length_append, List.length_cons]; omega)]
    rw [skipSp_ws_cons (sp_all st _ _) (by decide), List.nil_append]
    rw [loop_comma nm m _ _ (by simp) (groupClose_head (by decide) (by decide)) (nextArg_comma _) hok.flat]
    have hsk : skipSp (st.sp .commaR (k :: π) ++ (renderArgs st π (k + 1) (q :: qs) ++ (w3 ++ ')' :: rest)))
        = renderArgs st π (k + 1) (q :: qs) ++ (w3 ++ ')' :: rest) := by
      rw [skipSp_append_ws (sp_all st _ _), ht, List.append_assoc]; exact hokq.skipSp _
    rw [hsk]
    obtain ⟨cur', done', h1, h2⟩ := ih m w3 rest (done ++ [.group (flatten p.toP)]) hw3 hr
      (by simp only [List.length_append, List.length_cons]; omega)
    exact ⟨cur', done', h1, by rw [h2]; simp [S.toPs, flattenArgs]⟩

/-- a function call whose arguments are chains is one round -/
theorem chain_fn (nm : Num N) (st : Style) (π : List Nat) (p : S N) (e : BE N) (w : Str) (ps : List (S N))
    (hw : WordOK w) (hcost : cost p = 1) (hflat : flatten p.toP = [e]) (hok : RenderOK st π p)
    (hrender : renderS st π p = st.spell π w ++ (st.sp .fnName π ++ ('(' :: (st.sp .open π ++
      (renderArgs st π 0 ps ++ (st.sp .close π ++ [')']))))))
    (hps : ps ≠ []) (hwf : S.wfs nm ps) (hch : ∀ (j : Nat) (q : S N), ps[j]? = some q → ChainOK nm st (j :: π) q)
    (hitem : ∀ (f : Nat) (v w1 body body' : Str) (cur done : List (BE N)) (rest : Str), v.map lowerChar = w →
      w1.all isSpTab = true → body ≠ [] → '\n' ∉ body → strip body = body' →
      loop nm f .args body' [] [] = some (cur, done, rest) → finishArgs cur done = flattenArgs (S.toPs ps) →
      item nm (f + 1) (v ++ (w1 ++ ('(' :: body))) = some (e, rest)) : ChainOK nm st π p := by
  apply chain_of_item nm st π p e hcost hflat hok
  intro f rest hr hf
  have hv := spell_map st π hw.1
  rw [hrender] at hf ⊢
  simp only [List.length_append, List.length_cons, List.length_nil] at hf
  obtain ⟨k, rfl⟩ : ∃ k, f = k + 1 := ⟨f - 1, by omega⟩
  obtain ⟨q, qs, rfl⟩ : ∃ q qs, ps = q :: qs := by
    cases ps with
    | nil => exact absurd rfl hps
    | cons q qs => exact ⟨q, qs, rfl⟩
  have hwq : S.wf nm q := (by simpa [S.wfs] using hwf : S.wf nm q ∧ S.wfs nm qs).1
  have hokq := renderOK nm st (0 :: π) q hwq
  obtain ⟨c, r, hcr, hcs⟩ := hokq.head
  have hclose := sp_all st .close π
  have hbody : ∃ t, renderArgs st π 0 (q :: qs) ++ (st.sp .close π ++ ')' :: rest) = c :: t := by
    refine ⟨r ++ ((if qs.isEmpty then [] else st.sp .commaL (0 :: π) ++ (',' :: (st.sp .commaR (0 :: π) ++
      renderArgs st π (0 + 1) qs))) ++ (st.sp .close π ++ ')' :: rest)), ?_⟩
    simp only [renderArgs, hcr, List.cons_append, List.append_assoc]
  obtain ⟨t, ht⟩ := hbody
  have hnl : '\n' ∉ st.sp .open π ++ (renderArgs st π 0 (q :: qs) ++ (st.sp .close π ++ ')' :: rest)) := by
    simp only [List.mem_append, List.mem_cons, not_or]
    exact ⟨ws_nonl (sp_all st _ _), renderArgs_nonl nm st π 0 _ hwf, ws_nonl hclose, by decide, hr.nonl⟩
  have hst : strip (st.sp .open π ++ (renderArgs st π 0 (q :: qs) ++ (st.sp .close π ++ ')' :: rest)))
      = renderArgs st π 0 (q :: qs) ++ (st.sp .close π ++ ')' :: rest) := by
    have hE : EndsTight (renderArgs st π 0 (q :: qs) ++ (st.sp .close π ++ ')' :: rest)) := by
      rw [← List.append_assoc]
      exact (endsTight_append_cons _ ')' rest).2 hr.paren'.last
    rw [ht] at hE ⊢
    exact strip_ws_tight (sp_all st _ _) (startOk_facts hcs).1 hE
  obtain ⟨cur', done', h1, h2⟩ := args_ok nm st π (q :: qs) 0 hps hwf (by intro j x hx; simpa using hch j x hx)
    k (st.sp .close π) rest [] hclose hr (by simp only [List.length_append, List.length_cons]; omega)
  have := hitem k _ _ _ _ cur' done' (skipSp rest) hv (sp_all st .fnName π) (by rw [ht]; simp) hnl hst h1 (by simpa using h2)
  simpa [List.append_assoc] using this

/-- `( p )` -/
theorem chain_group (nm : Num N) (st : Style) (π : List Nat) (p : S N) (hw : S.wf nm p) (hc : ChainOK nm st (0 :: π) p) :
    ChainOK nm st π (.group p) := by
  have hok := renderOK nm st (0 :: π) p hw
  apply chain_of_item nm st π _ (.group (flatten p.toP)) rfl rfl (renderOK nm st π (.group p) (by simpa [S.wf] using hw))
  intro f rest hr hf
  have hcost := hok.cost
  simp only [renderS, List.length_append, List.length_cons, List.length_nil] at hf
  obtain ⟨k, rfl⟩ : ∃ k, f = ((k + 1) + cost p) + 1 := ⟨f - 1 - cost p - 1, by omega⟩
  obtain ⟨c, r, hcr, hcs⟩ := hok.head
  have hclose := sp_all st .close π
  have hp := hr.paren hclose
  have hE : EndsTight (renderS st (0 :: π) p ++ (st.sp .close π ++ ')' :: rest)) := by
    rw [← List.append_assoc]
    exact (endsTight_append_cons _ ')' rest).2 hr.paren'.last
  have hst : strip (st.sp .open π ++ (renderS st (0 :: π) p ++ (st.sp .close π ++ ')' :: rest)))
      = renderS st (0 :: π) p ++ (st.sp .close π ++ ')' :: rest) := by
    rw [hcr] at hE ⊢
    exact strip_ws_tight (sp_all st _ _) (startOk_facts hcs).1 hE
  have hnl : '\n' ∉ st.sp .open π ++ (renderS st (0 :: π) p ++ (st.sp .close π ++ ')' :: rest)) := by
    simp only [List.mem_append, not_or]
    exact ⟨ws_nonl (sp_all st _ _), hok.nonl, by simpa [List.mem_append, not_or] using hp.nonl⟩
  have hl : loop nm ((k + 1) + cost p) .group (renderS st (0 :: π) p ++ (st.sp .close π ++ ')' :: rest)) ([] : List (BE N)) []
      = some (flatten p.toP, [], skipSp rest) := by
    rw [hc (k + 1) .group _ [] [] hp (by simp only [List.length_append, List.length_cons]; omega)]
    rw [skipSp_ws_cons hclose (by decide), List.nil_append]
    exact loop_close nm k _ _ (by simp) (by decide) (groupClose_paren rest)
  have := item_group nm _ (by simp [hok.ne_nil]) hnl hst hl
  simpa [renderS, List.append_assoc] using this

theorem needL_head {o : Op} (h : needL o = false) : ∃ c t, opText o = c :: t ∧ c ∈ followChars ∧ isWordOp o = false := by
  rcases o with (_ | _ | _ | _ | _ | _) | (_ | _ | _ | _ | _ | _) | (_ | _) <;> simp [needL] at h <;>
    exact ⟨_, _, rfl, by decide, rfl⟩

/-- `l op r` -/
theorem chain_bin (nm : Num N) (st : Style) (π : List Nat) (o : Op) (l r : S N) (hwl : S.wf nm l) (hwr : S.wf nm r)
    (hl : ChainOK nm st (0 :: π) l) (hr : ChainOK nm st (1 :: π) r) : ChainOK nm st π (.bin o l r) := by
  intro f mode rest cur done hrest hf
  have hokl := renderOK nm st (0 :: π) l hwl
  have hokr := renderOK nm st (1 :: π) r hwr
  have hcl := hokl.cost
  have hcr := hokr.cost
  have hpr := cost_pos r
  have hspelled := spellOp_spelled st π o
  obtain ⟨oc, ot, hoc, hop⟩ := plainHead_spelled_op o _ hspelled
  have hsp : isSpTab oc = false := (plainHead_facts hop).1
  have hsL : (sepOf (needL o) (st.sp .opL π)).all isSpTab = true := sepOf_all (sp_all st _ _)
  have hsR : (sepOf (needR o) (st.sp .opR π)).all isSpTab = true := sepOf_all (sp_all st _ _)
  have htext : renderS st π (.bin o l r) ++ rest = renderS st (0 :: π) l ++ (sepOf (needL o) (st.sp .opL π) ++
      (oc :: (ot ++ (sepOf (needR o) (st.sp .opR π) ++ (renderS st (1 :: π) r ++ rest))))) := by
    simp [renderS, hoc]
  have hE : EndsTight (oc :: (ot ++ (sepOf (needR o) (st.sp .opR π) ++ (renderS st (1 :: π) r ++ rest)))) := by
    rw [show oc :: (ot ++ (sepOf (needR o) (st.sp .opR π) ++ (renderS st (1 :: π) r ++ rest)))
        = (oc :: (ot ++ sepOf (needR o) (st.sp .opR π))) ++ (renderS st (1 :: π) r ++ rest) by simp]
    exact endsTight_prefix _ (by simp [hokr.ne_nil]) (endsTight_render hokr hrest)
  have hrest1 : RestOK (sepOf (needL o) (st.sp .opL π) ++
      (oc :: (ot ++ (sepOf (needR o) (st.sp .opR π) ++ (renderS st (1 :: π) r ++ rest))))) := by
    apply RestOK.ws_cons' hsL _ _ hE
    · cases hn : needL o with
      | true => exact .inl sepOf_ne_nil
      | false =>
        obtain ⟨c, t, hct, hcf, hw⟩ := needL_head hn
        right
        have : st.spellOp π o = opText o := by simp [Style.spellOp, hw]
        rw [this, hct] at hoc
        rw [← (List.cons.inj hoc).1]; exact hcf
    · rw [← List.cons_append, ← hoc]
      simp only [List.mem_append, not_or]
      exact ⟨spellOp_nonl st π o, ws_nonl hsR, hokr.nonl, hrest.nonl⟩
  rw [htext] at hf ⊢
  simp only [cost, List.length_append, List.length_cons] at hf
  have e1 : f + cost (S.bin o l r) = (f + cost r + 1) + cost l := by simp only [cost]; omega
  rw [e1, hl (f + cost r + 1) mode _ cur done hrest1 (by simp only [List.length_append, List.length_cons]; omega)]
  rw [skipSp_ws_cons hsL hsp]
  obtain ⟨k, hk⟩ : ∃ k, f + cost r = k + 1 := ⟨f + cost r - 1, by omega⟩
  have hstop : opStop o (sepOf (needR o) (st.sp .opR π) ++ (renderS st (1 :: π) r ++ rest)) := by
    obtain ⟨c, t, hct, hcs⟩ := hokr.head
    cases hw : sepOf (needR o) (st.sp .opR π) with
    | nil =>
      have hn : needR o = false := by
        cases hn : needR o with
        | false => rfl
        | true => rw [hn] at hw; exact absurd hw sepOf_ne_nil
      simp only [List.nil_append, hct, List.cons_append, opStop]
      exact ⟨(startOk_facts hcs).2.2.2.2, by simp [hn]⟩
    | cons d t' =>
      have hd : d = ' ' ∨ d = '\t' := ws_mem hsR (by rw [hw]; simp)
      simp only [List.cons_append, opStop]
      rcases hd with rfl | rfl <;> exact ⟨by decide, fun _ => by decide⟩
  have hitem : item nm (f + cost r) (oc :: (ot ++ (sepOf (needR o) (st.sp .opR π) ++ (renderS st (1 :: π) r ++ rest))))
      = some (.op o, renderS st (1 :: π) r ++ rest) := by
    rw [hk, item_plain nm k hop, ← List.cons_append, ← hoc, restTok_op nm o _ _ hspelled hstop,
      skipSp_append_ws hsR, hokr.skipSp]
  have hfacts := plainHead_facts hop
  rw [loop_item nm (f + cost r) mode _ done (by simp) (groupClose_head hsp hfacts.2.2.1) (nextArg_head hsp hfacts.2.2.2.1) hitem]
  rw [hr f mode rest _ done hrest (by simp only [List.length_append]; omega)]
  simp [S.toP, flatten, List.append_assoc]

mutual
/-- Every well-formed predicate is a chain, in every layout. -/
theorem chainOK (nm : Num N) (st : Style) : ∀ (π : List Nat) (p : S N), S.wf nm p → ChainOK nm st π p
  | π, .num l x, h => chain_num nm st π l x h
  | π, .str s, h => chain_str nm st π s h
  | π, .attr n, h => chain_attr nm st π n h
  | π, .text, _ => chain_fn0 nm st π _ .text wText wordOK_text rfl rfl (by simp [S.wf]) rfl
      (fun v w1 w2 rest hv h1 h2 => genTok_text v w1 w2 rest hv h1 h2)
  | π, .last, _ => chain_fn0 nm st π _ .last wLast wordOK_last rfl rfl (by simp [S.wf]) rfl
      (fun v w1 w2 rest hv h1 h2 => genTok_last v w1 w2 rest hv h1 h2)
  | π, .position, _ => chain_fn0 nm st π _ .position wPosition wordOK_position rfl rfl (by simp [S.wf]) rfl
      (fun v w1 w2 rest hv h1 h2 => genTok_position v w1 w2 rest hv h1 h2)
  | π, .nspace0, _ => chain_nspace0 nm st π
  | π, .group p, h => by
    have hp : S.wf nm p := by simpa [S.wf] using h
    exact chain_group nm st π p hp (chainOK nm st (0 :: π) p hp)
  | π, .bin o l r, h => by
    have hlr : S.wf nm l ∧ S.wf nm r := by simpa [S.wf] using h
    exact chain_bin nm st π o l r hlr.1 hlr.2 (chainOK nm st (0 :: π) l hlr.1) (chainOK nm st (1 :: π) r hlr.2)
  | π, .nspace1 a, h => by
    have ha : S.wf nm a := by simpa [S.wf] using h
    have hca := chainOK nm st (0 :: π) a ha
    refine chain_fn nm st π _ (.nspace1 (.group (flatten a.toP))) wNspace [a] wordOK_nspace rfl rfl (renderOK nm st π _ h)
      (by simp [renderS, renderArgs]) (by simp) (by simpa [S.wfs] using ha) ?_ ?_
    · intro j q hq
      cases j with
      | zero => simp at hq; subst hq; exact hca
      | succ j => simp at hq
    · intro f v w1 body body' cur done rest hv h1 hne hnl hst hl hfin
      have := item_nspace nm f hv h1 hne hnl hst hl
      rw [hfin] at this
      simpa [S.toPs, flattenArgs, mkNspace] using this
  | π, .contains a b, h => by
    have hab : S.wf nm a ∧ S.wf nm b := by simpa [S.wf] using h
    have hca := chainOK nm st (0 :: π) a hab.1
    have hcb := chainOK nm st (1 :: π) b hab.2
    refine chain_fn nm st π _ (.containsFn (.group (flatten a.toP)) (.group (flatten b.toP))) wContains [a, b] wordOK_contains
      rfl rfl (renderOK nm st π _ h) (by simp [renderS, renderArgs]) (by simp) (by simpa [S.wfs] using hab) ?_ ?_
    · intro j q hq
      cases j with
      | zero => simp at hq; subst hq; exact hca
      | succ j =>
        cases j with
        | zero => simp at hq; subst hq; exact hcb
        | succ j => simp at hq
    · intro f v w1 body body' cur done rest hv h1 hne hnl hst hl hfin
      have := item_contains nm f hv h1 hne hnl hst hl
      rw [hfin] at this
      simpa [S.toPs, flattenArgs, mkContains] using this
  | π, .concat args, h => by
    have hargs : 2 ≤ args.length ∧ S.wfs nm args := by simpa [S.wf] using h
    refine chain_fn nm st π _ (.concatFn (flattenArgs (S.toPs args))) wConcat args wordOK_concat rfl rfl (renderOK nm st π _ h)
      (by simp [renderS]) (by intro e; rw [e] at hargs; simp at hargs) hargs.2 (chainOKs nm st π args 0 hargs.2 |> fun hh => by
        intro j q hq; simpa using hh j q hq) ?_
    intro f v w1 body body' cur done rest hv h1 hne hnl hst hl hfin
    have := item_concat nm f hv h1 hne hnl hst hl
    rw [hfin] at this
    have hlen : ¬ (flattenArgs (S.toPs args)).length < 2 := by
      rw [flattenArgs_length, toPs_length]; omega
    simpa [mkConcat, hlen] using this
theorem chainOKs (nm : Num N) (st : Style) (π : List Nat) : ∀ (ps : List (S N)) (k : Nat), S.wfs nm ps →
    ∀ (j : Nat) (p : S N), ps[j]? = some p → ChainOK nm st ((k + j) :: π) p
  | [], _, _ => by intro j p hp; simp at hp
  | q :: qs, k, h => by
    have hh : S.wf nm q ∧ S.wfs nm qs := by simpa [S.wfs] using h
    have h1 := chainOK nm st (k :: π) q hh.1
    have h2 := chainOKs nm st π qs (k + 1) hh.2
    intro j p hp
    cases j with
    | zero => simp at hp; subst hp; simpa using h1
    | succ j =>
      have := h2 j p (by simpa using hp)
      simpa [Nat.add_assoc, Nat.add_comm 1 j] using this
end

/-- `parseBodyStringIntoBodyElements` (before constant folding) on the text of a well-formed predicate, in any
    layout: its in-order flat list. -/
theorem parseBody_render (nm : Num N) (st : Style) (π : List Nat) (p : S N) (hw : S.wf nm p) :
    parseBody nm (renderS st π p) = some (flatten p.toP) := by
  have hok := renderOK nm st π p hw
  have hc := chainOK nm st π p hw
  obtain ⟨c, r, hcr, hcs⟩ := hok.head
  have hst : strip (renderS st π p) = renderS st π p := by
    have hE := hok.last
    rw [hcr] at hE ⊢
    exact strip_tight (startOk_facts hcs).1 hE
  have hcost := hok.cost
  unfold parseBody
  rw [hst]
  obtain ⟨k, hk⟩ : ∃ k, 2 * (renderS st π p).length + 2 = (k + 1) + cost p :=
    ⟨2 * (renderS st π p).length + 2 - cost p - 1, by omega⟩
  have := hc (k + 1) .top [] [] [] RestOK.nil (by simp only [List.append_nil]; omega)
  simp only [List.append_nil, List.nil_append, skipSp_nil] at this
  rw [hk, this]
  simp [loop]

end AHP.XPath
