/-
  Helper lemmas for the C14 round trip, predicate level: the tokenizer loop (`loop` / `item` of
  AHP.Model.XPathParse) on the canonical text of a well-formed predicate delivers its in-order flat list
  (`flatten`), for every size and nesting — mutual induction over the surface syntax.
-/
import AHP.Lemmas.XPathParseRender
namespace AHP.XPath

variable {N : Type}
set_option linter.unusedSimpArgs false

/-! ### Regular-expression odds and ends -/

theorem dotPlusEnd_plain {r : Str} (hne : r ≠ []) (hn : '\n' ∉ r) : dotPlusEnd r = some r := by
  have hl : r.getLast? ≠ some '\n' := fun h => hn (List.mem_of_getLast? h)
  have hc : r.contains '\n' = false := by simpa using hn
  have he : r.isEmpty = false := by simpa using hne
  simp [dotPlusEnd, hl, hn, he]

theorem lstrip_tight {c : Char} {r : Str} (h : isWs c = false) : lstrip (c :: r) = c :: r := by
  simp [lstrip, List.dropWhile, h]

theorem rstrip_tight {s : Str} (h : EndsTight s) : rstrip s = s := by
  unfold rstrip
  cases hr : s.reverse with
  | nil => simp at hr; simp [hr]
  | cons d t =>
    have hs : s = t.reverse ++ [d] := by
      have := congrArg List.reverse hr
      simpa using this
    have hd : isWs d = false := h d (by rw [hs]; simp)
    simp [List.dropWhile, hd, hs]

theorem strip_tight {c : Char} {r : Str} (hc : isWs c = false) (h : EndsTight (c :: r)) : strip (c :: r) = c :: r := by
  unfold strip
  rw [lstrip_tight hc, rstrip_tight h]

theorem startOk_facts {c : Char} (h : startOk c = true) : isWs c = false ∧ isSpTab c = false ∧ c ≠ ')' ∧ c ≠ ',' := by
  simp only [startOk, Bool.and_eq_true, Bool.not_eq_true', bne_iff_ne, ne_eq] at h
  exact ⟨h.1.1, isWs_isSpTab h.1.1, h.1.2, h.2⟩

/-! ### One round of the loop -/

theorem loop_item (nm : Num N) (f : Nat) (mode : Mode) {s : Str} (cur done : List (BE N)) {e : BE N} {rest : Str}
    (hs : s ≠ []) (hc : groupClose s = none) (ha : nextArg s = none) (hi : item nm f s = some (e, rest)) :
    loop nm (f + 1) mode s cur done = loop nm f mode rest (cur ++ [e]) done := by
  have he : s.isEmpty = false := by simpa using hs
  simp [loop, he, hc, ha, hi]

theorem loop_close (nm : Num N) (f : Nat) {mode : Mode} {s : Str} (cur done : List (BE N)) {rest : Str}
    (hs : s ≠ []) (hm : mode ≠ .top) (hc : groupClose s = some rest) :
    loop nm (f + 1) mode s cur done = some (cur, done, rest) := by
  have he : s.isEmpty = false := by simpa using hs
  simp [loop, he, hc, hm]

theorem loop_comma (nm : Num N) (f : Nat) {s : Str} (cur done : List (BE N)) {rest : Str}
    (hs : s ≠ []) (hc : groupClose s = none) (ha : nextArg s = some rest) (hcur : cur ≠ []) :
    loop nm (f + 1) .args s cur done = loop nm f .args rest [] (done ++ [.group cur]) := by
  have he : s.isEmpty = false := by simpa using hs
  have hce : cur.isEmpty = false := by simpa using hcur
  simp [loop, he, hc, ha, hce]

theorem groupClose_paren (rest : Str) : groupClose (')' :: rest) = some (skipSp rest) := by
  simp [groupClose, skipSp, List.dropWhile, isSpTab]

theorem nextArg_comma (rest : Str) : nextArg (',' :: ' ' :: rest) = some (skipSp rest) := by
  simp [nextArg, skipSp, List.dropWhile, isSpTab]

/-! ### The text after a closing parenthesis -/

theorem RestOK.paren {rest : Str} (h : RestOK rest) : RestOK (')' :: rest) := by
  refine ⟨rfl, ?_, ?_⟩
  · simp only [List.mem_cons, not_or]
    exact ⟨by decide, h.nonl⟩
  · cases rest with
    | nil => exact endsTight_single (by decide)
    | cons d r => exact endsTight_cons_of h.last (by simp)

theorem RestOK.comma {rest : Str} (h : RestOK rest) (hne : rest ≠ []) : RestOK (',' :: ' ' :: rest) := by
  refine ⟨rfl, ?_, ?_⟩
  · simp only [List.mem_cons, not_or]
    exact ⟨by decide, by decide, h.nonl⟩
  · exact endsTight_cons_of (endsTight_cons_of h.last hne) (by simp)

theorem RestOK.append {p : S N} (hp : RenderOK p) {rest : Str} (h : RestOK rest) (c : Char) (hc : okFollow [c] = true)
    (hn : c ≠ '\n') : RestOK (c :: (renderS p ++ rest)) := by
  refine ⟨by simpa [okFollow] using hc, ?_, ?_⟩
  · simp only [List.mem_cons, List.mem_append, not_or]
    exact ⟨fun e => hn e.symm, hp.nonl, h.nonl⟩
  · apply endsTight_cons_of _ (by simp [hp.ne_nil])
    cases rest with
    | nil => simpa using hp.last
    | cons d r => exact (endsTight_append_cons _ d r).2 h.last

/-! ### Chains -/

/-- The loop, in any of its three modes, on the text of `p` followed by `rest`: after `cost p` rounds the
    elements of `p` have been appended and the loop stands at `rest`. -/
def ChainOK (nm : Num N) (p : S N) : Prop :=
  ∀ (f : Nat) (mode : Mode) (rest : Str) (cur done : List (BE N)),
    RestOK rest → 2 * (renderS p ++ rest).length < f + cost p →
    loop nm (f + cost p) mode (renderS p ++ rest) cur done
      = loop nm f mode (skipSp rest) (cur ++ flatten p.toP) done

/-- an atom (anything but `bin`) is one round -/
theorem chain_of_item (nm : Num N) (p : S N) (e : BE N) (hcost : cost p = 1) (hflat : flatten p.toP = [e]) (hok : RenderOK p)
    (hi : ∀ f rest, RestOK rest → 2 * (renderS p ++ rest).length < f + 1 →
      item nm f (renderS p ++ rest) = some (e, skipSp rest)) : ChainOK nm p := by
  intro f mode rest cur done hr hf
  rw [hcost] at hf ⊢
  rw [hflat]
  obtain ⟨c, r, hc, hcs⟩ := hok.head
  obtain ⟨_, h2, h3, h4⟩ := startOk_facts hcs
  have hi' := hi f rest hr hf
  rw [hc] at hi' ⊢
  exact loop_item nm f mode cur done (by simp) (groupClose_head h2 h3) (nextArg_head h2 h4) hi'

theorem chain_num (nm : Num N) (l : NumLit) (x : N) (h : S.wf nm (.num l x)) : ChainOK nm (.num l x) := by
  have hw : l.wf = true ∧ nm.parse l.text = some x := by simpa [S.wf] using h
  apply chain_of_item nm _ (.val (.num x)) rfl rfl (renderOK nm _ h)
  intro f rest hr hf
  obtain ⟨c, r, ht, hp, _⟩ := numLit_head l hw.1
  have : 1 ≤ f := by
    simp only [renderS, ht, List.length_append, List.length_cons] at hf
    omega
  obtain ⟨k, rfl⟩ : ∃ k, f = k + 1 := ⟨f - 1, by omega⟩
  have hres := restTok_num nm l x rest hw.1 hw.2 (numStop_of_follow hr.follow)
  simp only [renderS]
  rw [ht] at hres ⊢
  rw [List.cons_append, item_plain nm k hp]
  exact hres

theorem chain_str (nm : Num N) (s : Str) (h : S.wf nm (.str s)) : ChainOK nm (.str s) := by
  have hw : strOk s = true := by simpa [S.wf] using h
  apply chain_of_item nm _ (.val (.str s)) rfl rfl (renderOK nm _ h)
  intro f rest hr hf
  have : 1 ≤ f := by
    simp only [renderS, List.length_append, List.length_cons] at hf
    omega
  obtain ⟨k, rfl⟩ : ∃ k, f = k + 1 := ⟨f - 1, by omega⟩
  simp only [renderS, List.cons_append, List.append_assoc, List.nil_append]
  rw [item_plain nm k (plainHead_quoteOf s)]
  exact restTok_str nm s rest hw

theorem chain_attr (nm : Num N) (n : Str) (h : S.wf nm (.attr n)) : ChainOK nm (.attr n) := by
  have hw : attrNameOk n = true := by simpa [S.wf] using h
  apply chain_of_item nm _ (.attr n) rfl rfl (renderOK nm _ h)
  intro f rest hr hf
  have : 1 ≤ f := by
    simp only [renderS, List.length_append, List.length_cons] at hf
    omega
  obtain ⟨k, rfl⟩ : ∃ k, f = k + 1 := ⟨f - 1, by omega⟩
  simp only [renderS, List.cons_append]
  exact item_gen nm k (by decide) (by decide) (genTok_attr n rest hw hr.follow)

theorem chain_text (nm : Num N) : ChainOK nm (.text : S N) := by
  apply chain_of_item nm _ .text rfl rfl (renderOK nm _ (by simp [S.wf]))
  intro f rest hr hf
  have : 1 ≤ f := by
    simp only [renderS, List.length_append, List.length_cons] at hf
    omega
  obtain ⟨k, rfl⟩ : ∃ k, f = k + 1 := ⟨f - 1, by omega⟩
  exact item_gen nm k (by decide) (by decide) (genTok_text rest)

theorem chain_last (nm : Num N) : ChainOK nm (.last : S N) := by
  apply chain_of_item nm _ .last rfl rfl (renderOK nm _ (by simp [S.wf]))
  intro f rest hr hf
  have : 1 ≤ f := by
    simp only [renderS, List.length_append, List.length_cons] at hf
    omega
  obtain ⟨k, rfl⟩ : ∃ k, f = k + 1 := ⟨f - 1, by omega⟩
  exact item_gen nm k (by decide) (by decide) (genTok_last rest)

theorem chain_position (nm : Num N) : ChainOK nm (.position : S N) := by
  apply chain_of_item nm _ .position rfl rfl (renderOK nm _ (by simp [S.wf]))
  intro f rest hr hf
  have : 1 ≤ f := by
    simp only [renderS, List.length_append, List.length_cons] at hf
    omega
  obtain ⟨k, rfl⟩ : ∃ k, f = k + 1 := ⟨f - 1, by omega⟩
  exact item_gen nm k (by decide) (by decide) (genTok_position rest)

/-! ### Groups and function calls as one round -/

theorem item_group (nm : Num N) (f : Nat) {body : Str} {cur done : List (BE N)} {rest : Str}
    (hne : body ≠ []) (hn : '\n' ∉ body) (hs : strip body = body)
    (hl : loop nm f .group body [] [] = some (cur, done, rest)) :
    item nm (f + 1) ('(' :: body) = some (.group cur, rest) := by
  have : groupOpen ('(' :: body) = some body := by
    simp [groupOpen, skipSp, isSpTab, List.dropWhile, dotPlusEnd_plain hne hn]
  simp [item, this, hs, hl]

theorem item_concat (nm : Num N) (f : Nat) {body : Str} {cur done : List (BE N)} {rest : Str}
    (hne : body ≠ []) (hn : '\n' ∉ body) (hs : strip body = body)
    (hl : loop nm f .args body [] [] = some (cur, done, rest)) :
    item nm (f + 1) ('c' :: 'o' :: 'n' :: 'c' :: 'a' :: 't' :: '(' :: body) = (mkConcat (finishArgs cur done)).map (·, rest) := by
  simp [item, groupOpen, genTok, attrTok, fn0Tok, fnOpenTok, wordCI, lowerChar, skipSp, isSpTab, List.dropWhile,
    dotPlusEnd_plain hne hn, hs, hl]

theorem item_contains (nm : Num N) (f : Nat) {body : Str} {cur done : List (BE N)} {rest : Str}
    (hne : body ≠ []) (hn : '\n' ∉ body) (hs : strip body = body)
    (hl : loop nm f .args body [] [] = some (cur, done, rest)) :
    item nm (f + 1) ('c' :: 'o' :: 'n' :: 't' :: 'a' :: 'i' :: 'n' :: 's' :: '(' :: body)
      = (mkContains (finishArgs cur done)).map (·, rest) := by
  simp [item, groupOpen, genTok, attrTok, fn0Tok, fnOpenTok, wordCI, lowerChar, skipSp, isSpTab, List.dropWhile,
    dotPlusEnd_plain hne hn, hs, hl]

theorem item_nspace (nm : Num N) (f : Nat) {body : Str} {cur done : List (BE N)} {rest : Str}
    (hne : body ≠ []) (hn : '\n' ∉ body) (hs : strip body = body)
    (hl : loop nm f .args body [] [] = some (cur, done, rest)) :
    item nm (f + 1) ('n' :: 'o' :: 'r' :: 'm' :: 'a' :: 'l' :: 'i' :: 'z' :: 'e' :: '-' :: 's' :: 'p' :: 'a' :: 'c' :: 'e' :: '(' :: body)
      = (mkNspace (finishArgs cur done)).map (·, rest) := by
  simp [item, groupOpen, genTok, attrTok, fn0Tok, fnOpenTok, wordCI, lowerChar, skipSp, isSpTab, List.dropWhile,
    dotPlusEnd_plain hne hn, hs, hl]

theorem cost_pos (p : S N) : 1 ≤ cost p := by
  cases p <;> simp [cost]

theorem flattenArgs_length (ps : List (P N)) : (flattenArgs ps).length = ps.length := by
  induction ps with
  | nil => rfl
  | cons p ps ih => simp [flattenArgs, ih]

theorem toPs_length (ps : List (S N)) : (S.toPs ps).length = ps.length := by
  induction ps with
  | nil => rfl
  | cons p ps ih => simp [S.toPs, ih]

/-- `normalize-space()` -/
theorem chain_nspace0 (nm : Num N) : ChainOK nm (.nspace0 : S N) := by
  apply chain_of_item nm _ .nspace0 rfl rfl (renderOK nm _ (by simp [S.wf]))
  intro f rest hr hf
  have : 2 ≤ f := by
    simp only [renderS, List.length_append, List.length_cons] at hf
    omega
  obtain ⟨k, rfl⟩ : ∃ k, f = k + 2 := ⟨f - 2, by omega⟩
  have hp := hr.paren
  have hl : loop nm (k + 1) .args (')' :: rest) ([] : List (BE N)) [] = some ([], [], skipSp rest) :=
    loop_close nm k [] [] (by simp) (by decide) (groupClose_paren rest)
  have := item_nspace nm (k + 1) (body := ')' :: rest) (by simp) hp.nonl (strip_tight (by decide) hp.last) hl
  simpa [renderS, finishArgs, mkNspace] using this

/-- The argument list of a function call, from just after the `(` to just after the `)`. -/
theorem args_ok (nm : Num N) : ∀ (ps : List (S N)), ps ≠ [] → S.wfs nm ps → (∀ p ∈ ps, ChainOK nm p) →
    ∀ (f : Nat) (rest : Str) (done : List (BE N)), RestOK rest → 2 * (renderArgs ps ++ ')' :: rest).length < f →
    ∃ cur' done', loop nm f .args (renderArgs ps ++ ')' :: rest) [] done = some (cur', done', skipSp rest)
      ∧ finishArgs cur' done' = done ++ flattenArgs (S.toPs ps)
  | [], h, _, _ => absurd rfl h
  | [p], _, hw, hch => by
    intro f rest done hr hf
    have hwp : S.wf nm p := by simpa [S.wfs] using hw
    have hok := renderOK nm p hwp
    have hc := hch p (by simp)
    have hcost := hok.cost
    simp only [renderArgs, List.isEmpty_nil, if_true, List.append_nil] at hf ⊢
    simp only [List.length_append, List.length_cons] at hf
    obtain ⟨k, rfl⟩ : ∃ k, f = (k + 1) + cost p := ⟨f - cost p - 1, by omega⟩
    rw [hc (k + 1) .args (')' :: rest) [] done hr.paren (by simp only [List.length_append, List.length_cons]; omega)]
    rw [skipSp_cons_of_not (by decide), List.nil_append]
    refine ⟨flatten p.toP, done, loop_close nm k _ _ (by simp) (by decide) (groupClose_paren rest), ?_⟩
    have : (flatten p.toP).isEmpty = false := by simpa using hok.flat
    simp [finishArgs, this, S.toPs, flattenArgs]
  | p :: q :: qs, _, hw, hch => by
    intro f rest done hr hf
    have hww : S.wf nm p ∧ S.wfs nm (q :: qs) := by simpa [S.wfs] using hw
    have hwq : S.wf nm q := (by simpa [S.wfs] using hww.2 : S.wf nm q ∧ S.wfs nm qs).1
    have hok := renderOK nm p hww.1
    have hokq := renderOK nm q hwq
    have hc := hch p (by simp)
    have hcost := hok.cost
    have hlen : 1 ≤ (renderS p).length := by
      obtain ⟨c, r, hcr, _⟩ := hok.head
      rw [hcr]; simp
    have ih := args_ok nm (q :: qs) (by simp) hww.2 (fun x hx => hch x (List.mem_cons_of_mem _ hx))
    have hR : renderArgs (p :: q :: qs) = renderS p ++ (',' :: ' ' :: renderArgs (q :: qs)) := by
      simp [renderArgs]
    have hRq : ∃ t, renderArgs (q :: qs) = renderS q ++ t :=
      ⟨(if qs.isEmpty then [] else ',' :: ' ' :: renderArgs qs), by simp only [renderArgs]⟩
    obtain ⟨t, ht⟩ := hRq
    rw [hR] at hf ⊢
    simp only [List.append_assoc, List.cons_append] at hf ⊢
    simp only [List.length_append, List.length_cons] at hf
    have hrest1 : RestOK (',' :: ' ' :: (renderArgs (q :: qs) ++ ')' :: rest)) := by
      refine ⟨rfl, ?_, ?_⟩
      · simp only [List.mem_cons, List.mem_append, not_or]
        exact ⟨by decide, by decide, renderArgs_nonl nm _ hww.2, by decide, hr.nonl⟩
      · apply endsTight_cons_of _ (by simp)
        apply endsTight_cons_of _ (by simp)
        exact (endsTight_append_cons _ ')' rest).2 hr.paren.last
    obtain ⟨k, rfl⟩ : ∃ k, f = (k + 1) + cost p := ⟨f - cost p - 1, by omega⟩
    rw [hc (k + 1) .args _ [] done hrest1 (by simp only [List.length_append, List.length_cons]; omega)]
    rw [skipSp_cons_of_not (by decide), List.nil_append]
    rw [loop_comma nm k _ _ (by simp) (groupClose_head (by decide) (by decide)) (nextArg_comma _) hok.flat]
    have hsk : skipSp (renderArgs (q :: qs) ++ ')' :: rest) = renderArgs (q :: qs) ++ ')' :: rest := by
      rw [ht, List.append_assoc]; exact hokq.skipSp _
    rw [hsk]
    obtain ⟨cur', done', h1, h2⟩ := ih k rest (done ++ [.group (flatten p.toP)]) hr
      (by simp only [List.length_append, List.length_cons]; omega)
    exact ⟨cur', done', h1, by rw [h2]; simp [S.toPs, flattenArgs]⟩

/-- a function call whose arguments are chains is one round -/
theorem chain_fn (nm : Num N) (p : S N) (e : BE N) (w : Str) (ps : List (S N))
    (hcost : cost p = 1) (hflat : flatten p.toP = [e]) (hok : RenderOK p)
    (hrender : renderS p = w ++ '(' :: (renderArgs ps ++ [')']))
    (hps : ps ≠ []) (hw : S.wfs nm ps) (hch : ∀ q ∈ ps, ChainOK nm q)
    (hitem : ∀ (f : Nat) (body : Str) (cur done : List (BE N)) (rest : Str), body ≠ [] → '\n' ∉ body → strip body = body →
      loop nm f .args body [] [] = some (cur, done, rest) → finishArgs cur done = flattenArgs (S.toPs ps) →
      item nm (f + 1) (w ++ '(' :: body) = some (e, rest)) : ChainOK nm p := by
  apply chain_of_item nm p e hcost hflat hok
  intro f rest hr hf
  rw [hrender] at hf ⊢
  simp only [List.length_append, List.length_cons, List.length_nil] at hf
  obtain ⟨k, rfl⟩ : ∃ k, f = k + 1 := ⟨f - 1, by omega⟩
  obtain ⟨q, qs, rfl⟩ : ∃ q qs, ps = q :: qs := by
    cases ps with
    | nil => exact absurd rfl hps
    | cons q qs => exact ⟨q, qs, rfl⟩
  have hwq : S.wf nm q := (by simpa [S.wfs] using hw : S.wf nm q ∧ S.wfs nm qs).1
  have hokq := renderOK nm q hwq
  obtain ⟨c, r, hcr, hcs⟩ := hokq.head
  have hbody : ∃ t, renderArgs (q :: qs) ++ ')' :: rest = c :: t := by
    refine ⟨r ++ ((if qs.isEmpty then [] else ',' :: ' ' :: renderArgs qs) ++ ')' :: rest), ?_⟩
    simp only [renderArgs, hcr, List.cons_append, List.append_assoc]
  obtain ⟨t, ht⟩ := hbody
  have hne : renderArgs (q :: qs) ++ ')' :: rest ≠ [] := by rw [ht]; simp
  have hnl : '\n' ∉ renderArgs (q :: qs) ++ ')' :: rest := by
    simp only [List.mem_append, List.mem_cons, not_or]
    exact ⟨renderArgs_nonl nm _ hw, by decide, hr.nonl⟩
  have hst : strip (renderArgs (q :: qs) ++ ')' :: rest) = renderArgs (q :: qs) ++ ')' :: rest := by
    have hE : EndsTight (renderArgs (q :: qs) ++ ')' :: rest) := (endsTight_append_cons _ ')' rest).2 hr.paren.last
    rw [ht] at hE ⊢
    exact strip_tight (startOk_facts hcs).1 hE
  obtain ⟨cur', done', h1, h2⟩ := args_ok nm (q :: qs) hps hw hch k rest [] hr
    (by simp only [List.length_append, List.length_cons]; omega)
  have := hitem k _ cur' done' (skipSp rest) hne hnl hst h1 (by simpa using h2)
  simpa [List.append_assoc] using this

/-- `( p )` -/
theorem chain_group (nm : Num N) (p : S N) (hw : S.wf nm p) (hc : ChainOK nm p) : ChainOK nm (.group p) := by
  have hok := renderOK nm p hw
  apply chain_of_item nm _ (.group (flatten p.toP)) rfl rfl (renderOK nm (.group p) (by simpa [S.wf] using hw))
  intro f rest hr hf
  have hcost := hok.cost
  simp only [renderS, List.length_append, List.length_cons, List.length_nil] at hf
  obtain ⟨k, rfl⟩ : ∃ k, f = ((k + 1) + cost p) + 1 := ⟨f - 1 - cost p - 1, by omega⟩
  obtain ⟨c, r, hcr, hcs⟩ := hok.head
  have hp := hr.paren
  have hE : EndsTight (renderS p ++ ')' :: rest) := (endsTight_append_cons _ ')' rest).2 hp.last
  have hst : strip (renderS p ++ ')' :: rest) = renderS p ++ ')' :: rest := by
    rw [hcr] at hE ⊢
    exact strip_tight (startOk_facts hcs).1 hE
  have hnl : '\n' ∉ renderS p ++ ')' :: rest := by
    simp only [List.mem_append, not_or]
    exact ⟨hok.nonl, hp.nonl⟩
  have hl : loop nm ((k + 1) + cost p) .group (renderS p ++ ')' :: rest) ([] : List (BE N)) []
      = some (flatten p.toP, [], skipSp rest) := by
    rw [hc (k + 1) .group (')' :: rest) [] [] hp (by simp only [List.length_append, List.length_cons]; omega)]
    rw [skipSp_cons_of_not (by decide), List.nil_append]
    exact loop_close nm k _ _ (by simp) (by decide) (groupClose_paren rest)
  have := item_group nm _ (by simp [hok.ne_nil]) hnl hst hl
  simpa [renderS] using this

/-- `l op r` -/
theorem chain_bin (nm : Num N) (o : Op) (l r : S N) (hwl : S.wf nm l) (hwr : S.wf nm r)
    (hl : ChainOK nm l) (hr : ChainOK nm r) : ChainOK nm (.bin o l r) := by
  intro f mode rest cur done hrest hf
  have hokl := renderOK nm l hwl
  have hokr := renderOK nm r hwr
  have hcl := hokl.cost
  have hcr := hokr.cost
  have hpr := cost_pos r
  obtain ⟨oc, ot, hoc, hop⟩ := plainHead_opText o
  have hsp : isSpTab oc = false := (plainHead_facts hop).1
  have htext : renderS (.bin o l r) ++ rest = renderS l ++ (' ' :: (opText o ++ ' ' :: (renderS r ++ rest))) := by
    simp [renderS]
  have hrest1 : RestOK (' ' :: (opText o ++ ' ' :: (renderS r ++ rest))) := by
    refine ⟨rfl, ?_, ?_⟩
    · simp only [List.mem_cons, List.mem_append, not_or]
      refine ⟨by decide, ?_, by decide, hokr.nonl, hrest.nonl⟩
      rcases o with (_ | _ | _ | _ | _ | _) | (_ | _ | _ | _ | _ | _) | (_ | _) <;> decide
    · apply endsTight_cons_of _ (by simp)
      rw [show opText o ++ ' ' :: (renderS r ++ rest) = (opText o ++ [' ']) ++ (renderS r ++ rest) by simp]
      obtain ⟨c, t, hct, _⟩ := hokr.head
      rw [hct, List.cons_append, endsTight_append_cons, ← List.cons_append, ← hct]
      cases rest with
      | nil => simpa using hokr.last
      | cons d t' => exact (endsTight_append_cons _ d t').2 hrest.last
  rw [htext] at hf ⊢
  simp only [cost, List.length_append, List.length_cons] at hf
  have hlo : (opText o).length ≤ 3 := by
    rcases o with (_ | _ | _ | _ | _ | _) | (_ | _ | _ | _ | _ | _) | (_ | _) <;> decide
  have e1 : f + cost (S.bin o l r) = (f + cost r + 1) + cost l := by simp only [cost]; omega
  rw [e1, hl (f + cost r + 1) mode _ cur done hrest1 (by simp only [List.length_append, List.length_cons]; omega)]
  rw [skipSp_space, hoc, List.cons_append, skipSp_cons_of_not hsp]
  obtain ⟨k, hk⟩ : ∃ k, f + cost r = k + 1 := ⟨f + cost r - 1, by omega⟩
  have hitem : item nm (f + cost r) (oc :: (ot ++ ' ' :: (renderS r ++ rest))) = some (.op o, renderS r ++ rest) := by
    rw [hk, item_plain nm k hop, ← List.cons_append, ← hoc, restTok_op, hokr.skipSp]
  have hfacts := plainHead_facts hop
  rw [loop_item nm (f + cost r) mode _ done (by simp) (groupClose_head hsp hfacts.2.2.1) (nextArg_head hsp hfacts.2.2.2.1) hitem]
  rw [hr f mode rest _ done hrest (by simp only [List.length_append]; omega)]
  simp [S.toP, flatten, List.append_assoc]

mutual
/-- Every well-formed predicate is a chain. -/
theorem chainOK (nm : Num N) : ∀ (p : S N), S.wf nm p → ChainOK nm p
  | .num l x, h => chain_num nm l x h
  | .str s, h => chain_str nm s h
  | .attr n, h => chain_attr nm n h
  | .text, _ => chain_text nm
  | .last, _ => chain_last nm
  | .position, _ => chain_position nm
  | .nspace0, _ => chain_nspace0 nm
  | .group p, h => by
    have hp : S.wf nm p := by simpa [S.wf] using h
    exact chain_group nm p hp (chainOK nm p hp)
  | .bin o l r, h => by
    have hlr : S.wf nm l ∧ S.wf nm r := by simpa [S.wf] using h
    exact chain_bin nm o l r hlr.1 hlr.2 (chainOK nm l hlr.1) (chainOK nm r hlr.2)
  | .nspace1 a, h => by
    have ha : S.wf nm a := by simpa [S.wf] using h
    have hca := chainOK nm a ha
    refine chain_fn nm _ (.nspace1 (.group (flatten a.toP))) ['n', 'o', 'r', 'm', 'a', 'l', 'i', 'z', 'e', '-', 's', 'p', 'a', 'c', 'e'] [a] rfl rfl (renderOK nm _ h)
      (by simp [renderS, renderArgs]) (by simp) (by simpa [S.wfs] using ha)
      (by intro q hq; rw [List.mem_singleton.1 hq]; exact hca) ?_
    intro f body cur done rest hne hnl hst hl hfin
    have := item_nspace nm f hne hnl hst hl
    rw [hfin] at this
    simpa [S.toPs, flattenArgs, mkNspace] using this
  | .contains a b, h => by
    have hab : S.wf nm a ∧ S.wf nm b := by simpa [S.wf] using h
    have hca := chainOK nm a hab.1
    have hcb := chainOK nm b hab.2
    refine chain_fn nm _ (.containsFn (.group (flatten a.toP)) (.group (flatten b.toP))) ['c', 'o', 'n', 't', 'a', 'i', 'n', 's'] [a, b] rfl rfl (renderOK nm _ h)
      (by simp [renderS, renderArgs]) (by simp) (by simpa [S.wfs] using hab) ?_ ?_
    · intro q hq
      rcases List.mem_cons.1 hq with rfl | hq
      · exact hca
      · rw [List.mem_singleton.1 hq]; exact hcb
    · intro f body cur done rest hne hnl hst hl hfin
      have := item_contains nm f hne hnl hst hl
      rw [hfin] at this
      simpa [S.toPs, flattenArgs, mkContains] using this
  | .concat args, h => by
    have hargs : 2 ≤ args.length ∧ S.wfs nm args := by simpa [S.wf] using h
    refine chain_fn nm _ (.concatFn (flattenArgs (S.toPs args))) ['c', 'o', 'n', 'c', 'a', 't'] args rfl rfl (renderOK nm _ h)
      (by simp [renderS]) (by intro e; rw [e] at hargs; simp at hargs) hargs.2 (chainOKs nm args hargs.2) ?_
    intro f body cur done rest hne hnl hst hl hfin
    have := item_concat nm f hne hnl hst hl
    rw [hfin] at this
    have hlen : ¬ (flattenArgs (S.toPs args)).length < 2 := by
      rw [flattenArgs_length, toPs_length]; omega
    simpa [mkConcat, hlen] using this
theorem chainOKs (nm : Num N) : ∀ (ps : List (S N)), S.wfs nm ps → ∀ p ∈ ps, ChainOK nm p
  | [], _ => by intro p hp; cases hp
  | q :: qs, h => by
    have hh : S.wf nm q ∧ S.wfs nm qs := by simpa [S.wfs] using h
    have h1 := chainOK nm q hh.1
    have h2 := chainOKs nm qs hh.2
    intro p hp
    rcases List.mem_cons.1 hp with rfl | hp'
    · exact h1
    · exact h2 p hp'
end

/-- `parseBodyStringIntoBodyElements` (before constant folding) on the canonical text of a well-formed
    predicate: its in-order flat list. -/
theorem parseBody_render (nm : Num N) (p : S N) (hw : S.wf nm p) :
    parseBody nm (renderS p) = some (flatten p.toP) := by
  have hok := renderOK nm p hw
  have hc := chainOK nm p hw
  obtain ⟨c, r, hcr, hcs⟩ := hok.head
  have hst : strip (renderS p) = renderS p := by
    have hE := hok.last
    rw [hcr] at hE ⊢
    exact strip_tight (startOk_facts hcs).1 hE
  have hcost := hok.cost
  unfold parseBody
  rw [hst]
  obtain ⟨k, hk⟩ : ∃ k, 2 * (renderS p).length + 2 = (k + 1) + cost p := ⟨2 * (renderS p).length + 2 - cost p - 1, by omega⟩
  have := hc (k + 1) .top [] [] [] RestOK.nil (by simp only [List.append_nil]; omega)
  simp only [List.append_nil, List.nil_append, skipSp_nil] at this
  rw [hk, this]
  simp [loop]

end AHP.XPath
