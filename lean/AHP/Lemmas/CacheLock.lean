/-
  Helper lemmas for C15, lock level: the small-step critical sections of `Model/Cache.lean`
  (`bodyStep`/`lstep`), uninterrupted runs of one thread (`Runs`), what a whole section computes
  (`section_runs`: exactly `get` / `set`), and the lock-bit facts of one step.
-/
import AHP.Lemmas.CacheHist
namespace AHP.Cache

variable {K V : Type}

/-! ### Program points: waiting / holding / returned -/

theorem Pc.not_done_of_holds {pc : Pc K V} (h : pc.holds = true) : pc.isDone = false := by
  cases pc <;> simp_all [Pc.holds, Pc.isDone]

theorem Pc.holds_of_isRelease {pc : Pc K V} (h : pc.isRelease = true) : pc.holds = true := by
  cases pc <;> simp_all [Pc.holds, Pc.isRelease]

theorem Pc.afterRelease_isDone {pc : Pc K V} (h : pc.isRelease = true) : pc.afterRelease.isDone = true := by
  cases pc <;> simp_all [Pc.isRelease, Pc.afterRelease, Pc.isDone]

theorem Pc.afterAcquire_holds {pc : Pc K V} (h1 : pc.holds = false) (h2 : pc.isDone = false) :
    pc.afterAcquire.holds = true := by
  cases pc <;> simp_all [Pc.holds, Pc.isDone, Pc.afterAcquire]

theorem Pc.not_holds_of_isDone {pc : Pc K V} (h : pc.isDone = true) : pc.holds = false := by
  cases pc <;> simp_all [Pc.holds, Pc.isDone]

variable [DecidableEq K]

/-- A body statement leaves the thread inside the section. -/
theorem bodyStep_holds (MAX CLEAR : Nat) (c : State K V) {pc : Pc K V} (h : pc.holds = true)
    (hr : pc.isRelease = false) : (bodyStep MAX CLEAR c pc).2.holds = true := by
  cases pc with
  | getLookup k => simp only [bodyStep]; split <;> rfl
  | getRemove k v => simp only [bodyStep]; split <;> rfl
  | getAppend k v => rfl
  | setRemove k v f =>
    simp only [bodyStep]
    split
    · rfl
    · split <;> rfl
  | setStore k v => rfl
  | setAppend k => rfl
  | setCheck => simp only [bodyStep]; split <;> rfl
  | setDel ks => cases ks <;> rfl
  | setSlice => rfl
  | getRelease r => simp [Pc.isRelease] at hr
  | setRelease => simp [Pc.isRelease] at hr
  | setFail => simp [Pc.isRelease] at hr
  | getAcquire k => simp [Pc.holds] at h
  | setAcquire k v f => simp [Pc.holds] at h
  | done r x => simp [Pc.holds] at h

/-! ### One step, classified -/

/-- The four kinds of step of the locked machine. -/
inductive StepKind (MAX CLEAR : Nat) (sh : Shared K V) (pc : Pc K V) (sh' : Shared K V) (pc' : Pc K V) : Prop where
  | idle (hd : pc.isDone = true) (hs : sh' = sh) (hp : pc' = pc)
  | acquire (hh : pc.holds = false) (hd : pc.isDone = false) (hfree : sh.held = false)
      (hs : sh' = { sh with held := true }) (hp : pc' = pc.afterAcquire) (hh' : pc'.holds = true)
  | body (hh : pc.holds = true) (hr : pc.isRelease = false) (hheld : sh.held = true)
      (hs : sh' = { sh with cache := (bodyStep MAX CLEAR sh.cache pc).1 })
      (hp : pc' = (bodyStep MAX CLEAR sh.cache pc).2) (hh' : pc'.holds = true)
  | release (hr : pc.isRelease = true) (hheld : sh.held = true)
      (hs : sh' = { sh with held := false }) (hp : pc' = pc.afterRelease) (hd' : pc'.isDone = true)

theorem lstep_kind {MAX CLEAR : Nat} {sh sh' : Shared K V} {pc pc' : Pc K V}
    (h : lstep MAX CLEAR sh pc = some (sh', pc')) : StepKind MAX CLEAR sh pc sh' pc' := by
  unfold lstep lstepG at h
  by_cases hd : pc.isDone = true
  · simp only [hd, ite_true, Option.some.injEq, Prod.mk.injEq] at h
    exact .idle hd h.1.symm h.2.symm
  · have hd' : pc.isDone = false := by simpa using hd
    simp only [hd', Bool.false_eq_true, ite_false] at h
    by_cases hh : pc.holds = true
    · simp only [hh, ite_true] at h
      cases hheld : sh.held with
      | false => simp [hheld] at h
      | true =>
        have e : (true && !sh.held) = false := by rw [hheld]; rfl
        simp only [e, Bool.false_eq_true, ite_false] at h
        by_cases hr : pc.isRelease = true
        · simp only [hr, ite_true, Option.some.injEq, Prod.mk.injEq] at h
          exact .release hr hheld h.1.symm h.2.symm (h.2 ▸ Pc.afterRelease_isDone hr)
        · have hr' : pc.isRelease = false := by simpa using hr
          simp only [hr', Bool.false_eq_true, ite_false, Option.some.injEq, Prod.mk.injEq] at h
          exact .body hh hr' hheld h.1.symm h.2.symm (h.2 ▸ bodyStep_holds MAX CLEAR sh.cache hh hr')
    · have hh' : pc.holds = false := by simpa using hh
      simp only [hh', Bool.false_eq_true, ite_false] at h
      cases hheld : sh.held with
      | true => simp [hheld] at h
      | false =>
        simp only [hheld, Bool.and_false, Bool.false_eq_true, ite_false, Option.some.injEq, Prod.mk.injEq] at h
        exact .acquire hh' hd' hheld h.1.symm h.2.symm (h.2 ▸ Pc.afterAcquire_holds hh' hd')

/-- A thread inside a section, on a held lock, is never blocked. -/
theorem lstep_isSome_of_holds (MAX CLEAR : Nat) {sh : Shared K V} {pc : Pc K V} (hh : pc.holds = true)
    (hheld : sh.held = true) : (lstep MAX CLEAR sh pc).isSome = true := by
  unfold lstep lstepG
  simp only [Pc.not_done_of_holds hh, hh, hheld]
  by_cases hr : pc.isRelease = true <;> simp [hr]

/-- A waiting thread can acquire a free lock; a returned thread idles. -/
theorem lstep_isSome_of_free (MAX CLEAR : Nat) {sh : Shared K V} {pc : Pc K V} (hh : pc.holds = false)
    (hfree : sh.held = false) : (lstep MAX CLEAR sh pc).isSome = true := by
  unfold lstep lstepG
  by_cases hd : pc.isDone = true <;> simp [hd, hh, hfree]

/-- `acquire` blocks while the lock is held. -/
theorem lstep_blocked (MAX CLEAR : Nat) {sh : Shared K V} {pc : Pc K V} (hh : pc.holds = false)
    (hd : pc.isDone = false) (hheld : sh.held = true) : lstep MAX CLEAR sh pc = none := by
  unfold lstep lstepG
  simp [hd, hh, hheld]

/-! ### Uninterrupted runs of one thread -/

/-- The thread at `pc` takes zero or more consecutive steps, nobody else in between. -/
inductive Runs (MAX CLEAR : Nat) : Shared K V → Pc K V → Shared K V → Pc K V → Prop where
  | refl (sh : Shared K V) (pc : Pc K V) : Runs MAX CLEAR sh pc sh pc
  | step {sh sh1 sh2 : Shared K V} {pc pc1 pc2 : Pc K V} :
      lstep MAX CLEAR sh pc = some (sh1, pc1) → Runs MAX CLEAR sh1 pc1 sh2 pc2 → Runs MAX CLEAR sh pc sh2 pc2

theorem Runs.trans {MAX CLEAR : Nat} {sh sh1 sh2 : Shared K V} {pc pc1 pc2 : Pc K V}
    (h1 : Runs MAX CLEAR sh pc sh1 pc1) (h2 : Runs MAX CLEAR sh1 pc1 sh2 pc2) : Runs MAX CLEAR sh pc sh2 pc2 := by
  induction h1 with
  | refl => exact h2
  | step hs _ ih => exact .step hs (ih h2)

theorem Runs.single {MAX CLEAR : Nat} {sh sh1 : Shared K V} {pc pc1 : Pc K V}
    (h : lstep MAX CLEAR sh pc = some (sh1, pc1)) : Runs MAX CLEAR sh pc sh1 pc1 := .step h (.refl _ _)

/-- `Runs` is `lsteps` for some number of steps. -/
theorem runs_iff_lsteps {MAX CLEAR : Nat} {sh sh' : Shared K V} {pc pc' : Pc K V} :
    Runs MAX CLEAR sh pc sh' pc' ↔ ∃ n, lsteps MAX CLEAR n sh pc = some (sh', pc') := by
  constructor
  · intro h
    induction h with
    | refl => exact ⟨0, rfl⟩
    | step hs _ ih =>
      obtain ⟨n, hn⟩ := ih
      exact ⟨n + 1, by simp only [lsteps, hs, hn]⟩
  · rintro ⟨n, hn⟩
    induction n generalizing sh pc with
    | zero =>
      simp only [lsteps, Option.some.injEq, Prod.mk.injEq] at hn
      obtain ⟨rfl, rfl⟩ := hn
      exact .refl _ _
    | succ n ih =>
      simp only [lsteps] at hn
      cases hs : lstep MAX CLEAR sh pc with
      | none => simp [hs] at hn
      | some q =>
        obtain ⟨sh1, pc1⟩ := q
        simp only [hs] at hn
        exact .step hs (ih hn)

/-- The machine is deterministic: a run that ends in a returned thread passes through the thread's
    next step. -/
theorem Runs.after_step {MAX CLEAR : Nat} {sh sh1 sh2 : Shared K V} {pc pc1 pc2 : Pc K V}
    (h : Runs MAX CLEAR sh pc sh2 pc2) (hd2 : pc2.isDone = true) (hd : pc.isDone = false)
    (hs : lstep MAX CLEAR sh pc = some (sh1, pc1)) : Runs MAX CLEAR sh1 pc1 sh2 pc2 := by
  cases h with
  | refl => rw [hd] at hd2; cases hd2
  | step hs' h' =>
    rw [hs] at hs'
    simp only [Option.some.injEq, Prod.mk.injEq] at hs'
    obtain ⟨rfl, rfl⟩ := hs'
    exact h'

/-- A returned thread stays where it is and touches nothing. -/
theorem Runs.of_done {MAX CLEAR : Nat} {sh sh2 : Shared K V} {pc pc2 : Pc K V}
    (h : Runs MAX CLEAR sh pc sh2 pc2) (hd : pc.isDone = true) : sh2 = sh ∧ pc2 = pc := by
  induction h with
  | refl => exact ⟨rfl, rfl⟩
  | step hs _ ih =>
    cases lstep_kind hs with
    | idle _ h1 h2 => subst h1; subst h2; exact ih hd
    | acquire _ hd' => rw [hd] at hd'; cases hd'
    | body hh => rw [Pc.not_holds_of_isDone hd] at hh; cases hh
    | release hr =>
      have := Pc.holds_of_isRelease hr
      rw [Pc.not_holds_of_isDone hd] at this; cases this

/-! ### What a whole, uninterrupted section computes -/

section Sections
variable (MAX CLEAR : Nat)

theorem lstep_body {sh : Shared K V} {pc : Pc K V} (hh : pc.holds = true) (hr : pc.isRelease = false)
    (hheld : sh.held = true) :
    lstep MAX CLEAR sh pc =
      some ({ sh with cache := (bodyStep MAX CLEAR sh.cache pc).1 }, (bodyStep MAX CLEAR sh.cache pc).2) := by
  unfold lstep lstepG
  simp [Pc.not_done_of_holds hh, hh, hheld, hr]

theorem lstep_release {sh : Shared K V} {pc : Pc K V} (hr : pc.isRelease = true) (hheld : sh.held = true) :
    lstep MAX CLEAR sh pc = some ({ sh with held := false }, pc.afterRelease) := by
  unfold lstep lstepG
  simp [Pc.not_done_of_holds (Pc.holds_of_isRelease hr), Pc.holds_of_isRelease hr, hheld, hr]

theorem lstep_acquire {sh : Shared K V} {pc : Pc K V} (hh : pc.holds = false) (hd : pc.isDone = false)
    (hfree : sh.held = false) :
    lstep MAX CLEAR sh pc = some ({ sh with held := true }, pc.afterAcquire) := by
  unfold lstep lstepG
  simp [hd, hh, hfree]

/-- The `while True: try: remove(key) except ValueError: break` loop of `getCachedExpression`, statement by
    statement, ends with every occurrence removed. -/
theorem runs_getRemove (m : List (K × V)) (k : K) (v : V) :
    ∀ (fuel : Nat) (l : List K), l.length ≤ fuel →
      Runs MAX CLEAR ⟨true, ⟨m, l⟩⟩ (.getRemove k v) ⟨true, ⟨m, removeLoop fuel k l⟩⟩ (.getAppend k v) := by
  intro fuel
  induction fuel with
  | zero =>
    intro l hl
    have : l = [] := List.length_eq_zero_iff.mp (Nat.le_zero.mp hl)
    subst this
    refine .single ?_
    rw [lstep_body MAX CLEAR rfl rfl rfl]
    simp [bodyStep, removeLoop]
  | succ f ih =>
    intro l hl
    by_cases hm : k ∈ l
    · have h1 : lstep MAX CLEAR ⟨true, ⟨m, l⟩⟩ (.getRemove k v) = some (⟨true, ⟨m, l.erase k⟩⟩, .getRemove k v) := by
        rw [lstep_body MAX CLEAR rfl rfl rfl]; simp [bodyStep, hm]
      have h2 : removeLoop (f + 1) k l = removeLoop f k (l.erase k) := by simp [removeLoop, hm]
      rw [h2]
      refine .step h1 (ih _ ?_)
      rw [List.length_erase_of_mem hm]; omega
    · have h1 : lstep MAX CLEAR ⟨true, ⟨m, l⟩⟩ (.getRemove k v) = some (⟨true, ⟨m, l⟩⟩, .getAppend k v) := by
        rw [lstep_body MAX CLEAR rfl rfl rfl]; simp [bodyStep, hm]
      have h2 : removeLoop (f + 1) k l = l := by simp [removeLoop, hm]
      rw [h2]
      exact .single h1

/-- The same loop in `setCachedExpression`. -/
theorem runs_setRemove (m : List (K × V)) (k : K) (v : V) :
    ∀ (fuel : Nat) (l : List K), l.length ≤ fuel →
      Runs MAX CLEAR ⟨true, ⟨m, l⟩⟩ (.setRemove k v false) ⟨true, ⟨m, removeLoop fuel k l⟩⟩ (.setStore k v) := by
  intro fuel
  induction fuel with
  | zero =>
    intro l hl
    have : l = [] := List.length_eq_zero_iff.mp (Nat.le_zero.mp hl)
    subst this
    refine .single ?_
    rw [lstep_body MAX CLEAR rfl rfl rfl]
    simp [bodyStep, removeLoop]
  | succ f ih =>
    intro l hl
    by_cases hm : k ∈ l
    · have h1 : lstep MAX CLEAR ⟨true, ⟨m, l⟩⟩ (.setRemove k v false) = some (⟨true, ⟨m, l.erase k⟩⟩, .setRemove k v false) := by
        rw [lstep_body MAX CLEAR rfl rfl rfl]; simp [bodyStep, hm]
      have h2 : removeLoop (f + 1) k l = removeLoop f k (l.erase k) := by simp [removeLoop, hm]
      rw [h2]
      refine .step h1 (ih _ ?_)
      rw [List.length_erase_of_mem hm]; omega
    · have h1 : lstep MAX CLEAR ⟨true, ⟨m, l⟩⟩ (.setRemove k v false) = some (⟨true, ⟨m, l⟩⟩, .setStore k v) := by
        rw [lstep_body MAX CLEAR rfl rfl rfl]; simp [bodyStep, hm]
      have h2 : removeLoop (f + 1) k l = l := by simp [removeLoop, hm]
      rw [h2]
      exact .single h1

/-- The `for keyToRemove in keysToRemove: try: del … except: pass` loop, statement by statement. -/
theorem runs_setDel (r : List K) : ∀ (ks : List K) (m : List (K × V)),
    Runs MAX CLEAR ⟨true, ⟨m, r⟩⟩ (.setDel ks) ⟨true, ⟨ks.foldl dictDel m, r⟩⟩ .setSlice := by
  intro ks
  induction ks with
  | nil =>
    intro m
    refine .single ?_
    rw [lstep_body MAX CLEAR rfl rfl rfl]
    simp [bodyStep]
  | cons x ks ih =>
    intro m
    have h1 : lstep MAX CLEAR ⟨true, ⟨m, r⟩⟩ (.setDel (x :: ks)) = some (⟨true, ⟨dictDel m x, r⟩⟩, .setDel ks) := by
      rw [lstep_body MAX CLEAR rfl rfl rfl]; simp [bodyStep]
    exact .step h1 (ih _)

/-- `getCachedExpression` from `acquire` to its return, alone: the cache becomes `(get c k).1`, the
    method returns `(get c k).2`, the lock is free again. -/
theorem get_section_runs (c : State K V) (k : K) :
    Runs MAX CLEAR ⟨false, c⟩ (.getAcquire k) ⟨false, (get c k).1⟩ (.done (get c k).2 false) := by
  refine .step (lstep_acquire MAX CLEAR rfl rfl rfl) ?_
  show Runs MAX CLEAR ⟨true, c⟩ (.getLookup k) _ _
  unfold get
  cases hg : dictGet c.map k with
  | none =>
    have h1 : lstep MAX CLEAR ⟨true, c⟩ (.getLookup k) = some (⟨true, c⟩, .getRelease none) := by
      rw [lstep_body MAX CLEAR rfl rfl rfl]; simp [bodyStep, hg]
    refine .step h1 (.single ?_)
    rw [lstep_release MAX CLEAR rfl rfl]; rfl
  | some v =>
    have h1 : lstep MAX CLEAR ⟨true, c⟩ (.getLookup k) = some (⟨true, c⟩, .getRemove k v) := by
      rw [lstep_body MAX CLEAR rfl rfl rfl]; simp [bodyStep, hg]
    refine .step h1 ?_
    refine (runs_getRemove MAX CLEAR c.map k v c.recent.length c.recent (Nat.le_refl _)).trans ?_
    have h2 : lstep MAX CLEAR ⟨true, ⟨c.map, removeLoop c.recent.length k c.recent⟩⟩ (.getAppend k v)
        = some (⟨true, ⟨c.map, removeAll k c.recent ++ [k]⟩⟩, .getRelease (some v)) := by
      rw [lstep_body MAX CLEAR rfl rfl rfl]; simp [bodyStep, removeAll]
    refine .step h2 (.single ?_)
    rw [lstep_release MAX CLEAR rfl rfl]; rfl

/-- `setCachedExpression` from `acquire` to its return, alone: the cache becomes `set MAX CLEAR c k v`. -/
theorem set_section_runs (c : State K V) (k : K) (v : V) :
    Runs MAX CLEAR ⟨false, c⟩ (.setAcquire k v false) ⟨false, set MAX CLEAR c k v⟩ (.done none false) := by
  refine .step (lstep_acquire MAX CLEAR rfl rfl rfl) ?_
  show Runs MAX CLEAR ⟨true, c⟩ (.setRemove k v false) _ _
  refine (runs_setRemove MAX CLEAR c.map k v c.recent.length c.recent (Nat.le_refl _)).trans ?_
  have h1 : lstep MAX CLEAR ⟨true, ⟨c.map, removeLoop c.recent.length k c.recent⟩⟩ (.setStore k v)
      = some (⟨true, ⟨dictSet c.map k v, removeAll k c.recent⟩⟩, .setAppend k) := by
    rw [lstep_body MAX CLEAR rfl rfl rfl]; simp [bodyStep, removeAll]
  refine .step h1 ?_
  have h2 : lstep MAX CLEAR ⟨true, ⟨dictSet c.map k v, removeAll k c.recent⟩⟩ (.setAppend k)
      = some (⟨true, ⟨dictSet c.map k v, removeAll k c.recent ++ [k]⟩⟩, .setCheck) := by
    rw [lstep_body MAX CLEAR rfl rfl rfl]; simp [bodyStep]
  refine .step h2 ?_
  unfold set
  simp only
  generalize removeAll k c.recent ++ [k] = r1
  generalize dictSet c.map k v = m1
  by_cases hgt : r1.length > MAX
  · have h3 : lstep MAX CLEAR ⟨true, ⟨m1, r1⟩⟩ .setCheck
        = some (⟨true, ⟨m1, r1⟩⟩, .setDel (sliceTo r1 ((r1.length : Int) - ((MAX : Int) - (CLEAR : Int))))) := by
      rw [lstep_body MAX CLEAR rfl rfl rfl]; simp [bodyStep, hgt]
    refine .step h3 ?_
    refine (runs_setDel MAX CLEAR r1 _ m1).trans ?_
    simp only [hgt, ite_true]
    generalize List.foldl dictDel m1 (sliceTo r1 ((r1.length : Int) - ((MAX : Int) - (CLEAR : Int)))) = m2
    have h4 : lstep MAX CLEAR ⟨true, ⟨m2, r1⟩⟩ .setSlice
        = some (⟨true, ⟨m2, sliceFrom r1 (-1 * ((MAX : Int) - (CLEAR : Int)))⟩⟩, .setRelease) := by
      rw [lstep_body MAX CLEAR rfl rfl rfl]; simp [bodyStep]
    refine .step h4 (.single ?_)
    rw [lstep_release MAX CLEAR rfl rfl]; rfl
  · have h3 : lstep MAX CLEAR ⟨true, ⟨m1, r1⟩⟩ .setCheck = some (⟨true, ⟨m1, r1⟩⟩, .setRelease) := by
      rw [lstep_body MAX CLEAR rfl rfl rfl]; simp [bodyStep, hgt]
    simp only [hgt, ite_false]
    refine .step h3 (.single ?_)
    rw [lstep_release MAX CLEAR rfl rfl]; rfl

/-- The exception path: a store that fails where it first touches the data leaves the cache as it was,
    releases and re-raises. -/
theorem set_section_fails (c : State K V) (k : K) (v : V) :
    Runs MAX CLEAR ⟨false, c⟩ (.setAcquire k v true) ⟨false, c⟩ (.done none true) := by
  refine .step (lstep_acquire MAX CLEAR rfl rfl rfl) ?_
  have h1 : lstep MAX CLEAR ⟨true, c⟩ (.setRemove k v true) = some (⟨true, c⟩, .setFail) := by
    rw [lstep_body MAX CLEAR rfl rfl rfl]; simp [bodyStep]
  refine .step h1 (.single ?_)
  rw [lstep_release MAX CLEAR rfl rfl]; rfl

/-- What the operation a waiting thread is about to perform does to the cache, and what it returns. -/
def Pc.effect (MAX CLEAR : Nat) : Pc K V → State K V → State K V × Option V × Bool
  | .getAcquire k, c => ((get c k).1, (get c k).2, false)
  | .setAcquire k v false, c => (set MAX CLEAR c k v, none, false)
  | .setAcquire _ _ true, c => (c, none, true)
  | _, c => (c, none, false)

/-- Every operation, run alone from its `acquire` on any cache, is its atomic counterpart. -/
theorem section_runs {pc : Pc K V} (hh : pc.holds = false) (hd : pc.isDone = false) (c : State K V) :
    Runs MAX CLEAR ⟨false, c⟩ pc ⟨false, (Pc.effect MAX CLEAR pc c).1⟩
      (.done (Pc.effect MAX CLEAR pc c).2.1 (Pc.effect MAX CLEAR pc c).2.2) := by
  cases pc with
  | getAcquire k => exact get_section_runs MAX CLEAR c k
  | setAcquire k v f =>
    cases f
    · exact set_section_runs MAX CLEAR c k v
    · exact set_section_fails MAX CLEAR c k v
  | done r x => simp [Pc.isDone] at hd
  | _ => simp [Pc.holds] at hh

theorem effect_inv {MAX CLEAR : Nat} (hb : CLEAR < MAX) (pc : Pc K V) {c : State K V} (hi : Inv MAX c) :
    Inv MAX (Pc.effect MAX CLEAR pc c).1 := by
  cases pc with
  | getAcquire k => exact get_inv hi k
  | setAcquire k v f =>
    cases f
    · exact set_inv hb hi k v
    · exact hi
  | _ => exact hi

/-! ### From anywhere inside a section the thread gets out, whatever the shared data looks like -/

/-- "The own statements of the thread at `pc`, on data `c` and a held lock, reach a return with the lock free." -/
def Exits (c : State K V) (pc : Pc K V) : Prop :=
  ∃ c' r x, Runs MAX CLEAR ⟨true, c⟩ pc ⟨false, c'⟩ (.done r x)

theorem Exits.of_step {c c1 : State K V} {pc pc1 : Pc K V}
    (h1 : lstep MAX CLEAR ⟨true, c⟩ pc = some (⟨true, c1⟩, pc1)) (h2 : Exits MAX CLEAR c1 pc1) : Exits MAX CLEAR c pc := by
  obtain ⟨c', r, x, h⟩ := h2
  exact ⟨c', r, x, .step h1 h⟩

theorem Exits.of_runs {c c1 : State K V} {pc pc1 : Pc K V}
    (h1 : Runs MAX CLEAR ⟨true, c⟩ pc ⟨true, c1⟩ pc1) (h2 : Exits MAX CLEAR c1 pc1) : Exits MAX CLEAR c pc := by
  obtain ⟨c', r, x, h⟩ := h2
  exact ⟨c', r, x, h1.trans h⟩

theorem exits_release (c : State K V) {pc : Pc K V} (hr : pc.isRelease = true) : Exits MAX CLEAR c pc := by
  have h := lstep_release MAX CLEAR (sh := ⟨true, c⟩) hr rfl
  have hd := Pc.afterRelease_isDone hr
  cases hp : pc.afterRelease with
  | done r x => rw [hp] at h; exact ⟨c, r, x, .single h⟩
  | _ => rw [hp] at hd; simp [Pc.isDone] at hd

theorem exits_getAppend (c : State K V) (k : K) (v : V) : Exits MAX CLEAR c (.getAppend k v) :=
  .of_step MAX CLEAR (lstep_body MAX CLEAR rfl rfl rfl) (exits_release MAX CLEAR _ (pc := .getRelease (some v)) rfl)

theorem exits_getRemove (c : State K V) (k : K) (v : V) : Exits MAX CLEAR c (.getRemove k v) :=
  .of_runs MAX CLEAR (runs_getRemove MAX CLEAR c.map k v c.recent.length c.recent (Nat.le_refl _))
    (exits_getAppend MAX CLEAR _ k v)

theorem exits_getLookup (c : State K V) (k : K) : Exits MAX CLEAR c (.getLookup k) := by
  cases hg : dictGet c.map k with
  | none =>
    have h1 : lstep MAX CLEAR ⟨true, c⟩ (.getLookup k) = some (⟨true, c⟩, .getRelease none) := by
      rw [lstep_body MAX CLEAR rfl rfl rfl]; simp [bodyStep, hg]
    exact .of_step MAX CLEAR h1 (exits_release MAX CLEAR _ rfl)
  | some v =>
    have h1 : lstep MAX CLEAR ⟨true, c⟩ (.getLookup k) = some (⟨true, c⟩, .getRemove k v) := by
      rw [lstep_body MAX CLEAR rfl rfl rfl]; simp [bodyStep, hg]
    exact .of_step MAX CLEAR h1 (exits_getRemove MAX CLEAR _ k v)

theorem exits_setSlice (c : State K V) : Exits MAX CLEAR c .setSlice :=
  .of_step MAX CLEAR (lstep_body MAX CLEAR rfl rfl rfl) (exits_release MAX CLEAR _ (pc := .setRelease) rfl)

theorem exits_setDel (c : State K V) (ks : List K) : Exits MAX CLEAR c (.setDel ks) :=
  .of_runs MAX CLEAR (runs_setDel MAX CLEAR c.recent ks c.map) (exits_setSlice MAX CLEAR _)

theorem exits_setCheck (c : State K V) : Exits MAX CLEAR c .setCheck := by
  by_cases hgt : c.recent.length > MAX
  · have h3 : lstep MAX CLEAR ⟨true, c⟩ .setCheck
        = some (⟨true, c⟩, .setDel (sliceTo c.recent ((c.recent.length : Int) - ((MAX : Int) - (CLEAR : Int))))) := by
      rw [lstep_body MAX CLEAR rfl rfl rfl]; simp [bodyStep, hgt]
    exact .of_step MAX CLEAR h3 (exits_setDel MAX CLEAR _ _)
  · have h3 : lstep MAX CLEAR ⟨true, c⟩ .setCheck = some (⟨true, c⟩, .setRelease) := by
      rw [lstep_body MAX CLEAR rfl rfl rfl]; simp [bodyStep, hgt]
    exact .of_step MAX CLEAR h3 (exits_release MAX CLEAR _ rfl)

theorem exits_setAppend (c : State K V) (k : K) : Exits MAX CLEAR c (.setAppend k) :=
  .of_step MAX CLEAR (lstep_body MAX CLEAR rfl rfl rfl) (exits_setCheck MAX CLEAR _)

theorem exits_setStore (c : State K V) (k : K) (v : V) : Exits MAX CLEAR c (.setStore k v) :=
  .of_step MAX CLEAR (lstep_body MAX CLEAR rfl rfl rfl) (exits_setAppend MAX CLEAR _ k)

theorem exits_setRemove (c : State K V) (k : K) (v : V) (f : Bool) : Exits MAX CLEAR c (.setRemove k v f) := by
  cases f with
  | true =>
    have h1 : lstep MAX CLEAR ⟨true, c⟩ (.setRemove k v true) = some (⟨true, c⟩, .setFail) := by
      rw [lstep_body MAX CLEAR rfl rfl rfl]; simp [bodyStep]
    exact .of_step MAX CLEAR h1 (exits_release MAX CLEAR _ rfl)
  | false =>
    exact .of_runs MAX CLEAR (runs_setRemove MAX CLEAR c.map k v c.recent.length c.recent (Nat.le_refl _))
      (exits_setStore MAX CLEAR _ k v)

/-- Every program point inside a section, every state of the shared data: the thread's own statements
    (never blocked while it holds the lock) lead to a return with the lock released. -/
theorem exits_of_holds (c : State K V) {pc : Pc K V} (hh : pc.holds = true) : Exits MAX CLEAR c pc := by
  cases pc with
  | getLookup k => exact exits_getLookup MAX CLEAR c k
  | getRemove k v => exact exits_getRemove MAX CLEAR c k v
  | getAppend k v => exact exits_getAppend MAX CLEAR c k v
  | getRelease r => exact exits_release MAX CLEAR c rfl
  | setRemove k v f => exact exits_setRemove MAX CLEAR c k v f
  | setStore k v => exact exits_setStore MAX CLEAR c k v
  | setAppend k => exact exits_setAppend MAX CLEAR c k
  | setCheck => exact exits_setCheck MAX CLEAR c
  | setDel ks => exact exits_setDel MAX CLEAR c ks
  | setSlice => exact exits_setSlice MAX CLEAR c
  | setRelease => exact exits_release MAX CLEAR c rfl
  | setFail => exact exits_release MAX CLEAR c rfl
  | getAcquire k => simp [Pc.holds] at hh
  | setAcquire k v f => simp [Pc.holds] at hh
  | done r x => simp [Pc.holds] at hh

end Sections

end AHP.Cache
