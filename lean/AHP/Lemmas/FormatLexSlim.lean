/-
  AHP.Lemmas.FormatLexSlim — the character-level round trip of C01 for the start-tag spellings of the slim element
  class (`AdvancedTagSlim.getStartTag`: no space before `>`, and before `/>` with `slimSelfClosing`).

  `TagStyle` = how open and self-closing start tags end; `renderTokY y` / `renderToksY y` = rendering in that style
  (`renderTokY TagStyle.normal = renderTok`).  For every admissible style (`TagStyle.OK`): `lexAttrs_render_gen`,
  `lexOne_renderY`, `lexOne_render_rawY`, `lexN_renderToksY`, **`lexStrict_renderToksY`** — the strict lexer gives
  back every token list of the serialiser's image (`ListOK`, the same side condition as for the normal style).
-/
import AHP.Lemmas.LexRoundTrip
namespace AHP

/-- how a start tag may end, and whether that makes it self-closing -/
inductive Closer : Str → Bool → Prop
  | nOpen : Closer " >".toList false
  | nSc : Closer " />".toList true
  | sOpen : Closer ">".toList false
  | sSc : Closer "/>".toList true

structure TagStyle where
  o : Str     -- end of an open start tag
  s : Str     -- end of a self-closing start tag
  deriving Repr, DecidableEq

def TagStyle.OK (y : TagStyle) : Prop := Closer y.o false ∧ Closer y.s true

def TagStyle.normal : TagStyle := ⟨" >".toList, " />".toList⟩
def TagStyle.slim (ssc : Bool) : TagStyle := ⟨">".toList, if ssc then "/>".toList else " />".toList⟩

theorem TagStyle.normal_ok : TagStyle.normal.OK := ⟨.nOpen, .nSc⟩
theorem TagStyle.slim_ok (ssc : Bool) : (TagStyle.slim ssc).OK := by
  cases ssc
  · exact ⟨.sOpen, .nSc⟩
  · exact ⟨.sOpen, .sSc⟩

def renderTokY (y : TagStyle) : Token → Str
  | .start n a => ('<' :: n) ++ renderAttrs a ++ y.o
  | .startend n a => ('<' :: n) ++ renderAttrs a ++ y.s
  | t => renderTok t

def renderToksY (y : TagStyle) : List Token → Str
  | [] => []
  | t :: ts => renderTokY y t ++ renderToksY y ts

theorem renderTokY_normal (t : Token) : renderTokY TagStyle.normal t = renderTok t := by
  cases t <;> rfl

theorem renderToksY_normal (ts : List Token) : renderToksY TagStyle.normal ts = renderToks ts := by
  induction ts with
  | nil => rfl
  | cons t ts ih => simp [renderToksY, renderToks, renderTokY_normal, ih]

theorem renderToksY_append (y : TagStyle) (xs ys : List Token) :
    renderToksY y (xs ++ ys) = renderToksY y xs ++ renderToksY y ys := by
  induction xs with
  | nil => rfl
  | cons x xs ih => simp [renderToksY, ih]

/-! ### attributes followed by any closer -/

theorem closer_head (cl : Str) (sc : Bool) (h : Closer cl sc) (rest : Str) :
    ∃ t0 tr, cl ++ rest = t0 :: tr ∧ (t0 = ' ' ∨ t0 = '>' ∨ t0 = '/') ∧
      ∀ r3, (cl ++ rest).dropWhile isWs ≠ '=' :: r3 := by
  cases h with
  | nOpen => exact ⟨' ', '>' :: rest, rfl, Or.inl rfl, by intro r3; simp [List.dropWhile_cons, isWs]⟩
  | nSc => exact ⟨' ', '/' :: '>' :: rest, rfl, Or.inl rfl, by intro r3; simp [List.dropWhile_cons, isWs]⟩
  | sOpen => exact ⟨'>', rest, rfl, Or.inr (Or.inl rfl), by intro r3; simp [List.dropWhile_cons, isWs]⟩
  | sSc => exact ⟨'/', '>' :: rest, rfl, Or.inr (Or.inr rfl), by intro r3; simp [List.dropWhile_cons, isWs]⟩

theorem tail_head_gen (as : List Attr) (h : ∀ a ∈ as, AttrOK a) (cl : Str) (sc : Bool) (hc : Closer cl sc)
    (rest : Str) :
    ∃ t0 tr, renderAttrs' as ++ cl ++ rest = t0 :: tr ∧ (t0 = ' ' ∨ t0 = '>' ∨ t0 = '/') ∧
      ∀ r3, (renderAttrs' as ++ cl ++ rest).dropWhile isWs ≠ '=' :: r3 := by
  cases as with
  | nil =>
    obtain ⟨t0, tr, h1, h2, h3⟩ := closer_head cl sc hc rest
    exact ⟨t0, tr, by simpa [renderAttrs'] using h1, h2, by simpa [renderAttrs'] using h3⟩
  | cons a as =>
    obtain ⟨n, v⟩ := a
    obtain ⟨c, r, hr, hcc⟩ := renderAttr_head n v (h (n, v) (by simp))
    refine ⟨' ', c :: (r ++ (renderAttrs' as ++ cl ++ rest)), by simp [renderAttrs', hr], Or.inl rfl, ?_⟩
    intro r3
    have hstr : renderAttrs' ((n, v) :: as) ++ cl ++ rest = ' ' :: c :: (r ++ (renderAttrs' as ++ cl ++ rest)) := by
      simp [renderAttrs', hr]
    rw [hstr, dropWhile_space c _ (isWs_of_attrCh c hcc)]
    intro e
    simp at e
    exact (ne_of_attrCh c hcc).2.2 e.1

theorem sep_not_attrCh (t0 : Char) (h : t0 = ' ' ∨ t0 = '>' ∨ t0 = '/') : isAttrCh t0 = false ∧ isTagCh t0 = false := by
  rcases h with e | e | e <;> (subst e; decide)

theorem lexAttrs_render_gen (as : List Attr) (h : ∀ a ∈ as, AttrOK a) (cl : Str) (sc : Bool) (hcl : Closer cl sc)
    (rest : Str) :
    ∀ k, (renderAttrs' as ++ cl ++ rest).length < k →
      lexAttrs k (renderAttrs' as ++ cl ++ rest) = some (as, sc, rest) := by
  induction as with
  | nil =>
    intro k hk
    cases k with
    | zero => simp at hk
    | succ k =>
      cases hcl <;> simp [renderAttrs', lexAttrs, isWs]
  | cons a as ih =>
    intro k hk
    cases k with
    | zero => simp at hk
    | succ k =>
      have ha : AttrOK a := h a (by simp)
      have has : ∀ x ∈ as, AttrOK x := fun x hx => h x (by simp [hx])
      obtain ⟨t0, tr, htail, ht0, hneq⟩ := tail_head_gen as has cl sc hcl rest
      obtain ⟨n, v⟩ := a
      have hn : NameOK n := by cases v <;> simp [AttrOK] at ha <;> first | exact ha | exact ha.1
      obtain ⟨hne, hall, hlow⟩ := hn
      obtain ⟨c, n', hnn⟩ := List.exists_cons_of_ne_nil hne
      have hc : isAttrCh c = true := hall c (by rw [hnn]; simp)
      have hcw := isWs_of_attrCh c hc
      obtain ⟨hc1, hc2, _⟩ := ne_of_attrCh c hc
      have hlen : (renderAttrs' as ++ cl ++ rest).length < k := by
        simp [renderAttrs'] at hk ⊢; omega
      have ih' := ih has k hlen
      have hs1 : ∀ tl : Str, ((' ' :: (n ++ tl)) : Str).dropWhile isWs = c :: (n' ++ tl) := by
        intro tl
        rw [hnn]
        exact dropWhile_space c (n' ++ tl) hcw
      cases v with
      | none =>
        have hstr : renderAttrs' ((n, none) :: as) ++ cl ++ rest
            = ' ' :: (n ++ (renderAttrs' as ++ cl ++ rest)) := by
          simp [renderAttrs', renderAttr]
        rw [hstr]
        rw [htail] at ih' hneq ⊢
        have hsp : span isAttrCh (c :: (n' ++ t0 :: tr)) = (n, t0 :: tr) := by
          have := span_append isAttrCh n t0 tr hall (sep_not_attrCh t0 ht0).1
          rw [hnn] at this ⊢; simpa using this
        simp only [lexAttrs, hs1, hc1, hc2, if_false, hsp]
        have hl : (c :: (n' ++ t0 :: tr)).length ≠ (' ' :: (n ++ t0 :: tr)).length := by
          rw [hnn]; simp
        simp only [hl, if_false]
        have hne2 : (n.isEmpty) = false := by rw [hnn]; rfl
        simp only [hne2, Bool.false_eq_true, if_false]
        rw [ih', hlow]; rfl
      | some v =>
        simp only [AttrOK] at ha
        obtain ⟨_, hv, hnb⟩ := ha
        have hra : renderAttr (n, some v) = n ++ ('=' :: '"' :: escQ v) ++ ['"'] := by
          simp only [renderAttr]
          split
          · rename_i hcond
            simp only [Bool.and_eq_true] at hcond
            exact absurd hcond hnb
          · rfl
        have hstr : renderAttrs' ((n, some v) :: as) ++ cl ++ rest
            = ' ' :: (n ++ ('=' :: '"' :: (escQ v ++ '"' :: (renderAttrs' as ++ cl ++ rest)))) := by
          simp [renderAttrs', hra]
        rw [hstr]
        generalize htl : (renderAttrs' as ++ cl ++ rest) = tl at *
        have hsp : span isAttrCh (c :: (n' ++ '=' :: '"' :: (escQ v ++ '"' :: tl)))
            = (n, '=' :: '"' :: (escQ v ++ '"' :: tl)) := by
          have := span_append isAttrCh n '=' ('"' :: (escQ v ++ '"' :: tl)) hall attrCh_facts.2.1
          rw [hnn] at this ⊢; simpa using this
        have hl : (c :: (n' ++ '=' :: '"' :: (escQ v ++ '"' :: tl))).length
            ≠ (' ' :: (n ++ '=' :: '"' :: (escQ v ++ '"' :: tl))).length := by
          rw [hnn]; simp
        have hne2 : (n.isEmpty) = false := by rw [hnn]; rfl
        simp only [lexAttrs, hs1, hc1, hc2, if_false, hsp, hl, hne2, Bool.false_eq_true]
        have hd1 : ('=' :: '"' :: (escQ v ++ '"' :: tl)).dropWhile isWs = '=' :: '"' :: (escQ v ++ '"' :: tl) :=
          dropWhile_nows _ _ (by decide)
        have hd2 : ('"' :: (escQ v ++ '"' :: tl)).dropWhile isWs = '"' :: (escQ v ++ '"' :: tl) :=
          dropWhile_nows _ _ (by decide)
        simp only [hd1, hd2, Bool.true_or, if_true, decide_true]
        rw [readUntil_append '"' (escQ v) tl (escQ_no_quote v)]
        simp only
        rw [unesc_esc v hv _ (Nat.lt_succ_self _)]
        simp only
        rw [ih', hlow]; rfl

/-! ### one token, any style -/

theorem renderTokY_of_not_tag (y : TagStyle) (t : Token) (h1 : ∀ n a, t ≠ .start n a) (h2 : ∀ n a, t ≠ .startend n a) :
    renderTokY y t = renderTok t := by
  cases t with
  | start n a => exact absurd rfl (h1 n a)
  | startend n a => exact absurd rfl (h2 n a)
  | _ => rfl

/-- lexing a start tag written with any closer -/
theorem lexOne_tag (n : Str) (a : List Attr) (hn : TagNameOK n) (hattrs : ∀ x ∈ a, AttrOK x) (cl : Str) (sc : Bool)
    (hcl : Closer cl sc) (rest : Str) :
    ∀ k, (('<' :: n) ++ renderAttrs a ++ cl ++ rest).length < k →
      ∃ tc tr, renderAttrs' a ++ cl ++ rest = tc :: tr ∧
        span isTagCh (n ++ tc :: tr) = (n, tc :: tr) ∧
        lexAttrs k (tc :: tr) = some (a, sc, rest) ∧ tagNameEnds (tc :: tr) = true := by
  intro k hk
  obtain ⟨⟨c, cs, rfl, hca⟩, hall, hlow⟩ := hn
  obtain ⟨tc, tr, htail, htc, _⟩ := tail_head_gen a hattrs cl sc hcl rest
  have hsp : span isTagCh ((c :: cs) ++ tc :: tr) = (c :: cs, tc :: tr) :=
    span_append _ _ _ _ hall (sep_not_attrCh tc htc).2
  have hlen : (renderAttrs' a ++ cl ++ rest).length < k := by
    simp [renderAttrs_eq] at hk ⊢; omega
  have hA := lexAttrs_render_gen a hattrs cl sc hcl rest k hlen
  rw [htail] at hA
  have hte : tagNameEnds (tc :: tr) = true := by
    rcases htc with e | e | e <;> (subst e; simp [tagNameEnds, isTagEnd])
  exact ⟨tc, tr, htail, hsp, hA, hte⟩

theorem lexOne_renderY (y : TagStyle) (hy : y.OK) (t : Token) (h : TokOK t) (rest : Str) (hf : Follows t rest) :
    ∀ k, (renderTokY y t ++ rest).length < k → lexOne k (renderTokY y t ++ rest) = some ([t], rest) := by
  intro k hk
  cases t with
  | start n a =>
    obtain ⟨hn, hraw, hattrs⟩ := h
    have hk' : (('<' :: n) ++ renderAttrs a ++ y.o ++ rest).length < k := by simpa [renderTokY] using hk
    obtain ⟨tc, tr, htail, hsp, hA, hte⟩ := lexOne_tag n a hn hattrs y.o false hy.1 rest k hk'
    obtain ⟨⟨c, cs, rfl, hca⟩, hall, hlow⟩ := hn
    have hrender : renderTokY y (.start (c :: cs) a) ++ rest = '<' :: c :: (cs ++ (renderAttrs' a ++ y.o ++ rest)) := by
      simp [renderTokY, renderAttrs_eq]
    rw [hrender, htail]
    simp only [List.cons_append] at hsp
    simp [lexOne, hca, hsp, hA, hlow, hraw, hte]
  | startend n a =>
    obtain ⟨hn, hattrs⟩ := h
    have hk' : (('<' :: n) ++ renderAttrs a ++ y.s ++ rest).length < k := by simpa [renderTokY] using hk
    obtain ⟨tc, tr, htail, hsp, hA, hte⟩ := lexOne_tag n a hn hattrs y.s true hy.2 rest k hk'
    obtain ⟨⟨c, cs, rfl, hca⟩, hall, hlow⟩ := hn
    have hrender : renderTokY y (.startend (c :: cs) a) ++ rest = '<' :: c :: (cs ++ (renderAttrs' a ++ y.s ++ rest)) := by
      simp [renderTokY, renderAttrs_eq]
    rw [hrender, htail]
    simp only [List.cons_append] at hsp
    simp [lexOne, hca, hsp, hA, hlow, hte]
  | end_ n => exact lexOne_render _ h rest hf k hk
  | data s => exact lexOne_render _ h rest hf k hk
  | entity s => exact lexOne_render _ h rest hf k hk
  | charref s => exact lexOne_render _ h rest hf k hk
  | comment s => exact lexOne_render _ h rest hf k hk
  | decl s => exact lexOne_render _ h rest hf k hk
  | pi s => exact lexOne_render _ h rest hf k hk
  | unknownDecl s => exact lexOne_render _ h rest hf k hk

theorem lexOne_render_rawY (y : TagStyle) (hy : y.OK) (n : Str) (a : List Attr) (raw rest : Str)
    (hraw : isRawText n = true) (hattrs : ∀ x ∈ a, AttrOK x) (hok : RawOK n raw) :
    ∀ k, (renderTokY y (.start n a) ++ (raw ++ (renderTok (.end_ n) ++ rest))).length < k →
      lexOne k (renderTokY y (.start n a) ++ (raw ++ (renderTok (.end_ n) ++ rest))) = some (rawBlock n a raw, rest) := by
  intro k hk
  have hn := rawName_tagNameOK n hraw
  obtain ⟨hlow, hne, hlt, hw, _, _⟩ := rawName_facts n hraw
  generalize hrest' : raw ++ (renderTok (.end_ n) ++ rest) = rest' at hk ⊢
  have hrest'' : rest' = raw ++ '<' :: '/' :: (n ++ '>' :: rest) := by
    rw [← hrest']; simp [renderTok]
  have hk' : (('<' :: n) ++ renderAttrs a ++ y.o ++ rest').length < k := by simpa [renderTokY] using hk
  obtain ⟨tc, tr, htail, hsp, hA, hte⟩ := lexOne_tag n a hn hattrs y.o false hy.1 rest' k hk'
  have hlenR : rest'.length < k := by simp at hk'; omega
  have hR : lexRaw n k rest' = some (raw, rest) := by
    rw [hrest''] at hlenR ⊢
    exact lexRaw_render n raw rest hlow hne hlt hw hok k hlenR
  obtain ⟨⟨c, cs, rfl, hca⟩, hall, _⟩ := hn
  have hrender : renderTokY y (.start (c :: cs) a) ++ rest' = '<' :: c :: (cs ++ (renderAttrs' a ++ y.o ++ rest')) := by
    simp [renderTokY, renderAttrs_eq]
  rw [hrender, htail]
  simp only [List.cons_append] at hsp
  simp only [lexOne, hca, if_true, hsp, hte, Bool.not_true, hA, hlow, Bool.false_eq_true, if_false, hraw, hR, rawBlock]

/-! ### whole token lists, any style -/

theorem renderTokY_ne_nil (y : TagStyle) (t : Token) (h : TokOK t) : renderTokY y t ≠ [] := by
  cases t with
  | start n a => simp [renderTokY]
  | startend n a => simp [renderTokY]
  | end_ n => exact renderTok_ne_nil _ h
  | data s => exact renderTok_ne_nil _ h
  | entity s => exact renderTok_ne_nil _ h
  | charref s => exact renderTok_ne_nil _ h
  | comment s => exact renderTok_ne_nil _ h
  | decl s => exact renderTok_ne_nil _ h
  | pi s => exact renderTok_ne_nil _ h
  | unknownDecl s => exact renderTok_ne_nil _ h

/-- the head of a rendering does not depend on the style -/
theorem renderToksY_head (y : TagStyle) (ts : List Token) :
    (renderToksY y ts).head? = (renderToks ts).head? := by
  induction ts with
  | nil => rfl
  | cons t ts ih =>
    cases t <;> simp [renderToksY, renderToks, renderTokY, renderTok, List.head?_append, ih]

theorem follows_head (t : Token) (r1 r2 : Str) (hh : r1.head? = r2.head?) (h : Follows t r1) : Follows t r2 := by
  cases t with
  | data s =>
    simp only [Follows] at h ⊢
    split
    · rename_i hs
      simp only [hs, if_true] at h
      obtain ⟨c, r, rfl, hc⟩ := h
      cases r2 with
      | nil => simp at hh
      | cons d r' => simp at hh; subst hh; exact ⟨c, r', rfl, hc⟩
    · rename_i hs
      simp only [hs, if_false] at h
      split
      · rename_i hs2
        simp only [hs2, if_true] at h
        obtain ⟨c, r, rfl, hc⟩ := h
        cases r2 with
        | nil => simp at hh
        | cons d r' => simp at hh; subst hh; exact ⟨c, r', rfl, hc⟩
      · rename_i hs2
        simp only [hs2, if_false] at h
        rcases h with rfl | ⟨r, rfl | rfl⟩
        · cases r2 with
          | nil => left; rfl
          | cons d r' => simp at hh
        · cases r2 with
          | nil => simp at hh
          | cons d r' => simp at hh; subst hh; exact Or.inr ⟨r', Or.inl rfl⟩
        · cases r2 with
          | nil => simp at hh
          | cons d r' => simp at hh; subst hh; exact Or.inr ⟨r', Or.inr rfl⟩
  | _ => trivial

theorem renderToksY_raw (y : TagStyle) (n : Str) (a : List Attr) (raw : Str) (ts : List Token) :
    renderToksY y (rawBlock n a raw ++ ts)
      = renderTokY y (.start n a) ++ (raw ++ (renderTok (.end_ n) ++ renderToksY y ts)) := by
  unfold rawBlock
  by_cases h : raw.isEmpty = true
  · have : raw = [] := by simpa using h
    subst this
    simp [renderToksY, renderTokY]
  · simp [h, renderToksY, renderTokY, renderTok]

theorem lexN_raw_stepY (y : TagStyle) (hy : y.OK) (n : Str) (a : List Attr) (raw : Str) (ts : List Token)
    (hr : isRawText n = true) (ha : ∀ x ∈ a, AttrOK x) (hok : RawOK n raw)
    (ih : ∀ k, (renderToksY y ts).length < k → lexN k (renderToksY y ts) = some ts) :
    ∀ k, (renderToksY y (rawBlock n a raw ++ ts)).length < k →
      lexN k (renderToksY y (rawBlock n a raw ++ ts)) = some (rawBlock n a raw ++ ts) := by
  intro k hk
  rw [renderToksY_raw] at hk ⊢
  cases k with
  | zero => simp at hk
  | succ k =>
    have hone := lexOne_render_rawY y hy n a raw (renderToksY y ts) hr ha hok (k + 1) hk
    have hlen : (renderToksY y ts).length < k := by
      simp [renderTok, renderTokY] at hk; omega
    have hlt : (renderToksY y ts).length
        < (renderTokY y (.start n a) ++ (raw ++ (renderTok (.end_ n) ++ renderToksY y ts))).length := by
      simp [renderTok, renderTokY]; omega
    have hnn : (renderTokY y (.start n a) ++ (raw ++ (renderTok (.end_ n) ++ renderToksY y ts))).isEmpty = false := by
      simp [renderTokY]
    unfold lexN
    rw [hnn]
    simp only [Bool.false_eq_true, if_false, hone, hlt, if_true, ih k hlen, Option.map]

theorem lexN_renderToksY (y : TagStyle) (hy : y.OK) (ts : List Token) (h : ListOK ts) :
    ∀ k, (renderToksY y ts).length < k → lexN k (renderToksY y ts) = some ts := by
  induction h with
  | nil =>
    intro k hk
    cases k with
    | zero => simp at hk
    | succ k => simp [renderToksY, lexN]
  | @cons t ts ht hf hts ih =>
    intro k hk
    cases k with
    | zero => simp at hk
    | succ k =>
      have hne := renderTokY_ne_nil y t ht
      have hpos : 0 < (renderTokY y t).length := List.length_pos_iff.mpr hne
      have hlen : (renderToksY y ts).length < k := by
        simp [renderToksY] at hk; omega
      have hf' : Follows t (renderToksY y ts) := follows_head t _ _ (renderToksY_head y ts).symm hf
      have hone := lexOne_renderY y hy t ht (renderToksY y ts) hf' (k + 1) (by simpa [renderToksY] using hk)
      have hnn : (renderTokY y t ++ renderToksY y ts).isEmpty = false := by
        cases hr : renderTokY y t with
        | nil => exact absurd hr hne
        | cons c r => rfl
      simp [renderToksY, lexN, hnn, hone, hne, ih k hlen]
  | @raw n a raw ts hr ha hne hok _ ih =>
    have hb : rawBlock n a raw = [.start n a, .data raw, .end_ n] := by
      have : raw.isEmpty = false := by cases raw <;> simp_all
      simp [rawBlock, this]
    have := lexN_raw_stepY y hy n a raw ts hr ha hok ih
    rw [hb] at this
    exact this
  | @rawEmpty n a ts hr ha _ ih =>
    have := lexN_raw_stepY y hy n a [] ts hr ha trivial ih
    exact this

/-- **lexing the rendering of a well-formed token list, in any admissible start-tag style, gives the list back** -/
theorem lexStrict_renderToksY (y : TagStyle) (hy : y.OK) (ts : List Token) (h : ListOK ts) :
    lexStrict (renderToksY y ts) = some ts :=
  lexN_renderToksY y hy ts h _ (Nat.lt_succ_self _)

example : lexStrict (renderToksY (TagStyle.slim true)
    [.start "div".toList [("id".toList, some "a".toList), ("hidden".toList, none)], .startend "br".toList [],
     .start "script".toList [], .data "a<b".toList, .end_ "script".toList, .end_ "div".toList])
    = lexStrict "<div id=\"a\" hidden><br/><script>a<b</script></div>".toList := by decide

end AHP
