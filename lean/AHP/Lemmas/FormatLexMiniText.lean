/-
  AHP.Lemmas.FormatLexMiniText — C12b read off the OUTPUT TEXT of the mini classes: "outside pre/code/script/style
  content no text run begins or ends with a line break or contains a tab".

  Token side (independent of the formatter model): `miniCare st` — the open-element stack `st` has no pre/code element
  and its innermost element is not script/style (what the oracle `mini_text_violation` skips); `DScan st toks` — every
  data / reference token met while `miniCare` holds is a `GoodText` (neither begins nor ends with CR/LF, no tab);
  `textRuns` — the maximal runs of data and reference tokens with the stack at their position; `dscan_split`,
  `dscan_runs` read `DScan` position-wise and run-wise.

  Tree side: `DGoodL` — every data/reference block outside preserved content is a `GoodText`; it holds of what the
  mini classes write (`dgoodL_expandL`: every data block is `squeeze` of a piece; `dgoodL_mergeL`: glued blocks are
  concatenations of good texts) — adjacent data blocks in the input allowed, no `Glued` needed.  `dscanL_good`
  transfers it to the tokens.  `mini_text_core`: the document-level statement through `lexStrict`, single- and
  multi-root; the line break `getHTML` writes after the doctype line is split off by `glueDt`.
-/
import AHP.Lemmas.FormatLexPrettyMulti
namespace AHP.Fmt
open AHP

/-! ### good texts -/

/-- neither begins nor ends with a line break (CR or LF), contains no tab; the empty text included -/
def GoodText (s : Str) : Prop := HeadOK s ∧ LastOK s ∧ NoTab s

theorem goodText_nil : GoodText [] := by
  refine ⟨?_, ?_, ?_⟩
  · intro c h; simp at h
  · intro c h; simp at h
  · intro c h; simp at h

theorem goodText_squeeze (s : Str) : GoodText (squeeze s) :=
  ⟨(squeeze_ends s).1, (squeeze_ends s).2, squeeze_noTab s⟩

theorem getLast?_append_ne (a b : Str) (h : b ≠ []) : (a ++ b).getLast? = b.getLast? := by
  rw [List.getLast?_append]
  cases hb : b.getLast? with
  | none => exact absurd (List.getLast?_eq_none_iff.mp hb) h
  | some c => simp

theorem goodText_append (a b : Str) (ha : GoodText a) (hb : GoodText b) : GoodText (a ++ b) := by
  refine ⟨?_, ?_, ?_⟩
  · intro c hc
    cases a with
    | nil => exact hb.1 c (by simpa using hc)
    | cons x xs => exact ha.1 c (by simpa using hc)
  · intro c hc
    by_cases hbn : b = []
    · subst hbn
      exact ha.2.1 c (by simpa using hc)
    · rw [getLast?_append_ne _ _ hbn] at hc
      exact hb.2.1 c hc
  · intro c hc
    rcases List.mem_append.mp hc with h | h
    · exact ha.2.2 c h
    · exact hb.2.2 c h

/-- a reference `&…;` whose name has no tab is a good text -/
theorem goodText_ref (pre n : Str) (hpre : pre = ['&'] ∨ pre = ['&', '#']) (hn : ∀ c ∈ n, c ≠ '\t') :
    GoodText (pre ++ n ++ [';']) := by
  refine ⟨?_, ?_, ?_⟩
  · intro c hc
    rcases hpre with rfl | rfl <;> (simp at hc; subst hc; decide)
  · intro c hc
    rw [getLast?_append_ne _ _ (by simp)] at hc
    simp at hc; subst hc; decide
  · intro c hc
    simp only [List.mem_append, List.mem_singleton] at hc
    rcases hc with (h | h) | h
    · rcases hpre with rfl | rfl
      · simp at h; subst h; decide
      · simp at h; rcases h with rfl | rfl <;> decide
    · exact hn c h
    · subst h; decide

/-! ### the clause on a token list -/

/-- data run or reference: the tokens a text run is made of -/
def isRunTok : Token → Bool
  | .data _ => true
  | .entity _ => true
  | .charref _ => true
  | _ => false

/-- what the clause is about: no pre/code element open, and the innermost open element is not script/style -/
def miniCare (st : List Str) : Bool :=
  noPre st && !(match st with | n :: _ => isRawText n | [] => false)

/-- every data / reference token at a position where `miniCare` holds is a good text -/
def DScan : List Str → List Token → Prop
  | _, [] => True
  | st, t :: ts => (isRunTok t = true → miniCare st = true → GoodText (renderTok t)) ∧ DScan (stAfter st t) ts

/-- `DScan`, position by position -/
theorem dscan_split : ∀ (pre : List Token) (st : List Str) (t : Token) (post : List Token),
    DScan st (pre ++ t :: post) → isRunTok t = true → miniCare (tagStack st pre) = true → GoodText (renderTok t)
  | [], st, t, post, h => by
    simp only [List.nil_append, DScan] at h
    simpa [tagStack] using h.1
  | p :: pre, st, t, post, h => by
    simp only [List.cons_append, DScan] at h
    simpa [tagStack] using dscan_split pre _ t post h.2

/-- a run is closed: recorded with the stack at its position unless empty -/
def flushRun (st : List Str) (acc : Str) (r : List (List Str × Str)) : List (List Str × Str) :=
  if acc.isEmpty then r else (st, acc) :: r

def textRunsAux : List Str → Str → List Token → List (List Str × Str)
  | st, acc, [] => flushRun st acc []
  | st, acc, t :: ts =>
    if isRunTok t then textRunsAux st (acc ++ renderTok t) ts
    else flushRun st acc (textRunsAux (stAfter st t) [] ts)

/-- **the text runs of a token list**: the maximal sequences of consecutive data and reference tokens, rendered and
    glued, each with the stack of open elements at its position (a start tag pushes, an end tag pops; comments and
    tags end a run) -/
def textRuns (toks : List Token) : List (List Str × Str) := textRunsAux [] [] toks

theorem stAfter_run (st : List Str) (t : Token) (h : isRunTok t = true) : stAfter st t = st := by
  cases t <;> first | rfl | simp [isRunTok] at h

/-- `DScan`, run by run -/
theorem dscan_runs : ∀ (toks : List Token) (st : List Str) (acc : Str), DScan st toks →
    (miniCare st = true → GoodText acc) →
    ∀ p ∈ textRunsAux st acc toks, miniCare p.1 = true → GoodText p.2
  | [], st, acc, _, hacc, p, hp, hc => by
    simp only [textRunsAux, flushRun] at hp
    split at hp
    · simp at hp
    · simp only [List.mem_singleton] at hp
      subst hp
      exact hacc hc
  | t :: ts, st, acc, h, hacc, p, hp, hc => by
    simp only [DScan] at h
    simp only [textRunsAux] at hp
    by_cases hr : isRunTok t = true
    · simp only [hr, if_true] at hp
      rw [stAfter_run st t hr] at h
      exact dscan_runs ts st _ h.2 (fun hcare => goodText_append _ _ (hacc hcare) (h.1 hr hcare)) p hp hc
    · simp only [hr, Bool.false_eq_true, if_false, flushRun] at hp
      split at hp
      · exact dscan_runs ts _ [] h.2 (fun _ => goodText_nil) p hp hc
      · rcases List.mem_cons.mp hp with e | e
        · subst e
          exact hacc hc
        · exact dscan_runs ts _ [] h.2 (fun _ => goodText_nil) p e hc

/-! ### the same clause on a block list -/

mutual
/-- every data / reference block outside preserved content is a good text -/
def DGood : FNode → Prop
  | .tok t => isRunTok t = true → GoodText (renderTok t)
  | .elem m _ _ kk => isPreserve m = true ∨ DGoodL kk
def DGoodL : List FNode → Prop
  | [] => True
  | k :: ks => DGood k ∧ DGoodL ks
end

theorem dgoodL_append (xs ys : List FNode) : DGoodL (xs ++ ys) ↔ DGoodL xs ∧ DGoodL ys := by
  induction xs with
  | nil => simp [DGoodL]
  | cons x xs ih => simp [DGoodL, ih, and_assoc]

theorem dgoodL_dataTok (s : Str) (h : GoodText s) : DGoodL (dataTok s) := by
  unfold dataTok
  split
  · trivial
  · exact ⟨fun _ => h, trivial⟩

theorem dgoodL_pushTok (t : Token) (r : List FNode) (ht : DGood (.tok t)) (hr : DGoodL r) : DGoodL (pushTok t r) := by
  unfold pushTok
  split
  · rename_i a b r'
    simp only [DGoodL, DGood] at ht hr ⊢
    exact ⟨fun _ => goodText_append a b (ht rfl) (hr.1 rfl), hr.2⟩
  · exact ⟨ht, hr⟩

mutual
theorem dgood_merge : ∀ u : FNode, DGood u → DGood (merge u)
  | .tok t, h => by simpa [merge] using h
  | .elem m st sc kk, h => by
    simp only [DGood] at h
    simp only [merge, DGood]
    rcases h with h | h
    · exact Or.inl h
    · exact Or.inr (dgoodL_mergeL kk h)
theorem dgoodL_mergeL : ∀ ks : List FNode, DGoodL ks → DGoodL (mergeL ks)
  | [], _ => by simp [mergeL, DGoodL]
  | .tok t :: ks, h => by
    simp only [DGoodL] at h
    simp only [mergeL]
    exact dgoodL_pushTok t _ h.1 (dgoodL_mergeL ks h.2)
  | .elem m st sc kk :: ks, h => by
    simp only [DGoodL] at h
    have h1 := dgood_merge (.elem m st sc kk) h.1
    simp only [merge] at h1
    simp only [mergeL, DGoodL]
    exact ⟨h1, dgoodL_mergeL ks h.2⟩
end

theorem entCh_noTab (n : Str) (h : ∀ c ∈ n, isEntCh c = true) : ∀ c ∈ n, c ≠ '\t' := by
  intro c hc e
  subst e
  exact absurd (h _ hc) (by decide)

theorem charref_noTab (n : Str) (h : TokOK (.charref n)) : ∀ c ∈ n, c ≠ '\t' := by
  intro c hc e
  subst e
  rcases h with ⟨_, h⟩ | ⟨x, hs, rfl, hx, _, h⟩
  · exact absurd (h _ hc) (by decide)
  · rcases List.mem_cons.mp hc with e | e
    · rcases hx with hx | hx <;> (rw [hx] at e; exact absurd e (by decide))
    · exact absurd (h _ e) (by decide)

/-- a reference block of a strict tree is a good text -/
theorem dgood_ref (t : Token) (h : (FNode.tok t).Strict) (hd : isData t = false) : DGood (.tok t) := by
  simp only [FNode.Strict] at h
  simp only [DGood]
  intro hr
  cases t with
  | entity n =>
    have := goodText_ref ['&'] n (Or.inl rfl) (entCh_noTab n h.1.2)
    simpa [renderTok] using this
  | charref n =>
    have := goodText_ref ['&', '#'] n (Or.inr rfl) (charref_noTab n h.1)
    simpa [renderTok] using this
  | data s => simp [isData] at hd
  | _ => simp [isRunTok] at hr

mutual
/-- what the mini classes write in place of a block outside preserved content obeys the clause -/
theorem dgoodL_expand (cfg : Cfg) (hm : cfg.mini = true) (c : Ctx) (p : Str) (hc : c.inPre = 0)
    (hp : isPreserve p = false) : ∀ u : FNode, u.Strict → DGoodL (expand cfg c p u)
  | .tok t, h => by
    simp only [expand]
    by_cases hd : isData t = true
    · cases t with
      | data s =>
        simp only [expandTok, dataRule_sq c p s hc hp]
        exact dgoodL_dataTok _ (goodText_squeeze s)
      | _ => simp [isData] at hd
    · have hd' : isData t = false := by simpa using hd
      have he : expandTok c p t = [.tok t] := by
        cases t <;> first | rfl | simp [isData] at hd'
      rw [he]
      exact ⟨dgood_ref t h hd', trivial⟩
  | .elem m st sc kk, h => by
    simp only [FNode.Strict] at h
    obtain ⟨_, _, _, _, _, hk⟩ := h
    simp only [expand, indentAt_mini cfg hm, endInd_nil, dataTok, List.isEmpty_nil, if_true, List.nil_append,
      List.append_nil, DGoodL, DGood, and_true]
    by_cases hpm : isPreserve m = true
    · exact Or.inl hpm
    · right
      cases sc with
      | true => trivial
      | false =>
        simp only [Bool.false_eq_true, if_false]
        have hpm' : isPreserve m = false := by simpa using hpm
        have hpre : isPre m = false := by
          cases h : isPre m with
          | false => rfl
          | true => rw [pre_preserve m h] at hpm'; cases hpm'
        have hr : isRawText m = false := by
          cases h : isRawText m with
          | false => rfl
          | true => rw [rawName_preserve m h] at hpm'; cases hpm'
        simp only [hr, Bool.false_eq_true, if_false] at hk
        exact dgoodL_expandL cfg hm (c.push m) m (push_inPre_zero c m hc hpre) hpm' kk hk
theorem dgoodL_expandL (cfg : Cfg) (hm : cfg.mini = true) (c : Ctx) (p : Str) (hc : c.inPre = 0)
    (hp : isPreserve p = false) : ∀ ks : List FNode, StrictL ks → DGoodL (expandL cfg c p ks)
  | [], _ => trivial
  | k :: ks, h => by
    simp only [StrictL] at h
    simp only [expandL]
    rw [dgoodL_append]
    exact ⟨dgoodL_expand cfg hm c p hc hp k h.1, dgoodL_expandL cfg hm c p hc hp ks h.2⟩
end

/-! ### from blocks to tokens -/

theorem miniCare_cons (m : Str) (st : List Str) (hp : isPreserve m = false) (h : miniCare st = true) :
    miniCare (m :: st) = true := by
  have hpre : isPre m = false := by
    cases h' : isPre m with
    | false => rfl
    | true => rw [pre_preserve m h'] at hp; cases hp
  have hr : isRawText m = false := by
    cases h' : isRawText m with
    | false => rfl
    | true => rw [rawName_preserve m h'] at hp; cases hp
  simp only [miniCare, Bool.and_eq_true, Bool.not_eq_true'] at h ⊢
  exact ⟨by rw [noPre_cons, hpre, h.1]; rfl, hr⟩

theorem miniCare_noPre (st : List Str) (h : noPre st = false) : miniCare st = false := by
  simp [miniCare, h]

theorem miniCare_raw (m : Str) (st : List Str) (h : isRawText m = true) : miniCare (m :: st) = false := by
  simp [miniCare, h]

mutual
/-- below pre/code nothing is claimed -/
theorem dscanN_pre : ∀ u : FNode, u.TextLike → ∀ (st : List Str) (rest : List Token), noPre st = false →
    DScan st rest → DScan st (u.toks ++ rest)
  | .tok t, h, st, rest, hp, hr => by
    simp only [FNode.TextLike] at h
    have h2 := (layoutAt_textLike [] st [] t h).2
    simp only [FNode.toks, List.cons_append, List.nil_append, DScan, h2]
    exact ⟨fun _ hc => by rw [miniCare_noPre st hp] at hc; exact absurd hc (by decide), hr⟩
  | .elem m sto sc kk, h, st, rest, hp, hr => by
    simp only [FNode.TextLike] at h
    cases sc with
    | true =>
      simp only [FNode.toks, if_true, List.cons_append, List.nil_append, DScan, stAfter]
      exact ⟨fun hh => by simp [isRunTok] at hh, hr⟩
    | false =>
      simp only [FNode.toks, Bool.false_eq_true, if_false, List.cons_append, List.append_assoc, DScan, stAfter]
      refine ⟨fun hh => by simp [isRunTok] at hh, ?_⟩
      have hp' : noPre (m :: st) = false := by rw [noPre_cons, hp]; simp
      apply dscanL_pre kk h (m :: st) _ hp'
      simp only [List.nil_append, List.cons_append, DScan, stAfter, List.tail_cons]
      exact ⟨fun hh => by simp [isRunTok] at hh, hr⟩
theorem dscanL_pre : ∀ ks : List FNode, TextLikeL ks → ∀ (st : List Str) (rest : List Token), noPre st = false →
    DScan st rest → DScan st (ftoksL ks ++ rest)
  | [], _, st, rest, _, hr => by simpa [ftoksL] using hr
  | k :: ks, h, st, rest, hp, hr => by
    simp only [TextLikeL] at h
    simp only [ftoksL, List.append_assoc]
    exact dscanN_pre k h.1 st _ hp (dscanL_pre ks h.2 st rest hp hr)
end

/-- directly inside script/style nothing is claimed (the content is data only) -/
theorem dscanL_raw (m : Str) (hm : isRawText m = true) (st : List Str) (rest : List Token) :
    ∀ (ks : List FNode) (raw : Str), rawText ks = some raw → DScan (m :: st) rest → DScan (m :: st) (ftoksL ks ++ rest)
  | [], _, _, hr => by simpa [ftoksL] using hr
  | k :: ks, raw, h, hr => by
    obtain ⟨s, r', rfl, _, hr', _⟩ := rawText_cons k ks raw h
    simp only [ftoksL, FNode.toks, List.cons_append, List.nil_append, DScan, stAfter]
    exact ⟨fun _ hc => by rw [miniCare_raw m st hm] at hc; exact absurd hc (by decide), dscanL_raw m hm st rest ks r' hr' hr⟩

mutual
theorem dscanN_good : ∀ u : FNode, u.Strict → DGood u → ∀ (st : List Str) (rest : List Token),
    miniCare st = true → DScan st rest → DScan st (u.toks ++ rest)
  | .tok t, h, hg, st, rest, _, hr => by
    simp only [FNode.Strict] at h
    simp only [DGood] at hg
    have h2 := (layoutAt_textLike [] st [] t h.2.2).2
    simp only [FNode.toks, List.cons_append, List.nil_append, DScan, h2]
    exact ⟨fun hrun _ => hg hrun, hr⟩
  | .elem m sto sc kk, h, hg, st, rest, hc, hr => by
    have htl := strict_textLike _ h
    simp only [FNode.TextLike] at htl
    simp only [FNode.Strict] at h
    obtain ⟨_, _, _, _, _, hk⟩ := h
    simp only [DGood] at hg
    cases sc with
    | true =>
      simp only [FNode.toks, if_true, List.cons_append, List.nil_append, DScan, stAfter]
      exact ⟨fun hh => by simp [isRunTok] at hh, hr⟩
    | false =>
      simp only [FNode.toks, Bool.false_eq_true, if_false, List.cons_append, List.append_assoc, DScan, stAfter]
      refine ⟨fun hh => by simp [isRunTok] at hh, ?_⟩
      have hend : DScan (m :: st) (Token.end_ m :: rest) := by
        simp only [DScan, stAfter, List.tail_cons]
        exact ⟨fun hh => by simp [isRunTok] at hh, hr⟩
      by_cases hraw : isRawText m = true
      · simp only [hraw, if_true] at hk
        obtain ⟨raw, hrawt, _⟩ := hk
        simpa using dscanL_raw m hraw st _ kk raw hrawt hend
      · by_cases hpre : isPre m = true
        · have hp' : noPre (m :: st) = false := by rw [noPre_cons, hpre]; simp
          simpa using dscanL_pre kk htl (m :: st) _ hp' hend
        · have hpm : isPreserve m = false := preserve_false_of m (by simpa using hpre) (by simpa using hraw)
          simp only [hraw] at hk
          rcases hg with hg | hg
          · rw [hpm] at hg; cases hg
          · simpa using dscanL_good kk hk hg (m :: st) _ (miniCare_cons m st hpm hc) hend
theorem dscanL_good : ∀ ks : List FNode, StrictL ks → DGoodL ks → ∀ (st : List Str) (rest : List Token),
    miniCare st = true → DScan st rest → DScan st (ftoksL ks ++ rest)
  | [], _, _, st, rest, _, hr => by simpa [ftoksL] using hr
  | k :: ks, h, hg, st, rest, hc, hr => by
    simp only [StrictL] at h
    simp only [DGoodL] at hg
    simp only [ftoksL, List.append_assoc]
    exact dscanN_good k h.1 hg.1 st _ hc (dscanL_good ks h.2 hg.2 st rest hc hr)
end

/-! ### the document -/

/-- the line break `getHTML` writes after the doctype line, in front of the tokens of the document's blocks: glued to a
    leading data token, a data token of its own otherwise -/
def glueDt (d : Str) : List Token → List Token
  | .data b :: r => .data (d ++ b) :: r
  | r => if d.isEmpty then r else .data d :: r

theorem ftoksL_pushData (d : Str) (B : List FNode) (hB : TextLikeL B) : ftoksL (pushData d B) = glueDt d (ftoksL B) := by
  cases B with
  | nil =>
    rw [pushData_empty]
    unfold dataTok glueDt
    split <;> simp [ftoksL, FNode.toks]
  | cons k r =>
    cases k with
    | elem n st sc kids =>
      rw [pushData_elem]
      unfold dataTok
      cases sc <;> (simp only [ftoksL, FNode.toks, glueDt]; split <;> simp [ftoksL, FNode.toks])
    | tok t =>
      simp only [TextLikeL, FNode.TextLike] at hB
      cases t with
      | data b => rw [pushData_data]; simp [ftoksL, FNode.toks, glueDt]
      | entity e =>
        rw [pushData_tok _ _ rfl]; unfold dataTok
        simp only [ftoksL, FNode.toks, glueDt]; split <;> simp [ftoksL, FNode.toks]
      | charref e =>
        rw [pushData_tok _ _ rfl]; unfold dataTok
        simp only [ftoksL, FNode.toks, glueDt]; split <;> simp [ftoksL, FNode.toks]
      | comment e =>
        rw [pushData_tok _ _ rfl]; unfold dataTok
        simp only [ftoksL, FNode.toks, glueDt]; split <;> simp [ftoksL, FNode.toks]
      | decl d => simp [isTextLike] at hB
      | unknownDecl d => simp [isTextLike] at hB
      | pi d => simp [isTextLike] at hB
      | start n a => simp [isTextLike] at hB
      | startend n a => simp [isTextLike] at hB
      | end_ n => simp [isTextLike] at hB

/-- **C12b on the output text, token form.**  Mini class; a token sequence whose plain-parser tree is a strict document
    (single- or multi-root).  The output text lexes to the doctype declaration followed by `glueDt (the doctype's line
    break) body`, and every data / reference token of `body` outside pre/code/script/style content is a good text. -/
theorem mini_text_core (cfg : Cfg) (hm : cfg.mini = true) (hi : IndentWS cfg) (toks : List Tok)
    (h : NoWrapperStart toks) (ps : St) (hp : Plain.feed toks = .ok ps)
    (n : Str) (st : AStore) (sc : Bool) (kids : List FNode)
    (hroot : ps.root = some (FNode.elem n st sc kids).toNode) (hw : WrapperOK n st sc kids)
    (hs : (FNode.elem n st sc kids).Strict) (hdt : DtOK ps.doctype) :
    ∃ out body, format cfg toks = .ok out ∧
      lexStrict out = some (dtToks ps.doctype ++ glueDt (dtText ps.doctype) body) ∧ DScan [] body := by
  have htext := format_text cfg toks h ps hp n st sc kids hroot hw hs
  by_cases hn : n = wrapper
  · obtain ⟨hst, hsc, hmulti⟩ := hw hn
    subst hn; subst hsc; subst hst
    have hk := strictL_of_wrapper {} false kids hs
    have hlex := doc_lex_multi cfg hi ps.doctype kids hk hdt
    have hdoc : docToks cfg ps.doctype wrapper {} false kids = outToksM cfg ps.doctype kids := by
      unfold docToks; simp
    rw [hdoc] at htext
    have hB : StrictL (MX cfg ⟨0, 0⟩ wrapper [] kids) := by
      unfold MX
      apply strict_mergeL
      simp only [dataTok, List.isEmpty_nil, if_true, List.append_nil]
      exact strict_expandL cfg hi _ _ kids hk
    refine ⟨_, ftoksL (MX cfg ⟨0, 0⟩ wrapper [] kids), htext, ?_, ?_⟩
    · rw [hlex]
      unfold outToksM
      rw [outBlocksM_eq, ftoksL_pushData _ _ (strictL_textLike _ hB)]
    · have hg : DGoodL (MX cfg ⟨0, 0⟩ wrapper [] kids) := by
        unfold MX
        apply dgoodL_mergeL
        simp only [dataTok, List.isEmpty_nil, if_true, List.append_nil]
        exact dgoodL_expandL cfg hm ⟨0, 0⟩ wrapper rfl preserve_wrapper kids hk
      have := dscanL_good _ hB hg [] [] rfl trivial
      simpa using this
  · have hlex := doc_lex cfg hi ps.doctype _ hs hdt
    have hdoc : docToks cfg ps.doctype n st sc kids = outToks cfg ps.doctype (.elem n st sc kids) := by
      unfold docToks; simp [hn]
    rw [hdoc] at htext
    have hstrict := strict_outBlocks cfg hi ps.doctype _ hs
    rw [outBlocks_eq, strictL_append] at hstrict
    have hroot' : (outRoot cfg n st sc kids).Strict := hstrict.2.1
    refine ⟨_, (outRoot cfg n st sc kids).toks, htext, ?_, ?_⟩
    · rw [hlex]
      unfold outToks
      rw [outBlocks_eq, indentAt_mini cfg hm, List.append_nil]
      have : dataTok (dtText ps.doctype) ++ [outRoot cfg n st sc kids]
          = pushData (dtText ps.doctype) [outRoot cfg n st sc kids] := by
        unfold outRoot
        rw [pushData_elem]
      rw [this, ftoksL_pushData _ _ (show TextLikeL [outRoot cfg n st sc kids] from ⟨strict_textLike _ hroot', trivial⟩)]
      simp [ftoksL]
    · have hg : DGood (outRoot cfg n st sc kids) := by
        have h1 := dgoodL_expand cfg hm ⟨0, 0⟩ [] rfl preserve_nil (.elem n st sc kids) hs
        simp only [expand, indentAt_mini cfg hm, dataTok, List.isEmpty_nil, if_true, List.nil_append, DGoodL,
          and_true] at h1
        have h2 := dgood_merge _ h1
        simp only [merge] at h2
        unfold outRoot
        rw [indentAt_mini cfg hm]
        exact h2
      have := dscanN_good _ hroot' hg [] [] rfl trivial
      simpa using this

end AHP.Fmt
