/-
  AHP.Lemmas.AttrsCopy — C08: (1) the values stored under boolean-string keys (`spellcheck`) are
  normalised (`convertToBooleanString` of the input) in every reachable state — invariant `BinStrInv`;
  (2) the dict — as a LIST — of an element constructed from an attribute list (`mk`), hence the list
  a copy shows: the original's list with the `class` entry moved to the end.
-/
import AHP.Lemmas.AttrsFrame
namespace AHP.Attrs
open AHP

/-! #### `convertToBooleanString` is idempotent -/

theorem boolString_idem (v : Option Str) : boolString (some (boolString v)) = boolString v := by
  have h1 : boolString (some strFalse) = strFalse := by decide
  have h2 : boolString (some strTrue) = strTrue := by decide
  cases v with
  | none => exact h1
  | some s =>
    show boolString (some (if lower s = strFalse ∨ lower s = ['0'] then strFalse else strTrue)) =
      (if lower s = strFalse ∨ lower s = ['0'] then strFalse else strTrue)
    split
    · exact h1
    · exact h2

theorem boolString_cases (v : Option Str) : boolString v = strTrue ∨ boolString v = strFalse := by
  cases v with
  | none => exact Or.inr rfl
  | some s =>
    by_cases h : lower s = strFalse ∨ lower s = ['0']
    · right
      show (if lower s = strFalse ∨ lower s = ['0'] then strFalse else strTrue) = strFalse
      rw [if_pos h]
    · left
      show (if lower s = strFalse ∨ lower s = ['0'] then strFalse else strTrue) = strTrue
      rw [if_neg h]

theorem normVal_idem (T : Tables) (k : Str) (v : Option Str) : normVal T k (normVal T k v) = normVal T k v := by
  unfold normVal
  split
  · rw [boolString_idem]
  · rfl

/-! #### `BinStrInv`: every ordinary slot holds a normalised value -/

/-- every ordinary value in the dict is what `__setitem__` would store for it: under a boolean-string
    key (`TAG_ITEM_BINARY_ATTRIBUTES_STRING_ATTR`) it is `convertToBooleanString` of itself -/
def BinStrInv (T : Tables) (e : El) : Prop := ∀ k v, aget k e.dict = some (.val v) → normVal T k v = v

theorem binStrInv_sub {T : Tables} {e e' : El} (h : BinStrInv T e)
    (hs : ∀ k v, aget k e'.dict = some (.val v) → aget k e.dict = some (.val v)) : BinStrInv T e' :=
  fun k v hk => h k v (hs k v hk)

theorem vals_adel {k0 k : Str} {v : Option Str} {d : AL Slot} (h : aget k (adel k0 d) = some (.val v)) :
    aget k d = some (.val v) := by
  by_cases hk : k = k0
  · subst hk; rw [aget_adel_same] at h; cases h
  · rwa [aget_adel_ne hk] at h

theorem vals_aset_nonval {k0 k : Str} {s : Slot} (hs : ∀ v, s ≠ .val v) {v : Option Str} {d : AL Slot}
    (h : aget k (aset k0 s d) = some (.val v)) : aget k d = some (.val v) := by
  by_cases hk : k = k0
  · subst hk
    rw [aget_aset_same] at h
    exact absurd (Option.some.inj h) (hs v)
  · rwa [aget_aset_ne hk] at h

theorem binStrInv_of_dict_eq {T : Tables} {e e' : El} (hd : e'.dict = e.dict) (h : BinStrInv T e) : BinStrInv T e' :=
  binStrInv_sub h (fun k v hk => by rw [hd] at hk; exact hk)

theorem binStrInv_ensureStyle {T : Tables} {e : El} (h : BinStrInv T e) (m : AL Str) :
    BinStrInv T (ensureStyle { e with sty := m }) := by
  refine binStrInv_sub h ?_
  intro k v hk
  unfold ensureStyle at hk
  split at hk
  · exact vals_adel hk
  · exact vals_aset_nonval (fun v hv => by cases hv) hk

theorem binStrInv_handleClassAttr {T : Tables} {e : El} (h : BinStrInv T e) : BinStrInv T (handleClassAttr e) := by
  refine binStrInv_sub h ?_
  intro k v hk
  unfold handleClassAttr at hk
  simp only at hk
  have h2 : aget k (if e.cls.isEmpty then adel classK e.dict else aset classK (Slot.cls e.className) e.dict) = some (.val v) := by
    split at hk
    · exact vals_adel hk
    · exact vals_aset_nonval (fun v hv => by cases hv) hk
  split at h2
  · exact vals_adel h2
  · exact vals_aset_nonval (fun v hv => by cases hv) h2

theorem binStrInv_delKey {T : Tables} {e : El} (h : BinStrInv T e) (k : Str) :
    BinStrInv T { e with dict := adel k e.dict } :=
  binStrInv_sub h (fun _ _ hk => vals_adel hk)

theorem binStrInv_mapSet (T : Tables) (k : Str) (v : Option Str) {e : El} (h : BinStrInv T e) :
    BinStrInv T (mapSet T k v e).2 := by
  unfold mapSet
  simp only
  split
  · exact h
  · split
    · dsimp only
      unfold assignStyleFrom assignStyle
      exact binStrInv_ensureStyle h _
    · split
      · exact binStrInv_of_dict_eq (e := e) rfl h
      · dsimp only
        intro k' v' hk'
        by_cases he : k' = lower k
        · subst he
          rw [aget_aset_same] at hk'
          have := Option.some.inj hk'
          simp only [Slot.val.injEq] at this
          rw [← this]
          exact normVal_idem T (lower k) v
        · rw [aget_aset_ne he] at hk'
          exact h k' v' hk'

theorem binStrInv_mapDel (T : Tables) (k : Str) {e : El} (h : BinStrInv T e) : BinStrInv T (mapDel k e) := by
  unfold mapDel
  simp only
  split
  · unfold assignStyle; exact binStrInv_ensureStyle h _
  · split
    · exact binStrInv_of_dict_eq (e := e) rfl h
    · exact binStrInv_delKey h _

theorem binStrInv_setAttribute (T : Tables) (n : Str) (v : Option Str) {e : El} (h : BinStrInv T e) :
    BinStrInv T (setAttribute T n v e).2 := by
  unfold setAttribute
  split
  · exact h
  · exact binStrInv_mapSet T n v h

theorem binStrInv_setAttributes (T : Tables) : ∀ (l : List (Str × Option Str)) {e : El}, BinStrInv T e →
    BinStrInv T (setAttributes T l e).2
  | [], _, h => h
  | (n, v) :: r, e, h => by
    unfold setAttributes
    have h1 := binStrInv_setAttribute T n v h
    split
    · next e' heq => rw [heq] at h1; exact binStrInv_setAttributes T r h1
    · next o e' _ heq => rw [heq] at h1; exact h1

theorem binStrInv_dotSet (T : Tables) (n : Str) (v : DotVal) {e : El} (h : BinStrInv T e) :
    BinStrInv T (dotSet T n v e).2 := by
  unfold dotSet
  split
  · exact binStrInv_of_dict_eq (e := e) rfl h
  · split
    · exact h
    · next L _ =>
      split
      · exact h
      · split
        · have h1 := binStrInv_setAttribute T L.attr (some v.boolString) h
          split
          · next e' heq =>
            rw [heq] at h1
            dsimp only
            rcases getAttribute_snd T L.attr PyVal.none e' with hg | hg <;> rw [hg]
            · exact h1
            · exact binStrInv_handleClassAttr h1
          · next r hne => exact h1
        · split
          · split
            · exact binStrInv_setAttribute _ _ _ h
            · exact binStrInv_mapDel _ _ h
          · exact binStrInv_setAttribute _ _ _ h

theorem binStrInv_setStyles (T : Tables) : ∀ (l : List (Str × Option Str)) {e : El}, BinStrInv T e → BinStrInv T (setStyles l e)
  | [], _, h => h
  | p :: l, e, h => by
    unfold setStyles
    simp only [List.foldl_cons]
    have h1 : BinStrInv T (setStyle p.1 p.2 e) := by
      unfold setStyle styleDotSet; exact binStrInv_ensureStyle h _
    have := binStrInv_setStyles T l h1
    unfold setStyles at this
    exact this

theorem binStrInv_step (T : Tables) (op : Op) {e : El} (h : BinStrInv T e) : BinStrInv T (step T e op).2 := by
  cases op <;> dsimp only [step]
  case setAttr n v => exact binStrInv_setAttribute T n v h
  case setAttrs l => exact binStrInv_setAttributes T l h
  case rmAttr n => exact binStrInv_mapDel T _ h
  case mapSet n v => exact binStrInv_mapSet T n v h
  case mapDel n => exact binStrInv_mapDel T n h
  case dot n v => exact binStrInv_dotSet T n v h
  case addClass s => exact binStrInv_of_dict_eq (e := e) rfl h
  case rmClass s => exact binStrInv_of_dict_eq (e := e) rfl h
  case className v => exact binStrInv_of_dict_eq (e := e) rfl h
  case styDot n v => unfold styleDotSet; exact binStrInv_ensureStyle h _
  case styProp n v => unfold setProperty; exact binStrInv_ensureStyle h _
  case setStyle n v => unfold setStyle styleDotSet; exact binStrInv_ensureStyle h _
  case setStyles l => exact binStrInv_setStyles T l h
  case styAssign v => unfold assignStyle; exact binStrInv_ensureStyle h _
  case styCopy src => unfold assignStyleFrom assignStyle; exact binStrInv_ensureStyle h _
  case stySelf => exact binStrInv_ensureStyle h e.sty
  case sync => exact binStrInv_handleClassAttr h

theorem binStrInv_run (T : Tables) : ∀ (ops : List Op) {e : El}, BinStrInv T e → BinStrInv T (run T e ops)
  | [], _, h => h
  | op :: ops, e, h => by
    unfold run
    simp only [List.foldl_cons]
    exact binStrInv_run T ops (binStrInv_step T op h)

theorem binStrInv_empty (T : Tables) (tag : Str) (sc : Bool) : BinStrInv T (El.empty tag sc) := by
  intro k v hk; simp [El.empty, aget] at hk

theorem binStrInv_initStep (T : Tables) (p : Str × Option Str) {e : El} (h : BinStrInv T e) : BinStrInv T (initStep T e p) := by
  unfold initStep
  simp only
  split
  · exact binStrInv_mapSet _ _ _ h
  · exact h

theorem binStrInv_foldl_initStep (T : Tables) : ∀ (l : List (Str × Option Str)) {e : El}, BinStrInv T e →
    BinStrInv T (l.foldl (initStep T) e)
  | [], _, h => h
  | p :: l, e, h => by
    simp only [List.foldl_cons]
    exact binStrInv_foldl_initStep T l (binStrInv_initStep T p h)

theorem binStrInv_mk (T : Tables) (tag : Str) (sc : Bool) (attrs : List (Str × Option Str)) : BinStrInv T (mk T tag sc attrs) :=
  binStrInv_foldl_initStep T attrs (binStrInv_empty T tag sc)

/-! #### the dict — as a list — of a constructed element -/

/-- the style map `__setitem__('style', v)` leaves: a copy (through `str()`) of `StyleAttribute(v)` -/
def styOf (v : Option Str) : AL Str := styleToDict (asStr (styleToDict (v.getD [])))

/-- what one entry of the constructor's list contributes to the dict: nothing for `class` (kept in
    `_classNames` only until a reader synchronises), the style object for `style` unless the map is empty,
    the (normalised) value otherwise -/
def mkSlot (T : Tables) (p : Str × Option Str) : Option (Str × Slot) :=
  if p.1 = classK then none
  else if p.1 = styleK then (if (styOf p.2).isEmpty then none else some (styleK, Slot.sty))
  else some (p.1, Slot.val (normVal T p.1 p.2))

theorem mkSlot_key {T : Tables} {p : Str × Option Str} {q : Str × Slot} (h : mkSlot T p = some q) : q.1 = p.1 := by
  unfold mkSlot at h
  split at h
  · cases h
  · split at h
    · next hs =>
      split at h
      · cases h
      · cases h; exact hs.symm
    · cases h; rfl

theorem mapSet_dict_fresh (T : Tables) (p : Str × Option Str) (e : El) (hv : validName p.1 = true) (hl : lower p.1 = p.1)
    (hf : p.1 ∉ akeys e.dict) : (mapSet T p.1 p.2 e).2.dict = e.dict ++ (mkSlot T p).toList := by
  unfold mapSet mkSlot
  simp only [hl, hv, Bool.not_true, Bool.false_eq_true, if_false]
  by_cases hs : p.1 = styleK
  · have hc : p.1 ≠ classK := fun h => classK_ne_styleK (h.symm.trans hs)
    rw [if_pos hs, if_neg hc, if_pos hs]
    rw [hs] at hf
    show (assignStyleFrom (styleToDict (p.2.getD [])) e).dict = _
    unfold assignStyleFrom assignStyle ensureStyle styOf
    simp only [Option.getD_some]
    split
    · simp [adel_of_not_mem hf]
    · simp [aset_of_not_mem Slot.sty hf]
  · rw [if_neg hs]
    by_cases hc : p.1 = classK
    · rw [if_pos hc, if_pos hc]; simp [setClassName]
    · rw [if_neg hc, if_neg hc, if_neg hs]
      simp only [Option.toList_some]
      unfold normVal
      exact aset_of_not_mem _ hf

theorem filterMap_congr_mem {α β : Type} {f g : α → Option β} : ∀ {l : List α}, (∀ x ∈ l, f x = g x) →
    l.filterMap f = l.filterMap g
  | [], _ => rfl
  | x :: r, h => by
    rw [List.filterMap_cons, List.filterMap_cons, h x (by simp),
        filterMap_congr_mem (l := r) (fun y hy => h y (List.mem_cons_of_mem _ hy))]

theorem akeys_append {α : Type} (a b : AL α) : akeys (a ++ b) = akeys a ++ akeys b := by
  unfold akeys; rw [List.map_append]

theorem foldl_initStep_dict (T : Tables) : ∀ (l : List (Str × Option Str)) (e : El), GoodKeys l →
    (∀ k ∈ akeys l, k ∉ akeys e.dict) → (l.foldl (initStep T) e).dict = e.dict ++ l.filterMap (mkSlot T)
  | [], e, _, _ => by simp
  | p :: l, e, hg, hf => by
    have hp := hg.2 p (by simp)
    have hnd : p.1 ∉ akeys l ∧ (akeys l).Nodup := by simpa [akeys] using hg.1
    have hg' : GoodKeys l := ⟨hnd.2, fun q hq => hg.2 q (List.mem_cons_of_mem _ hq)⟩
    have hfp : p.1 ∉ akeys e.dict := hf p.1 (by simp [akeys])
    have hstep := mapSet_dict_fresh T p e hp.1 hp.2 hfp
    simp only [List.foldl_cons]
    rw [initStep_good T e p hp.1 hp.2]
    rw [foldl_initStep_dict T l _ hg', hstep]
    · cases hm : mkSlot T p with
      | none => simp [List.filterMap_cons, hm]
      | some q => simp [List.filterMap_cons, hm]
    · intro k hk hin
      rw [hstep, akeys_append] at hin
      rcases List.mem_append.mp hin with h | h
      · exact hf k (by simp only [akeys, List.map_cons]; exact List.mem_cons_of_mem _ hk) h
      · cases hm : mkSlot T p with
        | none => rw [hm] at h; simp [akeys] at h
        | some q =>
          rw [hm] at h
          simp only [Option.toList_some, akeys, List.map_cons, List.map_nil, List.mem_singleton] at h
          rw [h, mkSlot_key hm] at hk
          exact hnd.1 hk

/-- the dict of a freshly constructed element, entry by entry in the order of the list -/
theorem mk_dict (T : Tables) (tag : Str) (sc : Bool) (l : List (Str × Option Str)) (hg : GoodKeys l) :
    (mk T tag sc l).dict = l.filterMap (mkSlot T) := by
  unfold mk
  rw [foldl_initStep_dict T l _ hg (by intro k _ h; simp [El.empty, akeys] at h)]
  simp [El.empty]

/-- `d[k] = v` changes nothing when `k` is a key of `d` and every entry under `k` already holds `v` -/
theorem aset_eq_self {α : Type} {k : Str} {v : α} : ∀ {d : AL α}, k ∈ akeys d → (∀ p ∈ d, p.1 = k → p.2 = v) → aset k v d = d
  | [], h, _ => by simp [akeys] at h
  | (k0, v0) :: r, hm, hv => by
    unfold aset
    by_cases h0 : k0 = k
    · have := hv (k0, v0) (by simp) h0
      simp only at this
      simp [h0, this]
    · simp only [h0, if_false]
      have hm' : k ∈ akeys r := by
        simp only [akeys, List.map_cons, List.mem_cons] at hm
        rcases hm with h | h
        · exact absurd h.symm h0
        · exact h
      rw [aset_eq_self hm' (fun p hp => hv p (List.mem_cons_of_mem _ hp))]

theorem mkSlot_not_class {T : Tables} {l : List (Str × Option Str)} : classK ∉ akeys (l.filterMap (mkSlot T)) := by
  intro h
  obtain ⟨q, hq, hk⟩ := List.mem_map.mp h
  obtain ⟨p, _, hpq⟩ := List.mem_filterMap.mp hq
  have hkey := mkSlot_key hpq
  unfold mkSlot at hpq
  split at hpq
  · cases hpq
  · next hc => exact hc (hkey.symm.trans hk)

theorem mkSlot_style_val {T : Tables} {l : List (Str × Option Str)} :
    ∀ q ∈ l.filterMap (mkSlot T), q.1 = styleK → q.2 = Slot.sty := by
  intro q hq hk
  obtain ⟨p, _, hpq⟩ := List.mem_filterMap.mp hq
  have hkey := mkSlot_key hpq
  unfold mkSlot at hpq
  split at hpq
  · cases hpq
  · split at hpq
    · split at hpq
      · cases hpq
      · cases hpq; rfl
    · next hs => exact absurd (hkey.symm.trans hk) hs

/-- the style key is in the constructed dict exactly when the constructed style map is not empty -/
theorem mkSlot_style_mem {T : Tables} {l : List (Str × Option Str)} (hn : (akeys l).Nodup) :
    styleK ∈ akeys (l.filterMap (mkSlot T)) ↔ ∃ v, aget styleK l = some v ∧ (styOf v).isEmpty = false := by
  constructor
  · intro h
    obtain ⟨q, hq, hk⟩ := List.mem_map.mp h
    obtain ⟨p, hp, hpq⟩ := List.mem_filterMap.mp hq
    have hkey := mkSlot_key hpq
    have hps : p.1 = styleK := hkey.symm.trans hk
    refine ⟨p.2, aget_of_mem_nodup hn (by rw [← hps]; exact hp), ?_⟩
    unfold mkSlot at hpq
    have hc : p.1 ≠ classK := fun h => classK_ne_styleK (h.symm.trans hps)
    rw [if_neg hc, if_pos hps] at hpq
    split at hpq
    · cases hpq
    · next he => simpa using he
  · rintro ⟨v, hv, he⟩
    have hp := aget_some_mem hv
    have : mkSlot T (styleK, v) = some (styleK, Slot.sty) := by
      unfold mkSlot
      simp [styleK_ne_classK, he]
    exact List.mem_map.mpr ⟨(styleK, Slot.sty), List.mem_filterMap.mpr ⟨(styleK, v), hp, this⟩, rfl⟩

/-- the dict of a constructed element after the first synchronising read: the entries of the
    constructor's list in order, `class` (when `_classNames` is not empty) appended at the end -/
theorem mk_sync_dict (T : Tables) (tag : Str) (sc : Bool) (l : List (Str × Option Str)) (hg : GoodKeys l) :
    (handleClassAttr (mk T tag sc l)).dict = l.filterMap (mkSlot T) ++
      (if (mk T tag sc l).cls.isEmpty then [] else [(classK, Slot.cls (mk T tag sc l).className)]) := by
  unfold handleClassAttr
  simp only
  rw [mk_dict T tag sc l hg]
  have hcls : (if (mk T tag sc l).cls.isEmpty then adel classK (l.filterMap (mkSlot T))
      else aset classK (Slot.cls (mk T tag sc l).className) (l.filterMap (mkSlot T))) =
      l.filterMap (mkSlot T) ++ (if (mk T tag sc l).cls.isEmpty then [] else [(classK, Slot.cls (mk T tag sc l).className)]) := by
    split
    · simp [adel_of_not_mem (mkSlot_not_class (T := T) (l := l))]
    · exact aset_of_not_mem _ mkSlot_not_class
  rw [hcls]
  have hsty := mk_sty T tag sc l hg
  have hmem := mkSlot_style_mem (T := T) hg.1
  split
  · next he =>
    -- empty style map: the key is not there
    apply adel_of_not_mem
    rw [akeys_append]
    intro hin
    rcases List.mem_append.mp hin with h | h
    · obtain ⟨v, hv, hne⟩ := hmem.mp h
      rw [hsty, hv] at he
      simp only [styOf] at hne
      rw [hne] at he; cases he
    · split at h
      · simp [akeys] at h
      · simp only [akeys, List.map_cons, List.map_nil, List.mem_singleton] at h
        exact styleK_ne_classK h
  · next he =>
    have hin : styleK ∈ akeys (l.filterMap (mkSlot T)) := by
      apply hmem.mpr
      cases hv : aget styleK l with
      | none => rw [hsty, hv] at he; simp at he
      | some v =>
        refine ⟨v, rfl, ?_⟩
        rw [hsty, hv] at he
        simpa [styOf] using he
    apply aset_eq_self
    · rw [akeys_append]; exact List.mem_append_left _ hin
    · intro q hq hk
      rcases List.mem_append.mp hq with h | h
      · exact mkSlot_style_val q h hk
      · split at h
        · cases h
        · simp only [List.mem_singleton] at h
          rw [h] at hk
          exact absurd hk classK_ne_styleK

/-- what a constructed element lists for one entry of the constructor's list -/
def mkView (T : Tables) (p : Str × Option Str) : Option (Str × Option Str) :=
  if p.1 = classK then none
  else if p.1 = styleK then (if (styOf p.2).isEmpty then none else some (styleK, some (asStr (styOf p.2))))
  else some (p.1, normVal T p.1 p.2)

/-- The list (`getAttributesList()`) of an element constructed from `l` — valid, lower-case, pairwise
    distinct names — as a LIST: the entries of `l` in order (boolean-string values normalised, the style
    value re-rendered, an empty style dropped), except that `class` comes last. -/
theorem viewList_mk (T : Tables) (tag : Str) (sc : Bool) (l : List (Str × Option Str)) (hg : GoodKeys l) :
    viewList (mk T tag sc l) = l.filterMap (mkView T) ++
      (match aget classK l with
       | some v => if (words (v.getD [])).isEmpty then [] else [(classK, some (joinWith [' '] (words (v.getD []))))]
       | none => []) := by
  have hsty := mk_sty T tag sc l hg
  have hcls := mk_cls T tag sc l hg
  unfold viewList
  rw [attrsList_fst, items_fst, mk_sync_dict T tag sc l hg, List.map_map, List.map_append]
  congr 1
  · -- the entries of `l`
    rw [List.map_filterMap]
    apply filterMap_congr_mem
    intro p hp
    unfold mkSlot mkView
    by_cases hc : p.1 = classK
    · simp [hc]
    · rw [if_neg hc, if_neg hc]
      by_cases hs : p.1 = styleK
      · rw [if_pos hs, if_pos hs]
        split
        · rfl
        · have hv : aget styleK l = some p.2 := aget_of_mem_nodup hg.1 (by rw [← hs]; exact hp)
          simp only [Option.map_some, Function.comp, slotVal, PyVal.tostrOpt, Option.some.injEq, Prod.mk.injEq, true_and]
          show asStr (handleClassAttr (mk T tag sc l)).sty = asStr (styOf p.2)
          rw [(handleClassAttr_cls_sty _).2.1, hsty, hv]
          rfl
      · rw [if_neg hs, if_neg hs]
        cases normVal T p.1 p.2 <;> rfl
  · -- the class entry
    rw [hcls]
    cases hv : aget classK l with
    | none => simp
    | some v =>
      simp only
      split
      · rfl
      · simp only [List.map_cons, List.map_nil, Function.comp, slotVal, PyVal.tostrOpt]
        show [(classK, some (El.className (mk T tag sc l)))] = _
        unfold El.className
        rw [hcls, hv]

/-! #### moving one key to the end -/

/-- the list with the entries under key `k` moved to the end -/
def moveLast {α : Type} (k : Str) (l : AL α) : AL α :=
  l.filter (fun p => decide (p.1 ≠ k)) ++ l.filter (fun p => decide (p.1 = k))

theorem filter_ne_of_not_mem {α : Type} {k : Str} : ∀ {l : AL α}, k ∉ akeys l → l.filter (fun p => decide (p.1 ≠ k)) = l
  | [], _ => rfl
  | (k0, v0) :: r, h => by
    have h0 : k0 ≠ k := fun e => h (by simp [akeys, e])
    have hr : k ∉ akeys r := fun m => h (by simp only [akeys, List.map_cons]; exact List.mem_cons_of_mem _ m)
    rw [List.filter_cons_of_pos (by simpa using h0), filter_ne_of_not_mem hr]

theorem filter_eq_of_not_mem {α : Type} {k : Str} : ∀ {l : AL α}, k ∉ akeys l → l.filter (fun p => decide (p.1 = k)) = []
  | [], _ => rfl
  | (k0, v0) :: r, h => by
    have h0 : k0 ≠ k := fun e => h (by simp [akeys, e])
    have hr : k ∉ akeys r := fun m => h (by simp only [akeys, List.map_cons]; exact List.mem_cons_of_mem _ m)
    rw [List.filter_cons_of_neg (by simpa using h0), filter_eq_of_not_mem hr]

theorem filter_key {α : Type} {k : Str} : ∀ {l : AL α}, (akeys l).Nodup →
    l.filter (fun p => decide (p.1 = k)) = (match aget k l with | some v => [(k, v)] | none => [])
  | [], _ => rfl
  | (k0, v0) :: r, hn => by
    have hn' : k0 ∉ akeys r ∧ (akeys r).Nodup := by simpa [akeys] using hn
    by_cases h0 : k0 = k
    · subst h0
      simp [List.filter_cons, aget, filter_eq_of_not_mem hn'.1]
    · simp only [List.filter_cons, h0, decide_false, Bool.false_eq_true, if_false, aget]
      exact filter_key hn'.2

theorem moveLast_eq_self_iff {α : Type} {l : AL α} (hn : (akeys l).Nodup) (k : Str) :
    moveLast k l = l ↔ (k ∉ akeys l ∨ (akeys l).getLast? = some k) := by
  constructor
  · intro h
    by_cases hk : k ∈ akeys l
    · right
      have hv : ∃ v, aget k l = some v := by
        cases hg : aget k l with
        | none => exact absurd hk (aget_eq_none_iff.mp hg)
        | some v => exact ⟨v, rfl⟩
      obtain ⟨v, hv⟩ := hv
      have hB : l.filter (fun p => decide (p.1 = k)) = [(k, v)] := by rw [filter_key hn, hv]
      have : akeys l = akeys (l.filter (fun p => decide (p.1 ≠ k))) ++ [k] := by
        have := congrArg akeys h.symm
        unfold moveLast at this
        rw [akeys_append, hB] at this
        simpa [akeys] using this
      rw [this, List.getLast?_append]
      rfl
    · exact Or.inl hk
  · rintro (hk | hk)
    · unfold moveLast
      rw [filter_ne_of_not_mem hk, filter_eq_of_not_mem hk, List.append_nil]
    · unfold akeys at hk
      rw [List.getLast?_map] at hk
      cases hl : l.getLast? with
      | none => rw [hl] at hk; cases hk
      | some p =>
        rw [hl] at hk
        simp only [Option.map_some, Option.some.injEq] at hk
        obtain ⟨l', rfl⟩ := List.getLast?_eq_some_iff.mp hl
        have hn2 : k ∉ akeys l' := by
          rw [akeys_append] at hn
          intro hm
          exact (List.nodup_append.mp hn).2.2 k hm k (by simp [akeys, hk]) rfl
        unfold moveLast
        rw [List.filter_append, List.filter_append, filter_ne_of_not_mem hn2, filter_eq_of_not_mem hn2]
        simp [List.filter_cons, hk]

theorem filterMap_drop_key {α : Type} (k : Str) : ∀ (l : AL α),
    l.filterMap (fun p => if p.1 = k then none else some p) = l.filter (fun p => decide (p.1 ≠ k))
  | [] => rfl
  | p :: r => by
    by_cases h : p.1 = k
    · simp [List.filterMap_cons, List.filter_cons, h, filterMap_drop_key k r]
    · simp [List.filterMap_cons, List.filter_cons, h, filterMap_drop_key k r]

/-! #### the list of a copy -/

/-- what the copy's constructor makes of one entry of the original's list: the entry itself, except
    for `class` (appended after the first synchronisation) -/
theorem mkView_viewList (T : Tables) {e : El} (h : DictInv e) (hb : BinStrInv T e) (hs : StyRT e.sty)
    {p : Str × Option Str} (hp : p ∈ viewList e) : mkView T p = if p.1 = classK then none else some p := by
  have hg : GoodKeys (viewList e) := goodKeys_of_sync h (akeys_attrsList e)
  have hget : aget p.1 (viewList e) = some p.2 := aget_of_mem_nodup hg.1 hp
  unfold mkView
  by_cases hc : p.1 = classK
  · rw [if_pos hc, if_pos hc]
  · rw [if_neg hc, if_neg hc]
    by_cases hst : p.1 = styleK
    · rw [if_pos hst]
      rw [hst, viewList_style] at hget
      split at hget
      · cases hget
      · next hne =>
        have hp2 : p.2 = some (asStr e.sty) := (Option.some.inj hget).symm
        have hso : styOf p.2 = e.sty := by
          unfold styOf
          rw [hp2]
          simp only [Option.getD_some]
          rw [styleToDict_asStr hs, styleToDict_asStr hs]
        rw [hso]
        have : e.sty.isEmpty = false := by simpa using hne
        rw [this]
        simp only [Bool.false_eq_true, if_false]
        rw [← hp2, ← hst]
    · rw [if_neg hst]
      rw [viewList_ordinary h hc hst] at hget
      unfold rawLookup at hget
      split at hget
      · next v hv =>
        have hv2 : v = p.2 := Option.some.inj hget
        have hn := hb p.1 v hv
        rw [hv2] at hn
        rw [hn]
      · cases hget

/-- The list of a copy (`cloneNode`, `copy.copy`, `copy.deepcopy`, unpickling, `eval(repr(tag))`), as a
    LIST: the original's list with the `class` entry moved to the end. Hypotheses: the two invariants
    of all histories (`DictInv`, `BinStrInv`) and the round-trip conditions of C09 / C10 on the class
    names and the style map (they make the *values* under `class` and `style` survive). -/
theorem viewList_clone (T : Tables) {e : El} (h : DictInv e) (hb : BinStrInv T e)
    (hc : ∀ w ∈ e.cls, CleanName w) (hs : StyRT e.sty) :
    viewList (clone T e).1 = moveLast classK (viewList e) := by
  have hg : GoodKeys (viewList e) := goodKeys_of_sync h (akeys_attrsList e)
  show viewList (mk T e.tag e.sc (viewList e)) = _
  rw [viewList_mk T e.tag e.sc (viewList e) hg]
  unfold moveLast
  congr 1
  · rw [← filterMap_drop_key]
    exact filterMap_congr_mem (fun p hp => mkView_viewList T h hb hs hp)
  · rw [filter_key hg.1, viewList_class]
    by_cases he : e.cls.isEmpty = true
    · rw [if_pos he]
    · rw [if_neg he]
      simp only [Option.getD_some]
      have hw : words e.className = e.cls := words_join_clean hc
      rw [hw, if_neg he]
      rfl

/-! #### per-key views, once more: the synchronising `get` in general, boolean-string keys, symbolic defaults -/

theorem rawVal_eq_viewList {e : El} (h : DictInv e) {k : Str} (hc : k ≠ classK) (hs : k ≠ styleK) :
    rawVal k e = (aget k (viewList e)).join := by
  rw [viewList_ordinary h hc hs]
  unfold rawVal rawLookup
  rcases aget k e.dict with _ | s
  · rfl
  · cases s <;> rfl

/-- in a normalised store the value listed under a boolean-string key is `convertToBooleanString` of itself -/
theorem binStr_listed {T : Tables} {e : El} (h : DictInv e) (hb : BinStrInv T e) {k : Str} (hc : k ≠ classK) (hs : k ≠ styleK)
    (hk : T.binStr.contains k = true) {v : Option Str} (hv : aget k (viewList e) = some v) : v = some (boolString v) := by
  rw [viewList_ordinary h hc hs] at hv
  unfold rawLookup at hv
  split at hv
  · next w hw =>
    have hn := hb k w hw
    have : w = v := Option.some.inj hv
    subst this
    unfold normVal at hn
    rw [hk] at hn
    exact hn.symm
  · cases hv

theorem keys_contains (e : El) (k : Str) : (keys e).1.contains k = (aget k (viewList e)).isSome := by
  rw [keys_fst, ← akeys_viewList]
  cases hh : (aget k (viewList e)).isSome with
  | true =>
    apply List.contains_iff_mem.mpr
    apply ahas_iff_mem.mp
    exact hh
  | false =>
    cases hcn : (akeys (viewList e)).contains k with
    | false => rfl
    | true =>
      have := ahas_iff_mem.mpr (List.contains_iff_mem.mp hcn)
      unfold ahas at this
      rw [hh] at this
      cases this

/-- `attributes.get(k, d)` for a key other than class / style: `attributes[k]` (read after the
    synchronisation) when the key is listed, else the default -/
theorem mapGet_fst (T : Tables) (e : El) {k : Str} (hc : lower k ≠ classK) (hs : lower k ≠ styleK) (d : PyVal) :
    (mapGet T k d e).1 = if (aget (lower k) (viewList e)).isSome then getitem T (lower k) (handleClassAttr e) else d := by
  unfold mapGet
  simp only [hc, hs, if_false]
  rw [keys_contains]
  split <;> rfl

theorem mapGetOpt_fst (T : Tables) (e : El) {k : Str} (hc : lower k ≠ classK) (hs : lower k ≠ styleK) :
    (mapGetOpt T k e).1 = if (aget (lower k) (viewList e)).isSome then some (getitem T (lower k) (handleClassAttr e)) else none := by
  unfold mapGetOpt
  simp only [hc, hs, if_false]
  rw [keys_contains]
  split <;> rfl

/-- the symbolic-default reader is the modelled reader: `get(k, d)` is `getD d` of it, state included -/
theorem mapGet_eq_opt (T : Tables) (k : Str) (d : PyVal) (e : El) :
    mapGet T k d e = (((mapGetOpt T k e).1).getD d, (mapGetOpt T k e).2) := by
  unfold mapGet mapGetOpt
  simp only
  split
  · rfl
  · split
    · rfl
    · split <;> rfl

theorem getAttribute_eq_opt (T : Tables) (k : Str) (d : PyVal) (e : El) :
    getAttribute T k d e = (((getAttributeOpt T k e).1).getD d, (getAttributeOpt T k e).2) := by
  unfold getAttribute getAttributeOpt
  split
  · split <;> rfl
  · exact mapGet_eq_opt T k d e

theorem getAttributeOpt_snd (T : Tables) (k : Str) (e : El) :
    (getAttributeOpt T k e).2 = e ∨ (getAttributeOpt T k e).2 = handleClassAttr e := by
  have h := getAttribute_snd T k .none e
  rw [getAttribute_eq_opt] at h
  exact h

/-- `attributes[k]` for a boolean-string key: the listed value, `'false'` when the key is not listed -/
theorem getitem_binStr (T : Tables) {e : El} (h : DictInv e) (hb : BinStrInv T e) {k : Str} (hc : lower k ≠ classK)
    (hs : lower k ≠ styleK) (hk : T.binStr.contains (lower k) = true) :
    getitem T k e = match aget (lower k) (viewList e) with
      | none => .str strFalse
      | some v => pyOfOpt v := by
  unfold getitem
  simp only [hc, hs, hk, if_false, if_true]
  rw [rawVal_eq_viewList h hc hs]
  cases hg : aget (lower k) (viewList e) with
  | none => rfl
  | some v =>
    have hv := binStr_listed h hb hc hs hk hg
    simp only [Option.join_some]
    conv => rhs; rw [hv]
    rfl

/-- a key other than class / style, boolean-string or not: what `attributes[k]` answers when the key is listed -/
theorem getitem_listed (T : Tables) {e : El} (h : DictInv e) (hb : BinStrInv T e) {k : Str} (hc : lower k ≠ classK)
    (hs : lower k ≠ styleK) {v : Option Str} (hv : aget (lower k) (viewList e) = some v) : getitem T k e = pyOfOpt v := by
  cases hk : T.binStr.contains (lower k) with
  | true => rw [getitem_binStr T h hb hc hs hk, hv]
  | false => rw [getitem_eq_viewList T h hc hs hk, hv]; rfl

/-- `attributes.get(k, d)` for every key other than class / style (boolean-string keys included) -/
theorem mapGet_listed (T : Tables) {e : El} (h : DictInv e) (hb : BinStrInv T e) {k : Str} (hc : lower k ≠ classK)
    (hs : lower k ≠ styleK) (d : PyVal) :
    (mapGet T k d e).1 = match aget (lower k) (viewList e) with
      | none => d
      | some v => pyOfOpt v := by
  rw [mapGet_fst T e hc hs]
  cases hg : aget (lower k) (viewList e) with
  | none => rfl
  | some v =>
    simp only [Option.isSome_some, if_true]
    have hg' : aget (lower (lower k)) (viewList (handleClassAttr e)) = some v := by rw [lower_idem, viewList_sync, hg]
    exact getitem_listed T (dictInv_handleClassAttr h) (binStrInv_handleClassAttr hb) (by rw [lower_idem]; exact hc)
      (by rw [lower_idem]; exact hs) hg'

theorem mapGetOpt_listed (T : Tables) {e : El} (h : DictInv e) (hb : BinStrInv T e) {k : Str} (hc : lower k ≠ classK)
    (hs : lower k ≠ styleK) : (mapGetOpt T k e).1 = (aget (lower k) (viewList e)).map pyOfOpt := by
  rw [mapGetOpt_fst T e hc hs]
  cases hg : aget (lower k) (viewList e) with
  | none => rfl
  | some v =>
    simp only [Option.isSome_some, if_true, Option.map_some]
    have hg' : aget (lower (lower k)) (viewList (handleClassAttr e)) = some v := by rw [lower_idem, viewList_sync, hg]
    rw [getitem_listed T (dictInv_handleClassAttr h) (binStrInv_handleClassAttr hb) (by rw [lower_idem]; exact hc)
      (by rw [lower_idem]; exact hs) hg']

/-- what `__setitem__` stores, seen through the list: the normalised value under the lower-cased key -/
theorem mapSet_listed (T : Tables) {e : El} (h : DictInv e) {k : Str} (hv : validName k = true) (hc : lower k ≠ classK)
    (hs : lower k ≠ styleK) (v : Option Str) :
    aget (lower k) (viewList (mapSet T k v e).2) = some (normVal T (lower k) v) := by
  rw [viewList_ordinary (dictInv_mapSet T k v h) hc hs]
  unfold rawLookup
  have hv' : validName (lower k) = true := by rw [validName_lower]; exact hv
  have := mapSet_aget_same T v e hv' (lower_idem k) hc hs
  have hm : mapSet T (lower k) v e = mapSet T k v e := by unfold mapSet; rw [lower_idem]
  rw [hm] at this
  rw [this]

theorem boolOfString_true : boolOfString (.str strTrue) = true := by decide
theorem boolOfString_false : boolOfString (.str strFalse) = false := by decide

end AHP.Attrs
