/-
  AHP.Lemmas.FragmentTokens — which of `single` / `multi` the document parser produces for a token list (C20 on
  token lists instead of an assumed `Parsed` input).

  The specification of tree construction (AHP/Spec/Build.lean) decides "single-root document" with `Spec.single`: outer
  tokens, one element, outer tokens.  Here that is restated over the NODES of the fragment: `topNodes toks` are the
  top-level nodes the recursive-descent specification assigns to the token list, a node is *significant* when it is
  an element or text that is not blank, and

      `Spec.single … toks = oneRoot (sigNodes (topNodes toks))`

  i.e. a single root exactly when the only significant top-level node is an element; nothing parsed when there is
  no significant node; the wrapper otherwise (two or more significant nodes, or one that is text).
-/
import AHP.Lemmas.BuilderSpec
import AHP.Model.Fragment
namespace AHP
open Spec

/-! ### top-level nodes and their classification -/

/-- a top-level node that counts: an element, or text that is not blank -/
def Node.significant : Node → Bool
  | .text s => !isBlank s
  | .elem _ _ _ _ => true

def sigNodes (l : List Node) : List Node := l.filter Node.significant

/-- the top-level nodes of the fragment (a leading doctype declaration, and white space of the shape
    `[\n]*[ \t]*` in front of it, are not content: `Spec.topTokens`) -/
def topNodes (toks : List Token) : List Node := (items (toks.length + 1) [] (topTokens toks)).1

/-- what the significant top-level nodes amount to: `some none` = nothing, `some (some r)` = exactly one and it
    is an element, `none` = anything else (several, or a single text) -/
def oneRoot : List Node → Option (Option Node)
  | [] => some none
  | [.elem n a sc kids] => some (some (.elem n a sc kids))
  | _ => none

theorem oneRoot_text (s : Str) (l : List Node) : oneRoot (.text s :: l) = none := by
  cases l <;> rfl

theorem oneRoot_elem_cons (n : Str) (a : AttrState) (sc : Bool) (kids : List Node) (x : Node) (l : List Node) :
    oneRoot (.elem n a sc kids :: x :: l) = none := rfl

theorem oneRoot_some (l : List Node) (r : Node) (h : oneRoot l = some (some r)) : l = [r] ∧ r.isText = false := by
  match l, h with
  | [.elem n a sc kids], h => simp [oneRoot] at h; rw [← h]; exact ⟨rfl, rfl⟩
  | [.text s], h => simp [oneRoot] at h
  | .text s :: _ :: _, h => simp [oneRoot] at h
  | .elem _ _ _ _ :: _ :: _, h => simp [oneRoot] at h

theorem oneRoot_none_iff (l : List Node) : oneRoot l = some none ↔ l = [] := by
  match l with
  | [] => simp [oneRoot]
  | [.elem n a sc kids] => simp [oneRoot]
  | [.text s] => simp [oneRoot]
  | .text s :: _ :: _ => simp [oneRoot]
  | .elem _ _ _ _ :: _ :: _ => simp [oneRoot]

theorem oneRoot_multi_iff (l : List Node) :
    oneRoot l = none ↔ (2 ≤ l.length ∨ ∃ s, l = [.text s]) := by
  match l with
  | [] => simp [oneRoot]
  | [.elem n a sc kids] => simp [oneRoot]
  | [.text s] => simp [oneRoot]
  | .text s :: _ :: _ => simp [oneRoot]
  | .elem _ _ _ _ :: _ :: _ => simp [oneRoot]

/-! ### blank / non-blank text -/

private theorem all_ws_of_dropWhile_nil : ∀ s : Str, s.dropWhile isWs = [] → ∀ c ∈ s, isWs c = true := by
  intro s
  induction s with
  | nil => intro _ c hc; cases hc
  | cons a s ih =>
    intro h c hc
    by_cases ha : isWs a = true
    · simp only [List.dropWhile_cons, ha, if_true] at h
      rcases List.mem_cons.mp hc with e | e
      · rw [e]; exact ha
      · exact ih h c e
    · simp [ha] at h

private theorem dropWhile_nil_of_all_ws : ∀ s : Str, (∀ c ∈ s, isWs c = true) → s.dropWhile isWs = [] := by
  intro s
  induction s with
  | nil => intro _; rfl
  | cons a s ih =>
    intro h
    have ha := h a List.mem_cons_self
    simp only [List.dropWhile_cons, ha, if_true]
    exact ih (fun c hc => h c (List.mem_cons_of_mem _ hc))

/-- text starting with a character that is not white space is not blank -/
theorem isBlank_cons (c : Char) (r : Str) (h : isWs c = false) : isBlank (c :: r) = false := by
  unfold isBlank strip
  have hl : lstrip (c :: r) = c :: r := by simp [lstrip, List.dropWhile, h]
  rw [hl]
  cases hr : rstrip (c :: r) with
  | nil =>
    unfold rstrip at hr
    have h0 : (c :: r).reverse.dropWhile isWs = [] := by
      have := congrArg List.reverse hr
      simpa using this
    have := all_ws_of_dropWhile_nil _ h0 c (by simp)
    rw [h] at this; cases this
  | cons x xs => rfl

theorem blank_of_all_ws (s : Str) (h : ∀ c ∈ s, isWs c = true) : isBlank s = true := by
  unfold isBlank strip lstrip
  rw [dropWhile_nil_of_all_ws s h]
  rfl

theorem wsNL_blank' (ws : Str) (h : wsNL ws = true) : isBlank ws = true := by
  apply blank_of_all_ws
  unfold wsNL at h
  intro c hc
  -- `ws` = newlines, then blanks/tabs, then nothing
  have h1 : ((ws.dropWhile (· = '\n')).dropWhile (fun c => c = ' ' || c = '\t')) = [] := by simpa using h
  have key : ∀ (p : Char → Bool) (l : Str), l.dropWhile p = [] → ∀ x ∈ l, p x = true := by
    intro p l
    induction l with
    | nil => intro _ x hx; cases hx
    | cons a l ih =>
      intro hd x hx
      by_cases ha : p a = true
      · simp only [List.dropWhile_cons, ha, if_true] at hd
        rcases List.mem_cons.mp hx with e | e
        · rw [e]; exact ha
        · exact ih hd x e
      · simp [ha] at hd
  -- every character is a newline or belongs to the rest, which is blanks/tabs
  have split : ∀ l : Str, ∀ x ∈ l, x = '\n' ∨ x ∈ l.dropWhile (· = '\n') := by
    intro l
    induction l with
    | nil => intro x hx; cases hx
    | cons a l ih =>
      intro x hx
      by_cases ha : a = '\n'
      · rcases List.mem_cons.mp hx with e | e
        · left; rw [e]; exact ha
        · rcases ih x e with h2 | h2
          · left; exact h2
          · right; simp only [List.dropWhile_cons, ha, decide_true, if_true]; exact h2
      · right; simp only [List.dropWhile_cons, ha, decide_false]; exact hx
  rcases split ws c hc with e | e
  · rw [e]; decide
  · have := key _ _ h1 c e
    simp at this
    rcases this with e2 | e2 <;> rw [e2] <;> decide

/-! ### the epilogue: only outer tokens ⟺ no significant node -/

theorem sig_text_textlike (t : Token) (s : Str) (h : textOf t = some s) (ho : isOuter t = false) :
    Node.significant (.text s) = true := by
  cases t with
  | data d =>
    simp only [textOf] at h
    split at h
    · cases h
    · cases h
      simp only [isOuter, Bool.or_eq_false_iff] at ho
      simp [Node.significant, ho.2]
  | entity e =>
    simp only [textOf, Option.some.injEq] at h
    rw [← h]; simp [Node.significant, isBlank_cons '&' _ (by decide)]
  | charref e =>
    simp only [textOf, Option.some.injEq] at h
    rw [← h]; simp [Node.significant, isBlank_cons '&' _ (by decide)]
  | comment e =>
    simp only [textOf, Option.some.injEq] at h
    rw [← h]
    show Node.significant (.text ('<' :: ("!--".toList ++ e ++ "-->".toList))) = true
    simp [Node.significant, isBlank_cons '<' _ (by decide)]
  | decl d => simp [textOf] at h
  | unknownDecl d => simp [textOf] at h
  | pi d => simp [textOf] at h
  | start n a => simp [textOf] at h
  | startend n a => simp [textOf] at h
  | end_ n => simp [textOf] at h

theorem sig_text_outer (t : Token) (s : Str) (h : textOf t = some s) (ho : isOuter t = true) :
    Node.significant (.text s) = false := by
  cases t with
  | data d =>
    simp only [textOf] at h
    split at h
    · cases h
    · rename_i hd
      cases h
      simp only [isOuter, Bool.or_eq_true] at ho
      rcases ho with h1 | h1
      · exact absurd h1 hd
      · simp [Node.significant, h1]
  | entity e => simp [isOuter] at ho
  | charref e => simp [isOuter] at ho
  | comment e => simp [isOuter] at ho
  | decl d => simp [textOf] at h
  | unknownDecl d => simp [textOf] at h
  | pi d => simp [textOf] at h
  | start n a => simp [textOf] at h
  | startend n a => simp [textOf] at h
  | end_ n => simp [textOf] at h

/-- a token that is neither a tag nor a start tag: what `items` does with it at top level -/
theorem items_other (k : Nat) (t : Token) (ts : List Token)
    (h1 : ∀ n a, t ≠ .start n a) (h2 : ∀ n a, t ≠ .startend n a) (h3 : ∀ n, t ≠ .end_ n) :
    items (k + 1) [] (t :: ts) =
      (match textOf t with
       | some s => (.text s :: (items k [] ts).1, (items k [] ts).2)
       | none => items k [] ts) := by
  cases t with
  | start n a => exact absurd rfl (h1 n a)
  | startend n a => exact absurd rfl (h2 n a)
  | end_ n => exact absurd rfl (h3 n)
  | data d => simp only [items]; cases textOf (Token.data d) <;> rfl
  | entity d => simp only [items]; cases textOf (Token.entity d) <;> rfl
  | charref d => simp only [items]; cases textOf (Token.charref d) <;> rfl
  | comment d => simp only [items]; cases textOf (Token.comment d) <;> rfl
  | decl d => simp only [items]; cases textOf (Token.decl d) <;> rfl
  | unknownDecl d => simp only [items]; cases textOf (Token.unknownDecl d) <;> rfl
  | pi d => simp only [items]; cases textOf (Token.pi d) <;> rfl

/-- an outer token contributes no significant node -/
theorem sig_items_outer (k : Nat) (t : Token) (ts : List Token) (ho : isOuter t = true) :
    sigNodes (items (k + 1) [] (t :: ts)).1 = sigNodes (items k [] ts).1 := by
  cases t with
  | start n a => simp [isOuter] at ho
  | startend n a => simp [isOuter] at ho
  | end_ n => simp [items]
  | entity e => simp [isOuter] at ho
  | charref e => simp [isOuter] at ho
  | comment e => simp [isOuter] at ho
  | decl d => simp [items, textOf]
  | unknownDecl d => simp [items, textOf]
  | pi d => simp [items, textOf]
  | data d =>
    simp only [items]
    cases ht : textOf (.data d) with
    | none => rfl
    | some s =>
      have := sig_text_outer (.data d) s ht ho
      simp [sigNodes, this]

/-- a text-like token that is not outer contributes a significant text node in front -/
theorem sig_items_inner (k : Nat) (t : Token) (ts : List Token) (ho : isOuter t = false)
    (h1 : ∀ n a, t ≠ .start n a) (h2 : ∀ n a, t ≠ .startend n a) :
    ∃ s, sigNodes (items (k + 1) [] (t :: ts)).1 = .text s :: sigNodes (items k [] ts).1 := by
  have h3 : ∀ n, t ≠ .end_ n := by intro n e; rw [e] at ho; simp [isOuter] at ho
  rw [items_other k t ts h1 h2 h3]
  cases ht : textOf t with
  | none =>
    -- not outer and no text: impossible
    cases t <;> simp [textOf] at ht <;> simp [isOuter] at ho
    · exact absurd rfl (h1 _ _)
    · exact absurd rfl (h2 _ _)
    · rename_i d
      simp [ht, isBlank, strip, lstrip, rstrip] at ho
  | some s =>
    have := sig_text_textlike t s ht ho
    exact ⟨s, by simp [sigNodes, this]⟩

theorem epilog_iff (k : Nat) : ∀ ts : List Token, ts.length < k →
    (epilogOk ts = true ↔ sigNodes (items k [] ts).1 = []) := by
  induction k with
  | zero => intro ts h; simp at h
  | succ k ih =>
    intro ts hk
    cases ts with
    | nil => simp [epilogOk, items, sigNodes]
    | cons t ts =>
      have hk' : ts.length < k := by simp at hk; omega
      have he : epilogOk (t :: ts) = (isOuter t && epilogOk ts) := by simp [epilogOk]
      by_cases ho : isOuter t = true
      · rw [he, ho, Bool.true_and, sig_items_outer k t ts ho]
        exact ih ts hk'
      · have ho' : isOuter t = false := by simpa using ho
        rw [he, ho', Bool.false_and]
        constructor
        · intro h; cases h
        · intro h
          exfalso
          cases t with
          | start n a =>
            simp only [items] at h
            split at h <;> simp [sigNodes, List.filter_cons, Node.significant] at h
          | startend n a => simp [items, sigNodes, List.filter_cons, Node.significant] at h
          | end_ n => simp [isOuter] at ho'
          | data d =>
            obtain ⟨s, e⟩ := sig_items_inner k (.data d) ts ho' (by intros; simp) (by intros; simp)
            rw [e] at h; cases h
          | entity d =>
            obtain ⟨s, e⟩ := sig_items_inner k (.entity d) ts ho' (by intros; simp) (by intros; simp)
            rw [e] at h; cases h
          | charref d =>
            obtain ⟨s, e⟩ := sig_items_inner k (.charref d) ts ho' (by intros; simp) (by intros; simp)
            rw [e] at h; cases h
          | comment d =>
            obtain ⟨s, e⟩ := sig_items_inner k (.comment d) ts ho' (by intros; simp) (by intros; simp)
            rw [e] at h; cases h
          | decl d => simp [isOuter] at ho'
          | unknownDecl d => simp [isOuter] at ho'
          | pi d => simp [isOuter] at ho'

private theorem oneRoot_after (el : Node) (hel : ∃ n a sc kids, el = .elem n a sc kids) (rest : List Node) (b : Bool)
    (hb : b = true ↔ rest = []) : (if b then some (some el) else none) = oneRoot (el :: rest) := by
  obtain ⟨n, a, sc, kids, e⟩ := hel
  subst e
  cases b with
  | true => have := hb.mp rfl; subst this; rfl
  | false =>
    cases rest with
    | nil => have := hb.mpr rfl; cases this
    | cons x xs => rfl

/-- **single root ⟺ the only significant top-level node is an element.** `Spec.single` — "outer tokens, one
    element, outer tokens" — read off the top-level nodes of the recursive-descent specification. -/
theorem single_eq_oneRoot (k : Nat) : ∀ toks : List Token, toks.length < k →
    single k toks = oneRoot (sigNodes (items k [] toks).1) := by
  induction k with
  | zero => intro ts h; simp at h
  | succ k ih =>
    intro toks hk
    cases toks with
    | nil => simp [single, items, sigNodes, oneRoot]
    | cons t ts =>
      have hk' : ts.length < k := by simp at hk; omega
      cases t with
      | start n a =>
        simp only [single, items]
        split
        · simp only [sigNodes, List.filter_cons, Node.significant, if_true]
          exact oneRoot_after _ ⟨_, _, _, _, rfl⟩ _ _ (epilog_iff k ts hk')
        · simp only [sigNodes, List.filter_cons, Node.significant, if_true]
          have hl := (items_rest k [lower n] ts hk').2
          have hl2 := afterContent_len (lower n) (items k [lower n] ts).2
          exact oneRoot_after _ ⟨_, _, _, _, rfl⟩ _ _ (epilog_iff k _ (by omega))
      | startend n a =>
        simp only [single, items, sigNodes, List.filter_cons, Node.significant, if_true]
        exact oneRoot_after _ ⟨_, _, _, _, rfl⟩ _ _ (epilog_iff k ts hk')
      | end_ n =>
        have : single (k + 1) (.end_ n :: ts) = single k ts := by simp [single, isOuter]
        rw [this, sig_items_outer k (.end_ n) ts rfl]
        exact ih ts hk'
      | decl d =>
        have : single (k + 1) (.decl d :: ts) = single k ts := by simp [single, isOuter]
        rw [this, sig_items_outer k (.decl d) ts rfl]
        exact ih ts hk'
      | unknownDecl d =>
        have : single (k + 1) (.unknownDecl d :: ts) = single k ts := by simp [single, isOuter]
        rw [this, sig_items_outer k (.unknownDecl d) ts rfl]
        exact ih ts hk'
      | pi d =>
        have : single (k + 1) (.pi d :: ts) = single k ts := by simp [single, isOuter]
        rw [this, sig_items_outer k (.pi d) ts rfl]
        exact ih ts hk'
      | data d =>
        by_cases ho : isOuter (.data d) = true
        · have : single (k + 1) (.data d :: ts) = single k ts := by simp [single, ho]
          rw [this, sig_items_outer k (.data d) ts ho]
          exact ih ts hk'
        · have ho' : isOuter (.data d) = false := by simpa using ho
          have : single (k + 1) (.data d :: ts) = none := by simp [single, ho']
          obtain ⟨s, e⟩ := sig_items_inner k (.data d) ts ho' (by intros; simp) (by intros; simp)
          rw [this, e, oneRoot_text]
      | entity d =>
        have : single (k + 1) (.entity d :: ts) = none := by simp [single, isOuter]
        obtain ⟨s, e⟩ := sig_items_inner k (.entity d) ts rfl (by intros; simp) (by intros; simp)
        rw [this, e, oneRoot_text]
      | charref d =>
        have : single (k + 1) (.charref d :: ts) = none := by simp [single, isOuter]
        obtain ⟨s, e⟩ := sig_items_inner k (.charref d) ts rfl (by intros; simp) (by intros; simp)
        rw [this, e, oneRoot_text]
      | comment d =>
        have : single (k + 1) (.comment d :: ts) = none := by simp [single, isOuter]
        obtain ⟨s, e⟩ := sig_items_inner k (.comment d) ts rfl (by intros; simp) (by intros; simp)
        rw [this, e, oneRoot_text]

/-- a leading doctype (and the white space `leadDoctype` allows in front of it) contributes no significant node -/
theorem sigNodes_topTokens (toks : List Token) :
    sigNodes (items (toks.length + 1) [] toks).1 = sigNodes (topNodes toks) := by
  unfold topNodes topTokens
  cases hl : leadDoctype toks with
  | none => rfl
  | some p =>
    obtain ⟨pre, r⟩ := p
    simp only
    unfold leadDoctype at hl
    split at hl
    · rename_i d r'
      simp only [Option.some.injEq, Prod.mk.injEq] at hl
      obtain ⟨_, h2⟩ := hl
      subst h2
      simp only [List.length_cons]
      rw [sig_items_outer _ (.decl d) r' rfl]
      rw [items_fuel (r'.length + 1) (r'.length + 1 + 1) [] r' (by omega) (by omega)]
    · rename_i ws d r'
      split at hl
      · rename_i hws
        simp only [Option.some.injEq, Prod.mk.injEq] at hl
        obtain ⟨_, h2⟩ := hl
        subst h2
        simp only [List.length_cons]
        have hb := wsNL_blank' ws hws
        have ho : isOuter (.data ws) = true := by simp [isOuter, hb]
        rw [sig_items_outer _ (.data ws) _ ho, sig_items_outer _ (.decl d) r' rfl]
        rw [items_fuel (r'.length + 1) (r'.length + 1 + 1 + 1) [] r' (by omega) (by omega)]
      · cases hl
    · cases hl

/-- **which of single / multi the specification builds**, over the top-level nodes of the fragment -/
theorem single_eq_oneRoot_top (toks : List Token) :
    single (toks.length + 1) toks = oneRoot (sigNodes (topNodes toks)) := by
  rw [single_eq_oneRoot (toks.length + 1) toks (Nat.lt_succ_self _), sigNodes_topTokens]

/-- the root of a single-root document is the element a start tag of the input opened -/
theorem single_root_name (k : Nat) : ∀ (toks : List Token) (r : Node), single k toks = some (some r) →
    ∃ n a' sc kids, r = .elem (lower n) a' sc kids ∧ ∃ a, Token.start n a ∈ toks ∨ Token.startend n a ∈ toks := by
  induction k with
  | zero => intro toks r h; simp [single] at h
  | succ k ih =>
    intro toks r h
    cases toks with
    | nil => simp [single] at h
    | cons t ts =>
      have hrec : single k ts = some (some r) →
          ∃ n a' sc kids, r = .elem (lower n) a' sc kids ∧ ∃ a, Token.start n a ∈ t :: ts ∨ Token.startend n a ∈ t :: ts := by
        intro h'
        obtain ⟨n, a', sc, kids, e, a, hm⟩ := ih ts r h'
        exact ⟨n, a', sc, kids, e, a, hm.elim (fun x => Or.inl (List.mem_cons_of_mem _ x)) (fun x => Or.inr (List.mem_cons_of_mem _ x))⟩
      cases t with
      | start n a =>
        simp only [single] at h
        split at h
        · split at h
          · simp only [Option.some.injEq] at h
            exact ⟨n, _, _, _, h.symm, a, Or.inl List.mem_cons_self⟩
          · cases h
        · split at h
          · simp only [Option.some.injEq] at h
            exact ⟨n, _, _, _, h.symm, a, Or.inl List.mem_cons_self⟩
          · cases h
      | startend n a =>
        simp only [single] at h
        split at h
        · simp only [Option.some.injEq] at h
          exact ⟨n, _, _, _, h.symm, a, Or.inr List.mem_cons_self⟩
        · cases h
      | end_ n => exact hrec (by simpa [single, isOuter] using h)
      | decl d => exact hrec (by simpa [single, isOuter] using h)
      | unknownDecl d => exact hrec (by simpa [single, isOuter] using h)
      | pi d => exact hrec (by simpa [single, isOuter] using h)
      | data d =>
        simp only [single] at h
        split at h
        · exact hrec h
        · cases h
      | entity d => simp [single, isOuter] at h
      | charref d => simp [single, isOuter] at h
      | comment d => simp [single, isOuter] at h

/-! ### from the builder's trees to the fragment model's input -/

mutual
/-- a tree of the builder as the fragment model takes it: attributes as the views list them -/
def Node.toFN : Node → Dom.FN
  | .text s => .text s
  | .elem n a sc kids => .el n a.view sc (toFNL kids)
def toFNL : List Node → List Dom.FN
  | [] => []
  | k :: ks => k.toFN :: toFNL ks
end

/-- what the document parser hands to the fragment constructors: the single root of a first-pass document, the
    blocks of the wrapper of a second-pass document; `none` = nothing was parsed (`root is None`, the fragment
    APIs raise `AttributeError`) or the parse raised -/
def parsedOf : FeedResult → Option Dom.Parsed
  | .doc ⟨_, some root⟩ false => some (.single root.toFN)
  | .doc ⟨_, some (.elem _ _ _ kids)⟩ true => some (.multi (toFNL kids))
  | _ => none

end AHP
