/-
  TreeModels, part 5c — "the n-th among its same-named siblings", read off the TREE.

  `XPath.specPos d i` (AHP/Model/XPathSpec.lean) reads the position of an element among its same-named siblings off the
  XPath model's table.  Here the table is `h.toDoc` for an arbitrary tree `h`, and the position is a statement about the
  tree alone: for an element whose blocks are `pre ++ x :: post` with `x` an element, the row of `x` has `specPos` =
  one more than the number of element blocks in `pre` that carry `x`'s tag name (`namedBefore`).
-/
import AHP.Lemmas.TreeModelsXPath
import AHP.Lemmas.XPathValues
namespace AHP.TM
open AHP AHP.AttrStores AHP.XPath

def HN.isEl : HN → Bool
  | .text _ => false
  | .el _ _ _ _ _ => true

/-- the number of element blocks of `pre` with tag name `nm` -/
def namedBefore (nm : Str) (pre : List HN) : Nat := (pre.filter (fun y => y.isEl && decide (y.name = nm))).length

mutual
/-- every element block of an entry is itself an entry: its row, the entry's row in front of the entry's ancestors -/
theorem walk_kid_nodes : ∀ (h : HN) (up : List Nat) (s : Nat), ∀ e ∈ h.walk up s,
    ∀ (pre : List HN) (x : HN) (post : List HN), e.node.kids = pre ++ x :: post → x.isEl = true →
      (⟨e.pos + 1 + sizeL pre, e.pos :: e.ups, x⟩ : Ent) ∈ h.walk up s
  | .text _, _, _ => by simp
  | .el i n a sc ks, up, s => by
    intro e he pre x post hk hx
    simp only [walk_el, List.mem_cons] at he
    rcases he with rfl | he
    · have := (walkL_kid_nodes ks (s :: up) (s + 1)).1 pre x post (by simpa [HN.kids] using hk) hx
      simp only [walk_el, List.mem_cons]
      exact Or.inr this
    · have := (walkL_kid_nodes ks (s :: up) (s + 1)).2 e he pre x post hk hx
      simp only [walk_el, List.mem_cons]
      exact Or.inr this
theorem walkL_kid_nodes : ∀ (ks : List HN) (up : List Nat) (s : Nat),
    (∀ (pre : List HN) (x : HN) (post : List HN), ks = pre ++ x :: post → x.isEl = true →
      (⟨s + sizeL pre, up, x⟩ : Ent) ∈ walkL up s ks) ∧
    (∀ e ∈ walkL up s ks, ∀ (pre : List HN) (x : HN) (post : List HN), e.node.kids = pre ++ x :: post → x.isEl = true →
      (⟨e.pos + 1 + sizeL pre, e.pos :: e.ups, x⟩ : Ent) ∈ walkL up s ks)
  | [], _, _ => by
    constructor
    · intro pre x post h; simp at h
    · simp
  | k :: ks, up, s => by
    obtain ⟨r1, r2⟩ := walkL_kid_nodes ks up (s + k.size)
    constructor
    · intro pre x post hk hx
      cases pre with
      | nil =>
        simp only [List.nil_append, List.cons.injEq] at hk
        obtain ⟨rfl, _⟩ := hk
        cases k with
        | text _ => simp [HN.isEl] at hx
        | el i n a sc ks' => simp [walk_el]
      | cons p pre' =>
        simp only [List.cons_append, List.cons.injEq] at hk
        obtain ⟨rfl, hk⟩ := hk
        have := r1 pre' x post hk hx
        have e : s + sizeL (k :: pre') = s + k.size + sizeL pre' := by simp; omega
        rw [e]
        simp only [walkL_cons, List.mem_append]
        exact Or.inr this
    · intro e he pre x post hk hx
      simp only [walkL_cons, List.mem_append] at he ⊢
      rcases he with he | he
      · exact Or.inl (walk_kid_nodes k up s e he pre x post hk hx)
      · exact Or.inr (r2 e he pre x post hk hx)
end

/-- the combinatorial core: in the child rows of a block list `pre ++ x :: post` starting at row `s`, filtered by "the row's
    name is `nm`", the row of `x` comes after exactly the element blocks of `pre` named `nm` -/
theorem idxOf_kidPos (nmAt : Nat → Str) (nm : Str) : ∀ (pre : List HN) (s : Nat) (x : HN) (post : List HN),
    x.isEl = true → nmAt (s + sizeL pre) = nm →
    (∀ (pre1 : List HN) (y : HN) (post1 : List HN), pre = pre1 ++ y :: post1 → y.isEl = true → nmAt (s + sizeL pre1) = y.name) →
    idxOf (s + sizeL pre) ((kidPos s (pre ++ x :: post)).filter (fun q => decide (nmAt q = nm))) = namedBefore nm pre
  | [], s, x, post, hx, hn, _ => by
    cases x with
    | text _ => simp [HN.isEl] at hx
    | el i n a sc ks =>
      simp only [sizeL_nil, Nat.add_zero] at hn
      simp [kidPos, List.filter, hn, idxOf, namedBefore]
  | y :: pre', s, x, post, hx, hn, hnames => by
    cases y with
    | text t =>
      have ih := idxOf_kidPos nmAt nm pre' s x post hx (by simpa using hn)
        (fun pre1 y' post1 hp hy => by
          have := hnames (.text t :: pre1) y' post1 (by simp [hp]) hy
          simpa using this)
      simp only [List.cons_append, kidPos, sizeL_cons, size_text, Nat.zero_add]
      rw [ih]
      simp [namedBefore, List.filter, HN.isEl]
    | el i n a sc ks =>
      have hsz : s + sizeL (HN.el i n a sc ks :: pre') = (s + (1 + sizeL ks)) + sizeL pre' := by simp; omega
      have ih := idxOf_kidPos nmAt nm pre' (s + (1 + sizeL ks)) x post hx (by rw [← hsz]; exact hn)
        (fun pre1 y' post1 hp hy => by
          have := hnames (.el i n a sc ks :: pre1) y' post1 (by simp [hp]) hy
          have e : s + sizeL (HN.el i n a sc ks :: pre1) = (s + (1 + sizeL ks)) + sizeL pre1 := by simp; omega
          rw [e] at this
          exact this)
      have hhead : nmAt s = n := by
        have := hnames [] (.el i n a sc ks) pre' rfl rfl
        simpa [HN.name] using this
      have hne : ¬ (s = s + sizeL (HN.el i n a sc ks :: pre')) := by simp
      simp only [List.cons_append, kidPos, size_el]
      rw [hsz] at hne ⊢
      by_cases hnm : n = nm
      · have hd : decide (nmAt s = nm) = true := by simp [hhead, hnm]
        simp only [List.filter, hd, idxOf, if_neg hne]
        rw [ih]
        simp [namedBefore, List.filter, HN.isEl, HN.name, hnm]
      · have hd : decide (nmAt s = nm) = false := by simp [hhead, hnm]
        simp only [List.filter, hd]
        rw [ih]
        simp [namedBefore, List.filter, HN.isEl, HN.name, hnm]

/-- **`specPos` of the table of a tree, read off the tree**: for every element (entry `e` of the walk) whose blocks are
    `pre ++ x :: post` with `x` an element, the row of `x` is `e.pos + 1 + sizeL pre`, its parent row is `e.pos`, and its
    position among the same-named siblings is one more than the number of element blocks in `pre` with `x`'s tag name. -/
theorem toDoc_specPos (h : HN) {e : Ent} (he : e ∈ h.walk [] 0) (pre : List HN) (x : HN) (post : List HN)
    (hk : e.node.kids = pre ++ x :: post) (hx : x.isEl = true) :
    h.toDoc.parent (e.pos + 1 + sizeL pre) = some e.pos ∧
    h.toDoc.name (e.pos + 1 + sizeL pre) = x.name ∧
    specPos h.toDoc (e.pos + 1 + sizeL pre) = namedBefore x.name pre + 1 := by
  have hW := walked_walk h
  have hkx := walk_kid_nodes h [] 0 e he pre x post hk hx
  have hpar : h.toDoc.parent (e.pos + 1 + sizeL pre) = some e.pos := by
    have := parent_ent hW hkx
    simpa [HN.toDoc] using this
  have hname : h.toDoc.name (e.pos + 1 + sizeL pre) = x.name := by
    have := name_ent hW hkx
    simpa [HN.toDoc] using this
  refine ⟨hpar, hname, ?_⟩
  rw [specPos_eq_idx _ _ _ hpar, hname]
  have hch : h.toDoc.children e.pos = kidPos (e.pos + 1) e.node.kids := children_ent hW he
  rw [hch, hk]
  have := idxOf_kidPos (fun q => h.toDoc.name q) x.name pre (e.pos + 1) x post hx hname
    (fun pre1 y post1 hp hy => by
      have hky : e.node.kids = pre1 ++ y :: (post1 ++ x :: post) := by rw [hk, hp]; simp
      have hy' := walk_kid_nodes h [] 0 e he pre1 y _ hky hy
      have := name_ent hW hy'
      simpa [HN.toDoc] using this)
  rw [this]

end AHP.TM
