/-
  AHP.Lemmas.DomRefine — `abs` (forget the cached fields) commutes with every building block of the
  model: the bookkeeping model refines the list-of-blocks specification.
-/
import AHP.Lemmas.DomSpec
import AHP.Lemmas.DomNav
namespace AHP.Dom.Spec
open AHP AHP.Dom

@[simp] theorem abs_text (s) : abs (.text s) = .text s := by simp [abs]
@[simp] theorem abs_el (m bs) : abs (.el m bs) = .el (absM m) (absL bs) := by simp [abs]
@[simp] theorem absL_nil : absL [] = [] := by simp [absL]
@[simp] theorem absL_cons (b bs) : absL (b :: bs) = abs b :: absL bs := by simp [absL]

theorem absL_eq_map (bs : List DN) : absL bs = bs.map abs := by
  induction bs with
  | nil => simp
  | cons b bs ih => simp [ih]

theorem absL_append (a b : List DN) : absL (a ++ b) = absL a ++ absL b := by simp [absL_eq_map]
theorem absL_take (i) (a : List DN) : absL (a.take i) = (absL a).take i := by simp [absL_eq_map, List.map_take]
theorem absL_drop (i) (a : List DN) : absL (a.drop i) = (absL a).drop i := by simp [absL_eq_map, List.map_drop]
theorem absL_length (a : List DN) : (absL a).length = a.length := by simp [absL_eq_map]

theorem absL_insertAt (i) (x : DN) (a : List DN) : absL (insertAt i x a) = insertAt i (abs x) (absL a) := by
  simp [insertAt, absL_append, absL_take, absL_drop]

@[simp] theorem selemIds_nil : selemIds [] = [] := rfl
@[simp] theorem selemIds_text (s) (bs : List SN) : selemIds (.text s :: bs) = selemIds bs := rfl
@[simp] theorem selemIds_el (m k) (bs : List SN) : selemIds (.el m k :: bs) = m.id :: selemIds bs := rfl

theorem selemIds_absL (bs : List DN) : selemIds (absL bs) = elemIds bs := by
  induction bs with
  | nil => simp
  | cons b bs ih => cases b <;> simp [ih, absM]

mutual
theorem abs_reown (o) (n : DN) : abs (reown o n) = abs n := by
  match n with
  | .text s => simp
  | .el m bs => simp [absM, absL_reownL o bs]
theorem absL_reownL (o) (bs : List DN) : absL (reownL o bs) = absL bs := by
  match bs with
  | [] => simp
  | b :: bs => simp [abs_reown o b, absL_reownL o bs]
end

theorem abs_setParent (p) (n : DN) : abs (setParent p n) = abs n := by
  cases n <;> simp [absM]

theorem abs_attach (m : Meta) (c : DN) : abs (attach m c) = abs c := by
  unfold attach; rw [abs_reown, abs_setParent]

theorem srootId_abs (n : DN) : srootId (abs n) = rootId n := by
  cases n <;> simp [srootId, rootId, absM]

theorem sblockEq_abs (r : Blk) (b : DN) : sblockEq r (abs b) = blockEq r b := by
  cases r <;> cases b <;> simp [sblockEq, blockEq, absM]

theorem sindexOf_absL (r : Blk) (bs : List DN) : sindexOf r (absL bs) = indexOf r bs := by
  induction bs with
  | nil => simp [sindexOf, indexOf]
  | cons b bs ih => simp [sindexOf, indexOf, sblockEq_abs, ih]

theorem sremoveFirstEl_absL (c : Nat) (bs : List DN) :
    sremoveFirstEl c (absL bs) = (removeFirstEl c bs).map (fun r => (abs r.1, absL r.2)) := by
  induction bs with
  | nil => simp [sremoveFirstEl, removeFirstEl]
  | cons b bs ih =>
    cases b with
    | text s => simp [sremoveFirstEl, removeFirstEl, ih, Option.map_map, Function.comp_def]
    | el m k =>
      simp only [absL_cons, abs_el, sremoveFirstEl, removeFirstEl]
      by_cases h : m.id = c
      · simp [h, absM]
      · have : ¬ (absM m).id = c := h
        simp [h, this, ih, Option.map_map, Function.comp_def]

theorem sreplaceFirstText_absL (s : Str) (bs : List DN) :
    sreplaceFirstText s (absL bs) = (replaceFirstText s bs).map (fun r => (r.1, absL r.2)) := by
  induction bs with
  | nil => simp [sreplaceFirstText, replaceFirstText]
  | cons b bs ih =>
    cases b with
    | el m k => simp [sreplaceFirstText, replaceFirstText, ih, Option.map_map, Function.comp_def]
    | text x =>
      simp only [absL_cons, abs_text, sreplaceFirstText, replaceFirstText]
      split
      · simp
      · simp [ih, Option.map_map, Function.comp_def]

theorem sreplaceAllText_absL (s : Str) (bs : List DN) :
    sreplaceAllText s (absL bs) = ((replaceAllText s bs).1, absL (replaceAllText s bs).2) := by
  induction bs with
  | nil => simp [sreplaceAllText, replaceAllText]
  | cons b bs ih =>
    cases b with
    | el m k => simp [sreplaceAllText, replaceAllText, ih]
    | text x =>
      simp only [absL_cons, abs_text, sreplaceAllText, replaceAllText]
      split <;> simp [ih]

def absP (r : Meta × List DN) : SMeta × List SN := (absM r.1, absL r.2)

mutual
theorem sfind?_abs (t) (n : DN) : sfind? t (abs n) = (find? t n).map absP := by
  match n with
  | .text s => simp [sfind?]
  | .el m bs =>
    simp only [abs_el, sfind?, find?_el]
    have : (absM m).id = m.id := rfl
    rw [this]
    split
    · simp [absP]
    · exact sfindL?_absL t bs
theorem sfindL?_absL (t) (l : List DN) : sfindL? t (absL l) = (findL? t l).map absP := by
  match l with
  | [] => simp [sfindL?]
  | b :: bs =>
    simp only [absL_cons, sfindL?, findL?_cons]
    rw [sfind?_abs t b]
    cases find? t b with
    | some r => simp
    | none => simpa using sfindL?_absL t bs
end

theorem stakeRoot_absL (c : Nat) (l : List DN) :
    stakeRoot c (absL l) = (takeRoot c l).map (fun r => (abs r.1, absL r.2)) := by
  induction l with
  | nil => simp [stakeRoot, takeRoot]
  | cons r rs ih =>
    simp only [absL_cons, stakeRoot, takeRoot, srootId_abs]
    split
    · simp
    · simp [ih, Option.map_map, Function.comp_def]

/-! ### the traversal -/

/-- the local refinement obligation: on consistent elements, the edit of the model is the edit of the
    specification after forgetting the caches -/
def Refines (f : Meta → List DN → Edit) (g : SMeta → List SN → SEdit) : Prop :=
  ∀ par own m bs, OK par own (.el m bs) → absE (f m bs) = g (absM m) (absL bs)

mutual
theorem abs_upd (t f g) (h : Refines f g) (par own) (n : DN) (hn : OK par own n) :
    abs (upd t f n).1 = (supd t g (abs n)).1 ∧ absL (upd t f n).2 = (supd t g (abs n)).2 := by
  match n, hn with
  | .text s, _ => simp [supd]
  | .el m bs, hn =>
    have hid : (absM m).id = m.id := rfl
    simp only [abs_el, supd, upd_el, hid]
    split
    · have := h par own m bs hn
      simp only [absE] at this
      rw [← this]
      simp
    · simp only [OK_el] at hn
      have := absL_updL t f g h _ _ bs hn.2.2.2.2.2
      simp [this.1, this.2]
theorem absL_updL (t f g) (h : Refines f g) (par own) (l : List DN) (hl : OKL par own l) :
    absL (updL t f l).1 = (supdL t g (absL l)).1 ∧ absL (updL t f l).2 = (supdL t g (absL l)).2 := by
  match l, hl with
  | [], _ => simp [supdL]
  | b :: bs, hl =>
    simp only [OKL_cons] at hl
    have h1 := abs_upd t f g h par own b hl.1
    have h2 := absL_updL t f g h par own bs hl.2
    simp [supdL, absL_append, h1.1, h1.2, h2.1, h2.2]
end

theorem absL_updL_roots (t f g) (h : Refines f g) (l : List DN) (hl : ∀ r ∈ l, RootOK r) :
    absL (updL t f l).1 = (supdL t g (absL l)).1 ∧ absL (updL t f l).2 = (supdL t g (absL l)).2 := by
  induction l with
  | nil => simp [supdL]
  | cons r rs ih =>
    obtain ⟨m, bs, rfl, hk⟩ := hl r (by simp)
    have h1 := abs_upd t f g h _ _ _ hk
    have h2 := ih (fun x hx => hl x (by simp [hx]))
    simp only [updL_cons, absL_cons, supdL, absL_append, h1.1, h1.2, h2.1, h2.2] at *
    simp [h1.1, h1.2]

theorem absW_edit (w : World) (t f g) (h : Refines f g) (hl : ∀ r ∈ w.roots, RootOK r) :
    absW (w.edit t f) = (absW w).edit t g := by
  have := absL_updL_roots t f g h w.roots hl
  simp [absW, World.edit, SWorld.edit, absL_append, this.1, this.2]

def absR (r : World × Val) : SWorld × Val := (absW r.1, r.2)

/-- the refinement obligation for a whole call: same decision, same value, refining edit -/
def LocRefines (loc : Meta → List DN → Option Edit × Val) (sloc : SMeta → List SN → Option SEdit × Val) : Prop :=
  ∀ par own m bs, OK par own (.el m bs) →
    (loc m bs).1.map absE = (sloc (absM m) (absL bs)).1 ∧ (loc m bs).2 = (sloc (absM m) (absL bs)).2

theorem abs_apply (w : World) (t loc sloc) (h : LocRefines loc sloc) (hl : ∀ r ∈ w.roots, RootOK r) :
    (w.apply t loc).map absR = (absW w).apply t sloc := by
  unfold World.apply SWorld.apply
  have hf : sfindL? t (absW w).roots = (w.find? t).map absP := sfindL?_absL t w.roots
  rw [hf]
  cases hfind : w.find? t with
  | none => simp
  | some r =>
    obtain ⟨m, bs⟩ := r
    obtain ⟨p, o, hk⟩ := findL?_roots_OK t w.roots hl hfind
    obtain ⟨h1, h2⟩ := h p o m bs hk
    simp only [Option.map_some, absP]
    cases hloc : (loc m bs).1 with
    | none =>
      rw [hloc] at h1
      simp only [Option.map_none] at h1
      simp [← h1, absR, h2]
    | some e =>
      rw [hloc] at h1
      simp only [Option.map_some] at h1
      rw [← h1]
      simp only [Option.map_some, absR, h2]
      congr 2
      refine absW_edit w t _ _ ?_ hl
      intro par own m' bs' hk'
      obtain ⟨h1', _⟩ := h par own m' bs' hk'
      show absE ((loc m' bs').1.getD ⟨m', bs', []⟩) = ((sloc (absM m') (absL bs')).1).getD ⟨absM m', absL bs', []⟩
      rw [← h1']
      cases (loc m' bs').1 <;> simp [absE]

end AHP.Dom.Spec
