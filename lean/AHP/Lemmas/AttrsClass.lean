/-
  AHP.Lemmas.AttrsClass — laws of `addClass` / `removeClass` and the invariant `Clean` (names free of white space
  and `&`) under which the rendered `class` value reads back as the same list.
-/
import AHP.Lemmas.AttrsViews
namespace AHP.Attrs
open AHP

/-! #### strings whose only white space is the ASCII space -/

def SpaceOnly (s : Str) : Prop := ∀ c ∈ s, isWs c = true → c = ' '

theorem strip_noWs {w : Str} (h : ∀ c ∈ w, isWs c = false) : strip w = w := by
  rcases w with _ | ⟨c, r⟩
  · simp [strip, lstrip, rstrip]
  · unfold strip
    rw [lstrip_cons_of_not_ws (h c (by simp))]
    rcases List.eq_nil_or_concat (c :: r) with h0 | ⟨r', c', h0⟩
    · simp at h0
    · have h0' : c :: r = r' ++ [c'] := by simpa using h0
      rw [h0', rstrip_append_of_not_ws _ (h c' (by rw [h0']; simp))]

theorem collapse_noSpace : ∀ {w : Str} (b : Bool), ' ' ∉ w → collapseAux b w = w
  | [], _, _ => by simp [collapseAux]
  | c :: r, b, h => by
    have hc : ¬ c = ' ' := fun e => h (by simp [e])
    rw [collapseAux_cons_ne hc, collapse_noSpace false (fun m => h (List.mem_cons_of_mem _ m))]

theorem stripWordsOnly_noWs {w : Str} (h : ∀ c ∈ w, isWs c = false) : stripWordsOnly w = w := by
  unfold stripWordsOnly collapseSpaces
  rw [strip_noWs h]
  apply collapse_noSpace
  intro hm
  have := h ' ' hm
  simp [isWs] at this

theorem noWs_of_field {s w : Str} (hs : SpaceOnly s) (hsub : ∀ c ∈ w, c ∈ s) (hsp : ' ' ∉ w) : ∀ c ∈ w, isWs c = false := by
  intro c hc
  cases hw : isWs c with
  | false => rfl
  | true =>
    have := hs c (hsub c hc) hw
    subst this
    exact absurd hc hsp

theorem spaceOnly_stripWordsOnly {s : Str} (h : SpaceOnly s) : SpaceOnly (stripWordsOnly s) :=
  fun c hc => h c (mem_stripWordsOnly hc)

/-! #### `addClass` / `removeClass` act name by name -/

theorem foldl_skip_empty (f : List Str → Str → List Str) : ∀ (l : List Str) (cls : List Str),
    l.foldl (fun c w => if w.isEmpty then c else f c w) cls = (l.filter (fun w => decide (w ≠ []))).foldl f cls
  | [], _ => rfl
  | w :: l, cls => by
    by_cases hw : w = []
    · subst hw
      have e1 : ([] :: l).filter (fun w : Str => decide (w ≠ [])) = l.filter (fun w => decide (w ≠ [])) := by
        simp [List.filter]
      rw [e1, ← foldl_skip_empty f l cls]
      rfl
    · have e2 : (w :: l).filter (fun w : Str => decide (w ≠ [])) = w :: l.filter (fun w => decide (w ≠ [])) := by
        simp [List.filter, hw]
      have e3 : w.isEmpty = false := by simpa using hw
      rw [e2]
      simp only [List.foldl_cons, e3, Bool.false_eq_true, if_false]
      exact foldl_skip_empty f l _

theorem foldl_congr_mem {β : Type} (f g : β → Str → β) : ∀ (l : List Str) (b : β),
    (∀ w ∈ l, ∀ b, f b w = g b w) → l.foldl f b = l.foldl g b
  | [], _, _ => rfl
  | w :: l, b, h => by
    simp only [List.foldl_cons]
    rw [h w (by simp) b]
    exact foldl_congr_mem f g l _ (fun w' hw' => h w' (List.mem_cons_of_mem _ hw'))

theorem word_fold_eq (one : List Str → Str → List Str) (word : List Str → Str → List Str)
    (hword : ∀ c w, word c w = (let w' := stripWordsOnly w; if w'.isEmpty then c else one c w'))
    {s : Str} (hs : SpaceOnly s) (cls : List Str) :
    (if (stripWordsOnly s).isEmpty then cls
     else if (stripWordsOnly s).contains ' ' then (splitChar ' ' (stripWordsOnly s)).foldl word cls
     else one cls (stripWordsOnly s)) = (words s).foldl one cls := by
  unfold words
  have hs' := spaceOnly_stripWordsOnly hs
  generalize stripWordsOnly s = t at hs' ⊢
  by_cases ht : t.isEmpty = true
  · have : t = [] := by simpa using ht
    subst this
    simp [splitChar]
  · simp only [ht, if_false, Bool.false_eq_true]
    by_cases hsp : t.contains ' ' = true
    · simp only [hsp, if_true]
      rw [← foldl_skip_empty one]
      apply foldl_congr_mem
      intro w hw c
      have hf := mem_splitChar hw
      have hn := noWs_of_field hs' hf.2 hf.1
      rw [hword, stripWordsOnly_noWs hn]
    · simp only [hsp, if_false, Bool.false_eq_true]
      have hns : ' ' ∉ t := fun m => hsp (List.contains_iff_mem.mpr m)
      rw [splitChar_no_sep hns]
      have : t ≠ [] := by simpa using ht
      simp [List.filter, this]

/-- C09b: `addClass` with several space separated names adds them one by one -/
theorem addClassL_eq_fold {s : Str} (hs : SpaceOnly s) (cls : List Str) :
    addClassL s cls = (words s).foldl addOne cls := by
  unfold addClassL
  exact word_fold_eq addOne addWord (fun _ _ => rfl) hs cls

/-- C09b: `removeClass` with several space separated names removes them one by one -/
theorem rmClassL_eq_fold {s : Str} (hs : SpaceOnly s) (cls : List Str) :
    rmClassL s cls = (words s).foldl rmOne cls := by
  unfold rmClassL
  exact word_fold_eq rmOne rmWord (fun _ _ => rfl) hs cls

theorem addOne_of_mem {cls : List Str} {w : Str} (h : w ∈ cls) : addOne cls w = cls := by
  unfold addOne
  rw [if_pos (List.contains_iff_mem.mpr h)]

theorem addOne_of_not_mem {cls : List Str} {w : Str} (h : w ∉ cls) : addOne cls w = cls ++ [w] := by
  unfold addOne
  rw [if_neg (fun hc => h (List.contains_iff_mem.mp hc))]

theorem rmOne_of_not_mem {cls : List Str} {w : Str} (h : w ∉ cls) : rmOne cls w = cls := by
  unfold rmOne
  rw [if_neg (fun hc => h (List.contains_iff_mem.mp hc))]

theorem rmOne_of_mem {cls : List Str} {w : Str} (h : w ∈ cls) : rmOne cls w = cls.erase w := by
  unfold rmOne
  rw [if_pos (List.contains_iff_mem.mpr h)]

theorem foldl_addOne_of_all_mem : ∀ (ws : List Str) (cls : List Str), (∀ w ∈ ws, w ∈ cls) → ws.foldl addOne cls = cls
  | [], _, _ => rfl
  | w :: ws, cls, h => by
    simp only [List.foldl_cons]
    rw [addOne_of_mem (h w (by simp))]
    exact foldl_addOne_of_all_mem ws cls (fun x hx => h x (List.mem_cons_of_mem _ hx))

theorem foldl_rmOne_of_none_mem : ∀ (ws : List Str) (cls : List Str), (∀ w ∈ ws, w ∉ cls) → ws.foldl rmOne cls = cls
  | [], _, _ => rfl
  | w :: ws, cls, h => by
    simp only [List.foldl_cons]
    rw [rmOne_of_not_mem (h w (by simp))]
    exact foldl_rmOne_of_none_mem ws cls (fun x hx => h x (List.mem_cons_of_mem _ hx))

theorem nodup_addOne {cls : List Str} (h : cls.Nodup) (w : Str) : (addOne cls w).Nodup := by
  by_cases hm : w ∈ cls
  · rw [addOne_of_mem hm]; exact h
  · rw [addOne_of_not_mem hm]
    rw [List.nodup_append]
    refine ⟨h, by simp, ?_⟩
    intro a ha b hb
    simp at hb
    subst hb
    intro e; subst e
    exact hm ha

theorem nodup_addWord {cls : List Str} (h : cls.Nodup) (w : Str) : (addWord cls w).Nodup := by
  unfold addWord
  simp only
  split
  · exact h
  · exact nodup_addOne h _

theorem nodup_foldl_addWord : ∀ (ws : List Str) {cls : List Str}, cls.Nodup → (ws.foldl addWord cls).Nodup
  | [], _, h => h
  | w :: ws, _, h => by
    simp only [List.foldl_cons]
    exact nodup_foldl_addWord ws (nodup_addWord h w)

/-- C09b: `addClass` never introduces a duplicate (for every argument string) -/
theorem nodup_addClassL (s : Str) {cls : List Str} (h : cls.Nodup) : (addClassL s cls).Nodup := by
  unfold addClassL
  simp only
  split
  · exact h
  · split
    · exact nodup_foldl_addWord _ h
    · exact nodup_addOne h _

/-- the number of occurrences of a name never grows beyond one through `addClass` -/
theorem count_addOne (cls : List Str) (w x : Str) : (addOne cls w).count x ≤ max 1 (cls.count x) := by
  by_cases hm : w ∈ cls
  · rw [addOne_of_mem hm]; omega
  · rw [addOne_of_not_mem hm, List.count_append]
    by_cases hx : w = x
    · subst hx
      have : cls.count w = 0 := List.count_eq_zero.mpr hm
      simp [this]
    · have : List.count x [w] = 0 := by simp [List.count_cons, hx]
      omega

theorem count_addWord (cls : List Str) (w x : Str) : (addWord cls w).count x ≤ max 1 (cls.count x) := by
  unfold addWord
  simp only
  split
  · omega
  · exact count_addOne _ _ _

theorem count_foldl_addWord : ∀ (ws : List Str) (cls : List Str) (x : Str),
    (ws.foldl addWord cls).count x ≤ max 1 (cls.count x)
  | [], _, _ => by simp only [List.foldl_nil]; omega
  | w :: ws, cls, x => by
    simp only [List.foldl_cons]
    have h1 := count_foldl_addWord ws (addWord cls w) x
    have h2 := count_addWord cls w x
    omega

theorem count_addClassL (s : Str) (cls : List Str) (x : Str) : (addClassL s cls).count x ≤ max 1 (cls.count x) := by
  unfold addClassL
  simp only
  split
  · omega
  · split
    · exact count_foldl_addWord _ _ _
    · exact count_addOne _ _ _

/-! #### `Clean`: names free of white space and `&` -/

def GoodName (w : Str) : Prop := CleanName w ∧ '&' ∉ w

def Clean (e : El) : Prop := ∀ w ∈ e.cls, GoodName w

/-- an operand of the property: its only white space is the ASCII space, and it has no `&` -/
def GoodStr (s : Str) : Prop := ∀ c ∈ s, (isWs c = true → c = ' ') ∧ c ≠ '&'

theorem GoodStr.spaceOnly {s : Str} (h : GoodStr s) : SpaceOnly s := fun c hc => (h c hc).1

theorem goodName_of_sub {s w : Str} (hs : GoodStr s) (hne : w ≠ []) (hsp : ' ' ∉ w) (hsub : ∀ c ∈ w, c ∈ s) : GoodName w :=
  ⟨⟨hne, noWs_of_field hs.spaceOnly hsub hsp⟩, fun hm => (hs '&' (hsub '&' hm)).2 rfl⟩

theorem goodName_words {s w : Str} (hs : GoodStr s) (hw : w ∈ words s) : GoodName w :=
  have := mem_words hw
  goodName_of_sub hs this.1 this.2.1 this.2.2

theorem good_addOne {s : Str} (hs : GoodStr s) {cls : List Str} (hc : ∀ x ∈ cls, GoodName x) {w : Str}
    (hw : GoodName w) : ∀ x ∈ addOne cls w, GoodName x := by
  intro x hx
  unfold addOne at hx
  split at hx
  · exact hc x hx
  · rcases List.mem_append.mp hx with h | h
    · exact hc x h
    · simp at h; subst h; exact hw

theorem good_addWord {s : Str} (hs : GoodStr s) {cls : List Str} (hc : ∀ x ∈ cls, GoodName x) {w : Str}
    (hsp : ' ' ∉ w) (hsub : ∀ c ∈ w, c ∈ s) : ∀ x ∈ addWord cls w, GoodName x := by
  unfold addWord
  simp only
  split
  · exact hc
  · next hne =>
    apply good_addOne hs hc
    exact goodName_of_sub hs (by simpa using hne) (fun hm => hsp (mem_stripWordsOnly hm))
      (fun c hc' => hsub c (mem_stripWordsOnly hc'))

theorem good_foldl_addWord {s : Str} (hs : GoodStr s) : ∀ (ws : List Str) {cls : List Str}, (∀ x ∈ cls, GoodName x) →
    (∀ w ∈ ws, ' ' ∉ w ∧ ∀ c ∈ w, c ∈ s) → ∀ x ∈ ws.foldl addWord cls, GoodName x
  | [], _, hc, _ => by simpa using hc
  | w :: ws, _, hc, hw => by
    simp only [List.foldl_cons]
    have hw0 := hw w (by simp)
    exact good_foldl_addWord hs ws (good_addWord hs hc hw0.1 hw0.2) (fun w' h' => hw w' (List.mem_cons_of_mem _ h'))

theorem good_addClassL {s : Str} (hs : GoodStr s) {cls : List Str} (hc : ∀ x ∈ cls, GoodName x) :
    ∀ x ∈ addClassL s cls, GoodName x := by
  unfold addClassL
  simp only
  split
  · exact hc
  · next hne =>
    split
    · apply good_foldl_addWord hs _ hc
      intro w hw
      have := mem_splitChar hw
      exact ⟨this.1, fun c hc' => mem_stripWordsOnly (this.2 c hc')⟩
    · next hsp =>
      apply good_addOne hs hc
      exact goodName_of_sub hs (by simpa using hne) (stripWordsOnly_no_space (by simpa using hsp))
        (fun c hc' => mem_stripWordsOnly hc')

theorem not_mem_join {x : Char} (hx : x ≠ ' ') : ∀ (ws : List Str), (∀ w ∈ ws, x ∉ w) → x ∉ joinWith [' '] ws
  | [], _ => by simp [joinWith]
  | [w], h => by simpa [joinWith] using h w (by simp)
  | w :: w' :: ws, h => by
    rw [joinWith_cons_cons]
    intro hm
    rcases List.mem_append.mp hm with hm | hm
    · rcases List.mem_append.mp hm with hm | hm
      · exact h w (by simp) hm
      · simp at hm; exact hx hm
    · exact not_mem_join hx (w' :: ws) (fun y hy => h y (List.mem_cons_of_mem _ hy)) hm

theorem clean_of_eq {e e' : El} (h : e'.cls = e.cls) (hi : Clean e) : Clean e' := by
  unfold Clean; rw [h]; exact hi

theorem clean_setClassName {v : Option Str} (hv : ∀ s, v = some s → GoodStr s) (e : El) : Clean (setClassName v e) := by
  intro w hw
  cases v with
  | none =>
    have : w ∈ words [] := hw
    have h0 : words [] = [] := by decide
    rw [h0] at this
    cases this
  | some s => exact goodName_words (hv s rfl) hw

theorem goodStr_nil : GoodStr [] := fun c hc => by cases hc

theorem clean_mapSet (T : Tables) (k : Str) {v : Option Str} (hv : ∀ s, v = some s → GoodStr s) {e : El}
    (h : Clean e) : Clean (mapSet T k v e).2 := by
  unfold mapSet
  simp only
  split
  · exact h
  · split
    · dsimp only; unfold assignStyleFrom; exact clean_of_eq (assignStyle_cls _ _) h
    · split
      · exact clean_setClassName hv e
      · exact h

theorem clean_mapDel (k : Str) {e : El} (h : Clean e) : Clean (mapDel k e) := by
  unfold mapDel
  simp only
  split
  · exact clean_of_eq (assignStyle_cls _ _) h
  · split
    · exact clean_setClassName (v := some []) (fun s hs => by cases hs; exact goodStr_nil) e
    · exact h

theorem clean_setAttribute (T : Tables) (n : Str) {v : Option Str} (hv : ∀ s, v = some s → GoodStr s) {e : El}
    (h : Clean e) : Clean (setAttribute T n v e).2 := by
  unfold setAttribute
  split
  · exact h
  · exact clean_mapSet T n hv h

theorem clean_setAttributes (T : Tables) : ∀ (l : List (Str × Option Str)) {e : El},
    (∀ p ∈ l, ∀ s, p.2 = some s → GoodStr s) → Clean e → Clean (setAttributes T l e).2
  | [], _, _, h => h
  | (n, v) :: r, e, hl, h => by
    unfold setAttributes
    have h1 := clean_setAttribute T n (v := v) (hl (n, v) (by simp)) h
    split
    · next e' heq =>
      rw [heq] at h1
      exact clean_setAttributes T r (fun p hp => hl p (List.mem_cons_of_mem _ hp)) h1
    · next o e' _ heq => rw [heq] at h1; exact h1

theorem goodStr_strTrue : GoodStr strTrue := by
  intro c hc
  simp [strTrue] at hc
  rcases hc with h | h | h | h <;> subst h <;> decide

theorem goodStr_strFalse : GoodStr strFalse := by
  intro c hc
  simp [strFalse] at hc
  rcases hc with h | h | h | h | h <;> subst h <;> decide

theorem goodStr_boolString (v : DotVal) : GoodStr v.boolString := by
  cases v with
  | none => exact goodStr_strFalse
  | str s =>
    show GoodStr (if lower s = strFalse ∨ lower s = ['0'] then strFalse else strTrue)
    split
    · exact goodStr_strFalse
    · exact goodStr_strTrue
  | bool b =>
    cases b
    · exact goodStr_strFalse
    · exact goodStr_strTrue

theorem clean_dotSet (T : Tables) (n : Str) {v : DotVal} (hv : GoodStr v.tostr) {e : El} (h : Clean e) :
    Clean (dotSet T n v e).2 := by
  unfold dotSet
  split
  · apply clean_setClassName
    intro s hs
    cases v with
    | none => cases hs
    | str s' => simp at hs; subst hs; exact hv
    | bool b => simp at hs; subst hs; exact hv
  · split
    · exact h
    · next L _ =>
      split
      · exact h
      · split
        · have h1 := clean_setAttribute T L.attr (v := some v.boolString) (fun s hs => by cases hs; exact goodStr_boolString v) h
          split
          · next e' heq => rw [heq] at h1; exact clean_of_eq (getAttribute_cls _ _ _ _) h1
          · next r hne => exact h1
        · split
          · split
            · exact clean_setAttribute _ _ (fun s hs => by cases hs; exact goodStr_nil) h
            · exact clean_mapDel _ h
          · exact clean_setAttribute _ _ (fun s hs => by cases hs; exact hv) h

/-- the operands that can reach the class list are operands of the property -/
def GoodOp : Op → Prop
  | .setAttr _ v => ∀ s, v = some s → GoodStr s
  | .mapSet _ v => ∀ s, v = some s → GoodStr s
  | .className v => ∀ s, v = some s → GoodStr s
  | .setAttrs l => ∀ p ∈ l, ∀ s, p.2 = some s → GoodStr s
  | .dot _ v => GoodStr v.tostr
  | .addClass s => GoodStr s
  | _ => True

theorem clean_step (T : Tables) (op : Op) (hop : GoodOp op) {e : El} (h : Clean e) : Clean (step T e op).2 := by
  cases op <;> dsimp only [step]
  case setAttr n v => exact clean_setAttribute T n hop h
  case setAttrs l => exact clean_setAttributes T l hop h
  case rmAttr n => exact clean_mapDel _ h
  case mapSet n v => exact clean_mapSet T n hop h
  case mapDel n => exact clean_mapDel n h
  case dot n v => exact clean_dotSet T n hop h
  case addClass s => exact good_addClassL hop h
  case rmClass s => exact fun w hw => h w (rmClassL_subset s hw)
  case className v => exact clean_setClassName hop e
  case styDot n v => exact clean_of_eq (styleDotSet_cls n v e) h
  case styProp n v => exact clean_of_eq (setProperty_cls n v e) h
  case setStyle n v => exact clean_of_eq (styleDotSet_cls n v e) h
  case setStyles l => exact clean_of_eq (setStyles_cls l e) h
  case styAssign v => exact clean_of_eq (assignStyle_cls v e) h
  case styCopy src => unfold assignStyleFrom; exact clean_of_eq (assignStyle_cls _ e) h
  case stySelf => exact clean_of_eq (ensureStyle_cls e) h
  case sync => exact h

theorem clean_run (T : Tables) : ∀ (ops : List Op) {e : El}, (∀ op ∈ ops, GoodOp op) → Clean e → Clean (run T e ops)
  | [], _, _, h => h
  | op :: ops, e, hops, h => by
    unfold run
    simp only [List.foldl_cons]
    exact clean_run T ops (fun o ho => hops o (List.mem_cons_of_mem _ ho)) (clean_step T op (hops op (by simp)) h)

theorem clean_initStep (T : Tables) (p : Str × Option Str) (hp : ∀ s, p.2 = some s → GoodStr s) {e : El} (h : Clean e) :
    Clean (initStep T e p) := by
  unfold initStep
  simp only
  split
  · exact clean_mapSet _ _ hp h
  · exact h

theorem clean_foldl_initStep (T : Tables) : ∀ (l : List (Str × Option Str)) {e : El},
    (∀ p ∈ l, ∀ s, p.2 = some s → GoodStr s) → Clean e → Clean (l.foldl (initStep T) e)
  | [], _, _, h => h
  | p :: l, e, hl, h => by
    simp only [List.foldl_cons]
    exact clean_foldl_initStep T l (fun q hq => hl q (List.mem_cons_of_mem _ hq)) (clean_initStep T p (hl p (by simp)) h)

theorem clean_mk (T : Tables) (tag : Str) (sc : Bool) (attrs : List (Str × Option Str))
    (h : ∀ p ∈ attrs, ∀ s, p.2 = some s → GoodStr s) : Clean (mk T tag sc attrs) :=
  clean_foldl_initStep T attrs h (fun w hw => by simp [El.empty] at hw)

end AHP.Attrs
