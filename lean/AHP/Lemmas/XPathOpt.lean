/-
  Helper lemmas for C14b: the (repaired) compile-time folder `optimize` is sound.

  `MT` is a predicate at the level the folder sees it: a tree of binary operators whose leaves are
  arbitrary non-operator body elements (static values, or anything dynamic: generators, groups).
  `sfold k` folds an operator of class `k` exactly when both operands are (or have just become) static
  values; `optPass k` on the in-order list does the same (`optPass_tree`), and that changes no value
  (`sfold_sound`).
-/
import AHP.Lemmas.XPathFlat
namespace AHP.XPath

variable {N : Type}

def BE.isOp : BE N → Bool
  | .op _ => true
  | _ => false

inductive MT (N : Type) where
  | leaf (e : BE N)
  | node (o : Op) (l r : MT N)

namespace MT

def flat : MT N → List (BE N)
  | leaf e => [e]
  | node o l r => l.flat ++ .op o :: r.flat

def wf : Nat → MT N → Bool
  | _, leaf e => !e.isOp
  | k, node o l r => decide (o.cls < k) && wf (o.cls + 1) l && wf o.cls r

/-- the static value a tree consists of, if it is just that -/
def asVal : MT N → Option (Val N)
  | leaf (.val v) => some v
  | _ => none

theorem asVal_some {t : MT N} {v : Val N} (h : asVal t = some v) : t = leaf (.val v) := by
  cases t with
  | node _ _ _ => simp [asVal] at h
  | leaf e => cases e <;> simp [asVal] at h; subst h; rfl

/-- fold the operators of class `k` whose two operands are static values -/
def sfold (nm : Num N) (k : Nat) : MT N → Option (MT N)
  | leaf e => some (leaf e)
  | node o l r =>
    match l.sfold nm k, r.sfold nm k with
    | some l', some r' =>
      if o.cls = k then
        match asVal l', asVal r' with
        | some a, some b => (applyOp nm o a b).map (fun v => leaf (.val v))
        | _, _ => some (node o l' r')
      else some (node o l' r')
    | _, _ => none

theorem wf_mono {a b : Nat} (h : a ≤ b) {t : MT N} (hw : wf a t = true) : wf b t = true := by
  cases t with
  | leaf e => exact hw
  | node o l r =>
    simp only [wf, Bool.and_eq_true, decide_eq_true_eq] at hw ⊢
    exact ⟨⟨by omega, hw.1.2⟩, hw.2⟩

/-- a tree without operators of class `k` is left alone -/
theorem sfold_id (nm : Num N) {k : Nat} : ∀ {t : MT N}, wf k t = true → t.sfold nm k = some t := by
  intro t
  induction t with
  | leaf e => intro _; rfl
  | node o l r ihl ihr =>
    intro hw
    simp only [wf, Bool.and_eq_true, decide_eq_true_eq] at hw
    have hl := ihl (wf_mono (by omega) hw.1.2)
    have hr := ihr (wf_mono (by omega) hw.2)
    have : o.cls ≠ k := by omega
    simp [sfold, hl, hr, this]

theorem sfold_wf (nm : Num N) {k : Nat} : ∀ {t t' : MT N} {b : Nat}, wf b t = true → t.sfold nm k = some t' →
    wf b t' = true := by
  intro t
  induction t with
  | leaf e => intro t' b hw h; simp only [sfold, Option.some.injEq] at h; subst h; exact hw
  | node o l r ihl ihr =>
    intro t' b hw h
    simp only [wf, Bool.and_eq_true, decide_eq_true_eq] at hw
    simp only [sfold] at h
    cases hl : l.sfold nm k with
    | none => simp [hl] at h
    | some l' =>
      cases hr : r.sfold nm k with
      | none => simp [hl, hr] at h
      | some r' =>
        simp only [hl, hr] at h
        have wl := ihl hw.1.2 hl
        have wr := ihr hw.2 hr
        have hnode : wf b (node o l' r') = true := by
          simp only [wf, Bool.and_eq_true, decide_eq_true_eq]; exact ⟨⟨hw.1.1, wl⟩, wr⟩
        by_cases hk : o.cls = k
        · simp only [hk, ite_true] at h
          cases ha : asVal l' with
          | none => simp only [ha, Option.some.injEq] at h; subst h; exact hnode
          | some a =>
            cases hb : asVal r' with
            | none => simp only [ha, hb, Option.some.injEq] at h; subst h; exact hnode
            | some b' =>
              simp only [ha, hb] at h
              cases hap : applyOp nm o a b' with
              | none => rw [hap] at h; cases h
              | some v =>
                rw [hap] at h
                simp only [Option.map_some, Option.some.injEq] at h
                subst h; rfl
        · simp only [hk, ite_false, Option.some.injEq] at h; subst h; exact hnode

/-- the in-order list of a proper node starts with its leftmost leaf followed by an operator below the bound -/
theorem flat_node_head {b : Nat} : ∀ {t : MT N}, wf b t = true → (∀ e, t ≠ leaf e) →
    ∃ e o tl, t.flat = e :: .op o :: tl ∧ o.cls < b ∧ e.isOp = false := by
  intro t
  induction t generalizing b with
  | leaf e => intro _ h; exact absurd rfl (h e)
  | node o l r ihl _ =>
    intro hw _
    simp only [wf, Bool.and_eq_true, decide_eq_true_eq] at hw
    cases l with
    | leaf e =>
      refine ⟨e, o, r.flat, rfl, hw.1.1, ?_⟩
      have := hw.1.2
      simp only [wf, Bool.not_eq_eq_eq_not, Bool.not_true] at this
      exact this
    | node o2 l2 r2 =>
      obtain ⟨e, o', tl, hf, hc, he⟩ := ihl hw.1.2 (fun e h => by cases h)
      refine ⟨e, o', tl ++ .op o :: r.flat, ?_, by omega, he⟩
      simp only [flat] at hf ⊢
      rw [hf]; rfl

/-- …and, reversed, with its rightmost leaf followed by an operator below the bound -/
theorem flat_node_last {b : Nat} : ∀ {t : MT N}, wf b t = true → (∀ e, t ≠ leaf e) →
    ∃ e o tl, t.flat.reverse = e :: .op o :: tl ∧ o.cls < b ∧ e.isOp = false := by
  intro t
  induction t generalizing b with
  | leaf e => intro _ h; exact absurd rfl (h e)
  | node o l r _ ihr =>
    intro hw _
    simp only [wf, Bool.and_eq_true, decide_eq_true_eq] at hw
    cases r with
    | leaf e =>
      refine ⟨e, o, l.flat.reverse, by simp [flat], hw.1.1, ?_⟩
      have := hw.2
      simp only [wf, Bool.not_eq_eq_eq_not, Bool.not_true] at this
      exact this
    | node o2 l2 r2 =>
      obtain ⟨e, o', tl, hf, hc, he⟩ := ihr hw.2 (fun e h => by cases h)
      refine ⟨e, o', tl ++ .op o :: l.flat.reverse, ?_, by omega, he⟩
      have : (node o l (node o2 l2 r2)).flat.reverse =
          (node o2 l2 r2).flat.reverse ++ (.op o :: l.flat.reverse) := by
        simp [flat]
      rw [this, hf]; rfl

end MT

/-! ### equations of `optPass` -/

theorem optPass_nil (nm : Num N) (k : Nat) (s : Bool) (acc : List (BE N)) :
    optPass nm k s [] acc = some acc.reverse := by
  cases s <;> simp [optPass]

theorem optPass_skip (nm : Num N) (k : Nat) (e : BE N) (rest acc : List (BE N)) :
    optPass nm k true (e :: rest) acc = optPass nm k false rest acc := by
  conv => lhs; unfold optPass

theorem optPass_nonop (nm : Num N) (k : Nat) {e : BE N} (he : e.isOp = false) (rest acc : List (BE N)) :
    optPass nm k false (e :: rest) acc = optPass nm k false rest (e :: acc) := by
  cases e with
  | op o => simp [BE.isOp] at he
  | _ => conv => lhs; unfold optPass

theorem optPass_op_ne (nm : Num N) {k : Nat} {o : Op} (h : o.cls ≠ k) (rest acc : List (BE N)) :
    optPass nm k false (.op o :: rest) acc = optPass nm k false rest (.op o :: acc) := by
  conv => lhs; unfold optPass
  simp [h]

theorem optPass_op_eq (nm : Num N) {k : Nat} {o : Op} (h : o.cls = k) (rest acc : List (BE N)) :
    optPass nm k false (.op o :: rest) acc =
      match foldAt nm k o acc rest with
      | none => optPass nm k false rest (.op o :: acc)
      | some none => none
      | some (some v) => optPass nm k true rest (.val v :: acc.tail) := by
  conv => lhs; unfold optPass
  simp only [h, ite_true]
  cases foldAt nm k o acc rest with
  | none => rfl
  | some x => cases x <;> rfl

/-! ### the context of a subtree in the list -/

/-- what precedes a subtree whose operators have class `< b`: nothing, or an operator of class `≥ b` -/
def ctxL (b : Nat) : List (BE N) → Prop
  | [] => True
  | .op o :: _ => b ≤ o.cls
  | _ :: _ => False

/-- what follows it: nothing, or an operator of class `≥ b - 1` -/
def ctxR (b : Nat) : List (BE N) → Prop
  | [] => True
  | .op o :: _ => b ≤ o.cls + 1
  | _ :: _ => False

theorem ctxL_mono {a b : Nat} (h : a ≤ b) {l : List (BE N)} (hc : ctxL b l) : ctxL a l := by
  cases l with
  | nil => trivial
  | cons e tl => cases e <;> simp only [ctxL] at hc ⊢ <;> omega

theorem ctxR_mono {a b : Nat} (h : a ≤ b) {l : List (BE N)} (hc : ctxR b l) : ctxR a l := by
  cases l with
  | nil => trivial
  | cons e tl => cases e <;> simp only [ctxR] at hc ⊢ <;> omega

theorem leftOk_of_ctxL {k b : Nat} (h : k < b) {l : List (BE N)} (hc : ctxL b l) : leftOk k l = true := by
  cases l with
  | nil => rfl
  | cons e tl => cases e <;> simp only [ctxL, leftOk, decide_eq_true_eq] at hc ⊢ <;> omega

theorem rightOk_of_ctxR {k b : Nat} (h : k < b) {l : List (BE N)} (hc : ctxR b l) : rightOk k l = true := by
  cases l with
  | nil => rfl
  | cons e tl => cases e <;> simp only [ctxR, rightOk, decide_eq_true_eq] at hc ⊢ <;> omega

theorem foldAt_left_nonval (nm : Num N) (k : Nat) (o : Op) {e : BE N} (he : ∀ v, e ≠ .val v)
    (acc rest : List (BE N)) : foldAt nm k o (e :: acc) rest = none := by
  cases e with
  | val v => exact absurd rfl (he v)
  | _ => rfl

theorem foldAt_right_nonval (nm : Num N) (k : Nat) (o : Op) {e : BE N} (he : ∀ v, e ≠ .val v)
    (acc rest : List (BE N)) : foldAt nm k o acc (e :: rest) = none := by
  cases acc with
  | nil => rfl
  | cons x xs =>
    cases x with
    | val a =>
      cases e with
      | val v => exact absurd rfl (he v)
      | _ => rfl
    | _ => rfl

theorem foldAt_left_blocked (nm : Num N) {k : Nat} (o : Op) (e : BE N) {o5 : Op} (h : ¬ k < o5.cls)
    (tl rest : List (BE N)) : foldAt nm k o (e :: .op o5 :: tl) rest = none := by
  cases e with
  | val a =>
    cases rest with
    | nil => rfl
    | cons x xs =>
      cases x with
      | val b => simp [foldAt, leftOk, h]
      | _ => rfl
  | _ => rfl

theorem foldAt_right_blocked (nm : Num N) {k : Nat} (o : Op) (e : BE N) {o4 : Op} (h : ¬ k ≤ o4.cls)
    (acc tl : List (BE N)) : foldAt nm k o acc (e :: .op o4 :: tl) = none := by
  cases acc with
  | nil => rfl
  | cons x xs =>
    cases x with
    | val a =>
      cases e with
      | val b => simp [foldAt, rightOk, h]
      | _ => rfl
    | _ => rfl

theorem MT.asVal_none_leaf {e : BE N} (h : MT.asVal (MT.leaf e) = none) : ∀ v, e ≠ .val v := by
  intro v hv; subst hv; simp [MT.asVal] at h

/-! ### `optPass` on the in-order list = `sfold` on the tree -/

theorem optPass_tree (nm : Num N) (k : Nat) : ∀ (t : MT N) (b : Nat), MT.wf b t = true →
    ∀ (rest acc : List (BE N)), ctxL b acc → ctxR b rest →
      optPass nm k false (t.flat ++ rest) acc =
        (t.sfold nm k).bind (fun t' => optPass nm k false rest (t'.flat.reverse ++ acc)) := by
  intro t
  induction t with
  | leaf e =>
    intro b hw rest acc _ _
    simp only [MT.wf, Bool.not_eq_eq_eq_not, Bool.not_true] at hw
    simp only [MT.flat, MT.sfold, List.cons_append, List.nil_append, Option.bind_some, List.reverse_cons,
      List.reverse_nil]
    exact optPass_nonop nm k hw rest acc
  | node o l r ihl ihr =>
    intro b hw rest acc hL hR
    simp only [MT.wf, Bool.and_eq_true, decide_eq_true_eq] at hw
    obtain ⟨⟨hob, hwl⟩, hwr⟩ := hw
    simp only [MT.flat, List.append_assoc, List.cons_append]
    have hRl : ctxR (o.cls + 1) (BE.op o :: (r.flat ++ rest)) := by simp [ctxR]
    rw [ihl _ hwl _ _ (ctxL_mono (by omega) hL) hRl]
    simp only [MT.sfold]
    cases hl : l.sfold nm k with
    | none => simp
    | some l' =>
      simp only [Option.bind_some]
      have hwl' : MT.wf (o.cls + 1) l' = true := MT.sfold_wf nm hwl hl
      by_cases hk : o.cls = k
      · -- an operator of this pass
        have hrid : r.sfold nm k = some r := MT.sfold_id nm (by rw [← hk]; exact hwr)
        rw [hrid]
        simp only [hk, ite_true]
        rw [optPass_op_eq nm hk]
        have hLr : ctxL k (BE.op o :: (l'.flat.reverse ++ acc)) := by simp [ctxL, hk]
        have hpush : optPass nm k false (r.flat ++ rest) (BE.op o :: (l'.flat.reverse ++ acc)) =
            optPass nm k false rest ((MT.node o l' r).flat.reverse ++ acc) := by
          rw [ihr _ (by rw [← hk]; exact hwr) _ _ hLr (ctxR_mono (by omega) hR), hrid]
          simp [MT.flat]
        -- decide whether the folder applies the operator here
        cases ha : MT.asVal l' with
        | none =>
          simp only
          have hfa : foldAt nm k o (l'.flat.reverse ++ acc) (r.flat ++ rest) = none := by
            cases l' with
            | leaf e =>
              simp only [MT.flat, List.reverse_cons, List.reverse_nil, List.nil_append, List.cons_append]
              exact foldAt_left_nonval nm k o (MT.asVal_none_leaf ha) _ _
            | node o2 l2 r2 =>
              obtain ⟨e, o5, tl, hf, hc, he⟩ := MT.flat_node_last hwl' (fun e h => by cases h)
              rw [hf]
              exact foldAt_left_blocked nm o e (by omega) _ _
          rw [hfa]
          exact hpush
        | some a =>
          have hla := MT.asVal_some ha
          subst hla
          cases hb : MT.asVal r with
          | none =>
            simp only
            have hfa : foldAt nm k o ((MT.leaf (BE.val a)).flat.reverse ++ acc) (r.flat ++ rest) = none := by
              cases r with
              | leaf e =>
                simp only [MT.flat, List.cons_append, List.nil_append]
                exact foldAt_right_nonval nm k o (MT.asVal_none_leaf hb) _ _
              | node o2 l2 r2 =>
                obtain ⟨e, o4, tl, hf, hc, he⟩ := MT.flat_node_head hwr (fun e h => by cases h)
                rw [hf]
                exact foldAt_right_blocked nm o e (by omega) _ _
            rw [hfa]
            exact hpush
          | some vb =>
            have hrb := MT.asVal_some hb
            subst hrb
            -- both operands are static values: the folder applies the operator
            have hl1 : leftOk k acc = true := leftOk_of_ctxL (by omega) hL
            have hr1 : rightOk k rest = true := rightOk_of_ctxR (by omega) hR
            simp only [MT.flat, List.reverse_cons, List.reverse_nil, List.nil_append, List.cons_append,
              foldAt, hl1, hr1, Bool.and_self, ite_true]
            cases applyOp nm o a vb with
            | none => rfl
            | some v =>
              simp only [Option.map_some, Option.bind_some, List.tail_cons, MT.flat, List.reverse_cons,
                List.reverse_nil, List.nil_append, List.cons_append]
              exact optPass_skip nm k _ rest _
      · rw [optPass_op_ne nm hk]
        have hLr : ctxL o.cls (BE.op o :: (l'.flat.reverse ++ acc)) := by simp [ctxL]
        rw [ihr _ hwr _ _ hLr (ctxR_mono (by omega) hR)]
        cases hr : r.sfold nm k with
        | none => simp
        | some r' => simp [hk, MT.flat]

/-! ### semantics of mixed trees -/

/-- resolving a non-operator element yields a value -/
theorem resolve_nonop_val (nm : Num N) (c : Ctx) {e e' : BE N} (he : e.isOp = false)
    (h : resolve nm c e = some e') : ∃ v, e' = .val v := by
  cases e with
  | op o => simp [BE.isOp] at he
  | val v => simp only [resolve, Option.some.injEq] at h; exact ⟨v, h.symm⟩
  | attr name =>
    simp only [resolve] at h
    split at h
    · cases h
    · split at h <;> (simp only [Option.some.injEq] at h; exact ⟨_, h.symm⟩)
  | text => simp only [resolve, Option.some.injEq] at h; exact ⟨_, h.symm⟩
  | last => simp only [resolve, Option.some.injEq] at h; exact ⟨_, h.symm⟩
  | position => simp only [resolve, Option.some.injEq] at h; exact ⟨_, h.symm⟩
  | nspace0 => simp only [resolve, Option.some.injEq] at h; exact ⟨_, h.symm⟩
  | group l =>
    simp only [resolve] at h
    split at h
    · rename_i l'' _
      cases hr : reduce nm l'' with
      | none => rw [hr] at h; cases h
      | some v => rw [hr] at h; simp only [Option.map_some, Option.some.injEq] at h; exact ⟨v, h.symm⟩
    · cases h
  | concatFn args =>
    rw [resolve_concat_eq] at h
    cases hv : concatVal ((resolveList nm c args).bind vals) with
    | none => simp [hv] at h
    | some v => simp only [hv, Option.map_some, Option.some.injEq] at h; exact ⟨v, h.symm⟩
  | containsFn a b =>
    rw [resolve_contains_eq] at h
    cases hv : containsVal nm (valOf (resolve nm c a)) (valOf (resolve nm c b)) with
    | none => simp [hv] at h
    | some v => simp only [hv, Option.map_some, Option.some.injEq] at h; exact ⟨v, h.symm⟩
  | nspace1 a =>
    rw [resolve_nspace1_eq] at h
    cases hv : nspaceVal (valOf (resolve nm c a)) with
    | none => simp [hv] at h
    | some v => simp only [hv, Option.map_some, Option.some.injEq] at h; exact ⟨v, h.symm⟩

/-- the value tree of a mixed tree for one tag -/
def MT.toVT (nm : Num N) (c : Ctx) : MT N → Option (VT N)
  | .leaf e => (valOf (resolve nm c e)).map .leaf
  | .node o l r =>
    match l.toVT nm c, r.toVT nm c with
    | some a, some b => some (.node o a b)
    | _, _ => none

theorem MT.resolve_flat (nm : Num N) (c : Ctx) : ∀ (t : MT N) (b : Nat), MT.wf b t = true →
    resolveList nm c t.flat = (t.toVT nm c).map VT.flat ∧ ∀ s, t.toVT nm c = some s → VT.wf b s = true := by
  intro t
  induction t with
  | leaf e =>
    intro b hw
    simp only [MT.wf, Bool.not_eq_eq_eq_not, Bool.not_true] at hw
    simp only [MT.flat, MT.toVT, resolveList_single]
    cases hr : resolve nm c e with
    | none => exact ⟨rfl, by intro s h; simp [valOf] at h⟩
    | some e' =>
      obtain ⟨v, rfl⟩ := resolve_nonop_val nm c hw hr
      refine ⟨rfl, ?_⟩
      intro s h
      simp only [valOf, Option.map_some, Option.some.injEq] at h
      subst h; rfl
  | node o l r ihl ihr =>
    intro b hw
    simp only [MT.wf, Bool.and_eq_true, decide_eq_true_eq] at hw
    have ⟨hl, hlw⟩ := ihl _ hw.1.2
    have ⟨hr, hrw⟩ := ihr _ hw.2
    refine ⟨?_, ?_⟩
    · simp only [MT.flat, MT.toVT]
      rw [show l.flat ++ BE.op o :: r.flat = l.flat ++ ([BE.op o] ++ r.flat) from rfl]
      rw [resolveList_append, resolveList_append, hl, hr]
      simp only [resolveList, resolve]
      cases l.toVT nm c <;> cases r.toVT nm c <;> simp [VT.flat]
    · intro s h
      simp only [MT.toVT] at h
      cases h1 : l.toVT nm c with
      | none => simp [h1] at h
      | some a =>
        cases h2 : r.toVT nm c with
        | none => simp [h1, h2] at h
        | some b' =>
          simp only [h1, h2, Option.some.injEq] at h
          subst h
          simp only [VT.wf, Bool.and_eq_true, decide_eq_true_eq]
          exact ⟨⟨hw.1.1, hlw a h1⟩, hrw b' h2⟩

/-- the value of a mixed tree for one tag -/
def MT.eval (nm : Num N) (c : Ctx) (t : MT N) : Option (Val N) := (t.toVT nm c).bind (VT.eval nm)

theorem MT.evalLevel_flat (nm : Num N) (c : Ctx) (t : MT N) (hw : MT.wf 3 t = true) :
    evalLevel nm c t.flat = t.eval nm c := by
  have ⟨h1, h2⟩ := MT.resolve_flat nm c t 3 hw
  unfold evalLevel MT.eval
  rw [h1]
  cases h : t.toVT nm c with
  | none => rfl
  | some s => simp only [Option.map_some, Option.bind_some]; exact reduce_flat nm s (h2 s h)

theorem MT.eval_node (nm : Num N) (c : Ctx) (o : Op) (l r : MT N) :
    (MT.node o l r).eval nm c =
      match l.eval nm c, r.eval nm c with
      | some a, some b => applyOp nm o a b
      | _, _ => none := by
  simp only [MT.eval, MT.toVT]
  cases l.toVT nm c with
  | none => rfl
  | some a =>
    cases r.toVT nm c with
    | none => simp only [Option.bind_some, Option.bind_none]; cases VT.eval nm a <;> rfl
    | some b =>
      simp only [Option.bind_some, VT.eval]
      cases VT.eval nm a <;> cases VT.eval nm b <;> rfl

theorem MT.eval_val (nm : Num N) (c : Ctx) (v : Val N) : (MT.leaf (BE.val v)).eval nm c = some v := by
  simp [MT.eval, MT.toVT, resolve, valOf, VT.eval]

/-- Folding static operands changes no value; a fold that raises means the level raises for every tag. -/
theorem sfold_sound (nm : Num N) (c : Ctx) (k : Nat) : ∀ (t : MT N),
    match t.sfold nm k with
    | some t' => t'.eval nm c = t.eval nm c
    | none => t.eval nm c = none := by
  intro t
  induction t with
  | leaf e => simp [MT.sfold]
  | node o l r ihl ihr =>
    simp only [MT.sfold]
    cases hl : l.sfold nm k with
    | none =>
      rw [hl] at ihl
      simp only [MT.eval_node, ihl]
    | some l' =>
      rw [hl] at ihl
      cases hr : r.sfold nm k with
      | none =>
        rw [hr] at ihr
        simp only [MT.eval_node, ihr]
        cases l.eval nm c <;> rfl
      | some r' =>
        rw [hr] at ihr
        simp only at ihl ihr
        have hnode : (MT.node o l' r').eval nm c = (MT.node o l r).eval nm c := by
          simp only [MT.eval_node, ihl, ihr]
        by_cases hk : o.cls = k
        · simp only [hk, ite_true]
          cases ha : MT.asVal l' with
          | none => exact hnode
          | some a =>
            cases hb : MT.asVal r' with
            | none => exact hnode
            | some b =>
              have e1 := MT.asVal_some ha
              have e2 := MT.asVal_some hb
              subst e1 e2
              have heq : (MT.node o l r).eval nm c = applyOp nm o a b := by
                rw [← hnode, MT.eval_node, MT.eval_val, MT.eval_val]
              cases hap : applyOp nm o a b with
              | none => rw [heq]; simp only [hap, Option.map_none]
              | some v => rw [heq]; simp only [hap, Option.map_some]; exact MT.eval_val nm c v
        · simp only [hk, ite_false]; exact hnode

/-- C14b core: the folder on the in-order list of a well-formed mixed tree. -/
theorem optimize_sound (nm : Num N) (c : Ctx) (t : MT N) (hw : MT.wf 3 t = true) :
    match optimize nm t.flat with
    | some l' => evalLevel nm c l' = evalLevel nm c t.flat
    | none => evalLevel nm c t.flat = none := by
  unfold optimize
  by_cases hlen : t.flat.length ≤ 2
  · simp only [hlen, ite_true]
  · simp only [hlen, ite_false]
    have p0 := optPass_tree nm 0 t 3 hw [] [] trivial trivial
    simp only [List.append_nil, optPass_nil, List.reverse_reverse] at p0
    rw [p0]
    have s0 := sfold_sound nm c 0 t
    cases h0 : t.sfold nm 0 with
    | none =>
      rw [h0] at s0
      simp only [Option.bind_none]
      rw [MT.evalLevel_flat nm c t hw]; exact s0
    | some t0 =>
      rw [h0] at s0
      simp only [Option.bind_some]
      have w0 := MT.sfold_wf nm hw h0
      have p1 := optPass_tree nm 1 t0 3 w0 [] [] trivial trivial
      simp only [List.append_nil, optPass_nil, List.reverse_reverse] at p1
      rw [p1]
      have s1 := sfold_sound nm c 1 t0
      cases h1 : t0.sfold nm 1 with
      | none =>
        rw [h1] at s1
        simp only [Option.bind_none]
        rw [MT.evalLevel_flat nm c t hw, ← s0]; exact s1
      | some t1 =>
        rw [h1] at s1
        simp only [Option.bind_some]
        have w1 := MT.sfold_wf nm w0 h1
        rw [MT.evalLevel_flat nm c t1 w1, MT.evalLevel_flat nm c t hw, s1, s0]

end AHP.XPath
