/-
  AHP.Lemmas.XPathValues — the model's leaf functions (`applyCmp`, `rawEq`, `toFloat`, `keepTag`, `isNth`, `Doc.ctx`)
  against the independent readings of the property's value-level clauses in AHP.Model.XPathSpec (`Ctx.lacks`,
  `IsNumeric`, `numRel`, `natRel`, `specPos`, `specLast`).
-/
import AHP.Lemmas.XPathSteps
import AHP.Lemmas.XPathDoc
import AHP.Lemmas.XPathNum
namespace AHP.XPath

section
variable {N : Type} (nm : Num N)

/-! ### absent attributes -/

theorem lookupAttr_none_of_lacks : ∀ (l : List (Str × Str)) (k : Str), (∀ v, (k, v) ∉ l) → lookupAttr l k = none
  | [], _, _ => rfl
  | (k', v') :: r, k, h => by
    have hne : k' ≠ k := fun e => h v' (by simp [e])
    simp only [lookupAttr, if_neg hne]
    exact lookupAttr_none_of_lacks r k (fun v hv => h v (by simp [hv]))

/-- `@name` on an element without that attribute is Null -/
theorem evalP_absent_attr (c : Ctx) (name : Str) (hs : name.contains '*' = false) (h : c.lacks name) :
    evalP nm c (.attr name) = some .null := by
  have hs' : ¬ '*' ∈ name := by simpa using hs
  simp [evalP, hs', lookupAttr_none_of_lacks c.attrs (lower name) h]

theorem applyCmp_null_left (v : Val N) (hv : v.isNull = false) :
    applyCmp nm .eq .null v = some (.bool false) ∧ applyCmp nm .ne .null v = some (.bool true) := by
  cases v <;> simp [applyCmp, toFloat, rawEq, Val.isNull] at hv ⊢

theorem applyCmp_null_right (v : Val N) (hv : v.isNull = false) :
    applyCmp nm .eq v .null = some (.bool false) ∧ applyCmp nm .ne v .null = some (.bool true) := by
  cases v with
  | null => simp [Val.isNull] at hv
  | num x => simp [applyCmp, toFloat, rawEq]
  | bool b => simp [applyCmp, toFloat, rawEq]
  | str s => cases h : nm.parse s <;> simp [applyCmp, toFloat, rawEq, h]

theorem ctx_attrs (d : Doc) (i : Nat) : (d.ctx i).attrs = (d.getD i default).attrs := by
  unfold Doc.ctx
  cases d.sameNamed i <;> rfl

theorem ctx_lacks_of_doc {d : Doc} {i : Nat} {name : Str} (h : d.lacksAttr i name) : (d.ctx i).lacks name := by
  intro v
  rw [ctx_attrs]
  exact h v

/-! ### numeric comparison -/

theorem toFloat_of_numeric {v : Val N} {x : N} (h : IsNumeric nm v x) : toFloat nm v = some x := by
  cases h with
  | num => rfl
  | str s x hs => simpa [toFloat] using hs
  | bool b => rfl

theorem applyCmp_numeric (o : CmpOp) {a b : Val N} {x y : N} (ha : IsNumeric nm a x) (hb : IsNumeric nm b y) :
    applyCmp nm o a b = some (.bool (numRel nm o x y)) := by
  simp only [applyCmp, toFloat_of_numeric nm ha, toFloat_of_numeric nm hb]
  cases o <;> rfl

theorem numRel_ofNat (hl : LawfulNum nm) (o : CmpOp) (a b : Nat) :
    numRel nm o (nm.ofNat a) (nm.ofNat b) = natRel o a b := by
  cases o <;> simp [numRel, natRel, hl.eq_ofNat, hl.lt_ofNat, hl.le_ofNat]

/-- a decimal literal as a string value is numeric, with the number it denotes -/
theorem natLit_numeric (hl : LawfulNum nm) (ds : List (Fin 10)) (h : ds ≠ []) :
    IsNumeric nm (.str (natLit ds)) (nm.ofNat (digitsVal ds)) :=
  .str _ _ (hl.parse_natLit ds h)

/-! ### position among the same-named siblings -/

theorem idxOf_filter_range' (g : Nat → Bool) : ∀ (n s x : Nat), s ≤ x → x < s + n → g x = true →
    idxOf x ((List.range' s n).filter g) = ((List.range' s (x - s)).filter g).length
  | 0, s, x, h1, h2, _ => by omega
  | n + 1, s, x, h1, h2, hg => by
    rw [List.range'_succ]
    by_cases hsx : s = x
    · subst hsx
      simp [List.filter, hg, idxOf]
    · have hlt : s < x := by omega
      have ih := idxOf_filter_range' g n (s + 1) x (by omega) (by omega) hg
      have hx : x - s = (x - (s + 1)) + 1 := by omega
      rw [hx, List.range'_succ]
      cases hgs : g s
      · simp only [List.filter, hgs]
        exact ih
      · simp only [List.filter, hgs, idxOf, if_neg hsx, List.length_cons]
        rw [ih]

/-- the row filter of `specPos` / `specLast` is the code's `childrenOfRelevance` -/
theorem sameNamed_eq (d : Doc) (i p : Nat) (h : d.parent i = some p) :
    d.sameNamed i = some ((List.range d.length).filter
      (fun j => decide (d.parent j = some p) && decide (d.name j = d.name i))) := by
  simp only [Doc.sameNamed, h, Doc.children, List.filter_filter]
  congr 1
  apply List.filter_congr
  intro j _
  by_cases h1 : d.parent j = some p <;> by_cases h2 : d.name j = d.name i <;> simp [h1, h2]

theorem ctx_pos (d : Doc) (i : Nat) : (d.ctx i).pos = specPos d i := by
  unfold Doc.ctx specPos
  cases h : d.parent i with
  | none => simp [Doc.sameNamed, h]
  | some p =>
    have hi : i < d.length := parent_lt_length d i p h
    rw [sameNamed_eq d i p h]
    simp only [List.range_eq_range']
    rw [idxOf_filter_range' _ d.length 0 i (Nat.zero_le _) (by omega) (by simp [h])]
    simp

/-- `specPos` through the parent's child list: the index of `i` among the children of its parent that carry its name -/
theorem specPos_eq_idx (d : Doc) (i p : Nat) (h : d.parent i = some p) :
    specPos d i = idxOf i ((d.children p).filter (fun c => d.name c = d.name i)) + 1 := by
  rw [← ctx_pos]
  simp [Doc.ctx, Doc.sameNamed, h]

theorem ctx_last (d : Doc) (i : Nat) : (d.ctx i).last = specLast d i := by
  unfold Doc.ctx specLast
  cases h : d.parent i with
  | none => simp [Doc.sameNamed, h]
  | some p => rw [sameNamed_eq d i p h]

theorem isNth_ofNat (d : Doc) (i n : Nat) : isNth d i (Int.ofNat n) = decide (specPos d i = n) := by
  unfold isNth specPos
  cases h : d.parent i with
  | none =>
    simp only [Doc.sameNamed, h]
    by_cases hn : n = 1
    · subst hn; rfl
    · have : ¬ (1 = n) := fun e => hn e.symm
      have h2 : ¬ ((Int.ofNat n) = 1) := by
        intro e
        have : (Int.ofNat n) = Int.ofNat 1 := e
        exact hn (Int.ofNat.inj this)
      simp only [Int.ofNat_eq_natCast] at h2
      simp [this, h2]
  | some p =>
    have hi : i < d.length := parent_lt_length d i p h
    rw [sameNamed_eq d i p h]
    simp only [List.range_eq_range']
    rw [idxOf_filter_range' _ d.length 0 i (Nat.zero_le _) (by omega) (by simp [h])]
    simp only [Nat.sub_zero]
    generalize ((List.range' 0 i).filter _).length = k
    by_cases hk : k + 1 = n
    · subst hk; simp
    · have h2 : ¬ (Int.ofNat k + 1 = Int.ofNat n) := by
        intro e
        apply hk
        have : Int.ofNat (k + 1) = Int.ofNat n := e
        exact Int.ofNat.inj this
      simp only [Int.ofNat_eq_natCast] at h2
      simp [hk, h2]

/-- the keep / drop decision for a predicate whose value is the number `n` -/
theorem keepTag_ofNat (hl : LawfulNum nm) (d : Doc) (i n : Nat) :
    keepTag nm d i (.num (nm.ofNat n)) = some (decide (specPos d i = n)) := by
  simp only [keepTag, hl.toIndex_ofNat, isNth_ofNat]

/-- a predicate whose value on element `i` is the number `f i` keeps exactly the elements that are the `f i`-th among
    their same-named siblings -/
theorem specFilter_nth (hl : LawfulNum nm) (d : Doc) (f : Nat → Nat) (p : P N)
    (hp : ∀ i, evalP nm (d.ctx i) p = some (.num (nm.ofNat (f i)))) :
    ∀ cur : List Nat, specFilter nm d p cur = some (cur.filter (fun i => decide (specPos d i = f i)))
  | [] => rfl
  | i :: rest => by
    simp only [specFilter, specKeep, hp i, Option.bind_some, keepTag_ofNat nm hl, specFilter_nth hl d f p hp rest,
      List.filter]
    cases decide (specPos d i = f i) <;> rfl

end
end AHP.XPath
