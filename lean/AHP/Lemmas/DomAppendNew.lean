/-
  AHP.Lemmas.DomAppendNew — the EXACT state of the target after the loop of `appendBlocks` over freshly created
  blocks (review B, M6: a direct statement about the new elements, not only the world invariant): its blocks are
  the old ones followed by the new blocks, each element block attached (`parentNode` = the target, `ownerDocument`
  of it and of everything below it = the target's), and the target keeps uid, name, attributes, parent and owner.
-/
import AHP.Lemmas.DomMove
namespace AHP.Dom
open AHP.Dom.Spec

/-- what `appendBlock` puts into the target `m` for a block: text as it is, an element attached -/
def attachBlk (m : Meta) : DN → DN
  | .text s => .text s
  | .el mc kc => attach m (.el mc kc)

theorem attachBlk_congr {m1 m2 : Meta} (hi : m2.id = m1.id) (ho : m2.owner = m1.owner) (l : List DN) :
    l.map (attachBlk m2) = l.map (attachBlk m1) := by
  apply List.map_congr_left
  intro b _
  cases b with
  | text s => rfl
  | el mc kc => exact attach_congr hi ho _

theorem appendLoop_exact (t : Nat) (l : List DN) :
    ∀ (R : List DN) (next nd : Nat) (m : Meta) (bs : List DN) (W' : World),
      findL? t R = some (m, bs) → Inv ⟨R ++ l.filter DN.isEl, next, nd⟩ →
      World.appendBlocksLoop ⟨R ++ l.filter DN.isEl, next, nd⟩ t (l.map toBlk) = some W' →
      ∃ m', W'.find? t = some (m', bs ++ l.map (attachBlk m)) ∧ KeepsIdent m m' := by
  induction l with
  | nil =>
    intro R next nd m bs W' hf _ h
    simp only [List.filter_nil, List.append_nil, List.map_nil, World.appendBlocksLoop, Option.some.injEq] at h
    subst h
    exact ⟨m, by simpa [World.find?] using hf, KeepsIdent.refl m⟩
  | cons b rest ih =>
    intro R next nd m bs W' hf hinv h
    have hmem : t ∈ idsL R := findL?_mem t R hf
    have hnd := hinv.nodup
    simp only [idsL_append] at hnd
    have hdis := (List.nodup_append.mp hnd).2.2
    cases b with
    | text s =>
      have hfilt : (DN.text s :: rest).filter DN.isEl = rest.filter DN.isEl := by simp [List.filter, DN.isEl]
      rw [hfilt] at hinv hdis h
      have hnotL : t ∉ idsL (rest.filter DN.isEl) := fun hx => hdis t hmem t hx rfl
      simp only [List.map_cons, toBlk, World.appendBlocksLoop] at h
      cases hstep : World.appendBlock ⟨R ++ rest.filter DN.isEl, next, nd⟩ t (.txt s) with
      | none => rw [hstep] at h; simp at h
      | some r =>
        rw [hstep] at h
        simp only at h
        have hinv' : Inv r.1 := appendBlock_Inv (w' := r.1) (v := r.2) hinv (by simpa using hstep)
        have hfind : World.find? ⟨R ++ rest.filter DN.isEl, next, nd⟩ t = some (m, bs) := findL?_append_some t R _ hf
        have hr : r.1 = ⟨(updL t (fun m bs => locAppendText s m bs) R).1 ++ rest.filter DN.isEl, next, nd⟩ := by
          simp only [World.appendBlock, World.appendText, World.apply, hfind, Option.map_some, Option.some.injEq] at hstep
          rw [← hstep]
          exact (edit_append_step t _ (fun _ _ => rfl) (fun _ _ => rfl) R _ next nd hf hnotL).1
        have hf' := (edit_append_step t (fun m bs => locAppendText s m bs) (fun _ _ => rfl) (fun _ _ => rfl) R
          (rest.filter DN.isEl) next nd hf hnotL).2
        rw [hr] at hinv' h
        obtain ⟨m', h1, h2⟩ := ih _ next nd _ _ W' hf' hinv' h
        have hk : KeepsIdent m (locAppendText s m bs).m := ⟨rfl, rfl, rfl, rfl, rfl⟩
        refine ⟨m', ?_, hk.trans h2⟩
        rw [h1, attachBlk_congr (m1 := m) hk.1 hk.2.2.2.2 rest]
        simp [locAppendText, attachBlk]
    | el mc kc =>
      have hfilt : (DN.el mc kc :: rest).filter DN.isEl = DN.el mc kc :: rest.filter DN.isEl := by simp [List.filter, DN.isEl]
      rw [hfilt] at hinv hdis h
      have hcR : mc.id ∉ idsL R := fun hx => hdis mc.id hx mc.id (by simp) rfl
      have htake := takeRoot_skip mc.id R (DN.el mc kc) (rest.filter DN.isEl) hcR rfl
      have hnotL : t ∉ idsL (rest.filter DN.isEl) := fun hx => hdis t hmem t (by simp [hx]) rfl
      simp only [List.map_cons, toBlk, World.appendBlocksLoop] at h
      cases hstep : World.appendBlock ⟨R ++ DN.el mc kc :: rest.filter DN.isEl, next, nd⟩ t (.elm mc.id) with
      | none => rw [hstep] at h; simp at h
      | some r =>
        rw [hstep] at h
        simp only at h
        have hinv' : Inv r.1 := appendBlock_Inv (w' := r.1) (v := r.2) hinv (by simpa using hstep)
        have hfind : findL? t (R ++ rest.filter DN.isEl) = some (m, bs) := findL?_append_some t R _ hf
        have hr : r.1 = ⟨(updL t (fun m bs => locAppendChild (DN.el mc kc) m bs) R).1 ++ rest.filter DN.isEl, next, nd⟩ := by
          simp only [World.appendBlock, World.appendChild, htake, World.apply, World.find?, hfind, Option.some.injEq] at hstep
          rw [← hstep]
          exact (edit_append_step t _ (fun _ _ => rfl) (fun _ _ => rfl) R _ next nd hf hnotL).1
        have hf' := (edit_append_step t (fun m bs => locAppendChild (DN.el mc kc) m bs) (fun _ _ => rfl) (fun _ _ => rfl) R
          (rest.filter DN.isEl) next nd hf hnotL).2
        rw [hr] at hinv' h
        obtain ⟨m', h1, h2⟩ := ih _ next nd _ _ W' hf' hinv' h
        have hk : KeepsIdent m (locAppendChild (DN.el mc kc) m bs).m := ⟨rfl, rfl, rfl, rfl, rfl⟩
        refine ⟨m', ?_, hk.trans h2⟩
        rw [h1, attachBlk_congr (m1 := m) hk.1 hk.2.2.2.2 rest]
        simp [locAppendChild, attachBlk]

/-- an attached root: `parentNode` is the target, and everything in it carries the target's `ownerDocument` -/
theorem attachBlk_el_spec (m : Meta) (b : DN) (hb : RootOK b) {mc : Meta} {kc : List DN}
    (h : attachBlk m b = .el mc kc) :
    mc.parent = some m.id ∧ mc.id = b.rid ∧ ∀ e ∈ elems (.el mc kc), e.1.owner = m.owner := by
  obtain ⟨m0, bs0, rfl, hok⟩ := hb
  have hk : OK (some m.id) m.owner (attach m (.el m0 bs0)) := attach_OK m _ hok
  have hid : (attach m (.el m0 bs0)).rid = m0.id := by rw [rid_attach]; rfl
  simp only [attachBlk] at h
  rw [h] at hk hid
  refine ⟨?_, by simpa [DN.rid] using hid, fun e he => elems_owner _ hk he⟩
  simp only [OK_el] at hk
  exact hk.1

theorem mem_map_attachBlk_el (m : Meta) (l : List DN) {mc : Meta} {kc : List DN}
    (h : DN.el mc kc ∈ l.map (attachBlk m)) : ∃ b ∈ l.filter DN.isEl, attachBlk m b = .el mc kc := by
  obtain ⟨b, hb, e⟩ := List.mem_map.1 h
  cases b with
  | text s => simp [attachBlk] at e
  | el m0 k0 => exact ⟨_, by simp [List.mem_filter, hb, DN.isEl], e⟩

theorem el_mem_idsL : ∀ (l : List DN) {m0 : Meta} {k0 : List DN}, DN.el m0 k0 ∈ l → (DN.el m0 k0).rid ∈ idsL l
  | [], _, _, h => by cases h
  | x :: xs, m0, k0, h => by
    simp only [List.mem_cons] at h
    simp only [idsL_cons, List.mem_append]
    rcases h with rfl | h
    · left; simp [DN.rid]
    · exact Or.inr (el_mem_idsL xs h)

end AHP.Dom
