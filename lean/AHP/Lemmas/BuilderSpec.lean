/-
  The refinement between the open-element stack machine and the recursive-descent specification
  (core of C02a; also used by C03 and C13).
-/
import AHP.Lemmas.Builder
namespace AHP
open Spec

/-- inside an open element every callback succeeds -/
theorem stepT_text_ok (s : TState) (h : s.stack ≠ []) (t : Str) :
    addTextStrict s t = .ok (addNode s (.text t)) := by
  unfold addTextStrict
  cases hs : s.stack with
  | nil => exact absurd hs h
  | cons f fs => simp

theorem handleStart_inside (s : TState) (h : s.stack ≠ []) (n : Str) (a : List Attr) (sc : Bool) :
    handleStart s n a sc =
      if (sc || Spec.isVoid (lower n)) then .ok (addNode s (.elem (lower n) (intake a AttrState.empty) true []))
      else .ok { s with stack := ⟨lower n, intake a AttrState.empty, []⟩ :: s.stack } := by
  unfold handleStart
  have : (!s.hasRoot || !s.stack.isEmpty) = true := by
    cases hs : s.stack with
    | nil => exact absurd hs h
    | cons f fs => simp
  simp only [this, if_true, isVoid_eq]

/-- main refinement lemma: processing `ts` on the stack machine inside an open element and closing
    everything at the end equals adding the recursive-descent items and continuing with the rest -/
theorem runT_items (k : Nat) : ∀ (s : TState) (ts : List Token), ts.length < k → s.stack ≠ [] →
    (runT s ts).fin = (runT (addNodes s (items k (names s) ts).1) (items k (names s) ts).2).fin := by
  induction k with
  | zero => intro _ ts h; simp at h
  | succ k ih =>
    intro s ts hk hne
    cases ts with
    | nil => simp [items, addNodes]
    | cons t ts =>
      have hk' : ts.length < k := by simp at hk; omega
      -- a token that adds one finished block
      have hleaf : ∀ (c : Node), stepT s t = .ok (addNode s c) →
          (items (k + 1) (names s) (t :: ts)) = (c :: (items k (names s) ts).1, (items k (names s) ts).2) →
          (runT s (t :: ts)).fin
            = (runT (addNodes s (items (k + 1) (names s) (t :: ts)).1) (items (k + 1) (names s) (t :: ts)).2).fin := by
        intro c hstep hit
        have := ih (addNode s c) ts hk' (stack_ne_of_names hne c)
        rw [names_addNode] at this
        simp only [runT, hstep, hit, addNodes_cons]
        exact this
      -- a token that changes nothing in the tree
      have hskip : stepT s t = .ok s →
          (items (k + 1) (names s) (t :: ts)) = items k (names s) ts →
          (runT s (t :: ts)).fin
            = (runT (addNodes s (items (k + 1) (names s) (t :: ts)).1) (items (k + 1) (names s) (t :: ts)).2).fin := by
        intro hstep hit
        simp only [runT, hstep, hit]
        exact ih s ts hk' hne
      cases t with
      | decl d => exact hskip rfl (by simp [items, textOf])
      | unknownDecl d => exact hskip rfl (by simp [items, textOf])
      | pi d => exact hskip rfl (by simp [items, textOf])
      | comment c =>
        exact hleaf _ (by simp only [stepT]; exact stepT_text_ok s hne _) (by simp [items, textOf])
      | entity c =>
        exact hleaf _ (by simp only [stepT]; exact stepT_text_ok s hne _) (by simp [items, textOf])
      | charref c =>
        exact hleaf _ (by simp only [stepT]; exact stepT_text_ok s hne _) (by simp [items, textOf])
      | data d =>
        by_cases hd : d.isEmpty = true
        · exact hskip (by simp [stepT, hd]) (by simp [items, textOf, hd])
        · have hst : (!s.stack.isEmpty) = true := by
            cases hs : s.stack with
            | nil => exact absurd hs hne
            | cons f fs => simp
          exact hleaf (.text d) (by simp [stepT, hd, hst]) (by simp [items, textOf, hd])
      | startend n a =>
        exact hleaf (.elem (lower n) (intake a AttrState.empty) true [])
          (by simp only [stepT]; rw [handleStart_inside s hne]; simp) (by simp [items])
      | start n a =>
        by_cases hv : Spec.isVoid (lower n) = true
        · exact hleaf (.elem (lower n) (intake a AttrState.empty) true [])
            (by simp only [stepT]; rw [handleStart_inside s hne]; simp [hv]) (by simp [items, hv])
        · -- push the frame, process the content by IH
          let n' := lower n
          let at' := intake a AttrState.empty
          let s' : TState := { s with stack := ⟨n', at', []⟩ :: s.stack }
          have hnames : names s' = n' :: names s := rfl
          have hstep : stepT s (.start n a) = .ok s' := by
            simp only [stepT]; rw [handleStart_inside s hne]; simp [hv]; rfl
          have hne' : s'.stack ≠ [] := by simp [s']
          have hc := ih s' ts hk' hne'
          rw [hnames] at hc
          have hrest := items_rest k (n' :: names s) ts hk'
          have hit : items (k + 1) (names s) (.start n a :: ts) =
              (.elem n' at' false (items k (n' :: names s) ts).1 ::
                  (items k (names s) (afterContent n' (items k (n' :: names s) ts).2)).1,
               (items k (names s) (afterContent n' (items k (n' :: names s) ts).2)).2) := by
            simp [items, hv, n', at']
          rw [hit]
          simp only [runT, hstep]
          rw [hc]
          generalize hkids : (items k (n' :: names s) ts).1 = kids at *
          generalize hc2 : (items k (n' :: names s) ts).2 = c2 at *
          have hp := pop1_push s n' at' kids
          have hlenS' : (addNodes s' kids).stack.length = s.stack.length + 1 := by
            rw [len_addNodes]; rfl
          have hstackS' : ∃ f fs, (addNodes s' kids).stack = f :: fs ∧ f.name = n' := by
            have hn := names_addNodes s' kids
            unfold names at hn
            cases hst : (addNodes s' kids).stack with
            | nil => rw [hst] at hn; simp [s'] at hn
            | cons f fs =>
              rw [hst] at hn
              simp [s'] at hn
              exact ⟨f, fs, rfl, hn.1⟩
          rcases hrest.1 with hnil | ⟨m, r2, hm, hmem⟩
          · -- content ran to the end of input: the element is closed by `finish`
            subst hnil
            have hac : afterContent n' [] = [] := rfl
            rw [hac]
            simp only [runT]
            have hne2 : (addNodes s' kids).stack ≠ [] := by
              obtain ⟨f, fs, h1, _⟩ := hstackS'; rw [h1]; simp
            simp only [Outcome.fin]
            rw [finish_pop1 _ hne2, hp]
            have : (items k (names s) []).1 = [] ∧ (items k (names s) []).2 = [] := by
              cases k with
              | zero => simp at hk'
              | succ k => simp [items]
            rw [this.1, this.2]
            simp [addNodes, runT, Outcome.fin]
          · subst hm
            by_cases hmn : m = n'
            · -- the element's own end tag
              have hac : afterContent n' (.end_ m :: r2) = r2 := by simp [afterContent, hmn]
              rw [hac]
              have hstep2 : stepT (addNodes s' kids) (.end_ m) = .ok (addNode s (.elem n' at' false kids)) := by
                obtain ⟨f, fs, h1, h2⟩ := hstackS'
                have hin : (List.map (fun x => x.name) (addNodes s' kids).stack).contains m = true := by
                  have := names_addNodes s' kids; unfold names at this; rw [this]; simp [s', hmn]
                simp only [stepT, handleEnd, hin, if_true, hlenS']
                have h2' : f.name = m := by rw [h2, hmn]
                simp only [popTo, h1, h2', ↓reduceIte]
                rw [← hp]
              simp only [runT, hstep2]
              have hlen2 : r2.length < k := by
                have := hrest.2; simp at this; omega
              have := ih (addNode s (.elem n' at' false kids)) r2 hlen2 (stack_ne_of_names hne _)
              rw [names_addNode] at this
              rw [this]
              simp [addNodes_cons]
            · -- an ancestor's end tag: this element is closed implicitly, the tag is left for the ancestor
              have hmem' : m ∈ names s := by
                simp at hmem; rcases hmem with h | h
                · exact absurd h hmn
                · exact h
              have hac : afterContent n' (.end_ m :: r2) = .end_ m :: r2 := by
                simp only [afterContent]; rw [if_neg hmn]
              rw [hac]
              have hsib : items k (names s) (.end_ m :: r2) = ([], .end_ m :: r2) := by
                cases k with
                | zero => simp at hk'
                | succ k => simp [items, hmem']
              rw [hsib]
              obtain ⟨f, fs, h1, h2⟩ := hstackS'
              have hinL : (List.map (fun x => x.name) (addNodes s' kids).stack).contains m = true := by
                have := names_addNodes s' kids; unfold names at this; rw [this]; simp [s']
                exact Or.inr (by simpa [names] using hmem')
              have hinR : (List.map (fun x => x.name) (addNode s (.elem n' at' false kids)).stack).contains m = true := by
                have := names_addNode s (.elem n' at' false kids); unfold names at this; rw [this]
                simpa [names] using hmem'
              have hne3 : f.name ≠ m := by rw [h2]; exact fun h => hmn h.symm
              have hL2 : stepT (addNodes s' kids) (.end_ m)
                  = .ok (popTo m s.stack.length (addNode s (.elem n' at' false kids))) := by
                simp only [stepT, handleEnd, hinL, if_true, hlenS']
                rw [popTo_skip m _ _ f fs h1 hne3, hp]
              have hR2 : stepT (addNode s (.elem n' at' false kids)) (.end_ m)
                  = .ok (popTo m s.stack.length (addNode s (.elem n' at' false kids))) := by
                simp only [stepT, handleEnd, hinR, if_true, len_addNode]
              simp only [runT, hL2, hR2, addNodes_single]
      | end_ n =>
        simp only [items]
        split
        · simp [addNodes]
        · rename_i hmem
          have hstep : stepT s (.end_ n) = .ok s := by
            simp only [stepT, handleEnd]
            have : (List.map (fun x => x.name) s.stack).contains n = false := by
              simpa [names] using hmem
            simp only [this, Bool.false_eq_true, if_false]
          simp only [runT, hstep]
          exact ih s ts hk' hne

/-- closing the innermost open element with its own end tag -/
theorem stepT_close_own (s : TState) (n : Str) (a : AttrState) (kids : List Node) :
    stepT (addNodes { s with stack := ⟨n, a, []⟩ :: s.stack } kids) (.end_ n)
      = .ok (addNode s (.elem n a false kids)) := by
  let s' : TState := { s with stack := ⟨n, a, []⟩ :: s.stack }
  have hn := names_addNodes s' kids
  have hlen : (addNodes s' kids).stack.length = s.stack.length + 1 := by rw [len_addNodes]; rfl
  cases hst : (addNodes s' kids).stack with
  | nil => unfold names at hn; rw [hst] at hn; simp [s'] at hn
  | cons f fs =>
    have hf : f.name = n := by
      unfold names at hn; rw [hst] at hn; simp [s'] at hn; exact hn.1
    have hin : (List.map (fun x => x.name) (addNodes s' kids).stack).contains n = true := by
      unfold names at hn; rw [hn]; simp [s']
    have hp := pop1_push s n a kids
    show stepT (addNodes s' kids) (.end_ n) = _
    simp only [stepT, handleEnd, hin, if_true, hlen]
    simp only [popTo, hst, hf, ↓reduceIte]
    rw [← hp]

/-! ### fuel independence of the specification -/

theorem items_fuel (k : Nat) : ∀ (k' : Nat) (open_ : List Str) (ts : List Token),
    ts.length < k → ts.length < k' → items k open_ ts = items k' open_ ts := by
  induction k with
  | zero => intro _ _ ts h; simp at h
  | succ k ih =>
    intro k' open_ ts hk hk'
    cases k' with
    | zero => simp at hk'
    | succ k' =>
      cases ts with
      | nil => simp [items]
      | cons t ts =>
        have h1 : ts.length < k := by simp at hk; omega
        have h2 : ts.length < k' := by simp at hk'; omega
        have e := ih k' open_ ts h1 h2
        cases t with
        | end_ n => simp only [items, e]
        | startend n a => simp only [items, e]
        | decl d => simp only [items, e]
        | unknownDecl d => simp only [items, e]
        | pi d => simp only [items, e]
        | comment d => simp only [items, e]
        | entity d => simp only [items, e]
        | charref d => simp only [items, e]
        | data d => simp only [items, e]
        | start n a =>
          simp only [items, e]
          have ec := ih k' (lower n :: open_) ts h1 h2
          rw [ec]
          have hl := (items_rest k' (lower n :: open_) ts h2).2
          have hl2 := afterContent_len (lower n) (items k' (lower n :: open_) ts).2
          rw [ih k' open_ (afterContent (lower n) (items k' (lower n :: open_) ts).2) (by omega) (by omega)]

/-- every token left over by `items` is a token of the input -/
theorem items_rest_forall (P : Token → Prop) (k : Nat) : ∀ (open_ : List Str) (ts : List Token),
    ts.length < k → (∀ t ∈ ts, P t) → ∀ t ∈ (items k open_ ts).2, P t := by
  induction k with
  | zero => intro _ ts h; simp at h
  | succ k ih =>
    intro open_ ts hk hP
    cases ts with
    | nil => simp [items]
    | cons t ts =>
      have hk' : ts.length < k := by simp at hk; omega
      have hP' : ∀ t ∈ ts, P t := fun x hx => hP x (List.mem_cons_of_mem _ hx)
      have hg := ih open_ ts hk' hP'
      cases t with
      | end_ n =>
        simp only [items]
        split
        · exact hP
        · exact hg
      | startend n a => simp only [items]; exact hg
      | decl d => simp only [items, textOf]; exact hg
      | unknownDecl d => simp only [items, textOf]; exact hg
      | pi d => simp only [items, textOf]; exact hg
      | comment d => simp only [items, textOf]; exact hg
      | entity d => simp only [items, textOf]; exact hg
      | charref d => simp only [items, textOf]; exact hg
      | data d => simp only [items, textOf]; split <;> exact hg
      | start n a =>
        simp only [items]
        split
        · exact hg
        · have hc := ih (lower n :: open_) ts hk' hP'
          have hl := (items_rest k (lower n :: open_) ts hk').2
          have hl2 := afterContent_len (lower n) (items k (lower n :: open_) ts).2
          apply ih open_ _ (by omega)
          intro t ht
          apply hc
          unfold afterContent at ht
          split at ht
          · split at ht
            · rename_i heq _
              rw [heq]; exact List.mem_cons_of_mem _ ht
            · exact ht
          · exact ht

end AHP
