/-
  AHP.Lemmas.PickleEdit — the domain of C17 is closed under the edit operations (C17 "after any history of edits").

  1. strings: the exact condition under which a class list survives `' '.join` → `className` setter (`ClsOK`), the
     fact that every list the setter produces satisfies it (`clsOK_classTokens`), the widened style round trip
     (`GoodDecl`: empty names and values allowed) and the idempotence of the style copy for the pickle model;
  2. `Attrs.WF` is closed under `setitem`, `delitem`, `addClass`, `handle` (the read);
  3. `Attrs.ClassLazy` (the raw dict does not hold `class` yet; a non-empty style has its key): implies `ClassLast`,
     holds of every store a constructor / unpickling / cloning builds, closed under the three mutators;
  4. trees: `WFTz` (= `WFT` with `ClassLazy` for `ClassLast`) is closed under the six edits of the model and under
     unpickling.
-/
import AHP.Lemmas.Pickle
import AHP.Lemmas.PickleStr
import AHP.Lemmas.AttrStoresDict
namespace AHP.Pk
open AHP

/-! ### 1. strings -/

/-- no space inside -/
def NoSp (t : Str) : Prop := ∀ c ∈ t, c ≠ ' '

/-- The exact shape of a class list that `classTokens (className cls)` reproduces: tokens non-empty and free of
    spaces (other white space is allowed inside a token and at the inner ends), the first token does not start and
    the last token does not end with white space (the `strip` of the whole string would eat it). -/
structure ClsOK (cls : List Str) : Prop where
  tok : ∀ t ∈ cls, t ≠ [] ∧ NoSp t
  first : ∀ t r, cls = t :: r → ∀ c r', t = c :: r' → isWs c = false
  last : ∀ i t, cls = i ++ [t] → ∀ j l, t = j ++ [l] → isWs l = false

theorem clsOK_nil : ClsOK [] :=
  ⟨fun t ht => (by cases ht), fun t r h => (by cases h), fun i t h => (by simp at h)⟩

theorem clsOK_of_tok (cls : List Str) (h : ∀ t ∈ cls, Tok t) : ClsOK cls := by
  refine ⟨fun t ht => ⟨(h t ht).1, tok_no_space t (h t ht)⟩, ?_, ?_⟩
  · intro t r e c r' et
    have := h t (by rw [e]; exact List.mem_cons_self)
    exact this.2 c (by rw [et]; exact List.mem_cons_self)
  · intro i t e j l et
    have := h t (by rw [e]; simp)
    exact this.2 l (by rw [et]; simp)

theorem ne_space_of_not_ws {c : Char} (h : isWs c = false) : c ≠ ' ' := by
  intro e; rw [e, isWs_space] at h; exact absurd h (by decide)

/-- joining space-free non-empty tokens: `collapseSp` finds no run of spaces, `split(' ')` finds the tokens -/
theorem join_nosp (t : Str) (rest : List Str) (h : ∀ x ∈ t :: rest, x ≠ [] ∧ NoSp x) :
    collapseSp (joinWith [' '] (t :: rest)) = joinWith [' '] (t :: rest) ∧
    splitChar ' ' (joinWith [' '] (t :: rest)) = t :: rest := by
  induction rest generalizing t with
  | nil =>
    have ht := h t List.mem_cons_self
    simp only [joinWith]
    exact ⟨collapseSp_nosp t ht.2, splitChar_nosep ' ' t ht.2⟩
  | cons v vs ih =>
    have ht := h t List.mem_cons_self
    have hv := h v (by simp)
    have hrest : ∀ x ∈ v :: vs, x ≠ [] ∧ NoSp x := fun x hx => h x (List.mem_cons_of_mem _ hx)
    obtain ⟨e3, e4⟩ := ih v hrest
    rw [joinWith_cons_cons]
    -- the next token starts with a character that is not a space
    obtain ⟨c, r', ev⟩ : ∃ c r', v = c :: r' := by
      cases v with
      | nil => exact absurd rfl hv.1
      | cons c r' => exact ⟨c, r', rfl⟩
    have hc : c ≠ ' ' := hv.2 c (by rw [ev]; exact List.mem_cons_self)
    obtain ⟨r, e1⟩ := joinWith_head [' '] v vs c r' ev
    constructor
    · rw [List.append_assoc, collapseSp_prefix t _ ht.2]
      show t ++ collapseSp (' ' :: joinWith [' '] (v :: vs)) = t ++ (' ' :: joinWith [' '] (v :: vs))
      rw [e1, collapseSp_space_cons c r hc, ← e1, e3]
    · rw [List.append_assoc]
      show splitChar ' ' (t ++ ' ' :: joinWith [' '] (v :: vs)) = t :: v :: vs
      rw [splitChar_prefix ' ' t _ ht.2, e4]

/-- **the class round trip, exact form**: a class list of the shape `ClsOK` survives `' '.join` followed by the
    `className` setter's `stripWordsOnly` + `split(' ')` + drop-empties. -/
theorem classTokens_className_wide (cls : List Str) (h : ClsOK cls) : classTokens (className cls) = cls := by
  cases cls with
  | nil => decide
  | cons t rest =>
    obtain ⟨e3, e4⟩ := join_nosp t rest h.tok
    have ht := h.tok t List.mem_cons_self
    obtain ⟨c, r', et⟩ : ∃ c r', t = c :: r' := by
      cases t with
      | nil => exact absurd rfl ht.1
      | cons c r' => exact ⟨c, r', rfl⟩
    have hc := h.first t rest rfl c r' et
    obtain ⟨r, e1⟩ := joinWith_head [' '] t rest c r' et
    -- the last token and its last character
    have hne : (t :: rest) ≠ [] := by simp
    have hlast := List.dropLast_concat_getLast hne
    have hq := h.tok _ (List.getLast_mem hne)
    have hv := List.dropLast_concat_getLast hq.1
    have hl := h.last _ _ hlast.symm _ _ hv.symm
    obtain ⟨i, e2⟩ := joinWith_last [' '] ((t :: rest).dropLast) ((t :: rest).getLast hne) _ _ hv.symm
    rw [hlast] at e2
    unfold classTokens stripWordsOnly className strip
    rw [e1, lstrip_head c r hc, ← e1, e2, rstrip_last i _ hl, ← e2, e3, e4]
    rw [List.filter_eq_self]
    intro x hx
    have := (h.tok x hx).1
    cases x with
    | nil => exact absurd rfl this
    | cons _ _ => rfl

/-! #### every list the `className` setter produces has that shape -/

theorem dropWhile_head_not (p : Char → Bool) : ∀ (s : Str) (c : Char) (r : Str), s.dropWhile p = c :: r → p c = false := by
  intro s
  induction s with
  | nil => intro c r h; simp at h
  | cons a s ih =>
    intro c r h
    by_cases ha : p a = true
    · simp only [List.dropWhile_cons, ha, if_true] at h; exact ih c r h
    · simp only [List.dropWhile_cons, ha] at h
      simp at h
      rw [← h.1]; simpa using ha

theorem rstrip_last_not_ws (s i : Str) (l : Char) (h : rstrip s = i ++ [l]) : isWs l = false := by
  unfold rstrip at h
  have := congrArg List.reverse h
  rw [List.reverse_reverse, List.reverse_append] at this
  exact dropWhile_head_not isWs _ l _ this

theorem allWs_of_dropWhile_nil : ∀ s : Str, s.dropWhile isWs = [] → ∀ c ∈ s, isWs c = true := by
  intro s
  induction s with
  | nil => intro _ c hc; cases hc
  | cons a s ih =>
    intro h c hc
    by_cases ha : isWs a = true
    · simp only [List.dropWhile_cons, ha, if_true] at h
      rcases List.mem_cons.mp hc with e | e
      · rw [e]; exact ha
      · exact ih h c e
    · simp [ha] at h

/-- `rstrip` keeps a first character that is not white space -/
theorem rstrip_head (c : Char) (r : Str) (hc : isWs c = false) : ∃ r', rstrip (c :: r) = c :: r' := by
  unfold rstrip
  cases hd : ((c :: r).reverse.dropWhile isWs) with
  | nil =>
    have := allWs_of_dropWhile_nil _ hd c (by simp)
    rw [hc] at this; cases this
  | cons x xs =>
    -- the dropped part is a suffix of the reversed string: the result, reversed back, is a prefix of `c :: r`
    have hsuf : ((c :: r).reverse.dropWhile isWs).reverse <+: (c :: r) := by
      have := List.dropWhile_suffix (l := (c :: r).reverse) isWs
      have := List.reverse_prefix.mpr this
      simpa using this
    rw [hd] at hsuf
    obtain ⟨t, et⟩ := hsuf
    cases hrev : (x :: xs).reverse with
    | nil => simp at hrev
    | cons y ys =>
      rw [hrev] at et
      simp at et
      exact ⟨ys, by rw [et.1]⟩

theorem strip_head_not_ws (s : Str) (c : Char) (r : Str) (h : strip s = c :: r) : isWs c = false := by
  unfold strip at h
  cases hl : lstrip s with
  | nil => rw [hl] at h; simp [rstrip] at h
  | cons d ds =>
    have hd : isWs d = false := dropWhile_head_not isWs s d ds hl
    rw [hl] at h
    obtain ⟨r', e⟩ := rstrip_head d ds hd
    rw [e] at h
    simp at h
    rw [← h.1]; exact hd

theorem strip_last_not_ws (s i : Str) (l : Char) (h : strip s = i ++ [l]) : isWs l = false :=
  rstrip_last_not_ws _ i l h

theorem collapseSp_cons_ne (c : Char) (r : Str) (hc : c ≠ ' ') : collapseSp (c :: r) = c :: collapseSp r := by
  conv => lhs; unfold collapseSp
  simp [hc]

/-- `collapseSp` keeps a last character that is not a space -/
theorem collapseSp_snoc (l : Char) (hl : l ≠ ' ') : ∀ i : Str, ∃ i', collapseSp (i ++ [l]) = i' ++ [l] := by
  intro i
  induction i with
  | nil => exact ⟨[], by simp [collapseSp, hl]⟩
  | cons c i ih =>
    obtain ⟨i', e⟩ := ih
    by_cases hc : c = ' '
    · subst hc
      cases i with
      | nil =>
        refine ⟨[' '], ?_⟩
        show collapseSp (' ' :: l :: []) = _
        rw [collapseSp_space_cons l [] hl]; simp [collapseSp, hl]
      | cons c2 i2 =>
        by_cases h2 : c2 = ' '
        · subst h2
          refine ⟨i', ?_⟩
          show collapseSp (' ' :: ' ' :: (i2 ++ [l])) = _
          conv => lhs; unfold collapseSp
          simp only [if_true]
          exact e
        · refine ⟨' ' :: i', ?_⟩
          show collapseSp (' ' :: c2 :: (i2 ++ [l])) = _
          rw [collapseSp_space_cons c2 _ h2]
          have : c2 :: (i2 ++ [l]) = (c2 :: i2) ++ [l] := rfl
          rw [this, e]; rfl
    · refine ⟨c :: i', ?_⟩
      show collapseSp (c :: (i ++ [l])) = _
      rw [collapseSp_cons_ne c _ hc, e]; rfl

/-- the last field of a split ends with the last character of the string when that is not the separator -/
theorem splitChar_snoc (sep l : Char) (hl : l ≠ sep) : ∀ i : Str, ∃ fs j, splitChar sep (i ++ [l]) = fs ++ [j ++ [l]] := by
  intro i
  induction i with
  | nil => exact ⟨[], [], by simp [splitChar, hl]⟩
  | cons c i ih =>
    obtain ⟨fs, j, e⟩ := ih
    by_cases hc : c = sep
    · subst hc
      refine ⟨[] :: fs, j, ?_⟩
      show splitChar c (c :: (i ++ [l])) = _
      simp only [splitChar, if_true, e]; rfl
    · show ∃ fs j, splitChar sep (c :: (i ++ [l])) = fs ++ [j ++ [l]]
      simp only [splitChar, hc, if_false, e]
      cases fs with
      | nil => exact ⟨[], c :: j, rfl⟩
      | cons f fs' => exact ⟨(c :: f) :: fs', j, rfl⟩

theorem splitChar_head (sep c : Char) (r : Str) (hc : c ≠ sep) : ∃ w ws, splitChar sep (c :: r) = (c :: w) :: ws := by
  simp only [splitChar, hc, if_false]
  cases splitChar sep r with
  | nil => exact ⟨[], [], rfl⟩
  | cons w ws => exact ⟨w, ws, rfl⟩

theorem mem_splitChar_nosep (sep : Char) : ∀ (s w : Str), w ∈ splitChar sep s → ∀ c ∈ w, c ≠ sep := by
  intro s
  induction s with
  | nil => intro w hw c hc; simp [splitChar] at hw; subst hw; cases hc
  | cons a s ih =>
    intro w hw c hc
    by_cases ha : a = sep
    · simp only [splitChar, ha, if_true, List.mem_cons] at hw
      rcases hw with e | e
      · subst e; cases hc
      · exact ih w e c hc
    · simp only [splitChar, ha, if_false] at hw
      cases hs : splitChar sep s with
      | nil => rw [hs] at hw; simp at hw; subst hw; simp at hc; rw [hc]; exact ha
      | cons f fs =>
        rw [hs] at hw
        simp only [List.mem_cons] at hw
        rcases hw with e | e
        · subst e
          rcases List.mem_cons.mp hc with e2 | e2
          · rw [e2]; exact ha
          · exact ih f (by rw [hs]; exact List.mem_cons_self) c e2
        · exact ih w (by rw [hs]; exact List.mem_cons_of_mem _ e) c hc

/-- **every class list the `className` setter can store has the round-trip shape** — whatever string is
    assigned.  Hence `classTokens (className (classTokens v)) = classTokens v` for every `v`. -/
theorem clsOK_classTokens (v : Str) : ClsOK (classTokens v) := by
  have htok : ∀ t ∈ classTokens v, t ≠ [] ∧ NoSp t := by
    intro t ht
    unfold classTokens at ht
    rw [List.mem_filter] at ht
    refine ⟨?_, mem_splitChar_nosep ' ' _ t ht.1⟩
    intro e; rw [e] at ht; simp at ht
  refine ⟨htok, ?_, ?_⟩
  · intro t r e c r' et
    unfold classTokens stripWordsOnly at e
    cases hs : strip v with
    | nil =>
      rw [hs] at e
      simp [collapseSp, splitChar] at e
    | cons d ds =>
      have hd := strip_head_not_ws v d ds hs
      have hd' := ne_space_of_not_ws hd
      rw [hs, collapseSp_cons_ne d ds hd'] at e
      obtain ⟨w, ws, ew⟩ := splitChar_head ' ' d (collapseSp ds) hd'
      rw [ew] at e
      simp only [List.filter_cons, List.isEmpty_cons, Bool.not_false, if_true] at e
      have := (List.cons.inj e).1
      rw [et] at this
      rw [← (List.cons.inj this).1]; exact hd
  · intro i t e j l et
    unfold classTokens stripWordsOnly at e
    cases hs : strip v with
    | nil =>
      rw [hs] at e
      simp [collapseSp, splitChar] at e
    | cons d ds =>
      have hne : (d :: ds) ≠ [] := by simp
      have hdl := List.dropLast_concat_getLast hne
      have hl := strip_last_not_ws v _ _ (hs.trans hdl.symm)
      have hl' := ne_space_of_not_ws hl
      obtain ⟨i', e1⟩ := collapseSp_snoc _ hl' ((d :: ds).dropLast)
      rw [hdl] at e1
      obtain ⟨fs, j', e2⟩ := splitChar_snoc ' ' _ hl' i'
      rw [hs, e1, e2] at e
      rw [List.filter_append] at e
      have hkeep : [j' ++ [(d :: ds).getLast hne]].filter (fun w => !w.isEmpty) = [j' ++ [(d :: ds).getLast hne]] := by
        simp
      rw [hkeep] at e
      have := (List.append_inj' e rfl).2
      simp at this
      rw [et] at this
      have h2 := (List.append_inj' this rfl).2
      simp at h2
      rw [← h2]; exact hl

theorem classTokens_idem (v : Str) : classTokens (className (classTokens v)) = classTokens v :=
  classTokens_className_wide _ (clsOK_classTokens v)

/-- the semantic field of `Attrs.WF` and the syntactic shape are the same thing -/
theorem clsOK_iff (cls : List Str) : classTokens (className cls) = cls ↔ ClsOK cls :=
  ⟨fun h => by rw [← h]; exact clsOK_classTokens _, classTokens_className_wide cls⟩

/-! #### style: the widened round trip, and idempotence of the copy through the string -/

theorem styleToDict_idem_pk (s : Str) : styleToDict (styleStr (styleToDict s)) = styleToDict s := by
  rw [AttrStores.styleStr_pk, AttrStores.styleToDict_pk, AttrStores.styleToDict_pk]
  exact AttrStores.styleToDict_idem s

/-- **the style round trip, widened**: a style map with unique names whose declarations are `GoodDecl`
    (name: trimmed, lower-case, no `:`/`;` — may be empty; value: trimmed, no `;` — may be empty) survives
    `_asStr` → `styleToDict`. -/
theorem styleToDict_styleStr_wide (sty : List (Str × Str)) (hn : (dkeys sty).Nodup)
    (h : ∀ q ∈ sty, Attrs.GoodDecl q) : styleToDict (styleStr sty) = sty := by
  rw [AttrStores.styleStr_pk, AttrStores.styleToDict_pk, ← AttrStores.styleToDict_attrs]
  exact Attrs.styleToDict_asStr ⟨hn, h⟩

/-- every map `styleToDict` produces has that shape -/
theorem goodDecl_styleToDict (s : Str) : (dkeys (styleToDict s)).Nodup ∧ ∀ q ∈ styleToDict s, Attrs.GoodDecl q := by
  rw [AttrStores.styleToDict_pk, ← AttrStores.styleToDict_attrs]
  exact Attrs.styRT_styleToDict s

/-- the old, narrower description is a special case -/
theorem goodDecl_of_propOK (q : Str × Str) (h : PropOK q) : Attrs.GoodDecl q :=
  ⟨strip_noEdge _ h.nameEdge, h.nameLow, fun m => (h.nameChars _ m).1 rfl, fun m => (h.nameChars _ m).2 rfl,
   strip_noEdge _ h.valEdge, fun m => h.valChars _ m rfl⟩


/-! ### 2. `Attrs.WF` is closed under the mutators -/

namespace Attrs

/-- the per-entry part of `WF` -/
structure EntOK (p : Str × DVal) : Prop where
  valid : validAttrName p.1 = true
  low : lower p.1 = p.1
  sty : p.1 = sStyle → p.2 = DVal.style
  nsty : p.1 ≠ sStyle → p.2 ≠ DVal.style
  bs : boolStrAttrs.contains p.1 = true → p.1 ≠ sClass → ∃ s, p.2 = DVal.str s ∧ convBoolStr (some s) = s

theorem WF.ent {a : Attrs} (h : WF a) (p : Str × DVal) (hp : p ∈ a.dict) : EntOK p :=
  ⟨(h.names p hp).1, (h.names p hp).2, (h.styleKey p hp).1, (h.styleKey p hp).2, h.boolStr p hp⟩

theorem WF.of_ent {a : Attrs} (hn : (dkeys a.dict).Nodup) (he : ∀ p ∈ a.dict, EntOK p)
    (hc : classTokens (className a.cls) = a.cls) (hs : styleToDict (styleStr a.sty) = a.sty) : WF a :=
  ⟨hn, fun p hp => ⟨(he p hp).valid, (he p hp).low⟩, fun p hp => ⟨(he p hp).sty, (he p hp).nsty⟩,
   fun p hp => (he p hp).bs, hc, hs⟩

theorem entOK_style : EntOK (sStyle, DVal.style) :=
  ⟨by show validAttrName sStyle = true; decide, by show lower sStyle = sStyle; decide, fun _ => rfl,
   fun e => absurd rfl e, fun e => absurd e (by show ¬ (boolStrAttrs.contains sStyle = true); decide)⟩

theorem ensureStyle_ent (sty : List (Str × Str)) (d : List (Str × DVal)) (h : ∀ p ∈ d, EntOK p) :
    ∀ p ∈ ensureStyle sty d, EntOK p := by
  intro p hp
  unfold ensureStyle at hp
  split at hp
  · exact h p (mem_ddel _ _ _ hp)
  · rcases mem_dset _ _ _ _ hp with e | e
    · rw [e]; exact entOK_style
    · exact h p e

theorem convBoolStr_cases (v : Option Str) : convBoolStr v = str "false" ∨ convBoolStr v = str "true" := by
  cases v with
  | none => left; rfl
  | some s =>
    simp only [convBoolStr]
    split
    · left; rfl
    · right; rfl

/-- `convertToBooleanString` is idempotent: what `spellcheck` stores is normalised -/
theorem convBoolStr_idem (v : Option Str) : convBoolStr (some (convBoolStr v)) = convBoolStr v := by
  rcases convBoolStr_cases v with h | h <;> rw [h] <;> decide

theorem isAlpha_lowerChar (c : Char) (h : isAlpha c = true) : isAlpha (lowerChar c) = true := by
  unfold lowerChar
  split
  · next hc =>
    have h1 : ∀ n : Nat, n < 91 → 65 ≤ n → isAlpha (Char.ofNat (n + 32)) = true := by decide
    have ha : 65 ≤ c.toNat := hc.1
    have hz : c.toNat ≤ 90 := hc.2
    exact h1 c.toNat (by omega) ha
  · exact h

theorem lowerChar_of_not_alpha (c : Char) (h : isAlpha c = false) : lowerChar c = c := by
  unfold lowerChar
  split
  · next hc =>
    have : isAlpha c = true := by
      unfold isAlpha
      have h1 : decide ('A' ≤ c) = true := by simpa using hc.1
      have h2 : decide (c ≤ 'Z') = true := by simpa using hc.2
      simp [h1, h2]
    rw [h] at this; cases this
  · rfl

theorem nameChar_lowerChar (c : Char) (h : nameChar c = true) : nameChar (lowerChar c) = true := by
  by_cases ha : isAlpha c = true
  · unfold nameChar; rw [isAlpha_lowerChar c ha]; rfl
  · rw [lowerChar_of_not_alpha c (by simpa using ha)]; exact h

/-- a valid attribute name stays valid when lower-cased (`setAttribute` checks the name as given, the store
    keeps it lower-cased) -/
theorem validAttrName_lower (k : Str) (h : validAttrName k = true) : validAttrName (lower k) = true := by
  cases k with
  | nil => simp [validAttrName] at h
  | cons c cs =>
    simp only [validAttrName, Bool.and_eq_true, Bool.or_eq_true, decide_eq_true_eq, List.all_eq_true] at h
    show validAttrName (lowerChar c :: lower cs) = true
    simp only [validAttrName, Bool.and_eq_true, Bool.or_eq_true, decide_eq_true_eq, List.all_eq_true]
    refine ⟨?_, ?_⟩
    · rcases h.1 with h1 | h1
      · left; exact isAlpha_lowerChar c h1
      · right; subst h1; decide
    · intro x hx
      have hx' : x ∈ lower (c :: cs) := hx
      unfold lower at hx'
      obtain ⟨y, hy, e⟩ := List.mem_map.mp hx'
      rw [← e]
      exact nameChar_lowerChar y (h.2 y hy)

theorem setitem_isSome (a : Attrs) (k : Str) (v : Option Str) : ∃ a', setitem a k v = some a' := by
  unfold setitem
  simp only
  split
  · exact ⟨_, rfl⟩
  · split
    · exact ⟨_, rfl⟩
    · split <;> exact ⟨_, rfl⟩

/-- the `style` branch of `__setitem__` with the two parsed maps abstracted -/
theorem WF_styleSet (a : Attrs) (h : WF a) (S1 S2 : List (Str × Str)) (hS : styleToDict (styleStr S2) = S2) :
    WF { a with sty := S2, dict := ensureStyle S2 (ensureStyle S2 (ensureStyle S1 a.dict)) } := by
  refine WF.of_ent ?_ ?_ h.cls hS
  · exact nodup_ensureStyle S2 _ (nodup_ensureStyle S2 _ (nodup_ensureStyle S1 _ h.nodup))
  · exact ensureStyle_ent S2 _ (ensureStyle_ent S2 _ (ensureStyle_ent S1 _ h.ent))

/-- **`__setitem__` keeps the store well formed** — any valid key (in any letter case), any value: a `style`
    text is stored as parsed (`styleToDict` is idempotent through `_asStr`), a `class` text as split
    (`clsOK_classTokens`), `spellcheck` normalised, anything else verbatim. -/
theorem WF_setitem (a : Attrs) (k : Str) (v : Option Str) (h : WF a) (hk : validAttrName (lower k) = true)
    (a' : Attrs) (e : setitem a k v = some a') : WF a' := by
  unfold setitem at e
  simp only at e
  have hset : ∀ w : DVal, EntOK (lower k, w) → ∀ p ∈ dset (lower k) w a.dict, EntOK p := by
    intro w hw p hp
    rcases mem_dset _ _ _ _ hp with e1 | e1
    · rw [e1]; exact hw
    · exact h.ent p e1
  by_cases h1 : lower k = sStyle
  · rw [if_pos h1] at e
    have e' := Option.some.inj e
    subst e'
    exact WF_styleSet a h _ _ (styleToDict_idem_pk _)
  · rw [if_neg h1] at e
    by_cases h2 : lower k = sClass
    · rw [if_pos h2] at e
      have e' := Option.some.inj e
      subst e'
      exact WF.of_ent h.nodup h.ent (classTokens_idem _) h.sty
    · rw [if_neg h2] at e
      by_cases h3 : boolStrAttrs.contains (lower k) = true
      · rw [if_pos h3] at e
        have e' := Option.some.inj e
        subst e'
        refine WF.of_ent (nodup_dset _ _ _ h.nodup) (hset _ ?_) h.cls h.sty
        exact ⟨hk, Attrs.lower_idem k, fun e => absurd e h1, fun _ => by simp,
          fun _ _ => ⟨_, rfl, convBoolStr_idem v⟩⟩
      · rw [if_neg h3] at e
        have e' := Option.some.inj e
        subst e'
        refine WF.of_ent (nodup_dset _ _ _ h.nodup) (hset _ ?_) h.cls h.sty
        exact ⟨hk, Attrs.lower_idem k, fun e => absurd e h1, fun _ => by cases v <;> simp [DVal.ofOpt],
          fun hb => absurd hb h3⟩

/-- **`__delitem__` keeps the store well formed** — any key -/
theorem WF_delitem (a : Attrs) (k : Str) (h : WF a) : WF (delitem a k) := by
  unfold delitem
  simp only
  split
  · exact WF.of_ent (nodup_ddel _ _ h.nodup) (fun p hp => h.ent p (mem_ddel _ _ _ hp)) h.cls
      (by show styleToDict (styleStr []) = []; decide)
  · split
    · exact WF.of_ent h.nodup h.ent (by show classTokens (className []) = []; decide) h.sty
    · exact WF.of_ent (nodup_ddel _ _ h.nodup) (fun p hp => h.ent p (mem_ddel _ _ _ hp)) h.cls h.sty

/-- the operand of `addClass` as the model takes it (one token of `stripWordsOnly(…).split(' ')`): no space
    inside, no white space at its ends -/
def TokArg (tok : Str) : Prop := NoSp tok ∧ NoEdgeWs tok

theorem tokArg_of_tok (t : Str) (h : Tok t) : TokArg t :=
  ⟨tok_no_space t h, fun c r e => h.2 c (by rw [e]; exact List.mem_cons_self), fun i l e => h.2 l (by rw [e]; simp)⟩

theorem clsOK_snoc (cls : List Str) (tok : Str) (h : ClsOK cls) (hne : tok ≠ []) (ht : TokArg tok) :
    ClsOK (cls ++ [tok]) := by
  refine ⟨?_, ?_, ?_⟩
  · intro t htm
    rcases List.mem_append.mp htm with e | e
    · exact h.tok t e
    · simp at e; subst e; exact ⟨hne, ht.1⟩
  · intro t r e c r' et
    cases cls with
    | nil =>
      simp at e
      rw [← e.1] at et
      exact ht.2.1 c r' et
    | cons t0 r0 =>
      simp at e
      exact h.first t0 r0 rfl c r' (by rw [e.1]; exact et)
  · intro i t e j l et
    have := (List.append_inj' e rfl).2
    simp at this
    rw [← this] at et
    exact ht.2.2 j l et

/-- **`addClass` keeps the store well formed** for a token without inner space and without white space at its
    ends (the empty token and a token already present change nothing) -/
theorem WF_addClass (a : Attrs) (tok : Str) (h : WF a) (ht : TokArg tok) : WF (addClass a tok) := by
  unfold addClass
  split
  · exact h
  · rename_i hc
    have hne : tok ≠ [] := by
      intro e; rw [e] at hc; simp at hc
    refine WF.of_ent h.nodup h.ent ?_ h.sty
    exact classTokens_className_wide _ (clsOK_snoc a.cls tok ((clsOK_iff _).mp h.cls) hne ht)

/-- **the read keeps the store well formed**: `_handleClassAttr` (inside `items()/keys()/getAttributesList()`) -/
theorem WF_handle (a : Attrs) (h : WF a) : WF (handle a) := by
  refine WF.of_ent (nodup_handle a h.nodup) ?_ h.cls h.sty
  intro p hp
  have := handle_entries a h p hp
  exact ⟨this.valid, this.low, fun e => (this.sty e).1, this.nsty, this.bs⟩

/-- every store the constructor loop builds is well formed — from any attribute list -/
theorem WF_initGo (l : List (Str × Option Str)) : ∀ (a a' : Attrs), WF a → initGo a l = some a' → WF a' := by
  induction l with
  | nil => intro a a' h e; simp [initGo] at e; rw [← e]; exact h
  | cons x l ih =>
    intro a a' h e
    obtain ⟨k, v⟩ := x
    simp only [initGo] at e
    split at e
    · rename_i hv
      cases hs : setitem a (lower k) v with
      | none => rw [hs] at e; cases e
      | some a1 =>
        rw [hs] at e
        exact ih a1 a' (WF_setitem a (lower k) v h (by rw [Attrs.lower_idem]; exact hv) a1 hs) e
    · exact ih a a' h e

theorem WF_empty : WF empty :=
  ⟨by decide, by decide, by decide, fun p hp => by simp [empty] at hp, by decide, by decide⟩

theorem WF_init (l : List (Str × Option Str)) (a : Attrs) (e : init l = some a) : WF a :=
  WF_initGo l empty a WF_empty e

/-! ### 3. `class` not yet in the raw dict: the position of `class` is settled -/

/-- The raw dict does not hold `class` (it is synchronised lazily, by readers) and a non-empty style has its key
    (it is synchronised eagerly, by the setter).  True of every store a constructor builds — hence of parsed,
    unpickled and cloned elements — and kept by every mutator; a *read* ends it when the class list is non-empty. -/
def ClassLazy (a : Attrs) : Prop := sClass ∉ dkeys a.dict ∧ (a.sty.isEmpty = false → sStyle ∈ dkeys a.dict)

theorem ddel_append_single (k : Str) (d : List (Str × DVal)) (x : Str × DVal) (hx : x.1 ≠ k) :
    ddel k (d ++ [x]) = ddel k d ++ [x] := by
  induction d with
  | nil => obtain ⟨k', v'⟩ := x; simp [ddel, hx]
  | cons p r ih =>
    obtain ⟨k', v'⟩ := p
    simp only [List.cons_append, ddel]
    split
    · rfl
    · rw [ih]; rfl

theorem dset_append_mem (k : Str) (v : DVal) (d e : List (Str × DVal)) (hk : k ∈ dkeys d) :
    dset k v (d ++ e) = dset k v d ++ e := by
  induction d with
  | nil => simp [dkeys] at hk
  | cons p r ih =>
    obtain ⟨k', v'⟩ := p
    simp only [List.cons_append, dset]
    split
    · rfl
    · rename_i hne
      have : k ∈ dkeys r := by
        simp only [dkeys, List.map_cons, List.mem_cons] at hk
        rcases hk with e1 | e1
        · exact absurd e1.symm hne
        · exact e1
      rw [ih this]; rfl

theorem classLast_shape1 (l : List (Str × DVal)) (h : sClass ∉ dkeys l) :
    l = l.filter (fun p => p.1 != sClass) ++ l.filter (fun p => p.1 == sClass) := by
  have e1 : l.filter (fun p => p.1 != sClass) = l := by
    rw [List.filter_eq_self]
    intro p hp
    have : p.1 ≠ sClass := fun e => h (e ▸ List.mem_map.mpr ⟨p, hp, rfl⟩)
    simpa using this
  have e2 : l.filter (fun p => p.1 == sClass) = [] := by
    rw [List.filter_eq_nil_iff]
    intro p hp
    have : p.1 ≠ sClass := fun e => h (e ▸ List.mem_map.mpr ⟨p, hp, rfl⟩)
    simpa using this
  rw [e1, e2]; simp

theorem classLast_shape2 (l : List (Str × DVal)) (v : DVal) (h : sClass ∉ dkeys l) :
    l ++ [(sClass, v)] = (l ++ [(sClass, v)]).filter (fun p => p.1 != sClass)
      ++ (l ++ [(sClass, v)]).filter (fun p => p.1 == sClass) := by
  have e1 : l.filter (fun p => p.1 != sClass) = l := by
    rw [List.filter_eq_self]
    intro p hp
    have : p.1 ≠ sClass := fun e => h (e ▸ List.mem_map.mpr ⟨p, hp, rfl⟩)
    simpa using this
  have e2 : l.filter (fun p => p.1 == sClass) = [] := by
    rw [List.filter_eq_nil_iff]
    intro p hp
    have : p.1 ≠ sClass := fun e => h (e ▸ List.mem_map.mpr ⟨p, hp, rfl⟩)
    simpa using this
  simp only [List.filter_append, e1, e2]
  simp

theorem class_not_mem_ensureStyle (sty : List (Str × Str)) (d : List (Str × DVal)) (h : sClass ∉ dkeys d) :
    sClass ∉ dkeys (ensureStyle sty d) := by
  unfold ensureStyle
  split
  · intro hm; exact h ((mem_dkeys_ddel _ _ _ sClass_ne_sStyle).mp hm)
  · intro hm
    rcases (mem_dkeys_dset _ _ _ _).mp hm with e | e
    · exact sClass_ne_sStyle e
    · exact h e

/-- **`ClassLazy` settles the position of `class`**: the synchronised dict lists it last. -/
theorem classLast_of_lazy (a : Attrs) (h : ClassLazy a) : ClassLast a := by
  unfold ClassLast
  rw [handle_dict]
  unfold classStep
  cases hc : a.cls.isEmpty with
  | true =>
    simp only [if_true]
    rw [ddel_of_not_mem _ _ h.1]
    exact classLast_shape1 _ (class_not_mem_ensureStyle _ _ h.1)
  | false =>
    simp only [Bool.false_eq_true, if_false]
    rw [dset_of_not_mem _ _ _ h.1]
    unfold ensureStyle
    cases hs : a.sty.isEmpty with
    | true =>
      simp only [if_true]
      rw [ddel_append_single sStyle a.dict (sClass, DVal.str (className a.cls)) sClass_ne_sStyle]
      apply classLast_shape2
      intro hm; exact h.1 ((mem_dkeys_ddel _ _ _ sClass_ne_sStyle).mp hm)
    | false =>
      simp only [Bool.false_eq_true, if_false]
      rw [dset_append_mem _ _ _ _ (h.2 hs)]
      apply classLast_shape2
      intro hm
      rcases (mem_dkeys_dset _ _ _ _).mp hm with e | e
      · exact sClass_ne_sStyle e
      · exact h.1 e

theorem classLazy_empty : ClassLazy empty := ⟨by simp [empty, dkeys], by simp [empty]⟩

theorem style_mem_ensureStyle (sty : List (Str × Str)) (d : List (Str × DVal)) (h : sty.isEmpty = false) :
    sStyle ∈ dkeys (ensureStyle sty d) := by
  unfold ensureStyle
  simp only [h, Bool.false_eq_true, if_false]
  exact (mem_dkeys_dset _ _ _ _).mpr (Or.inl rfl)

theorem classLazy_styleSet (a : Attrs) (h : ClassLazy a) (S1 S2 : List (Str × Str)) :
    ClassLazy { a with sty := S2, dict := ensureStyle S2 (ensureStyle S2 (ensureStyle S1 a.dict)) } :=
  ⟨class_not_mem_ensureStyle S2 _ (class_not_mem_ensureStyle S2 _ (class_not_mem_ensureStyle S1 _ h.1)),
    fun hs => style_mem_ensureStyle S2 _ hs⟩

theorem classLazy_setitem (a : Attrs) (k : Str) (v : Option Str) (h : ClassLazy a)
    (a' : Attrs) (e : setitem a k v = some a') : ClassLazy a' := by
  unfold setitem at e
  simp only at e
  by_cases h1 : lower k = sStyle
  · rw [if_pos h1] at e
    have e' := Option.some.inj e
    subst e'
    exact classLazy_styleSet a h _ _
  · rw [if_neg h1] at e
    by_cases h2 : lower k = sClass
    · rw [if_pos h2] at e
      have e' := Option.some.inj e
      subst e'
      exact h
    · rw [if_neg h2] at e
      have hmem : ∀ w : DVal, sClass ∉ dkeys (dset (lower k) w a.dict) ∧
          (a.sty.isEmpty = false → sStyle ∈ dkeys (dset (lower k) w a.dict)) := by
        intro w
        refine ⟨?_, fun hs => (mem_dkeys_dset _ _ _ _).mpr (Or.inr (h.2 hs))⟩
        intro hm
        rcases (mem_dkeys_dset _ _ _ _).mp hm with e1 | e1
        · exact h2 e1.symm
        · exact h.1 e1
      by_cases h3 : boolStrAttrs.contains (lower k) = true
      · rw [if_pos h3] at e
        have e' := Option.some.inj e
        subst e'
        exact hmem _
      · rw [if_neg h3] at e
        have e' := Option.some.inj e
        subst e'
        exact hmem _

theorem classLazy_delitem (a : Attrs) (k : Str) (h : ClassLazy a) : ClassLazy (delitem a k) := by
  unfold delitem
  simp only
  split
  · exact ⟨fun hm => h.1 ((mem_dkeys_ddel _ _ _ sClass_ne_sStyle).mp hm), fun hs => by simp at hs⟩
  · split
    · exact h
    · rename_i h1 h2
      refine ⟨fun hm => ?_, fun hs => ?_⟩
      · have : sClass ∈ dkeys a.dict := by
          obtain ⟨p, hp, e⟩ := List.mem_map.mp hm
          exact List.mem_map.mpr ⟨p, mem_ddel _ _ _ hp, e⟩
        exact h.1 this
      · exact (mem_dkeys_ddel _ _ _ (fun e => h1 e.symm)).mpr (h.2 hs)

theorem classLazy_addClass (a : Attrs) (tok : Str) (h : ClassLazy a) : ClassLazy (addClass a tok) := by
  unfold addClass
  split
  · exact h
  · exact h

theorem classLazy_initGo (l : List (Str × Option Str)) : ∀ (a a' : Attrs), ClassLazy a → initGo a l = some a' → ClassLazy a' := by
  induction l with
  | nil => intro a a' h e; simp [initGo] at e; rw [← e]; exact h
  | cons x l ih =>
    intro a a' h e
    obtain ⟨k, v⟩ := x
    simp only [initGo] at e
    split at e
    · cases hs : setitem a (lower k) v with
      | none => rw [hs] at e; cases e
      | some a1 =>
        rw [hs] at e
        exact ih a1 a' (classLazy_setitem a (lower k) v h a1 hs) e
    · exact ih a a' h e

/-- every store a constructor builds has `class` still lazy -/
theorem classLazy_init (l : List (Str × Option Str)) (a : Attrs) (e : init l = some a) : ClassLazy a :=
  classLazy_initGo l empty a classLazy_empty e

/-- … in particular the store of an unpickled / cloned element -/
theorem classLazy_fresh (a : Attrs) : ClassLazy (fresh a) := by
  refine ⟨class_not_mem_fresh a, fun hs => ?_⟩
  have hs' : a.sty.isEmpty = false := hs
  have hm : sStyle ∈ dkeys (handle a).dict := by
    rw [handle_dict]; exact style_mem_ensureStyle _ _ hs'
  obtain ⟨p, hp, e⟩ := List.mem_map.mp hm
  refine List.mem_map.mpr ⟨p, ?_, e⟩
  simp only [fresh, List.mem_filter]
  refine ⟨hp, ?_⟩
  have : p.1 ≠ sClass := by rw [e]; exact sStyle_ne_sClass
  simpa using this

end Attrs

/-! ### 4. trees -/

mutual
/-- `WFT` with `ClassLazy` in the place of `ClassLast`: the trees constructors, the parser, unpickling and
    cloning build, and every tree reached from them by edits -/
def WFTz : DN → Prop
  | .text _ => True
  | .el _ _ n a _ blocks _ _ _ _ => lower n = n ∧ Attrs.WF a ∧ Attrs.ClassLazy a ∧ WFTzL blocks
def WFTzL : List DN → Prop
  | [] => True
  | b :: bs => WFTz b ∧ WFTzL bs
end

mutual
theorem WFT_of_WFTz (t : DN) (h : WFTz t) : WFT t := by
  match t, h with
  | .text s, _ => simp [WFT]
  | .el o u nm a sc blocks ch tx p ow, h =>
    simp only [WFTz] at h
    simp only [WFT]
    exact ⟨h.1, h.2.1, Attrs.classLast_of_lazy a h.2.2.1, WFTL_of_WFTzL blocks h.2.2.2⟩
theorem WFTL_of_WFTzL (bs : List DN) (h : WFTzL bs) : WFTL bs := by
  match bs, h with
  | [], _ => simp [WFTL]
  | b :: bs, h =>
    simp only [WFTzL] at h
    simp only [WFTL]
    exact ⟨WFT_of_WFTz b h.1, WFTL_of_WFTzL bs h.2⟩
end

theorem WFTzL_append (xs ys : List DN) (hx : WFTzL xs) (hy : WFTzL ys) : WFTzL (xs ++ ys) := by
  induction xs with
  | nil => exact hy
  | cons x xs ih =>
    simp only [WFTzL] at hx
    simp only [List.cons_append, WFTzL]
    exact ⟨hx.1, ih hx.2⟩

mutual
theorem WFTz_reown (ow : Option Nat) (t : DN) (h : WFTz t) : WFTz (DN.reown ow t) := by
  match t, h with
  | .text s, _ => simp [DN.reown, WFTz]
  | .el o u nm a sc blocks ch tx p ow', h =>
    simp only [WFTz] at h
    simp only [DN.reown, WFTz]
    exact ⟨h.1, h.2.1, h.2.2.1, WFTzL_reownL ow blocks h.2.2.2⟩
theorem WFTzL_reownL (ow : Option Nat) (bs : List DN) (h : WFTzL bs) : WFTzL (DN.reownL ow bs) := by
  match bs, h with
  | [], _ => simp [DN.reownL, WFTzL]
  | b :: bs, h =>
    simp only [WFTzL] at h
    simp only [DN.reownL, WFTzL]
    exact ⟨WFTz_reown ow b h.1, WFTzL_reownL ow bs h.2⟩
end

theorem WFTz_setParent (p : Option Nat) (t : DN) (h : WFTz t) : WFTz (DN.setParent p t) := by
  cases t with
  | text s => simp [DN.setParent, WFTz]
  | el o u nm a sc blocks ch tx p' ow => simpa [DN.setParent, WFTz] using h

mutual
/-- the copy an unpickling builds is in the closed domain again -/
theorem WFTz_relabel (par own : Option Nat) (t : DN) (h : WFT t) (n : Nat) : WFTz (relabel par own t n).1 := by
  match t, h with
  | .text s, _ => simp [relabel, WFTz]
  | .el o u nm a sc blocks ch tx p ow, h =>
    simp only [WFT] at h
    obtain ⟨hn, ha, _, hb⟩ := h
    simp only [relabel, WFTz]
    exact ⟨hn, Attrs.WF_fresh a ha, Attrs.classLazy_fresh a, WFTzL_relabelL (some n) own blocks hb (n + 1)⟩
theorem WFTzL_relabelL (par own : Option Nat) (bs : List DN) (h : WFTL bs) (n : Nat) : WFTzL (relabelL par own bs n).1 := by
  match bs, h with
  | [], _ => simp [relabelL, WFTzL]
  | b :: bs, h =>
    simp only [WFTL] at h
    simp only [relabelL, WFTzL]
    exact ⟨WFTz_relabel par own b h.1 n, WFTzL_relabelL par own bs h.2 _⟩
end

mutual
/-- an edit at one element keeps the tree in the domain when it keeps that element in the domain -/
theorem WFTz_mapAt (o : Nat) (f : DN → DN) (hf : ∀ e, WFTz e → WFTz (f e)) (t : DN) (h : WFTz t) : WFTz (mapAt o f t) := by
  match t, h with
  | .text s, _ => simp [mapAt, WFTz]
  | .el o1 u nm a sc blocks ch tx p ow, h =>
    simp only [mapAt]
    split
    · exact hf _ h
    · simp only [WFTz] at h ⊢
      exact ⟨h.1, h.2.1, h.2.2.1, WFTzL_mapAtL o f hf blocks h.2.2.2⟩
theorem WFTzL_mapAtL (o : Nat) (f : DN → DN) (hf : ∀ e, WFTz e → WFTz (f e)) (bs : List DN) (h : WFTzL bs) :
    WFTzL (mapAtL o f bs) := by
  match bs, h with
  | [], _ => simp [mapAtL, WFTzL]
  | b :: bs, h =>
    simp only [WFTzL] at h
    simp only [mapAtL, WFTzL]
    exact ⟨WFTz_mapAt o f hf b h.1, WFTzL_mapAtL o f hf bs h.2⟩
end

theorem WFTz_appendText (s : Str) (e : DN) (h : WFTz e) : WFTz (DN.appendText s e) := by
  cases e with
  | text x => simp [DN.appendText, WFTz]
  | el o u nm a sc blocks ch tx p ow =>
    simp only [WFTz] at h
    simp only [DN.appendText, WFTz]
    exact ⟨h.1, h.2.1, h.2.2.1, WFTzL_append _ _ h.2.2.2 (by simp [WFTzL, WFTz])⟩

theorem WFTz_appendChild (c : DN) (hc : WFTz c) (e : DN) (h : WFTz e) : WFTz (DN.appendChild c e) := by
  cases e with
  | text x => simp [DN.appendChild, WFTz]
  | el o u nm a sc blocks ch tx p ow =>
    simp only [WFTz] at h
    simp only [DN.appendChild, WFTz]
    refine ⟨h.1, h.2.1, h.2.2.1, WFTzL_append _ _ h.2.2.2 ?_⟩
    simp only [WFTzL, and_true]
    exact WFTz_reown _ _ (WFTz_setParent _ _ hc)

theorem WFTz_updAttrs (f : Attrs → Attrs) (hf : ∀ a, Attrs.WF a → Attrs.ClassLazy a → Attrs.WF (f a) ∧ Attrs.ClassLazy (f a))
    (e : DN) (h : WFTz e) : WFTz (updAttrs f e) := by
  cases e with
  | text x => simp [updAttrs, WFTz]
  | el o u nm a sc blocks ch tx p ow =>
    simp only [WFTz] at h
    simp only [updAttrs, WFTz]
    exact ⟨h.1, (hf a h.2.1 h.2.2.1).1, (hf a h.2.1 h.2.2.1).2, h.2.2.2⟩

theorem WFTz_setAttribute (k v : Str) (e : DN) (h : WFTz e) : WFTz (setAttribute k v e) := by
  unfold setAttribute
  split
  · rename_i hk
    apply WFTz_updAttrs _ _ e h
    intro a ha hl
    obtain ⟨a', e'⟩ := Attrs.setitem_isSome a k (some v)
    simp only [e']
    exact ⟨Attrs.WF_setitem a k (some v) ha (Attrs.validAttrName_lower k hk) a' e',
      Attrs.classLazy_setitem a k (some v) hl a' e'⟩
  · exact h

theorem WFTz_removeAttribute (k : Str) (e : DN) (h : WFTz e) : WFTz (removeAttribute k e) :=
  WFTz_updAttrs _ (fun a ha hl => ⟨Attrs.WF_delitem a k ha, Attrs.classLazy_delitem a k hl⟩) e h

theorem WFTz_addClass (tok : Str) (ht : Attrs.TokArg tok) (e : DN) (h : WFTz e) : WFTz (addClass tok e) :=
  WFTz_updAttrs _ (fun a ha hl => ⟨Attrs.WF_addClass a tok ha ht, Attrs.classLazy_addClass a tok hl⟩) e h

theorem WFTzL_removeFirstUid (u : Nat) (bs : List DN) (h : WFTzL bs) : WFTzL (removeFirstUid u bs) := by
  induction bs with
  | nil => simp [removeFirstUid, WFTzL]
  | cons b bs ih =>
    simp only [WFTzL] at h
    cases b with
    | text s => simp only [removeFirstUid, WFTzL]; exact ⟨h.1, ih h.2⟩
    | el o u' n a sc bl ch t p ow =>
      simp only [removeFirstUid]
      split
      · exact h.2
      · simp only [WFTzL]; exact ⟨h.1, ih h.2⟩

theorem WFTz_removeChildAt (i : Nat) (e : DN) (h : WFTz e) : WFTz (removeChildAt i e) := by
  cases e with
  | text x => simp [removeChildAt, WFTz]
  | el o u nm a sc blocks ch tx p ow =>
    simp only [removeChildAt]
    split
    · exact h
    · simp only [WFTz] at h ⊢
      exact ⟨h.1, h.2.1, h.2.2.1, WFTzL_removeFirstUid _ _ h.2.2.2⟩

/-- a freshly constructed element (`AdvancedTag(name)`) is in the domain -/
theorem WFTz_mk (oid uid : Nat) (name : Str) (l : List (Str × Option Str)) (sc : Bool) (ow : Option Nat) (c : DN)
    (e : DN.mk oid uid name l sc ow = some c) : WFTz c := by
  unfold DN.mk at e
  cases hi : Attrs.init l with
  | none => rw [hi] at e; cases e
  | some a =>
    rw [hi] at e
    simp only [Option.some.injEq] at e
    subst e
    simp only [WFTz, WFTzL, and_true]
    exact ⟨Attrs.lower_idem name, Attrs.WF_init l a hi, Attrs.classLazy_init l a hi⟩

/-- the operand condition of an edit: only `addClass` has one -/
def EditOK : Edit → Prop
  | .addClass tok => Attrs.TokArg tok
  | _ => True

/-- **one edit keeps the tree in the domain** — all six kinds, any target -/
theorem WFTz_applyEdit (t oid uid : Nat) (e : Edit) (he : EditOK e) (d : DN) (h : WFTz d) :
    WFTz (applyEdit t oid uid e d) := by
  cases e with
  | appendText s => exact WFTz_mapAt t _ (WFTz_appendText s) d h
  | appendChild name =>
    simp only [applyEdit]
    cases hm : DN.mk oid uid name [] false none with
    | none => exact h
    | some c => exact WFTz_mapAt t _ (WFTz_appendChild c (WFTz_mk _ _ _ _ _ _ c hm)) d h
  | setAttribute k v => exact WFTz_mapAt t _ (WFTz_setAttribute k v) d h
  | removeAttribute k => exact WFTz_mapAt t _ (WFTz_removeAttribute k) d h
  | addClass tok => exact WFTz_mapAt t _ (WFTz_addClass tok he) d h
  | removeChild i => exact WFTz_mapAt t _ (WFTz_removeChildAt i) d h

/-- a history of edits: (target object, fresh object id, fresh uid, edit) in the order applied -/
def applyHistory (es : List (Nat × Nat × Nat × Edit)) (d : DN) : DN :=
  es.foldl (fun d x => applyEdit x.1 x.2.1 x.2.2.1 x.2.2.2 d) d

theorem WFTz_applyHistory (es : List (Nat × Nat × Nat × Edit)) (he : ∀ x ∈ es, EditOK x.2.2.2) :
    ∀ d : DN, WFTz d → WFTz (applyHistory es d) := by
  induction es with
  | nil => intro d h; exact h
  | cons x es ih =>
    intro d h
    simp only [applyHistory, List.foldl_cons]
    exact ih (fun y hy => he y (List.mem_cons_of_mem _ hy)) _
      (WFTz_applyEdit _ _ _ _ (he x List.mem_cons_self) d h)

mutual
/-- the read (`getAttributesList()` on every element, as pickling the original does) keeps `WFT` -/
theorem WFT_materialise (t : DN) (h : WFT t) : WFT (materialise t) := by
  match t, h with
  | .text s, _ => simp [materialise, WFT]
  | .el o u nm a sc blocks ch tx p ow, h =>
    simp only [WFT] at h
    simp only [materialise, WFT]
    refine ⟨h.1, Attrs.WF_handle a h.2.1, ?_, WFTL_materialiseL blocks h.2.2.2⟩
    unfold Attrs.ClassLast
    rw [Attrs.handle_idem a h.2.1.nodup]
    exact h.2.2.1
theorem WFTL_materialiseL (bs : List DN) (h : WFTL bs) : WFTL (materialiseL bs) := by
  match bs, h with
  | [], _ => simp [materialiseL, WFTL]
  | b :: bs, h =>
    simp only [WFTL] at h
    simp only [materialiseL, WFTL]
    exact ⟨WFT_materialise b h.1, WFTL_materialiseL bs h.2⟩
end

end AHP.Pk
