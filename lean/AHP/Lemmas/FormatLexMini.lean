/-
  AHP.Lemmas.FormatLexMini — C12c at string level: **mini output is a fixed point of the mini formatter**, on
  text, through the real pipeline text → tokens (`lexStrict`) → formatter → text, for every strict single-root
  document without adjacent data blocks (with them it fails — the known finding `C12-mini-dropped-markup`).

  With `mini` there is no `_indent`: `expand` only applies the data rule to data blocks and drops the ones that
  become empty; that keeps "no two data blocks adjacent" (`noAdj_expandL`), so re-tokenising glues nothing
  (`mergeL_glued`), and the data rule is idempotent (`expandL_idem`, from `squeeze_idem`).
-/
import AHP.Lemmas.FormatLexMulti
namespace AHP.Fmt
open AHP

/-! ### no `_indent` under `mini` -/

theorem indentAt_mini (cfg : Cfg) (hm : cfg.mini = true) (c : Ctx) : indentAt cfg c = [] := by
  unfold indentAt getIndent
  simp [hm]

theorem endInd_nil (n : Str) (kids : List Node) : endInd n [] kids = [] := by
  simp [endInd]

theorem expand_mini_elem (cfg : Cfg) (hm : cfg.mini = true) (c : Ctx) (p n : Str) (st : AStore) (sc : Bool)
    (kids : List FNode) :
    expand cfg c p (.elem n st sc kids)
      = [.elem n st sc (if sc then [] else expandL cfg (c.push n) n kids)] := by
  simp only [expand, indentAt_mini cfg hm, endInd_nil, dataTok, List.isEmpty_nil, if_true, List.nil_append,
    List.append_nil]

theorem expandL_append (cfg : Cfg) (c : Ctx) (p : Str) (xs ys : List FNode) :
    expandL cfg c p (xs ++ ys) = expandL cfg c p xs ++ expandL cfg c p ys := by
  induction xs with
  | nil => rfl
  | cons x xs ih => simp [expandL, ih]

theorem dataRule_idem (c : Ctx) (p s : Str) : dataRule c p (dataRule c p s) = dataRule c p s := by
  unfold dataRule
  split
  · exact squeeze_idem s
  · rfl

theorem expandL_dataTok (cfg : Cfg) (c : Ctx) (p s : Str) :
    expandL cfg c p (dataTok s) = if s.isEmpty then [] else dataTok (dataRule c p s) := by
  unfold dataTok
  by_cases h : s.isEmpty = true
  · simp [h, expandL]
  · simp [h, expandL, expand, expandTok, dataTok]

/-! ### the data rule is idempotent: a second `expand` changes nothing -/

mutual
theorem expand_idem (cfg : Cfg) (hm : cfg.mini = true) (c : Ctx) (p : Str) :
    ∀ u : FNode, expandL cfg c p (expand cfg c p u) = expand cfg c p u
  | .tok t => by
    cases t with
    | data s =>
      simp only [expand, expandTok]
      rw [expandL_dataTok]
      by_cases h : (dataRule c p s).isEmpty = true
      · have : dataRule c p s = [] := by simpa using h
        simp [this, dataTok]
      · simp only [h, Bool.false_eq_true, if_false, dataRule_idem]
    | entity e => simp [expand, expandTok, expandL]
    | charref e => simp [expand, expandTok, expandL]
    | comment e => simp [expand, expandTok, expandL]
    | decl e => simp [expand, expandTok, expandL]
    | unknownDecl e => simp [expand, expandTok, expandL]
    | pi e => simp [expand, expandTok, expandL]
    | start n a => simp [expand, expandTok, expandL]
    | startend n a => simp [expand, expandTok, expandL]
    | end_ n => simp [expand, expandTok, expandL]
  | .elem n st sc kids => by
    rw [expand_mini_elem cfg hm]
    simp only [expandL, List.append_nil]
    rw [expand_mini_elem cfg hm]
    cases sc with
    | true => rfl
    | false =>
      simp only [Bool.false_eq_true, if_false]
      rw [expandL_idem cfg hm (c.push n) n kids]
theorem expandL_idem (cfg : Cfg) (hm : cfg.mini = true) (c : Ctx) (p : Str) :
    ∀ ks : List FNode, expandL cfg c p (expandL cfg c p ks) = expandL cfg c p ks
  | [] => rfl
  | k :: ks => by
    simp only [expandL]
    rw [expandL_append, expand_idem cfg hm c p k, expandL_idem cfg hm c p ks]
end

/-! ### nothing to glue -/

def headIsData : List FNode → Bool
  | k :: _ => fisDataTok k
  | [] => false

theorem noAdj_cons (k : FNode) (l : List FNode) (h : ¬ (fisDataTok k = true ∧ headIsData l = true)) (hl : FNoAdjL l) :
    FNoAdjL (k :: l) := by
  cases l with
  | nil => trivial
  | cons k2 l2 => exact ⟨by simpa [headIsData] using h, hl⟩

theorem noAdj_head (k : FNode) (l : List FNode) (h : FNoAdjL (k :: l)) :
    ¬ (fisDataTok k = true ∧ headIsData l = true) ∧ FNoAdjL l := by
  cases l with
  | nil => exact ⟨by simp [headIsData], trivial⟩
  | cons k2 l2 => exact ⟨by simpa [headIsData] using h.1, h.2⟩

theorem pushTok_noMerge (t : Token) (r : List FNode) (h : ¬ (fisDataTok (.tok t) = true ∧ headIsData r = true)) :
    pushTok t r = .tok t :: r := by
  unfold pushTok
  split
  · exact absurd ⟨rfl, rfl⟩ h
  · rfl

mutual
theorem merge_glued : ∀ u : FNode, u.Glued → merge u = u
  | .tok t, _ => rfl
  | .elem n st sc kids, h => by
    simp only [FNode.Glued] at h
    simp only [merge]
    rw [mergeL_glued kids h.1 h.2]
theorem mergeL_glued : ∀ ks : List FNode, GluedL ks → FNoAdjL ks → mergeL ks = ks
  | [], _, _ => by simp [mergeL]
  | .tok t :: ks, hg, ha => by
    simp only [GluedL] at hg
    obtain ⟨h1, h2⟩ := noAdj_head _ _ ha
    simp only [mergeL]
    rw [mergeL_glued ks hg.2 h2, pushTok_noMerge t ks h1]
  | .elem n st sc kids :: ks, hg, ha => by
    simp only [GluedL, FNode.Glued] at hg
    obtain ⟨_, h2⟩ := noAdj_head _ _ ha
    simp only [mergeL]
    rw [mergeL_glued kids hg.1.1 hg.1.2, mergeL_glued ks hg.2 h2]
end

/-- a block that is not a data block expands to one block that is not a data block -/
theorem head_expandL (cfg : Cfg) (hm : cfg.mini = true) (c : Ctx) (p : Str) (ks : List FNode)
    (h : headIsData ks = false) : headIsData (expandL cfg c p ks) = false := by
  cases ks with
  | nil => rfl
  | cons k ks =>
    cases k with
    | elem n st sc kids =>
      simp only [expandL]
      rw [expand_mini_elem cfg hm]
      rfl
    | tok t =>
      cases t with
      | data s => simp [headIsData, fisDataTok] at h
      | _ => rfl

theorem fisDataTok_dataTok (s : Str) (h : s.isEmpty = false) : dataTok s = [.tok (.data s)] := by
  simp [dataTok, h]

mutual
theorem glued_expand (cfg : Cfg) (hm : cfg.mini = true) (c : Ctx) (p : Str) :
    ∀ u : FNode, u.Glued → GluedL (expand cfg c p u)
  | .tok t, _ => by
    cases t with
    | data s =>
      simp only [expand, expandTok, dataTok]
      split <;> simp [GluedL, FNode.Glued]
    | _ => simp [expand, expandTok, GluedL, FNode.Glued]
  | .elem n st sc kids, h => by
    simp only [FNode.Glued] at h
    rw [expand_mini_elem cfg hm]
    simp only [GluedL, FNode.Glued, and_true]
    cases sc with
    | true => simp [GluedL, FNoAdjL]
    | false =>
      simp only [Bool.false_eq_true, if_false]
      exact glued_expandL cfg hm (c.push n) n kids h.1 h.2
theorem glued_expandL (cfg : Cfg) (hm : cfg.mini = true) (c : Ctx) (p : Str) :
    ∀ ks : List FNode, GluedL ks → FNoAdjL ks → GluedL (expandL cfg c p ks) ∧ FNoAdjL (expandL cfg c p ks)
  | [], _, _ => by simp [expandL, GluedL, FNoAdjL]
  | k :: ks, hg, ha => by
    simp only [GluedL] at hg
    obtain ⟨h1, h2⟩ := noAdj_head _ _ ha
    have ih := glued_expandL cfg hm c p ks hg.2 h2
    have hk := glued_expand cfg hm c p k hg.1
    simp only [expandL]
    cases k with
    | elem n st sc kids =>
      rw [expand_mini_elem cfg hm] at hk ⊢
      simp only [GluedL] at hk
      refine ⟨⟨hk.1, ih.1⟩, ?_⟩
      exact noAdj_cons _ _ (by simp [fisDataTok]) ih.2
    | tok t =>
      cases t with
      | data s =>
        simp only [expand, expandTok]
        by_cases he : (dataRule c p s).isEmpty = true
        · simp only [dataTok, he, if_true, List.nil_append]
          exact ih
        · have he' : (dataRule c p s).isEmpty = false := by simpa using he
          rw [fisDataTok_dataTok _ he']
          refine ⟨⟨trivial, ih.1⟩, ?_⟩
          have hnd : headIsData ks = false := by
            cases hh : headIsData ks with
            | false => rfl
            | true => exact absurd ⟨rfl, hh⟩ h1
          exact noAdj_cons _ _ (by simp [head_expandL cfg hm c p ks hnd]) ih.2
      | entity e => exact ⟨⟨trivial, ih.1⟩, noAdj_cons _ _ (by simp [fisDataTok]) ih.2⟩
      | charref e => exact ⟨⟨trivial, ih.1⟩, noAdj_cons _ _ (by simp [fisDataTok]) ih.2⟩
      | comment e => exact ⟨⟨trivial, ih.1⟩, noAdj_cons _ _ (by simp [fisDataTok]) ih.2⟩
      | decl e => exact ⟨⟨trivial, ih.1⟩, noAdj_cons _ _ (by simp [fisDataTok]) ih.2⟩
      | unknownDecl e => exact ⟨⟨trivial, ih.1⟩, noAdj_cons _ _ (by simp [fisDataTok]) ih.2⟩
      | pi e => exact ⟨⟨trivial, ih.1⟩, noAdj_cons _ _ (by simp [fisDataTok]) ih.2⟩
      | start n a => exact ⟨⟨trivial, ih.1⟩, noAdj_cons _ _ (by simp [fisDataTok]) ih.2⟩
      | startend n a => exact ⟨⟨trivial, ih.1⟩, noAdj_cons _ _ (by simp [fisDataTok]) ih.2⟩
      | end_ n => exact ⟨⟨trivial, ih.1⟩, noAdj_cons _ _ (by simp [fisDataTok]) ih.2⟩
end

/-! ### no element of the tree carries the reserved name -/

mutual
def FNode.NoWrapper : FNode → Prop
  | .tok _ => True
  | .elem n _ _ kids => lower n ≠ wrapper ∧ NoWrapperL kids
def NoWrapperL : List FNode → Prop
  | [] => True
  | k :: ks => k.NoWrapper ∧ NoWrapperL ks
end

mutual
theorem noWrapper_toks : ∀ u : FNode, u.TextLike → u.NoWrapper →
    ∀ t ∈ u.toks, (Tok.ofToken t).startName? ≠ some wrapper
  | .tok tk, h, _, t, ht => by
    simp only [FNode.TextLike] at h
    simp only [FNode.toks, List.mem_singleton] at ht
    subst ht
    cases t <;> simp [isTextLike] at h <;> simp [Tok.ofToken, Tok.startName?]
  | .elem n st sc kids, h, hw, t, ht => by
    simp only [FNode.TextLike] at h
    simp only [FNode.NoWrapper] at hw
    unfold FNode.toks at ht
    cases sc with
    | true =>
      simp only [if_true, List.mem_singleton] at ht
      subst ht
      simp only [Tok.ofToken, Tok.startName?, ne_eq, Option.some.injEq]
      exact hw.1
    | false =>
      simp only [Bool.false_eq_true, if_false, List.mem_cons, List.mem_append, List.mem_singleton] at ht
      rcases ht with e | e | e
      · subst e
        simp only [Tok.ofToken, Tok.startName?, ne_eq, Option.some.injEq]
        exact hw.1
      · exact noWrapper_toksL kids h hw.2 t e
      · rcases e with e | e
        · subst e; simp [Tok.ofToken, Tok.startName?]
        · simp at e
theorem noWrapper_toksL : ∀ ks : List FNode, TextLikeL ks → NoWrapperL ks →
    ∀ t ∈ ftoksL ks, (Tok.ofToken t).startName? ≠ some wrapper
  | [], _, _, t, ht => by simp [ftoksL] at ht
  | k :: ks, h, hw, t, ht => by
    simp only [TextLikeL] at h
    simp only [NoWrapperL] at hw
    simp only [ftoksL, List.mem_append] at ht
    rcases ht with e | e
    · exact noWrapper_toks k h.1 hw.1 t e
    · exact noWrapper_toksL ks h.2 hw.2 t e
end

mutual
theorem noWrapper_expand (cfg : Cfg) (hm : cfg.mini = true) (c : Ctx) (p : Str) :
    ∀ u : FNode, u.NoWrapper → NoWrapperL (expand cfg c p u)
  | .tok t, _ => by
    cases t with
    | data s =>
      simp only [expand, expandTok, dataTok]
      split <;> simp [NoWrapperL, FNode.NoWrapper]
    | _ => simp [expand, expandTok, NoWrapperL, FNode.NoWrapper]
  | .elem n st sc kids, h => by
    simp only [FNode.NoWrapper] at h
    rw [expand_mini_elem cfg hm]
    simp only [NoWrapperL, FNode.NoWrapper, and_true]
    refine ⟨h.1, ?_⟩
    cases sc with
    | true => trivial
    | false => exact noWrapper_expandL cfg hm (c.push n) n kids h.2
theorem noWrapper_expandL (cfg : Cfg) (hm : cfg.mini = true) (c : Ctx) (p : Str) :
    ∀ ks : List FNode, NoWrapperL ks → NoWrapperL (expandL cfg c p ks)
  | [], _ => trivial
  | k :: ks, h => by
    simp only [NoWrapperL] at h
    simp only [expandL]
    have h1 := noWrapper_expand cfg hm c p k h.1
    have h2 := noWrapper_expandL cfg hm c p ks h.2
    generalize expand cfg c p k = xs at h1
    induction xs with
    | nil => exact h2
    | cons x xs ih =>
      simp only [NoWrapperL] at h1
      exact ⟨h1.1, ih h1.2⟩
end

/-! ### the fixed point -/

/-- what the mini formatter makes of a single-root document without adjacent data blocks, and what it makes of that
    again -/
theorem outBlocks_mini (cfg : Cfg) (hm : cfg.mini = true) (dt : Option Str) (n : Str) (st : AStore) (sc : Bool)
    (kids : List FNode) (hg : (FNode.elem n st sc kids).Glued) :
    outBlocks cfg dt (.elem n st sc kids)
      = dtBlock dt ++ [.elem n st sc (if sc then [] else expandL cfg ((⟨0, 0⟩ : Ctx).push n) n kids)]
    ∧ outRoot cfg n st sc kids = .elem n st sc (if sc then [] else expandL cfg ((⟨0, 0⟩ : Ctx).push n) n kids)
    ∧ (FNode.elem n st sc (if sc then [] else expandL cfg ((⟨0, 0⟩ : Ctx).push n) n kids)).Glued := by
  simp only [FNode.Glued] at hg
  have hK : GluedL (if sc then [] else expandL cfg ((⟨0, 0⟩ : Ctx).push n) n kids)
      ∧ FNoAdjL (if sc then [] else expandL cfg ((⟨0, 0⟩ : Ctx).push n) n kids) := by
    cases sc with
    | true => simp [GluedL, FNoAdjL]
    | false => simpa using glued_expandL cfg hm _ n kids hg.1 hg.2
  have hroot : outRoot cfg n st sc kids
      = .elem n st sc (if sc then [] else expandL cfg ((⟨0, 0⟩ : Ctx).push n) n kids) := by
    unfold outRoot
    rw [indentAt_mini cfg hm, endInd_nil]
    simp only [dataTok, List.isEmpty_nil, if_true, List.append_nil]
    rw [mergeL_glued _ hK.1 hK.2]
  refine ⟨?_, hroot, ⟨hK.1, hK.2⟩⟩
  rw [outBlocks_eq, hroot, indentAt_mini cfg hm, List.append_nil]
  cases dt with
  | none => rfl
  | some d =>
    by_cases hd : d.isEmpty = true
    · simp [dtText, dtBlock, hd, dataTok]
    · simp [dtText, dtBlock, hd, dataTok]

/-- **C12c at string level (mini² = mini).**  Mini class (normal or slim elements), a strict single-root document
    without adjacent data blocks and without the reserved name: the formatter's output text lexes, and feeding the
    formatter the tokens of its own output gives the identical text. -/
theorem mini_text_fixed_point (cfg : Cfg) (hm : cfg.mini = true) (hi : IndentWS cfg) (dt : Option Str)
    (hdt : DtOK dt) (n : Str) (st : AStore) (sc : Bool) (kids : List FNode)
    (hs : (FNode.elem n st sc kids).Strict) (hg : (FNode.elem n st sc kids).Glued)
    (hnw : (FNode.elem n st sc kids).NoWrapper) :
    ∃ out toks2, format cfg (strictToks dt (.elem n st sc kids)) = .ok out ∧ lexStrict out = some toks2 ∧
      format cfg (toks2.map Tok.ofToken) = .ok out := by
  have hn : n ≠ wrapper := by
    simp only [FNode.NoWrapper] at hnw
    simp only [FNode.Strict] at hs
    rw [← hs.1.2.2]; exact hnw.1
  have hwOK : WrapperOK n st sc kids := fun e => absurd e hn
  have htl := strict_textLike _ hs
  -- pass 1
  have hnw1 : NoWrapperStart (strictToks dt (.elem n st sc kids)) := by
    intro t ht
    simp only [strictToks, List.map_append, List.mem_append, List.mem_map] at ht
    rcases ht with ⟨t0, ht0, rfl⟩ | ⟨t0, ht0, rfl⟩
    · cases dt with
      | none => simp [dtToks] at ht0
      | some d =>
        by_cases hd : d.isEmpty = true
        · simp [dtToks, hd] at ht0
        · simp [dtToks, hd] at ht0; subst ht0; simp [Tok.ofToken, Tok.startName?]
    · exact noWrapper_toks _ htl hnw t0 ht0
  have hp1 := plain_feed_strictToks dt hdt n st sc kids hs
  have htext1 := format_text cfg _ hnw1 _ hp1 n st sc kids rfl hwOK hs
  have hlex1 : lexStrict (renderToksY (styleOf cfg.kind) (docToks cfg dt n st sc kids))
      = some (docToks cfg dt n st sc kids) := by
    unfold docToks
    simp only [hn, if_false]
    exact doc_lex cfg hi dt _ hs hdt
  refine ⟨_, _, htext1, hlex1, ?_⟩
  -- pass 2: the plain parser's tree of the output is `outRoot`, which is strict and glued again
  obtain ⟨hblocks, hroot, hglued2⟩ := outBlocks_mini cfg hm dt n st sc kids hg
  have hdoc : docToks cfg dt n st sc kids = outToks cfg dt (.elem n st sc kids) := by
    unfold docToks; simp [hn]
  have hp2 := doc_reparse cfg hi dt n st sc kids hs hdt
  rw [← hdoc, hroot] at hp2
  have hstrict2 : (FNode.elem n st sc (if sc then [] else expandL cfg ((⟨0, 0⟩ : Ctx).push n) n kids)).Strict := by
    have := strict_outBlocks cfg hi dt _ hs
    rw [hblocks, strictL_append] at this
    exact this.2.1
  have hnwTree2 : (FNode.elem n st sc (if sc then [] else expandL cfg ((⟨0, 0⟩ : Ctx).push n) n kids)).NoWrapper := by
    simp only [FNode.NoWrapper] at hnw ⊢
    refine ⟨hnw.1, ?_⟩
    cases sc with
    | true => trivial
    | false => exact noWrapper_expandL cfg hm _ n kids hnw.2
  have hnw2 : NoWrapperStart ((docToks cfg dt n st sc kids).map Tok.ofToken) := by
    intro t ht
    rw [hdoc] at ht
    simp only [outToks, hblocks, List.map_append, List.mem_append, List.mem_map, ftoksL_append] at ht
    rcases ht with ⟨t0, ht0, rfl⟩ | ⟨t0, ht0, rfl⟩ | ⟨t0, ht0, rfl⟩
    · cases dt with
      | none => simp [dtToks] at ht0
      | some d =>
        by_cases hd : d.isEmpty = true
        · simp [dtToks, hd] at ht0
        · simp [dtToks, hd] at ht0; subst ht0; simp [Tok.ofToken, Tok.startName?]
    · cases dt with
      | none => simp [dtBlock, ftoksL] at ht0
      | some d =>
        by_cases hd : d.isEmpty = true
        · simp [dtBlock, hd, ftoksL] at ht0
        · simp [dtBlock, hd, ftoksL, FNode.toks] at ht0; subst ht0; simp [Tok.ofToken, Tok.startName?]
    · simp only [ftoksL, List.append_nil] at ht0
      exact noWrapper_toks _ (strict_textLike _ hstrict2) hnwTree2 t0 ht0
  have htext2 := format_text cfg _ hnw2 _ hp2 n st sc _ rfl (fun e => absurd e hn) hstrict2
  rw [htext2]
  -- the two texts are renderings of the same tokens
  congr 2
  unfold docToks
  simp only [hn, if_false]
  unfold outToks
  congr 2
  obtain ⟨hblocks2, _, _⟩ := outBlocks_mini cfg hm dt n st sc _ hglued2
  rw [hblocks2, hblocks]
  congr 3
  cases sc with
  | true => rfl
  | false =>
    simp only [Bool.false_eq_true, if_false]
    exact expandL_idem cfg hm _ n kids

end AHP.Fmt
