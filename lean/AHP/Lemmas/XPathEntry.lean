/-
  AHP.Lemmas.XPathEntry — the entry points of the XPath engine (AHP.Model.XPath, "Entry points") reduced to the
  step driver `evaluate` on the start collection of the receiver.
-/
import AHP.Lemmas.XPathSteps
namespace AHP.XPath

section
variable {N : Type} (compile : Str → Option (List (Step N))) (nm : Num N)

/-- from an empty start collection every expression selects nothing (and does not raise) -/
theorem evaluate_nil_start (d : Doc) (steps : List (Step N)) : evaluate nm d steps [] = some [] := by
  cases steps <;> simp [evaluate, dedup, runSteps, applyFind]

/-- the start collection is de-duplicated before the first step: only its first occurrences matter -/
theorem evaluate_dedup_start (d : Doc) (steps : List (Step N)) (start : List Nat) :
    evaluate nm d steps (dedup start) = evaluate nm d steps start := by
  simp only [evaluate]
  rw [dedup_of_nodup (nodup_dedup start)]

theorem parserEntry_run (d : Doc) (wrapper : Bool) (text : Str) (e : ParserEntry) (he : e ≠ .evaluate .other) :
    e.run compile nm d wrapper text = evalParser compile nm d wrapper text := by
  cases e with
  | evaluate w =>
    cases w with
    | other => exact absurd rfl he
    | default =>
      simp only [ParserEntry.run, parserEvaluate, parserGetElementsByXPathExpression, evalParser, exprEvaluate,
        PathRoot.start]
      cases compile text <;> simp
    | self =>
      simp only [ParserEntry.run, parserEvaluate, parserGetElementsByXPathExpression, evalParser, exprEvaluate,
        PathRoot.start]
      cases compile text <;> simp
  | _ =>
    simp only [ParserEntry.run, parserGetElementsByXPath, parserGetElementsByXPathExpression, textEvaluate, evalParser,
      exprEvaluate, PathRoot.start]
    cases compile text <;> rfl

theorem parserEntry_other (d : Doc) (wrapper : Bool) (text : Str) :
    (ParserEntry.evaluate .other).run compile nm d wrapper text = none := by
  simp [ParserEntry.run, parserEvaluate]

theorem tagEntry_run (d : Doc) (i : Nat) (text : Str) (e : TagEntry) :
    e.run compile nm d i text = evalElement compile nm d i text := by
  cases e <;>
    simp only [TagEntry.run, tagGetElementsByXPath, tagGetElementsByXPathExpression, textEvaluate, evalElement,
      exprEvaluate, PathRoot.start] <;>
    cases compile text <;> rfl

/-- the two collection methods answer `[]` for an empty collection without compiling; everything else compiles
    first -/
theorem collEntry_run (d : Doc) (ms : List Nat) (text : Str) (e : CollEntry)
    (h : ms ≠ [] ∨ (compile text).isSome = true ∨ e.isMethod = false) :
    e.run compile nm d ms text = evalColl compile nm d ms text := by
  have key : collGetElementsByXPathExpression compile nm d ms text = evalColl compile nm d ms text ∨
      (ms = [] ∧ compile text = none) := by
    simp only [collGetElementsByXPathExpression, evalColl, exprEvaluate, PathRoot.start]
    cases ms with
    | nil =>
      cases hc : compile text with
      | none => exact Or.inr ⟨rfl, rfl⟩
      | some cs => left; simp [evaluate_nil_start]
    | cons x xs =>
      left
      cases compile text <;> simp
  cases e with
  | getElementsByXPathExpression =>
    rcases key with k | ⟨k1, k2⟩
    · exact k
    · rcases h with h | h | h
      · exact absurd k1 h
      · rw [k2] at h; cases h
      · cases h
  | getElementsByXPath =>
    rcases key with k | ⟨k1, k2⟩
    · exact k
    · rcases h with h | h | h
      · exact absurd k1 h
      · rw [k2] at h; cases h
      · cases h
  | exprEvaluate =>
    simp only [CollEntry.run, textEvaluate, evalColl, exprEvaluate, PathRoot.start]
    cases compile text <;> rfl
  | exprEvaluateList b =>
    simp only [CollEntry.run, textEvaluate, evalColl, exprEvaluate, PathRoot.start]
    cases compile text <;> rfl

/-- the one case in which the collection entry points differ: an empty collection and a text that does not
    compile — the methods return the empty collection, the constructor raises -/
theorem collEntry_empty_invalid (d : Doc) (text : Str) (hc : compile text = none) (e : CollEntry) :
    e.run compile nm d [] text = if e.isMethod then some [] else none := by
  cases e <;>
    simp [CollEntry.run, collGetElementsByXPath, collGetElementsByXPathExpression, textEvaluate, CollEntry.isMethod, hc]

end
end AHP.XPath
