/-
  AHP.Lemmas.DomAppend — what the target looks like after a loop of `appendBlock`s (used by C20d):
  its block list is the old one followed by the appended blocks.
-/
import AHP.Lemmas.Fragment
namespace AHP.Dom
open AHP.Dom.Spec

mutual
/-- after an edit at `t`, looking `t` up finds the edited element -/
theorem find?_upd (t f) (hid : KeepsId f) (n : DN) {m bs} (h : find? t n = some (m, bs)) :
    find? t (upd t f n).1 = some ((f m bs).m, (f m bs).blocks) := by
  match n with
  | .text s => simp at h
  | .el m' bs' =>
    rw [find?_el] at h
    rw [upd_el]
    split at h
    · rename_i he
      simp only [Option.some.injEq, Prod.mk.injEq] at h
      obtain ⟨rfl, rfl⟩ := h
      rw [if_pos he, find?_el, if_pos (by rw [hid]; exact he)]
    · rename_i he
      rw [if_neg he, find?_el, if_neg he]
      exact findL?_updL t f hid bs' h
theorem findL?_updL (t f) (hid : KeepsId f) (l : List DN) {m bs} (h : findL? t l = some (m, bs)) :
    findL? t (updL t f l).1 = some ((f m bs).m, (f m bs).blocks) := by
  match l with
  | [] => simp at h
  | b :: rest =>
    rw [findL?_cons] at h
    rw [updL_cons, findL?_cons]
    cases hfb : find? t b with
    | some r =>
      rw [hfb] at h
      simp only [Option.some.injEq] at h
      subst h
      rw [find?_upd t f hid b hfb]
    | none =>
      rw [hfb] at h
      rw [upd_not_mem t f b (find?_not_mem t b hfb), hfb]
      exact findL?_updL t f hid rest h
end

theorem findL?_append_some (t) (a b : List DN) {r} (h : findL? t a = some r) : findL? t (a ++ b) = some r := by
  induction a with
  | nil => simp at h
  | cons x xs ih =>
    rw [findL?_cons] at h
    rw [List.cons_append, findL?_cons]
    cases hx : find? t x with
    | some r' => rw [hx] at h; exact h
    | none => rw [hx] at h; exact ih h

theorem findL?_append_none (t) (a b : List DN) (h : t ∉ idsL a) : findL? t (a ++ b) = findL? t b := by
  induction a with
  | nil => rfl
  | cons x xs ih =>
    simp only [idsL_cons, List.mem_append, not_or] at h
    rw [List.cons_append, findL?_cons, find?_none t x h.1]
    exact ih h.2

theorem updL_append (t f) (a b : List DN) :
    (updL t f (a ++ b)).1 = (updL t f a).1 ++ (updL t f b).1 ∧ (updL t f (a ++ b)).2 = (updL t f a).2 ++ (updL t f b).2 := by
  induction a with
  | nil => simp
  | cons x xs ih => simp [ih.1, ih.2]

theorem takeRoot_skip (c : Nat) (a : List DN) (x : DN) (rest : List DN) (hc : c ∉ idsL a) (hx : rootId x = some c) :
    takeRoot c (a ++ x :: rest) = some (x, a ++ rest) := by
  induction a with
  | nil => simp [takeRoot, hx]
  | cons r rs ih =>
    simp only [idsL_cons, List.mem_append, not_or] at hc
    have hr : rootId r ≠ some c := by
      intro e
      cases r with
      | text s => simp [rootId] at e
      | el m k => simp only [rootId, Option.some.injEq] at e; exact hc.1 (by simp [e])
    simp [takeRoot, hr, ih hc.2]

theorem find?_id (t) (l : List DN) {m bs} (h : findL? t l = some (m, bs)) (hl : ∀ r ∈ l, RootOK r) : m.id = t := by
  induction l with
  | nil => simp at h
  | cons r rs ih =>
    rw [findL?_cons] at h
    cases hr : find? t r with
    | some x =>
      rw [hr] at h
      simp only [Option.some.injEq] at h
      subst h
      obtain ⟨m', bs', rfl, hk⟩ := hl r (by simp)
      exact (find?_OK t _ hk hr).1
    | none => rw [hr] at h; exact ih h (fun x hx => hl x (by simp [hx]))

mutual
theorem upd_out_nil (t f) (h : ∀ m bs, (f m bs).out = []) (n : DN) : (upd t f n).2 = [] := by
  match n with
  | .text s => simp
  | .el m bs =>
    rw [upd_el]; split
    · exact h m bs
    · exact updL_out_nil t f h bs
theorem updL_out_nil (t f) (h : ∀ m bs, (f m bs).out = []) (l : List DN) : (updL t f l).2 = [] := by
  match l with
  | [] => simp
  | b :: bs => simp [upd_out_nil t f h b, updL_out_nil t f h bs]
end

/-- one appending edit at `t` (found in `R`) on a world whose roots are `R ++ L` with `t` not in `L` -/
theorem edit_append_step (t : Nat) (f : Meta → List DN → Edit) (hid : KeepsId f) (hout : ∀ m bs, (f m bs).out = [])
    (R L : List DN) (next nd : Nat) {m bs} (hf : findL? t R = some (m, bs)) (hL : t ∉ idsL L) :
    World.edit ⟨R ++ L, next, nd⟩ t f = ⟨(updL t f R).1 ++ L, next, nd⟩ ∧
    findL? t (updL t f R).1 = some ((f m bs).m, (f m bs).blocks) := by
  refine ⟨?_, findL?_updL t f hid R hf⟩
  have := updL_append t f R L
  rw [updL_not_mem t f L hL] at this
  simp only [World.edit, this.1, this.2, updL_out_nil t f hout R]
  simp

/-- The loop of `appendBlocks` over freshly created blocks `l` whose elements sit at the end of the
    root list: afterwards the target's blocks are the old ones followed by `l` (up to the bookkeeping
    fields of the attached elements), and the target is not self-closing when `l` is not empty. -/
theorem appendLoop_blocks (t : Nat) (l : List DN) :
    ∀ (R : List DN) (next nd : Nat) (m : Meta) (bs : List DN) (W' : World),
      findL? t R = some (m, bs) → Inv ⟨R ++ l.filter DN.isEl, next, nd⟩ →
      World.appendBlocksLoop ⟨R ++ l.filter DN.isEl, next, nd⟩ t (l.map toBlk) = some W' →
      ∃ m' bs', W'.find? t = some (m', bs') ∧ absL bs' = absL bs ++ absL l ∧ (l ≠ [] → m'.sc = false) ∧
        (l = [] → m' = m) := by
  induction l with
  | nil =>
    intro R next nd m bs W' hf _ h
    simp only [List.filter_nil, List.append_nil, List.map_nil, World.appendBlocksLoop, Option.some.injEq] at h
    subst h
    exact ⟨m, bs, by simpa [World.find?] using hf, by simp, by simp, fun _ => rfl⟩
  | cons b rest ih =>
    intro R next nd m bs W' hf hinv h
    have hmem : t ∈ idsL R := findL?_mem t R hf
    have hnd := hinv.nodup
    simp only [idsL_append] at hnd
    have hdis := (List.nodup_append.mp hnd).2.2
    cases b with
    | text s =>
      have hfilt : (DN.text s :: rest).filter DN.isEl = rest.filter DN.isEl := by simp [List.filter, DN.isEl]
      rw [hfilt] at hinv hdis h
      have hnotL : t ∉ idsL (rest.filter DN.isEl) := fun hx => hdis t hmem t hx rfl
      simp only [List.map_cons, toBlk, World.appendBlocksLoop] at h
      cases hstep : World.appendBlock ⟨R ++ rest.filter DN.isEl, next, nd⟩ t (.txt s) with
      | none => rw [hstep] at h; simp at h
      | some r =>
        rw [hstep] at h
        simp only at h
        have hinv' : Inv r.1 := appendBlock_Inv (w' := r.1) (v := r.2) hinv (by simpa using hstep)
        have hfind : World.find? ⟨R ++ rest.filter DN.isEl, next, nd⟩ t = some (m, bs) := findL?_append_some t R _ hf
        have hr : r.1 = ⟨(updL t (fun m bs => locAppendText s m bs) R).1 ++ rest.filter DN.isEl, next, nd⟩ := by
          simp only [World.appendBlock, World.appendText, World.apply, hfind, Option.map_some, Option.some.injEq] at hstep
          rw [← hstep]
          exact (edit_append_step t _ (fun _ _ => rfl) (fun _ _ => rfl) R _ next nd hf hnotL).1
        have hf' := (edit_append_step t (fun m bs => locAppendText s m bs) (fun _ _ => rfl) (fun _ _ => rfl) R
          (rest.filter DN.isEl) next nd hf hnotL).2
        rw [hr] at hinv' h
        obtain ⟨m', bs', h1, h2, h3, h4⟩ := ih _ next nd _ _ W' hf' hinv' h
        refine ⟨m', bs', h1, ?_, ?_, by simp⟩
        · rw [h2]; simp [locAppendText, absL_append]
        · intro _
          by_cases hre : rest = []
          · rw [h4 hre]; rfl
          · exact h3 hre
    | el mc kc =>
      have hfilt : (DN.el mc kc :: rest).filter DN.isEl = DN.el mc kc :: rest.filter DN.isEl := by simp [List.filter, DN.isEl]
      rw [hfilt] at hinv hdis h
      have hcR : mc.id ∉ idsL R := fun hx => hdis mc.id hx mc.id (by simp) rfl
      have htake := takeRoot_skip mc.id R (DN.el mc kc) (rest.filter DN.isEl) hcR rfl
      have hnd2 := (List.nodup_append.mp hnd).2.1
      rw [hfilt] at hnd2
      simp only [idsL_cons] at hnd2
      have hnotL : t ∉ idsL (rest.filter DN.isEl) := fun hx => hdis t hmem t (by simp [hx]) rfl
      simp only [List.map_cons, toBlk, World.appendBlocksLoop] at h
      cases hstep : World.appendBlock ⟨R ++ DN.el mc kc :: rest.filter DN.isEl, next, nd⟩ t (.elm mc.id) with
      | none => rw [hstep] at h; simp at h
      | some r =>
        rw [hstep] at h
        simp only at h
        have hinv' : Inv r.1 := appendBlock_Inv (w' := r.1) (v := r.2) hinv (by simpa using hstep)
        have hfind : findL? t (R ++ rest.filter DN.isEl) = some (m, bs) := findL?_append_some t R _ hf
        have hr : r.1 = ⟨(updL t (fun m bs => locAppendChild (DN.el mc kc) m bs) R).1 ++ rest.filter DN.isEl, next, nd⟩ := by
          simp only [World.appendBlock, World.appendChild, htake, World.apply, World.find?, hfind, Option.some.injEq] at hstep
          rw [← hstep]
          exact (edit_append_step t _ (fun _ _ => rfl) (fun _ _ => rfl) R _ next nd hf hnotL).1
        have hf' := (edit_append_step t (fun m bs => locAppendChild (DN.el mc kc) m bs) (fun _ _ => rfl) (fun _ _ => rfl) R
          (rest.filter DN.isEl) next nd hf hnotL).2
        rw [hr] at hinv' h
        obtain ⟨m', bs', h1, h2, h3, h4⟩ := ih _ next nd _ _ W' hf' hinv' h
        refine ⟨m', bs', h1, ?_, ?_, by simp⟩
        · rw [h2]; simp [locAppendChild, absL_append, abs_attach]
        · intro _
          by_cases hre : rest = []
          · rw [h4 hre]; rfl
          · exact h3 hre

end AHP.Dom
