/-
  AHP.Lemmas.AttrsWriteRead — WRITE → READ for the writers of the attribute store: what the one list holds under the
  written key, and the list as a LIST, after `__setitem__` / `__delitem__` (hence `setAttribute`, `removeAttribute`),
  `setAttributes`, the class writers and the style writers.
-/
import AHP.Lemmas.AttrsWriteOps
namespace AHP.Attrs
open AHP

theorem normVal_of_not_binStr (T : Tables) {k : Str} (h : T.binStr.contains k = false) (v : Option Str) :
    normVal T k v = v := by
  unfold normVal; rw [h]; rfl

/-! #### ordinary keys -/

theorem mapDel_listed {e : El} (h : DictInv e) {k : Str} (hc : lower k ≠ classK) (hs : lower k ≠ styleK) :
    aget (lower k) (viewList (mapDel k e)) = none := by
  rw [viewList_lookup (dictInv_mapDel k h)]
  simp only [hc, hs, if_false]
  rw [mapDel_ordinary hc hs]
  unfold rawLookup
  show (match aget (lower k) (adel (lower k) e.dict) with | some (.val v) => some v | _ => none) = none
  rw [aget_adel_same]

/-- `attributes[k] = v` as a LIST: `d[k] = v` on the one list (an existing key keeps its place, a new key goes last)
    — when no `class` key is pending -/
theorem viewList_mapSet (T : Tables) {e : El} (h : DictInv e) (hp : e.cls ≠ [] → classK ∈ akeys e.dict) {k : Str}
    (hv : validName k = true) (hc : lower k ≠ classK) (hs : lower k ≠ styleK) (v : Option Str) :
    viewList (mapSet T k v e).2 = aset (lower k) (normVal T (lower k) v) (viewList e) := by
  rw [mapSet_ordinary T hv hc hs]
  exact viewList_set_dict h hp hc hs _

/-- `del attributes[k]` as a LIST: `del d[k]` on the one list — in every state -/
theorem viewList_mapDel {e : El} {k : Str} (hc : lower k ≠ classK) (hs : lower k ≠ styleK) :
    viewList (mapDel k e) = adel (lower k) (viewList e) := by
  rw [mapDel_ordinary hc hs]
  exact viewList_del_dict e hc hs

/-- the same without any condition on the state, on the list without its `class` entry (a pending `class` key is
    listed after a key added meanwhile; every other key follows the dict discipline) -/
theorem viewList_mapSet_general (T : Tables) {e : El} (h : DictInv e) {k : Str}
    (hv : validName k = true) (hc : lower k ≠ classK) (hs : lower k ≠ styleK) (v : Option Str) :
    adel classK (viewList (mapSet T k v e).2) = aset (lower k) (normVal T (lower k) v) (adel classK (viewList e)) := by
  rw [adel_class_viewList, adel_class_viewList, mapSet_ordinary T hv hc hs]
  have h0 : DictInv { e with cls := [] } := dictInv_cls h []
  exact viewList_set_dict (e := { e with cls := [] }) h0 (fun hne => absurd rfl hne) hc hs _

/-! #### `setAttributes` -/

theorem setAttributes_fold (T : Tables) : ∀ (l : List (Str × Option Str)) (e : El), (∀ p ∈ l, validName p.1 = true) →
    setAttributes T l e = (.ok, l.foldl (fun e p => (setAttribute T p.1 p.2 e).2) e)
  | [], _, _ => rfl
  | (n, v) :: r, e, h => by
    have hn := h (n, v) (by simp)
    have ho := setAttribute_valid T hn v e
    simp only [setAttributes, List.foldl_cons]
    rcases hs : setAttribute T n v e with ⟨o, e'⟩
    rw [hs] at ho
    simp only at ho
    subst ho
    simp only
    exact setAttributes_fold T r e' (fun p hp => h p (List.mem_cons_of_mem _ hp))

/-- the value the LAST entry of the list named `k` (case-insensitively) assigns -/
def lastAssigned (k : Str) : List (Str × Option Str) → Option (Option Str)
  | [] => none
  | p :: r =>
    match lastAssigned k r with
    | some v => some v
    | none => if lower p.1 = k then some p.2 else none

theorem foldl_setAttribute_listed (T : Tables) {k : Str} (hc : k ≠ classK) (hs : k ≠ styleK) :
    ∀ (l : List (Str × Option Str)) {e : El}, DictInv e → (∀ p ∈ l, validName p.1 = true) →
      aget k (viewList (l.foldl (fun e p => (setAttribute T p.1 p.2 e).2) e)) =
        match lastAssigned k l with
        | some v => some (normVal T k v)
        | none => aget k (viewList e)
  | [], _, _, _ => rfl
  | (n, v) :: r, e, h, hl => by
    have hn := hl (n, v) (by simp)
    have h1 : DictInv (setAttribute T n v e).2 := dictInv_setAttribute T n v h
    simp only [List.foldl_cons]
    rw [foldl_setAttribute_listed T hc hs r h1 (fun p hp => hl p (List.mem_cons_of_mem _ hp))]
    simp only [lastAssigned]
    cases lastAssigned k r with
    | some w => rfl
    | none =>
      simp only
      by_cases hk : lower n = k
      · subst hk
        rw [if_pos rfl, setAttribute_eq_mapSet T hn]
        exact mapSet_listed T h hn hc hs v
      · rw [if_neg hk]
        exact frame_lookup T (.setAttr n v) h (by simp [addresses, Ne.symm hk])

/-! #### the class writers -/

/-- replacing the class list as a LIST: `d['class'] = ' '.join(names)` / `del d['class']` on the one list — when the
    `class` key of the dict is in step with the old class list -/
theorem viewList_setClassName {e : El} (h : DictInv e) (hs : ClassSynced e) (v : Option Str) :
    viewList (setClassName v e) =
      if (words (v.getD [])).isEmpty then adel classK (viewList e)
      else aset classK (some (joinWith [' '] (words (v.getD [])))) (viewList e) :=
  viewList_set_cls h hs _

/-- … and on the list without its `class` entry nothing changes, in every state -/
theorem viewList_cls_general (e : El) (c : List Str) :
    adel classK (viewList { e with cls := c }) = adel classK (viewList e) := by
  rw [adel_class_viewList, adel_class_viewList]

/-! #### the style writers -/

theorem viewList_style_general {e : El} (h : DictInv e) (m : AL Str) :
    adel classK (viewList (ensureStyle { e with sty := m })) =
      if m.isEmpty then adel styleK (adel classK (viewList e))
      else aset styleK (some (asStr m)) (adel classK (viewList e)) := by
  rw [adel_class_viewList, adel_class_viewList]
  have h0 : DictInv { e with cls := [] } := dictInv_cls h []
  have := viewList_set_sty (e := { e with cls := [] }) h0 (fun hne => absurd rfl hne) m
  have e1 : ({ ensureStyle { e with sty := m } with cls := [] } : El) = ensureStyle { ({ e with cls := [] } : El) with sty := m } := by
    unfold ensureStyle
    split <;> rfl
  rw [e1]
  exact this

end AHP.Attrs
