/-
  Lemmas for the code ties of the parsers' end-tag handlers (`Props/C02Code.lean`, `Props/C13Code.lean`): the list of open
  elements inside the interpreter, item access from the end, the search loop and the pop loop of
  `AdvancedHTMLParser.handle_endtag` as dumped.
-/
import AHP.Lemmas.PyAst
import AHP.Gen.Code
namespace AHP.PyAstParser
open AHP AHP.Gen AHP.Conv AHP.PyAst AHP.Gen.Code

/-- a Python list of elements: an element is its number (`PyV.ancestor u`, as in `Props/C18Code.lean`) -/
def embU (us : List Nat) : List PyV := us.map PyV.ancestor

theorem embU_append (a b : List Nat) : embU (a ++ b) = embU a ++ embU b := by simp [embU]
theorem embU_length (a : List Nat) : (embU a).length = a.length := by simp [embU]

/-- What the handlers run in: `tagOf u` is the `tagName` of the element number `u` (a parameter: only this attribute of an
item of `_inTag` is read), `fuel` iterations for each `while`. -/
def parserCx (tagOf : Nat → Str) (fuel : Nat) : Ctx :=
  { parseInt := fun _ => .error .valueError
    funs := fun _ => none
    fuel := fuel
    elemAttr := fun u a => if a = "tagName" then some (.py (.str (tagOf u))) else none }

theorem parserCx_tag (tagOf : Nat → Str) (fuel u : Nat) :
    (parserCx tagOf fuel).elemAttr u "tagName" = some (.py (.str (tagOf u))) := rfl
theorem parserCx_funs (tagOf : Nat → Str) (fuel : Nat) (f : String) : (parserCx tagOf fuel).funs f = none := rfl
theorem parserCx_fuel (tagOf : Nat → Str) (fuel : Nat) : (parserCx tagOf fuel).fuel = fuel := rfl

/-! ### statement lists, one statement at a time (so that a prepared fact about a statement is used before it unfolds) -/

theorem execL_cons_next (cx : Ctx) (env env' : Env) (s : Stmt) (ss : List Stmt) (h : execS cx env s = (env', .next)) :
    execL cx env (s :: ss) = execL cx env' ss := by simp only [execL, h]
theorem execL_cons_ret (cx : Ctx) (env env' : Env) (v : Val) (s : Stmt) (ss : List Stmt) (h : execS cx env s = (env', .ret v)) :
    execL cx env (s :: ss) = (env', .ret v) := by simp only [execL, h]
theorem execL_cons_exc (cx : Ctx) (env env' : Env) (e : PyErr) (s : Stmt) (ss : List Stmt) (h : execS cx env s = (env', .exc e)) :
    execL cx env (s :: ss) = (env', .exc e) := by simp only [execL, h]
theorem execL_nil (cx : Ctx) (env : Env) : execL cx env [] = (env, .next) := by simp only [execL]
theorem tryS_next (cx : Ctx) (env env' : Env) (body : List Stmt) (hs : List Handler) (h : execL cx env body = (env', .next)) :
    execS cx env (.tryS body hs) = (env', .next) := by simp only [execS, h]
theorem tryS_ret (cx : Ctx) (env env' : Env) (v : Val) (body : List Stmt) (hs : List Handler)
    (h : execL cx env body = (env', .ret v)) : execS cx env (.tryS body hs) = (env', .ret v) := by simp only [execS, h]

/-! ### item access -/

theorem seqItem_last {α : Type} (l : List α) (a : α) : seqItem (l ++ [a]) (-1) = some a := by
  simp only [seqItem, List.length_append, List.length_cons, List.length_nil]
  have h1 : ((-1 : Int) < 0) := by decide
  simp only [h1, if_true]
  have h2 : ¬ ((-1 : Int) + ((l.length + (0 + 1) : Nat) : Int) < 0) := by omega
  simp only [h2, if_false]
  have h3 : ((-1 : Int) + ((l.length + (0 + 1) : Nat) : Int)).toNat = l.length := by omega
  rw [h3]
  simp

theorem seqItem_nil_last {α : Type} : seqItem ([] : List α) (-1) = none := by
  simp [seqItem]

theorem seqItem_nat {α : Type} (l : List α) (k : Nat) : seqItem l (Int.ofNat k) = l[k]? := by
  simp only [seqItem]
  have h1 : ¬ (Int.ofNat k < 0) := by simp
  simp only [h1, if_false]
  simp

theorem getElem?_prefix_length {α : Type} (pre suf : List α) (a : α) : (pre ++ a :: suf)[pre.length]? = some a := by
  simp

/-! ### the variables of `handle_endtag` -/

/-- What the loops of `handle_endtag` rely on and keep: `self` holds the object, `tagName` the name, `inTag` is the second
name of `self._inTag`, `foundIt` a boolean. -/
structure Vars (env : Env) (fs : List (String × Field)) (n : Str) (found : Bool) : Prop where
  self : env.lookup "self" = some (.obj fs)
  tag : env.lookup "tagName" = some (.py (.str n))
  inTag : env.lookup "inTag" = some (.ref "self" "_inTag")
  found : env.lookup "foundIt" = some (.py (.bool found))

/-! ### the search loop `for i in range(len(inTag)): if inTag[i].tagName == tagName: foundIt = True; break` -/

/-- the body of that loop, as dumped -/
def findBody : List Stmt :=
  [.ifS (.cmp .eq (.elemAttr (.index (.avar "inTag") (.var "i")) "tagName") (.var "tagName"))
     [.assign "foundIt" (.const (.bool true)), .brk] []]

/-- The search loop over the indices `pre.length …` of the list `pre ++ suf`: it ends normally, `foundIt` becomes true exactly
when an item of `suf` has the name, and nothing else that matters changes (the list is only read). -/
theorem findLoop_run (tagOf : Nat → Str) (fuel : Nat) (n : Str) (fs : List (String × Field)) (same : Env → Bool)
    (hsame : ∀ e, same e = true) :
    ∀ (suf pre : List Nat) (env : Env),
    fs.lookup "_inTag" = some (.list (embU (pre ++ suf))) →
    Vars env fs n false →
    ∃ env', forLoop (fun env v => assocSet env "i" v) (fun env => execL (parserCx tagOf fuel) env findBody) same
        (((List.range' pre.length suf.length).map (fun i => PyV.int (Int.ofNat i))).map Val.py) env = (env', .next)
      ∧ Vars env' fs n (decide (n ∈ suf.map tagOf)) := by
  intro suf
  induction suf with
  | nil => intro pre env _ hv; exact ⟨env, by simp [forLoop], by simpa using hv⟩
  | cons u r ih =>
    intro pre env hf hv
    have hself : (assocSet env "i" (.py (.int (Int.ofNat pre.length)))).lookup "self" = some (.obj fs) := by
      rw [lookup_assocSet_ne _ _ _ _ (by decide), hv.self]
    have htag : (assocSet env "i" (.py (.int (Int.ofNat pre.length)))).lookup "tagName" = some (.py (.str n)) := by
      rw [lookup_assocSet_ne _ _ _ _ (by decide), hv.tag]
    have hin : (assocSet env "i" (.py (.int (Int.ofNat pre.length)))).lookup "inTag" = some (.ref "self" "_inTag") := by
      rw [lookup_assocSet_ne _ _ _ _ (by decide), hv.inTag]
    have hfd : (assocSet env "i" (.py (.int (Int.ofNat pre.length)))).lookup "foundIt" = some (.py (.bool false)) := by
      rw [lookup_assocSet_ne _ _ _ _ (by decide), hv.found]
    have hi : (assocSet env "i" (.py (.int (Int.ofNat pre.length)))).lookup "i" = some (.py (.int (Int.ofNat pre.length))) :=
      lookup_assocSet_eq _ _ _
    have hitem : seqItem (embU (pre ++ u :: r)) (Int.ofNat pre.length) = some (.ancestor u) := by
      rw [seqItem_nat, embU, List.map_append, List.map_cons]
      have := getElem?_prefix_length (pre.map PyV.ancestor) (r.map PyV.ancestor) (PyV.ancestor u)
      simpa using this
    have hcond : eval (parserCx tagOf fuel) (assocSet env "i" (.py (.int (Int.ofNat pre.length))))
        (.cmp .eq (.elemAttr (.index (.avar "inTag") (.var "i")) "tagName") (.var "tagName"))
        = .ok (.py (.bool (decide (tagOf u = n)))) := by
      simp only [eval, hin, getField, hself, hf, Field.toVal, hi, pyIndex, hitem, parserCx_tag, htag, pyCompare, compareB,
        pyEq, pyEqV]
    simp only [List.length_cons, List.range'_succ, List.map_cons, forLoop]
    by_cases hu : tagOf u = n
    · have hstep : execL (parserCx tagOf fuel) (assocSet env "i" (.py (.int (Int.ofNat pre.length)))) findBody
          = (assocSet (assocSet env "i" (.py (.int (Int.ofNat pre.length)))) "foundIt" (.py (.bool true)), .brk) := by
        simp only [findBody, execL, execS, hcond]
        simp [hu, Val.truthy, truthy, eval, aliasOK, Val.mutable, Lit.toPy]
      rw [hstep]
      refine ⟨_, rfl, ?_⟩
      have hmem : decide (n ∈ tagOf u :: r.map tagOf) = true := by simp [hu]
      rw [hmem]
      exact ⟨by rw [lookup_assocSet_ne _ _ _ _ (by decide), hself], by rw [lookup_assocSet_ne _ _ _ _ (by decide), htag],
        by rw [lookup_assocSet_ne _ _ _ _ (by decide), hin], lookup_assocSet_eq _ _ _⟩
    · have hstep : execL (parserCx tagOf fuel) (assocSet env "i" (.py (.int (Int.ofNat pre.length)))) findBody
          = (assocSet env "i" (.py (.int (Int.ofNat pre.length))), .next) := by
        simp only [findBody, execL, execS, hcond]
        simp [hu, Val.truthy, truthy]
      rw [hstep]
      simp only [hsame, if_true]
      have hf' : fs.lookup "_inTag" = some (.list (embU ((pre ++ [u]) ++ r))) := by
        rw [hf, List.append_assoc]; rfl
      obtain ⟨env', h1, h2⟩ := ih (pre ++ [u]) (assocSet env "i" (.py (.int (Int.ofNat pre.length)))) hf'
        ⟨hself, htag, hin, hfd⟩
      have hlen : (pre ++ [u]).length = pre.length + 1 := by simp
      rw [hlen] at h1
      refine ⟨env', h1, ?_⟩
      have hmem : decide (n ∈ tagOf u :: r.map tagOf) = decide (n ∈ r.map tagOf) := by
        have hne : ¬ n = tagOf u := fun e => hu e.symm
        simp [hne]
      rw [hmem]; exact h2

/-! ### the pop loop `while inTag[-1].tagName != tagName: inTag.pop()` -/

/-- the condition of that loop, as dumped -/
def topCond : Expr := .cmp .ne (.elemAttr (.index (.avar "inTag") (.const (.int (-1)))) "tagName") (.var "tagName")

/-- the body of that loop, as dumped -/
def popBody : List Stmt := [.refCall "inTag" "pop" []]

/-- `inTag.pop()` on a non-empty list (innermost element `u`, the rest `r` innermost first) -/
theorem pop_run (cx : Ctx) (u : Nat) (r : List Nat) (fs : List (String × Field)) (env : Env)
    (hself : env.lookup "self" = some (.obj fs)) (hin : env.lookup "inTag" = some (.ref "self" "_inTag"))
    (hf : fs.lookup "_inTag" = some (.list (embU (u :: r).reverse))) :
    execS cx env (.refCall "inTag" "pop" [])
      = (assocSet env "self" (.obj (assocSet fs "_inTag" (.list (embU r.reverse)))), .next) := by
  have hd : (embU (r.reverse ++ [u])).dropLast = embU r.reverse := by
    rw [embU_append]; exact List.dropLast_concat
  have hne : (embU (r.reverse ++ [u])).isEmpty = false := by simp [embU]
  rw [List.reverse_cons] at hf
  simp [execS, evalList, hin, getField, hself, hf, mutCall, hne, hd, putField]

/-- The pop loop on a stack that holds the name (`r`: the stack innermost first): it pops the elements above the nearest
element of that name and stops there, within `r.length` iterations; nothing else changes. -/
theorem popLoop_run (tagOf : Nat → Str) (n : Str) :
    ∀ (r : List Nat) (fuel fuel0 : Nat) (fs : List (String × Field)) (env : Env) (found : Bool),
    n ∈ r.map tagOf → r.length ≤ fuel →
    fs.lookup "_inTag" = some (.list (embU r.reverse)) →
    Vars env fs n found →
    ∃ env', whileLoop (fun env => eval (parserCx tagOf fuel0) env topCond)
          (fun env => execL (parserCx tagOf fuel0) env popBody) fuel env = (env', .next)
      ∧ Vars env' (assocSet fs "_inTag" (.list (embU (r.dropWhile (fun u => decide (tagOf u ≠ n))).reverse))) n found := by
  intro r
  induction r with
  | nil => intro _ _ _ _ _ hm; simp at hm
  | cons u r ih =>
    intro fuel fuel0 fs env found hm hfuel hf hv
    cases fuel with
    | zero => simp at hfuel
    | succ k =>
      have hitem : seqItem (embU (u :: r).reverse) (-1) = some (.ancestor u) := by
        rw [List.reverse_cons, embU_append]; exact seqItem_last _ _
      have hcond : eval (parserCx tagOf fuel0) env topCond = .ok (.py (.bool (!decide (tagOf u = n)))) := by
        simp only [topCond, eval, hv.inTag, getField, hv.self, hf, Field.toVal, Lit.toPy, pyIndex, hitem, parserCx_tag, hv.tag,
          pyCompare, compareB, pyEq, pyEqV, bnot]
      rw [whileLoop, hcond]
      by_cases hu : tagOf u = n
      · simp only [hu, decide_true, Bool.not_true, Val.truthy, truthy, Bool.false_eq_true, if_false]
        refine ⟨env, rfl, ?_⟩
        have hdw : (u :: r).dropWhile (fun u => decide (tagOf u ≠ n)) = u :: r := by
          simp [List.dropWhile, hu]
        rw [hdw, assocSet_self _ _ _ hf]
        exact hv
      · simp only [hu, decide_false, Bool.not_false, Val.truthy, truthy, if_true]
        have hstep : execL (parserCx tagOf fuel0) env popBody
            = (assocSet env "self" (.obj (assocSet fs "_inTag" (.list (embU r.reverse)))), .next) := by
          simp only [popBody, execL, pop_run _ u r fs env hv.self hv.inTag hf]
        rw [hstep]
        have hm' : n ∈ r.map tagOf := by
          simp only [List.map_cons, List.mem_cons] at hm
          rcases hm with h | h
          · exact absurd h.symm hu
          · exact h
        have hv' : Vars (assocSet env "self" (.obj (assocSet fs "_inTag" (.list (embU r.reverse)))))
            (assocSet fs "_inTag" (.list (embU r.reverse))) n found :=
          ⟨lookup_assocSet_eq _ _ _, by rw [lookup_assocSet_ne _ _ _ _ (by decide), hv.tag],
            by rw [lookup_assocSet_ne _ _ _ _ (by decide), hv.inTag], by rw [lookup_assocSet_ne _ _ _ _ (by decide), hv.found]⟩
        obtain ⟨env', h1, h2⟩ := ih k fuel0 (assocSet fs "_inTag" (.list (embU r.reverse))) _ found hm'
          (by simp at hfuel; omega) (lookup_assocSet_eq _ _ _) hv'
        refine ⟨env', h1, ?_⟩
        have hdw : (u :: r).dropWhile (fun u => decide (tagOf u ≠ n)) = r.dropWhile (fun u => decide (tagOf u ≠ n)) := by
          simp [List.dropWhile, hu]
        rw [hdw]
        rw [assocSet_assocSet] at h2
        exact h2

/-- when the name is on the stack, what the pop loop leaves starts with an element of that name -/
theorem dropWhile_head (tagOf : Nat → Str) (n : Str) (r : List Nat) (hm : n ∈ r.map tagOf) :
    ∃ u d, r.dropWhile (fun u => decide (tagOf u ≠ n)) = u :: d ∧ tagOf u = n := by
  induction r with
  | nil => simp at hm
  | cons a r ih =>
    by_cases ha : tagOf a = n
    · exact ⟨a, r, by simp [List.dropWhile, ha], ha⟩
    · simp only [List.map_cons, List.mem_cons] at hm
      rcases hm with h | h
      · exact absurd h.symm ha
      · obtain ⟨u, d, h1, h2⟩ := ih h
        refine ⟨u, d, ?_, h2⟩
        rw [List.dropWhile_cons]
        simp only [ne_eq, ha, not_false_eq_true, decide_true, if_true]
        exact h1

/-! ### the backwards search loop of the validating parser: `while i >= 0: if inTag[i].tagName == tagName: foundIt = True; break; i -= 1` -/

/-- the condition of that loop, as dumped -/
def backCond : Expr := .cmp .ge (.var "i") (.const (.int 0))

/-- the body of that loop, as dumped (`i -= 1` is dumped as `i = i - 1`) -/
def backBody : List Stmt :=
  [.ifS (.cmp .eq (.elemAttr (.index (.avar "inTag") (.var "i")) "tagName") (.var "tagName"))
     [.assign "foundIt" (.const (.bool true)), .brk] [],
   .assign "i" (.binop .sub (.var "i") (.const (.int 1)))]

/-- The backwards search from the element at the top of `rest` (the stack innermost first is `done ++ rest`, `i` is the index of
the top of `rest` in the Python list): it ends normally within `rest.length + 1` iterations, `foundIt` becomes true exactly
when an element of `rest` has the name, `i` still holds a number, nothing else that matters changes. -/
theorem backLoop_run (tagOf : Nat → Str) (fuel0 : Nat) (n : Str) (fs : List (String × Field)) :
    ∀ (rest done : List Nat) (fuel : Nat) (env : Env),
    fs.lookup "_inTag" = some (.list (embU (done ++ rest).reverse)) →
    Vars env fs n false →
    env.lookup "i" = some (.py (.int (Int.ofNat rest.length - 1))) →
    rest.length < fuel →
    ∃ env', whileLoop (fun env => eval (parserCx tagOf fuel0) env backCond)
          (fun env => execL (parserCx tagOf fuel0) env backBody) fuel env = (env', .next)
      ∧ Vars env' fs n (decide (n ∈ rest.map tagOf)) ∧ ∃ k : Int, env'.lookup "i" = some (.py (.int k)) := by
  intro rest
  induction rest with
  | nil =>
    intro done fuel env _ hv hi hfuel
    cases fuel with
    | zero => simp at hfuel
    | succ k =>
      have hcond : eval (parserCx tagOf fuel0) env backCond = .ok (.py (.bool false)) := by
        simp only [backCond, eval, hi, Lit.toPy, pyCompare, compareB, pyOrd, numOf]
        simp
      rw [whileLoop, hcond]
      simp only [Val.truthy, truthy, Bool.false_eq_true, if_false]
      exact ⟨env, rfl, by simpa using hv, _, hi⟩
  | cons h t ih =>
    intro done fuel env hf hv hi hfuel
    cases fuel with
    | zero => simp at hfuel
    | succ k =>
      have hi0 : Int.ofNat (h :: t).length - 1 = Int.ofNat t.length := by
        simp only [List.length_cons, Int.ofNat_eq_natCast]; omega
      rw [hi0] at hi
      have hcond : eval (parserCx tagOf fuel0) env backCond = .ok (.py (.bool true)) := by
        simp only [backCond, eval, hi, Lit.toPy, pyCompare, compareB, pyOrd, numOf]
        simp
      have hitem : seqItem (embU (done ++ h :: t).reverse) (Int.ofNat t.length) = some (.ancestor h) := by
        rw [seqItem_nat, embU, List.reverse_append, List.reverse_cons, List.map_append, List.map_append, List.append_assoc]
        have := getElem?_prefix_length (t.reverse.map PyV.ancestor) (done.reverse.map PyV.ancestor) (PyV.ancestor h)
        simpa using this
      have hc2 : eval (parserCx tagOf fuel0) env
          (.cmp .eq (.elemAttr (.index (.avar "inTag") (.var "i")) "tagName") (.var "tagName"))
          = .ok (.py (.bool (decide (tagOf h = n)))) := by
        simp only [eval, hv.inTag, getField, hv.self, hf, Field.toVal, hi, pyIndex, hitem, parserCx_tag, hv.tag, pyCompare,
          compareB, pyEq, pyEqV]
      rw [whileLoop, hcond]
      simp only [Val.truthy, truthy, if_true]
      by_cases hu : tagOf h = n
      · have hstep : execL (parserCx tagOf fuel0) env backBody = (assocSet env "foundIt" (.py (.bool true)), .brk) := by
          simp only [backBody, execL, execS, hc2]
          simp [hu, Val.truthy, truthy, eval, aliasOK, Val.mutable, Lit.toPy]
        rw [hstep]
        refine ⟨_, rfl, ?_, Int.ofNat t.length, by rw [lookup_assocSet_ne _ _ _ _ (by decide), hi]⟩
        have hmem : decide (n ∈ (h :: t).map tagOf) = true := by simp [hu]
        rw [hmem]
        exact ⟨by rw [lookup_assocSet_ne _ _ _ _ (by decide), hv.self], by rw [lookup_assocSet_ne _ _ _ _ (by decide), hv.tag],
          by rw [lookup_assocSet_ne _ _ _ _ (by decide), hv.inTag], lookup_assocSet_eq _ _ _⟩
      · have hdec : eval (parserCx tagOf fuel0) env (.binop .sub (.var "i") (.const (.int 1)))
            = .ok (.py (.int (Int.ofNat t.length - 1))) := by
          simp only [eval, hi, Lit.toPy, pyBinop, numOf]
        have hstep : execL (parserCx tagOf fuel0) env backBody
            = (assocSet env "i" (.py (.int (Int.ofNat t.length - 1))), .next) := by
          simp only [backBody, execL, execS, hc2]
          simp [hu, Val.truthy, truthy, hdec, aliasOK, Val.mutable]
        rw [hstep]
        have hf' : fs.lookup "_inTag" = some (.list (embU ((done ++ [h]) ++ t).reverse)) := by
          rw [hf, List.append_assoc]; rfl
        have hv' : Vars (assocSet env "i" (.py (.int (Int.ofNat t.length - 1)))) fs n false :=
          ⟨by rw [lookup_assocSet_ne _ _ _ _ (by decide), hv.self], by rw [lookup_assocSet_ne _ _ _ _ (by decide), hv.tag],
            by rw [lookup_assocSet_ne _ _ _ _ (by decide), hv.inTag], by rw [lookup_assocSet_ne _ _ _ _ (by decide), hv.found]⟩
        obtain ⟨env', h1, h2, h3⟩ := ih (done ++ [h]) k _ hf' hv' (lookup_assocSet_eq _ _ _)
          (by simp at hfuel; omega)
        refine ⟨env', h1, ?_, h3⟩
        have hmem : decide (n ∈ (h :: t).map tagOf) = decide (n ∈ t.map tagOf) := by
          have hne : ¬ n = tagOf h := fun e => hu e.symm
          simp [hne]
        rw [hmem]; exact h2

/-- `[x for x in l]` is a copy of the list -/
theorem collectPy_id (cx : Ctx) (env : Env) (l : List PyV) :
    collectPy (l.map (fun v => eval cx (assocSet env "x" (.py v)) (.var "x"))) = .ok l := by
  have hfun : (fun v => eval cx (assocSet env "x" (.py v)) (.var "x")) = (fun v => Except.ok (Val.py v)) := by
    funext v; simp only [eval, lookup_assocSet_eq]
  rw [hfun]
  induction l with
  | nil => rfl
  | cons a r ih => simp only [List.map_cons, collectPy, ih]

end AHP.PyAstParser
