/-
  AHP.Lemmas.DomNav — facts behind C04c: in an invariant state the navigation properties, computed
  from the cached fields the code reads, are what the block lists say.
-/
import AHP.Lemmas.DomStep
namespace AHP.Dom

@[simp] theorem descL_nil : descL [] = [] := by simp [descL]
@[simp] theorem descL_text (s) (bs : List DN) : descL (.text s :: bs) = descL bs := by simp [descL]
@[simp] theorem descL_el (m k) (bs : List DN) : descL (.el m k :: bs) = (m.id :: descL k) ++ descL bs := by simp [descL]

/-- `getAllChildNodes` lists exactly the uids below, in document order -/
theorem descL_eq_idsL (bs : List DN) : descL bs = idsL bs := by
  match bs with
  | [] => simp
  | .text s :: bs => simp [descL_eq_idsL bs]
  | .el m k :: bs => simp [descL_eq_idsL k, descL_eq_idsL bs]

@[simp] theorem elems_text (s) : elems (.text s) = [] := by simp [elems]
@[simp] theorem elems_el (m bs) : elems (.el m bs) = (m, bs) :: elemsL bs := by simp [elems]
@[simp] theorem elemsL_nil : elemsL [] = [] := by simp [elemsL]
@[simp] theorem elemsL_cons (b bs) : elemsL (b :: bs) = elems b ++ elemsL bs := by simp [elemsL]

mutual
theorem elems_id_mem (n : DN) {e} (h : e ∈ elems n) : e.1.id ∈ ids n := by
  match n with
  | .text s => simp at h
  | .el m bs =>
    simp only [elems_el, List.mem_cons] at h
    cases h with
    | inl h => subst h; simp
    | inr h => simp [elemsL_id_mem bs h]
theorem elemsL_id_mem (l : List DN) {e} (h : e ∈ elemsL l) : e.1.id ∈ idsL l := by
  match l with
  | [] => simp at h
  | b :: bs =>
    simp only [elemsL_cons, List.mem_append] at h
    cases h with
    | inl h => simp [elems_id_mem b h]
    | inr h => simp [elemsL_id_mem bs h]
end

mutual
theorem find?_none (t) (n : DN) (h : t ∉ ids n) : find? t n = none := by
  match n with
  | .text s => simp
  | .el m bs =>
    simp only [ids_el, List.mem_cons, not_or] at h
    rw [find?_el, if_neg (fun e => h.1 e.symm)]
    exact findL?_none t bs h.2
theorem findL?_none (t) (l : List DN) (h : t ∉ idsL l) : findL? t l = none := by
  match l with
  | [] => simp
  | b :: bs =>
    simp only [idsL_cons, List.mem_append, not_or] at h
    rw [findL?_cons, find?_none t b h.1]
    exact findL?_none t bs h.2
end

mutual
/-- with distinct uids, looking an element up by its uid finds that element -/
theorem find?_unique (n : DN) (hn : (ids n).Nodup) {e : Meta × List DN} (h : e ∈ elems n) : find? e.1.id n = some e := by
  match n with
  | .text s => simp at h
  | .el m bs =>
    simp only [elems_el, List.mem_cons] at h
    rw [find?_el]
    cases h with
    | inl h => subst h; simp
    | inr h =>
      simp only [ids_el, List.nodup_cons] at hn
      have hm := elemsL_id_mem bs h
      have hne : m.id ≠ e.1.id := fun e' => hn.1 (e' ▸ hm)
      rw [if_neg hne]
      exact findL?_unique bs hn.2 h
theorem findL?_unique (l : List DN) (hn : (idsL l).Nodup) {e : Meta × List DN} (h : e ∈ elemsL l) : findL? e.1.id l = some e := by
  match l with
  | [] => simp at h
  | b :: bs =>
    simp only [elemsL_cons, List.mem_append] at h
    simp only [idsL_cons] at hn
    have hd := List.nodup_append.mp hn
    rw [findL?_cons]
    cases h with
    | inl h => rw [find?_unique b hd.1 h]
    | inr h =>
      have hm := elemsL_id_mem bs h
      have : e.1.id ∉ ids b := fun hb => hd.2.2 _ hb _ hm rfl
      rw [find?_none _ b this]
      exact findL?_unique bs hd.2.1 h
end

mutual
/-- every element of a consistent tree is consistent in its own context -/
theorem elems_OK (n : DN) {p o} (hn : OK p o n) {e} (h : e ∈ elems n) : ∃ p' o', OK p' o' (.el e.1 e.2) := by
  match n with
  | .text s => simp at h
  | .el m bs =>
    simp only [elems_el, List.mem_cons] at h
    cases h with
    | inl h => subst h; exact ⟨p, o, hn⟩
    | inr h =>
      simp only [OK_el] at hn
      exact elemsL_OK bs hn.2.2.2.2.2 h
theorem elemsL_OK (l : List DN) {p o} (hn : OKL p o l) {e} (h : e ∈ elemsL l) : ∃ p' o', OK p' o' (.el e.1 e.2) := by
  match l with
  | [] => simp at h
  | b :: bs =>
    simp only [OKL_cons] at hn
    simp only [elemsL_cons, List.mem_append] at h
    cases h with
    | inl h => exact elems_OK b hn.1 h
    | inr h => exact elemsL_OK bs hn.2 h
end

theorem world_elem_OK {w : World} (hw : Inv w) {e} (h : e ∈ elemsL w.roots) : ∃ p o, OK p o (.el e.1 e.2) := by
  have : ∀ (l : List DN), (∀ r ∈ l, RootOK r) → e ∈ elemsL l → ∃ p o, OK p o (.el e.1 e.2) := by
    intro l
    induction l with
    | nil => intro _ h; simp at h
    | cons r rs ih =>
      intro hr h
      simp only [elemsL_cons, List.mem_append] at h
      cases h with
      | inl h =>
        obtain ⟨m, bs, rfl, hk⟩ := hr r (by simp)
        exact elems_OK _ hk h
      | inr h => exact ih (fun x hx => hr x (by simp [hx])) h
  exact this w.roots hw.roots h

mutual
theorem elems_sub (n : DN) {e : Meta × List DN} (h : e ∈ elems n) : ∀ x ∈ idsL e.2, x ∈ ids n := by
  match n with
  | .text s => simp at h
  | .el m bs =>
    simp only [elems_el, List.mem_cons] at h
    intro x hx
    cases h with
    | inl h => subst h; simp [hx]
    | inr h => simp [elemsL_sub bs h x hx]
theorem elemsL_sub (l : List DN) {e : Meta × List DN} (h : e ∈ elemsL l) : ∀ x ∈ idsL e.2, x ∈ idsL l := by
  match l with
  | [] => simp at h
  | b :: bs =>
    simp only [elemsL_cons, List.mem_append] at h
    intro x hx
    cases h with
    | inl h => simp [elems_sub b h x hx]
    | inr h => simp [elemsL_sub bs h x hx]
end

mutual
theorem elems_nodup (n : DN) (hn : (ids n).Nodup) {e : Meta × List DN} (h : e ∈ elems n) : (idsL e.2).Nodup := by
  match n with
  | .text s => simp at h
  | .el m bs =>
    simp only [elems_el, List.mem_cons] at h
    simp only [ids_el, List.nodup_cons] at hn
    cases h with
    | inl h => subst h; exact hn.2
    | inr h => exact elemsL_nodup bs hn.2 h
theorem elemsL_nodup (l : List DN) (hn : (idsL l).Nodup) {e : Meta × List DN} (h : e ∈ elemsL l) : (idsL e.2).Nodup := by
  match l with
  | [] => simp at h
  | b :: bs =>
    simp only [idsL_cons] at hn
    have hd := List.nodup_append.mp hn
    simp only [elemsL_cons, List.mem_append] at h
    cases h with
    | inl h => exact elems_nodup b hd.1 h
    | inr h => exact elemsL_nodup bs hd.2.1 h
end

theorem elemIds_nodup (bs : List DN) (h : (idsL bs).Nodup) : (elemIds bs).Nodup := by
  induction bs with
  | nil => simp
  | cons b bs ih =>
    simp only [idsL_cons] at h
    have hd := List.nodup_append.mp h
    cases b with
    | text s => simpa using ih hd.2.1
    | el m k =>
      simp only [elemIds_el, List.nodup_cons]
      refine ⟨?_, ih hd.2.1⟩
      intro hm
      exact hd.2.2 m.id (by simp) m.id (elemIds_subset_idsL bs _ hm) rfl

/-- position of an element block found by uid equality, when the element uids of the list are distinct -/
theorem indexOf_elm (bs : List DN) (hn : (elemIds bs).Nodup) (i : Nat) {m k} (h : bs[i]? = some (.el m k)) :
    indexOf (.elm m.id) bs = some i := by
  induction bs generalizing i with
  | nil => simp at h
  | cons b bs ih =>
    cases i with
    | zero =>
      simp only [List.getElem?_cons_zero, Option.some.injEq] at h
      subst h
      simp [indexOf, blockEq]
    | succ i =>
      simp only [List.getElem?_cons_succ] at h
      cases b with
      | text s =>
        simp only [indexOf, blockEq]
        rw [ih (by simpa using hn) i h]; simp
      | el m' k' =>
        simp only [elemIds_el, List.nodup_cons] at hn
        have hmem : m.id ∈ elemIds bs := by
          have := List.mem_of_getElem? h
          clear ih h
          induction bs with
          | nil => simp at this
          | cons x xs ih2 =>
            simp only [List.mem_cons] at this
            cases this with
            | inl e => subst e; simp
            | inr e =>
              have hn' : m'.id ∉ elemIds xs ∧ (elemIds xs).Nodup := by
                cases x with
                | text s => simpa using hn
                | el mx kx =>
                  simp only [elemIds_el, List.mem_cons, not_or, List.nodup_cons] at hn
                  exact ⟨hn.1.2, hn.2.2⟩
              have := ih2 hn' e
              cases x <;> simp [this]
        have hne : ¬ (m'.id = m.id) := fun e => hn.1 (e ▸ hmem)
        simp only [indexOf, blockEq, beq_iff_eq, hne, if_false]
        rw [ih hn.2 i h]; simp

mutual
theorem elems_owner (n : DN) {p o} (hn : OK p o n) {e} (h : e ∈ elems n) : e.1.owner = o := by
  match n with
  | .text s => simp at h
  | .el m bs =>
    simp only [OK_el] at hn
    simp only [elems_el, List.mem_cons] at h
    cases h with
    | inl h => subst h; exact hn.2.1
    | inr h => exact elemsL_owner bs hn.2.2.2.2.2 h
theorem elemsL_owner (l : List DN) {p o} (hn : OKL p o l) {e} (h : e ∈ elemsL l) : e.1.owner = o := by
  match l with
  | [] => simp at h
  | b :: bs =>
    simp only [OKL_cons] at hn
    simp only [elemsL_cons, List.mem_append] at h
    cases h with
    | inl h => exact elems_owner b hn.1 h
    | inr h => exact elemsL_owner bs hn.2 h
end


mutual
theorem upd_out_mem (t f) (n : DN) {m bs} (h : find? t n = some (m, bs)) : ∀ x ∈ (f m bs).out, x ∈ (upd t f n).2 := by
  match n with
  | .text s => simp at h
  | .el m' bs' =>
    rw [find?_el] at h
    rw [upd_el]
    split at h
    · rename_i he
      simp only [Option.some.injEq, Prod.mk.injEq] at h
      obtain ⟨rfl, rfl⟩ := h
      rw [if_pos he]; exact fun x hx => hx
    · rename_i he
      rw [if_neg he]
      exact updL_out_mem t f bs' h
theorem updL_out_mem (t f) (l : List DN) {m bs} (h : findL? t l = some (m, bs)) : ∀ x ∈ (f m bs).out, x ∈ (updL t f l).2 := by
  match l with
  | [] => simp at h
  | b :: l' =>
    rw [findL?_cons] at h
    intro x hx
    rw [updL_cons]
    split at h
    · rename_i r hr
      simp only [Option.some.injEq] at h
      subst h
      exact List.mem_append_left _ (upd_out_mem t f b hr x hx)
    · exact List.mem_append_right _ (updL_out_mem t f l' h x hx)
end

theorem findL?_roots_OK (t) (l : List DN) (hl : ∀ r ∈ l, RootOK r) {m bs} (h : findL? t l = some (m, bs)) :
    ∃ p o, OK p o (.el m bs) := by
  induction l with
  | nil => simp at h
  | cons r rs ih =>
    rw [findL?_cons] at h
    split at h
    · rename_i x hx
      simp only [Option.some.injEq] at h
      subst h
      obtain ⟨m', bs', rfl, hk⟩ := hl r (by simp)
      exact (find?_OK t _ hk hx).2
    · exact ih (fun x hx => hl x (by simp [hx])) h

theorem locRemoveChild_el (c : Nat) (m : Meta) (bs : List DN) (h : (locRemoveChild c m bs).2 = .el c) :
    ∃ r, removeFirstEl c bs = some r ∧
      (locRemoveChild c m bs).1 = some ⟨{ m with children := m.children.erase c }, r.2, [reown none (setParent none r.1)]⟩ := by
  unfold locRemoveChild at h ⊢
  by_cases hc : c ∈ m.children
  · rw [if_pos hc] at h ⊢
    cases hr : removeFirstEl c bs with
    | none => rw [hr] at h; simp at h
    | some r => exact ⟨r, rfl, rfl⟩
  · rw [if_neg hc] at h; simp at h


end AHP.Dom
