/-
  C03 — totality of the four formatters (`Fmt.step`/`run`/`feed`, every `Cfg`), their object across calls, and when
  their `getHTML` is defined.  Same structure as Lemmas/TotalBuilder.lean, on the formatter's own handlers.
-/
import AHP.Lemmas.Format
import AHP.Lemmas.TotalBuilder
namespace AHP.Fmt
open AHP

/-! ### ok or MultipleRootNodeException -/

theorem handleStartK_cases (cfg : Cfg) (k : Kind) (s : St) (n : Str) (a : List (Str × Option Str)) (sc : Bool) :
    (∃ s', handleStartK cfg k s n a sc = .ok s') ∨ handleStartK cfg k s n a sc = .error .multipleRoot := by
  unfold handleStartK
  simp only
  split
  · right; rfl
  · split
    · left; exact ⟨_, rfl⟩
    · left; exact ⟨_, rfl⟩

theorem step_ok_or_multipleRoot (cfg : Cfg) (s : St) (t : Tok) :
    (∃ s', step cfg s t = .ok s') ∨ step cfg s t = .error .multipleRoot := by
  cases t with
  | start n a => simp only [step, startHandler_eq]; exact handleStartK_cases cfg _ s n a false
  | startend n a => simp only [step, startHandler_eq]; exact handleStartK_cases cfg _ s n a true
  | end_ n => exact Or.inl ⟨_, rfl⟩
  | decl d => exact Or.inl ⟨_, rfl⟩
  | unknownDecl d => exact Or.inl ⟨_, rfl⟩
  | pi d => exact Or.inl ⟨_, rfl⟩
  | data d =>
    simp only [step, handleData]
    split
    · exact Or.inl ⟨_, rfl⟩
    · split
      · exact Or.inl ⟨_, rfl⟩
      · split
        · exact Or.inl ⟨_, rfl⟩
        · right; rfl
  | entity e => simp only [step, handleVerbatim]; split <;> simp
  | charref e => simp only [step, handleVerbatim]; split <;> simp
  | comment e => simp only [step, handleVerbatim]; split <;> simp

theorem run_ok_or_multipleRoot (cfg : Cfg) (ts : List Tok) : ∀ s : St,
    (∃ s', run cfg ts s = .ok s') ∨ run cfg ts s = .error .multipleRoot := by
  induction ts with
  | nil => intro s; exact Or.inl ⟨s, rfl⟩
  | cons t ts ih =>
    intro s
    rcases step_ok_or_multipleRoot cfg s t with ⟨s', h⟩ | h
    · simp only [run, h]; exact ih s'
    · right; simp [run, h]

theorem run_append (cfg : Cfg) (l1 : List Tok) : ∀ (l2 : List Tok) (sa sb : St),
    run cfg l1 sa = .ok sb → run cfg (l1 ++ l2) sa = run cfg l2 sb := by
  induction l1 with
  | nil => intro l2 sa sb h; simp [run] at h; rw [h]; rfl
  | cons x l1 ih =>
    intro l2 sa sb h
    simp only [run, List.cons_append] at h ⊢
    cases hx : step cfg sa x <;> rw [hx] at h <;> simp at h ⊢
    exact ih l2 _ sb h

/-! ### names of the open elements -/

def fnames (s : St) : List Str := s.stack.map (·.name)

theorem names_attach (n : Node) (fs : List Frame) (c : Option Node) :
    (attach n fs c).1.map (·.name) = fs.map (·.name) := by
  cases fs <;> simp [attach]

theorem fnames_popImplicit (s : St) : fnames (popImplicit s) = (fnames s).tail := by
  unfold popImplicit fnames
  cases hs : s.stack with
  | nil => simp [hs]
  | cons f fs => simp [names_attach]

theorem fnames_popExplicit (n : Str) (s : St) : fnames (popExplicit n s) = (fnames s).tail := by
  unfold popExplicit fnames
  cases hs : s.stack with
  | nil => simp [hs]
  | cons f fs => simp [names_attach]

theorem fnames_appendText (s : St) (v : Bool) (t : Str) : fnames (appendText s v t) = fnames s := by
  unfold appendText fnames
  cases hs : s.stack with
  | nil => simp [hs]
  | cons f fs => simp

theorem any_iff_mem (s : St) (n : Str) : s.stack.any (fun f => f.name = n) = true ↔ n ∈ fnames s := by
  simp only [List.any_eq_true, decide_eq_true_eq, fnames, List.mem_map]

/-- the `while inTag[-1].tagName != tagName` loop, with enough fuel and `n` open, stops AT the innermost `n` -/
theorem fnames_endLoop (n : Str) : ∀ (k : Nat) (s : St), (fnames s).length ≤ k → n ∈ fnames s →
    ∃ pre post, fnames s = pre ++ n :: post ∧ n ∉ pre ∧ fnames (endLoop n k s) = n :: post := by
  intro k
  induction k with
  | zero =>
    intro s hk hm
    have : fnames s = [] := List.length_eq_zero_iff.mp (Nat.le_zero.mp hk)
    rw [this] at hm; cases hm
  | succ k ih =>
    intro s hk hm
    cases hs : s.stack with
    | nil => simp [fnames, hs] at hm
    | cons f fs =>
      have hn : fnames s = f.name :: fs.map (·.name) := by simp [fnames, hs]
      by_cases hf : f.name = n
      · refine ⟨[], fs.map (·.name), by rw [hn, hf]; rfl, by simp, ?_⟩
        simp only [endLoop, hs, hf, ne_eq, not_true_eq_false, if_false]
        rw [hn, hf]
      · have hp : fnames (popImplicit s) = fs.map (·.name) := by rw [fnames_popImplicit, hn]; rfl
        have hm' : n ∈ fnames (popImplicit s) := by
          rw [hp]; rw [hn] at hm
          rcases List.mem_cons.mp hm with h | h
          · exact absurd h.symm hf
          · exact h
        have hk' : (fnames (popImplicit s)).length ≤ k := by
          rw [hp]; rw [hn] at hk; simp at hk ⊢; omega
        obtain ⟨pre, post, h1, h2, h3⟩ := ih (popImplicit s) hk' hm'
        refine ⟨f.name :: pre, post, by rw [hn, ← hp, h1]; rfl, ?_, ?_⟩
        · intro hmem
          rcases List.mem_cons.mp hmem with h | h
          · exact hf h.symm
          · exact h2 h
        · simp only [endLoop, hs, ne_eq, hf, not_false_eq_true, if_true]
          exact h3

theorem fnames_handleEnd (s : St) (n : Str) :
    (n ∉ fnames s ∧ handleEnd s n = s) ∨
    (∃ pre post, fnames s = pre ++ n :: post ∧ n ∉ pre ∧ fnames (handleEnd s n) = post) := by
  unfold handleEnd
  by_cases h : s.stack.any (fun f => f.name = n) = true
  · right
    simp only [h, Bool.not_true, Bool.false_eq_true, if_false]
    obtain ⟨pre, post, h1, h2, h3⟩ := fnames_endLoop n s.stack.length s (by simp [fnames]) ((any_iff_mem s n).mp h)
    exact ⟨pre, post, h1, h2, by rw [fnames_popExplicit, h3]; rfl⟩
  · left
    have h' : s.stack.any (fun f => f.name = n) = false := by simpa using h
    simp only [h', Bool.not_false, if_true]
    exact ⟨fun hm => h ((any_iff_mem s n).mpr hm), trivial⟩

/-! ### `Bottom w`: the outermost open element is called `w` -/

def Bottom (w : Str) (s : St) : Prop := (fnames s).getLast? = some w

theorem Bottom.stack_ne {w : Str} {s : St} (h : Bottom w s) : s.stack ≠ [] := by
  intro e
  unfold Bottom fnames at h
  rw [e] at h; simp at h

theorem bottom_handleEnd {w : Str} {s : St} (h : Bottom w s) (n : Str) (hne : n ≠ w) :
    Bottom w (handleEnd s n) := by
  rcases fnames_handleEnd s n with ⟨_, he⟩ | ⟨pre, post, h1, _, h3⟩
  · rw [he]; exact h
  · unfold Bottom at *
    rw [h3]; rw [h1] at h
    exact AHP.getLast?_split w n hne pre post h

theorem bottom_start (cfg : Cfg) (k : Kind) {w : Str} {s : St} (h : Bottom w s) (n : Str)
    (a : List (Str × Option Str)) (sc : Bool) :
    ∃ s', handleStartK cfg k s n a sc = .ok s' ∧ Bottom w s' := by
  have hne := h.stack_ne
  have hst : s.stack.isEmpty = false := by
    cases hs : s.stack with
    | nil => exact absurd hs hne
    | cons f fs => rfl
  unfold handleStartK
  simp only [hst, Bool.and_false, Bool.false_eq_true, if_false]
  split
  · refine ⟨_, rfl, ?_⟩
    unfold Bottom fnames at *
    simp only [names_attach]; exact h
  · refine ⟨_, rfl, ?_⟩
    unfold Bottom fnames at *
    simp only [List.map_cons]
    exact AHP.getLast?_cons_of_some _ _ _ h

/-- from a state whose outermost open element is `w`, a token other than `end w` is accepted by every
    formatter class and leaves the outermost `w` open -/
theorem step_bottom (cfg : Cfg) {w : Str} {s : St} (h : Bottom w s) (t : Tok) (ht : t ≠ .end_ w) :
    ∃ s', step cfg s t = .ok s' ∧ Bottom w s' := by
  have hne := h.stack_ne
  obtain ⟨f, fs, hs⟩ := List.exists_cons_of_ne_nil hne
  have hst : s.stack.isEmpty = false := by rw [hs]; rfl
  cases t with
  | start n a => simp only [step, startHandler_eq]; exact bottom_start cfg _ h n a false
  | startend n a => simp only [step, startHandler_eq]; exact bottom_start cfg _ h n a true
  | end_ n =>
    have hn : n ≠ w := fun e => ht (by rw [e])
    exact ⟨_, rfl, bottom_handleEnd h n hn⟩
  | decl d => exact ⟨_, rfl, h⟩
  | unknownDecl d =>
    refine ⟨_, rfl, ?_⟩
    split
    · exact h
    · exact h
  | pi d => exact ⟨_, rfl, h⟩
  | data d =>
    simp only [step, handleData]
    split
    · exact ⟨_, rfl, h⟩
    · rw [hs]; simp only
      refine ⟨_, rfl, ?_⟩
      unfold Bottom at *; rw [fnames_appendText]; exact h
  | entity e =>
    simp only [step, handleVerbatim, hst, Bool.false_eq_true, if_false]
    refine ⟨_, rfl, ?_⟩
    unfold Bottom at *; rw [fnames_appendText]; exact h
  | charref e =>
    simp only [step, handleVerbatim, hst, Bool.false_eq_true, if_false]
    refine ⟨_, rfl, ?_⟩
    unfold Bottom at *; rw [fnames_appendText]; exact h
  | comment e =>
    simp only [step, handleVerbatim, hst, Bool.false_eq_true, if_false]
    refine ⟨_, rfl, ?_⟩
    unfold Bottom at *; rw [fnames_appendText]; exact h

theorem run_bottom (cfg : Cfg) {w : Str} (ts : List Tok) : ∀ {s : St}, Bottom w s → (∀ t ∈ ts, t ≠ .end_ w) →
    ∃ s', run cfg ts s = .ok s' ∧ Bottom w s' := by
  induction ts with
  | nil => intro s h _; exact ⟨s, rfl, h⟩
  | cons t ts ih =>
    intro s h hw
    obtain ⟨s1, h1, h2⟩ := step_bottom cfg h t (hw t List.mem_cons_self)
    obtain ⟨s2, h3, h4⟩ := ih h2 (fun x hx => hw x (List.mem_cons_of_mem _ hx))
    exact ⟨s2, by simp only [run, h1]; exact h3, h4⟩

/-! ### outer tokens -/

/-- blank text, declarations, processing instructions, end tags -/
def isOuterTok : Tok → Bool
  | .data d => d.isEmpty || (pyStrip d).isEmpty
  | .decl _ => true
  | .unknownDecl _ => true
  | .pi _ => true
  | .end_ _ => true
  | _ => false

theorem step_outer_ok (cfg : Cfg) (s : St) (t : Tok) (ho : isOuterTok t = true) : ∃ s', step cfg s t = .ok s' := by
  cases t with
  | start n a => simp [isOuterTok] at ho
  | startend n a => simp [isOuterTok] at ho
  | entity e => simp [isOuterTok] at ho
  | charref e => simp [isOuterTok] at ho
  | comment e => simp [isOuterTok] at ho
  | end_ n => exact ⟨_, rfl⟩
  | decl d => exact ⟨_, rfl⟩
  | unknownDecl d => exact ⟨_, rfl⟩
  | pi d => exact ⟨_, rfl⟩
  | data d =>
    simp only [isOuterTok, Bool.or_eq_true] at ho
    simp only [step, handleData]
    split
    · exact ⟨_, rfl⟩
    · split
      · exact ⟨_, rfl⟩
      · rcases ho with h | h
        · rename_i h0 _ _; exact absurd h h0
        · simp [h]

theorem run_outer_ok (cfg : Cfg) (ts : List Tok) : ∀ s : St, (∀ t ∈ ts, isOuterTok t = true) →
    ∃ s', run cfg ts s = .ok s' := by
  induction ts with
  | nil => intro s _; exact ⟨s, rfl⟩
  | cons t ts ih =>
    intro s h
    obtain ⟨s1, h1⟩ := step_outer_ok cfg s t (h t List.mem_cons_self)
    obtain ⟨s2, h2⟩ := ih s1 (fun x hx => h x (List.mem_cons_of_mem _ hx))
    exact ⟨s2, by simp only [run, h1]; exact h2⟩

/-- nothing open and no root yet -/
def Fresh (s : St) : Prop := s.stack = [] ∧ s.closed = none

theorem step_outer_fresh (cfg : Cfg) (s : St) (hf : Fresh s) (t : Tok) (ho : isOuterTok t = true) :
    ∃ s', step cfg s t = .ok s' ∧ Fresh s' := by
  obtain ⟨h1, h2⟩ := hf
  cases t with
  | start n a => simp [isOuterTok] at ho
  | startend n a => simp [isOuterTok] at ho
  | entity e => simp [isOuterTok] at ho
  | charref e => simp [isOuterTok] at ho
  | comment e => simp [isOuterTok] at ho
  | end_ n => exact ⟨s, by simp [step, handleEnd, h1], h1, h2⟩
  | decl d => exact ⟨_, rfl, h1, h2⟩
  | unknownDecl d =>
    refine ⟨_, rfl, ?_⟩
    split
    · exact ⟨h1, h2⟩
    · exact ⟨h1, h2⟩
  | pi d => exact ⟨_, rfl, h1, h2⟩
  | data d =>
    simp only [isOuterTok, Bool.or_eq_true] at ho
    by_cases hd : d.isEmpty = true
    · exact ⟨s, by simp [step, handleData, hd], h1, h2⟩
    · rcases ho with h | h
      · exact absurd h hd
      · exact ⟨s, by simp [step, handleData, hd, h1, h], h1, h2⟩

theorem run_outer_fresh (cfg : Cfg) (ts : List Tok) : ∀ s : St, Fresh s → (∀ t ∈ ts, isOuterTok t = true) →
    ∃ s', run cfg ts s = .ok s' ∧ Fresh s' := by
  induction ts with
  | nil => intro s hf _; exact ⟨s, rfl, hf⟩
  | cons t ts ih =>
    intro s hf h
    obtain ⟨s1, h1, hf1⟩ := step_outer_fresh cfg s hf t (h t List.mem_cons_self)
    obtain ⟨s2, h2, hf2⟩ := ih s1 hf1 (fun x hx => h x (List.mem_cons_of_mem _ hx))
    exact ⟨s2, by simp only [run, h1]; exact h2, hf2⟩

theorem wrapper_lower : lower wrapper = wrapper := by decide
theorem wrapper_not_void : isVoid wrapper = false := by decide

/-- **the general wrapped pass** of every formatter class: outer tokens, the wrapper's start tag, ANY tokens
    without the wrapper's end tag, outer tokens (the closing end tag is one) — never MultipleRootNodeException -/
theorem run_wrapped_general (cfg : Cfg) (pre ts post : List Tok) (a : List (Str × Option Str))
    (hpre : ∀ t ∈ pre, isOuterTok t = true) (hw : ∀ t ∈ ts, t ≠ .end_ wrapper)
    (hpost : ∀ t ∈ post, isOuterTok t = true) :
    ∃ s', run cfg (pre ++ .start wrapper a :: (ts ++ post)) {} = .ok s' := by
  obtain ⟨s0, h0, hf0⟩ := run_outer_fresh cfg pre {} ⟨rfl, rfl⟩ hpre
  rw [run_append cfg pre _ _ _ h0]
  have hstart : ∃ s1, step cfg s0 (.start wrapper a) = .ok s1 ∧ Bottom wrapper s1 := by
    simp only [step, startHandler_eq]
    unfold handleStartK
    have hnr : s0.noRoot = true := by simp [St.noRoot, hf0.1, hf0.2]
    simp only [hnr, Bool.not_true, Bool.false_and, Bool.false_eq_true, if_false, wrapper_lower, wrapper_not_void,
      Bool.or_false]
    exact ⟨_, rfl, by simp [Bottom, fnames, hf0.1]⟩
  obtain ⟨s1, hs1, hb⟩ := hstart
  obtain ⟨s2, h2, _⟩ := run_bottom cfg ts hb hw
  obtain ⟨s3, h3⟩ := run_outer_ok cfg post s2 hpost
  refine ⟨s3, ?_⟩
  simp only [run, hs1]
  rw [run_append cfg ts post s1 s2 h2]; exact h3

/-! ### the shape of `wrapToks` -/

theorem doctypeLead_all : ∀ s : Str, doctypeLead s = true → ∀ c ∈ s, pyWs c = true := by
  intro s
  induction s with
  | nil => intro _ c hc; simp at hc
  | cons c cs ih =>
    intro h x hx
    unfold doctypeLead at h
    by_cases hc : c = '\n'
    · subst hc
      have h' : doctypeLead cs = true := by simpa [doctypeLead, List.dropWhile_cons] using h
      rcases List.mem_cons.mp hx with e | e
      · rw [e]; decide
      · exact ih h' x e
    · have h2 : (c :: cs).all (fun c => c = ' ' || c = '\t') = true := by
        simpa [List.dropWhile_cons, hc] using h
      have h3 := (List.all_eq_true.mp h2) x hx
      simp at h3
      rcases h3 with e | e <;> subst e <;> decide

theorem doctypeLead_blank (s : Str) (h : doctypeLead s = true) : (pyStrip s).isEmpty = true := by
  have : pyLstrip s = [] := by
    unfold pyLstrip
    exact AHP.dropWhile_nil_of_all pyWs s (doctypeLead_all s h)
  simp [pyStrip, this, pyRstrip, rdropWhile]

theorem wrapToks_shape (toks : List Tok) : ∃ pre r, toks = pre ++ r ∧ (∀ t ∈ pre, isOuterTok t = true) ∧
    wrapToks toks = pre ++ .start wrapper [] :: (r ++ [.end_ wrapper]) := by
  unfold wrapToks
  simp only
  split
  · rename_i d rest
    split
    · exact ⟨[.decl d], rest, rfl, by simp [isOuterTok], rfl⟩
    · exact ⟨[], _, rfl, by simp, rfl⟩
  · rename_i s d rest
    split
    · rename_i hc
      simp only [Bool.and_eq_true] at hc
      refine ⟨[.data s, .decl d], rest, rfl, ?_, rfl⟩
      intro t ht
      simp at ht
      rcases ht with rfl | rfl
      · simp [isOuterTok, doctypeLead_blank s hc.1]
      · simp [isOuterTok]
    · exact ⟨[], _, rfl, by simp, rfl⟩
  · exact ⟨[], _, rfl, by simp, rfl⟩

/-! ### the object across calls -/

theorem St.reset_eq_init (s : St) : s.reset = {} := rfl

theorem runS_ok (cfg : Cfg) (ts : List Tok) : ∀ s s' : St, run cfg ts s = .ok s' → runS cfg ts s = (s', none) := by
  induction ts with
  | nil => intro s s' h; simp [run] at h; simp [runS, h]
  | cons t ts ih =>
    intro s s' h
    simp only [runS, run] at h ⊢
    cases hs : step cfg s t <;> rw [hs] at h <;> simp at h ⊢
    exact ih _ _ h

theorem runS_error (cfg : Cfg) (ts : List Tok) : ∀ (s : St) (e : Err), run cfg ts s = .error e →
    (runS cfg ts s).2 = some e := by
  induction ts with
  | nil => intro s e h; simp [run] at h
  | cons t ts ih =>
    intro s e h
    simp only [runS, run] at h ⊢
    cases hs : step cfg s t <;> rw [hs] at h <;> simp at h ⊢
    · exact h
    · exact ih _ _ h

/-- result of a state-passing call as `Except` -/
def asExcept (r : St × Option Err) : Except Err St :=
  match r.2 with
  | none => .ok r.1
  | some e => .error e

theorem runS_asExcept (cfg : Cfg) (ts : List Tok) (s : St) : asExcept (runS cfg ts s) = run cfg ts s := by
  cases h : run cfg ts s with
  | ok s' => rw [runS_ok cfg ts s s' h]; rfl
  | error e => have := runS_error cfg ts s e h; simp [asExcept, this]

/-- a fresh formatter's `feed` in the state-passing model is `feed` -/
theorem feedS_init (cfg : Cfg) (toks : List Tok) : asExcept (feedS cfg {} toks) = feed cfg toks := by
  unfold feedS feed
  cases h : run cfg toks {} with
  | ok s' => rw [runS_ok cfg toks _ s' h]; rfl
  | error e =>
    have h2 := runS_error cfg toks {} e h
    have hp : runS cfg toks {} = ((runS cfg toks {}).1, some e) := by rw [← h2]
    rw [hp]
    cases e with
    | multipleRoot => simp only [St.reset_eq_init]; exact runS_asExcept cfg _ _
    | noRoot => rfl

/-! ### `getHTML` -/

theorem rootOfStack_none (fs : List Frame) (c : Option Node) : rootOfStack fs c = none ↔ fs = [] ∧ c = none := by
  cases fs with
  | nil => simp [rootOfStack]
  | cons f fs => simp [rootOfStack]

theorem root_none_iff (s : St) : s.root = none ↔ s.noRoot = true := by
  unfold St.root St.noRoot
  rw [rootOfStack_none]
  cases s.stack <;> cases s.closed <;> simp

theorem docHTML_some (dt : Option Str) (r : Node) : ∃ str, docHTML dt (some r) = .ok str := by
  unfold docHTML
  cases r with
  | text v s => exact ⟨_, rfl⟩
  | elem k n st sc ind kids => simp only; split <;> exact ⟨_, rfl⟩

end AHP.Fmt
