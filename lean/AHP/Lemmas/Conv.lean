/-
  AHP.Lemmas.Conv — helper lemmas for C19: the attribute store behaves as a map on well-behaved names,
  the meaning of each converter, totality.
-/
import AHP.Model.ConvSpec
namespace AHP.Conv
open AHP AHP.Gen AHP.Conv.Spec

/-! ### side conditions, unpacked -/

structure NameFacts (T : Tables) (a : String) : Prop where
  nbk : T.booleans.contains (lowerS a) = (T.booleans.contains a)
  nc : lowerS a ≠ "class"
  nst : lowerS a ≠ "style"
  idem : lowerS (lowerS a) = lowerS a

theorem plainName_facts {T : Tables} {a : String} (h : plainName T a = true) :
    NameFacts T a ∧ T.booleans.contains a = false ∧ T.boolStrings.contains (lowerS a) = false := by
  simp only [plainName, Bool.and_eq_true, Bool.not_eq_true', bne_iff_ne, ne_eq, beq_iff_eq] at h
  obtain ⟨⟨⟨⟨⟨h1, h2⟩, h3⟩, h4⟩, h5⟩, h6⟩ := h
  exact ⟨⟨by rw [h1, h2], h4, h5, h6⟩, h1, h3⟩

theorem boolName_facts {T : Tables} {a : String} (h : boolName T a = true) :
    NameFacts T a ∧ T.booleans.contains a = true ∧ T.boolStrings.contains (lowerS a) = false := by
  simp only [boolName, Bool.and_eq_true, Bool.not_eq_true', bne_iff_ne, ne_eq, beq_iff_eq] at h
  obtain ⟨⟨⟨⟨⟨h1, h2⟩, h3⟩, h4⟩, h5⟩, h6⟩ := h
  exact ⟨⟨by rw [h1, h2], h4, h5, h6⟩, h1, h3⟩

theorem boolStrName_facts {T : Tables} {a : String} (h : boolStrName T a = true) :
    NameFacts T a ∧ T.booleans.contains a = false ∧ T.boolStrings.contains (lowerS a) = true := by
  simp only [boolStrName, Bool.and_eq_true, Bool.not_eq_true', bne_iff_ne, ne_eq, beq_iff_eq] at h
  obtain ⟨⟨⟨⟨⟨h1, h2⟩, h3⟩, h4⟩, h5⟩, h6⟩ := h
  exact ⟨⟨by rw [h1, h2], h4, h5, h6⟩, h1, h3⟩

/-! ### the store as a map -/

theorem decide_False' [inst : Decidable False] : @decide False inst = false := decide_eq_false (fun h => h)
theorem decide_True' [inst : Decidable True] : @decide True inst = true := decide_eq_true trivial

/-- The entry of the underlying dict for a key. -/
abbrev Elem.entry (e : Elem) (k : String) : Option (Option Str) := e.attrs.lookup k

/-- the text, `None` for a value-less attribute, the default when absent -/
def entryOr (dflt : PyV) : Option (Option Str) → PyV
  | some (some v) => .str v
  | some none => .none
  | none => dflt

theorem dictContains_eq {T : Tables} {a : String} (e : Elem) (f : NameFacts T a) :
    e.dictContains a = (e.entry (lowerS a)).isSome := by
  unfold Elem.dictContains
  simp only [f.nc, if_false]

theorem hasAttribute_eq {T : Tables} {a : String} (e : Elem) (f : NameFacts T a) :
    e.hasAttribute a = (e.entry (lowerS a)).isSome := by
  unfold Elem.hasAttribute Elem.dictContains
  simp only [f.idem, f.nc, if_false]

theorem dictGetItem_plain {T : Tables} {a : String} (e : Elem) (f : NameFacts T a)
    (hs : T.boolStrings.contains (lowerS a) = false) :
    e.dictGetItem T (lowerS a) = entryVal (e.entry (lowerS a)) := by
  unfold Elem.dictGetItem
  simp only [f.idem, f.nc, f.nst, hs, if_false, Bool.false_eq_true]

theorem dictGetItem_plain' {T : Tables} {a : String} (e : Elem) (f : NameFacts T a)
    (hs : T.boolStrings.contains (lowerS a) = false) :
    e.dictGetItem T a = entryVal (e.entry (lowerS a)) := by
  unfold Elem.dictGetItem
  simp only [f.nc, f.nst, hs, if_false, Bool.false_eq_true]

theorem dictGetItem_boolStr {T : Tables} {a : String} (e : Elem) (f : NameFacts T a)
    (hs : T.boolStrings.contains (lowerS a) = true) :
    e.dictGetItem T (lowerS a) = .str (convertToBooleanString (entryVal (e.entry (lowerS a)))) := by
  unfold Elem.dictGetItem
  simp only [f.idem, f.nc, f.nst, hs, if_false, if_true]

theorem dictGet_eq {T : Tables} {a : String} (e : Elem) (f : NameFacts T a) (dflt : PyV) :
    e.dictGet T a dflt = if (e.entry (lowerS a)).isSome then e.dictGetItem T (lowerS a) else dflt := by
  unfold Elem.dictGet Elem.inKeys
  simp only [f.nc, f.nst, decide_False', Bool.false_or, if_false]

/-- getAttribute of a name that is neither boolean nor a true/false-string attribute: the text, `None` for a
value-less attribute, the default when absent. -/
theorem getAttribute_plain {T : Tables} {a : String} (e : Elem) (h : plainName T a = true) (dflt : PyV) :
    e.getAttribute T a dflt = entryOr dflt (e.entry (lowerS a)) := by
  obtain ⟨f, hb, hs⟩ := plainName_facts h
  rw [Elem.getAttribute, hb]
  simp only [Bool.false_eq_true, if_false]
  rw [dictGet_eq e f, dictGetItem_plain e f hs]
  cases e.entry (lowerS a) with
  | none => rfl
  | some o => cases o <;> rfl

/-- getAttribute of a boolean attribute: `False` when absent, `True` when value-less or empty, else the text. -/
theorem getAttribute_bool {T : Tables} {a : String} (e : Elem) (h : boolName T a = true) (dflt : PyV) :
    e.getAttribute T a dflt = (match e.entry (lowerS a) with
      | none => PyV.bool false
      | some none => PyV.bool true
      | some (some v) => if v = [] then PyV.bool true else PyV.str v) := by
  obtain ⟨f, hb, hs⟩ := boolName_facts h
  rw [Elem.getAttribute, hb]
  simp only [if_true]
  rw [dictContains_eq e f, dictGetItem_plain' e f hs]
  cases e.entry (lowerS a) with
  | none => rfl
  | some o =>
    cases o with
    | none => rfl
    | some v => cases v <;> rfl

/-- getAttribute of a true/false-string attribute (spellcheck): the converted text when present. -/
theorem getAttribute_boolStr {T : Tables} {a : String} (e : Elem) (h : boolStrName T a = true) (dflt : PyV) :
    e.getAttribute T a dflt = (match e.entry (lowerS a) with
      | none => dflt
      | some o => PyV.str (convertToBooleanString (entryVal (some o)))) := by
  obtain ⟨f, hb, hs⟩ := boolStrName_facts h
  rw [Elem.getAttribute, hb]
  simp only [Bool.false_eq_true, if_false]
  rw [dictGet_eq e f, dictGetItem_boolStr e f hs]
  cases e.entry (lowerS a) with
  | none => rfl
  | some o => rfl

/-! ### the meaning of the converters (conversions.py), for all parameters and all texts -/

/-- Python's `int()` on text fails with `ValueError` only. -/
def ValueErrorOnly (parseInt : Str → Except PyErr Int) : Prop :=
  ∀ s e, parseInt s = .error e → e = .valueError

theorem clamp_eq (lo hi n : Int) (h : lo ≤ hi) : clampHi (some hi) (clampLo (some lo) n) = Spec.clamp lo hi n := by
  unfold clampHi clampLo Spec.clamp
  simp only
  split <;> split <;> omega

theorem intOrMinusOne_none (pi : Str → Except PyErr Int) : convertToIntOrNegativeOneIfUnset pi .none = .int (-1) := rfl
theorem intOrMinusOne_empty (pi : Str → Except PyErr Int) : convertToIntOrNegativeOneIfUnset pi (.str []) = .int (-1) := rfl

theorem intOrMinusOne_text (pi : Str → Except PyErr Int) (s : Str) (h : s ≠ []) :
    convertToIntOrNegativeOneIfUnset pi (.str s) = (match pi s with | .ok n => .int n | .error _ => .int 0) := by
  cases s with
  | nil => exact absurd rfl h
  | cons c r =>
    unfold convertToIntOrNegativeOneIfUnset
    simp only [isNoneOrEmpty, Bool.false_eq_true, if_false, pyInt]
    cases pi (c :: r) <;> rfl

theorem positiveInt_text (pi : Str → Except PyErr Int) (s : Str) (d : Lit) :
    convertToPositiveInt pi (.str s) d = (match pi s with | .ok n => if n < 0 then d.toPy else .int n | .error _ => d.toPy) := by
  unfold convertToPositiveInt
  simp only [pyInt]
  cases pi s <;> rfl

theorem positiveInt_int (pi : Str → Except PyErr Int) (n : Int) (d : Lit) :
    convertToPositiveInt pi (.int n) d = if n < 0 then d.toPy else .int n := rfl

theorem isNoneOrEmpty_str (s : Str) : isNoneOrEmpty (.str s) = decide (s = []) := by
  cases s <;> rfl

theorem intRange_empty (pi : Str → Except PyErr Int) (lo hi : Option Int) (inv : Inv) (emp : Emp) :
    convertToIntRange pi (.str []) lo hi inv emp = handleEmpty inv emp := rfl

theorem intRange_text (pi : Str → Except PyErr Int) (hpi : ValueErrorOnly pi) (s : Str) (h : s ≠ []) (lo : Int) (inv : Inv) (emp : Emp) :
    convertToIntRange pi (.str s) (some lo) none inv emp
      = (match pi s with | .ok n => if n < lo then handleInvalid inv else .ok (.int n) | .error _ => handleInvalid inv) := by
  cases s with
  | nil => exact absurd rfl h
  | cons c r =>
    unfold convertToIntRange
    simp only [isNoneOrEmpty, Bool.false_eq_true, if_false, pyInt]
    cases hp : pi (c :: r) with
    | ok n => simp only [decide_eq_true_eq]
    | error err => cases hpi _ _ hp; rfl

theorem intCapped_empty (pi : Str → Except PyErr Int) (lo hi : Option Int) (inv : Inv) (emp : Emp) :
    convertToIntRangeCapped pi (.str []) lo hi inv emp = handleEmpty inv emp := rfl

theorem intCapped_text (pi : Str → Except PyErr Int) (hpi : ValueErrorOnly pi) (s : Str) (h : s ≠ []) (lo hi : Int) (hlh : lo ≤ hi)
    (inv : Inv) (emp : Emp) :
    convertToIntRangeCapped pi (.str s) (some lo) (some hi) inv emp
      = (match pi s with | .ok n => .ok (.int (Spec.clamp lo hi n)) | .error _ => handleInvalid inv) := by
  cases s with
  | nil => exact absurd rfl h
  | cons c r =>
    unfold convertToIntRangeCapped
    simp only [isNoneOrEmpty, Bool.false_eq_true, if_false, pyInt]
    cases hp : pi (c :: r) with
    | ok n => simp only [clamp_eq lo hi n hlh]
    | error err => cases hpi _ _ hp; rfl

theorem lower_eq_nil (s : Str) : lower s = [] ↔ s = [] := by
  cases s <;> simp [lower]

theorem possible_text (s : Str) (ms : List String) (inv : Inv) (emp : Emp) :
    convertPossibleValues (.str s) ms inv emp
      = if s = [] then handleEmpty inv emp
        else if ms.contains (String.ofList (lower s)) then .ok (.str (lower s)) else handleInvalid inv := by
  unfold convertPossibleValues
  simp only [tostr, lower_eq_nil]
  by_cases hs : s = []
  · simp only [hs, if_true]
  · simp only [hs, if_false]
    rfl

/-! ### reading a property whose dispatch is the one its documented rule demands -/

/-- The attribute state of an entry (value-less entries are outside the property's quantifier). -/
def stOf : Option (Option Str) → St
  | some (some s) => .text s
  | _ => .absent

theorem boolStr_roundtrip (v : Str) :
    convertBooleanStringToBoolean (.str (convertToBooleanString (.str v)))
      = !(lower v = str "false" || lower v = str "0") := by
  unfold convertToBooleanString
  simp only
  cases h : (decide (lower v = str "false") || decide (lower v = str "0")) <;> simp [h] <;> decide

theorem evalGet_disp (T : Tables) (pi : Str → Except PyErr Int) (hpi : ValueErrorOnly pi) (e : Elem) (attr : String) (r : SRule)
    (hok : getOK T (disp attr r).get = true) (hl : lowerS attr = attr) (hwf : wf r = true)
    (hst' : r = .className ∨ e.entry attr ≠ some none) :
    evalGet T pi e (disp attr r).get = .ok (expected pi r (stOf (e.entry attr)) e.ancestors e.classNames) := by
  cases r with
  | className => cases h : stOf (e.entry attr) <;> rfl
  | boolean =>
    have hst := hst'.resolve_left (by simp)
    simp only [disp, getOK] at hok
    simp only [disp, evalGet, getAttribute_bool e hok, hl]
    cases h : e.entry attr with
    | none => rfl
    | some o =>
      cases o with
      | none => exact absurd h hst
      | some v => cases v <;> rfl
  | boolString =>
    have hst := hst'.resolve_left (by simp)
    simp only [disp, getOK] at hok
    simp only [disp, evalGet, getAttribute_boolStr e hok, hl]
    cases h : e.entry attr with
    | none => rfl
    | some o =>
      cases o with
      | none => exact absurd h hst
      | some v => simp only [entryVal, stOf, expected, boolStr_roundtrip]
  | intOrMinusOne =>
    have hst := hst'.resolve_left (by simp)
    simp only [disp, getOK, ruleOK] at hok
    simp only [disp, evalGet, evalRule, evalConv, getAttribute_plain e hok, hl]
    cases h : e.entry attr with
    | none => rfl
    | some o =>
      cases o with
      | none => exact absurd h hst
      | some s =>
        by_cases hs : s = []
        · subst hs; rfl
        · simp only [entryOr, stOf, expected, hs, if_false, intOrMinusOne_text pi s hs]
          cases pi s <;> rfl
  | capped lo hi a i =>
    have hst := hst'.resolve_left (by simp)
    simp only [disp, getOK, ruleOK] at hok
    simp only [wf, Bool.and_eq_true, decide_eq_true_eq] at hwf
    obtain ⟨⟨h1, h2⟩, h3⟩ := hwf
    simp only [disp, evalGet, evalRule, evalConv, getAttribute_plain e hok, hl]
    cases h : e.entry attr with
    | none =>
      simp only [entryOr, stOf, expected, Lit.toPy, convertToIntRangeCapped, isNoneOrEmpty, pyInt, Bool.false_eq_true, if_false,
        clamp_eq lo hi a h1]
      simp only [Spec.clamp]
      congr 2
      omega
    | some o =>
      cases o with
      | none => exact absurd h hst
      | some s =>
        by_cases hs : s = []
        · subst hs; rfl
        · simp only [entryOr, stOf, expected, hs, if_false, intCapped_text pi hpi s hs lo hi h1]
          cases pi s <;> rfl
  | nonNegative d =>
    have hst := hst'.resolve_left (by simp)
    simp only [disp, getOK, ruleOK] at hok
    simp only [disp, evalGet, evalRule, evalConv, getAttribute_plain e hok, hl]
    cases h : e.entry attr with
    | none =>
      simp only [entryOr, stOf, expected, Lit.toPy, positiveInt_int]
      split <;> rfl
    | some o =>
      cases o with
      | none => exact absurd h hst
      | some s =>
        simp only [entryOr, stOf, expected, positiveInt_text, Lit.toPy]
        cases pi s with
        | error _ => rfl
        | ok n => rfl
  | atLeast lo d =>
    have hst := hst'.resolve_left (by simp)
    simp only [disp, getOK, ruleOK] at hok
    simp only [disp, evalGet, evalRule, evalConv, getAttribute_plain e hok, hl]
    cases h : e.entry attr with
    | none =>
      simp only [entryOr, stOf, expected, Lit.toPy, convertToIntRange, isNoneOrEmpty, pyInt, Bool.false_eq_true, if_false,
        handleInvalid]
      split <;> rfl
    | some o =>
      cases o with
      | none => exact absurd h hst
      | some s =>
        by_cases hs : s = []
        · subst hs; rfl
        · simp only [entryOr, stOf, expected, hs, if_false, intRange_text pi hpi s hs, handleInvalid, Lit.toPy]
          cases pi s with
          | error _ => rfl
          | ok n => simp only; split <;> rfl
  | maxLength =>
    have hst := hst'.resolve_left (by simp)
    simp only [disp, getOK, ruleOK, mlRule] at hok
    obtain ⟨f, _, _⟩ := plainName_facts hok
    simp only [disp, mlRule, evalGet, evalRule, hasAttribute_eq e f, getAttribute_plain e hok, hl]
    cases h : e.entry attr with
    | none => rfl
    | some o =>
      cases o with
      | none => exact absurd h hst
      | some s =>
        by_cases hs : s = []
        · subst hs; rfl
        · simp only [Option.isSome, Bool.not_true, Bool.false_eq_true, if_false, entryOr, stOf, expected, hs,
            intRange_text pi hpi s hs, handleInvalid, Lit.toPy]
          cases pi s with
          | error _ => rfl
          | ok n => simp only; split <;> rfl
  | «enum» ms a i em =>
    have hst := hst'.resolve_left (by simp)
    simp only [disp, getOK, ruleOK] at hok
    simp only [disp, evalGet, evalRule, evalConv, getAttribute_plain e hok, hl]
    cases h : e.entry attr with
    | none =>
      simp only [entryOr, stOf, expected]
      simp only [wf] at hwf
      cases hc : convertPossibleValues a.toPy ms (Inv.val i) (empOf em) with
      | error err => rw [hc] at hwf; exact absurd hwf (by simp)
      | ok v => rw [hc] at hwf; simp only [decide_eq_true_eq] at hwf; rw [hwf]
    | some o =>
      cases o with
      | none => exact absurd h hst
      | some s =>
        simp only [entryOr, stOf, expected, possible_text]
        by_cases hs : s = []
        · subst hs
          cases em <;> rfl
        · simp only [hs, if_false, handleInvalid]
          split <;> rfl
  | parentForm => cases h : stOf (e.entry attr) <;> rfl
  | tokens =>
    have hst := hst'.resolve_left (by simp)
    simp only [disp, getOK, ruleOK] at hok
    simp only [disp, evalGet, evalRule, evalConv, getAttribute_plain e hok, hl]
    cases h : e.entry attr with
    | none => rfl
    | some o =>
      cases o with
      | none => exact absurd h hst
      | some s =>
        simp only [entryOr, stOf, expected, domTokenList, tokensOf]
        split <;> rfl
  | string d =>
    have hst := hst'.resolve_left (by simp)
    simp only [disp, getOK] at hok
    simp only [disp, evalGet, getAttribute_plain e hok, hl]
    cases h : e.entry attr with
    | none => rfl
    | some o =>
      cases o with
      | none => exact absurd h hst
      | some s => rfl

/-! ### names are compared in lower case: the normal form of a dispatch entry behaves the same -/

theorem plainName_lower {T : Tables} {a : String} (h : plainName T a = true) : plainName T (lowerS a) = true := by
  have h' := h
  simp only [plainName, Bool.and_eq_true, Bool.not_eq_true', bne_iff_ne, ne_eq, beq_iff_eq] at h'
  obtain ⟨⟨⟨⟨⟨h1, h2⟩, h3⟩, h4⟩, h5⟩, h6⟩ := h'
  simp only [plainName, h6, h2, h3, Bool.and_eq_true, Bool.not_eq_true', bne_iff_ne, ne_eq, beq_iff_eq]
  exact ⟨⟨⟨⟨⟨trivial, trivial⟩, trivial⟩, h4⟩, h5⟩, trivial⟩

theorem boolName_lower {T : Tables} {a : String} (h : boolName T a = true) : boolName T (lowerS a) = true := by
  have h' := h
  simp only [boolName, Bool.and_eq_true, Bool.not_eq_true', bne_iff_ne, ne_eq, beq_iff_eq] at h'
  obtain ⟨⟨⟨⟨⟨h1, h2⟩, h3⟩, h4⟩, h5⟩, h6⟩ := h'
  simp only [boolName, h6, h2, h3, Bool.and_eq_true, Bool.not_eq_true', bne_iff_ne, ne_eq, beq_iff_eq]
  exact ⟨⟨⟨⟨⟨trivial, trivial⟩, trivial⟩, h4⟩, h5⟩, trivial⟩

theorem boolStrName_lower {T : Tables} {a : String} (h : boolStrName T a = true) : boolStrName T (lowerS a) = true := by
  have h' := h
  simp only [boolStrName, Bool.and_eq_true, Bool.not_eq_true', bne_iff_ne, ne_eq, beq_iff_eq] at h'
  obtain ⟨⟨⟨⟨⟨h1, h2⟩, h3⟩, h4⟩, h5⟩, h6⟩ := h'
  simp only [boolStrName, h6, h2, h3, Bool.and_eq_true, Bool.not_eq_true', bne_iff_ne, ne_eq, beq_iff_eq]
  exact ⟨⟨⟨⟨⟨trivial, trivial⟩, trivial⟩, h4⟩, h5⟩, trivial⟩

theorem lowerS_idem_of_plain {T : Tables} {a : String} (h : plainName T a = true) : lowerS (lowerS a) = lowerS a :=
  (plainName_facts h).1.idem

theorem getAttribute_plain_lower {T : Tables} {a : String} (e : Elem) (h : plainName T a = true) (dflt : PyV) :
    e.getAttribute T (lowerS a) dflt = e.getAttribute T a dflt := by
  rw [getAttribute_plain e h, getAttribute_plain e (plainName_lower h), lowerS_idem_of_plain h]

theorem getAttribute_bool_lower {T : Tables} {a : String} (e : Elem) (h : boolName T a = true) (dflt : PyV) :
    e.getAttribute T (lowerS a) dflt = e.getAttribute T a dflt := by
  rw [getAttribute_bool e h, getAttribute_bool e (boolName_lower h), (boolName_facts h).1.idem]

theorem getAttribute_boolStr_lower {T : Tables} {a : String} (e : Elem) (h : boolStrName T a = true) (dflt : PyV) :
    e.getAttribute T (lowerS a) dflt = e.getAttribute T a dflt := by
  rw [getAttribute_boolStr e h, getAttribute_boolStr e (boolStrName_lower h), (boolStrName_facts h).1.idem]

theorem evalRule_resolve (T : Tables) (pi : Str → Except PyErr Int) (e : Elem) (r : Rule) :
    evalRule T pi e (resolve e.tag r) = evalRule T pi e r := by
  induction r with
  | conv c a d => rfl
  | parentTag n => rfl
  | byTag t a b iha ihb =>
    simp only [resolve, evalRule]
    split
    · exact iha
    · exact ihb
  | maxLength => rfl

theorem ruleOK_resolve (T : Tables) (tag : String) (r : Rule) (h : ruleOK T r = true) : ruleOK T (resolve tag r) = true := by
  induction r with
  | conv c a d => exact h
  | parentTag n => exact h
  | byTag t a b iha ihb =>
    simp only [ruleOK, Bool.and_eq_true] at h
    simp only [resolve]
    split
    · exact iha h.1
    · exact ihb h.2
  | maxLength => exact h

theorem evalGet_norm (T : Tables) (pi : Str → Except PyErr Int) (e : Elem) (g : GetKind) (h : getOK T g = true) :
    evalGet T pi e (normGet e.tag g) = evalGet T pi e g := by
  cases g with
  | className => rfl
  | special r =>
    have hr := ruleOK_resolve T e.tag r h
    have he := evalRule_resolve T pi e r
    simp only [normGet]
    split
    · rename_i a d heq
      rw [heq] at hr he
      simp only [evalGet, ← he, evalRule, evalConv]
      simp only [ruleOK] at hr
      rw [getAttribute_plain_lower e hr]
    · simp only [evalGet, he]
  | boolStr a => simp only [normGet, evalGet, getAttribute_boolStr_lower e h]
  | boolean a => simp only [normGet, evalGet, getAttribute_bool_lower e h]
  | string a d => simp only [normGet, evalGet, getAttribute_plain_lower e h]

theorem getOK_norm (T : Tables) (tag : String) (g : GetKind) (h : getOK T g = true) : getOK T (normGet tag g) = true := by
  cases g with
  | className => rfl
  | special r =>
    have hr := ruleOK_resolve T tag r h
    simp only [normGet]
    split
    · rename_i a d heq
      rw [heq] at hr
      exact plainName_lower hr
    · exact hr
  | boolStr a => exact boolStrName_lower h
  | boolean a => exact boolName_lower h
  | string a d => exact plainName_lower h

/-! ### one cell of the table: the dispatch computed from the tables is the documented one -/

structure CellFacts (T : Tables) (tag prop : String) (d : Disp) : Prop where
  disp : dispatch T tag prop = some d
  norm : Spec.norm tag d = Spec.disp (htmlName prop) (srule tag prop)
  getOK : getOK T d.get = true
  setOK : setOK T d.set = true
  notRaw : T.rawAttrs.contains prop = false
  wf : wf (srule tag prop) = true
  lower : lowerS (htmlName prop) = htmlName prop

theorem cellOK_facts {T : Tables} {tag prop : String} (h : cellOK T tag prop = true) : ∃ d, CellFacts T tag prop d := by
  unfold cellOK at h
  cases hd : dispatch T tag prop with
  | none => rw [hd] at h; exact absurd h (by simp)
  | some d =>
    rw [hd] at h
    simp only [dispOK, Bool.and_eq_true, decide_eq_true_eq, Bool.not_eq_true', beq_iff_eq] at h
    obtain ⟨⟨⟨⟨h1, h2, h3⟩, h4⟩, h5⟩, h6⟩ := h
    exact ⟨d, ⟨hd, h1, h2, h3, h4, h5, h6⟩⟩

/-- Reading a linked property gives what its documented rule gives, for every attribute text. -/
theorem getProp_of_cellOK (T : Tables) (pi : Str → Except PyErr Int) (hpi : ValueErrorOnly pi) (e : Elem) (prop : String)
    (hc : cellOK T e.tag prop = true) (hpy : e.pyattrs.lookup prop = none)
    (hst : srule e.tag prop = .className ∨ e.entry (htmlName prop) ≠ some none) :
    getProp T pi e prop
      = .ok (expected pi (srule e.tag prop) (stOf (e.entry (htmlName prop))) e.ancestors e.classNames) := by
  obtain ⟨d, f⟩ := cellOK_facts hc
  have hg : normGet e.tag d.get = (Spec.disp (htmlName prop) (srule e.tag prop)).get := by
    have := congrArg Disp.get f.norm
    simpa only [Spec.norm] using this
  unfold getProp
  simp only [hpy, f.disp]
  rw [← evalGet_norm T pi e d.get f.getOK, hg]
  apply evalGet_disp T pi hpi e _ _ _ f.lower f.wf hst
  rw [← hg]
  exact getOK_norm T e.tag d.get f.getOK

/-! ### totality -/

def isVal : Inv → Bool
  | .val _ => true
  | .raise _ => false

def nameTotal (a : String) : Bool := lowerS a != "style" && lowerS (lowerS a) != "style"

def convTotal (T : Tables) (a : String) (d : Lit) : Gen.Conv → Bool
  | .raw => true
  | .tokens => !T.booleans.contains a && (match d with | .none => true | .str _ => true | _ => false)
  | .intOrMinusOne => true
  | .positiveInt _ => true
  | .possible _ inv _ => isVal inv
  | .intRange _ _ inv _ => isVal inv
  | .intCapped _ _ inv _ => isVal inv

/-- A special-value rule that cannot raise when read: no exception as its invalid result, and its attribute is not
`style` (whose value is an object, not text). -/
def ruleTotal (T : Tables) : Rule → Bool
  | .conv c a d => nameTotal a && convTotal T a d c
  | .parentTag _ => true
  | .byTag _ a b => ruleTotal T a && ruleTotal T b
  | .maxLength a _ _ _ _ _ getInv _ => nameTotal a && isVal getInv

/-- text / None / number / boolean -/
def plainV : PyV → Bool
  | .none => true
  | .str _ => true
  | .int _ => true
  | .bool _ => true
  | _ => false

theorem plainV_lit (l : Lit) : plainV l.toPy = true := by cases l <;> rfl

theorem plainV_entryVal (o : Option (Option Str)) : plainV (entryVal o) = true := by
  cases o with
  | none => rfl
  | some o => cases o <;> rfl

theorem plainV_dictGetItem (T : Tables) (e : Elem) (k : String) (h : lowerS k ≠ "style") : plainV (e.dictGetItem T k) = true := by
  unfold Elem.dictGetItem
  simp only [h, if_false]
  split
  · rfl
  · split
    · rfl
    · exact plainV_entryVal _

/-- text or None -/
def strOrNone : PyV → Bool
  | .none => true
  | .str _ => true
  | _ => false

theorem strOrNone_plainV {v : PyV} (h : strOrNone v = true) : plainV v = true := by
  cases v <;> first | rfl | exact absurd h (by simp [strOrNone])

theorem strOrNone_entryVal (o : Option (Option Str)) : strOrNone (entryVal o) = true := by
  cases o with
  | none => rfl
  | some o => cases o <;> rfl

theorem strOrNone_dictGetItem (T : Tables) (e : Elem) (k : String) (h : lowerS k ≠ "style") : strOrNone (e.dictGetItem T k) = true := by
  unfold Elem.dictGetItem
  simp only [h, if_false]
  split
  · rfl
  · split
    · rfl
    · exact strOrNone_entryVal _

theorem strOrNone_dictGet (T : Tables) (e : Elem) (a : String) (d : PyV) (hd : strOrNone d = true) (h : nameTotal a = true) :
    strOrNone (e.dictGet T a d) = true := by
  simp only [nameTotal, Bool.and_eq_true, bne_iff_ne, ne_eq] at h
  unfold Elem.dictGet
  simp only
  split
  · rfl
  · split
    · exact strOrNone_dictGetItem T e _ h.2
    · exact hd

theorem plainV_getAttribute (T : Tables) (e : Elem) (a : String) (d : PyV) (hd : plainV d = true) (h : nameTotal a = true) :
    plainV (e.getAttribute T a d) = true := by
  have h' := h
  simp only [nameTotal, Bool.and_eq_true, bne_iff_ne, ne_eq] at h'
  unfold Elem.getAttribute
  split
  · split
    · have := strOrNone_plainV (strOrNone_dictGetItem T e a h'.1)
      simp only
      split
      · rfl
      · exact this
    · rfl
  · unfold Elem.dictGet
    simp only
    split
    · rfl
    · split
      · exact plainV_dictGetItem T e _ h'.2
      · exact hd

theorem domTokenList_total (v : PyV) (h : strOrNone v = true) : ∃ r, domTokenList v = .ok r := by
  cases v with
  | none => exact ⟨_, rfl⟩
  | str s =>
    unfold domTokenList
    simp only
    split <;> exact ⟨_, rfl⟩
  | int n => exact absurd h (by simp [strOrNone])
  | bool b => exact absurd h (by simp [strOrNone])
  | tokens ws => exact absurd h (by simp [strOrNone])
  | ancestor i => exact absurd h (by simp [strOrNone])
  | «opaque» w => exact absurd h (by simp [strOrNone])

theorem handleInvalid_val (inv : Inv) (h : isVal inv = true) : ∃ v, handleInvalid inv = .ok v := by
  cases inv with
  | val l => exact ⟨_, rfl⟩
  | raise x => exact absurd h (by simp [isVal])

theorem handleEmpty_val (inv : Inv) (emp : Emp) (h : isVal inv = true) : ∃ v, handleEmpty inv emp = .ok v := by
  cases emp with
  | val l => exact ⟨_, rfl⟩
  | invalid => exact handleInvalid_val inv h

/-- `int()` of a plain value other than None: a number or `ValueError`. -/
theorem pyInt_plain (pi : Str → Except PyErr Int) (hpi : ValueErrorOnly pi) (v : PyV) (hv : plainV v = true) (hn : v ≠ .none) :
    (∃ n, pyInt pi v = .ok n) ∨ pyInt pi v = .error .valueError := by
  cases v with
  | none => exact absurd rfl hn
  | str s =>
    cases h : pi s with
    | ok n => exact .inl ⟨n, h⟩
    | error err => cases hpi _ _ h; exact .inr h
  | int n => exact .inl ⟨n, rfl⟩
  | bool b => exact .inl ⟨_, rfl⟩
  | tokens ws => exact absurd hv (by simp [plainV])
  | ancestor i => exact absurd hv (by simp [plainV])
  | «opaque» w => exact absurd hv (by simp [plainV])

theorem isNoneOrEmpty_false_ne_none {v : PyV} (h : isNoneOrEmpty v = false) : v ≠ .none := by
  intro hv; subst hv; exact absurd h (by simp [isNoneOrEmpty])

theorem intRange_total (pi : Str → Except PyErr Int) (hpi : ValueErrorOnly pi) (v : PyV) (hv : plainV v = true)
    (lo hi : Option Int) (inv : Inv) (emp : Emp) (h : isVal inv = true) :
    ∃ r, convertToIntRange pi v lo hi inv emp = .ok r := by
  unfold convertToIntRange
  cases he : isNoneOrEmpty v with
  | true => simp only [if_true]; exact handleEmpty_val inv emp h
  | false =>
    simp only [Bool.false_eq_true, if_false]
    rcases pyInt_plain pi hpi v hv (isNoneOrEmpty_false_ne_none he) with ⟨n, hn⟩ | hn
    · rw [hn]
      cases lo <;> cases hi <;> simp only [] <;> (repeat' split) <;>
        first | exact handleInvalid_val inv h | exact ⟨_, rfl⟩
    · rw [hn]; exact handleInvalid_val inv h

theorem intCapped_total (pi : Str → Except PyErr Int) (hpi : ValueErrorOnly pi) (v : PyV) (hv : plainV v = true)
    (lo hi : Option Int) (inv : Inv) (emp : Emp) (h : isVal inv = true) :
    ∃ r, convertToIntRangeCapped pi v lo hi inv emp = .ok r := by
  unfold convertToIntRangeCapped
  cases he : isNoneOrEmpty v with
  | true => simp only [if_true]; exact handleEmpty_val inv emp h
  | false =>
    simp only [Bool.false_eq_true, if_false]
    rcases pyInt_plain pi hpi v hv (isNoneOrEmpty_false_ne_none he) with ⟨n, hn⟩ | hn
    · rw [hn]; exact ⟨_, rfl⟩
    · rw [hn]; exact handleInvalid_val inv h

theorem possible_total (v : PyV) (ms : List String) (inv : Inv) (emp : Emp) (h : isVal inv = true) :
    ∃ r, convertPossibleValues v ms inv emp = .ok r := by
  unfold convertPossibleValues
  split
  · exact handleEmpty_val inv emp h
  · simp only
    split
    · exact handleEmpty_val inv emp h
    · split
      · exact ⟨_, rfl⟩
      · exact handleInvalid_val inv h

theorem evalRule_total (T : Tables) (pi : Str → Except PyErr Int) (hpi : ValueErrorOnly pi) (e : Elem) (r : Rule)
    (h : ruleTotal T r = true) : ∃ v, evalRule T pi e r = .ok v := by
  induction r with
  | conv c a d =>
    simp only [ruleTotal, Bool.and_eq_true] at h
    have hv := plainV_getAttribute T e a d.toPy (plainV_lit d) h.1
    simp only [evalRule]
    cases c with
    | raw => exact ⟨_, rfl⟩
    | tokens =>
      simp only [convTotal, Bool.and_eq_true, Bool.not_eq_true'] at h
      simp only [evalConv]
      have hb := h.2.1
      have hd : strOrNone d.toPy = true := by
        cases d with
        | none => rfl
        | str s => rfl
        | int n => exact absurd h.2.2 (by simp)
        | bool b => exact absurd h.2.2 (by simp)
      have : e.getAttribute T a d.toPy = e.dictGet T a d.toPy := by
        unfold Elem.getAttribute; rw [hb]; simp
      rw [this]
      exact domTokenList_total _ (strOrNone_dictGet T e a _ hd h.1)
    | intOrMinusOne => exact ⟨_, rfl⟩
    | positiveInt inv => exact ⟨_, rfl⟩
    | possible ms inv emp => exact possible_total _ ms inv emp h.2
    | intRange lo hi inv emp => exact intRange_total pi hpi _ hv lo hi inv emp h.2
    | intCapped lo hi inv emp => exact intCapped_total pi hpi _ hv lo hi inv emp h.2
  | parentTag n => exact ⟨_, rfl⟩
  | byTag t a b iha ihb =>
    simp only [ruleTotal, Bool.and_eq_true] at h
    simp only [evalRule]
    split
    · exact iha h.1
    · exact ihb h.2
  | maxLength a absent dflt lo hi emp gi si =>
    simp only [ruleTotal, Bool.and_eq_true] at h
    simp only [evalRule]
    split
    · exact ⟨_, rfl⟩
    · exact intRange_total pi hpi _ (plainV_getAttribute T e a dflt.toPy (plainV_lit dflt) h.1) lo hi gi emp h.2

theorem lookup_all {β} (f : β → Bool) (l : List (String × β)) (h : l.all (fun p => f p.2) = true) (k : String) (r : β)
    (hl : l.lookup k = some r) : f r = true := by
  induction l with
  | nil => exact absurd hl (by simp [List.lookup])
  | cons p l ih =>
    obtain ⟨k', v⟩ := p
    simp only [List.all_cons, Bool.and_eq_true] at h
    simp only [List.lookup] at hl
    split at hl
    · cases hl; exact h.1
    · exact ih h.2 hl

/-- Reading any name of any element never raises, whatever the attributes hold — provided no special-value rule of
the tables can raise (`ruleTotal`, a decidable property of the tables). -/
theorem getProp_total (T : Tables) (hT : T.specials.all (fun p => ruleTotal T p.2) = true)
    (pi : Str → Except PyErr Int) (hpi : ValueErrorOnly pi) (e : Elem) (prop : String) :
    ∃ v, getProp T pi e prop = .ok v := by
  unfold getProp
  split
  · exact ⟨_, rfl⟩
  · split
    · rename_i d hd
      unfold dispatch at hd
      split at hd
      · cases hd; exact ⟨_, rfl⟩
      · split at hd
        · cases hd
          simp only [getKind]
          split
          · exact ⟨_, rfl⟩
          · split
            · rename_i r hr
              exact evalRule_total T pi hpi e r (lookup_all _ _ hT _ _ hr)
            · split
              · exact ⟨_, rfl⟩
              · split <;> exact ⟨_, rfl⟩
        · exact absurd hd (by simp)
    · exact ⟨_, rfl⟩

/-! ### assignment -/

theorem lookup_dictSet_self {β} (k : String) (v : β) (l : List (String × β)) : (dictSet k v l).lookup k = some v := by
  induction l with
  | nil => simp [dictSet, List.lookup]
  | cons p l ih =>
    obtain ⟨k', v'⟩ := p
    unfold dictSet
    split
    · simp [List.lookup]
    · rename_i hne
      have : (k == k') = false := by simpa using fun h => hne h.symm
      simp only [List.lookup, this, ih]

theorem lookup_dictDel_self {β} (k : String) (l : List (String × β)) : (dictDel k l).lookup k = none := by
  induction l with
  | nil => rfl
  | cons p l ih =>
    obtain ⟨k', v'⟩ := p
    unfold dictDel
    split
    · exact ih
    · rename_i hne
      have : (k == k') = false := by simpa using fun h => hne h.symm
      simp only [List.lookup, this, ih]

theorem setAttribute_plain {T : Tables} {a : String} (e : Elem) (h : plainName T a = true) (hv : isValidAttributeName a = true)
    (s : Str) : e.setAttribute T a (.str s) = .ok { e with attrs := dictSet (lowerS a) (some s) e.attrs } := by
  obtain ⟨f, _, hs⟩ := plainName_facts h
  unfold Elem.setAttribute Elem.dictSetItem
  simp only [hv, Bool.not_true, Bool.false_eq_true, if_false, f.nc, f.nst, hs]

theorem setAttribute_boolStr {T : Tables} {a : String} (e : Elem) (h : boolStrName T a = true) (hv : isValidAttributeName a = true)
    (v : PyV) : e.setAttribute T a v = .ok { e with attrs := dictSet (lowerS a) (some (convertToBooleanString v)) e.attrs } := by
  obtain ⟨f, _, hs⟩ := boolStrName_facts h
  unfold Elem.setAttribute Elem.dictSetItem
  simp only [hv, Bool.not_true, Bool.false_eq_true, if_false, f.nc, f.nst, hs, if_true]

theorem setAttribute_bool {T : Tables} {a : String} (e : Elem) (h : boolName T a = true) (hv : isValidAttributeName a = true)
    (s : Str) : e.setAttribute T a (.str s) = .ok { e with attrs := dictSet (lowerS a) (some s) e.attrs } := by
  obtain ⟨f, _, hs⟩ := boolName_facts h
  unfold Elem.setAttribute Elem.dictSetItem
  simp only [hv, Bool.not_true, Bool.false_eq_true, if_false, f.nc, f.nst, hs]

theorem removeAttribute_eq {T : Tables} {a : String} (e : Elem) (f : NameFacts T a) :
    e.removeAttribute a = { e with attrs := dictDel (lowerS a) e.attrs } := by
  unfold Elem.removeAttribute
  simp only [f.nc, f.nst, if_false]

/-- What `__setattr__` does on a name whose set-dispatch is `sk`, in terms of the lower-case attribute name. -/
def setResult (e : Elem) (v : PyV) : SetKind → Elem
  | .className => e.setClassName v
  | .boolStr a => { e with attrs := dictSet (lowerS a) (some (convertToBooleanString v)) e.attrs }
  | .boolean a => if truthy v then { e with attrs := dictSet (lowerS a) (some []) e.attrs }
                  else { e with attrs := dictDel (lowerS a) e.attrs }
  | .string a => { e with attrs := dictSet (lowerS a) (some (tostr v)) e.attrs }

theorem evalSet_eq (T : Tables) (e : Elem) (v : PyV) (sk : SetKind) (h : setOK T sk = true) :
    evalSet T e v sk = .ok (setResult e v sk) := by
  cases sk with
  | className => rfl
  | boolStr a =>
    simp only [setOK, Bool.and_eq_true] at h
    simp only [evalSet, setResult, setAttribute_boolStr e h.1.1 h.1.2]
  | boolean a =>
    simp only [setOK, Bool.and_eq_true] at h
    simp only [evalSet, setResult]
    cases truthy v with
    | true => simp only [Bool.not_true, Bool.false_eq_true, if_false, if_true, setAttribute_bool e h.1.1 h.1.2]
    | false =>
      simp only [Bool.not_false, if_true, Bool.false_eq_true, if_false]
      rw [removeAttribute_eq e (boolName_facts h.1.1).1]
  | string a =>
    simp only [setOK, Bool.and_eq_true] at h
    simp only [evalSet, setResult, setAttribute_plain e h.1.1 h.1.2]

theorem setResult_norm (T : Tables) (e : Elem) (v : PyV) (sk : SetKind) (h : setOK T sk = true) :
    setResult e v (normSet sk) = setResult e v sk := by
  cases sk with
  | className => rfl
  | boolStr a =>
    simp only [setOK, Bool.and_eq_true] at h
    simp only [normSet, setResult, (boolStrName_facts h.1.1).1.idem]
  | boolean a =>
    simp only [setOK, Bool.and_eq_true] at h
    simp only [normSet, setResult, (boolName_facts h.1.1).1.idem]
  | string a =>
    simp only [setOK, Bool.and_eq_true] at h
    simp only [normSet, setResult, (plainName_facts h.1.1).1.idem]

/-- the validation of `maxLength = v`: raises exactly on an out-of-range value -/
theorem validate_maxLength (pi : Str → Except PyErr Int) (hpi : ValueErrorOnly pi) (attr : String) (v : PyV) (hv : plain v = true) :
    validateRule pi v (mlRule attr) = if outOfRange pi v then .error .indexSizeError else .ok () := by
  unfold validateRule mlRule outOfRange convertToIntRange
  simp only
  cases he : isNoneOrEmpty v with
  | true => rfl
  | false =>
    simp only [Bool.false_eq_true, if_false]
    have hp : plainV v = true := by cases v <;> first | rfl | exact absurd hv (by simp [plain])
    rcases pyInt_plain pi hpi v hp (isNoneOrEmpty_false_ne_none he) with ⟨n, hn⟩ | hn
    · rw [hn]
      simp only
      by_cases hlt : n < 0
      · simp only [hlt, decide_true, if_true]; rfl
      · simp only [hlt, decide_false, Bool.false_eq_true, if_false]; rfl
    · rw [hn]; rfl

/-- Assigning a linked property: the only raising assignment is an out-of-range maxLength; otherwise the attribute
is stored (or removed) under the HTML name. -/
theorem setProp_of_cellOK (T : Tables) (pi : Str → Except PyErr Int) (hpi : ValueErrorOnly pi) (e : Elem) (prop : String) (v : PyV)
    (hc : cellOK T e.tag prop = true) (hv : plain v = true) :
    setProp T pi e prop v
      = if srule e.tag prop = .maxLength ∧ outOfRange pi v = true then .error .indexSizeError
        else .ok (setResult e v (Spec.disp (htmlName prop) (srule e.tag prop)).set) := by
  obtain ⟨d, f⟩ := cellOK_facts hc
  have hs : normSet d.set = (Spec.disp (htmlName prop) (srule e.tag prop)).set := by
    have := congrArg Disp.set f.norm
    simpa only [Spec.norm] using this
  have hval : d.validate = (Spec.disp (htmlName prop) (srule e.tag prop)).validate := by
    have := congrArg Disp.validate f.norm
    simpa only [Spec.norm] using this
  unfold setProp
  simp only [f.notRaw, Bool.false_eq_true, if_false, f.disp, hval, evalSet_eq T e v d.set f.setOK,
    ← hs, setResult_norm T e v d.set f.setOK]
  cases hr : srule e.tag prop <;> simp only [Spec.disp, reduceCtorEq, false_and, if_false, true_and]
  rw [validate_maxLength pi hpi _ v hv]
  cases outOfRange pi v <;> rfl

/-- the attribute state after an assignment, per the documented rule -/
def stAfter (pi : Str → Except PyErr Int) (r : SRule) (v : PyV) : St :=
  match assign pi r v with
  | .store s => .text s
  | _ => .absent

theorem entry_string (e : Elem) (attr : String) (hl : lowerS attr = attr) (v : PyV) :
    (setResult e v (.string attr)).entry attr = some (some (tostr v)) := by
  simp only [setResult, Elem.entry, hl, lookup_dictSet_self]

/-- Reading back after an accepted assignment follows the same rule, applied to the stored text. -/
theorem roundtrip_of_cellOK (T : Tables) (pi : Str → Except PyErr Int) (hpi : ValueErrorOnly pi) (e : Elem) (prop : String) (v : PyV)
    (hc : cellOK T e.tag prop = true) (hv : plain v = true) (hpy : e.pyattrs.lookup prop = none)
    (hacc : ¬ (srule e.tag prop = .maxLength ∧ outOfRange pi v = true)) :
    ∃ e', setProp T pi e prop v = .ok e' ∧ e'.tag = e.tag ∧ e'.ancestors = e.ancestors ∧
      getProp T pi e' prop = .ok (expected pi (srule e.tag prop) (stAfter pi (srule e.tag prop) v) e.ancestors e'.classNames) := by
  obtain ⟨d, f⟩ := cellOK_facts hc
  refine ⟨setResult e v (Spec.disp (htmlName prop) (srule e.tag prop)).set, ?_, ?_, ?_, ?_⟩
  · rw [setProp_of_cellOK T pi hpi e prop v hc hv, if_neg hacc]
  · cases srule e.tag prop <;> simp only [Spec.disp, setResult, Elem.setClassName] <;> (try split) <;> rfl
  · cases srule e.tag prop <;> simp only [Spec.disp, setResult, Elem.setClassName] <;> (try split) <;> rfl
  · have hl := f.lower
    generalize hr : srule e.tag prop = r at *
    have key : ∀ e' : Elem, e'.tag = e.tag → e'.pyattrs = e.pyattrs → e'.ancestors = e.ancestors →
        (r = .className ∨ e'.entry (htmlName prop) ≠ some none) →
        expected pi r (stOf (e'.entry (htmlName prop))) e.ancestors e'.classNames
          = expected pi r (stAfter pi r v) e.ancestors e'.classNames →
        getProp T pi e' prop = .ok (expected pi r (stAfter pi r v) e.ancestors e'.classNames) := by
      intro e' ht hp ha hne hst
      have := getProp_of_cellOK T pi hpi e' prop (by rw [ht]; exact hc) (by rw [hp]; exact hpy) (by rw [ht, hr]; exact hne)
      rw [this, ht, hr, ha, hst]
    have viaString : (Spec.disp (htmlName prop) r).set = .string (htmlName prop) → stAfter pi r v = .text (tostr v) →
        getProp T pi (setResult e v (Spec.disp (htmlName prop) r).set) prop
          = .ok (expected pi r (stAfter pi r v) e.ancestors (setResult e v (Spec.disp (htmlName prop) r).set).classNames) := by
      intro hset hafter
      rw [hset]
      refine key _ rfl rfl rfl ?_ ?_
      · right; rw [entry_string e _ hl v]; simp
      · rw [entry_string e _ hl v, hafter]; rfl
    cases r with
    | className =>
      refine key _ rfl rfl rfl (.inl rfl) ?_
      generalize stOf _ = s1
      generalize stAfter pi SRule.className v = s2
      cases s1 <;> cases s2 <;> rfl
    | boolean =>
      simp only [Spec.disp, setResult]
      cases htv : truthy v with
      | true =>
        simp only [if_true]
        refine key _ rfl rfl rfl ?_ ?_
        · right; simp only [Elem.entry, hl, lookup_dictSet_self]; simp
        · simp only [Elem.entry, hl, lookup_dictSet_self, stOf, stAfter, assign, htv, if_true]
      | false =>
        simp only [Bool.false_eq_true, if_false]
        refine key _ rfl rfl rfl ?_ ?_
        · right; simp only [Elem.entry, hl, lookup_dictDel_self]; simp
        · simp only [Elem.entry, hl, lookup_dictDel_self, stOf, stAfter, assign, htv, Bool.false_eq_true, if_false]
    | boolString =>
      simp only [Spec.disp, setResult]
      refine key _ rfl rfl rfl ?_ ?_
      · right; simp only [Elem.entry, hl, lookup_dictSet_self]; simp
      · simp only [Elem.entry, hl, lookup_dictSet_self, stOf, stAfter, assign]
        cases v <;> rfl
    | intOrMinusOne => exact viaString rfl rfl
    | capped lo hi a i => exact viaString rfl rfl
    | nonNegative d => exact viaString rfl rfl
    | atLeast lo d => exact viaString rfl rfl
    | maxLength =>
      apply viaString rfl
      have : outOfRange pi v = false := by
        cases h : outOfRange pi v with
        | false => rfl
        | true => exact absurd ⟨rfl, h⟩ hacc
      simp only [stAfter, assign, this, Bool.false_eq_true, if_false]
    | «enum» ms a i em => exact viaString rfl rfl
    | parentForm => exact viaString rfl rfl
    | tokens => exact viaString rfl rfl
    | string d => exact viaString rfl rfl

/-! ### the common names: one check serves every element type -/

def noByTag : Rule → Bool
  | .byTag _ _ _ => false
  | _ => true

def tagFree (p : String) : Bool := p != "size" && p != "cols" && p != "rows" && p != "autocomplete"

def commonOK (T : Tables) (p : String) : Bool :=
  T.links.contains p && tagFree p && (match T.specials.lookup p with | some r => noByTag r | none => true) && cellOK T "" p

theorem resolve_noByTag (tag : String) (r : Rule) (h : noByTag r = true) : resolve tag r = r := by
  cases r <;> first | rfl | exact absurd h (by simp [noByTag])

theorem srule_tagFree (tag p : String) (h : tagFree p = true) : srule tag p = srule "" p := by
  simp only [tagFree, Bool.and_eq_true, bne_iff_ne, ne_eq] at h
  obtain ⟨⟨⟨h1, h2⟩, h3⟩, h4⟩ := h
  simp only [srule, h1, h2, h3, h4, if_false]

theorem cellOK_common (T : Tables) (p : String) (h : commonOK T p = true) (tag : String) : cellOK T tag p = true := by
  simp only [commonOK, Bool.and_eq_true] at h
  obtain ⟨⟨⟨hl, htf⟩, hsp⟩, hc⟩ := h
  have hd : dispatch T tag p = dispatch T "" p := by
    unfold dispatch isLinked
    simp only [hl, Bool.true_or, if_true]
  have hn : ∀ d, dispatch T "" p = some d → Spec.norm tag d = Spec.norm "" d := by
    intro d hd0
    unfold dispatch at hd0
    split at hd0
    · cases hd0; rfl
    · split at hd0
      · cases hd0
        simp only [Spec.norm, Disp.mk.injEq, and_true]
        unfold getKind
        split
        · rfl
        · split
          · rename_i r hr
            rw [hr] at hsp
            simp only [normGet, resolve_noByTag _ r hsp]
          · simp only
            split
            · rfl
            · split <;> rfl
      · exact absurd hd0 (by simp)
  unfold cellOK at hc ⊢
  rw [hd]
  cases hd0 : dispatch T "" p with
  | none => rw [hd0] at hc; exact absurd hc (by simp)
  | some d =>
    rw [hd0] at hc
    simp only [hn d hd0, srule_tagFree tag p htf]
    exact hc

/-! ### the element the parser builds for `<tag attr="text">` -/

/-- `AdvancedTag(tag, [(attr, text)])` — the constructor call of `handle_starttag`. -/
def constructed (T : Tables) (tag attr : String) (anc : List String) (s : Str) : Elem :=
  Elem.ofAttrList T tag anc [(attr, some s)] (Elem.new tag anc)

theorem constructed_notBoolStr {T : Tables} {a : String} (f : NameFacts T a) (hs : T.boolStrings.contains (lowerS a) = false)
    (hv : isValidAttributeName (lowerS a) = true) (tag : String) (anc : List String) (s : Str) :
    constructed T tag (lowerS a) anc s = { Elem.new tag anc with attrs := [(lowerS a, some s)] } := by
  unfold constructed Elem.ofAttrList
  simp only [f.idem, hv, Bool.not_true, Bool.false_eq_true, if_false]
  unfold Elem.dictSetItem
  simp only [f.idem, f.nc, f.nst, hs, if_false, Bool.false_eq_true]
  rfl

theorem lookup_singleton {β} (k : String) (v : β) : [(k, v)].lookup k = some v := by
  simp [List.lookup]

/-- Reading a property of the element built for `<tag attr="text">` gives the documented rule on that text
(className and spellcheck, whose stored form differs from the text, are covered by the stream). -/
theorem getProp_constructed (T : Tables) (pi : Str → Except PyErr Int) (hpi : ValueErrorOnly pi) (tag prop : String)
    (hc : cellOK T tag prop = true) (anc : List String) (s : Str)
    (h1 : srule tag prop ≠ .className) (h2 : srule tag prop ≠ .boolString) :
    getProp T pi (constructed T tag (htmlName prop) anc s) prop
      = .ok (expected pi (srule tag prop) (.text s) anc []) := by
  obtain ⟨d, f⟩ := cellOK_facts hc
  have hs : normSet d.set = (Spec.disp (htmlName prop) (srule tag prop)).set := by
    have := congrArg Disp.set f.norm
    simpa only [Spec.norm] using this
  -- the name `a` the code stores under, with `lowerS a = htmlName prop`, is not a true/false-string name
  have key : ∃ a, lowerS a = htmlName prop ∧ NameFacts T a ∧ T.boolStrings.contains (lowerS a) = false
      ∧ isValidAttributeName (lowerS a) = true := by
    have hok := f.setOK
    cases hd : d.set with
    | className =>
      rw [hd] at hs
      cases hr : srule tag prop <;> rw [hr] at hs <;> simp [normSet, Spec.disp] at hs
      exact absurd hr h1
    | boolStr a =>
      rw [hd] at hs
      cases hr : srule tag prop <;> rw [hr] at hs <;> simp [normSet, Spec.disp] at hs
      exact absurd hr h2
    | boolean a =>
      rw [hd] at hs hok
      simp only [setOK, Bool.and_eq_true] at hok
      obtain ⟨nf, _, hbs⟩ := boolName_facts hok.1.1
      refine ⟨a, ?_, nf, hbs, hok.2⟩
      cases hr : srule tag prop <;> rw [hr] at hs <;> simp [normSet, Spec.disp] at hs
      exact hs
    | string a =>
      rw [hd] at hs hok
      simp only [setOK, Bool.and_eq_true] at hok
      obtain ⟨nf, _, hbs⟩ := plainName_facts hok.1.1
      refine ⟨a, ?_, nf, hbs, hok.2⟩
      cases hr : srule tag prop <;> rw [hr] at hs <;> simp [normSet, Spec.disp] at hs <;> exact hs
  obtain ⟨a, ha, nf, hbs, hv⟩ := key
  have hcon := constructed_notBoolStr nf hbs hv tag anc s
  rw [ha] at hcon
  have := getProp_of_cellOK T pi hpi (constructed T tag (htmlName prop) anc s) prop
    (by rw [hcon]; exact hc) (by rw [hcon]; rfl)
    (by right; rw [hcon]; simp only [Elem.entry, Elem.new, lookup_singleton]; simp)
  rw [this, hcon]
  simp only [Elem.entry, Elem.new, lookup_singleton, stOf]

end AHP.Conv
