/-
  AHP.Lemmas.DomWorld — lifting the local obligations of an edit to the world invariant, and the
  invariant of freshly built trees.
-/
import AHP.Lemmas.DomOps
namespace AHP.Dom

theorem GoodEdit.keepsId {f : Meta → List DN → Edit} {extra} (h : ∀ m bs, GoodEdit m bs (f m bs) extra) : KeepsId f :=
  fun m bs => (h m bs).id
theorem GoodEdit.keepsOK {f : Meta → List DN → Edit} {extra} (h : ∀ m bs, GoodEdit m bs (f m bs) extra) : KeepsOK f :=
  fun par own m bs hk => (h m bs).ok par own hk
theorem GoodEdit.outDetached {f : Meta → List DN → Edit} {extra} (h : ∀ m bs, GoodEdit m bs (f m bs) extra) : OutDetached f :=
  fun par own m bs hk => (h m bs).out par own hk
theorem GoodEdit.idsPlus {f : Meta → List DN → Edit} {extra} (h : ∀ m bs, GoodEdit m bs (f m bs) extra) : IdsPlus f extra :=
  fun m bs => (h m bs).ids

theorem rootOK_upd (t f) (hid : KeepsId f) (hok : KeepsOK f) (r : DN) (h : RootOK r) : RootOK (upd t f r).1 := by
  obtain ⟨m, bs, rfl, h⟩ := h
  have h' := upd_OK t f hid hok none m.owner _ h
  rw [upd_el] at h' ⊢
  split
  · rename_i he
    rw [if_pos he] at h'
    refine ⟨_, _, rfl, ?_⟩
    have : (f m bs).m.owner = m.owner := by simp only [OK_el] at h'; exact h'.2.1
    rw [this]; exact h'
  · rename_i he
    rw [if_neg he] at h'
    exact ⟨_, _, rfl, h'⟩

theorem rootsOK_updL (t f) (hid : KeepsId f) (hok : KeepsOK f) (rs : List DN) (h : ∀ r ∈ rs, RootOK r) :
    ∀ r ∈ (updL t f rs).1, RootOK r := by
  induction rs with
  | nil => simp
  | cons r rs ih =>
    intro x hx
    simp only [updL_cons, List.mem_cons] at hx
    cases hx with
    | inl hx => subst hx; exact rootOK_upd t f hid hok r (h r (by simp))
    | inr hx => exact ih (fun y hy => h y (by simp [hy])) x hx

theorem out_updL_roots (t f) (ho : OutDetached f) (rs : List DN) (h : ∀ r ∈ rs, RootOK r) :
    ∀ x ∈ (updL t f rs).2, Detached x := by
  induction rs with
  | nil => simp
  | cons r rs ih =>
    intro x hx
    simp only [updL_cons, List.mem_append] at hx
    cases hx with
    | inl hx =>
      obtain ⟨m, bs, rfl, hr⟩ := h r (by simp)
      exact upd_out t f ho none m.owner _ hr x hx
    | inr hx => exact ih (fun y hy => h y (by simp [hy])) x hx

/-- An edit whose local obligations hold keeps the world invariant; `extra` are the uids of a tree
    that was taken out of the roots before and is put under the target by the edit. -/
theorem edit_Inv (w : World) (t : Nat) (f : Meta → List DN → Edit) (extra : List Nat)
    (hroots : ∀ r ∈ w.roots, RootOK r) (hnodup : (idsL w.roots ++ extra).Nodup)
    (hfresh : ∀ i ∈ idsL w.roots ++ extra, i < w.next) (ht : t ∈ idsL w.roots)
    (hgood : ∀ m bs, GoodEdit m bs (f m bs) extra) : Inv (w.edit t f) := by
  have hperm := updL_ids t f extra (GoodEdit.idsPlus hgood) w.roots (List.nodup_append.mp hnodup).1 ht
  refine ⟨?_, ?_, ?_⟩
  · intro r hr
    simp only [World.edit, List.mem_append] at hr
    cases hr with
    | inl hr => exact rootsOK_updL t f (GoodEdit.keepsId hgood) (GoodEdit.keepsOK hgood) _ hroots r hr
    | inr hr => exact (out_updL_roots t f (GoodEdit.outDetached hgood) _ hroots r hr).rootOK
  · simp only [World.edit, idsL_append]
    exact (List.Perm.nodup_iff hperm).mpr hnodup
  · intro i hi
    simp only [World.edit, idsL_append] at hi
    exact hfresh i ((List.Perm.mem_iff hperm).mp hi)

theorem find_mem_world {w : World} {t r} (h : w.find? t = some r) : t ∈ idsL w.roots :=
  findL?_mem t w.roots h

/-- Every call that goes through `World.apply` with locally good edits keeps the invariant. -/
theorem apply_Inv (w : World) (t : Nat) (loc : Meta → List DN → Option Edit × Val)
    (hl : ∀ m bs e, (loc m bs).1 = some e → GoodEdit m bs e [])
    (hw : Inv w) {w' v} (h : w.apply t loc = some (w', v)) : Inv w' := by
  unfold World.apply at h
  split at h
  · simp at h
  · rename_i m bs hf
    split at h
    · simp only [Option.some.injEq, Prod.mk.injEq] at h
      rw [← h.1]; exact hw
    · simp only [Option.some.injEq, Prod.mk.injEq] at h
      rw [← h.1]
      refine edit_Inv w t _ [] hw.roots (by simpa using hw.nodup) (by simpa using hw.fresh) (find_mem_world hf) ?_
      intro m' bs'
      cases he : (loc m' bs').1 with
      | none => simpa using GoodEdit.refl m' bs'
      | some e => simpa using hl m' bs' e he

/-! ### taking a root out -/

theorem idsL_perm {l₁ l₂ : List DN} (h : l₁.Perm l₂) : (idsL l₁).Perm (idsL l₂) := by
  induction h with
  | nil => simp
  | cons x _ ih => simpa using List.Perm.append_left _ ih
  | swap x y l =>
    simp only [idsL_cons]
    rw [← List.append_assoc, ← List.append_assoc]
    exact List.Perm.append_right _ List.perm_append_comm
  | trans _ _ ih1 ih2 => exact ih1.trans ih2

theorem takeRoot_spec (c : Nat) (rs : List DN) {ct rest} (h : takeRoot c rs = some (ct, rest)) :
    rs.Perm (ct :: rest) ∧ rootId ct = some c := by
  induction rs generalizing ct rest with
  | nil => simp [takeRoot] at h
  | cons r rs ih =>
    simp only [takeRoot] at h
    split at h
    · rename_i he
      simp only [Option.some.injEq, Prod.mk.injEq] at h
      obtain ⟨rfl, rfl⟩ := h
      exact ⟨List.Perm.refl _, he⟩
    · simp only [Option.map_eq_some_iff] at h
      obtain ⟨x, hx, hx'⟩ := h
      simp only [Prod.mk.injEq] at hx'
      obtain ⟨rfl, rfl⟩ := hx'
      obtain ⟨h1, h2⟩ := ih (ct := x.1) (rest := x.2) (by simp [hx])
      exact ⟨(List.Perm.cons r h1).trans (List.Perm.swap _ _ _), h2⟩

theorem rootId_isEl {c : DN} {i} (h : rootId c = some i) : c.isEl = true ∧ c.rid = i := by
  cases c with
  | text s => simp [rootId] at h
  | el m k => simp only [rootId, Option.some.injEq] at h; simp [DN.isEl, DN.rid, h]

/-- A call that moves the root `ct` under the target keeps the invariant. -/
theorem move_Inv (w : World) (c t : Nat) {ct rest} (hw : Inv w) (htake : takeRoot c w.roots = some (ct, rest))
    (ht : t ∈ idsL rest) (f : Meta → List DN → Edit)
    (hgood : ct.isEl = true → (∃ p o, OK p o ct) → ∀ m bs, GoodEdit m bs (f m bs) (ids ct)) :
    Inv (World.edit { w with roots := rest } t f) := by
  obtain ⟨hperm, hroot⟩ := takeRoot_spec c w.roots htake
  have hct : RootOK ct := hw.roots ct ((List.Perm.mem_iff hperm).mpr (by simp))
  have hidp : (idsL w.roots).Perm (idsL rest ++ ids ct) := by
    have := idsL_perm hperm
    simp only [idsL_cons] at this
    exact this.trans List.perm_append_comm
  refine edit_Inv { w with roots := rest } t f (ids ct) ?_ ?_ ?_ ht ?_
  · intro r hr; exact hw.roots r ((List.Perm.mem_iff hperm).mpr (by simp [hr]))
  · exact (List.Perm.nodup_iff hidp).mp hw.nodup
  · intro i hi; exact hw.fresh i ((List.Perm.mem_iff hidp).mpr hi)
  · obtain ⟨m, bs, rfl, hk⟩ := hct
    exact hgood rfl ⟨_, _, hk⟩

end AHP.Dom
