/-
  Helper lemmas for C18 (ordered-set behaviour of `Coll`).
-/
import AHP.Model.Coll
namespace AHP

/-- Specification of "append the operands that are new, first occurrence wins". -/
def firstOcc : List Nat → List Nat → List Nat
  | _, [] => []
  | seen, x :: xs => if x ∈ seen then firstOcc seen xs else x :: firstOcc (x :: seen) xs

theorem mem_firstOcc {seen xs : List Nat} {y : Nat} :
    y ∈ firstOcc seen xs ↔ y ∈ xs ∧ y ∉ seen := by
  induction xs generalizing seen with
  | nil => simp [firstOcc]
  | cons x xs ih =>
    unfold firstOcc
    split
    · rename_i h
      rw [ih]
      constructor
      · intro ⟨a, b⟩; exact ⟨List.mem_cons_of_mem _ a, b⟩
      · intro ⟨a, b⟩
        rcases List.mem_cons.mp a with rfl | a
        · exact absurd h b
        · exact ⟨a, b⟩
    · rename_i h
      rw [List.mem_cons, ih]
      constructor
      · rintro (rfl | ⟨a, b⟩)
        · exact ⟨List.mem_cons_self, h⟩
        · exact ⟨List.mem_cons_of_mem _ a, fun hb => b (List.mem_cons_of_mem _ hb)⟩
      · intro ⟨a, b⟩
        rcases List.mem_cons.mp a with rfl | a
        · exact Or.inl rfl
        · by_cases hyx : y = x
          · exact Or.inl hyx
          · refine Or.inr ⟨a, ?_⟩
            intro hb
            rcases List.mem_cons.mp hb with e | hb
            · exact hyx e
            · exact b hb

theorem nodup_firstOcc (seen xs : List Nat) : (firstOcc seen xs).Nodup := by
  induction xs generalizing seen with
  | nil => simp [firstOcc]
  | cons x xs ih =>
    unfold firstOcc
    split
    · exact ih _
    · refine List.nodup_cons.mpr ⟨?_, ih _⟩
      intro h
      have := (mem_firstOcc.mp h).2
      exact this List.mem_cons_self

theorem firstOcc_sublist (seen xs : List Nat) : (firstOcc seen xs).Sublist xs := by
  induction xs generalizing seen with
  | nil => simp [firstOcc]
  | cons x xs ih =>
    unfold firstOcc
    split
    · exact (ih _).cons _
    · exact (ih _).cons₂ _

/-- `firstOcc` only depends on the *set* of already-seen elements. -/
theorem firstOcc_congr {s₁ s₂ : List Nat} (h : ∀ y, y ∈ s₁ ↔ y ∈ s₂) (xs : List Nat) :
    firstOcc s₁ xs = firstOcc s₂ xs := by
  induction xs generalizing s₁ s₂ with
  | nil => rfl
  | cons x xs ih =>
    unfold firstOcc
    by_cases hx : x ∈ s₁
    · have hx2 : x ∈ s₂ := (h x).mp hx
      simp only [hx, hx2, if_true]
      exact ih h
    · have hx2 : x ∉ s₂ := fun c => hx ((h x).mpr c)
      simp only [hx, hx2, if_false]
      congr 1
      apply ih
      intro y
      simp only [List.mem_cons, h y]

theorem firstOcc_append (seen xs ys : List Nat) :
    firstOcc seen (xs ++ ys) = firstOcc seen xs ++ firstOcc (firstOcc seen xs ++ seen) ys := by
  induction xs generalizing seen with
  | nil => simp [firstOcc]
  | cons x xs ih =>
    by_cases hx : x ∈ seen
    · simp only [List.cons_append, firstOcc, hx, if_true]
      exact ih _
    · simp only [List.cons_append, firstOcc, hx, if_false]
      rw [ih]
      congr 2
      apply firstOcc_congr
      intro y
      simp only [List.mem_append, List.mem_cons]
      constructor
      · rintro (a | a | a)
        · exact Or.inr (Or.inl a)
        · exact Or.inl a
        · exact Or.inr (Or.inr a)
      · rintro (a | a | a)
        · exact Or.inr (Or.inl a)
        · exact Or.inl a
        · exact Or.inr (Or.inr a)

theorem firstOcc_of_nodup_disjoint {seen xs : List Nat} (hn : xs.Nodup) (hd : ∀ y ∈ xs, y ∉ seen) :
    firstOcc seen xs = xs := by
  induction xs generalizing seen with
  | nil => rfl
  | cons x xs ih =>
    unfold firstOcc
    have hx : x ∉ seen := hd x List.mem_cons_self
    simp only [hx, if_false]
    congr 1
    have hn' := List.nodup_cons.mp hn
    apply ih hn'.2
    intro y hy hmem
    rcases List.mem_cons.mp hmem with rfl | h
    · exact hn'.1 hy
    · exact hd y (List.mem_cons_of_mem _ hy) h

namespace Coll

/-- The representation invariant of a collection. -/
structure Inv (c : Coll) : Prop where
  nodup : c.items.Nodup
  uids_nodup : c.uids.Nodup
  same : ∀ x, x ∈ c.uids ↔ x ∈ c.items

theorem inv_empty : Inv empty := ⟨List.nodup_nil, List.nodup_nil, by simp [empty]⟩

theorem hasTag_iff {c : Coll} (h : Inv c) (x : Nat) : c.hasTag x = true ↔ x ∈ c.items := by
  simp [hasTag, h.same]

theorem append_inv {c : Coll} (h : Inv c) {x : Nat} (hx : x ∉ c.items) : Inv (c.append x) := by
  have hu : x ∉ c.uids := fun a => hx ((h.same x).mp a)
  have hc : c.uids.contains x = false := by simpa using hu
  refine ⟨?_, ?_, ?_⟩
  · simp only [append]
    exact List.nodup_append.mpr ⟨h.nodup, by simp, by
      intro a ha b hb
      simp at hb
      subst hb
      intro e; subst e; exact hx ha⟩
  · simp only [append, hc]
    exact List.nodup_append.mpr ⟨h.uids_nodup, by simp, by
      intro a ha b hb
      simp at hb
      subst hb
      intro e; subst e; exact hu ha⟩
  · intro y
    simp only [append, hc]
    simp [List.mem_append, h.same]

theorem iadd_spec {c : Coll} (h : Inv c) (xs : List Nat) :
    Inv (c.iadd xs) ∧ (c.iadd xs).items = c.items ++ firstOcc c.items xs := by
  induction xs generalizing c with
  | nil => simp [iadd, firstOcc, h]
  | cons x xs ih =>
    simp only [iadd, List.foldl_cons]
    by_cases hx : x ∈ c.items
    · have : c.hasTag x = true := (hasTag_iff h x).mpr hx
      simp only [this, if_true]
      have := ih h
      simp only [iadd] at this
      refine ⟨this.1, ?_⟩
      rw [this.2]
      simp [firstOcc, hx]
    · have hf : c.hasTag x = false := by
        cases hc : c.hasTag x
        · rfl
        · exact absurd ((hasTag_iff h x).mp hc) hx
      simp only [hf, Bool.false_eq_true, if_false]
      have h' := append_inv h hx
      have := ih h'
      simp only [iadd] at this
      refine ⟨this.1, ?_⟩
      rw [this.2]
      simp only [append, firstOcc, hx, if_false, List.append_assoc, List.cons_append, List.nil_append]
      congr 2
      apply firstOcc_congr
      intro y
      simp only [List.mem_append, List.mem_cons, List.mem_singleton, List.mem_nil_iff, or_false]
      exact Or.comm

theorem ofList_spec (xs : List Nat) : Inv (ofList xs) ∧ (ofList xs).items = firstOcc [] xs := by
  have := iadd_spec inv_empty xs
  simpa [ofList, empty] using this

theorem ofList_of_nodup {xs : List Nat} (h : xs.Nodup) : (ofList xs).items = xs := by
  rw [(ofList_spec xs).2]
  exact firstOcc_of_nodup_disjoint h (by simp)

theorem remove_spec {c : Coll} (h : Inv c) {x : Nat} (hx : x ∈ c.items) :
    ∃ r, c.remove x = some r ∧ Inv r ∧ r.items = c.items.filter (· ≠ x) := by
  have hu : x ∈ c.uids := (h.same x).mpr hx
  refine ⟨⟨c.items.erase x, c.uids.erase x⟩, ?_, ?_, ?_⟩
  · simp [remove, hx, hu]
  · refine ⟨h.nodup.erase _, h.uids_nodup.erase _, ?_⟩
    intro y
    simp only [h.nodup.mem_erase_iff, h.uids_nodup.mem_erase_iff, h.same]
  · simp only
    rw [h.nodup.erase_eq_filter]
    apply List.filter_congr
    intro y _
    by_cases e : y = x <;> simp [e]

theorem isub_spec {c : Coll} (h : Inv c) (xs : List Nat) :
    ∃ r, c.isub xs = some r ∧ Inv r ∧ r.items = c.items.filter (fun y => !xs.contains y) := by
  induction xs generalizing c with
  | nil => exact ⟨c, by simp [isub], h, (List.filter_eq_self.mpr (by simp)).symm⟩
  | cons x xs ih =>
    by_cases hx : x ∈ c.items
    · have ht : c.hasTag x = true := (hasTag_iff h x).mpr hx
      obtain ⟨r, hr, hinv, hitems⟩ := remove_spec h hx
      obtain ⟨r', hr', hinv', hitems'⟩ := ih hinv
      refine ⟨r', ?_, hinv', ?_⟩
      · simp [isub, ht, hr, hr']
      · rw [hitems', hitems, List.filter_filter]
        apply List.filter_congr
        intro y _
        by_cases e : y = x <;> simp [e, Bool.and_comm]
    · have hf : c.hasTag x = false := by
        cases hc : c.hasTag x
        · rfl
        · exact absurd ((hasTag_iff h x).mp hc) hx
      obtain ⟨r', hr', hinv', hitems'⟩ := ih h
      refine ⟨r', ?_, hinv', ?_⟩
      · simp [isub, hf, hr']
      · rw [hitems']
        apply List.filter_congr
        intro y hy
        have : y ≠ x := fun e => hx (e ▸ hy)
        simp [this]

end Coll

/-! ### containment -/
namespace UTree
mutual
theorem containsUid_iff (t : UTree) (y : Nat) : t.containsUid y = true ↔ y ∈ t.selfAndDesc := by
  cases t with
  | node u ks =>
    simp only [containsUid, selfAndDesc, uid, descList, Bool.or_eq_true, beq_iff_eq, List.mem_cons]
    rw [containsUidL_iff ks y]
    constructor
    · rintro (a | a)
      · exact Or.inl a.symm
      · exact Or.inr a
    · rintro (a | a)
      · exact Or.inl a.symm
      · exact Or.inr a
theorem containsUidL_iff (ts : List UTree) (y : Nat) : containsUidL ts y = true ↔ y ∈ descListL ts := by
  cases ts with
  | nil => simp [containsUidL, descListL]
  | cons t ts =>
    simp only [containsUidL, descListL, Bool.or_eq_true, List.mem_append]
    rw [containsUid_iff t y, containsUidL_iff ts y]
    simp [selfAndDesc]
end
end UTree

end AHP
