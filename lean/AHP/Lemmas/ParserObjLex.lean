/-
  Concrete tokenizers for the parser object, and counter-models: the statements of `Lemmas/ParserObj.lean` FAIL
  for variants of `parseStr` without (part of) the reset.
-/
import AHP.Lemmas.ParserObj
import AHP.Model.Lexer
namespace AHP.PObj
open AHP

/-- the strict lexer as a tokenizer without memory (outside its sub-language it delivers nothing) -/
def lexTok : Tokenizer Unit := ⟨(), fun _ s => ((lexStrict s).getD [], ()), fun _ _ _ => ()⟩

/-- a tokenizer WITH memory, after `HTMLParser.goahead` without `close()`: a `<` at the very end of the text is not
    tokenized but kept in `rawdata` for the next `feed` -/
def bufTok : Tokenizer Str :=
  ⟨[], fun buf s =>
        let all := buf ++ s
        if all.getLast? = some '<' then ((lexStrict all.dropLast).getD [], ['<']) else ((lexStrict all).getD [], []),
   fun buf s _ => buf ++ s⟩

def noBytes : Unit → Unit → Option Str := fun _ _ => none

/-- name of the document's root element -/
def rootName {τ ε : Type} (r : ParserObj τ ε × Option Raised) : Option Str :=
  match r.1.core.doc.root with
  | some (.elem n _ _ _) => some n
  | _ => none

/-- names in the index -/
def logNames {τ ε : Type} (r : ParserObj τ ε × Option Raised) : List Str := r.1.core.log.map (·.1)

/-! #### (a) no reset at all: the second document lands inside what the first left open -/

def hist2 (T : Tokenizer Unit) (a b : Str) (indexed : Bool) : ParserObj Unit Unit × Option Raised :=
  parseOnNoReset T noBytes (parseOnNoReset T noBytes (ParserObj.fresh T () indexed) (.str a)).1 (.str b)

theorem noReset_counter :
    rootName (hist2 lexTok "<a >".toList "<b ></b>".toList false) = some "a".toList ∧
    rootName (parseOn lexTok noBytes (ParserObj.fresh lexTok () false) (.str "<b ></b>".toList)) = some "b".toList := by
  decide

/-- with the reset the same history gives the second document alone (instance of `reuse_object`) -/
theorem withReset_instance :
    rootName (parseHist lexTok noBytes (ParserObj.fresh lexTok () false, none)
      [.str "<a >".toList, .str "<b ></b>".toList]) = some "b".toList := by
  decide

/-! #### (b) the indexed class with the plain class's `_reset` (the library before `c1d2cb2`): stale index entries -/

def parseOnPlainReset {τ ε β : Type} (T : Tokenizer τ) (o : ParserObj τ ε) : Input β → ParserObj τ ε × Option Raised
  | .str s => feedObj T (o.resetPlainOnly T) s
  | .bytes _ => (o.resetPlainOnly T, some .decode)

theorem plainReset_counter :
    logNames (parseOnPlainReset (β := Unit) lexTok
        (parseOnPlainReset (β := Unit) lexTok (ParserObj.fresh lexTok () true) (.str "<a ></a>".toList)).1
        (.str "<b ></b>".toList)) = ["a".toList, "b".toList] ∧
    logNames (parseHist lexTok noBytes (ParserObj.fresh lexTok () true, none)
        [.str "<a ></a>".toList, .str "<b ></b>".toList]) = ["b".toList] := by
  decide

/-! #### (c) `_reset` without `HTMLParser.reset`: what the tokenizer kept from the first text joins the second -/

def parseOnNoTkReset {τ ε β : Type} (T : Tokenizer τ) (o : ParserObj τ ε) : Input β → ParserObj τ ε × Option Raised
  | .str s => feedObj T o.resetNoTokenizer s
  | .bytes _ => (o.resetNoTokenizer, some .decode)

theorem noTokenizerReset_counter :
    rootName (parseOnNoTkReset (β := Unit) bufTok
        (parseOnNoTkReset (β := Unit) bufTok (ParserObj.fresh bufTok () false) (.str "<a ></a><".toList)).1
        (.str "b ></b>".toList)) = some "b".toList ∧
    rootName (parseHist bufTok noBytes (ParserObj.fresh bufTok () false, none)
        [.str "<a ></a><".toList, .str "b ></b>".toList]) = some wrapperName := by
  decide

end AHP.PObj
