/-
  Helper lemmas for C02 / C03 / C13: the open-element stack machine (AHP.Model.Builder) against the
  recursive-descent specification (AHP.Spec.Build).
-/
import AHP.Model.Builder
import AHP.Spec.Build
namespace AHP
open Spec

/-! ### table facts tying the specification's constants to the generated ones -/

theorem void_tables_agree :
    (Spec.voidTags.all (fun x => AHP.voidTags.contains x) && AHP.voidTags.all (fun x => Spec.voidTags.contains x)) = true := by
  decide

theorem isVoid_eq (n : Str) : AHP.isVoid n = Spec.isVoid n := by
  have h := void_tables_agree
  simp only [Bool.and_eq_true, List.all_eq_true] at h
  unfold AHP.isVoid Spec.isVoid
  cases h1 : AHP.voidTags.contains n <;> cases h2 : Spec.voidTags.contains n <;> try rfl
  · have := h.1 n (by simpa using h2)
    simp_all
  · have := h.2 n (by simpa using h1)
    simp_all

theorem wrapper_not_void : AHP.isVoid wrapperName = false := by decide
theorem wrapper_lower : lower wrapperName = wrapperName := by decide

/-! ### a run is the tree run paired with the fold of the doctype handler -/

theorem run_eq (ts : List Token) : ∀ s : BState,
    run s ts = (runT s.tree ts).map (fun tr => ⟨tr, ts.foldl stepD s.doctype⟩) := by
  induction ts with
  | nil => intro s; rfl
  | cons t ts ih =>
    intro s
    simp only [run, runT, step]
    cases h : stepT s.tree t <;> simp [Outcome.map, ih]

theorem stepD_eq_spec : stepD = Spec.doctypeStep := by
  funext dt t
  cases t <;> rfl

def Outcome.fin : Outcome TState → Outcome TState
  | .ok s => .ok (finish s)
  | .multipleRoot => .multipleRoot
  | .invalidClose => .invalidClose
  | .missedClose => .missedClose
  | .invalidAttr => .invalidAttr

def names (s : TState) : List Str := s.stack.map (·.name)
def addNodes (s : TState) (is : List Node) : TState := is.foldl addNode s

/-! ### bookkeeping on `addNode`, `pop1`, `popTo` -/

@[simp] theorem names_addNode (s : TState) (c : Node) : names (addNode s c) = names s := by
  unfold addNode names; cases s.stack <;> simp
@[simp] theorem names_addNodes (s : TState) (is : List Node) : names (addNodes s is) = names s := by
  induction is generalizing s with
  | nil => rfl
  | cons i is ih => simp only [addNodes, List.foldl_cons] at ih ⊢; rw [ih]; simp
theorem len_addNode (s : TState) (c : Node) : (addNode s c).stack.length = s.stack.length := by
  unfold addNode; cases s.stack <;> simp
theorem len_addNodes (s : TState) (is : List Node) : (addNodes s is).stack.length = s.stack.length := by
  have := congrArg List.length (names_addNodes s is); simpa [names] using this
theorem addNodes_cons (s : TState) (i : Node) (is : List Node) :
    addNodes s (i :: is) = addNodes (addNode s i) is := rfl
theorem addNodes_single (s : TState) (c : Node) : addNodes s [c] = addNode s c := rfl

theorem stack_ne_of_names {s : TState} (h : s.stack ≠ []) (c : Node) : (addNode s c).stack ≠ [] := by
  intro e
  have := len_addNode s c
  rw [e] at this
  cases hs : s.stack with
  | nil => exact h hs
  | cons f fs => rw [hs] at this; simp at this

theorem afterContent_len (n : Str) (c2 : List Token) : (afterContent n c2).length ≤ c2.length := by
  unfold afterContent
  split
  · split
    · simp
    · exact Nat.le_refl _
  · exact Nat.le_refl _

/-- the rest returned by `items` is exhausted or stopped at an end tag of an open element; it never grows -/
theorem items_rest (k : Nat) : ∀ (open_ : List Str) (ts : List Token), ts.length < k →
    ((items k open_ ts).2 = [] ∨ ∃ m r2, (items k open_ ts).2 = .end_ m :: r2 ∧ m ∈ open_) ∧
    (items k open_ ts).2.length ≤ ts.length := by
  induction k with
  | zero => intro _ ts h; simp at h
  | succ k ih =>
    intro open_ ts hk
    cases ts with
    | nil => simp [items]
    | cons t ts =>
      have hk' : ts.length < k := by simp at hk; omega
      have hg : ((items k open_ ts).2 = [] ∨ ∃ m r2, (items k open_ ts).2 = .end_ m :: r2 ∧ m ∈ open_) ∧
          (items k open_ ts).2.length ≤ (t :: ts).length := by
        have := ih open_ ts hk'
        exact ⟨this.1, by simp; omega⟩
      cases t with
      | end_ n =>
        simp only [items]
        split
        · rename_i hmem
          exact ⟨Or.inr ⟨n, ts, rfl, by simpa using hmem⟩, by simp⟩
        · exact hg
      | start n a =>
        simp only [items]
        split
        · exact hg
        · have hc := ih (lower n :: open_) ts hk'
          have hlen : (afterContent (lower n) (items k (lower n :: open_) ts).2).length ≤ ts.length :=
            Nat.le_trans (afterContent_len _ _) hc.2
          have hs := ih open_ _ (Nat.lt_of_le_of_lt hlen hk')
          refine ⟨hs.1, ?_⟩
          have h2 := hs.2
          simp only [List.length_cons]
          omega
      | startend n a => simp only [items]; exact hg
      | decl d => simp only [items, textOf]; exact hg
      | unknownDecl d => simp only [items, textOf]; exact hg
      | pi d => simp only [items, textOf]; exact hg
      | comment d => simp only [items, textOf]; exact hg
      | entity d => simp only [items, textOf]; exact hg
      | charref d => simp only [items, textOf]; exact hg
      | data d =>
        simp only [items, textOf]
        split <;> exact hg

theorem finish_pop1 (s : TState) (h : s.stack ≠ []) : finish s = finish (pop1 s) := by
  obtain ⟨f, fs, hs⟩ := List.exists_cons_of_ne_nil h
  have hlen : s.stack.length = fs.length + 1 := by rw [hs]; rfl
  have hlen' : (pop1 s).stack.length = fs.length := by
    unfold pop1; rw [hs]; simp [len_addNode]
  unfold finish
  rw [hlen, hlen']
  simp only [closeAll]
  split
  · rename_i h0; rw [hs] at h0; cases h0
  · rfl

theorem popTo_skip (m : Str) (k : Nat) (s : TState) (f : Frame) (fs : List Frame)
    (hs : s.stack = f :: fs) (hne : f.name ≠ m) : popTo m (k + 1) s = popTo m k (pop1 s) := by
  simp [popTo, hs, hne]

theorem pop1_push (s : TState) (n : Str) (a : AttrState) (kids : List Node) :
    pop1 (addNodes { s with stack := ⟨n, a, []⟩ :: s.stack } kids) = addNode s (.elem n a false kids) := by
  have key : ∀ (kids : List Node) (acc : List Node),
      addNodes { s with stack := ⟨n, a, acc⟩ :: s.stack } kids
        = { s with stack := ⟨n, a, kids.reverse ++ acc⟩ :: s.stack } := by
    intro kids
    induction kids with
    | nil => intro acc; rfl
    | cons i is ih =>
      intro acc
      rw [addNodes_cons]
      have : addNode { s with stack := ⟨n, a, acc⟩ :: s.stack } i
          = { s with stack := ⟨n, a, i :: acc⟩ :: s.stack } := rfl
      rw [this, ih]; simp
  rw [key kids []]
  simp [pop1, Frame.close]

end AHP
