/-
  AHP.Lemmas.PickleIdx — "working indexes" after unpickling an `IndexedAdvancedHTMLParser`:
  if the original's index is the index of its document (`indexDoc`), then the index the copy gets through the
  pickle memo (`Index.remap`) is the index of the copy's document.
-/
import AHP.Lemmas.Pickle
namespace AHP.Pk
open AHP

/-- what `_indexTag` looks at -/
structure Info where
  oid : Nat
  plain : Str → Option Str      -- `getAttribute(k)` for a plain key
  cls : List Str
  tag : Str

def stepId (i : Info) (ix : Index) : Index :=
  if ix.ids then
    (match i.plain (str "id") with
     | some v => if v.isEmpty then ix else { ix with idMap := dset v i.oid ix.idMap }
     | .none => ix) else ix

def stepName (i : Info) (ix : Index) : Index :=
  if ix.names then
    (match i.plain (str "name") with
     | some v => if v.isEmpty then ix else { ix with nameMap := dappend v i.oid ix.nameMap }
     | .none => ix) else ix

def stepCls (i : Info) (ix : Index) : Index :=
  if ix.classes then { ix with classMap := i.cls.foldl (fun m c => dappend c i.oid m) ix.classMap } else ix

def stepTag (i : Info) (ix : Index) : Index :=
  if ix.tags then { ix with tagMap := dappend i.tag i.oid ix.tagMap } else ix

def stepAttr (i : Info) (ix : Index) : Index :=
  { ix with attrMaps := ix.attrMaps.map (fun p =>
      match i.plain p.1 with
      | some v => (p.1, dappend v i.oid p.2)
      | .none => p) }

def indexInfo (ix : Index) (i : Info) : Index := stepAttr i (stepTag i (stepCls i (stepName i (stepId i ix))))

mutual
def infos : DN → List Info
  | .text _ => []
  | .el o _ n a _ blocks _ _ _ _ => ⟨o, Attrs.getIdx a, a.cls, n⟩ :: infosL blocks
def infosL : List DN → List Info
  | [] => []
  | b :: bs => infos b ++ infosL bs
end

mutual
theorem fold_elems (t : DN) (ix : Index) : (DN.elems t).foldl indexOne ix = (infos t).foldl indexInfo ix := by
  match t with
  | .text s => simp [DN.elems, infos]
  | .el o u n a sc blocks ch tx p ow =>
    simp only [DN.elems, infos, List.foldl_cons]
    have : indexOne ix (.el o u n a sc blocks ch tx p ow) = indexInfo ix ⟨o, Attrs.getIdx a, a.cls, n⟩ := rfl
    rw [this, fold_elemsL]
theorem fold_elemsL (bs : List DN) (ix : Index) : (DN.elemsL bs).foldl indexOne ix = (infosL bs).foldl indexInfo ix := by
  match bs with
  | [] => simp [DN.elemsL, infosL]
  | b :: bs =>
    simp only [DN.elemsL, infosL, List.foldl_append]
    rw [fold_elems, fold_elemsL]
end

/-! ### `remap` commutes with one indexing step -/

section
variable (f : Nat → Nat)

def mapRefs (m : List (Str × List Nat)) : List (Str × List Nat) := m.map (fun p => (p.1, p.2.map f))

theorem dget_map {α β : Type} (g : α → β) (k : Str) (d : List (Str × α)) :
    dget k (d.map (fun p => (p.1, g p.2))) = (dget k d).map g := by
  induction d with
  | nil => rfl
  | cons q r ih =>
    obtain ⟨k2, v2⟩ := q
    simp only [List.map_cons, dget]
    split
    · rfl
    · exact ih

theorem dset_map {α β : Type} (g : α → β) (k : Str) (v : α) (d : List (Str × α)) :
    (dset k v d).map (fun p => (p.1, g p.2)) = dset k (g v) (d.map (fun p => (p.1, g p.2))) := by
  induction d with
  | nil => rfl
  | cons q r ih =>
    obtain ⟨k2, v2⟩ := q
    simp only [dset, List.map_cons]
    split
    · rfl
    · simp only [List.map_cons]; rw [ih]

theorem dappend_map (k : Str) (o : Nat) (m : List (Str × List Nat)) :
    mapRefs f (dappend k o m) = dappend k (f o) (mapRefs f m) := by
  unfold dappend mapRefs
  rw [dget_map (List.map f)]
  cases dget k m with
  | none => simp only [Option.map_none]; rw [dset_map (List.map f)]; rfl
  | some l => simp only [Option.map_some]; rw [dset_map (List.map f)]; simp

theorem foldl_dappend_map (cls : List Str) (o : Nat) (m : List (Str × List Nat)) :
    mapRefs f (cls.foldl (fun m c => dappend c o m) m) = cls.foldl (fun m c => dappend c (f o) m) (mapRefs f m) := by
  induction cls generalizing m with
  | nil => rfl
  | cons c cs ih => simp only [List.foldl_cons]; rw [ih, dappend_map]

/-- the index with every object reference sent through `f` -/
def Index.mapRefs (ix : Index) : Index :=
  { ix with idMap := ix.idMap.map (fun p => (p.1, f p.2)),
            nameMap := Pk.mapRefs f ix.nameMap, classMap := Pk.mapRefs f ix.classMap, tagMap := Pk.mapRefs f ix.tagMap,
            attrMaps := ix.attrMaps.map (fun q => (q.1, Pk.mapRefs f q.2)) }

theorem remap_eq_mapRefs (m : List (Nat × Nat)) (ix : Index) : Index.remap m ix = Index.mapRefs (remap m) ix := rfl

def withOid (i : Info) : Info := { i with oid := f i.oid }

theorem stepId_mapRefs (i : Info) (ix : Index) : Index.mapRefs f (stepId i ix) = stepId (withOid f i) (Index.mapRefs f ix) := by
  unfold stepId withOid
  cases h0 : ix.ids
  · simp [Index.mapRefs, h0]
  · cases h1 : i.plain (str "id") with
    | none => simp [Index.mapRefs, h0, h1]
    | some v =>
      by_cases h2 : v.isEmpty
      · simp [Index.mapRefs, h0, h1, h2]
      · simp [Index.mapRefs, h0, h1, h2, dset_map]

theorem stepName_mapRefs (i : Info) (ix : Index) : Index.mapRefs f (stepName i ix) = stepName (withOid f i) (Index.mapRefs f ix) := by
  unfold stepName withOid
  cases h0 : ix.names
  · simp [Index.mapRefs, h0]
  · cases h1 : i.plain (str "name") with
    | none => simp [Index.mapRefs, h0, h1]
    | some v =>
      by_cases h2 : v.isEmpty
      · simp [Index.mapRefs, h0, h1, h2]
      · simp [Index.mapRefs, h0, h1, h2, dappend_map]

theorem stepCls_mapRefs (i : Info) (ix : Index) : Index.mapRefs f (stepCls i ix) = stepCls (withOid f i) (Index.mapRefs f ix) := by
  unfold stepCls withOid
  cases h0 : ix.classes
  · simp [Index.mapRefs, h0]
  · simp [Index.mapRefs, h0, foldl_dappend_map]

theorem stepTag_mapRefs (i : Info) (ix : Index) : Index.mapRefs f (stepTag i ix) = stepTag (withOid f i) (Index.mapRefs f ix) := by
  unfold stepTag withOid
  cases h0 : ix.tags
  · simp [Index.mapRefs, h0]
  · simp [Index.mapRefs, h0, dappend_map]

theorem stepAttr_mapRefs (i : Info) (ix : Index) : Index.mapRefs f (stepAttr i ix) = stepAttr (withOid f i) (Index.mapRefs f ix) := by
  unfold stepAttr withOid
  simp only [Index.mapRefs, List.map_map, Index.mk.injEq, true_and]
  apply List.map_congr_left
  intro q _
  simp only [Function.comp]
  cases i.plain q.1 <;> simp [dappend_map]

theorem indexInfo_mapRefs (ix : Index) (i : Info) :
    Index.mapRefs f (indexInfo ix i) = indexInfo (Index.mapRefs f ix) (withOid f i) := by
  unfold indexInfo
  rw [stepAttr_mapRefs, stepTag_mapRefs, stepCls_mapRefs, stepName_mapRefs, stepId_mapRefs]

theorem fold_mapRefs (l : List Info) (ix : Index) :
    Index.mapRefs f (l.foldl indexInfo ix) = (l.map (withOid f)).foldl indexInfo (Index.mapRefs f ix) := by
  induction l generalizing ix with
  | nil => rfl
  | cons i is ih => simp only [List.foldl_cons, List.map_cons]; rw [ih, indexInfo_mapRefs]

end

/-! ### the copy's elements are the original's, renumbered -/

def renum : Nat → List Info → List Info
  | _, [] => []
  | s, i :: is => { i with oid := s } :: renum (s + 1) is

theorem renum_append (s : Nat) (l1 l2 : List Info) : renum s (l1 ++ l2) = renum s l1 ++ renum (s + l1.length) l2 := by
  induction l1 generalizing s with
  | nil => simp [renum]
  | cons i is ih =>
    simp only [List.cons_append, renum, List.length_cons]
    rw [ih]
    have : s + 1 + is.length = s + (is.length + 1) := by omega
    rw [this]

theorem dget_handle_plain (a : Attrs) (k : Str) (h1 : k ≠ sClass) (h2 : k ≠ sStyle) : dget k (Attrs.handle a).dict = dget k a.dict := by
  rw [Attrs.handle_dict, Attrs.dget_ensureStyle_ne _ _ _ h2]
  unfold Attrs.classStep
  split
  · exact dget_ddel_ne _ _ _ h1
  · exact dget_dset_ne _ _ _ _ h1

theorem getIdx_fresh (a : Attrs) : Attrs.getIdx (Attrs.fresh a) = Attrs.getIdx a := by
  funext k
  unfold Attrs.getIdx
  by_cases h1 : k = sClass
  · simp [h1]
  · by_cases h2 : k = sStyle
    · simp [h2]
    · simp only [h1, h2, decide_false, Bool.or_self, Bool.false_eq_true, if_false, Attrs.getPlain]
      have : dget k (Attrs.fresh a).dict = dget k a.dict := by
        show dget k ((Attrs.handle a).dict.filter _) = _
        rw [Attrs.dget_filter_ne _ _ _ h1, dget_handle_plain a k h1 h2]
      rw [this]

mutual
theorem length_infos (t : DN) : (infos t).length = DN.size t := by
  match t with
  | .text s => simp [infos, DN.size]
  | .el o u n a sc blocks ch tx p ow => simp only [infos, DN.size, List.length_cons]; rw [length_infosL]; omega
theorem length_infosL (bs : List DN) : (infosL bs).length = DN.sizeL bs := by
  match bs with
  | [] => simp [infosL, DN.sizeL]
  | b :: bs => simp only [infosL, DN.sizeL, List.length_append]; rw [length_infos, length_infosL]
end

mutual
theorem infos_relabel (par own : Option Nat) (t : DN) (s : Nat) : infos (relabel par own t s).1 = renum s (infos t) := by
  match t with
  | .text x => simp [relabel, infos, renum]
  | .el o u n a sc blocks ch tx p ow =>
    simp only [relabel, infos, renum]
    rw [getIdx_fresh, infosL_relabelL]
    rfl
theorem infosL_relabelL (par own : Option Nat) (bs : List DN) (s : Nat) : infosL (relabelL par own bs s).1 = renum s (infosL bs) := by
  match bs with
  | [] => simp [relabelL, infosL, renum]
  | b :: bs =>
    simp only [relabelL, infosL]
    rw [infos_relabel, infosL_relabelL, relabel_snd, renum_append, length_infos]
end

mutual
theorem infos_oids (t : DN) : (infos t).map (·.oid) = DN.oids t := by
  match t with
  | .text s => simp [infos, DN.oids]
  | .el o u n a sc blocks ch tx p ow => simp only [infos, DN.oids, List.map_cons]; rw [infosL_oids]
theorem infosL_oids (bs : List DN) : (infosL bs).map (·.oid) = DN.oidsL bs := by
  match bs with
  | [] => simp [infosL, DN.oidsL]
  | b :: bs => simp only [infosL, DN.oidsL, List.map_append]; rw [infos_oids, infosL_oids]
end

theorem renum_eq_map (f : Nat → Nat) (l : List Info) (s : Nat)
    (h : ∀ k (hk : k < l.length), f (l[k].oid) = s + k) : renum s l = l.map (withOid f) := by
  induction l generalizing s with
  | nil => rfl
  | cons i is ih =>
    simp only [renum, List.map_cons]
    have h0 := h 0 (by simp)
    simp only [List.getElem_cons_zero, Nat.add_zero] at h0
    rw [ih (s + 1) (fun k hk => by
      have := h (k + 1) (by simp; omega)
      simp only [List.getElem_cons_succ] at this
      rw [this]; omega)]
    simp [withOid, h0]

theorem lookup_zip_range'' (xs : List Nat) (s x : Nat) (h : x ∈ xs) :
    (xs.zip (List.range' s xs.length)).lookup x = some (s + xs.idxOf x) := by
  induction xs generalizing s with
  | nil => simp at h
  | cons y ys ih =>
    simp only [List.length_cons, List.range'_succ, List.zip_cons_cons, List.lookup_cons]
    by_cases e : x = y
    · subst e; simp
    · have hx : x ∈ ys := by simpa [e] using h
      have e' : (x == y) = false := by simp [e]
      have e2 : (y == x) = false := by rw [beq_eq_false_iff_ne]; exact fun h => e h.symm
      rw [e', ih (s + 1) hx]
      simp [List.idxOf_cons, e2]
      omega

/-- **working indexes**: the index of the original, carried through the pickle memo, is the index of the copy. -/
theorem remap_indexDoc (ids names classes tags : Bool) (attrNames : List Str) (r : DN) (hn : (DN.oids r).Nodup)
    (par own : Option Nat) (s : Nat) :
    Index.remap ((DN.oids r).zip (DN.oids (relabel par own r s).1)) (indexDoc ids names classes tags attrNames r) =
      indexDoc ids names classes tags attrNames (relabel par own r s).1 := by
  unfold indexDoc
  rw [fold_elems, fold_elems, remap_eq_mapRefs, fold_mapRefs, infos_relabel]
  have hO : DN.oids (relabel par own r s).1 = List.range' s (DN.oids r).length := by
    rw [oids_relabel, ← infos_oids, List.length_map, length_infos]
  have hf : ∀ k (hk : k < (infos r).length),
      remap ((DN.oids r).zip (DN.oids (relabel par own r s).1)) ((infos r)[k].oid) = s + k := by
    intro k hk
    have hk' : k < (DN.oids r).length := by rw [← infos_oids]; simpa using hk
    have e : (infos r)[k].oid = (DN.oids r)[k] := by
      have := infos_oids r
      simp only [← this, List.getElem_map]
    rw [e, hO]
    unfold remap
    rw [lookup_zip_range'' _ _ _ (List.getElem_mem hk'), hn.idxOf_getElem k hk']
  rw [← renum_eq_map _ (infos r) s hf]
  congr 1
  simp [Index.mapRefs, mapRefs]

end AHP.Pk
