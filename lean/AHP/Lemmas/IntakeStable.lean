/-
  IntakeStable, part 2 — every attribute store built by `intake` (`AdvancedTag.__init__` over ANY raw attribute
  list: class, style, spellcheck, duplicates, upper case, invalid names) is re-read exactly from its own listing:

      (intake (intake l AttrState.empty).view AttrState.empty).view = (intake l AttrState.empty).view

  Route: `Canon` — the invariant of the constructor loop (distinct, valid, lower-case keys, never `class`; the
  `style` key present exactly when the style map is non-empty; the style map a fixed point of render-then-parse;
  `spellcheck` holding a boolean string; the class list a fixed point of join-then-split).  `view_eq` — the listing
  of a canonical store in closed form.  `intake_canon_list` — the constructor loop over such a listing rebuilds
  dict, class list and style map.
-/
import AHP.Lemmas.IntakeStableStr
namespace AHP.AttrStores
open AHP

/-! ### dict facts -/

theorem dictSet_append_of_mem {β : Type} {k : Str} (v : β) : ∀ {d : List (Str × β)} (e : List (Str × β)),
    k ∈ keys d → dictSet (d ++ e) k v = dictSet d k v ++ e
  | [], _, h => by simp [keys] at h
  | (k', v') :: r, e, h => by
    by_cases hk : k' = k
    · simp [dictSet, hk]
    · have hr : k ∈ keys r := by
        simp only [keys, List.map_cons, List.mem_cons] at h
        rcases h with h | h
        · exact absurd h.symm hk
        · exact h
      simp [dictSet, hk, dictSet_append_of_mem v e hr]

/-- with distinct keys, the pair under `k` after `dictSet … k v` carries `v` -/
theorem val_of_mem_dictSet {β : Type} {k : Str} {v w : β} : ∀ {d : List (Str × β)}, (keys d).Nodup →
    (k, w) ∈ dictSet d k v → w = v
  | [], _, h => by
    simp [dictSet] at h; exact h
  | (k', v') :: r, hn, h => by
    have hn' : k' ∉ keys r ∧ (keys r).Nodup := by simpa [keys] using hn
    by_cases hk : k' = k
    · subst hk
      simp only [dictSet, if_true, List.mem_cons, Prod.mk.injEq, true_and] at h
      rcases h with h | h
      · exact h
      · exact absurd (List.mem_map_of_mem (f := (·.1)) h) hn'.1
    · simp only [dictSet, hk, if_false, List.mem_cons, Prod.mk.injEq] at h
      rcases h with h | h
      · exact absurd h.1.symm hk
      · exact val_of_mem_dictSet hn'.2 h

theorem mem_keys_of_mem {β : Type} {p : Str × β} {d : List (Str × β)} (h : p ∈ d) : p.1 ∈ keys d :=
  List.mem_map_of_mem h

/-! ### the invariant of the constructor loop -/

structure Canon (st : AttrState) : Prop where
  nodup : (keys st.d).Nodup
  names : ∀ k ∈ keys st.d, validAttrName k = true ∧ lower k = k ∧ k ≠ kClass
  styleKey : kStyle ∈ keys st.d ↔ st.style ≠ []
  styleIdem : styleToDict (styleStr st.style) = st.style
  spell : ∀ v, (kSpell, v) ∈ st.d → v = some (boolString v)
  cls : classNamesOf (some (joinWith [' '] st.classes)) = st.classes

theorem canon_empty : Canon AttrState.empty where
  nodup := by simp [AttrState.empty, keys]
  names := by simp [AttrState.empty, keys]
  styleKey := by simp [AttrState.empty, keys]
  styleIdem := by decide
  spell := by simp [AttrState.empty]
  cls := by decide

theorem isEmpty_iff_nil {α : Type} (l : List α) : l.isEmpty = true ↔ l = [] := by
  cases l <;> simp

theorem canon_set {st : AttrState} (h : Canon st) {k : Str} (hv : validAttrName k = true) (hl : lower k = k)
    (v : Option Str) : Canon (st.set k v) := by
  by_cases h1 : k = kStyle
  · subst h1
    rw [set_style]
    by_cases hm : (styleToDict (v.getD [])).isEmpty = true
    · have hm' : styleToDict (v.getD []) = [] := (isEmpty_iff_nil _).mp hm
      simp only [hm, if_true]
      exact {
        nodup := nodup_dictDel _ h.nodup
        names := fun k hk => h.names k (mem_keys_dictDel.mp hk).1
        styleKey := by
          simp only [hm']
          constructor
          · intro hk; exact absurd rfl (mem_keys_dictDel.mp hk).2
          · intro hk; exact absurd rfl hk
        styleIdem := by simp only [hm']; decide
        spell := fun w hw => h.spell w (by unfold dictDel at hw; exact (List.mem_filter.mp hw).1)
        cls := h.cls }
    · simp only [hm, if_false, Bool.false_eq_true]
      exact {
        nodup := nodup_dictSet _ _ h.nodup
        names := fun k hk => by
          rcases (mem_keys_dictSet v).mp hk with e | m
          · subst e; exact ⟨hv, hl, fun e => class_ne_style e.symm⟩
          · exact h.names k m
        styleKey := by
          constructor
          · intro _ e; simp only at e; rw [e] at hm; exact hm rfl
          · intro _; exact (mem_keys_dictSet v).mpr (Or.inl rfl)
        styleIdem := styleToDict_idem _
        spell := fun w hw => by
          rcases mem_dictSet hw with e | m
          · exact absurd (congrArg Prod.fst e) spell_ne_style
          · exact h.spell w m
        cls := h.cls }
  by_cases h2 : k = kClass
  · subst h2
    rw [set_class]
    exact { h with cls := classNamesOf_join_idem v }
  by_cases h3 : k = kSpell
  · subst h3
    rw [set_spell]
    exact {
      nodup := nodup_dictSet _ _ h.nodup
      names := fun k hk => by
        rcases (mem_keys_dictSet _).mp hk with e | m
        · subst e; exact ⟨hv, hl, h2⟩
        · exact h.names k m
      styleKey := by
        rw [← h.styleKey]
        constructor
        · intro hk
          rcases (mem_keys_dictSet _).mp hk with e | m
          · exact absurd e.symm h1
          · exact m
        · intro hk; exact (mem_keys_dictSet _).mpr (Or.inr hk)
      styleIdem := h.styleIdem
      spell := fun w hw => by
        have hn : (keys st.d).Nodup := h.nodup
        have := val_of_mem_dictSet hn hw
        rw [this, boolString_idem]
      cls := h.cls }
  · rw [set_plain st h1 h2 h3]
    exact {
      nodup := nodup_dictSet _ _ h.nodup
      names := fun k' hk => by
        rcases (mem_keys_dictSet _).mp hk with e | m
        · subst e; exact ⟨hv, hl, h2⟩
        · exact h.names k' m
      styleKey := by
        rw [← h.styleKey]
        constructor
        · intro hk
          rcases (mem_keys_dictSet _).mp hk with e | m
          · exact absurd e.symm h1
          · exact m
        · intro hk; exact (mem_keys_dictSet _).mpr (Or.inr hk)
      styleIdem := h.styleIdem
      spell := fun w hw => by
        rcases mem_dictSet hw with e | m
        · exact absurd (congrArg Prod.fst e).symm h3
        · exact h.spell w m
      cls := h.cls }

theorem canon_step {st : AttrState} (h : Canon st) (p : Attr) : Canon (intakeStep st p) := by
  unfold intakeStep
  split
  · next hv => exact canon_set h hv (Attrs.lower_idem _) _
  · exact h

theorem canon_intake : ∀ (l : List Attr) {st : AttrState}, Canon st → Canon (intake l st)
  | [], _, h => h
  | p :: r, _, h => by rw [intake_cons]; exact canon_intake r (canon_step h p)

/-! ### the listing of a canonical store, in closed form -/

/-- the dict with the style object shown as its text -/
def dS (st : AttrState) : List Attr :=
  if st.style.isEmpty then st.d else dictSet st.d kStyle (some (styleStr st.style))

/-- the `class` entry `_handleClassAttr` writes, last -/
def cP (st : AttrState) : List Attr :=
  if st.classes.isEmpty then [] else [(kClass, some (joinWith [' '] st.classes))]

theorem class_not_key {st : AttrState} (h : Canon st) : kClass ∉ keys st.d :=
  fun m => (h.names _ m).2.2 rfl

theorem style_not_key {st : AttrState} (h : Canon st) (hs : st.style.isEmpty = true) : kStyle ∉ keys st.d :=
  fun m => (h.styleKey.mp m) ((isEmpty_iff_nil _).mp hs)

theorem style_key {st : AttrState} (h : Canon st) (hs : ¬ st.style.isEmpty = true) : kStyle ∈ keys st.d :=
  h.styleKey.mpr (fun e => hs ((isEmpty_iff_nil _).mpr e))

theorem view_eq {st : AttrState} (h : Canon st) : st.view = dS st ++ cP st := by
  unfold AttrState.view dS cP
  simp only [tok_style, tok_class]
  have hc := class_not_key h
  by_cases hcl : st.classes.isEmpty = true <;> by_cases hs : st.style.isEmpty = true <;>
    simp only [hcl, hs, if_true, if_false, Bool.false_eq_true, List.append_nil]
  · rw [dictDel_of_not_mem hc, dictDel_of_not_mem (style_not_key h hs)]
  · rw [dictDel_of_not_mem hc]
  · rw [dictSet_of_not_mem _ hc]
    apply dictDel_of_not_mem
    intro m
    simp only [keys, List.map_append, List.mem_append, List.map_cons, List.map_nil, List.mem_singleton] at m
    rcases m with m | m
    · exact style_not_key h hs m
    · exact class_ne_style m.symm
  · rw [dictSet_of_not_mem _ hc]
    exact dictSet_append_of_mem _ _ (style_key h hs)

/-! ### the constructor loop over a canonical listing -/

theorem intake_append (xs ys : List Attr) (st : AttrState) : intake (xs ++ ys) st = intake ys (intake xs st) := by
  rw [intake_eq_foldl, intake_eq_foldl, intake_eq_foldl, List.foldl_append]

/-- what the loop needs of one listed pair: a valid lower-case name other than `class`; under `spellcheck` a
    boolean string; under `style` the rendering of a non-empty style map that is a fixed point -/
def ItemOK (m : List (Str × Str)) (p : Attr) : Prop :=
  validAttrName p.1 = true ∧ lower p.1 = p.1 ∧ p.1 ≠ kClass ∧
  (p.1 = kSpell → p.2 = some (boolString p.2)) ∧
  (p.1 = kStyle → p.2 = some (styleStr m) ∧ styleToDict (styleStr m) = m ∧ m ≠ [])

theorem intake_canon_list (m : List (Str × Str)) : ∀ (xs acc : List Attr) (cl : List Str) (sty : List (Str × Str)),
    (∀ p ∈ xs, ItemOK m p) → (keys xs).Nodup → (∀ k ∈ keys xs, k ∉ keys acc) →
    intake xs ⟨acc, cl, sty⟩ = ⟨acc ++ xs, cl, if kStyle ∈ keys xs then m else sty⟩
  | [], acc, cl, sty, _, _, _ => by simp [intake, keys]
  | (k, v) :: xs, acc, cl, sty, hok, hn, hd => by
    obtain ⟨hv, hl, hcl, hsp, hst⟩ := hok (k, v) (by simp)
    simp only at hv hl hcl hsp hst
    have hn' : k ∉ keys xs ∧ (keys xs).Nodup := by simpa [keys] using hn
    have hfresh : k ∉ keys acc := hd k (by simp [keys])
    have hok' : ∀ p ∈ xs, ItemOK m p := fun p hp => hok p (List.mem_cons_of_mem _ hp)
    have hd' : ∀ (e : Attr), e.1 = k → ∀ k' ∈ keys xs, k' ∉ keys (acc ++ [e]) := by
      intro e he k' hk' hm
      simp only [keys, List.map_append, List.mem_append, List.map_cons, List.map_nil, List.mem_singleton] at hm
      rcases hm with hm | hm
      · exact hd k' (by simp only [keys, List.map_cons, List.mem_cons]; exact Or.inr hk') hm
      · rw [he] at hm; rw [hm] at hk'; exact hn'.1 hk'
    rw [intake_cons]
    have hstep : intakeStep ⟨acc, cl, sty⟩ (k, v) = (⟨acc, cl, sty⟩ : AttrState).set k v := by
      simp only [intakeStep, hl, hv, if_true]
    rw [hstep]
    by_cases h1 : k = kStyle
    · subst h1
      obtain ⟨hval, hidem, hne⟩ := hst rfl
      have hmne : ¬ (styleToDict ((some (styleStr m)).getD [])).isEmpty = true := by
        simp only [Option.getD_some, hidem]
        intro e; exact hne ((isEmpty_iff_nil _).mp e)
      rw [hval, set_style]
      simp only [hmne, if_false, Bool.false_eq_true]
      rw [dictSet_of_not_mem _ hfresh]
      simp only [Option.getD_some, hidem]
      rw [intake_canon_list m xs _ cl m hok' hn'.2 (hd' (kStyle, some (styleStr m)) rfl)]
      have hin : kStyle ∈ keys ((kStyle, some (styleStr m)) :: xs) := by simp [keys]
      simp only [hn'.1, if_false, hin, if_true, List.append_assoc, List.singleton_append]
    by_cases h3 : k = kSpell
    · subst h3
      have hval := hsp rfl
      rw [set_spell, ← hval]
      simp only
      rw [dictSet_of_not_mem _ hfresh]
      rw [intake_canon_list m xs _ cl sty hok' hn'.2 (hd' (kSpell, v) rfl)]
      have hiff : (kStyle ∈ keys ((kSpell, v) :: xs)) ↔ (kStyle ∈ keys xs) := by
        simp only [keys, List.map_cons, List.mem_cons]
        constructor
        · rintro (e | m')
          · exact absurd e.symm spell_ne_style
          · exact m'
        · intro m'; exact Or.inr m'
      simp only [hiff, List.append_assoc, List.singleton_append]
    · rw [set_plain _ h1 hcl h3]
      simp only
      rw [dictSet_of_not_mem _ hfresh]
      rw [intake_canon_list m xs _ cl sty hok' hn'.2 (hd' (k, v) rfl)]
      have hiff : (kStyle ∈ keys ((k, v) :: xs)) ↔ (kStyle ∈ keys xs) := by
        simp only [keys, List.map_cons, List.mem_cons]
        constructor
        · rintro (e | m')
          · exact absurd e.symm h1
          · exact m'
        · intro m'; exact Or.inr m'
      simp only [hiff, List.append_assoc, List.singleton_append]

theorem keys_dS {st : AttrState} (h : Canon st) (k : Str) : k ∈ keys (dS st) ↔ k ∈ keys st.d := by
  unfold dS
  by_cases hs : st.style.isEmpty = true
  · simp only [hs, if_true]
  · simp only [hs, if_false, Bool.false_eq_true]
    rw [mem_keys_dictSet]
    constructor
    · rintro (e | m)
      · rw [e]; exact style_key h hs
      · exact m
    · intro m; exact Or.inr m

theorem nodup_dS {st : AttrState} (h : Canon st) : (keys (dS st)).Nodup := by
  unfold dS
  split
  · exact h.nodup
  · exact nodup_dictSet _ _ h.nodup

theorem itemOK_dS {st : AttrState} (h : Canon st) : ∀ p ∈ dS st, ItemOK st.style p := by
  intro p hp
  have hk : p.1 ∈ keys st.d := (keys_dS h p.1).mp (mem_keys_of_mem hp)
  obtain ⟨hv, hl, hc⟩ := h.names p.1 hk
  refine ⟨hv, hl, hc, ?_, ?_⟩
  · intro e
    obtain ⟨k, v⟩ := p
    simp only at e
    subst e
    apply h.spell
    unfold dS at hp
    by_cases hs : st.style.isEmpty = true
    · simpa only [hs, if_true] using hp
    · simp only [hs, if_false, Bool.false_eq_true] at hp
      rcases mem_dictSet hp with e | m
      · exact absurd (congrArg Prod.fst e) spell_ne_style
      · exact m
  · intro e
    obtain ⟨k, v⟩ := p
    simp only at e
    subst e
    have hs : ¬ st.style.isEmpty = true := fun hs => style_not_key h hs hk
    unfold dS at hp
    simp only [hs, if_false, Bool.false_eq_true] at hp
    refine ⟨val_of_mem_dictSet h.nodup hp, h.styleIdem, fun e => hs ((isEmpty_iff_nil _).mpr e)⟩

/-- the store a parse of the listing builds: the dict with the style text in place, the same class list, the
    same style map -/
theorem intake_view {st : AttrState} (h : Canon st) :
    intake st.view AttrState.empty = ⟨dS st, st.classes, st.style⟩ := by
  rw [view_eq h, intake_append]
  have h1 := intake_canon_list st.style (dS st) [] [] [] (itemOK_dS h) (nodup_dS h) (by simp [keys])
  simp only [List.nil_append] at h1
  rw [show AttrState.empty = (⟨[], [], []⟩ : AttrState) from rfl, h1]
  have hsty : (if kStyle ∈ keys (dS st) then st.style else []) = st.style := by
    by_cases hs : st.style.isEmpty = true
    · have : st.style = [] := (isEmpty_iff_nil _).mp hs
      rw [this]; simp
    · have : kStyle ∈ keys (dS st) := (keys_dS h kStyle).mpr (style_key h hs)
      simp only [this, if_true]
  rw [hsty]
  unfold cP
  by_cases hcl : st.classes.isEmpty = true
  · have : st.classes = [] := (isEmpty_iff_nil _).mp hcl
    simp only [hcl, if_true, intake]
    rw [this]
  · simp only [hcl, if_false, Bool.false_eq_true]
    have hvc : validAttrName kClass = true := by decide
    have hlc : lower kClass = kClass := by decide
    rw [intake_cons]
    simp only [intakeStep, hlc, hvc, if_true, set_class, intake, h.cls]

end AHP.AttrStores

namespace AHP
open AHP.AttrStores

/-- **Every `intake` image is view-stable.** For EVERY raw attribute list `l` — `class`, `style`, `spellcheck`,
    duplicate names, upper-case names, invalid names included — the store `AdvancedTag.__init__` builds from it lists
    the same name/value pairs, in the same order, after being rebuilt from its own listing. -/
theorem intake_view_stable (l : List Attr) :
    (intake (intake l AttrState.empty).view AttrState.empty).view = (intake l AttrState.empty).view := by
  have h : Canon (intake l AttrState.empty) := canon_intake l canon_empty
  have h2 : Canon (intake (intake l AttrState.empty).view AttrState.empty) := canon_intake _ canon_empty
  generalize intake l AttrState.empty = st at h h2 ⊢
  rw [view_eq h2, intake_view h, view_eq h]
  unfold dS cP
  simp only
  by_cases hs : st.style.isEmpty = true
  · simp only [hs, if_true]
  · simp only [hs, if_false, Bool.false_eq_true, dictSet_idem]

/-- the same for a store re-read any number of times: the listing is a fixed point from the first build on -/
theorem intake_view_canon (l : List Attr) : AttrStores.Canon (intake l AttrState.empty) :=
  canon_intake l canon_empty

end AHP
