/-
  AttrStores, part 1 — the string-level helpers of the four attribute-store models are the same functions.

  (1) `AHP` (Model/Token.lean)      (2) `AHP.Attrs` (Model/Attrs.lean)
  (3) `AHP.Pk` (Model/Pickle.lean)  (4) `AHP.Fmt` (Model/Format.lean)

  Models (1)–(3) use `strip` of Model/Basic.lean, model (4) its own `pyStrip`.  Both remove exactly the characters of
  `str.isspace()` (`isWs`, ASCII and non-ASCII), so they are one function (`pyStrip_eq`).  (Until `isWs` was repaired
  it was the ASCII part only, and the two differed on `class="\xa0a"`; the library agreed with model (4).)
-/
import AHP.Model.Tree
import AHP.Model.Attrs
import AHP.Model.Pickle
import AHP.Model.Format
import AHP.Lemmas.AttrsStr
namespace AHP.AttrStores
open AHP

/-! ### attribute names -/

theorem validName_attrs (n : Str) : Attrs.validName n = validAttrName n := by
  cases n <;> rfl

theorem validName_pk (n : Str) : Pk.validAttrName n = validAttrName n := by
  cases n <;> rfl

theorem validName_fmt (n : Str) : Fmt.validAttrName n = validAttrName n := by
  cases n <;> rfl

/-! ### `WORDS_ONLY_RE.sub(' ', …)` -/

theorem collapse_nil : collapseSpaces [] = [] := by
  unfold collapseSpaces; rfl

theorem collapse_space_space (r : Str) : collapseSpaces (' ' :: ' ' :: r) = collapseSpaces (' ' :: r) := by
  conv => lhs; unfold collapseSpaces
  split
  · rename_i heq; cases heq
  · rename_i heq; cases heq; rfl
  · rename_i hx heq; cases heq; exact absurd rfl (hx r rfl)

theorem collapse_cons_ne {c : Char} (h : c ≠ ' ') (r : Str) : collapseSpaces (c :: r) = c :: collapseSpaces r := by
  conv => lhs; unfold collapseSpaces
  split
  · rename_i heq; cases heq
  · rename_i heq; cases heq; exact absurd rfl h
  · rename_i heq; cases heq; rfl

theorem collapse_space_ne {d : Char} (h : d ≠ ' ') (r : Str) :
    collapseSpaces (' ' :: d :: r) = ' ' :: collapseSpaces (d :: r) := by
  conv => lhs; unfold collapseSpaces
  split
  · rename_i heq; cases heq
  · rename_i heq; cases heq; exact absurd rfl h
  · rename_i heq; cases heq; rfl

theorem collapse_space_nil : collapseSpaces [' '] = [' '] := by
  conv => lhs; unfold collapseSpaces
  split
  · rename_i heq; cases heq
  · rename_i heq; cases heq
  · rename_i heq; cases heq; rw [collapse_nil]

/-- (1) = (2): the two-character look-ahead and the "previous was a space" flag describe the same function. -/
theorem collapse_attrs_aux : ∀ s : Str,
    collapseSpaces s = Attrs.collapseAux false s ∧ collapseSpaces (' ' :: s) = ' ' :: Attrs.collapseAux true s
  | [] => ⟨by rw [collapse_nil]; rfl, by rw [collapse_space_nil]; rfl⟩
  | c :: r => by
    have ih := collapse_attrs_aux r
    by_cases hc : c = ' '
    · subst hc
      refine ⟨?_, ?_⟩
      · rw [ih.2]; simp [Attrs.collapseAux]
      · rw [collapse_space_space, ih.2]; simp [Attrs.collapseAux]
    · refine ⟨?_, ?_⟩
      · rw [collapse_cons_ne hc, ih.1]; simp [Attrs.collapseAux, hc]
      · rw [collapse_space_ne hc, collapse_cons_ne hc, ih.1]; simp [Attrs.collapseAux, hc]

theorem collapse_attrs (s : Str) : Attrs.collapseSpaces s = collapseSpaces s :=
  ((collapse_attrs_aux s).1).symm

/-- (4) = (2): literally the same recursion. -/
theorem collapse_fmt_aux : ∀ (b : Bool) (s : Str), Fmt.collapseSpaces b s = Attrs.collapseAux b s
  | _, [] => by simp [Fmt.collapseSpaces, Attrs.collapseAux]
  | b, c :: r => by
    simp [Fmt.collapseSpaces, Attrs.collapseAux, collapse_fmt_aux true r, collapse_fmt_aux false r]

theorem collapse_fmt (s : Str) : Fmt.collapseSpaces false s = collapseSpaces s := by
  rw [collapse_fmt_aux]; exact collapse_attrs s

/-- (3) = (1): look-ahead written with a nested match. -/
theorem collapse_pk : ∀ s : Str, Pk.collapseSp s = collapseSpaces s
  | [] => by rw [collapse_nil]; rfl
  | [c] => by
    by_cases hc : c = ' '
    · subst hc; rw [collapse_space_nil]; simp [Pk.collapseSp]
    · rw [collapse_cons_ne hc, collapse_nil]; simp [Pk.collapseSp, hc]
  | c :: d :: r => by
    have ih := collapse_pk (d :: r)
    by_cases hc : c = ' '
    · subst hc
      by_cases hd : d = ' '
      · subst hd; rw [collapse_space_space, ← ih]; simp [Pk.collapseSp]
      · rw [collapse_space_ne hd, ← ih]; simp [Pk.collapseSp, hd]
    · rw [collapse_cons_ne hc, ← ih]
      conv => lhs; unfold Pk.collapseSp
      simp [hc]

theorem stripWordsOnly_attrs (s : Str) : Attrs.stripWordsOnly s = stripWordsOnly s := by
  unfold Attrs.stripWordsOnly stripWordsOnly; exact collapse_attrs _

theorem stripWordsOnly_pk (s : Str) : Pk.stripWordsOnly s = stripWordsOnly s := by
  unfold Pk.stripWordsOnly stripWordsOnly; exact collapse_pk _

/-! ### class names -/

theorem filter_nonempty (l : List Str) :
    l.filter (fun w => decide (w ≠ [])) = l.filter (fun w => !w.isEmpty) := by
  congr 1; funext w; cases w <;> simp

theorem words_attrs (s : Str) : Attrs.words s = classNamesOf (some s) := by
  unfold Attrs.words classNamesOf splitWords
  rw [stripWordsOnly_attrs, filter_nonempty]

theorem classTokens_pk (s : Str) : Pk.classTokens s = classNamesOf (some s) := by
  unfold Pk.classTokens classNamesOf splitWords
  rw [stripWordsOnly_pk]

theorem classNamesOf_none : classNamesOf none = classNamesOf (some []) := rfl

theorem classNamesOf_getD (v : Option Str) : classNamesOf (some (v.getD [])) = classNamesOf v := by
  cases v <;> rfl

/-! ### `strip` and `pyStrip` are one function -/

/-- the formatter model's white space is the shared predicate: all of `str.isspace()` -/
theorem pyWs_eq (c : Char) : Fmt.pyWs c = isWs c := rfl

theorem pyWs_eq_isWs : Fmt.pyWs = isWs := funext pyWs_eq

theorem dropWhile_congr {p q : Char → Bool} : ∀ {s : Str}, (∀ c ∈ s, p c = q c) → s.dropWhile p = s.dropWhile q
  | [], _ => rfl
  | c :: r, h => by
    have hc : p c = q c := h c (List.mem_cons_self ..)
    have hr : r.dropWhile p = r.dropWhile q := dropWhile_congr (fun x hx => h x (List.mem_cons_of_mem _ hx))
    simp [List.dropWhile_cons, hc, hr]

theorem pyLstrip_eq (s : Str) : Fmt.pyLstrip s = lstrip s := by
  unfold Fmt.pyLstrip lstrip; rw [pyWs_eq_isWs]

theorem pyRstrip_eq (s : Str) : Fmt.pyRstrip s = rstrip s := by
  unfold Fmt.pyRstrip Fmt.rdropWhile rstrip; rw [pyWs_eq_isWs]

theorem pyStrip_eq (s : Str) : Fmt.pyStrip s = strip s := by
  unfold Fmt.pyStrip strip
  rw [pyLstrip_eq, pyRstrip_eq]

theorem classNames_fmt (s : Str) : Fmt.classNames s = classNamesOf (some s) := by
  unfold Fmt.classNames classNamesOf splitWords stripWordsOnly
  rw [pyStrip_eq, collapse_fmt]

/-! ### boolean strings, quote escaping -/

theorem boolString_attrs (v : Option Str) : Attrs.boolString v = boolString v := by
  cases v with
  | none => rfl
  | some s =>
    simp only [Attrs.boolString, boolString, Attrs.strFalse, Attrs.strTrue]
    by_cases h1 : lower s = ['f', 'a', 'l', 's', 'e'] <;> by_cases h2 : lower s = ['0'] <;> simp [h1, h2]

theorem boolString_pk (v : Option Str) : Pk.convBoolStr v = boolString v := by
  cases v <;> rfl

theorem boolString_fmt (v : Option Str) : Fmt.boolString v = boolString v := by
  cases v <;> rfl

theorem escQ_attrs : ∀ s : Str, Attrs.escQ s = escQ s
  | [] => rfl
  | c :: r => by
    have ih := escQ_attrs r
    unfold Attrs.escQ at ih ⊢
    by_cases hc : c = '"' <;> simp [Attrs.replaceQuote, escQ, hc, ih]

theorem escQ_pk : ∀ s : Str, Pk.escQ s = escQ s
  | [] => rfl
  | c :: r => by
    have ih := escQ_pk r
    by_cases hc : c = '"' <;> simp [Pk.escQ, escQ, hc, ih, str]

theorem escQ_fmt : ∀ s : Str, Fmt.escapeQuotes s = escQ s
  | [] => rfl
  | c :: r => by
    have ih := escQ_fmt r
    simp only [Fmt.escapeQuotes] at ih ⊢
    rw [List.flatMap_cons, ih]
    by_cases hc : c = '"' <;> simp [escQ, hc, str]

end AHP.AttrStores
