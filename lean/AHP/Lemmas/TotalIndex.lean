/-
  C03 — the indexed parser: indexing at creation never fails (no KeyError out of `_indexTag` in any reachable
  index configuration), so its handlers succeed or raise MultipleRootNodeException exactly when the plain
  parser's do, with the same tree; the object stays well formed (`Good`) whatever a pass leaves behind.
-/
import AHP.Lemmas.IndexInv
import AHP.Lemmas.TotalObject
import AHP.Lemmas.TotalIndexModel
namespace AHP.G3
open AHP Idx

namespace Idx

theorem indexOtherE_eq (o : List (Str × List (Str × List Nat))) (a : Str) (e : Elem)
    (h : (o.lookup a).isSome = true) : indexOtherE o a e = some (indexOther o a e) := by
  unfold indexOtherE indexOther
  cases e.attr a with
  | none => rfl
  | some v =>
    cases hm : o.lookup a with
    | none => rw [hm] at h; cases h
    | some m => rfl

theorem indexOther_keys (o : List (Str × List (Str × List Nat))) (a b : Str) (e : Elem) :
    ((indexOther o a e).lookup b).isSome = (o.lookup b).isSome :=
  indexOther_fold_keys e b [a] o

theorem indexOthersLE_eq (e : Elem) : ∀ (fns : List Str) (o : List (Str × List (Str × List Nat))),
    (∀ a ∈ fns, (o.lookup a).isSome = true) →
    indexOthersLE e fns o = some (fns.foldl (fun o a => indexOther o a e) o)
  | [], _, _ => rfl
  | a :: fns, o, h => by
    simp only [indexOthersLE, List.foldl_cons]
    rw [indexOtherE_eq o a e (h a List.mem_cons_self)]
    simp only
    apply indexOthersLE_eq e fns
    intro b hb
    rw [indexOther_keys]; exact h b (List.mem_cons_of_mem _ hb)

/-- **indexing at creation never fails**: in a well-formed index state (`Good`: the two dicts of the attribute
    indexes have the same keys — every reachable configuration, `C07.reachable_good`) `_indexTag` meets no
    KeyError and does what the total `indexTag` says -/
theorem indexTagE_eq {i : Idx} (h : Good i) (e : Elem) : indexTagE i e = some (indexTag i e) := by
  have hk : ∀ a ∈ i.otherFns, (i.other.lookup a).isSome = true := fun a ha => (h.keys a).mp ha
  obtain ⟨a1, a2, a3, a4, b1, b2, b3, b4, m1, m2, m3, m4, o, ofn⟩ := i
  have hE := indexOthersLE_eq e ofn o hk
  cases b1 <;> cases b2 <;> cases b3 <;> cases b4 <;>
    simp only [indexTagE, indexTag, indexOthers, indexID, indexName, indexClassName, indexTagName,
      Bool.false_eq_true, if_false, if_true, hE, Option.map_some]

end Idx

/-! ### the handlers at token level -/

/-- the index is well formed and is what `_indexTag` made of the elements created since the last reset `i0` -/
def IdxOK (i0 : Idx) (st : IState) : Prop := Good st.idx ∧ st.idx = st.made.foldl indexTag i0

theorem idxStart_total (view : Nat → Str → List Attr → Elem) {i0 : Idx} {st : IState} (h : IdxOK i0 st)
    (n : Str) (a : List Attr) (sc : Bool) :
    (∃ st', idxStart view st n a sc = .ok st' ∧ handleStart st.tree n a sc = .ok st'.tree ∧ IdxOK i0 st') ∨
    (idxStart view st n a sc = .error (.raised .multipleRoot) ∧ handleStart st.tree n a sc = .multipleRoot) := by
  have hcases : (∃ s', handleStart st.tree n a sc = .ok s') ∨ handleStart st.tree n a sc = .multipleRoot := by
    have := stepT_ok_or_multipleRoot st.tree (if sc then .startend n a else .start n a)
    cases sc <;> simpa [stepT] using this
  rcases hcases with ⟨s', hs⟩ | hs
  · left
    unfold idxStart
    rw [hs]
    simp only [indexTagE_eq h.1]
    refine ⟨_, rfl, rfl, indexTag_good h.1 _, ?_⟩
    simp only [List.foldl_append, List.foldl_cons, List.foldl_nil]
    rw [← h.2]
  · right
    unfold idxStart
    rw [hs]
    exact ⟨rfl, rfl⟩

/-- **C03 for the indexed parser, one callback**: never a KeyError; `ok` exactly when the inherited handler is,
    with the same tree; the index stays well formed -/
theorem idxStep_total (view : Nat → Str → List Attr → Elem) {i0 : Idx} {st : IState} (h : IdxOK i0 st) (t : Token) :
    (∃ st', idxStep view st t = .ok st' ∧ stepT st.tree t = .ok st'.tree ∧ IdxOK i0 st') ∨
    (idxStep view st t = .error (.raised .multipleRoot) ∧ stepT st.tree t = .multipleRoot) := by
  have other : ∀ t : Token, (∀ n a, t ≠ .start n a) → (∀ n a, t ≠ .startend n a) →
      idxStep view st t = (match stepT st.tree t with
        | .ok s' => .ok { st with tree := s' }
        | o => .error (.raised o.exc)) := by
    intro t h1 h2
    cases t with
    | start n a => exact absurd rfl (h1 n a)
    | startend n a => exact absurd rfl (h2 n a)
    | _ => rfl
  cases t with
  | start n a => exact idxStart_total view h n a false
  | startend n a => exact idxStart_total view h n a true
  | end_ n =>
    rw [other _ (by intros; simp) (by intros; simp)]
    rcases stepT_ok_or_multipleRoot st.tree (.end_ n) with ⟨s', hs⟩ | hs <;> rw [hs]
    · exact Or.inl ⟨_, rfl, rfl, h⟩
    · exact Or.inr ⟨rfl, rfl⟩
  | data n =>
    rw [other _ (by intros; simp) (by intros; simp)]
    rcases stepT_ok_or_multipleRoot st.tree (.data n) with ⟨s', hs⟩ | hs <;> rw [hs]
    · exact Or.inl ⟨_, rfl, rfl, h⟩
    · exact Or.inr ⟨rfl, rfl⟩
  | entity n =>
    rw [other _ (by intros; simp) (by intros; simp)]
    rcases stepT_ok_or_multipleRoot st.tree (.entity n) with ⟨s', hs⟩ | hs <;> rw [hs]
    · exact Or.inl ⟨_, rfl, rfl, h⟩
    · exact Or.inr ⟨rfl, rfl⟩
  | charref n =>
    rw [other _ (by intros; simp) (by intros; simp)]
    rcases stepT_ok_or_multipleRoot st.tree (.charref n) with ⟨s', hs⟩ | hs <;> rw [hs]
    · exact Or.inl ⟨_, rfl, rfl, h⟩
    · exact Or.inr ⟨rfl, rfl⟩
  | comment n =>
    rw [other _ (by intros; simp) (by intros; simp)]
    rcases stepT_ok_or_multipleRoot st.tree (.comment n) with ⟨s', hs⟩ | hs <;> rw [hs]
    · exact Or.inl ⟨_, rfl, rfl, h⟩
    · exact Or.inr ⟨rfl, rfl⟩
  | decl n =>
    rw [other _ (by intros; simp) (by intros; simp)]
    rcases stepT_ok_or_multipleRoot st.tree (.decl n) with ⟨s', hs⟩ | hs <;> rw [hs]
    · exact Or.inl ⟨_, rfl, rfl, h⟩
    · exact Or.inr ⟨rfl, rfl⟩
  | unknownDecl n =>
    rw [other _ (by intros; simp) (by intros; simp)]
    rcases stepT_ok_or_multipleRoot st.tree (.unknownDecl n) with ⟨s', hs⟩ | hs <;> rw [hs]
    · exact Or.inl ⟨_, rfl, rfl, h⟩
    · exact Or.inr ⟨rfl, rfl⟩
  | pi n =>
    rw [other _ (by intros; simp) (by intros; simp)]
    rcases stepT_ok_or_multipleRoot st.tree (.pi n) with ⟨s', hs⟩ | hs <;> rw [hs]
    · exact Or.inl ⟨_, rfl, rfl, h⟩
    · exact Or.inr ⟨rfl, rfl⟩

/-- a whole pass: the indexed parser ends `ok` exactly when the plain parser does — same tree —, else in
    MultipleRootNodeException; never in a KeyError; the state it leaves (`idxRunS`) has a well-formed index -/
theorem idxRun_total (view : Nat → Str → List Attr → Elem) {i0 : Idx} (ts : List Token) : ∀ {st : IState}, IdxOK i0 st →
    ((∃ st', idxRun view st ts = .ok st' ∧ idxRunS view st ts = (st', none) ∧
        runT st.tree ts = .ok st'.tree ∧ IdxOK i0 st') ∨
     (idxRun view st ts = .error (.raised .multipleRoot) ∧ (idxRunS view st ts).2 = some (.raised .multipleRoot) ∧
        runT st.tree ts = .multipleRoot ∧ IdxOK i0 (idxRunS view st ts).1)) := by
  induction ts with
  | nil => intro st h; exact Or.inl ⟨st, rfl, rfl, rfl, h⟩
  | cons t ts ih =>
    intro st h
    rcases idxStep_total view h t with ⟨st1, h1, h2, h3⟩ | ⟨h1, h2⟩
    · rcases ih h3 with ⟨st2, g1, g2, g3, g4⟩ | ⟨g1, g2, g3, g4⟩
      · exact Or.inl ⟨st2, by simp only [idxRun, h1]; exact g1, by simp only [idxRunS, h1]; exact g2,
          by simp only [runT, h2]; exact g3, g4⟩
      · exact Or.inr ⟨by simp only [idxRun, h1]; exact g1, by simp only [idxRunS, h1]; exact g2,
          by simp only [runT, h2]; exact g3, by simp only [idxRunS, h1]; exact g4⟩
    · exact Or.inr ⟨by simp only [idxRun, h1], by simp only [idxRunS, h1], by simp only [runT, h2],
        by simp only [idxRunS, h1]; exact h⟩

/-- after `reset` the object is in its initial state for its configuration -/
theorem idxOK_reset {st : IState} (h : Good st.idx) : IdxOK st.idx.resetInternal st.reset :=
  ⟨reset_good h.toKeys, rfl⟩

theorem map_reset_assocSet (a : Str) (x : List (Str × List Nat)) :
    ∀ o : List (Str × List (Str × List Nat)), (o.lookup a).isSome = true →
    (assocSet o a x).map (fun p => (p.1, ([] : List (Str × List Nat)))) =
      o.map (fun p => (p.1, ([] : List (Str × List Nat))))
  | [], h => by simp at h
  | (k, y) :: rest, h => by
    by_cases hk : k = a
    · subst hk; simp [assocSet]
    · have hk' : (k == a) = false := by simpa using hk
      have hk2 : (a == k) = false := by simpa using (fun e : a = k => hk e.symm)
      simp only [assocSet, hk', Bool.false_eq_true, if_false, List.map_cons]
      rw [map_reset_assocSet a x rest (by simpa [List.lookup_cons, hk2] using h)]

theorem map_reset_indexOther (o : List (Str × List (Str × List Nat))) (a : Str) (e : Elem) :
    (indexOther o a e).map (fun p => (p.1, ([] : List (Str × List Nat)))) =
      o.map (fun p => (p.1, ([] : List (Str × List Nat)))) := by
  unfold indexOther
  cases e.attr a with
  | none => rfl
  | some v =>
    cases hm : o.lookup a with
    | none => rfl
    | some m => exact map_reset_assocSet a _ o (by rw [hm]; rfl)

/-- `_resetIndexInternal` forgets whatever was indexed before: it depends on the flags and the KEYS of the
    attribute indexes only, and `_indexTag` changes neither -/
theorem resetInternal_fold (i : Idx) (es : List Elem) :
    (es.foldl indexTag i).resetInternal = i.resetInternal := by
  induction es generalizing i with
  | nil => rfl
  | cons e es ih =>
    simp only [List.foldl_cons]
    rw [ih]
    rw [indexTag_eq]
    simp only [resetInternal]
    have hk : (indexOthers i e).other.map (fun p => (p.1, ([] : List (Str × List Nat)))) =
        i.other.map (fun p => (p.1, ([] : List (Str × List Nat)))) := by
      unfold indexOthers
      simp only
      generalize i.other = o
      induction i.otherFns generalizing o with
      | nil => rfl
      | cons a fns ih2 =>
        simp only [List.foldl_cons]
        rw [ih2, map_reset_indexOther]
    rw [hk]


/-! ### `feed` / `parseStr` of the indexed parser -/

theorem pair_eta {α β : Type} (p : α × β) (b : β) (h : p.2 = b) : p = (p.1, b) := by
  rw [← h]

/-- **`feed` of the indexed parser from every well-formed state**: a document or MultipleRootNodeException —
    never a KeyError —, and the index it leaves is well formed (the object stays usable) -/
theorem idxFeedS_total (view : Nat → Str → List Attr → Elem) {i0 : Idx} {st : IState} (h : IdxOK i0 st)
    (toks : List Token) :
    ((idxFeedS view st toks).2 = none ∨ (idxFeedS view st toks).2 = some (.raised .multipleRoot)) ∧
    Good (idxFeedS view st toks).1.idx := by
  unfold idxFeedS
  rcases idxRun_total view toks h with ⟨st', _, g2, _, g4⟩ | ⟨_, g2, _, g4⟩
  · rw [g2]; exact ⟨Or.inl rfl, g4.1⟩
  · rw [pair_eta _ _ g2]
    simp only
    rcases idxRun_total view (wrapToks toks) (idxOK_reset g4.1) with ⟨st2, _, k2, _, k4⟩ | ⟨_, k2, _, k4⟩
    · rw [k2]; exact ⟨Or.inl rfl, k4.1⟩
    · exact ⟨Or.inr k2, k4.1⟩

/-- … and when the text has no end tag of the wrapper it does not raise at all; the tree is the plain parser's -/
theorem idxFeedS_never_raises (view : Nat → Str → List Attr → Elem) {i0 : Idx} {st : IState} (h : IdxOK i0 st)
    (toks : List Token) (hw : ∀ t ∈ toks, t ≠ Token.end_ wrapperName) :
    (idxFeedS view st toks).2 = none ∧
    (runT st.tree toks = .ok (idxFeedS view st toks).1.tree ∨
      (runT st.tree toks = .multipleRoot ∧ runT TState.init (wrapToks toks) = .ok (idxFeedS view st toks).1.tree)) := by
  unfold idxFeedS
  rcases idxRun_total view toks h with ⟨st', _, g2, g3, _⟩ | ⟨_, g2, g3, g4⟩
  · rw [g2]; exact ⟨rfl, Or.inl g3⟩
  · rw [pair_eta _ _ g2]
    simp only
    rcases idxRun_total view (wrapToks toks) (idxOK_reset g4.1) with ⟨st2, _, k2, k3, _⟩ | ⟨_, _, k3, _⟩
    · rw [k2]; exact ⟨rfl, Or.inr ⟨g3, k3⟩⟩
    · exfalso
      obtain ⟨s', hs'⟩ := runT_wrapToks_ok toks hw
      have : (IState.reset (idxRunS view st toks).1).tree = TState.init := rfl
      rw [this, hs'] at k3; cases k3

end AHP.G3
