/-
  Helper lemmas for the C14 round trip: what the canonical text of a well-formed predicate looks like
  (no line feed, tight ends, first character, length against the number of loop rounds).
-/
import AHP.Lemmas.XPathParseTok
namespace AHP.XPath

variable {N : Type}
set_option linter.unusedSimpArgs false

/-- rounds of the tokenizer loop a predicate takes: one per top-level element -/
def cost : S N → Nat
  | .bin _ l r => cost l + cost r + 1
  | _ => 1

/-- a character a rendered predicate may start with -/
def startOk (c : Char) : Bool := !isWs c && c != ')' && c != ',' && c != '='

def EndsTight (s : Str) : Prop := ∀ c, s.getLast? = some c → isWs c = false

theorem endsTight_append_cons (a : Str) (c : Char) (b : Str) : EndsTight (a ++ c :: b) ↔ EndsTight (c :: b) := by
  unfold EndsTight
  rw [List.getLast?_append]
  cases h : (c :: b).getLast? with
  | none => simp at h
  | some d => simp

theorem endsTight_single {c : Char} (h : isWs c = false) : EndsTight [c] := by
  intro d hd
  simp at hd
  subst hd
  exact h

theorem endsTight_snoc (a : Str) {c : Char} (h : isWs c = false) : EndsTight (a ++ [c]) :=
  (endsTight_append_cons a c []).2 (endsTight_single h)

theorem endsTight_cons_of {c : Char} {s : Str} (h : EndsTight s) (hs : s ≠ []) : EndsTight (c :: s) := by
  cases s with
  | nil => exact absurd rfl hs
  | cons d r => exact (endsTight_append_cons [c] d r).2 h

theorem endsTight_prefix (a : Str) {s : Str} (hs : s ≠ []) (h : EndsTight s) : EndsTight (a ++ s) := by
  cases s with
  | nil => exact absurd rfl hs
  | cons c t => exact (endsTight_append_cons a c t).2 h

theorem isWs_isSpTab {c : Char} (h : isWs c = false) : isSpTab c = false := by
  cases hs : isSpTab c with
  | false => rfl
  | true =>
    have : c = ' ' ∨ c = '\t' := by simpa [isSpTab] using hs
    rcases this with rfl | rfl <;> revert h <;> decide

theorem isWs_of_attrChar {c : Char} (h : isAttrChar c = true) : isWs c = false :=
  isWs_false_of (p := isAttrChar) (by decide) h

theorem isAttrChar_of_nameChar {c : Char} (h : isNameChar c = true) : isAttrChar c = true := by
  simp [isAttrChar, h]

theorem isNameChar_of_nameStart {c : Char} (h : isNameStart c = true) : isNameChar c = true := by
  simp only [isNameStart, Bool.or_eq_true] at h
  simp only [isNameChar, Bool.or_eq_true]
  rcases h with h | h
  · exact .inl (.inl h)
  · exact .inr h

theorem nl_not_attrChar : isAttrChar '\n' = false := by decide

theorem digitChar_ne_nl : ∀ d : Fin 10, digitChar d ≠ '\n' := by decide

theorem nl_not_mem_digits (ds : List (Fin 10)) : '\n' ∉ ds.map digitChar := by
  intro h
  obtain ⟨d, _, hd⟩ := List.mem_map.1 h
  exact digitChar_ne_nl d hd

theorem startOk_of_plainHead : ∀ {c : Char}, plainHead c = true → isWs c = false → c ≠ '=' → startOk c = true := by
  intro c h hw he
  obtain ⟨_, _, h3, h4, _⟩ := plainHead_facts h
  simp [startOk, hw, h3, h4, he]

/-! ### Layout pieces -/

theorem sp_all (st : Style) (k : Site) (π : List Nat) : (st.sp k π).all isSpTab = true := by
  simp [Style.sp, List.all_filter]

theorem sepOf_all {b : Bool} {w : Str} (h : w.all isSpTab = true) : (sepOf b w).all isSpTab = true := by
  unfold sepOf
  split
  · rfl
  · exact h

theorem sepOf_ne_nil {w : Str} : sepOf true w ≠ [] := by
  unfold sepOf
  split
  · simp
  · next h => simpa using h

theorem ws_mem {w : Str} (h : w.all isSpTab = true) {c : Char} (hc : c ∈ w) : c = ' ' ∨ c = '\t' := by
  have := List.all_eq_true.1 h c hc
  simpa [isSpTab] using this

theorem ws_nonl {w : Str} (h : w.all isSpTab = true) : '\n' ∉ w := by
  intro hc
  rcases ws_mem h hc with e | e <;> exact absurd e (by decide)

theorem spell_map (st : Style) (π : List Nat) {w : Str} (hw : w.map lowerChar = w) : (st.spell π w).map lowerChar = w := by
  unfold Style.spell
  split
  · next h => exact h
  · exact hw

theorem spelled_mem {w v : Str} (hv : v.map lowerChar = w) {k : Char} (hk : lowerChar k = k) (h : k ∈ v) : k ∈ w := by
  rw [← hv]
  exact List.mem_map.2 ⟨k, h, hk⟩

theorem spelled_length {w v : Str} (hv : v.map lowerChar = w) : v.length = w.length := by
  rw [← hv]; simp

theorem spellOp_spelled (st : Style) (π : List Nat) (o : Op) : OpSpelled o (st.spellOp π o) := by
  unfold OpSpelled Style.spellOp
  cases h : isWordOp o with
  | false => simp
  | true =>
    simp only [if_true]
    apply spell_map
    rcases o with (_ | _ | _ | _ | _ | _) | (_ | _ | _ | _ | _ | _) | (_ | _) <;> decide

theorem spellOp_nonl (st : Style) (π : List Nat) (o : Op) : '\n' ∉ st.spellOp π o := by
  have h := spellOp_spelled st π o
  unfold OpSpelled at h
  split at h
  · intro hm
    have := spelled_mem h (k := '\n') (by decide) hm
    revert this
    rcases o with (_ | _ | _ | _ | _ | _) | (_ | _ | _ | _ | _ | _) | (_ | _) <;> decide
  · rw [h]
    rcases o with (_ | _ | _ | _ | _ | _) | (_ | _ | _ | _ | _ | _) | (_ | _) <;> decide

theorem spellOp_length (st : Style) (π : List Nat) (o : Op) : (st.spellOp π o).length ≤ 3 := by
  have h := spellOp_spelled st π o
  unfold OpSpelled at h
  split at h
  · rw [spelled_length h]
    rcases o with (_ | _ | _ | _ | _ | _) | (_ | _ | _ | _ | _ | _) | (_ | _) <;> decide
  · rw [h]
    rcases o with (_ | _ | _ | _ | _ | _) | (_ | _ | _ | _ | _ | _) | (_ | _) <;> decide

/-- the last character of a non-empty list all of whose members satisfy `p` -/
theorem getLast?_all {p : Char → Bool} {s : Str} (h : s.all p = true) {c : Char} (hc : s.getLast? = some c) : p c = true := by
  have := List.mem_of_getLast? hc
  exact List.all_eq_true.1 h c this

/-! ### Numerals -/

theorem numLit_nonl (l : NumLit) : '\n' ∉ l.text := by
  obtain ⟨neg, ip, fp⟩ := l
  simp only [NumLit.text, List.mem_append, not_or]
  refine ⟨⟨?_, nl_not_mem_digits ip⟩, ?_⟩
  · cases neg <;> simp
  · cases fp with
    | none => simp
    | some f =>
      simp only [List.mem_cons, not_or]
      exact ⟨by decide, nl_not_mem_digits f⟩

theorem digits_endsTight (ds : List (Fin 10)) (pre : Str) (h : ds ≠ []) : EndsTight (pre ++ ds.map digitChar) := by
  intro c hc
  rw [List.getLast?_append] at hc
  cases hl : (ds.map digitChar).getLast? with
  | none =>
    cases ds with
    | nil => exact absurd rfl h
    | cons d ds' => simp at hl
  | some e =>
    rw [hl] at hc
    simp at hc
    subst hc
    obtain ⟨d, _, hd⟩ := List.mem_map.1 (List.mem_of_getLast? hl)
    rw [← hd]; exact isWs_digitChar d

theorem numLit_endsTight (l : NumLit) (hw : l.wf = true) : EndsTight l.text := by
  obtain ⟨neg, ip, fp⟩ := l
  cases fp with
  | none =>
    simp only [NumLit.wf, Bool.and_eq_true, Bool.not_eq_true', List.isEmpty_eq_false_iff] at hw
    simp only [NumLit.text, List.append_nil]
    exact digits_endsTight ip _ hw.1
  | some f =>
    simp only [NumLit.wf, Bool.not_eq_true', List.isEmpty_eq_false_iff] at hw
    simp only [NumLit.text]
    have := digits_endsTight f (((if neg then ['-'] else []) ++ ip.map digitChar) ++ ['.']) hw
    simpa using this

theorem numLit_length_pos (l : NumLit) (hw : l.wf = true) : 1 ≤ l.text.length := by
  obtain ⟨c, r, ht, _⟩ := numLit_head l hw
  rw [ht]; simp

/-! ### Rendered predicates -/

structure RenderOK (st : Style) (π : List Nat) (p : S N) : Prop where
  nonl : '\n' ∉ renderS st π p
  head : ∃ c r, renderS st π p = c :: r ∧ startOk c = true
  last : EndsTight (renderS st π p)
  cost : cost p ≤ (renderS st π p).length
  flat : flatten p.toP ≠ []

theorem RenderOK.ne_nil {st : Style} {π : List Nat} {p : S N} (h : RenderOK st π p) : renderS st π p ≠ [] := by
  obtain ⟨c, r, hr, _⟩ := h.head
  rw [hr]; simp

theorem startOk_facts {c : Char} (h : startOk c = true) :
    isWs c = false ∧ isSpTab c = false ∧ c ≠ ')' ∧ c ≠ ',' ∧ c ≠ '=' := by
  simp only [startOk, Bool.and_eq_true, Bool.not_eq_true', bne_iff_ne, ne_eq] at h
  exact ⟨h.1.1.1, isWs_isSpTab h.1.1.1, h.1.1.2, h.1.2, h.2⟩

theorem RenderOK.skipSp {st : Style} {π : List Nat} {p : S N} (h : RenderOK st π p) (rest : Str) :
    skipSp (renderS st π p ++ rest) = renderS st π p ++ rest := by
  obtain ⟨c, r, hr, hc⟩ := h.head
  rw [hr]
  exact skipSp_cons_of_not (startOk_facts hc).2.1

theorem attrName_facts {n : Str} (h : attrNameOk n = true) :
    '\n' ∉ n ∧ EndsTight ('@' :: n) ∧ n ≠ [] := by
  cases n with
  | nil => simp [attrNameOk] at h
  | cons c r =>
    simp only [attrNameOk, Bool.or_eq_true, Bool.and_eq_true, decide_eq_true_eq, List.isEmpty_iff] at h
    rcases h with ⟨rfl, rfl⟩ | ⟨h1, h2⟩
    · refine ⟨by decide, ?_, by simp⟩
      exact (endsTight_append_cons ['@'] '*' []).2 (endsTight_single (by decide))
    · have hall : (c :: r).all isAttrChar = true := by
        simp [h2, isAttrChar_of_nameChar (isNameChar_of_nameStart h1)]
      refine ⟨?_, ?_, by simp⟩
      · intro hm
        have := List.all_eq_true.1 hall _ hm
        rw [nl_not_attrChar] at this
        cases this
      · rw [show '@' :: c :: r = ['@'] ++ c :: r from rfl, endsTight_append_cons]
        intro d hd
        exact isWs_of_attrChar (getLast?_all hall hd)

/-- the text of a call `word ws ( ws inner ws )` -/
def callText (v w1 w2 inner w3 : Str) : Str := v ++ (w1 ++ ('(' :: (w2 ++ (inner ++ (w3 ++ [')'])))))

/-- The words that are spelled: all letters lower-case (and dashes), no line feed. -/
def WordOK (w : Str) : Prop := w.map lowerChar = w ∧ '\n' ∉ w ∧ ∃ x t, w = x :: t ∧ isWs x = false ∧ x ≠ ')' ∧ x ≠ ',' ∧ x ≠ '=' ∧ x ≠ '('

theorem callText_shape {w v w1 w2 inner w3 : Str} (hw : WordOK w) (hv : v.map lowerChar = w)
    (h1 : w1.all isSpTab = true) (h2 : w2.all isSpTab = true) (h3 : w3.all isSpTab = true) (hi : '\n' ∉ inner) :
    '\n' ∉ callText v w1 w2 inner w3 ∧ (∃ c r, callText v w1 w2 inner w3 = c :: r ∧ startOk c = true) ∧
      EndsTight (callText v w1 w2 inner w3) ∧ 1 ≤ (callText v w1 w2 inner w3).length := by
  obtain ⟨hl, hn, x, t, hxt, hx1, hx2, hx3, hx4, _⟩ := hw
  obtain ⟨c, r, rfl, hc, _⟩ := spelled_head hxt hv
  have hlx : lowerChar x = x := by
    rw [hxt] at hl
    simp only [List.map_cons, List.cons.injEq] at hl
    exact hl.1
  refine ⟨?_, ⟨c, _, rfl, ?_⟩, ?_, by simp [callText]⟩
  · have hv' : '\n' ∉ c :: r := fun hm => hn (spelled_mem hv (by decide) hm)
    unfold callText
    rw [List.mem_append]
    simp only [List.mem_append, List.mem_cons, not_or]
    exact ⟨by simpa using hv', ws_nonl h1, by decide, ws_nonl h2, hi, ws_nonl h3, by decide, by simp⟩
  · have hne : ∀ k, lowerChar k = k → x ≠ k → c ≠ k := fun k hk hkx => ne_of_lowerChar hc (by rw [hk]; exact Ne.symm hkx)
    simp [startOk, isWs_of_lowerChar hc hx1, hne ')' (by decide) hx2, hne ',' (by decide) hx3, hne '=' (by decide) hx4]
  · unfold callText
    rw [show (c :: r) ++ (w1 ++ ('(' :: (w2 ++ (inner ++ (w3 ++ [')']))))) = ((c :: r) ++ (w1 ++ ('(' :: (w2 ++ (inner ++ w3))))) ++ [')'] by simp]
    exact endsTight_snoc _ (by decide)

theorem wordOK_text : WordOK wText := ⟨by decide, by decide, _, _, rfl, by decide, by decide, by decide, by decide, by decide⟩
theorem wordOK_last : WordOK wLast := ⟨by decide, by decide, _, _, rfl, by decide, by decide, by decide, by decide, by decide⟩
theorem wordOK_position : WordOK wPosition := ⟨by decide, by decide, _, _, rfl, by decide, by decide, by decide, by decide, by decide⟩
theorem wordOK_concat : WordOK wConcat := ⟨by decide, by decide, _, _, rfl, by decide, by decide, by decide, by decide, by decide⟩
theorem wordOK_contains : WordOK wContains := ⟨by decide, by decide, _, _, rfl, by decide, by decide, by decide, by decide, by decide⟩
theorem wordOK_nspace : WordOK wNspace := ⟨by decide, by decide, _, _, rfl, by decide, by decide, by decide, by decide, by decide⟩

/-- a call-shaped node is fine as soon as its inner text has no line feed -/
theorem renderOK_call (st : Style) (π : List Nat) (p : S N) {w inner w3 : Str} (hw : WordOK w)
    (hr : renderS st π p = callText (st.spell π w) (st.sp .fnName π) (st.sp .open π) inner w3)
    (h3 : w3.all isSpTab = true) (hi : '\n' ∉ inner) (hc : cost p = 1) (hf : flatten p.toP ≠ []) : RenderOK st π p := by
  obtain ⟨a, b, c, d⟩ := callText_shape hw (spell_map st π hw.1) (sp_all st .fnName π) (sp_all st .open π) h3 hi
  rw [← hr] at a b c d
  exact ⟨a, b, c, by rw [hc]; exact d, hf⟩

theorem quoteWith_facts (b : Bool) (s : Str) :
    quoteWith b s ≠ '\n' ∧ isWs (quoteWith b s) = false ∧ startOk (quoteWith b s) = true := by
  rcases quoteWith_cases b s with hq | hq <;> rw [hq] <;> decide

mutual
theorem renderOK (nm : Num N) (st : Style) : ∀ (π : List Nat) (p : S N), S.wf nm p → RenderOK st π p
  | π, .num l x, h => by
    have hw : l.wf = true := by simp only [S.wf] at h; exact h.1
    obtain ⟨c, r, ht, hp, _, _, hws, hce⟩ := numLit_head l hw
    have hl := numLit_endsTight l hw
    exact ⟨numLit_nonl l, ⟨c, r, ht, startOk_of_plainHead hp hws hce⟩, hl, numLit_length_pos l hw, by simp [S.toP, flatten]⟩
  | π, .str s, h => by
    simp only [S.wf] at h
    obtain ⟨_, h2, _⟩ := strOk_facts (st.single π) h
    have hq := quoteWith_facts (st.single π) s
    refine ⟨?_, ⟨_, _, rfl, hq.2.2⟩, ?_, by simp [renderS, cost], by simp [S.toP, flatten]⟩
    · simp only [renderS, List.mem_cons, List.mem_append, not_or]
      have h2' : '\n' ∉ s := by simpa using h2
      exact ⟨fun e => hq.1 e.symm, h2', fun e => hq.1 e.symm, by simp⟩
    · simp only [renderS]
      rw [show quoteWith (st.single π) s :: (s ++ [quoteWith (st.single π) s]) = (quoteWith (st.single π) s :: s) ++ [quoteWith (st.single π) s] from rfl]
      exact endsTight_snoc _ hq.2.1
  | π, .attr n, h => by
    simp only [S.wf] at h
    obtain ⟨h1, h2, h3⟩ := attrName_facts h
    refine ⟨?_, ⟨'@', n, rfl, by decide⟩, h2, by simp [renderS, cost], by simp [S.toP, flatten]⟩
    simp only [renderS, List.mem_cons, not_or]
    exact ⟨by decide, h1⟩
  | π, .text, _ => renderOK_call st π _ (inner := []) (w3 := []) wordOK_text rfl rfl (by simp) rfl (by simp [S.toP, flatten])
  | π, .last, _ => renderOK_call st π _ (inner := []) (w3 := []) wordOK_last rfl rfl (by simp) rfl (by simp [S.toP, flatten])
  | π, .position, _ => renderOK_call st π _ (inner := []) (w3 := []) wordOK_position rfl rfl (by simp) rfl (by simp [S.toP, flatten])
  | π, .nspace0, _ => renderOK_call st π _ (inner := []) (w3 := []) wordOK_nspace rfl rfl (by simp) rfl (by simp [S.toP, flatten])
  | π, .group p, h => by
    have hp := renderOK nm st (0 :: π) p (by simpa [S.wf] using h)
    refine ⟨?_, ⟨'(', _, rfl, by decide⟩, ?_, by simp [renderS, cost], by simp [S.toP, flatten]⟩
    · simp only [renderS, List.mem_cons, List.mem_append, not_or]
      exact ⟨by decide, ws_nonl (sp_all st _ _), hp.nonl, ws_nonl (sp_all st _ _), by decide, by simp⟩
    · simp only [renderS]
      rw [show '(' :: (st.sp .open π ++ (renderS st (0 :: π) p ++ (st.sp .close π ++ [')'])))
          = ('(' :: (st.sp .open π ++ (renderS st (0 :: π) p ++ st.sp .close π))) ++ [')'] by simp]
      exact endsTight_snoc _ (by decide)
  | π, .nspace1 a, h => by
    have hp := renderOK nm st (0 :: π) a (by simpa [S.wf] using h)
    exact renderOK_call st π _ (inner := renderS st (0 :: π) a) (w3 := st.sp .close π) wordOK_nspace rfl (sp_all st _ _) hp.nonl rfl
      (by simp [S.toP, flatten])
  | π, .contains a b, h => by
    have hab : S.wf nm a ∧ S.wf nm b := by simpa [S.wf] using h
    have ha := renderOK nm st (0 :: π) a hab.1
    have hb := renderOK nm st (1 :: π) b hab.2
    refine renderOK_call st π _ (w3 := st.sp .close π) wordOK_contains rfl (sp_all st _ _) ?_ rfl (by simp [S.toP, flatten])
    simp only [List.mem_cons, List.mem_append, not_or]
    exact ⟨ha.nonl, ws_nonl (sp_all st _ _), by decide, ws_nonl (sp_all st _ _), hb.nonl⟩
  | π, .concat args, h => by
    have hargs : 2 ≤ args.length ∧ S.wfs nm args := by simpa [S.wf] using h
    have hn := renderArgs_nonl nm st π 0 args hargs.2
    exact renderOK_call st π _ (w3 := st.sp .close π) wordOK_concat rfl (sp_all st _ _) hn rfl (by simp [S.toP, flatten])
  | π, .bin o l r, h => by
    have hlr : S.wf nm l ∧ S.wf nm r := by simpa [S.wf] using h
    have hl := renderOK nm st (0 :: π) l hlr.1
    have hr := renderOK nm st (1 :: π) r hlr.2
    obtain ⟨c, t, hc, hcs⟩ := hl.head
    obtain ⟨c2, t2, hc2, _⟩ := hr.head
    refine ⟨?_, ⟨c, _, by simp only [renderS, hc, List.cons_append]; rfl, hcs⟩, ?_, ?_, ?_⟩
    · simp only [renderS, List.mem_append, not_or]
      exact ⟨hl.nonl, ws_nonl (sepOf_all (sp_all st _ _)), spellOp_nonl st π o, ws_nonl (sepOf_all (sp_all st _ _)), hr.nonl⟩
    · simp only [renderS]
      rw [hc2, ← List.append_assoc, ← List.append_assoc, ← List.append_assoc, endsTight_append_cons, ← hc2]
      exact hr.last
    · have h1 := hl.cost
      have h2 := hr.cost
      simp only [renderS, cost, List.length_append]
      have : 1 ≤ (st.spellOp π o).length := by
        obtain ⟨c', r', hcr, _⟩ := plainHead_spelled_op o _ (spellOp_spelled st π o)
        rw [hcr]; simp
      omega
    · simp [S.toP, flatten]
theorem renderArgs_nonl (nm : Num N) (st : Style) (π : List Nat) : ∀ (k : Nat) (ps : List (S N)), S.wfs nm ps →
    '\n' ∉ renderArgs st π k ps
  | _, [], _ => by simp [renderArgs]
  | k, p :: ps, h => by
    have hh : S.wf nm p ∧ S.wfs nm ps := by simpa [S.wfs] using h
    have hp := renderOK nm st (k :: π) p hh.1
    have hps := renderArgs_nonl nm st π (k + 1) ps hh.2
    simp only [renderArgs, List.mem_append, not_or]
    refine ⟨hp.nonl, ?_⟩
    split
    · simp
    · simp only [List.mem_append, List.mem_cons, not_or]
      exact ⟨ws_nonl (sp_all st _ _), by decide, ws_nonl (sp_all st _ _), hps⟩
end

theorem wfs_mem (nm : Num N) : ∀ (ps : List (S N)), S.wfs nm ps → ∀ p ∈ ps, S.wf nm p
  | [], _, p, hp => by cases hp
  | q :: qs, h, p, hp => by
    have hh : S.wf nm q ∧ S.wfs nm qs := by simpa [S.wfs] using h
    rcases List.mem_cons.1 hp with rfl | hp'
    · exact hh.1
    · exact wfs_mem nm qs hh.2 p hp'

end AHP.XPath
