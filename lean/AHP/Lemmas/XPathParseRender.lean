/-
  Helper lemmas for the C14 round trip: what the canonical text of a well-formed predicate looks like
  (no line feed, tight ends, first character, length against the number of loop rounds).
-/
import AHP.Lemmas.XPathParseTok
namespace AHP.XPath

variable {N : Type}
set_option linter.unusedSimpArgs false

/-- rounds of the tokenizer loop a predicate takes: one per top-level element -/
def cost : S N → Nat
  | .bin _ l r => cost l + cost r + 1
  | _ => 1

/-- a character a rendered predicate may start with -/
def startOk (c : Char) : Bool := !isWs c && c != ')' && c != ','

def EndsTight (s : Str) : Prop := ∀ c, s.getLast? = some c → isWs c = false

theorem endsTight_append_cons (a : Str) (c : Char) (b : Str) : EndsTight (a ++ c :: b) ↔ EndsTight (c :: b) := by
  unfold EndsTight
  rw [List.getLast?_append]
  cases h : (c :: b).getLast? with
  | none => simp at h
  | some d => simp

theorem endsTight_single {c : Char} (h : isWs c = false) : EndsTight [c] := by
  intro d hd
  simp at hd
  subst hd
  exact h

theorem endsTight_snoc (a : Str) {c : Char} (h : isWs c = false) : EndsTight (a ++ [c]) :=
  (endsTight_append_cons a c []).2 (endsTight_single h)

theorem endsTight_cons_of {c : Char} {s : Str} (h : EndsTight s) (hs : s ≠ []) : EndsTight (c :: s) := by
  cases s with
  | nil => exact absurd rfl hs
  | cons d r => exact (endsTight_append_cons [c] d r).2 h

theorem isWs_isSpTab {c : Char} (h : isWs c = false) : isSpTab c = false := by
  cases hs : isSpTab c with
  | false => rfl
  | true =>
    have : c = ' ' ∨ c = '\t' := by simpa [isSpTab] using hs
    rcases this with rfl | rfl <;> simp [isWs] at h

theorem isWs_cases {c : Char} (h : isWs c = true) :
    c = ' ' ∨ c = '\t' ∨ c = '\n' ∨ c = '\r' ∨ c = '\x0b' ∨ c = '\x0c' ∨ c = '\x1c' ∨ c = '\x1d' ∨ c = '\x1e' ∨ c = '\x1f' := by
  simpa [isWs, or_assoc] using h

theorem isWs_of_attrChar {c : Char} (h : isAttrChar c = true) : isWs c = false := by
  cases hw : isWs c with
  | false => rfl
  | true =>
    rcases isWs_cases hw with rfl | rfl | rfl | rfl | rfl | rfl | rfl | rfl | rfl | rfl <;> revert h <;> decide

theorem isAttrChar_of_nameChar {c : Char} (h : isNameChar c = true) : isAttrChar c = true := by
  simp [isAttrChar, h]

theorem isNameChar_of_nameStart {c : Char} (h : isNameStart c = true) : isNameChar c = true := by
  simp only [isNameStart, Bool.or_eq_true] at h
  simp only [isNameChar, Bool.or_eq_true]
  rcases h with h | h
  · exact .inl (.inl h)
  · exact .inr h

theorem nl_not_attrChar : isAttrChar '\n' = false := by decide

theorem digitChar_ne_nl : ∀ d : Fin 10, digitChar d ≠ '\n' := by decide

theorem nl_not_mem_digits (ds : List (Fin 10)) : '\n' ∉ ds.map digitChar := by
  intro h
  obtain ⟨d, _, hd⟩ := List.mem_map.1 h
  exact digitChar_ne_nl d hd

theorem startOk_of_plainHead : ∀ {c : Char}, plainHead c = true → isWs c = false → startOk c = true := by
  intro c h hw
  obtain ⟨_, _, h3, h4, _⟩ := plainHead_facts h
  simp [startOk, hw, h3, h4]

/-- the last character of a non-empty list all of whose members satisfy `p` -/
theorem getLast?_all {p : Char → Bool} {s : Str} (h : s.all p = true) {c : Char} (hc : s.getLast? = some c) : p c = true := by
  have := List.mem_of_getLast? hc
  exact List.all_eq_true.1 h c this

/-! ### Numerals -/

theorem numLit_nonl (l : NumLit) : '\n' ∉ l.text := by
  obtain ⟨neg, ip, fp⟩ := l
  simp only [NumLit.text, List.mem_append, not_or]
  refine ⟨⟨?_, nl_not_mem_digits ip⟩, ?_⟩
  · cases neg <;> simp
  · cases fp with
    | none => simp
    | some f =>
      simp only [List.mem_cons, not_or]
      exact ⟨by decide, nl_not_mem_digits f⟩

theorem digits_endsTight (ds : List (Fin 10)) (pre : Str) (h : ds ≠ []) : EndsTight (pre ++ ds.map digitChar) := by
  intro c hc
  rw [List.getLast?_append] at hc
  cases hl : (ds.map digitChar).getLast? with
  | none =>
    cases ds with
    | nil => exact absurd rfl h
    | cons d ds' => simp at hl
  | some e =>
    rw [hl] at hc
    simp at hc
    subst hc
    obtain ⟨d, _, hd⟩ := List.mem_map.1 (List.mem_of_getLast? hl)
    rw [← hd]; exact isWs_digitChar d

theorem numLit_endsTight (l : NumLit) (hw : l.wf = true) : EndsTight l.text := by
  obtain ⟨neg, ip, fp⟩ := l
  cases fp with
  | none =>
    simp only [NumLit.wf, Bool.and_eq_true, Bool.not_eq_true', List.isEmpty_eq_false_iff] at hw
    simp only [NumLit.text, List.append_nil]
    exact digits_endsTight ip _ hw.1
  | some f =>
    simp only [NumLit.wf, Bool.not_eq_true', List.isEmpty_eq_false_iff] at hw
    simp only [NumLit.text]
    have := digits_endsTight f (((if neg then ['-'] else []) ++ ip.map digitChar) ++ ['.']) hw
    simpa using this

theorem numLit_length_pos (l : NumLit) (hw : l.wf = true) : 1 ≤ l.text.length := by
  obtain ⟨c, r, ht, _⟩ := numLit_head l hw
  rw [ht]; simp

/-! ### Rendered predicates -/

structure RenderOK (p : S N) : Prop where
  nonl : '\n' ∉ renderS p
  head : ∃ c r, renderS p = c :: r ∧ startOk c = true
  last : EndsTight (renderS p)
  cost : cost p ≤ (renderS p).length
  flat : flatten p.toP ≠ []

theorem RenderOK.ne_nil {p : S N} (h : RenderOK p) : renderS p ≠ [] := by
  obtain ⟨c, r, hr, _⟩ := h.head
  rw [hr]; simp

theorem RenderOK.skipSp {p : S N} (h : RenderOK p) (rest : Str) : skipSp (renderS p ++ rest) = renderS p ++ rest := by
  obtain ⟨c, r, hr, hc⟩ := h.head
  rw [hr]
  have : isWs c = false := by
    simp only [startOk, Bool.and_eq_true, Bool.not_eq_true'] at hc
    exact hc.1.1
  exact skipSp_cons_of_not (isWs_isSpTab this)

theorem attrName_facts {n : Str} (h : attrNameOk n = true) :
    '\n' ∉ n ∧ EndsTight ('@' :: n) ∧ n ≠ [] := by
  cases n with
  | nil => simp [attrNameOk] at h
  | cons c r =>
    simp only [attrNameOk, Bool.or_eq_true, Bool.and_eq_true, decide_eq_true_eq, List.isEmpty_iff] at h
    rcases h with ⟨rfl, rfl⟩ | ⟨h1, h2⟩
    · refine ⟨by decide, ?_, by simp⟩
      exact (endsTight_append_cons ['@'] '*' []).2 (endsTight_single (by decide))
    · have hall : (c :: r).all isAttrChar = true := by
        simp [h2, isAttrChar_of_nameChar (isNameChar_of_nameStart h1)]
      refine ⟨?_, ?_, by simp⟩
      · intro hm
        have := List.all_eq_true.1 hall _ hm
        rw [nl_not_attrChar] at this
        cases this
      · rw [show '@' :: c :: r = ['@'] ++ c :: r from rfl, endsTight_append_cons]
        intro d hd
        exact isWs_of_attrChar (getLast?_all hall hd)

mutual
theorem renderOK (nm : Num N) : ∀ (p : S N), S.wf nm p → RenderOK p
  | .num l x, h => by
    have hw : l.wf = true := by simp only [S.wf] at h; exact h.1
    obtain ⟨c, r, ht, hp, _, _, hws⟩ := numLit_head l hw
    have hl := numLit_endsTight l hw
    exact ⟨numLit_nonl l, ⟨c, r, ht, startOk_of_plainHead hp hws⟩, hl, numLit_length_pos l hw, by simp [S.toP, flatten]⟩
  | .str s, h => by
    simp only [S.wf] at h
    obtain ⟨_, h2, _⟩ := strOk_facts h
    have hq : quoteOf s ≠ '\n' ∧ isWs (quoteOf s) = false ∧ startOk (quoteOf s) = true := by
      rcases quoteOf_cases s with hq | hq <;> rw [hq] <;> decide
    refine ⟨?_, ⟨_, _, rfl, hq.2.2⟩, ?_, by simp [renderS, cost], by simp [S.toP, flatten]⟩
    · simp only [renderS, List.mem_cons, List.mem_append, not_or]
      have h2' : '\n' ∉ s := by simpa using h2
      exact ⟨fun e => hq.1 e.symm, h2', fun e => hq.1 e.symm, by simp⟩
    · simp only [renderS]
      rw [show quoteOf s :: (s ++ [quoteOf s]) = (quoteOf s :: s) ++ [quoteOf s] from rfl]
      exact endsTight_snoc _ hq.2.1
  | .attr n, h => by
    simp only [S.wf] at h
    obtain ⟨h1, h2, h3⟩ := attrName_facts h
    refine ⟨?_, ⟨'@', n, rfl, by decide⟩, h2, by simp [renderS, cost], by simp [S.toP, flatten]⟩
    simp only [renderS, List.mem_cons, not_or]
    exact ⟨by decide, h1⟩
  | .text, _ => ⟨by simp [renderS], ⟨_, _, rfl, by decide⟩, by intro c hc; simp [renderS] at hc; subst hc; decide, by simp [renderS, cost], by simp [S.toP, flatten]⟩
  | .last, _ => ⟨by simp [renderS], ⟨_, _, rfl, by decide⟩, by intro c hc; simp [renderS] at hc; subst hc; decide, by simp [renderS, cost], by simp [S.toP, flatten]⟩
  | .position, _ => ⟨by simp [renderS], ⟨_, _, rfl, by decide⟩, by intro c hc; simp [renderS] at hc; subst hc; decide, by simp [renderS, cost], by simp [S.toP, flatten]⟩
  | .nspace0, _ => ⟨by simp [renderS], ⟨_, _, rfl, by decide⟩, by intro c hc; simp [renderS] at hc; subst hc; decide, by simp [renderS, cost], by simp [S.toP, flatten]⟩
  | .group p, h => by
    have hp := renderOK nm p (by simpa [S.wf] using h)
    refine ⟨?_, ⟨'(', _, rfl, by decide⟩, ?_, by simp [renderS, cost], by simp [S.toP, flatten]⟩
    · simp only [renderS, List.mem_cons, List.mem_append, not_or]
      exact ⟨by decide, hp.nonl, by decide, by simp⟩
    · simp only [renderS]
      rw [show '(' :: (renderS p ++ [')']) = ('(' :: renderS p) ++ [')'] from rfl]
      exact endsTight_snoc _ (by decide)
  | .nspace1 a, h => by
    have hp := renderOK nm a (by simpa [S.wf] using h)
    refine ⟨?_, ⟨'n', _, rfl, by decide⟩, ?_, by simp [renderS, cost], by simp [S.toP, flatten]⟩
    · simp only [renderS, List.mem_cons, List.mem_append, not_or]
      refine ⟨?_, hp.nonl, by decide, by simp⟩
      decide
    · simp only [renderS, ← List.append_assoc]
      exact endsTight_snoc _ (by decide)
  | .contains a b, h => by
    have hab : S.wf nm a ∧ S.wf nm b := by simpa [S.wf] using h
    have ha := renderOK nm a hab.1
    have hb := renderOK nm b hab.2
    refine ⟨?_, ⟨'c', _, rfl, by decide⟩, ?_, by simp [renderS, cost], by simp [S.toP, flatten]⟩
    · simp only [renderS, List.mem_cons, List.mem_append, not_or]
      refine ⟨?_, ha.nonl, by decide, by decide, hb.nonl, by decide, by simp⟩
      decide
    · simp only [renderS]
      rw [show ['c', 'o', 'n', 't', 'a', 'i', 'n', 's', '('] ++ (renderS a ++ (',' :: ' ' :: (renderS b ++ [')'])))
          = (['c', 'o', 'n', 't', 'a', 'i', 'n', 's', '('] ++ renderS a ++ (',' :: ' ' :: renderS b)) ++ [')'] by simp]
      exact endsTight_snoc _ (by decide)
  | .concat args, h => by
    have hargs : 2 ≤ args.length ∧ S.wfs nm args := by simpa [S.wf] using h
    have hn := renderArgs_nonl nm args hargs.2
    refine ⟨?_, ⟨'c', _, rfl, by decide⟩, ?_, by simp [renderS, cost], by simp [S.toP, flatten]⟩
    · simp only [renderS, List.mem_cons, List.mem_append, not_or]
      refine ⟨?_, hn, by decide, by simp⟩
      decide
    · simp only [renderS, ← List.append_assoc]
      exact endsTight_snoc _ (by decide)
  | .bin o l r, h => by
    have hlr : S.wf nm l ∧ S.wf nm r := by simpa [S.wf] using h
    have hl := renderOK nm l hlr.1
    have hr := renderOK nm r hlr.2
    obtain ⟨c, t, hc, hcs⟩ := hl.head
    obtain ⟨c2, t2, hc2, _⟩ := hr.head
    refine ⟨?_, ⟨c, _, by simp only [renderS, hc, List.cons_append]; rfl, hcs⟩, ?_, ?_, ?_⟩
    · simp only [renderS, List.mem_cons, List.mem_append, not_or]
      refine ⟨hl.nonl, by decide, ?_, by decide, hr.nonl⟩
      rcases o with (_ | _ | _ | _ | _ | _) | (_ | _ | _ | _ | _ | _) | (_ | _) <;> decide
    · simp only [renderS]
      rw [hc2, show renderS l ++ ' ' :: (opText o ++ ' ' :: c2 :: t2) = (renderS l ++ ' ' :: (opText o ++ [' '])) ++ c2 :: t2 by simp]
      rw [endsTight_append_cons, ← hc2]
      exact hr.last
    · have h1 := hl.cost
      have h2 := hr.cost
      simp only [renderS, cost, List.length_append, List.length_cons]
      omega
    · simp [S.toP, flatten]
theorem renderArgs_nonl (nm : Num N) : ∀ (ps : List (S N)), S.wfs nm ps → '\n' ∉ renderArgs ps
  | [], _ => by simp [renderArgs]
  | p :: ps, h => by
    have hh : S.wf nm p ∧ S.wfs nm ps := by simpa [S.wfs] using h
    have hp := renderOK nm p hh.1
    have hps := renderArgs_nonl nm ps hh.2
    simp only [renderArgs, List.mem_append, not_or]
    refine ⟨hp.nonl, ?_⟩
    split
    · simp
    · simp only [List.mem_cons, not_or]
      exact ⟨by decide, by decide, hps⟩
end

theorem wfs_mem (nm : Num N) : ∀ (ps : List (S N)), S.wfs nm ps → ∀ p ∈ ps, S.wf nm p
  | [], _, p, hp => by cases hp
  | q :: qs, h, p, hp => by
    have hh : S.wf nm q ∧ S.wfs nm qs := by simpa [S.wfs] using h
    rcases List.mem_cons.1 hp with rfl | hp'
    · exact hh.1
    · exact wfs_mem nm qs hh.2 p hp'

end AHP.XPath
