/-
  Token-level round trip (C01a, first half): the tokens a tree serialises to rebuild that tree.
-/
import AHP.Lemmas.BuilderTop
namespace AHP

/-- what the public API shows of a tree: names, attribute pairs as the views list them, self-closing flag,
    blocks -/
inductive ONode where
  | text (s : Str)
  | elem (name : Str) (attrs : List Attr) (sc : Bool) (kids : List ONode)
  deriving Repr, Inhabited

mutual
def Node.obs : Node → ONode
  | .text s => .text s
  | .elem n a sc kids => .elem n a.view sc (obsL kids)
def obsL : List Node → List ONode
  | [] => []
  | k :: ks => k.obs :: obsL ks
end

/-- the attribute store a parse of the rendered attributes builds -/
def reintakeA (a : AttrState) : AttrState := intake a.view AttrState.empty

mutual
/-- the tree a parse of the serialisation builds: attribute stores re-read from their rendering,
    empty text blocks gone -/
def Node.reintake : Node → Node
  | .text s => .text s
  | .elem n a sc kids => .elem n (reintakeA a) sc (reintakeL kids)
def reintakeL : List Node → List Node
  | [] => []
  | .text s :: ks => if s.isEmpty then reintakeL ks else .text s :: reintakeL ks
  | .elem n a sc kids :: ks => .elem n (reintakeA a) sc (reintakeL kids) :: reintakeL ks
end

/-- Lexical normal form of a tree: every text block is exactly one text-like token of the tokenizer
    (a data run, an entity / character reference, a comment).  Every tree a parse produces has this form. -/
inductive LNode where
  | tok (t : Token)
  | elem (name : Str) (attrs : AttrState) (sc : Bool) (kids : List LNode)
  deriving Repr, Inhabited

def textOfD (t : Token) : Str := (Spec.textOf t).getD []

mutual
def LNode.toNode : LNode → Node
  | .tok t => .text (textOfD t)
  | .elem n a sc kids => .elem n a sc (toNodeL kids)
def toNodeL : List LNode → List Node
  | [] => []
  | k :: ks => k.toNode :: toNodeL ks
end

mutual
/-- the token sequence of a tree -/
def LNode.toks : LNode → List Token
  | .tok t => [t]
  | .elem n a sc kids =>
      if sc then [.startend n a.view] else .start n a.view :: (toksL kids ++ [.end_ n])
def toksL : List LNode → List Token
  | [] => []
  | k :: ks => k.toks ++ toksL ks
end

mutual
/-- trees in the serialiser's image: text blocks are text-like tokens, names lower-case, void names
    self-closing, self-closing elements empty -/
def LNode.WF : LNode → Prop
  | .tok t => (Spec.textOf t).isSome
  | .elem n _ sc kids => lower n = n ∧ (AHP.isVoid n = true → sc = true) ∧ (sc = true → kids = []) ∧ WFLL kids
def WFLL : List LNode → Prop
  | [] => True
  | k :: ks => k.WF ∧ WFLL ks
end

theorem runT_append (xs ys : List Token) : ∀ s : TState,
    runT s (xs ++ ys) = match runT s xs with
      | .ok s' => runT s' ys
      | .multipleRoot => .multipleRoot
      | .invalidClose => .invalidClose
      | .missedClose => .missedClose
      | .invalidAttr => .invalidAttr := by
  induction xs with
  | nil => intro s; simp [runT]
  | cons x xs ih =>
    intro s
    simp only [List.cons_append, runT]
    cases step : stepT s x <;> simp [ih]

theorem stepT_textlike (s : TState) (hne : s.stack ≠ []) (t : Token) (h : (Spec.textOf t).isSome) :
    stepT s t = .ok (addNode s (.text (textOfD t))) := by
  have hst : (!s.stack.isEmpty) = true := by
    cases hs : s.stack with
    | nil => exact absurd hs hne
    | cons f fs => simp
  cases t with
  | data d =>
    by_cases hd : d.isEmpty = true
    · simp [Spec.textOf, hd] at h
    · simp [stepT, hd, hst, textOfD, Spec.textOf]
  | entity e => simp only [stepT]; rw [stepT_text_ok s hne]; simp [textOfD, Spec.textOf]
  | charref e => simp only [stepT]; rw [stepT_text_ok s hne]; simp [textOfD, Spec.textOf]
  | comment e => simp only [stepT]; rw [stepT_text_ok s hne]; simp [textOfD, Spec.textOf]
  | decl d => simp [Spec.textOf] at h
  | unknownDecl d => simp [Spec.textOf] at h
  | pi d => simp [Spec.textOf] at h
  | start n a => simp [Spec.textOf] at h
  | startend n a => simp [Spec.textOf] at h
  | end_ n => simp [Spec.textOf] at h

theorem textOfD_ne (t : Token) (h : (Spec.textOf t).isSome) : (textOfD t).isEmpty = false := by
  cases t with
  | data d =>
    by_cases hd : d.isEmpty = true
    · simp [Spec.textOf, hd] at h
    · simp [Spec.textOf, textOfD, hd]
  | entity e => simp [Spec.textOf, textOfD]
  | charref e => simp [Spec.textOf, textOfD]
  | comment e => simp [Spec.textOf, textOfD]
  | decl d => simp [Spec.textOf] at h
  | unknownDecl d => simp [Spec.textOf] at h
  | pi d => simp [Spec.textOf] at h
  | start n a => simp [Spec.textOf] at h
  | startend n a => simp [Spec.textOf] at h
  | end_ n => simp [Spec.textOf] at h

mutual
theorem lnode_rt (t : LNode) (h : t.WF) (f : Frame) (fs : List Frame) (r : Option Node) :
    runT ⟨f :: fs, r⟩ t.toks = .ok ⟨{ f with rev := t.toNode.reintake :: f.rev } :: fs, r⟩ := by
  match t, h with
  | .tok tk, h =>
    simp only [LNode.WF] at h
    simp only [LNode.toks, runT]
    rw [stepT_textlike _ (by simp) tk h]
    simp [addNode, LNode.toNode, Node.reintake]
  | .elem n a sc kids, h =>
    simp only [LNode.WF] at h
    obtain ⟨hl, hv, hsc, hk⟩ := h
    unfold LNode.toks
    cases hsc' : sc with
    | true =>
      have : kids = [] := hsc hsc'
      subst this
      simp [runT, stepT, handleStart, TState.hasRoot, addNode, hl, LNode.toNode, toNodeL, Node.reintake, reintakeL, reintakeA]
    | false =>
      have hnv : AHP.isVoid n = false := by
        cases hvv : AHP.isVoid n with
        | false => rfl
        | true => have := hv hvv; simp_all
      simp only [Bool.false_eq_true, if_false, runT]
      have hstart : stepT ⟨f :: fs, r⟩ (.start n a.view)
          = .ok ⟨⟨n, reintakeA a, []⟩ :: f :: fs, r⟩ := by
        simp [stepT, handleStart, TState.hasRoot, hl, hnv, reintakeA]
      rw [hstart]
      simp only
      rw [runT_append]
      have := lforest_rt kids hk ⟨n, reintakeA a, []⟩ (f :: fs) r
      rw [this]
      simp only [List.append_nil]
      have hend : stepT ⟨{ name := n, attrs := reintakeA a, rev := (reintakeL (toNodeL kids)).reverse } :: f :: fs, r⟩ (.end_ n)
          = .ok ⟨{ f with rev := .elem n (reintakeA a) false (reintakeL (toNodeL kids)) :: f.rev } :: fs, r⟩ := by
        simp [stepT, handleEnd, popTo, pop1, addNode, Frame.close]
      simp [runT, hend, LNode.toNode, Node.reintake]
theorem lforest_rt (ks : List LNode) (h : WFLL ks) (f : Frame) (fs : List Frame) (r : Option Node) :
    runT ⟨f :: fs, r⟩ (toksL ks) = .ok ⟨{ f with rev := (reintakeL (toNodeL ks)).reverse ++ f.rev } :: fs, r⟩ := by
  match ks, h with
  | [], _ => simp [toksL, runT, toNodeL, reintakeL]
  | k :: ks, h =>
    simp only [WFLL] at h
    unfold toksL
    rw [runT_append, lnode_rt k h.1 f fs r]
    simp only
    rw [lforest_rt ks h.2]
    have : reintakeL (toNodeL (k :: ks)) = k.toNode.reintake :: reintakeL (toNodeL ks) := by
      cases k with
      | tok tk =>
        have hne := textOfD_ne tk (by simpa [LNode.WF] using h.1)
        simp [toNodeL, LNode.toNode, reintakeL, Node.reintake, hne]
      | elem n a sc kids => simp [toNodeL, LNode.toNode, reintakeL, Node.reintake]
    rw [this]
    simp
end

/-! ### serialisation is insensitive to text segmentation and to re-reading the attributes -/

theorem htmlL_append (xs ys : List Node) : htmlL (xs ++ ys) = htmlL xs ++ htmlL ys := by
  induction xs with
  | nil => simp [htmlL]
  | cons x xs ih => simp [htmlL, ih]

mutual
theorem html_norm (t : Node) : t.norm.html = t.html := by
  match t with
  | .text s => simp [Node.norm]
  | .elem n a sc kids =>
    simp only [Node.norm, Node.html]
    rw [htmlL_norm kids]
theorem htmlL_norm (ks : List Node) : htmlL (normL ks) = htmlL ks := by
  match ks with
  | [] => simp [normL]
  | .text s :: ks =>
    have ih := htmlL_norm ks
    simp only [normL]
    split
    · rename_i s' r heq
      rw [heq] at ih
      simp only [htmlL, Node.html] at ih ⊢
      rw [← ih]; simp
    · rename_i hne
      split
      · rename_i hs
        have : s = [] := by simpa using hs
        subst this
        simp [htmlL, Node.html, ih]
      · simp [htmlL, Node.html, ih]
  | .elem n a sc kids :: ks =>
    simp only [normL, htmlL, Node.html]
    rw [htmlL_norm kids, htmlL_norm ks]
end

/-- the attribute store re-read from its own rendering shows the same pairs -/
def ViewStable (a : AttrState) : Prop := (reintakeA a).view = a.view

mutual
def Node.Stable : Node → Prop
  | .text _ => True
  | .elem _ a _ kids => ViewStable a ∧ StableL kids
def StableL : List Node → Prop
  | [] => True
  | k :: ks => k.Stable ∧ StableL ks
end

mutual
theorem html_reintake (t : Node) (h : t.Stable) : t.reintake.html = t.html := by
  match t, h with
  | .text s, _ => simp [Node.reintake]
  | .elem n a sc kids, h =>
    simp only [Node.Stable] at h
    simp only [Node.reintake, Node.html, startTag, startTagI]
    rw [htmlL_reintake kids h.2, h.1]
theorem htmlL_reintake (ks : List Node) (h : StableL ks) : htmlL (reintakeL ks) = htmlL ks := by
  match ks, h with
  | [], _ => simp [reintakeL]
  | .text s :: ks, h =>
    simp only [StableL] at h
    simp only [reintakeL]
    split
    · rename_i hs
      have : s = [] := by simpa using hs
      subst this
      simp [htmlL, Node.html, htmlL_reintake ks h.2]
    · simp [htmlL, Node.html, htmlL_reintake ks h.2]
  | .elem n a sc kids :: ks, h =>
    simp only [StableL, Node.Stable] at h
    simp only [reintakeL, htmlL, Node.html, startTag, startTagI]
    rw [htmlL_reintake kids h.1.2, htmlL_reintake ks h.2, h.1.1]
end

end AHP
