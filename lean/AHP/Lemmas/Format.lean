/-
  AHP.Lemmas.Format — the formatter's bookkeeping is a function of the tree.

  Specification: `decorate cfg c parent t` walks a tree top-down with a context `c` (number of proper non-wrapper
  ancestors, number of pre/code ancestors) and says what the formatter makes of each node: which `_indent`
  an element gets, which text blocks are squeezed.  Central result (`feed_eq_decorate`): for every token
  sequence the formatter's state — built with counters that are incremented and decremented along pushes, explicit
  and implicit pops — is the decorated image of the plain parser's state on the same tokens.
-/
import AHP.Model.Format
namespace AHP.Fmt
open AHP

/-- Where a node sits: `level` = proper ancestors other than the invisible wrapper, `inPre` = pre/code ancestors. -/
structure Ctx where
  level : Nat
  inPre : Nat
  deriving DecidableEq, Repr

/-- the context of the children of an element `name` that sits in context `c` -/
def Ctx.push (c : Ctx) (name : Str) : Ctx :=
  ⟨if name ≠ wrapper then c.level + 1 else c.level, if isPre name then c.inPre + 1 else c.inPre⟩

/-- the `_indent` of an element in context `c` -/
def indentAt (cfg : Cfg) (c : Ctx) : Str := if c.inPre = 0 then getIndent cfg (c.level : Int) else []

mutual
def decorate (cfg : Cfg) (c : Ctx) (parent : Str) : Node → Node
  | .text true s => .text true s
  | .text false s => .text false (if c.inPre = 0 && !isPreserve parent then squeeze s else s)
  | .elem _ n st sc _ kids => .elem cfg.kind n st sc (indentAt cfg c) (decorateL cfg (c.push n) n kids)
def decorateL (cfg : Cfg) (c : Ctx) (parent : Str) : List Node → List Node
  | [] => []
  | x :: xs => decorate cfg c parent x :: decorateL cfg c parent xs
end

theorem decorateL_eq_map (cfg : Cfg) (c : Ctx) (p : Str) (l : List Node) :
    decorateL cfg c p l = l.map (decorate cfg c p) := by
  induction l with
  | nil => simp [decorateL]
  | cons x xs ih => simp [decorateL, ih]

theorem decorateL_reverse (cfg : Cfg) (c : Ctx) (p : Str) (l : List Node) :
    decorateL cfg c p l.reverse = (decorateL cfg c p l).reverse := by
  simp [decorateL_eq_map]

/-- context of the children of the innermost open element -/
def ctxOf : List Frame → Ctx
  | [] => ⟨0, 0⟩
  | f :: fs => (ctxOf fs).push f.name

/-- name of the innermost open element (`[]` when none) -/
def topName : List Frame → Str
  | [] => []
  | f :: _ => f.name

/-- the formatter's open-element stack as a function of the plain parser's -/
def decFrames (cfg : Cfg) : List Frame → List Frame
  | [] => []
  | f :: fs => ⟨cfg.kind, f.name, f.st, indentAt cfg (ctxOf fs), decorateL cfg (ctxOf (f :: fs)) f.name f.rev⟩
               :: decFrames cfg fs

def dec0 (cfg : Cfg) : Node → Node := decorate cfg ⟨0, 0⟩ []

/-- the formatter's whole state as a function of the plain parser's -/
def decSt (cfg : Cfg) (s : St) : St :=
  { stack := decFrames cfg s.stack, closed := s.closed.map (dec0 cfg), doctype := s.doctype,
    level := ((ctxOf s.stack).level : Int), inPre := ((ctxOf s.stack).inPre : Int) }

/-- only the outermost open element may be the invisible wrapper -/
def WF : List Frame → Prop
  | [] => True
  | [_] => True
  | f :: g :: r => f.name ≠ wrapper ∧ WF (g :: r)

def mapOk (f : St → St) : Except Err St → Except Err St
  | .ok s => .ok (f s)
  | .error e => .error e

/-! #### small facts -/

@[simp] theorem decFrames_isEmpty (cfg : Cfg) (fs : List Frame) : (decFrames cfg fs).isEmpty = fs.isEmpty := by
  cases fs <;> simp [decFrames]

@[simp] theorem decFrames_length (cfg : Cfg) (fs : List Frame) : (decFrames cfg fs).length = fs.length := by
  induction fs with
  | nil => simp [decFrames]
  | cons f fs ih => simp [decFrames, ih]

theorem decFrames_any (cfg : Cfg) (name : Str) (fs : List Frame) :
    (decFrames cfg fs).any (fun f => f.name = name) = fs.any (fun f => f.name = name) := by
  induction fs with
  | nil => simp [decFrames]
  | cons f fs ih => simp [decFrames, ih]

@[simp] theorem decSt_noRoot (cfg : Cfg) (s : St) : (decSt cfg s).noRoot = s.noRoot := by
  simp [St.noRoot, decSt]

theorem ctxOf_attach (n : Node) (fs : List Frame) (c : Option Node) : ctxOf (attach n fs c).1 = ctxOf fs := by
  cases fs <;> simp [attach, ctxOf]

theorem topName_attach (n : Node) (fs : List Frame) (c : Option Node) : topName (attach n fs c).1 = topName fs := by
  cases fs <;> simp [attach, topName]

/-- attaching a decorated block to the decorated stack = decorating after attaching -/
theorem attach_dec (cfg : Cfg) (n : Node) (fs : List Frame) (c : Option Node) :
    attach (decorate cfg (ctxOf fs) (topName fs) n) (decFrames cfg fs) (c.map (dec0 cfg))
      = (decFrames cfg (attach n fs c).1, (attach n fs c).2.map (dec0 cfg)) := by
  cases fs with
  | nil => simp [attach, decFrames, ctxOf, topName, dec0]
  | cons f r => simp [attach, decFrames, ctxOf, topName, decorateL]

/-- closing a decorated frame = decorating the closed element (in its parent's context; `p` is irrelevant) -/
theorem close_dec (cfg : Cfg) (f : Frame) (fs : List Frame) (p : Str) :
    (Frame.close ⟨cfg.kind, f.name, f.st, indentAt cfg (ctxOf fs), decorateL cfg (ctxOf (f :: fs)) f.name f.rev⟩)
      = decorate cfg (ctxOf fs) p f.close := by
  simp [Frame.close, decorate, ctxOf, decorateL_reverse]

/-! #### start tags -/

/-- the common body of `handle_starttag` and `handle_starttag_slim` -/
def handleStartK (cfg : Cfg) (k : Kind) (s : St) (name0 : Str) (attrs : List (Str × Option Str)) (sc0 : Bool) : Except Err St :=
  let name := lower name0
  let sc := sc0 || isVoid name
  let st := mkStore attrs {}
  if !s.noRoot && s.stack.isEmpty then .error .multipleRoot
  else
      let indent := if s.inPre = 0 then getIndent cfg s.level else []
      if sc then
        let p := attach (.elem k name st true indent []) s.stack s.closed
        .ok { s with stack := p.1, closed := p.2 }
      else
        .ok { s with stack := ⟨k, name, st, indent, []⟩ :: s.stack,
                     level := if name ≠ wrapper then s.level + 1 else s.level,
                     inPre := if isPre name then s.inPre + 1 else s.inPre }

/-- the two start-tag handlers are the same code up to the element class they instantiate -/
theorem startHandler_eq (cfg : Cfg) : startHandler cfg = handleStartK cfg cfg.kind := by
  unfold startHandler
  cases cfg.kind <;> rfl

theorem indent_dec (cfg : Cfg) (s : St) :
    (if (decSt cfg s).inPre = 0 then getIndent cfg (decSt cfg s).level else []) = indentAt cfg (ctxOf s.stack) := by
  simp [decSt, indentAt]

theorem start_dec (cfg : Cfg) (s : St) (n : Str) (a : List (Str × Option Str)) (sc : Bool) :
    startHandler cfg (decSt cfg s) n a sc = mapOk (decSt cfg) (Plain.handleStart s n a sc) := by
  rw [startHandler_eq]
  unfold handleStartK Plain.handleStart
  simp only [decSt_noRoot, indent_dec]
  have hst : (decSt cfg s).stack = decFrames cfg s.stack := rfl
  have hcl : (decSt cfg s).closed = s.closed.map (dec0 cfg) := rfl
  rw [hst, hcl, decFrames_isEmpty]
  by_cases h1 : (!s.noRoot && s.stack.isEmpty) = true
  · simp [h1, mapOk]
  · simp only [h1, Bool.false_eq_true, if_false]
    by_cases h2 : (sc || isVoid (lower n)) = true
    · simp only [h2, if_true, mapOk]
      have hd : Node.elem cfg.kind (lower n) (mkStore a {}) true (indentAt cfg (ctxOf s.stack)) []
          = decorate cfg (ctxOf s.stack) (topName s.stack) (.elem .normal (lower n) (mkStore a {}) true [] []) := by
        simp [decorate, decorateL]
      rw [hd, attach_dec]
      simp [decSt, ctxOf_attach]
    · simp only [h2, Bool.false_eq_true, if_false, mapOk]
      simp only [decSt, decFrames, ctxOf, Ctx.push, decorateL]
      congr 1
      simp only [St.mk.injEq, true_and]
      refine ⟨?_, ?_⟩
      · split <;> simp
      · split <;> simp

/-! #### end tags -/

theorem WF_tail {f : Frame} {fs : List Frame} (h : WF (f :: fs)) : WF fs := by
  cases fs with
  | nil => trivial
  | cons g r => exact h.2

theorem WF_attach (n : Node) (fs : List Frame) (c : Option Node) (h : WF fs) : WF (attach n fs c).1 := by
  cases fs with
  | nil => simp [attach, WF]
  | cons f r =>
    cases r with
    | nil => simp [attach, WF]
    | cons g r' => simpa [attach, WF] using h

/-- one implicit pop: needs the popped element not to be the wrapper (it is not the outermost one) -/
theorem popImplicit_dec (cfg : Cfg) (s : St) (f : Frame) (fs : List Frame) (hs : s.stack = f :: fs)
    (hw : f.name ≠ wrapper) : popImplicit (decSt cfg s) = decSt cfg (Plain.pop s) := by
  unfold popImplicit Plain.pop
  have hst : (decSt cfg s).stack = decFrames cfg s.stack := rfl
  have hcl : (decSt cfg s).closed = s.closed.map (dec0 cfg) := rfl
  rw [hst, hcl, hs]
  simp only [decFrames]
  rw [close_dec cfg f fs (topName fs), attach_dec]
  simp only [decSt, hs, ctxOf, Ctx.push, ctxOf_attach]
  have e1 : ((if f.name ≠ wrapper then (ctxOf fs).level + 1 else (ctxOf fs).level : Nat) : Int) - 1
      = ((ctxOf fs).level : Int) := by simp [hw]
  have e2 : (if isPre f.name = true
        then ((if isPre f.name = true then (ctxOf fs).inPre + 1 else (ctxOf fs).inPre : Nat) : Int) - 1
        else ((if isPre f.name = true then (ctxOf fs).inPre + 1 else (ctxOf fs).inPre : Nat) : Int))
      = ((ctxOf fs).inPre : Int) := by
    by_cases hp : isPre f.name = true <;> simp [hp]
  rw [e1, e2]

theorem pop_stack (s : St) (f : Frame) (fs : List Frame) (hs : s.stack = f :: fs) :
    (Plain.pop s).stack = (attach f.close fs s.closed).1 := by
  simp [Plain.pop, hs]

theorem any_attach (name : Str) (n : Node) (fs : List Frame) (c : Option Node) :
    (attach n fs c).1.any (fun f => f.name = name) = fs.any (fun f => f.name = name) := by
  cases fs <;> simp [attach]

theorem length_attach (n : Node) (fs : List Frame) (c : Option Node) : (attach n fs c).1.length = fs.length := by
  cases fs <;> simp [attach]

/-- the `while` loop of `handle_endtag`, given that a matching element is open -/
theorem endLoop_dec (cfg : Cfg) (name : Str) : ∀ (k : Nat) (s : St), WF s.stack →
    s.stack.any (fun f => f.name = name) = true →
    endLoop name k (decSt cfg s) = decSt cfg (Plain.endLoop name k s)
    ∧ WF (Plain.endLoop name k s).stack
    ∧ (Plain.endLoop name k s).stack.any (fun f => f.name = name) = true
    ∧ (s.stack.length ≤ k → topName (Plain.endLoop name k s).stack = name) := by
  intro k
  induction k with
  | zero =>
    intro s hwf hany
    refine ⟨by simp [endLoop, Plain.endLoop], by simpa [Plain.endLoop] using hwf, by simpa [Plain.endLoop] using hany, ?_⟩
    intro hl
    have : s.stack = [] := by cases h : s.stack with
      | nil => rfl
      | cons a b => simp [h] at hl
    simp [this] at hany
  | succ k ih =>
    intro s hwf hany
    cases hs : s.stack with
    | nil => simp [hs] at hany
    | cons f fs =>
      have hst : (decSt cfg s).stack = decFrames cfg s.stack := rfl
      by_cases hn : f.name = name
      · have e1 : Plain.endLoop name (k+1) s = s := by simp [Plain.endLoop, hs, hn]
        have e2 : endLoop name (k+1) (decSt cfg s) = decSt cfg s := by
          simp [endLoop, hst, hs, decFrames, hn]
        rw [e1, e2]
        refine ⟨rfl, hwf, hany, ?_⟩
        intro _
        simp [hs, topName, hn]
      · have hany' : fs.any (fun f => f.name = name) = true := by
          simpa [hs, hn] using hany
        have hw : f.name ≠ wrapper := by
          cases fs with
          | nil => simp at hany'
          | cons g r => rw [hs] at hwf; exact hwf.1
        have e1 : Plain.endLoop name (k+1) s = Plain.endLoop name k (Plain.pop s) := by
          simp [Plain.endLoop, hs, hn]
        have e2 : endLoop name (k+1) (decSt cfg s) = endLoop name k (popImplicit (decSt cfg s)) := by
          simp [endLoop, hst, hs, decFrames, hn]
        have hps := pop_stack s f fs hs
        have hwf' : WF (Plain.pop s).stack := by
          rw [hps]; exact WF_attach _ _ _ (by rw [hs] at hwf; exact WF_tail hwf)
        have hany'' : (Plain.pop s).stack.any (fun f => f.name = name) = true := by
          rw [hps, any_attach]; exact hany'
        obtain ⟨i1, i2, i3, i4⟩ := ih (Plain.pop s) hwf' hany''
        rw [e1, e2, popImplicit_dec cfg s f fs hs hw]
        refine ⟨i1, i2, i3, ?_⟩
        intro hl
        apply i4
        rw [hps, length_attach]
        simp at hl
        omega

/-- the final, explicit pop of `handle_endtag` (the closed element is the named one, wrapper or not) -/
theorem popExplicit_dec (cfg : Cfg) (s : St) (f : Frame) (fs : List Frame) (hs : s.stack = f :: fs) :
    popExplicit f.name (decSt cfg s) = decSt cfg (Plain.pop s) := by
  unfold popExplicit Plain.pop
  have hst : (decSt cfg s).stack = decFrames cfg s.stack := rfl
  have hcl : (decSt cfg s).closed = s.closed.map (dec0 cfg) := rfl
  rw [hst, hcl, hs]
  simp only [decFrames]
  rw [close_dec cfg f fs (topName fs), attach_dec]
  simp only [decSt, hs, ctxOf, Ctx.push, ctxOf_attach]
  have e1 : (if f.name ≠ wrapper
        then ((if f.name ≠ wrapper then (ctxOf fs).level + 1 else (ctxOf fs).level : Nat) : Int) - 1
        else ((if f.name ≠ wrapper then (ctxOf fs).level + 1 else (ctxOf fs).level : Nat) : Int))
      = ((ctxOf fs).level : Int) := by
    by_cases hp : f.name = wrapper <;> simp [hp]
  have e2 : (if isPre f.name = true
        then ((if isPre f.name = true then (ctxOf fs).inPre + 1 else (ctxOf fs).inPre : Nat) : Int) - 1
        else ((if isPre f.name = true then (ctxOf fs).inPre + 1 else (ctxOf fs).inPre : Nat) : Int))
      = ((ctxOf fs).inPre : Int) := by
    by_cases hp : isPre f.name = true <;> simp [hp]
  rw [e1, e2]

theorem handleEnd_dec (cfg : Cfg) (s : St) (name : Str) (hwf : WF s.stack) :
    handleEnd (decSt cfg s) name = decSt cfg (Plain.handleEnd s name) ∧ WF (Plain.handleEnd s name).stack := by
  unfold handleEnd Plain.handleEnd
  have hst : (decSt cfg s).stack = decFrames cfg s.stack := rfl
  rw [hst, decFrames_any, decFrames_length]
  by_cases hany : s.stack.any (fun f => f.name = name) = true
  · simp only [hany, Bool.not_true, Bool.false_eq_true, if_false]
    obtain ⟨i1, i2, i3, i4⟩ := endLoop_dec cfg name s.stack.length s hwf hany
    rw [i1]
    have htop := i4 (Nat.le_refl _)
    cases hs1 : (Plain.endLoop name s.stack.length s).stack with
    | nil => simp [hs1] at i3
    | cons f fs =>
      have hn : f.name = name := by simpa [hs1, topName] using htop
      refine ⟨?_, ?_⟩
      · have := popExplicit_dec cfg _ f fs hs1
        rw [hn] at this; exact this
      · rw [pop_stack _ f fs hs1]
        exact WF_attach _ _ _ (by rw [hs1] at i2; exact WF_tail i2)
  · have hany' : s.stack.any (fun f => f.name = name) = false := by simpa using hany
    simp only [hany', Bool.not_false, if_true]
    exact ⟨trivial, hwf⟩

/-! #### text -/

theorem appendText_dec (cfg : Cfg) (s : St) (f : Frame) (fs : List Frame) (hs : s.stack = f :: fs) (verb : Bool)
    (t t' : Str) (ht : decorate cfg (ctxOf (f :: fs)) f.name (.text verb t) = .text verb t') :
    appendText (decSt cfg s) verb t' = decSt cfg (appendText s verb t) := by
  unfold appendText
  have hst : (decSt cfg s).stack = decFrames cfg s.stack := rfl
  rw [hst, hs]
  simp only [decFrames]
  simp only [decSt, hs, decFrames, ctxOf, decorateL]
  rw [← ht]
  simp [ctxOf]

theorem handleData_dec (cfg : Cfg) (s : St) (d : Str) :
    handleData (decSt cfg s) d = mapOk (decSt cfg) (Plain.handleData s d) := by
  unfold handleData Plain.handleData
  by_cases hd : d.isEmpty = true
  · simp [hd, mapOk]
  · simp only [hd, Bool.false_eq_true, if_false]
    have hst : (decSt cfg s).stack = decFrames cfg s.stack := rfl
    rw [hst]
    cases hs : s.stack with
    | nil =>
      simp only [decFrames]
      by_cases hb : (pyStrip d).isEmpty = true <;> simp [hb, mapOk]
    | cons f fs =>
      simp only [decFrames, mapOk]
      congr 1
      apply appendText_dec cfg s f fs hs
      simp [decorate, decSt, hs]

theorem handleVerbatim_dec (cfg : Cfg) (s : St) (t : Str) :
    handleVerbatim (decSt cfg s) t = mapOk (decSt cfg) (handleVerbatim s t) := by
  unfold handleVerbatim
  have hst : (decSt cfg s).stack = decFrames cfg s.stack := rfl
  rw [hst, decFrames_isEmpty]
  cases hs : s.stack with
  | nil => simp [mapOk]
  | cons f fs =>
    simp only [List.isEmpty_cons, Bool.false_eq_true, if_false, mapOk]
    congr 1
    apply appendText_dec cfg s f fs hs
    simp [decorate]

/-! #### one token, a token sequence, both passes -/

/-- the (lower-cased) element name a start token creates -/
def Tok.startName? : Tok → Option Str
  | .start n _ => some (lower n)
  | .startend n _ => some (lower n)
  | _ => none

/-- tokens that cannot open an element -/
def Tok.keepsEmpty : Tok → Bool
  | .start .. => false
  | .startend .. => false
  | _ => true

/-- No element of the input is named like the invisible wrapper (the property's domain excludes the reserved name);
    `e` = "nothing is open yet", in which case a wrapper start tag is allowed (that is where `feed` puts it). -/
def Safe : Bool → List Tok → Prop
  | _, [] => True
  | e, t :: ts => (t.startName? ≠ some wrapper ∨ e = true) ∧ Safe (e && t.keepsEmpty) ts

def NoWrapperStart (toks : List Tok) : Prop := ∀ t ∈ toks, t.startName? ≠ some wrapper

theorem WF_push (f : Frame) (fs : List Frame) (h : WF fs) (hn : f.name ≠ wrapper ∨ fs = []) : WF (f :: fs) := by
  cases fs with
  | nil => trivial
  | cons g r =>
    rcases hn with hn | hn
    · exact ⟨hn, h⟩
    · simp at hn

theorem plainStart_WF (s s' : St) (n : Str) (a : List (Str × Option Str)) (sc : Bool) (hwf : WF s.stack)
    (hn : lower n ≠ wrapper ∨ s.stack = []) (h : Plain.handleStart s n a sc = .ok s') : WF s'.stack := by
  unfold Plain.handleStart at h
  by_cases h1 : (!s.noRoot && s.stack.isEmpty) = true
  · simp [h1] at h
  · simp only [h1, Bool.false_eq_true, if_false] at h
    by_cases h2 : (sc || isVoid (lower n)) = true
    · simp only [h2, if_true, Except.ok.injEq] at h
      rw [← h]; exact WF_attach _ _ _ hwf
    · simp only [h2, Bool.false_eq_true, if_false, Except.ok.injEq] at h
      rw [← h]; exact WF_push _ _ hwf hn

theorem appendText_stack_WF (s : St) (v : Bool) (t : Str) (h : WF s.stack) : WF (appendText s v t).stack := by
  unfold appendText
  cases hs : s.stack with
  | nil => simpa [hs] using h
  | cons f r =>
    rw [hs] at h
    cases r with
    | nil => simp [WF]
    | cons g r' => simpa [WF] using h

theorem step_dec (cfg : Cfg) (s : St) (t : Tok) (hwf : WF s.stack)
    (ht : t.startName? ≠ some wrapper ∨ s.stack = []) :
    step cfg (decSt cfg s) t = mapOk (decSt cfg) (Plain.step s t)
    ∧ (∀ s', Plain.step s t = .ok s' → WF s'.stack) := by
  cases t with
  | start n a =>
    refine ⟨by simpa [step, Plain.step] using start_dec cfg s n a false, ?_⟩
    intro s' h
    exact plainStart_WF s s' n a false hwf (by simpa [Tok.startName?] using ht) (by simpa [Plain.step] using h)
  | startend n a =>
    refine ⟨by simpa [step, Plain.step] using start_dec cfg s n a true, ?_⟩
    intro s' h
    exact plainStart_WF s s' n a true hwf (by simpa [Tok.startName?] using ht) (by simpa [Plain.step] using h)
  | end_ n =>
    obtain ⟨h1, h2⟩ := handleEnd_dec cfg s n hwf
    refine ⟨by simp [step, Plain.step, mapOk, h1], ?_⟩
    intro s' h
    simp only [Plain.step, Except.ok.injEq] at h
    rw [← h]; exact h2
  | data d =>
    refine ⟨by simpa [step, Plain.step] using handleData_dec cfg s d, ?_⟩
    intro s' h
    simp only [Plain.step, Plain.handleData] at h
    by_cases hd : d.isEmpty = true
    · simp [hd] at h; rw [← h]; exact hwf
    · simp only [hd, Bool.false_eq_true, if_false] at h
      cases hs : s.stack with
      | nil =>
        rw [hs] at h
        by_cases hb : (pyStrip d).isEmpty = true
        · simp [hb] at h; rw [← h, hs]; trivial
        · simp [hb] at h
      | cons f r =>
        rw [hs] at h
        simp only [Except.ok.injEq] at h
        rw [← h]; exact appendText_stack_WF s false d hwf
  | entity e =>
    refine ⟨by simpa [step, Plain.step] using handleVerbatim_dec cfg s _, ?_⟩
    intro s' h
    simp only [Plain.step, handleVerbatim] at h
    by_cases he : s.stack.isEmpty = true
    · simp [he] at h
    · simp only [he, Bool.false_eq_true, if_false, Except.ok.injEq] at h
      rw [← h]; exact appendText_stack_WF s true _ hwf
  | charref e =>
    refine ⟨by simpa [step, Plain.step] using handleVerbatim_dec cfg s _, ?_⟩
    intro s' h
    simp only [Plain.step, handleVerbatim] at h
    by_cases he : s.stack.isEmpty = true
    · simp [he] at h
    · simp only [he, Bool.false_eq_true, if_false, Except.ok.injEq] at h
      rw [← h]; exact appendText_stack_WF s true _ hwf
  | comment e =>
    refine ⟨by simpa [step, Plain.step] using handleVerbatim_dec cfg s _, ?_⟩
    intro s' h
    simp only [Plain.step, handleVerbatim] at h
    by_cases he : s.stack.isEmpty = true
    · simp [he] at h
    · simp only [he, Bool.false_eq_true, if_false, Except.ok.injEq] at h
      rw [← h]; exact appendText_stack_WF s true _ hwf
  | decl d =>
    refine ⟨by simp [step, Plain.step, mapOk, decSt], ?_⟩
    intro s' h
    simp only [Plain.step, Except.ok.injEq] at h
    rw [← h]; exact hwf
  | unknownDecl d =>
    refine ⟨?_, ?_⟩
    · simp only [step, Plain.step, mapOk]
      have : (decSt cfg s).doctype = s.doctype := rfl
      rw [this]
      by_cases hd : truthy s.doctype = true <;> simp [hd, decSt]
    · intro s' h
      simp only [Plain.step, Except.ok.injEq] at h
      rw [← h]
      by_cases hd : truthy s.doctype = true <;> simp [hd] <;> exact hwf
  | pi d =>
    refine ⟨by simp [step, Plain.step, mapOk], ?_⟩
    intro s' h
    simp only [Plain.step, Except.ok.injEq] at h
    rw [← h]; exact hwf

theorem keepsEmpty_stack (s s' : St) (t : Tok) (hk : t.keepsEmpty = true) (he : s.stack = [])
    (h : Plain.step s t = .ok s') : s'.stack = [] := by
  cases t with
  | start n a => simp [Tok.keepsEmpty] at hk
  | startend n a => simp [Tok.keepsEmpty] at hk
  | end_ n =>
    simp only [Plain.step, Plain.handleEnd, he, Except.ok.injEq] at h
    rw [← h]; simp [he]
  | data d =>
    simp only [Plain.step, Plain.handleData, he] at h
    by_cases hd : d.isEmpty = true
    · simp [hd] at h; rw [← h]; exact he
    · by_cases hb : (pyStrip d).isEmpty = true
      · simp [hd, hb] at h; rw [← h]; exact he
      · simp [hd, hb] at h
  | entity e => simp [Plain.step, handleVerbatim, he] at h
  | charref e => simp [Plain.step, handleVerbatim, he] at h
  | comment e => simp [Plain.step, handleVerbatim, he] at h
  | decl d => simp only [Plain.step, Except.ok.injEq] at h; rw [← h]; exact he
  | unknownDecl d =>
    simp only [Plain.step, Except.ok.injEq] at h
    rw [← h]; by_cases hd : truthy s.doctype = true <;> simp [hd, he]
  | pi d => simp only [Plain.step, Except.ok.injEq] at h; rw [← h]; exact he

theorem run_dec (cfg : Cfg) : ∀ (toks : List Tok) (s : St) (e : Bool), WF s.stack → Safe e toks →
    (e = true → s.stack = []) →
    run cfg toks (decSt cfg s) = mapOk (decSt cfg) (Plain.run toks s) := by
  intro toks
  induction toks with
  | nil => intro s e _ _ _; simp [run, Plain.run, mapOk]
  | cons t ts ih =>
    intro s e hwf hsafe he
    have ht : t.startName? ≠ some wrapper ∨ s.stack = [] := by
      rcases hsafe.1 with h | h
      · exact Or.inl h
      · exact Or.inr (he h)
    obtain ⟨h1, h2⟩ := step_dec cfg s t hwf ht
    simp only [run, Plain.run, h1]
    cases hp : Plain.step s t with
    | error err => simp [mapOk]
    | ok s' =>
      simp only [mapOk]
      apply ih s' (e && t.keepsEmpty) (h2 s' hp) hsafe.2
      intro hek
      simp only [Bool.and_eq_true] at hek
      exact keepsEmpty_stack s s' t hek.2 (he hek.1) hp

theorem safe_of_noWrapper (toks : List Tok) (h : NoWrapperStart toks) : ∀ e, Safe e toks := by
  induction toks with
  | nil => intro e; trivial
  | cons t ts ih =>
    intro e
    exact ⟨Or.inl (h t (by simp)), ih (fun t' ht' => h t' (by simp [ht'])) _⟩

theorem safe_append_end (toks : List Tok) (n : Str) (h : NoWrapperStart toks) : NoWrapperStart (toks ++ [Tok.end_ n]) := by
  intro t ht
  simp only [List.mem_append, List.mem_singleton] at ht
  rcases ht with ht | ht
  · exact h t ht
  · simp [ht, Tok.startName?]

/-- the second pass puts the wrapper start tag where nothing is open yet -/
theorem safe_wrapToks (toks : List Tok) (h : NoWrapperStart toks) : Safe true (wrapToks toks) := by
  have base : ∀ l : List Tok, NoWrapperStart l → Safe true (Tok.start wrapper [] :: l ++ [Tok.end_ wrapper]) := by
    intro l hl
    exact ⟨Or.inr rfl, safe_of_noWrapper _ (safe_append_end l wrapper hl) _⟩
  unfold wrapToks
  split
  · rename_i d rest
    have hrest : NoWrapperStart rest := fun t ht => h t (by simp [ht])
    by_cases hd : isDoctype d = true
    · simp only [hd, if_true]
      exact ⟨Or.inl (by simp [Tok.startName?]), by simpa [Tok.keepsEmpty] using base rest hrest⟩
    · simp only [hd, Bool.false_eq_true, if_false]
      exact base _ h
  · rename_i sd d rest
    have hrest : NoWrapperStart rest := fun t ht => h t (by simp [ht])
    by_cases hd : (doctypeLead sd && isDoctype d) = true
    · simp only [hd, if_true]
      refine ⟨Or.inl (by simp [Tok.startName?]), Or.inl (by simp [Tok.startName?]), ?_⟩
      simpa [Tok.keepsEmpty] using base rest hrest
    · simp only [hd, Bool.false_eq_true, if_false]
      exact base _ h
  · exact base _ h

theorem decSt_init (cfg : Cfg) : decSt cfg {} = {} := by
  simp [decSt, decFrames, ctxOf]

/-- **The formatter's state is the decorated image of the plain parser's state, for every token sequence**
    (both passes of `feed`), provided no element is named like the invisible wrapper. -/
theorem feed_dec (cfg : Cfg) (toks : List Tok) (h : NoWrapperStart toks) :
    feed cfg toks = mapOk (decSt cfg) (Plain.feed toks) := by
  unfold feed Plain.feed
  have h1 := run_dec cfg toks {} false trivial (safe_of_noWrapper toks h false) (by simp)
  have h2 := run_dec cfg (wrapToks toks) {} true trivial (safe_wrapToks toks h) (fun _ => rfl)
  rw [decSt_init] at h1 h2
  rw [h1]
  cases hp : Plain.run toks {} with
  | ok s => simp [mapOk]
  | error e =>
    cases e with
    | multipleRoot => simpa [mapOk] using h2
    | noRoot => simp [mapOk]

/-! #### the finished tree -/

theorem rootOfStack_dec (cfg : Cfg) : ∀ (n : Nat) (fs : List Frame) (c : Option Node), fs.length = n →
    rootOfStack (decFrames cfg fs) (c.map (dec0 cfg)) = (rootOfStack fs c).map (dec0 cfg) := by
  intro n
  induction n with
  | zero =>
    intro fs c hl
    have : fs = [] := List.length_eq_zero_iff.mp hl
    subst this
    simp [decFrames, rootOfStack]
  | succ n ih =>
    intro fs c hl
    cases fs with
    | nil => simp at hl
    | cons f r =>
      simp only [decFrames]
      rw [rootOfStack, rootOfStack]
      rw [close_dec cfg f r (topName r), attach_dec]
      apply ih
      rw [length_attach]
      simpa using hl

theorem root_dec (cfg : Cfg) (s : St) : (decSt cfg s).root = s.root.map (dec0 cfg) := by
  unfold St.root
  exact rootOfStack_dec cfg _ s.stack s.closed rfl

/-- **C11/C12 core**: for every token sequence, the document the formatter serialises is the plain parser's
    document with every element's `_indent` and every data block rewritten as `decorate` says — a function of the
    position in the tree only. -/
theorem format_tree (cfg : Cfg) (toks : List Tok) (h : NoWrapperStart toks) :
    (match Plain.feed toks with
     | .ok ps => ∃ fs, feed cfg toks = .ok fs ∧ fs.root = ps.root.map (dec0 cfg) ∧ fs.doctype = ps.doctype
     | .error e => feed cfg toks = .error e) := by
  rw [feed_dec cfg toks h]
  cases Plain.feed toks with
  | ok ps => exact ⟨decSt cfg ps, rfl, root_dec cfg ps, rfl⟩
  | error e => rfl

end AHP.Fmt
