/-
  AHP.Lemmas.Format — the formatter's bookkeeping is a function of the tree.

  Specification: `decorate cfg c parent t` walks a tree top-down with a context `c` (number of proper non-wrapper
  ancestors, number of pre/code ancestors) and says what the formatter makes of each node: which `_indent`
  an element gets, which text blocks are squeezed.  Central result (`feed_eq_decorate`): for every token
  sequence the formatter's state — built with counters that are incremented and decremented along pushes, explicit
  and implicit pops — is the decorated image of the plain parser's state on the same tokens.
-/
import AHP.Model.Format
import AHP.Lemmas.Squeeze
namespace AHP.Fmt
open AHP

/-- Where a node sits: `level` = proper ancestors other than the invisible wrapper, `inPre` = pre/code ancestors. -/
structure Ctx where
  level : Nat
  inPre : Nat
  deriving DecidableEq, Repr

/-- the context of the children of an element `name` that sits in context `c` -/
def Ctx.push (c : Ctx) (name : Str) : Ctx :=
  ⟨if name ≠ wrapper then c.level + 1 else c.level, if isPre name then c.inPre + 1 else c.inPre⟩

/-- the `_indent` of an element in context `c` -/
def indentAt (cfg : Cfg) (c : Ctx) : Str := if c.inPre = 0 then getIndent cfg (c.level : Int) else []

mutual
def decorate (cfg : Cfg) (c : Ctx) (parent : Str) : Node → Node
  | .text true s => .text true s
  | .text false s => .text false (if c.inPre = 0 && !isPreserve parent then squeeze s else s)
  | .elem _ n st sc _ kids => .elem cfg.kind n st sc (indentAt cfg c) (decorateL cfg (c.push n) n kids)
def decorateL (cfg : Cfg) (c : Ctx) (parent : Str) : List Node → List Node
  | [] => []
  | x :: xs => decorate cfg c parent x :: decorateL cfg c parent xs
end

theorem decorateL_eq_map (cfg : Cfg) (c : Ctx) (p : Str) (l : List Node) :
    decorateL cfg c p l = l.map (decorate cfg c p) := by
  induction l with
  | nil => simp [decorateL]
  | cons x xs ih => simp [decorateL, ih]

theorem decorateL_reverse (cfg : Cfg) (c : Ctx) (p : Str) (l : List Node) :
    decorateL cfg c p l.reverse = (decorateL cfg c p l).reverse := by
  simp [decorateL_eq_map]

/-- context of the children of the innermost open element -/
def ctxOf : List Frame → Ctx
  | [] => ⟨0, 0⟩
  | f :: fs => (ctxOf fs).push f.name

/-- name of the innermost open element (`[]` when none) -/
def topName : List Frame → Str
  | [] => []
  | f :: _ => f.name

/-- the formatter's open-element stack as a function of the plain parser's -/
def decFrames (cfg : Cfg) : List Frame → List Frame
  | [] => []
  | f :: fs => ⟨cfg.kind, f.name, f.st, indentAt cfg (ctxOf fs), decorateL cfg (ctxOf (f :: fs)) f.name f.rev⟩
               :: decFrames cfg fs

def dec0 (cfg : Cfg) : Node → Node := decorate cfg ⟨0, 0⟩ []

/-- the formatter's whole state as a function of the plain parser's -/
def decSt (cfg : Cfg) (s : St) : St :=
  { stack := decFrames cfg s.stack, closed := s.closed.map (dec0 cfg), doctype := s.doctype,
    level := ((ctxOf s.stack).level : Int), inPre := ((ctxOf s.stack).inPre : Int) }

/-- only the outermost open element may be the invisible wrapper -/
def WF : List Frame → Prop
  | [] => True
  | [_] => True
  | f :: g :: r => f.name ≠ wrapper ∧ WF (g :: r)

def mapOk (f : St → St) : Except Err St → Except Err St
  | .ok s => .ok (f s)
  | .error e => .error e

/-! #### small facts -/

@[simp] theorem decFrames_isEmpty (cfg : Cfg) (fs : List Frame) : (decFrames cfg fs).isEmpty = fs.isEmpty := by
  cases fs <;> simp [decFrames]

@[simp] theorem decFrames_length (cfg : Cfg) (fs : List Frame) : (decFrames cfg fs).length = fs.length := by
  induction fs with
  | nil => simp [decFrames]
  | cons f fs ih => simp [decFrames, ih]

theorem decFrames_any (cfg : Cfg) (name : Str) (fs : List Frame) :
    (decFrames cfg fs).any (fun f => f.name = name) = fs.any (fun f => f.name = name) := by
  induction fs with
  | nil => simp [decFrames]
  | cons f fs ih => simp [decFrames, ih]

@[simp] theorem decSt_noRoot (cfg : Cfg) (s : St) : (decSt cfg s).noRoot = s.noRoot := by
  simp [St.noRoot, decSt]

theorem ctxOf_attach (n : Node) (fs : List Frame) (c : Option Node) : ctxOf (attach n fs c).1 = ctxOf fs := by
  cases fs <;> simp [attach, ctxOf]

theorem topName_attach (n : Node) (fs : List Frame) (c : Option Node) : topName (attach n fs c).1 = topName fs := by
  cases fs <;> simp [attach, topName]

/-- attaching a decorated block to the decorated stack = decorating after attaching -/
theorem attach_dec (cfg : Cfg) (n : Node) (fs : List Frame) (c : Option Node) :
    attach (decorate cfg (ctxOf fs) (topName fs) n) (decFrames cfg fs) (c.map (dec0 cfg))
      = (decFrames cfg (attach n fs c).1, (attach n fs c).2.map (dec0 cfg)) := by
  cases fs with
  | nil => simp [attach, decFrames, ctxOf, topName, dec0]
  | cons f r => simp [attach, decFrames, ctxOf, topName, decorateL]

/-- closing a decorated frame = decorating the closed element (in its parent's context; `p` is irrelevant) -/
theorem close_dec (cfg : Cfg) (f : Frame) (fs : List Frame) (p : Str) :
    (Frame.close ⟨cfg.kind, f.name, f.st, indentAt cfg (ctxOf fs), decorateL cfg (ctxOf (f :: fs)) f.name f.rev⟩)
      = decorate cfg (ctxOf fs) p f.close := by
  simp [Frame.close, decorate, ctxOf, decorateL_reverse]

/-! #### start tags -/

/-- the common body of `handle_starttag` and `handle_starttag_slim` -/
def handleStartK (cfg : Cfg) (k : Kind) (s : St) (name0 : Str) (attrs : List (Str × Option Str)) (sc0 : Bool) : Except Err St :=
  let name := lower name0
  let sc := sc0 || isVoid name
  let st := mkStore attrs {}
  if !s.noRoot && s.stack.isEmpty then .error .multipleRoot
  else
      let indent := if s.inPre = 0 then getIndent cfg s.level else []
      if sc then
        let p := attach (.elem k name st true indent []) s.stack s.closed
        .ok { s with stack := p.1, closed := p.2 }
      else
        .ok { s with stack := ⟨k, name, st, indent, []⟩ :: s.stack,
                     level := if name ≠ wrapper then s.level + 1 else s.level,
                     inPre := if isPre name then s.inPre + 1 else s.inPre }

/-- the two start-tag handlers are the same code up to the element class they instantiate -/
theorem startHandler_eq (cfg : Cfg) : startHandler cfg = handleStartK cfg cfg.kind := by
  unfold startHandler
  cases cfg.kind <;> rfl

theorem indent_dec (cfg : Cfg) (s : St) :
    (if (decSt cfg s).inPre = 0 then getIndent cfg (decSt cfg s).level else []) = indentAt cfg (ctxOf s.stack) := by
  simp [decSt, indentAt]

theorem start_dec (cfg : Cfg) (s : St) (n : Str) (a : List (Str × Option Str)) (sc : Bool) :
    startHandler cfg (decSt cfg s) n a sc = mapOk (decSt cfg) (Plain.handleStart s n a sc) := by
  rw [startHandler_eq]
  unfold handleStartK Plain.handleStart
  simp only [decSt_noRoot, indent_dec]
  have hst : (decSt cfg s).stack = decFrames cfg s.stack := rfl
  have hcl : (decSt cfg s).closed = s.closed.map (dec0 cfg) := rfl
  rw [hst, hcl, decFrames_isEmpty]
  by_cases h1 : (!s.noRoot && s.stack.isEmpty) = true
  · simp [h1, mapOk]
  · simp only [h1, Bool.false_eq_true, if_false]
    by_cases h2 : (sc || isVoid (lower n)) = true
    · simp only [h2, if_true, mapOk]
      have hd : Node.elem cfg.kind (lower n) (mkStore a {}) true (indentAt cfg (ctxOf s.stack)) []
          = decorate cfg (ctxOf s.stack) (topName s.stack) (.elem .normal (lower n) (mkStore a {}) true [] []) := by
        simp [decorate, decorateL]
      rw [hd, attach_dec]
      simp [decSt, ctxOf_attach]
    · simp only [h2, Bool.false_eq_true, if_false, mapOk]
      simp only [decSt, decFrames, ctxOf, Ctx.push, decorateL]
      congr 1
      simp only [St.mk.injEq, true_and]
      refine ⟨?_, ?_⟩
      · split <;> simp
      · split <;> simp

/-! #### end tags -/

theorem WF_tail {f : Frame} {fs : List Frame} (h : WF (f :: fs)) : WF fs := by
  cases fs with
  | nil => trivial
  | cons g r => exact h.2

theorem WF_attach (n : Node) (fs : List Frame) (c : Option Node) (h : WF fs) : WF (attach n fs c).1 := by
  cases fs with
  | nil => simp [attach, WF]
  | cons f r =>
    cases r with
    | nil => simp [attach, WF]
    | cons g r' => simpa [attach, WF] using h

/-- one implicit pop: needs the popped element not to be the wrapper (it is not the outermost one) -/
theorem popImplicit_dec (cfg : Cfg) (s : St) (f : Frame) (fs : List Frame) (hs : s.stack = f :: fs)
    (hw : f.name ≠ wrapper) : popImplicit (decSt cfg s) = decSt cfg (Plain.pop s) := by
  unfold popImplicit Plain.pop
  have hst : (decSt cfg s).stack = decFrames cfg s.stack := rfl
  have hcl : (decSt cfg s).closed = s.closed.map (dec0 cfg) := rfl
  rw [hst, hcl, hs]
  simp only [decFrames]
  rw [close_dec cfg f fs (topName fs), attach_dec]
  simp only [decSt, hs, ctxOf, Ctx.push, ctxOf_attach]
  have e1 : ((if f.name ≠ wrapper then (ctxOf fs).level + 1 else (ctxOf fs).level : Nat) : Int) - 1
      = ((ctxOf fs).level : Int) := by simp [hw]
  have e2 : (if isPre f.name = true
        then ((if isPre f.name = true then (ctxOf fs).inPre + 1 else (ctxOf fs).inPre : Nat) : Int) - 1
        else ((if isPre f.name = true then (ctxOf fs).inPre + 1 else (ctxOf fs).inPre : Nat) : Int))
      = ((ctxOf fs).inPre : Int) := by
    by_cases hp : isPre f.name = true <;> simp [hp]
  rw [e1, e2]

theorem pop_stack (s : St) (f : Frame) (fs : List Frame) (hs : s.stack = f :: fs) :
    (Plain.pop s).stack = (attach f.close fs s.closed).1 := by
  simp [Plain.pop, hs]

theorem any_attach (name : Str) (n : Node) (fs : List Frame) (c : Option Node) :
    (attach n fs c).1.any (fun f => f.name = name) = fs.any (fun f => f.name = name) := by
  cases fs <;> simp [attach]

theorem length_attach (n : Node) (fs : List Frame) (c : Option Node) : (attach n fs c).1.length = fs.length := by
  cases fs <;> simp [attach]

/-- the `while` loop of `handle_endtag`, given that a matching element is open -/
theorem endLoop_dec (cfg : Cfg) (name : Str) : ∀ (k : Nat) (s : St), WF s.stack →
    s.stack.any (fun f => f.name = name) = true →
    endLoop name k (decSt cfg s) = decSt cfg (Plain.endLoop name k s)
    ∧ WF (Plain.endLoop name k s).stack
    ∧ (Plain.endLoop name k s).stack.any (fun f => f.name = name) = true
    ∧ (s.stack.length ≤ k → topName (Plain.endLoop name k s).stack = name) := by
  intro k
  induction k with
  | zero =>
    intro s hwf hany
    refine ⟨by simp [endLoop, Plain.endLoop], by simpa [Plain.endLoop] using hwf, by simpa [Plain.endLoop] using hany, ?_⟩
    intro hl
    have : s.stack = [] := by cases h : s.stack with
      | nil => rfl
      | cons a b => simp [h] at hl
    simp [this] at hany
  | succ k ih =>
    intro s hwf hany
    cases hs : s.stack with
    | nil => simp [hs] at hany
    | cons f fs =>
      have hst : (decSt cfg s).stack = decFrames cfg s.stack := rfl
      by_cases hn : f.name = name
      · have e1 : Plain.endLoop name (k+1) s = s := by simp [Plain.endLoop, hs, hn]
        have e2 : endLoop name (k+1) (decSt cfg s) = decSt cfg s := by
          simp [endLoop, hst, hs, decFrames, hn]
        rw [e1, e2]
        refine ⟨rfl, hwf, hany, ?_⟩
        intro _
        simp [hs, topName, hn]
      · have hany' : fs.any (fun f => f.name = name) = true := by
          simpa [hs, hn] using hany
        have hw : f.name ≠ wrapper := by
          cases fs with
          | nil => simp at hany'
          | cons g r => rw [hs] at hwf; exact hwf.1
        have e1 : Plain.endLoop name (k+1) s = Plain.endLoop name k (Plain.pop s) := by
          simp [Plain.endLoop, hs, hn]
        have e2 : endLoop name (k+1) (decSt cfg s) = endLoop name k (popImplicit (decSt cfg s)) := by
          simp [endLoop, hst, hs, decFrames, hn]
        have hps := pop_stack s f fs hs
        have hwf' : WF (Plain.pop s).stack := by
          rw [hps]; exact WF_attach _ _ _ (by rw [hs] at hwf; exact WF_tail hwf)
        have hany'' : (Plain.pop s).stack.any (fun f => f.name = name) = true := by
          rw [hps, any_attach]; exact hany'
        obtain ⟨i1, i2, i3, i4⟩ := ih (Plain.pop s) hwf' hany''
        rw [e1, e2, popImplicit_dec cfg s f fs hs hw]
        refine ⟨i1, i2, i3, ?_⟩
        intro hl
        apply i4
        rw [hps, length_attach]
        simp at hl
        omega

/-- the final, explicit pop of `handle_endtag` (the closed element is the named one, wrapper or not) -/
theorem popExplicit_dec (cfg : Cfg) (s : St) (f : Frame) (fs : List Frame) (hs : s.stack = f :: fs) :
    popExplicit f.name (decSt cfg s) = decSt cfg (Plain.pop s) := by
  unfold popExplicit Plain.pop
  have hst : (decSt cfg s).stack = decFrames cfg s.stack := rfl
  have hcl : (decSt cfg s).closed = s.closed.map (dec0 cfg) := rfl
  rw [hst, hcl, hs]
  simp only [decFrames]
  rw [close_dec cfg f fs (topName fs), attach_dec]
  simp only [decSt, hs, ctxOf, Ctx.push, ctxOf_attach]
  have e1 : (if f.name ≠ wrapper
        then ((if f.name ≠ wrapper then (ctxOf fs).level + 1 else (ctxOf fs).level : Nat) : Int) - 1
        else ((if f.name ≠ wrapper then (ctxOf fs).level + 1 else (ctxOf fs).level : Nat) : Int))
      = ((ctxOf fs).level : Int) := by
    by_cases hp : f.name = wrapper <;> simp [hp]
  have e2 : (if isPre f.name = true
        then ((if isPre f.name = true then (ctxOf fs).inPre + 1 else (ctxOf fs).inPre : Nat) : Int) - 1
        else ((if isPre f.name = true then (ctxOf fs).inPre + 1 else (ctxOf fs).inPre : Nat) : Int))
      = ((ctxOf fs).inPre : Int) := by
    by_cases hp : isPre f.name = true <;> simp [hp]
  rw [e1, e2]

theorem handleEnd_dec (cfg : Cfg) (s : St) (name : Str) (hwf : WF s.stack) :
    handleEnd (decSt cfg s) name = decSt cfg (Plain.handleEnd s name) ∧ WF (Plain.handleEnd s name).stack := by
  unfold handleEnd Plain.handleEnd
  have hst : (decSt cfg s).stack = decFrames cfg s.stack := rfl
  rw [hst, decFrames_any, decFrames_length]
  by_cases hany : s.stack.any (fun f => f.name = name) = true
  · simp only [hany, Bool.not_true, Bool.false_eq_true, if_false]
    obtain ⟨i1, i2, i3, i4⟩ := endLoop_dec cfg name s.stack.length s hwf hany
    rw [i1]
    have htop := i4 (Nat.le_refl _)
    cases hs1 : (Plain.endLoop name s.stack.length s).stack with
    | nil => simp [hs1] at i3
    | cons f fs =>
      have hn : f.name = name := by simpa [hs1, topName] using htop
      refine ⟨?_, ?_⟩
      · have := popExplicit_dec cfg _ f fs hs1
        rw [hn] at this; exact this
      · rw [pop_stack _ f fs hs1]
        exact WF_attach _ _ _ (by rw [hs1] at i2; exact WF_tail i2)
  · have hany' : s.stack.any (fun f => f.name = name) = false := by simpa using hany
    simp only [hany', Bool.not_false, if_true]
    exact ⟨trivial, hwf⟩

/-! #### text -/

theorem appendText_dec (cfg : Cfg) (s : St) (f : Frame) (fs : List Frame) (hs : s.stack = f :: fs) (verb : Bool)
    (t t' : Str) (ht : decorate cfg (ctxOf (f :: fs)) f.name (.text verb t) = .text verb t') :
    appendText (decSt cfg s) verb t' = decSt cfg (appendText s verb t) := by
  unfold appendText
  have hst : (decSt cfg s).stack = decFrames cfg s.stack := rfl
  rw [hst, hs]
  simp only [decFrames]
  simp only [decSt, hs, decFrames, ctxOf, decorateL]
  rw [← ht]
  simp [ctxOf]

theorem handleData_dec (cfg : Cfg) (s : St) (d : Str) :
    handleData (decSt cfg s) d = mapOk (decSt cfg) (Plain.handleData s d) := by
  unfold handleData Plain.handleData
  by_cases hd : d.isEmpty = true
  · simp [hd, mapOk]
  · simp only [hd, Bool.false_eq_true, if_false]
    have hst : (decSt cfg s).stack = decFrames cfg s.stack := rfl
    rw [hst]
    cases hs : s.stack with
    | nil =>
      simp only [decFrames]
      by_cases hb : (pyStrip d).isEmpty = true <;> simp [hb, mapOk]
    | cons f fs =>
      simp only [decFrames, mapOk]
      congr 1
      apply appendText_dec cfg s f fs hs
      simp [decorate, decSt, hs]

theorem handleVerbatim_dec (cfg : Cfg) (s : St) (t : Str) :
    handleVerbatim (decSt cfg s) t = mapOk (decSt cfg) (handleVerbatim s t) := by
  unfold handleVerbatim
  have hst : (decSt cfg s).stack = decFrames cfg s.stack := rfl
  rw [hst, decFrames_isEmpty]
  cases hs : s.stack with
  | nil => simp [mapOk]
  | cons f fs =>
    simp only [List.isEmpty_cons, Bool.false_eq_true, if_false, mapOk]
    congr 1
    apply appendText_dec cfg s f fs hs
    simp [decorate]

/-! #### one token, a token sequence, both passes -/

/-- the (lower-cased) element name a start token creates -/
def Tok.startName? : Tok → Option Str
  | .start n _ => some (lower n)
  | .startend n _ => some (lower n)
  | _ => none

/-- tokens that cannot open an element -/
def Tok.keepsEmpty : Tok → Bool
  | .start .. => false
  | .startend .. => false
  | _ => true

/-- No element of the input is named like the invisible wrapper (the property's domain excludes the reserved name);
    `e` = "nothing is open yet", in which case a wrapper start tag is allowed (that is where `feed` puts it). -/
def Safe : Bool → List Tok → Prop
  | _, [] => True
  | e, t :: ts => (t.startName? ≠ some wrapper ∨ e = true) ∧ Safe (e && t.keepsEmpty) ts

def NoWrapperStart (toks : List Tok) : Prop := ∀ t ∈ toks, t.startName? ≠ some wrapper

instance (toks : List Tok) : Decidable (NoWrapperStart toks) := by unfold NoWrapperStart; infer_instance

/-- `r` is a successful result with this text (a decidable way to state examples) -/
def okIs (r : Except Err Str) (s : String) : Bool :=
  match r with
  | .ok h => h == s.toList
  | .error _ => false

theorem WF_push (f : Frame) (fs : List Frame) (h : WF fs) (hn : f.name ≠ wrapper ∨ fs = []) : WF (f :: fs) := by
  cases fs with
  | nil => trivial
  | cons g r =>
    rcases hn with hn | hn
    · exact ⟨hn, h⟩
    · simp at hn

theorem plainStart_WF (s s' : St) (n : Str) (a : List (Str × Option Str)) (sc : Bool) (hwf : WF s.stack)
    (hn : lower n ≠ wrapper ∨ s.stack = []) (h : Plain.handleStart s n a sc = .ok s') : WF s'.stack := by
  unfold Plain.handleStart at h
  by_cases h1 : (!s.noRoot && s.stack.isEmpty) = true
  · simp [h1] at h
  · simp only [h1, Bool.false_eq_true, if_false] at h
    by_cases h2 : (sc || isVoid (lower n)) = true
    · simp only [h2, if_true, Except.ok.injEq] at h
      rw [← h]; exact WF_attach _ _ _ hwf
    · simp only [h2, Bool.false_eq_true, if_false, Except.ok.injEq] at h
      rw [← h]; exact WF_push _ _ hwf hn

theorem appendText_stack_WF (s : St) (v : Bool) (t : Str) (h : WF s.stack) : WF (appendText s v t).stack := by
  unfold appendText
  cases hs : s.stack with
  | nil => simpa [hs] using h
  | cons f r =>
    rw [hs] at h
    cases r with
    | nil => simp [WF]
    | cons g r' => simpa [WF] using h

theorem step_dec (cfg : Cfg) (s : St) (t : Tok) (hwf : WF s.stack)
    (ht : t.startName? ≠ some wrapper ∨ s.stack = []) :
    step cfg (decSt cfg s) t = mapOk (decSt cfg) (Plain.step s t)
    ∧ (∀ s', Plain.step s t = .ok s' → WF s'.stack) := by
  cases t with
  | start n a =>
    refine ⟨by simpa [step, Plain.step] using start_dec cfg s n a false, ?_⟩
    intro s' h
    exact plainStart_WF s s' n a false hwf (by simpa [Tok.startName?] using ht) (by simpa [Plain.step] using h)
  | startend n a =>
    refine ⟨by simpa [step, Plain.step] using start_dec cfg s n a true, ?_⟩
    intro s' h
    exact plainStart_WF s s' n a true hwf (by simpa [Tok.startName?] using ht) (by simpa [Plain.step] using h)
  | end_ n =>
    obtain ⟨h1, h2⟩ := handleEnd_dec cfg s n hwf
    refine ⟨by simp [step, Plain.step, mapOk, h1], ?_⟩
    intro s' h
    simp only [Plain.step, Except.ok.injEq] at h
    rw [← h]; exact h2
  | data d =>
    refine ⟨by simpa [step, Plain.step] using handleData_dec cfg s d, ?_⟩
    intro s' h
    simp only [Plain.step, Plain.handleData] at h
    by_cases hd : d.isEmpty = true
    · simp [hd] at h; rw [← h]; exact hwf
    · simp only [hd, Bool.false_eq_true, if_false] at h
      cases hs : s.stack with
      | nil =>
        rw [hs] at h
        by_cases hb : (pyStrip d).isEmpty = true
        · simp [hb] at h; rw [← h, hs]; trivial
        · simp [hb] at h
      | cons f r =>
        rw [hs] at h
        simp only [Except.ok.injEq] at h
        rw [← h]; exact appendText_stack_WF s false d hwf
  | entity e =>
    refine ⟨by simpa [step, Plain.step] using handleVerbatim_dec cfg s _, ?_⟩
    intro s' h
    simp only [Plain.step, handleVerbatim] at h
    by_cases he : s.stack.isEmpty = true
    · simp [he] at h
    · simp only [he, Bool.false_eq_true, if_false, Except.ok.injEq] at h
      rw [← h]; exact appendText_stack_WF s true _ hwf
  | charref e =>
    refine ⟨by simpa [step, Plain.step] using handleVerbatim_dec cfg s _, ?_⟩
    intro s' h
    simp only [Plain.step, handleVerbatim] at h
    by_cases he : s.stack.isEmpty = true
    · simp [he] at h
    · simp only [he, Bool.false_eq_true, if_false, Except.ok.injEq] at h
      rw [← h]; exact appendText_stack_WF s true _ hwf
  | comment e =>
    refine ⟨by simpa [step, Plain.step] using handleVerbatim_dec cfg s _, ?_⟩
    intro s' h
    simp only [Plain.step, handleVerbatim] at h
    by_cases he : s.stack.isEmpty = true
    · simp [he] at h
    · simp only [he, Bool.false_eq_true, if_false, Except.ok.injEq] at h
      rw [← h]; exact appendText_stack_WF s true _ hwf
  | decl d =>
    refine ⟨by simp [step, Plain.step, mapOk, decSt], ?_⟩
    intro s' h
    simp only [Plain.step, Except.ok.injEq] at h
    rw [← h]; exact hwf
  | unknownDecl d =>
    refine ⟨?_, ?_⟩
    · simp only [step, Plain.step, mapOk]
      have : (decSt cfg s).doctype = s.doctype := rfl
      rw [this]
      by_cases hd : truthy s.doctype = true <;> simp [hd, decSt]
    · intro s' h
      simp only [Plain.step, Except.ok.injEq] at h
      rw [← h]
      by_cases hd : truthy s.doctype = true <;> simp [hd] <;> exact hwf
  | pi d =>
    refine ⟨by simp [step, Plain.step, mapOk], ?_⟩
    intro s' h
    simp only [Plain.step, Except.ok.injEq] at h
    rw [← h]; exact hwf

theorem keepsEmpty_stack (s s' : St) (t : Tok) (hk : t.keepsEmpty = true) (he : s.stack = [])
    (h : Plain.step s t = .ok s') : s'.stack = [] := by
  cases t with
  | start n a => simp [Tok.keepsEmpty] at hk
  | startend n a => simp [Tok.keepsEmpty] at hk
  | end_ n =>
    simp only [Plain.step, Plain.handleEnd, he, Except.ok.injEq] at h
    rw [← h]; simp [he]
  | data d =>
    simp only [Plain.step, Plain.handleData, he] at h
    by_cases hd : d.isEmpty = true
    · simp [hd] at h; rw [← h]; exact he
    · by_cases hb : (pyStrip d).isEmpty = true
      · simp [hd, hb] at h; rw [← h]; exact he
      · simp [hd, hb] at h
  | entity e => simp [Plain.step, handleVerbatim, he] at h
  | charref e => simp [Plain.step, handleVerbatim, he] at h
  | comment e => simp [Plain.step, handleVerbatim, he] at h
  | decl d => simp only [Plain.step, Except.ok.injEq] at h; rw [← h]; exact he
  | unknownDecl d =>
    simp only [Plain.step, Except.ok.injEq] at h
    rw [← h]; by_cases hd : truthy s.doctype = true <;> simp [hd, he]
  | pi d => simp only [Plain.step, Except.ok.injEq] at h; rw [← h]; exact he

theorem run_dec (cfg : Cfg) : ∀ (toks : List Tok) (s : St) (e : Bool), WF s.stack → Safe e toks →
    (e = true → s.stack = []) →
    run cfg toks (decSt cfg s) = mapOk (decSt cfg) (Plain.run toks s) := by
  intro toks
  induction toks with
  | nil => intro s e _ _ _; simp [run, Plain.run, mapOk]
  | cons t ts ih =>
    intro s e hwf hsafe he
    have ht : t.startName? ≠ some wrapper ∨ s.stack = [] := by
      rcases hsafe.1 with h | h
      · exact Or.inl h
      · exact Or.inr (he h)
    obtain ⟨h1, h2⟩ := step_dec cfg s t hwf ht
    simp only [run, Plain.run, h1]
    cases hp : Plain.step s t with
    | error err => simp [mapOk]
    | ok s' =>
      simp only [mapOk]
      apply ih s' (e && t.keepsEmpty) (h2 s' hp) hsafe.2
      intro hek
      simp only [Bool.and_eq_true] at hek
      exact keepsEmpty_stack s s' t hek.2 (he hek.1) hp

theorem safe_of_noWrapper (toks : List Tok) (h : NoWrapperStart toks) : ∀ e, Safe e toks := by
  induction toks with
  | nil => intro e; trivial
  | cons t ts ih =>
    intro e
    exact ⟨Or.inl (h t (by simp)), ih (fun t' ht' => h t' (by simp [ht'])) _⟩

theorem safe_append_end (toks : List Tok) (n : Str) (h : NoWrapperStart toks) : NoWrapperStart (toks ++ [Tok.end_ n]) := by
  intro t ht
  simp only [List.mem_append, List.mem_singleton] at ht
  rcases ht with ht | ht
  · exact h t ht
  · simp [ht, Tok.startName?]

/-- the second pass puts the wrapper start tag where nothing is open yet -/
theorem safe_wrapToks (toks : List Tok) (h : NoWrapperStart toks) : Safe true (wrapToks toks) := by
  have base : ∀ l : List Tok, NoWrapperStart l → Safe true (Tok.start wrapper [] :: l ++ [Tok.end_ wrapper]) := by
    intro l hl
    exact ⟨Or.inr rfl, safe_of_noWrapper _ (safe_append_end l wrapper hl) _⟩
  unfold wrapToks
  split
  · rename_i d rest
    have hrest : NoWrapperStart rest := fun t ht => h t (by simp [ht])
    by_cases hd : isDoctype d = true
    · simp only [hd, if_true]
      exact ⟨Or.inl (by simp [Tok.startName?]), by simpa [Tok.keepsEmpty] using base rest hrest⟩
    · simp only [hd, Bool.false_eq_true, if_false]
      exact base _ h
  · rename_i sd d rest
    have hrest : NoWrapperStart rest := fun t ht => h t (by simp [ht])
    by_cases hd : (doctypeLead sd && isDoctype d) = true
    · simp only [hd, if_true]
      refine ⟨Or.inl (by simp [Tok.startName?]), Or.inl (by simp [Tok.startName?]), ?_⟩
      simpa [Tok.keepsEmpty] using base rest hrest
    · simp only [hd, Bool.false_eq_true, if_false]
      exact base _ h
  · exact base _ h

theorem decSt_init (cfg : Cfg) : decSt cfg {} = {} := by
  simp [decSt, decFrames, ctxOf]

/-- **The formatter's state is the decorated image of the plain parser's state, for every token sequence**
    (both passes of `feed`), provided no element is named like the invisible wrapper. -/
theorem feed_dec (cfg : Cfg) (toks : List Tok) (h : NoWrapperStart toks) :
    feed cfg toks = mapOk (decSt cfg) (Plain.feed toks) := by
  unfold feed Plain.feed
  have h1 := run_dec cfg toks {} false trivial (safe_of_noWrapper toks h false) (by simp)
  have h2 := run_dec cfg (wrapToks toks) {} true trivial (safe_wrapToks toks h) (fun _ => rfl)
  rw [decSt_init] at h1 h2
  rw [h1]
  cases hp : Plain.run toks {} with
  | ok s => simp [mapOk]
  | error e =>
    cases e with
    | multipleRoot => simpa [mapOk] using h2
    | noRoot => simp [mapOk]

/-! #### the finished tree -/

theorem zipUp_dec (cfg : Cfg) : ∀ (fs : List Frame) (n : Node),
    zipUp (decorate cfg (ctxOf fs) (topName fs) n) (decFrames cfg fs) = dec0 cfg (zipUp n fs) := by
  intro fs
  induction fs with
  | nil => intro n; simp [zipUp, decFrames, ctxOf, topName, dec0]
  | cons f r ih =>
    intro n
    simp only [decFrames, zipUp]
    rw [← ih (Frame.close { f with rev := n :: f.rev })]
    congr 1
    have := close_dec cfg { f with rev := n :: f.rev } r (topName r)
    simp only [ctxOf, decorateL] at this
    simpa [ctxOf, topName] using this

theorem rootOfStack_dec (cfg : Cfg) (fs : List Frame) (c : Option Node) :
    rootOfStack (decFrames cfg fs) (c.map (dec0 cfg)) = (rootOfStack fs c).map (dec0 cfg) := by
  cases fs with
  | nil => simp [decFrames, rootOfStack]
  | cons f r =>
    simp only [decFrames, rootOfStack, Option.map_some]
    rw [close_dec cfg f r (topName r), zipUp_dec]

theorem root_dec (cfg : Cfg) (s : St) : (decSt cfg s).root = s.root.map (dec0 cfg) := by
  unfold St.root
  exact rootOfStack_dec cfg s.stack s.closed

/-- **C11/C12 core**: for every token sequence, the document the formatter serialises is the plain parser's
    document with every element's `_indent` and every data block rewritten as `decorate` says — a function of the
    position in the tree only. -/
theorem format_tree (cfg : Cfg) (toks : List Tok) (h : NoWrapperStart toks) :
    (match Plain.feed toks with
     | .ok ps => ∃ fs, feed cfg toks = .ok fs ∧ fs.root = ps.root.map (dec0 cfg) ∧ fs.doctype = ps.doctype
     | .error e => feed cfg toks = .error e) := by
  rw [feed_dec cfg toks h]
  cases Plain.feed toks with
  | ok ps => exact ⟨decSt cfg ps, rfl, root_dec cfg ps, rfl⟩
  | error e => rfl

/-! #### what `decorate` preserves -/

mutual
/-- the document modulo formatting: element class and `_indent` forgotten, data blocks with all white space
    removed, verbatim blocks (references, comments) untouched -/
def skel : Node → Node
  | .text true s => .text true s
  | .text false s => .text false (eraseWS s)
  | .elem _ n st sc _ kids => .elem .normal n st sc [] (skelL kids)
def skelL : List Node → List Node
  | [] => []
  | x :: xs => skel x :: skelL xs
end

mutual
/-- the same tree as objects of class `k` without any `_indent` -/
def rekind (k : Kind) : Node → Node
  | .text v s => .text v s
  | .elem _ n st sc _ kids => .elem k n st sc [] (rekindL k kids)
def rekindL (k : Kind) : List Node → List Node
  | [] => []
  | x :: xs => rekind k x :: rekindL k xs
end

mutual
theorem skel_decorate (cfg : Cfg) (c : Ctx) (p : Str) : ∀ t : Node, skel (decorate cfg c p t) = skel t
  | .text true s => by simp [decorate]
  | .text false s => by
    simp only [decorate, skel]
    split
    · rw [eraseWS_squeeze]
    · rfl
  | .elem k n st sc ind kids => by
    simp only [decorate, skel]
    rw [skelL_decorate cfg (c.push n) n kids]
theorem skelL_decorate (cfg : Cfg) (c : Ctx) (p : Str) : ∀ l : List Node, skelL (decorateL cfg c p l) = skelL l
  | [] => by simp [decorateL]
  | x :: xs => by
    simp only [decorateL, skelL]
    rw [skel_decorate cfg c p x, skelL_decorate cfg c p xs]
end

theorem push_inPre_pos (c : Ctx) (n : Str) (h : c.inPre ≠ 0) : (c.push n).inPre ≠ 0 := by
  unfold Ctx.push
  by_cases hp : isPre n = true <;> simp [hp, h]

mutual
/-- below a pre/code ancestor nothing is rewritten: same blocks, same text, no `_indent` anywhere -/
theorem decorate_inPre (cfg : Cfg) (c : Ctx) (p : Str) (h : c.inPre ≠ 0) :
    ∀ t : Node, decorate cfg c p t = rekind cfg.kind (decorate cfg c p t) ∧ rekind cfg.kind (decorate cfg c p t) = rekind cfg.kind t
  | .text true s => by simp [decorate, rekind]
  | .text false s => by simp [decorate, rekind, h]
  | .elem k n st sc ind kids => by
    have ih := decorateL_inPre cfg (c.push n) n (push_inPre_pos c n h) kids
    simp only [decorate, rekind, indentAt, h, if_false]
    constructor
    · rw [← ih.1]
    · rw [ih.2]
theorem decorateL_inPre (cfg : Cfg) (c : Ctx) (p : Str) (h : c.inPre ≠ 0) :
    ∀ l : List Node, decorateL cfg c p l = rekindL cfg.kind (decorateL cfg c p l)
      ∧ rekindL cfg.kind (decorateL cfg c p l) = rekindL cfg.kind l
  | [] => by simp [decorateL, rekindL]
  | x :: xs => by
    have i1 := decorate_inPre cfg c p h x
    have i2 := decorateL_inPre cfg c p h xs
    simp only [decorateL, rekindL]
    constructor
    · rw [← i1.1, ← i2.1]
    · rw [i1.2, i2.2]
end

/-! #### formatting a formatted tree again changes nothing -/

mutual
theorem decorate_idem (cfg : Cfg) (c : Ctx) (p : Str) :
    ∀ t : Node, decorate cfg c p (decorate cfg c p t) = decorate cfg c p t
  | .text true s => by simp [decorate]
  | .text false s => by
    simp only [decorate]
    split
    · simp [squeeze_idem]
    · rfl
  | .elem k n st sc ind kids => by
    simp only [decorate]
    rw [decorateL_idem cfg (c.push n) n kids]
theorem decorateL_idem (cfg : Cfg) (c : Ctx) (p : Str) :
    ∀ l : List Node, decorateL cfg c p (decorateL cfg c p l) = decorateL cfg c p l
  | [] => by simp [decorateL]
  | x :: xs => by
    simp only [decorateL]
    rw [decorate_idem cfg c p x, decorateL_idem cfg c p xs]
end

/-! #### the indentation law (C12a) -/

mutual
/-- The law on a tree, with depth recomputed from the tree itself: `depth` = number of proper ancestors other than
    the invisible wrapper, `pre` = some ancestor is pre/code.  Outside pre/code an element's `_indent` is a line
    break followed by `depth` copies of the indent unit (nothing at all for the mini classes); inside, nothing. -/
def LayoutOK (cfg : Cfg) (depth : Nat) (pre : Bool) : Node → Prop
  | .text _ _ => True
  | .elem _ n _ _ ind kids =>
    ind = (if pre || cfg.mini then [] else '\n' :: rep depth cfg.indent)
    ∧ LayoutOKL cfg (if n ≠ wrapper then depth + 1 else depth) (pre || isPre n) kids
def LayoutOKL (cfg : Cfg) (depth : Nat) (pre : Bool) : List Node → Prop
  | [] => True
  | x :: xs => LayoutOK cfg depth pre x ∧ LayoutOKL cfg depth pre xs
end

theorem push_inPre_iff (c : Ctx) (n : Str) : (decide ((c.push n).inPre ≠ 0)) = (decide (c.inPre ≠ 0) || isPre n) := by
  unfold Ctx.push
  by_cases hp : isPre n = true <;> by_cases h0 : c.inPre = 0 <;> simp [hp, h0]

mutual
theorem layout_decorate (cfg : Cfg) (c : Ctx) (p : Str) :
    ∀ t : Node, LayoutOK cfg c.level (decide (c.inPre ≠ 0)) (decorate cfg c p t)
  | .text true s => by simp [decorate, LayoutOK]
  | .text false s => by simp [decorate, LayoutOK]
  | .elem k n st sc ind kids => by
    simp only [decorate, LayoutOK]
    refine ⟨?_, ?_⟩
    · unfold indentAt getIndent
      by_cases h0 : c.inPre = 0 <;> by_cases hm : cfg.mini = true <;> simp [h0, hm]
    · have := layoutL_decorate cfg (c.push n) n kids
      rw [push_inPre_iff] at this
      simpa [Ctx.push] using this
theorem layoutL_decorate (cfg : Cfg) (c : Ctx) (p : Str) :
    ∀ l : List Node, LayoutOKL cfg c.level (decide (c.inPre ≠ 0)) (decorateL cfg c p l)
  | [] => by simp [decorateL, LayoutOKL]
  | x :: xs => by
    simp only [decorateL, LayoutOKL]
    exact ⟨layout_decorate cfg c p x, layoutL_decorate cfg c p xs⟩
end

/-! #### start and end tags as text -/

theorem endsWith_append (a suf : Str) : endsWith suf (a ++ suf) = true := by
  simp [endsWith, List.isSuffixOf_iff_suffix]

theorem dropLast_append (a suf : Str) : dropLast suf.length (a ++ suf) = a := by
  simp [dropLast]

/-- `AdvancedTagSlim.getStartTag`'s surgery on the text of a start tag -/
def slimSurgery (ssc : Bool) (ret : Str) : Str :=
  if endsWith (str " >") ret then dropLast 2 ret ++ str ">"
  else if ssc && endsWith (str " />") ret then dropLast 3 ret ++ str "/>"
  else ret

theorem startTag_slim_eq (ssc : Bool) (n : Str) (st : AStore) (sc : Bool) (ind : Str) :
    startTag (.slim ssc) n st sc ind = slimSurgery ssc (startTag .normal n st sc ind) := rfl

theorem slimSurgery_open (ssc : Bool) (x : Str) : slimSurgery ssc (x ++ str " >") = x ++ str ">" := by
  unfold slimSurgery
  rw [endsWith_append]
  simp only [if_true]
  have := dropLast_append x (str " >")
  simp only [str] at this ⊢
  rw [show (" >".toList).length = 2 from rfl] at this
  rw [this]

theorem not_endsWith_sc (x : Str) : endsWith (str " >") (x ++ str " />") = false := by
  simp [endsWith, List.isSuffixOf, str, List.isPrefixOf]

theorem slimSurgery_selfclosed (ssc : Bool) (x : Str) :
    slimSurgery ssc (x ++ str " />") = x ++ (if ssc then str "/>" else str " />") := by
  unfold slimSurgery
  rw [not_endsWith_sc, endsWith_append]
  have := dropLast_append x (str " />")
  rw [show (str " />").length = 3 from rfl] at this
  cases ssc
  · simp
  · simp only [Bool.true_and, if_true]
    rw [this]
    simp

/-- the start tag of the normal classes: `_indent`, `<name`, attributes, ` >` or ` />` -/
theorem startTag_normal (n : Str) (st : AStore) (sc : Bool) (ind : Str) :
    startTag .normal n st sc ind = ind ++ ('<' :: n ++ attrString st) ++ (if sc then str " />" else str " >") := by
  simp [startTag, startTagNormal]

/-- C12c on one start tag: the slim classes write the same text without the space before `>` (before `/>` only
    with slimSelfClosing). -/
theorem startTag_slim (ssc : Bool) (n : Str) (st : AStore) (sc : Bool) (ind : Str) :
    startTag (.slim ssc) n st sc ind
      = ind ++ ('<' :: n ++ attrString st) ++ (if sc then (if ssc then str "/>" else str " />") else str ">") := by
  rw [startTag_slim_eq, startTag_normal]
  cases sc
  · simpa using slimSurgery_open ssc (ind ++ ('<' :: n ++ attrString st))
  · simpa using slimSurgery_selfclosed ssc (ind ++ ('<' :: n ++ attrString st))

/-- every start tag begins with the element's `_indent` -/
theorem startTag_prefix (k : Kind) (n : Str) (st : AStore) (sc : Bool) (ind : Str) :
    ∃ rest, startTag k n st sc ind = ind ++ rest ∧ rest.head? = some '<' := by
  cases k with
  | normal => exact ⟨_, by rw [startTag_normal, List.append_assoc], by simp⟩
  | slim ssc => exact ⟨_, by rw [startTag_slim, List.append_assoc], by simp⟩

/-- the end tag of an element that is not self-closing: preceded by its `_indent`, except for pre/code and for
    script/style content that already ends with exactly that indent -/
theorem endTag_cases (n : Str) (ind : Str) (kids : List Node) :
    endTag n false ind kids = ind ++ str "</" ++ n ++ str ">"
    ∨ (endTag n false ind kids = str "</" ++ n ++ str ">"
        ∧ (isPre n = true ∨ (isPreserve n = true ∧ lastTextEndsWith ind kids = true))) := by
  unfold endTag
  simp only [Bool.false_eq_true, if_false]
  by_cases h1 : (!ind.isEmpty && isPre n) = true
  · simp only [h1, if_true]
    right; exact ⟨trivial, Or.inl (by simp at h1; exact h1.2)⟩
  · simp only [h1, Bool.false_eq_true, if_false]
    by_cases h2 : (!ind.isEmpty && isPreserve n && lastTextEndsWith ind kids) = true
    · simp only [h2, if_true]
      right; refine ⟨trivial, Or.inr ?_⟩
      simp at h2; exact ⟨h2.1.2, h2.2⟩
    · simp only [h2, Bool.false_eq_true, if_false]
      left; trivial

/-! #### slim vs normal documents (C12c) -/

mutual
def setKind (k : Kind) : Node → Node
  | .text v s => .text v s
  | .elem _ n st sc ind kids => .elem k n st sc ind (setKindL k kids)
def setKindL (k : Kind) : List Node → List Node
  | [] => []
  | x :: xs => setKind k x :: setKindL k xs
end

theorem setKindL_eq_map (k : Kind) (l : List Node) : setKindL k l = l.map (setKind k) := by
  induction l with
  | nil => simp [setKindL]
  | cons x xs ih => simp [setKindL, ih]

mutual
theorem decorate_setKind (cfg : Cfg) (k : Kind) (c : Ctx) (p : Str) :
    ∀ t : Node, decorate { cfg with kind := k } c p t = setKind k (decorate cfg c p t)
  | .text true s => by simp [decorate, setKind]
  | .text false s => by simp [decorate, setKind]
  | .elem k' n st sc ind kids => by
    simp only [decorate, setKind, indentAt, getIndent]
    rw [decorateL_setKind cfg k (c.push n) n kids]
theorem decorateL_setKind (cfg : Cfg) (k : Kind) (c : Ctx) (p : Str) :
    ∀ l : List Node, decorateL { cfg with kind := k } c p l = setKindL k (decorateL cfg c p l)
  | [] => by simp [decorateL, setKindL]
  | x :: xs => by
    simp only [decorateL, setKindL]
    rw [decorate_setKind cfg k c p x, decorateL_setKind cfg k c p xs]
end

/-- a piece of serialised output: the text of a start tag, or anything else (text block, end tag, doctype line) -/
inductive Piece where
  | startT (s : Str)
  | other (s : Str)
  deriving Repr, DecidableEq

def Piece.str : Piece → Str
  | .startT s => s
  | .other s => s

def flat : List Piece → Str
  | [] => []
  | p :: ps => p.str ++ flat ps

theorem flat_append (a b : List Piece) : flat (a ++ b) = flat a ++ flat b := by
  induction a with
  | nil => simp [flat]
  | cons x xs ih => simp [flat, ih]

mutual
/-- `outerHTML` cut into pieces -/
def pieces : Node → List Piece
  | .text _ s => [.other s]
  | .elem k n st sc ind kids =>
    .startT (startTag k n st sc ind) :: ((if sc then [] else piecesL kids) ++ [.other (endTag n sc ind kids)])
def piecesL : List Node → List Piece
  | [] => []
  | x :: xs => pieces x ++ piecesL xs
end

mutual
theorem outer_eq_flat : ∀ t : Node, outer t = flat (pieces t)
  | .text _ s => by simp [outer, pieces, flat, Piece.str]
  | .elem k n st sc ind kids => by
    simp only [outer, pieces, flat, Piece.str, flat_append]
    cases sc
    · simp [innerL_eq_flat kids]
    · simp [flat]
theorem innerL_eq_flat : ∀ l : List Node, innerL l = flat (piecesL l)
  | [] => by simp [innerL, piecesL, flat]
  | x :: xs => by simp [innerL, piecesL, flat_append, outer_eq_flat x, innerL_eq_flat xs]
end

/-- what distinguishes slim from normal output: the surgery, on start-tag pieces only -/
def slimPiece (ssc : Bool) : Piece → Piece
  | .startT s => .startT (slimSurgery ssc s)
  | .other s => .other s

theorem lastTextEndsWith_setKind (k : Kind) (ind : Str) (kids : List Node) :
    lastTextEndsWith ind (setKindL k kids) = lastTextEndsWith ind kids := by
  unfold lastTextEndsWith
  rw [setKindL_eq_map, List.getLast?_map]
  cases kids.getLast? with
  | none => rfl
  | some x => cases x <;> simp [setKind]

theorem endTag_setKind (k : Kind) (n : Str) (sc : Bool) (ind : Str) (kids : List Node) :
    endTag n sc ind (setKindL k kids) = endTag n sc ind kids := by
  unfold endTag
  rw [lastTextEndsWith_setKind]

mutual
theorem pieces_slim (ssc : Bool) : ∀ t : Node,
    pieces (setKind (.slim ssc) t) = (pieces (setKind .normal t)).map (slimPiece ssc)
  | .text _ s => by simp [setKind, pieces, slimPiece]
  | .elem k n st sc ind kids => by
    simp only [setKind, pieces, endTag_setKind, List.map_cons, List.map_append, slimPiece, startTag_slim_eq]
    cases sc
    · simp [piecesL_slim ssc kids]
    · simp
theorem piecesL_slim (ssc : Bool) : ∀ l : List Node,
    piecesL (setKindL (.slim ssc) l) = (piecesL (setKindL .normal l)).map (slimPiece ssc)
  | [] => by simp [setKindL, piecesL]
  | x :: xs => by simp [setKindL, piecesL, pieces_slim ssc x, piecesL_slim ssc xs]
end

/-- `getHTML` cut into pieces -/
def docPieces (doctype : Option Str) (root : Node) : List Piece :=
  let dt := doctypeLine doctype
  match root with
  | .elem _ n _ sc _ kids => if n = wrapper then .other dt :: (if sc then [] else piecesL kids) else .other dt :: pieces root
  | .text _ s => [.other dt, .other s]

theorem docHTML_eq_flat (doctype : Option Str) (r : Node) : docHTML doctype (some r) = .ok (flat (docPieces doctype r)) := by
  cases r with
  | text v s => simp [docHTML, docPieces, flat, Piece.str]
  | elem k n st sc ind kids =>
    simp only [docHTML, docPieces]
    by_cases hw : n = wrapper
    · cases sc <;> simp [hw, flat, Piece.str, innerL_eq_flat]
    · simp [hw, flat, Piece.str, outer_eq_flat]

theorem docPieces_slim (ssc : Bool) (doctype : Option Str) (r : Node) :
    docPieces doctype (setKind (.slim ssc) r) = (docPieces doctype (setKind .normal r)).map (slimPiece ssc) := by
  cases r with
  | text v s => simp [setKind, docPieces, slimPiece]
  | elem k n st sc ind kids =>
    simp only [setKind, docPieces]
    by_cases hw : n = wrapper
    · cases sc <;> simp [hw, slimPiece, piecesL_slim]
    · have := pieces_slim ssc (.elem k n st sc ind kids)
      simp only [setKind] at this
      simp [hw, slimPiece, this]

end AHP.Fmt
