/-
  Lemmas for the code tie of utils.escapeQuotes / unescapeQuotes: `str.replace` of the interpreter on a one-character
  pattern is the character-wise substitution, and the five hand-written copies of `escapeQuotes` (one per model that
  serialises attributes) are that substitution.
-/
import AHP.Lemmas.PyAst
import AHP.Model.Pickle
import AHP.Model.Attrs
import AHP.Model.Tree
import AHP.Model.Format
import AHP.Model.DomView
namespace AHP.PyAst
open AHP AHP.Gen AHP.Conv AHP.Gen.Code

/-- Every `"` replaced by `q`. -/
def substQuote (q : Str) (s : Str) : Str := s.flatMap (fun c => if c = '"' then q else [c])

theorem substQuote_nil (q : Str) : substQuote q [] = [] := rfl
theorem substQuote_cons (q : Str) (c : Char) (r : Str) :
    substQuote q (c :: r) = (if c = '"' then q else [c]) ++ substQuote q r := by
  simp [substQuote]

theorem replaceFuel_quote (q : Str) : ∀ (n : Nat) (s : Str), s.length < n → replaceFuel ['"'] q n s = substQuote q s
  | 0, s, h => by omega
  | n + 1, [], _ => rfl
  | n + 1, c :: r, h => by
    have hr : r.length < n := by simp at h; omega
    rw [replaceFuel, substQuote_cons]
    by_cases hc : c = '"'
    · subst hc
      simp [List.isPrefixOf, replaceFuel_quote q n r hr]
    · have : ('"' == c) = false := by simp; exact fun h => hc h.symm
      simp [List.isPrefixOf, this, hc, replaceFuel_quote q n r hr]

theorem replaceAll_quote (q s : Str) : replaceAll ['"'] q s = substQuote q s :=
  replaceFuel_quote q _ s (by omega)

/-! the hand-written copies -/

theorem fmt_escapeQuotes (s : Str) : Fmt.escapeQuotes s = substQuote "&quot;".toList s := rfl
theorem dom_escapeQuotes (s : Str) : Dom.escapeQuotes s = substQuote "&quot;".toList s := rfl

theorem tree_escQ (s : Str) : AHP.escQ s = substQuote "&quot;".toList s := by
  induction s with
  | nil => rfl
  | cons c r ih => rw [AHP.escQ, substQuote_cons, ih]; split <;> simp

theorem pk_escQ (s : Str) : Pk.escQ s = substQuote "&quot;".toList s := by
  induction s with
  | nil => rfl
  | cons c r ih => rw [Pk.escQ, substQuote_cons, ih]; split <;> simp [str]

theorem attrs_escQ (s : Str) : Attrs.escQ s = substQuote "&quot;".toList s := by
  unfold Attrs.escQ
  induction s with
  | nil => rfl
  | cons c r ih => rw [Attrs.replaceQuote, substQuote_cons, ih]; split <;> simp

end AHP.PyAst
