/-
  TreeModels, part 5b — the XPath model's document table built from a tree.

  `HN.toDoc h` is the pre-order table (`XPath.Doc`) of the hub tree `h`: one row per element in document
  order, `parent` = the row index of the element's parent.  From the structural facts of part 5a:
    `toDoc_preOrder`, `toDoc_isPreOrder`   the table passes the check C14's driver runs (`Doc.isPreOrder`);
    `anc_ent`       `Doc.anc` of a row = the positions of the element's ancestors, nearest first;
    `children_ent`  `Doc.children` of a row = the positions of its element blocks;
    `desc_ent`      `Doc.desc` of a row = the rows of its subtree, a contiguous block.
-/
import AHP.Lemmas.TreeModelsWalk
import AHP.Lemmas.XPathDoc
namespace AHP.TM
open AHP AHP.AttrStores AHP.XPath

/-- the attribute dictionary the XPath model reads: the listing's entries that carry a string -/
def xpAttrs (st : AttrState) : List (Str × Str) := strVals st.view

def HN.name : HN → Str
  | .text _ => []
  | .el _ n _ _ _ => n

def HN.attrs : HN → AttrState
  | .text _ => AttrState.empty
  | .el _ _ a _ _ => a

/-- the row of an entry: tag name, parent row, attributes, the element's own text -/
def Ent.row (e : Ent) : XPath.Elem := ⟨e.node.name, e.ups.head?, xpAttrs e.node.attrs, kidText e.node.kids⟩

def tableOf (W : List Ent) : XPath.Doc := W.map Ent.row

/-- the XPath model's table of a tree -/
def HN.toDoc (h : HN) : XPath.Doc := tableOf (h.walk [] 0)
/-- … of a forest (several top-level elements) -/
def docOfL (ks : List HN) : XPath.Doc := tableOf (walkL [] 0 ks)

/-- what part 5a establishes about a complete walk (`up = []`, first row 0) -/
structure Walked (W : List Ent) : Prop where
  pos : W.map (·.pos) = List.range' 0 W.length
  ups : ∀ x ∈ W, ∀ q, q ∈ x.ups ↔ Encl W x q
  chain : ∀ x ∈ W, x.ups = [] ∨ ∃ e ∈ W, x.ups = e.pos :: e.ups ∧ x.pos ∈ kidPos (e.pos + 1) e.node.kids
  kids : ∀ e ∈ W, ∀ c ∈ kidPos (e.pos + 1) e.node.kids, ∃ k ∈ W, k.pos = c ∧ k.ups = e.pos :: e.ups
  block : ∀ e ∈ W, e.pos + e.node.size ≤ W.length ∧ 0 < e.node.size

theorem walkL_length (ks : List HN) (up : List Nat) (s : Nat) : (walkL up s ks).length = sizeL ks := by
  have := congrArg List.length (walkL_pos ks up s)
  simpa using this

theorem walked_walk (h : HN) : Walked (h.walk [] 0) where
  pos := by rw [walk_pos, walk_length]
  ups := by
    intro x hx q
    obtain ⟨loc, h1, h2⟩ := walk_ups h [] 0 x hx
    rw [h1, List.append_nil]; exact h2 q
  chain := by
    intro x hx
    rcases walk_chain h [] 0 x hx with ⟨_, h2⟩ | h2
    · exact Or.inl h2
    · exact Or.inr h2
  kids := walk_kids h [] 0
  block := by
    intro e he
    have := walk_block h [] 0 e he
    rw [walk_length]; omega

theorem walked_walkL (ks : List HN) : Walked (walkL [] 0 ks) where
  pos := by rw [walkL_pos, walkL_length]
  ups := by
    intro x hx q
    obtain ⟨loc, h1, h2⟩ := walkL_ups ks [] 0 x hx
    rw [h1, List.append_nil]; exact h2 q
  chain := by
    intro x hx
    rcases walkL_chain ks [] 0 x hx with ⟨_, h2⟩ | h2
    · exact Or.inl h2
    · exact Or.inr h2
  kids := (walkL_kids ks [] 0).2
  block := by
    intro e he
    have := walkL_block ks [] 0 e he
    rw [walkL_length]; omega

theorem table_length (W : List Ent) : (tableOf W).length = W.length := by simp [tableOf]

section
variable {W : List Ent} (hW : Walked W)
include hW

/-! ### rows by index -/

theorem ent_get {e : Ent} (he : e ∈ W) : W[e.pos]? = some e := by
  obtain ⟨i, hi, rfl⟩ := List.mem_iff_getElem.mp he
  have h1 : (W.map (·.pos))[i]? = some (W[i]).pos := by
    rw [List.getElem?_map, List.getElem?_eq_getElem hi]; rfl
  rw [hW.pos, List.getElem?_range' hi] at h1
  simp only [Option.some.injEq] at h1
  have : (W[i]).pos = i := by omega
  rw [this, List.getElem?_eq_getElem hi]

theorem ent_pos_lt {e : Ent} (he : e ∈ W) : e.pos < W.length := by
  have := ent_get hW he
  exact (List.getElem?_eq_some_iff.mp this).1

theorem ent_exists {j : Nat} (hj : j < W.length) : ∃ e ∈ W, e.pos = j := by
  refine ⟨W[j], List.getElem_mem hj, ?_⟩
  have h1 : (W.map (·.pos))[j]? = some (W[j]).pos := by
    rw [List.getElem?_map, List.getElem?_eq_getElem hj]; rfl
  rw [hW.pos, List.getElem?_range' hj] at h1
  simp only [Option.some.injEq] at h1
  omega

theorem ent_unique {e e' : Ent} (he : e ∈ W) (he' : e' ∈ W) (h : e.pos = e'.pos) : e = e' := by
  have h1 := ent_get hW he
  have h2 := ent_get hW he'
  rw [h] at h1
  rw [h1] at h2
  exact Option.some.inj h2

theorem parent_ent {e : Ent} (he : e ∈ W) : (tableOf W).parent e.pos = e.ups.head? := by
  unfold XPath.Doc.parent tableOf
  rw [List.getD_eq_getElem?_getD, List.getElem?_map, ent_get hW he]
  rfl

theorem name_ent {e : Ent} (he : e ∈ W) : (tableOf W).name e.pos = e.node.name := by
  unfold XPath.Doc.name tableOf
  rw [List.getD_eq_getElem?_getD, List.getElem?_map, ent_get hW he]
  rfl

theorem ent_of_parent {j p : Nat} (h : (tableOf W).parent j = some p) :
    ∃ e ∈ W, e.pos = j ∧ e.ups.head? = some p := by
  have hj := parent_lt_length _ j p h
  rw [table_length W] at hj
  obtain ⟨e, he, rfl⟩ := ent_exists hW hj
  exact ⟨e, he, rfl, by rw [← parent_ent hW he]; exact h⟩

theorem ups_lt {x : Ent} (hx : x ∈ W) {q : Nat} (hq : q ∈ x.ups) : q < x.pos := by
  obtain ⟨e, _, h1, h2, _⟩ := (hW.ups x hx q).mp hq
  omega

theorem table_parent_lt (j p : Nat) (h : (tableOf W).parent j = some p) : p < j := by
  obtain ⟨e, he, rfl, h2⟩ := ent_of_parent hW h
  apply ups_lt hW he
  cases hu : e.ups with
  | nil => rw [hu] at h2; cases h2
  | cons a r => rw [hu] at h2; simp only [List.head?_cons, Option.some.injEq] at h2; simp [h2]

end

/-! ### ancestors -/

/-- `anc_unfold` of Lemmas/XPathDoc.lean needs the first half of `PreOrder` only -/
theorem anc_unfold_lt (d : XPath.Doc) (hlt : ∀ j p, d.parent j = some p → p < j) (j : Nat) :
    d.anc j = match d.parent j with
      | none => []
      | some p => p :: d.anc p := by
  unfold XPath.Doc.anc
  cases hpar : d.parent j with
  | none =>
    cases hl : d.length with
    | zero => rfl
    | succ n => simp [XPath.Doc.ancFuel, hpar]
  | some p =>
    have hj := parent_lt_length d j p hpar
    have hpj := hlt j p hpar
    cases hl : d.length with
    | zero => omega
    | succ n =>
      simp only [XPath.Doc.ancFuel, hpar]
      congr 1
      exact ancFuel_stable d hlt n (n + 1) p (by omega) (by omega)

section
variable {W : List Ent} (hW : Walked W)
include hW

/-- **`Doc.anc` of a row is the list of the element's ancestors**, nearest first -/
theorem anc_ent : ∀ (n : Nat) {e : Ent}, e ∈ W → e.pos = n → (tableOf W).anc e.pos = e.ups := by
  intro n
  induction n using Nat.strongRecOn with
  | _ n ih =>
    intro e he hn
    rw [anc_unfold_lt _ (table_parent_lt hW), parent_ent hW he]
    rcases hW.chain e he with h0 | ⟨e', he', h1, _⟩
    · rw [h0]; rfl
    · rw [h1]
      simp only [List.head?_cons]
      have hlt : e'.pos < e.pos := ups_lt hW he (by rw [h1]; simp)
      rw [ih e'.pos (by omega) he' rfl]

theorem table_preOrder : PreOrder (tableOf W) where
  parentLt := table_parent_lt hW
  next := by
    intro j p h
    obtain ⟨x, hx, hxj, hxp⟩ := ent_of_parent hW h
    have hp : p ∈ x.ups := by
      cases hu : x.ups with
      | nil => rw [hu] at hxp; cases hxp
      | cons a r => rw [hu] at hxp; simp only [List.head?_cons, Option.some.injEq] at hxp; simp [hxp]
    obtain ⟨e, he, h1, h2, h3⟩ := (hW.ups x hx p).mp hp
    by_cases hpj : p = j
    · exact Or.inl hpj
    · right
      have hjl : j < W.length := by have := ent_pos_lt hW hx; omega
      obtain ⟨y, hy, hyj⟩ := ent_exists hW hjl
      rw [← hyj, anc_ent hW y.pos hy rfl]
      exact (hW.ups y hy p).mpr ⟨e, he, h1, by omega, by omega⟩

end

/-- the decidable check of the model says yes on every pre-order table (converse of `preOrder_of_check`) -/
theorem check_of_preOrder (d : XPath.Doc) (h : PreOrder d) : d.isPreOrder = true := by
  simp only [XPath.Doc.isPreOrder, List.all_eq_true, List.mem_range, Bool.and_eq_true]
  intro j _
  constructor
  · cases hp : d.parent j with
    | none => rfl
    | some p => simpa using h.parentLt j p hp
  · cases hp : d.parent (j + 1) with
    | none => rfl
    | some p =>
      simp only [Bool.or_eq_true, beq_iff_eq, List.contains_iff_mem]
      exact h.next j p hp

theorem table_isPreOrder {W : List Ent} (hW : Walked W) : (tableOf W).isPreOrder = true :=
  check_of_preOrder _ (table_preOrder hW)

/-! ### children and descendants -/

section
variable {W : List Ent} (hW : Walked W)
include hW

/-- **`Doc.children` of a row: the rows of the element's element blocks** -/
theorem children_ent {e : Ent} (he : e ∈ W) : (tableOf W).children e.pos = kidPos (e.pos + 1) e.node.kids := by
  apply sorted_ext _ _ (children_sorted _ _) (kidPos_sorted _ _)
  intro c
  rw [mem_children]
  constructor
  · intro h
    obtain ⟨x, hx, rfl, hxp⟩ := ent_of_parent hW h
    rcases hW.chain x hx with h0 | ⟨e', he', h1, h2⟩
    · rw [h0] at hxp; cases hxp
    · rw [h1] at hxp
      simp only [List.head?_cons, Option.some.injEq] at hxp
      have := ent_unique hW he' he hxp
      subst this
      exact h2
  · intro h
    obtain ⟨k, hk, rfl, h2⟩ := hW.kids e he c h
    rw [parent_ent hW hk, h2]; rfl

/-- **`Doc.desc` of a row: the rows of the element's subtree**, which follow it immediately -/
theorem desc_ent {e : Ent} (he : e ∈ W) : (tableOf W).desc e.pos = List.range' (e.pos + 1) (e.node.size - 1) := by
  rw [desc_eq_specDesc _ (table_preOrder hW)]
  apply sorted_ext
  · unfold specDesc; exact (List.pairwise_lt_range).filter _
  · exact List.pairwise_lt_range' 1
  · intro x
    unfold specDesc
    simp only [List.mem_filter, List.mem_range, List.contains_iff_mem, List.mem_range', table_length W]
    have hb := hW.block e he
    constructor
    · rintro ⟨hx, ha⟩
      obtain ⟨y, hy, rfl⟩ := ent_exists hW hx
      rw [anc_ent hW y.pos hy rfl] at ha
      obtain ⟨e', he', h1, h2, h3⟩ := (hW.ups y hy e.pos).mp ha
      have := ent_unique hW he' he h1
      subst this
      exact ⟨y.pos - (e'.pos + 1), by omega, by omega⟩
    · rintro ⟨i, hi, rfl⟩
      have hx : e.pos + 1 + 1 * i < W.length := by omega
      refine ⟨hx, ?_⟩
      obtain ⟨y, hy, hyp⟩ := ent_exists hW hx
      rw [← hyp, anc_ent hW y.pos hy rfl]
      exact (hW.ups y hy e.pos).mpr ⟨e, he, rfl, by omega, by omega⟩

end

/-! ### trees whose identities are the row indices (every parsed document: creation order = document order) -/

theorem range'_split {l1 l2 : List Nat} {s n1 n2 : Nat} (h : l1 ++ l2 = List.range' s (n1 + n2))
    (hl : l1.length = n1) : l1 = List.range' s n1 ∧ l2 = List.range' (s + n1) n2 := by
  have := @List.range'_append s n1 n2 1
  simp only [Nat.one_mul] at this
  rw [← this] at h
  exact List.append_inj h (by simp [hl])

theorem ranked_el {i n a sc ks} {s : Nat} (h : (HN.el i n a sc ks).ids = List.range' s (HN.el i n a sc ks).size) :
    i = s ∧ idsL ks = List.range' (s + 1) (sizeL ks) := by
  rw [ids_el, size_el, Nat.add_comm 1, List.range'_succ] at h
  simp only [List.cons.injEq] at h
  exact h

theorem ranked_cons {k : HN} {ks : List HN} {s : Nat} (h : idsL (k :: ks) = List.range' s (sizeL (k :: ks))) :
    k.ids = List.range' s k.size ∧ idsL ks = List.range' (s + k.size) (sizeL ks) := by
  rw [idsL_cons, sizeL_cons] at h
  exact range'_split h (length_ids k)

theorem eq_of_nodup_map {α β : Type} (f : α → β) : ∀ {l : List α}, (l.map f).Nodup → ∀ {a b : α}, a ∈ l → b ∈ l →
    f a = f b → a = b
  | [], _, _, _, ha, _, _ => by cases ha
  | x :: xs, hn, a, b, ha, hb, hab => by
    simp only [List.map_cons, List.nodup_cons, List.mem_map, not_exists, not_and] at hn
    rcases List.mem_cons.mp ha with h1 | h1
    · rcases List.mem_cons.mp hb with h2 | h2
      · rw [h1, h2]
      · exact absurd (by rw [← hab, h1]) (hn.1 b h2)
    · rcases List.mem_cons.mp hb with h2 | h2
      · exact absurd (by rw [hab, h2]) (hn.1 a h1)
      · exact eq_of_nodup_map f hn.2 h1 h2 hab

/-- the row of an element is its identity -/
theorem walk_id_pos (h : HN) (up : List Nat) (s : Nat) (hr : h.ids = List.range' s h.size) :
    ∀ e ∈ h.walk up s, e.node.id = e.pos := by
  have h1 : (h.walk up s).map (fun e => e.node.id) = (h.walk up s).map (·.pos) := by
    have a : (h.walk up s).map (fun e => e.node.id) = ((h.walk up s).map (·.node)).map HN.id := by
      rw [List.map_map]; rfl
    have b : ((h.subs none).map (·.2)).map HN.id = (h.subs none).map (fun e => e.2.id) := by
      rw [List.map_map]; rfl
    rw [a, walk_nodes h up s none, b, subs_ids, walk_pos, hr]
  exact List.map_inj_left.mp h1

mutual
/-- every subtree of such a tree is numbered from its own row on -/
theorem walk_ranked : ∀ (h : HN) (up : List Nat) (s : Nat), h.ids = List.range' s h.size →
    ∀ e ∈ h.walk up s, e.node.ids = List.range' e.pos e.node.size
  | .text _, _, _, _ => by simp
  | .el i n a sc ks, up, s, hr => by
    intro e he
    simp only [walk_el, List.mem_cons] at he
    rcases he with rfl | he
    · exact hr
    · exact walkL_ranked ks (s :: up) (s + 1) (ranked_el hr).2 e he
theorem walkL_ranked : ∀ (ks : List HN) (up : List Nat) (s : Nat), idsL ks = List.range' s (sizeL ks) →
    ∀ e ∈ walkL up s ks, e.node.ids = List.range' e.pos e.node.size
  | [], _, _, _ => by simp
  | k :: ks, up, s, hr => by
    intro e he
    simp only [walkL_cons, List.mem_append] at he
    rcases he with he | he
    · exact walk_ranked k up s (ranked_cons hr).1 e he
    · exact walkL_ranked ks up (s + k.size) (ranked_cons hr).2 e he
end

/-- … so the rows of its element blocks are their identities -/
theorem kidPos_eq_kidIds : ∀ (ks : List HN) (s : Nat), idsL ks = List.range' s (sizeL ks) → kidPos s ks = kidIds ks
  | [], _, _ => rfl
  | .text _ :: ks, s, hr => by
    have := (ranked_cons hr).2
    simp only [size_text, Nat.add_zero] at this
    simp only [kidPos, kidIds]
    exact kidPos_eq_kidIds ks s this
  | .el i n a sc ks' :: ks, s, hr => by
    have h1 := (ranked_cons hr).1
    have h2 := (ranked_cons hr).2
    simp only [kidPos, kidIds, List.cons.injEq]
    exact ⟨(ranked_el h1).1.symm, kidPos_eq_kidIds ks _ h2⟩

mutual
/-- every element with the identities of its ancestors, nearest first (`up` above the top), document order -/
def HN.ancs (up : List Nat) : HN → List (Nat × List Nat)
  | .text _ => []
  | .el i _ _ _ ks => (i, up) :: ancsL (i :: up) ks
def ancsL (up : List Nat) : List HN → List (Nat × List Nat)
  | [] => []
  | k :: ks => k.ancs up ++ ancsL up ks
end

@[simp] theorem ancsL_nil (up) : ancsL up [] = [] := by simp [ancsL]
@[simp] theorem ancsL_cons (up) (k : HN) (ks : List HN) : ancsL up (k :: ks) = k.ancs up ++ ancsL up ks := by simp [ancsL]
@[simp] theorem ancs_text (up) (x : Str) : (HN.text x).ancs up = [] := by simp [HN.ancs]
@[simp] theorem ancs_el (up i n a sc ks) : (HN.el i n a sc ks).ancs up = (i, up) :: ancsL (i :: up) ks := by simp [HN.ancs]

mutual
/-- the nearest ancestor is the parent `subs` records -/
theorem ancs_subs : ∀ (h : HN) (up : List Nat),
    (h.ancs up).map (fun y => (y.1, y.2.head?)) = (h.subs up.head?).map (fun x => (x.2.id, x.1))
  | .text _, _ => by simp
  | .el i n a sc ks, up => by
    have := ancsL_subsL ks (i :: up)
    simp only [List.head?_cons] at this
    simp [HN.id, this]
theorem ancsL_subsL : ∀ (ks : List HN) (up : List Nat),
    (ancsL up ks).map (fun y => (y.1, y.2.head?)) = (subsL up.head? ks).map (fun x => (x.2.id, x.1))
  | [], _ => by simp
  | k :: ks, up => by simp [ancs_subs k up, ancsL_subsL ks up]
end

mutual
/-- in such a tree the walk's positions are the identities, ancestors included -/
theorem walk_ancs : ∀ (h : HN) (up : List Nat) (s : Nat), h.ids = List.range' s h.size →
    (h.walk up s).map (fun e => (e.pos, e.ups)) = h.ancs up
  | .text _, _, _, _ => by simp
  | .el i n a sc ks, up, s, hr => by
    obtain ⟨rfl, h2⟩ := ranked_el hr
    simp [walkL_ancsL ks (i :: up) (i + 1) h2]
theorem walkL_ancsL : ∀ (ks : List HN) (up : List Nat) (s : Nat), idsL ks = List.range' s (sizeL ks) →
    (walkL up s ks).map (fun e => (e.pos, e.ups)) = ancsL up ks
  | [], _, _, _ => by simp
  | k :: ks, up, s, hr => by
    simp [walk_ancs k up s (ranked_cons hr).1, walkL_ancsL ks up (s + k.size) (ranked_cons hr).2]
end

/-- **The table of a tree numbered in document order, read by identity**: row `i` is element `i`; its parent
    column, `children`, `desc` and `anc` are the element's parent, element blocks, subtree and ancestors. -/
theorem toDoc_ranked (h : HN) (hr : h.ids = List.range' 0 h.size) :
    h.toDoc.isPreOrder = true ∧ h.toDoc.length = h.size ∧
    (∀ x ∈ h.subs none, h.toDoc.name x.2.id = x.2.name ∧ h.toDoc.parent x.2.id = x.1 ∧
        h.toDoc.children x.2.id = kidIds x.2.kids ∧ h.toDoc.desc x.2.id = idsL x.2.kids) ∧
    (∀ y ∈ h.ancs [], h.toDoc.anc y.1 = y.2) := by
  have hW := walked_walk h
  refine ⟨table_isPreOrder hW, by rw [HN.toDoc, table_length, walk_length], ?_, ?_⟩
  · intro x hx
    -- the entry of the walk that carries this element
    have hmem : x.2 ∈ (h.walk [] 0).map (·.node) := by
      rw [walk_nodes h [] 0 none]; exact List.mem_map_of_mem hx
    obtain ⟨e, he, hen⟩ := List.mem_map.mp hmem
    have hid := walk_id_pos h [] 0 hr e he
    have hrk := walk_ranked h [] 0 hr e he
    rw [← hen, hid]
    -- its parent, through `ancs`
    have hpar : e.ups.head? = x.1 := by
      have h1 : (e.pos, e.ups.head?) ∈ (h.ancs []).map (fun y => (y.1, y.2.head?)) := by
        rw [← walk_ancs h [] 0 hr, List.map_map]
        exact List.mem_map.mpr ⟨e, he, rfl⟩
      rw [ancs_subs h []] at h1
      obtain ⟨x', hx', h2⟩ := List.mem_map.mp h1
      simp only [Prod.mk.injEq] at h2
      -- identities are pairwise distinct, so `x'` is `x`
      have hnd : ((h.subs none).map (fun x => x.2.id)).Nodup := by
        rw [subs_ids, hr]; exact List.nodup_range' (step := 1) (by omega)
      have : x' = x := by
        apply eq_of_nodup_map (fun x : Option Nat × HN => x.2.id) hnd hx' hx
        show x'.2.id = x.2.id
        rw [h2.1, ← hid, hen]
      rw [← h2.2, this]
    cases hnode : e.node with
    | text _ =>
      have := (walk_block h [] 0 e he).2.2
      rw [hnode] at this; simp at this
    | el i n a sc ks =>
      rw [hnode] at hrk
      have hk := (ranked_el hrk).2
      refine ⟨by rw [HN.toDoc, name_ent hW he, hnode], by rw [HN.toDoc, parent_ent hW he, hpar], ?_, ?_⟩
      · rw [HN.toDoc, children_ent hW he, hnode]
        exact kidPos_eq_kidIds ks _ hk
      · rw [HN.toDoc, desc_ent hW he, hnode, HN.kids, hk, size_el]
        congr 1; omega
  · intro y hy
    rw [← walk_ancs h [] 0 hr] at hy
    obtain ⟨e, he, rfl⟩ := List.mem_map.mp hy
    exact anc_ent hW e.pos he rfl

end AHP.TM
