/-
  C13 — the two readings of the classification agree: the scan `classify` (Spec/Validate.lean) is the declarative
  "first token in error" (`FirstError`: context fold `openAfter`/`rootAfter`, local predicate `errAt`).
-/
import AHP.Spec.Validate
namespace AHP.Spec
open AHP

theorem openAfter_cons (o : List Str) (t : Token) (p : List Token) :
    openAfter o (t :: p) = openAfter (openAfter o [t]) p := by
  cases t <;> simp only [openAfter]
  split <;> rfl

theorem rootAfter_cons (r : Bool) (t : Token) (p : List Token) :
    rootAfter r (t :: p) = rootAfter (rootAfter r [t]) p := by
  cases t <;> simp only [rootAfter]

/-- one step of the scan: the local predicate, then the context fold -/
theorem classify_cons (o : List Str) (r : Bool) (t : Token) (ts : List Token) :
    classify o r (t :: ts) = match errAt o r t with
      | some e => some e
      | none => classify (openAfter o [t]) (rootAfter r [t]) ts := by
  cases t with
  | start n a =>
    simp only [classify, errAt, openAfter, rootAfter]
    split
    · rfl
    · split
      · rfl
      · split <;> rfl
  | startend n a =>
    simp only [classify, errAt, openAfter, rootAfter]
    split
    · rfl
    · split <;> rfl
  | end_ n =>
    cases o with
    | nil => simp [classify, errAt]
    | cons m rest =>
      simp only [classify, errAt, openAfter, rootAfter, List.tail_cons]
      split
      · rfl
      · split <;> rfl
  | data d =>
    simp only [classify, errAt, openAfter, rootAfter]
    split <;> rfl
  | entity d => simp only [classify, errAt, openAfter, rootAfter]; split <;> rfl
  | charref d => simp only [classify, errAt, openAfter, rootAfter]; split <;> rfl
  | comment d => simp only [classify, errAt, openAfter, rootAfter]; split <;> rfl
  | decl d => simp only [classify, errAt, openAfter, rootAfter]
  | unknownDecl d => simp only [classify, errAt, openAfter, rootAfter]
  | pi d => simp only [classify, errAt, openAfter, rootAfter]

theorem clean_nil (o : List Str) (r : Bool) : Clean o r [] := by
  intro p x q h
  cases p <;> simp at h

theorem clean_cons (o : List Str) (r : Bool) (t : Token) (ts : List Token) :
    Clean o r (t :: ts) ↔ errAt o r t = none ∧ Clean (openAfter o [t]) (rootAfter r [t]) ts := by
  constructor
  · intro h
    refine ⟨h [] t ts rfl, ?_⟩
    intro p x q hq
    have := h (t :: p) x q (by rw [hq]; rfl)
    rw [openAfter_cons, rootAfter_cons] at this
    exact this
  · intro ⟨h1, h2⟩ p x q hq
    cases p with
    | nil =>
      simp only [List.nil_append, List.cons.injEq] at hq
      rw [← hq.1]; exact h1
    | cons y p =>
      simp only [List.cons_append, List.cons.injEq] at hq
      rw [← hq.1, openAfter_cons, rootAfter_cons]
      exact h2 p x q hq.2

/-- the scan accepts exactly the sequences in which no token is in error in its context -/
theorem classify_none_iff (ts : List Token) : ∀ (o : List Str) (r : Bool), classify o r ts = none ↔ Clean o r ts := by
  induction ts with
  | nil => intro o r; exact ⟨fun _ => clean_nil o r, fun _ => rfl⟩
  | cons t ts ih =>
    intro o r
    rw [classify_cons, clean_cons]
    cases he : errAt o r t with
    | none => simp only [true_and]; exact ih _ _
    | some e => simp

/-- **the two readings agree**: the scan reports `e` exactly when `e` is the error of the first token in error -/
theorem classify_some_iff (ts : List Token) : ∀ (o : List Str) (r : Bool) (e : Exc),
    classify o r ts = some e ↔ FirstError o r ts e := by
  induction ts with
  | nil =>
    intro o r e
    constructor
    · intro h; simp [classify] at h
    · rintro ⟨pre, t, post, h, _⟩; cases pre <;> simp at h
  | cons t ts ih =>
    intro o r e
    rw [classify_cons]
    cases he : errAt o r t with
    | some e' =>
      simp only [Option.some.injEq]
      constructor
      · intro h; subst h
        exact ⟨[], t, ts, rfl, clean_nil o r, he⟩
      · rintro ⟨pre, x, post, h, hc, hx⟩
        cases pre with
        | nil =>
          simp only [List.nil_append, List.cons.injEq] at h
          rw [← h.1] at hx
          simp only [openAfter, rootAfter] at hx
          rw [he] at hx; exact Option.some.inj hx
        | cons y pre =>
          simp only [List.cons_append, List.cons.injEq] at h
          have := ((clean_cons o r y pre).mp hc).1
          rw [← h.1, he] at this; cases this
    | none =>
      simp only
      rw [ih]
      constructor
      · rintro ⟨pre, x, post, h, hc, hx⟩
        refine ⟨t :: pre, x, post, by rw [h]; rfl, (clean_cons o r t pre).mpr ⟨he, hc⟩, ?_⟩
        rw [openAfter_cons, rootAfter_cons]; exact hx
      · rintro ⟨pre, x, post, h, hc, hx⟩
        cases pre with
        | nil =>
          simp only [List.nil_append, List.cons.injEq] at h
          rw [← h.1] at hx
          simp only [openAfter, rootAfter] at hx
          rw [he] at hx; cases hx
        | cons y pre =>
          simp only [List.cons_append, List.cons.injEq] at h
          rw [← h.1] at hc hx
          rw [openAfter_cons, rootAfter_cons] at hx
          exact ⟨pre, x, post, h.2, ((clean_cons o r t pre).mp hc).2, hx⟩

end AHP.Spec
