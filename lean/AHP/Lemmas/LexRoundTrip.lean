/-
  Character-level round trip (C01a, second half): the strict lexer gives back the token sequence a
  well-formed token list renders to.
-/
import AHP.Model.Lexer
import AHP.Model.Tree
import AHP.Lemmas.LexRaw
namespace AHP

/-! ### rendering of tokens (the serialisers' output grammar) -/

def renderTok : Token → Str
  | .start n a => ('<' :: n) ++ renderAttrs a ++ " >".toList
  | .startend n a => ('<' :: n) ++ renderAttrs a ++ " />".toList
  | .end_ n => '<' :: '/' :: n ++ ['>']
  | .data s => s
  | .entity n => '&' :: n ++ [';']
  | .charref n => '&' :: '#' :: n ++ [';']
  | .comment c => "<!--".toList ++ c ++ "-->".toList
  | .decl d => '<' :: '!' :: d ++ ['>']
  | .pi p => '<' :: '?' :: p ++ ['>']
  | .unknownDecl _ => []

def renderToks : List Token → Str
  | [] => []
  | t :: ts => renderTok t ++ renderToks ts

/-! ### span -/
theorem span_append (p : Char → Bool) (xs : Str) (c : Char) (rest : Str)
    (hx : ∀ x ∈ xs, p x = true) (hc : p c = false) :
    span p (xs ++ c :: rest) = (xs, c :: rest) := by
  induction xs with
  | nil => simp [span, hc]
  | cons x xs ih =>
    have hx1 : p x = true := hx x (by simp)
    have := ih (fun y hy => hx y (by simp [hy]))
    simp [span, hx1, this]

theorem span_all (p : Char → Bool) (xs : Str) (hx : ∀ x ∈ xs, p x = true) : span p xs = (xs, []) := by
  induction xs with
  | nil => rfl
  | cons x xs ih =>
    have hx1 : p x = true := hx x (by simp)
    have := ih (fun y hy => hx y (by simp [hy]))
    simp [span, hx1, this]

theorem dropWhile_ws_of_not (c : Char) (r : Str) (h : isWs c = false) : (c :: r).dropWhile isWs = c :: r := by
  simp [List.dropWhile_cons, h]

/-! ### well-formedness of what is rendered -/

/-- every `&` is followed by a character that cannot start a reference (or ends the value) -/
def ValueOK : Str → Prop
  | [] => True
  | [_] => True
  | c :: d :: r => (c = '&' → (isAlpha d = false ∧ d ≠ '#')) ∧ ValueOK (d :: r)

def NameOK (n : Str) : Prop := n ≠ [] ∧ (∀ c ∈ n, isAttrCh c = true) ∧ lower n = n

def AttrOK : Attr → Prop
  | (n, none) => NameOK n
  | (n, some v) => NameOK n ∧ ValueOK v ∧ ¬ (v.isEmpty = true ∧ binaryAttrs.contains n = true)

def TagNameOK (n : Str) : Prop :=
  (∃ c cs, n = c :: cs ∧ isAlpha c = true) ∧ (∀ c ∈ n, isTagCh c = true) ∧ lower n = n

/-- no two consecutive dashes, no dash at the end -/
def CommentOK : Str → Prop
  | [] => True
  | [c] => c ≠ '-'
  | c :: d :: r => ¬ (c = '-' ∧ d = '-') ∧ CommentOK (d :: r)

def TokOK : Token → Prop
  | .start n a => TagNameOK n ∧ isRawText n = false ∧ ∀ x ∈ a, AttrOK x
  | .startend n a => TagNameOK n ∧ ∀ x ∈ a, AttrOK x
  | .end_ n => TagNameOK n
  | .data s => s = ['<'] ∨ s = ['&'] ∨ (s ≠ [] ∧ ∀ c ∈ s, (c ≠ '<' ∧ c ≠ '&'))
  | .entity n => (∃ c cs, n = c :: cs ∧ isAlpha c = true) ∧ ∀ c ∈ n, isEntCh c = true
  | .charref n => (n ≠ [] ∧ ∀ c ∈ n, isDigit c = true) ∨
      (∃ x hs, n = x :: hs ∧ (x = 'x' ∨ x = 'X') ∧ hs ≠ [] ∧ ∀ c ∈ hs, isHex c = true)
  | .comment c => CommentOK c
  | .decl d => lower (d.take 7) = "doctype".toList ∧ '>' ∉ d
  | .pi p => '>' ∉ p
  | .unknownDecl _ => False

def isData : Token → Bool | .data _ => true | _ => false

/-- no two adjacent data tokens (they would merge into one run) -/
def NoAdjData : List Token → Prop
  | t₁ :: t₂ :: ts => ¬ (isData t₁ = true ∧ isData t₂ = true) ∧ NoAdjData (t₂ :: ts)
  | _ => True

/-! ### the well-formedness predicates are decidable (used by the concrete non-vacuity instances) -/

instance : (v : Str) → Decidable (ValueOK v)
  | [] => isTrue trivial
  | [_] => isTrue trivial
  | c :: d :: r =>
    have := instDecidableValueOK (d :: r)
    inferInstanceAs (Decidable (_ ∧ _))

instance : (c : Str) → Decidable (CommentOK c)
  | [] => isTrue trivial
  | [c] => inferInstanceAs (Decidable (c ≠ '-'))
  | c :: d :: r =>
    have := instDecidableCommentOK (d :: r)
    inferInstanceAs (Decidable (_ ∧ _))

instance (n : Str) : Decidable (NameOK n) := inferInstanceAs (Decidable (_ ∧ _ ∧ _))

instance : (a : Attr) → Decidable (AttrOK a)
  | (n, none) => inferInstanceAs (Decidable (NameOK n))
  | (n, some v) => inferInstanceAs (Decidable (NameOK n ∧ ValueOK v ∧ ¬ (v.isEmpty = true ∧ binaryAttrs.contains n = true)))

instance headAlphaDec : (n : Str) → Decidable (∃ c cs, n = c :: cs ∧ isAlpha c = true)
  | [] => isFalse (by rintro ⟨c, cs, h, _⟩; cases h)
  | c :: cs => decidable_of_iff (isAlpha c = true)
      ⟨fun h => ⟨c, cs, rfl, h⟩, fun ⟨c', cs', e, ha⟩ => by cases e; exact ha⟩

instance hexRefDec : (n : Str) →
    Decidable (∃ x hs, n = x :: hs ∧ (x = 'x' ∨ x = 'X') ∧ hs ≠ [] ∧ ∀ c ∈ hs, isHex c = true)
  | [] => isFalse (by rintro ⟨x, hs, h, _⟩; cases h)
  | x :: hs => decidable_of_iff ((x = 'x' ∨ x = 'X') ∧ hs ≠ [] ∧ ∀ c ∈ hs, isHex c = true)
      ⟨fun h => ⟨x, hs, rfl, h⟩, fun ⟨x', hs', e, h⟩ => by cases e; exact h⟩

instance (n : Str) : Decidable (TagNameOK n) := inferInstanceAs (Decidable (_ ∧ _ ∧ _))

instance : (t : Token) → Decidable (TokOK t)
  | .start n a => inferInstanceAs (Decidable (TagNameOK n ∧ isRawText n = false ∧ ∀ x ∈ a, AttrOK x))
  | .startend n a => inferInstanceAs (Decidable (TagNameOK n ∧ ∀ x ∈ a, AttrOK x))
  | .end_ n => inferInstanceAs (Decidable (TagNameOK n))
  | .data s => inferInstanceAs (Decidable (s = ['<'] ∨ s = ['&'] ∨ (s ≠ [] ∧ ∀ c ∈ s, (c ≠ '<' ∧ c ≠ '&'))))
  | .entity n => inferInstanceAs (Decidable ((∃ c cs, n = c :: cs ∧ isAlpha c = true) ∧ ∀ c ∈ n, isEntCh c = true))
  | .charref n => inferInstanceAs (Decidable ((n ≠ [] ∧ ∀ c ∈ n, isDigit c = true) ∨
      (∃ x hs, n = x :: hs ∧ (x = 'x' ∨ x = 'X') ∧ hs ≠ [] ∧ ∀ c ∈ hs, isHex c = true)))
  | .comment c => inferInstanceAs (Decidable (CommentOK c))
  | .decl d => inferInstanceAs (Decidable (lower (d.take 7) = "doctype".toList ∧ '>' ∉ d))
  | .pi p => inferInstanceAs (Decidable ('>' ∉ p))
  | .unknownDecl _ => isFalse (fun h => h)

/-! ### attribute values -/

theorem escQ_no_quote (v : Str) : '"' ∉ escQ v := by
  induction v with
  | nil => simp [escQ]
  | cons c cs ih =>
    unfold escQ
    split
    · intro h
      simp only [List.mem_append] at h
      rcases h with h | h
      · revert h; decide
      · exact ih h
    · rename_i hc
      intro h
      rcases List.mem_cons.mp h with e | e
      · exact hc e.symm
      · exact ih e

theorem readUntil_append (q : Char) (v rest : Str) (h : q ∉ v) :
    readUntil q (v ++ q :: rest) = some (v, rest) := by
  induction v with
  | nil => simp [readUntil]
  | cons c cs ih =>
    have hc : c ≠ q := fun e => h (by simp [e])
    have hcs : q ∉ cs := fun e => h (by simp [e])
    simp [readUntil, hc, ih hcs]

theorem escQ_head (d : Char) (r : Str) :
    ∃ e r', escQ (d :: r) = e :: r' ∧ (d = '"' → e = '&') ∧ (d ≠ '"' → e = d) := by
  unfold escQ
  split
  · rename_i h; exact ⟨'&', _, rfl, fun _ => rfl, fun h2 => absurd h h2⟩
  · rename_i h; exact ⟨d, _, rfl, fun h2 => absurd h2 h, fun _ => rfl⟩

theorem not_quot_prefix (d : Char) (r : Str) (hd : isAlpha d = false) : "quot;".toList.isPrefixOf (d :: r) = false := by
  have : d ≠ 'q' := by intro e; rw [e] at hd; revert hd; decide
  simp [List.isPrefixOf, this]
  intro e; exact absurd e.symm this

/-- unescaping what `escapeQuotes` wrote gives the value back -/
theorem unesc_esc (v : Str) (h : ValueOK v) : ∀ k, (escQ v).length < k → unescValue k (escQ v) = some v := by
  induction v with
  | nil => intro k hk; cases k with
    | zero => simp at hk
    | succ k => simp [escQ, unescValue]
  | cons c cs ih =>
    intro k hk
    cases k with
    | zero => simp at hk
    | succ k =>
      have hcs : ValueOK cs := by
        cases cs with
        | nil => trivial
        | cons d r => exact h.2
      by_cases hq : c = '"'
      · subst hq
        have he : escQ ('"' :: cs) = '&' :: ("quot;".toList ++ escQ cs) := by simp [escQ]
        rw [he] at hk ⊢
        have hlen : (escQ cs).length < k := by simp at hk; omega
        have hpre : "quot;".toList.isPrefixOf ("quot;".toList ++ escQ cs) = true := by
          simp [List.isPrefixOf]
        simp only [unescValue, if_true, hpre]
        have : ("quot;".toList ++ escQ cs).drop 5 = escQ cs := by simp
        rw [this, ih hcs k hlen]; rfl
      · have he : escQ (c :: cs) = c :: escQ cs := by simp [escQ, hq]
        rw [he] at hk ⊢
        have hlen : (escQ cs).length < k := by simp at hk; omega
        by_cases ha : c = '&'
        · subst ha
          simp only [unescValue, if_true]
          cases cs with
          | nil => simp [escQ]
          | cons d r =>
            have hd := h.1 rfl
            obtain ⟨e, r', her, h1, h2⟩ := escQ_head d r
            have hea : isAlpha e = false ∧ e ≠ '#' := by
              by_cases hdq : d = '"'
              · rw [h1 hdq]; decide
              · rw [h2 hdq]; exact hd
            have hnp : "quot;".toList.isPrefixOf (escQ (d :: r)) = false := by
              rw [her]; exact not_quot_prefix e r' hea.1
            rw [hnp]
            simp only [Bool.false_eq_true, if_false]
            rw [her]
            simp only [hea.1, hea.2, Bool.false_or, decide_false, Bool.false_eq_true, if_false]
            rw [← her, ih hcs k hlen]; rfl
        · simp only [unescValue, ha, if_false]
          rw [ih hcs k hlen]; rfl

/-! ### attributes -/

/-- each attribute is introduced by exactly one space -/
def renderAttrs' : List Attr → Str
  | [] => []
  | a :: as => ' ' :: renderAttr a ++ renderAttrs' as

theorem joinWith_space (xs : List Str) (x : Str) :
    ' ' :: joinWith [' '] (x :: xs) = (' ' :: x) ++ (xs.flatMap (fun y => ' ' :: y)) := by
  induction xs generalizing x with
  | nil => simp [joinWith]
  | cons y ys ih =>
    simp only [joinWith, List.flatMap_cons]
    have := ih y
    simp only [List.cons_append] at this ⊢
    rw [← this]; simp

theorem renderAttrs_eq (as : List Attr) : renderAttrs as = renderAttrs' as := by
  unfold renderAttrs
  cases as with
  | nil => rfl
  | cons a as =>
    simp only [List.isEmpty_cons, Bool.false_eq_true, if_false, List.map_cons]
    rw [joinWith_space]
    have : ∀ l : List Attr, (l.map renderAttr).flatMap (fun y => ' ' :: y) = renderAttrs' l := by
      intro l
      induction l with
      | nil => rfl
      | cons b bs ih => simp [renderAttrs', ih]
    rw [this]; rfl

def closer (sc : Bool) : Str := if sc then " />".toList else " >".toList

theorem attrCh_facts : isAttrCh ' ' = false ∧ isAttrCh '=' = false ∧ isAttrCh '>' = false ∧ isAttrCh '/' = false
    ∧ isAttrCh '"' = false := by decide

theorem isWs_of_attrCh (c : Char) (h : isAttrCh c = true) : isWs c = false := by
  unfold isAttrCh at h
  simp only [Bool.and_eq_true, Bool.not_eq_true'] at h
  exact h.1.1.1.1.1.1.1.1.1

theorem ne_of_attrCh (c : Char) (h : isAttrCh c = true) : c ≠ '>' ∧ c ≠ '/' ∧ c ≠ '=' := by
  refine ⟨?_, ?_, ?_⟩ <;> (intro e; rw [e] at h; revert h; decide)

theorem dropWhile_space (c : Char) (r : Str) (h : isWs c = false) :
    (' ' :: c :: r).dropWhile isWs = c :: r := by
  have h1 : isWs ' ' = true := by decide
  rw [List.dropWhile_cons, if_pos h1, List.dropWhile_cons, if_neg (by simp [h])]

theorem dropWhile_nows (c : Char) (r : Str) (h : isWs c = false) :
    (c :: r).dropWhile isWs = c :: r := by
  rw [List.dropWhile_cons, if_neg (by simp [h])]

theorem renderAttr_head (n : Str) (v : Option Str) (h : AttrOK (n, v)) :
    ∃ c r, renderAttr (n, v) = c :: r ∧ isAttrCh c = true := by
  have hn : NameOK n := by cases v <;> simp [AttrOK] at h <;> first | exact h | exact h.1
  obtain ⟨hne, hall, _⟩ := hn
  obtain ⟨c, cs, rfl⟩ := List.exists_cons_of_ne_nil hne
  have hc := hall c (by simp)
  cases v with
  | none => exact ⟨c, cs, rfl, hc⟩
  | some v =>
    simp only [renderAttr]
    split
    · exact ⟨c, cs, rfl, hc⟩
    · exact ⟨c, _, rfl, hc⟩

/-- after the attributes rendered so far: a space, then a character that is neither white space nor `=` -/
theorem tail_head (as : List Attr) (h : ∀ a ∈ as, AttrOK a) (sc : Bool) (rest : Str) :
    ∃ c r, renderAttrs' as ++ closer sc ++ rest = ' ' :: c :: r ∧ isWs c = false ∧ c ≠ '=' := by
  cases as with
  | nil => cases sc <;> simp [renderAttrs', closer] <;> decide
  | cons a as =>
    obtain ⟨n, v⟩ := a
    obtain ⟨c, r, hr, hc⟩ := renderAttr_head n v (h (n, v) (by simp))
    refine ⟨c, r ++ (renderAttrs' as ++ closer sc ++ rest), ?_, isWs_of_attrCh c hc, (ne_of_attrCh c hc).2.2⟩
    simp [renderAttrs', hr]

theorem lexAttrs_render (as : List Attr) (h : ∀ a ∈ as, AttrOK a) (sc : Bool) (rest : Str) :
    ∀ k, (renderAttrs' as ++ closer sc ++ rest).length < k →
      lexAttrs k (renderAttrs' as ++ closer sc ++ rest) = some (as, sc, rest) := by
  induction as with
  | nil =>
    intro k hk
    cases k with
    | zero => simp at hk
    | succ k =>
      cases sc
      · simp [renderAttrs', closer, lexAttrs, List.dropWhile_cons, isWs]
      · simp [renderAttrs', closer, lexAttrs, List.dropWhile_cons, isWs]
  | cons a as ih =>
    intro k hk
    cases k with
    | zero => simp at hk
    | succ k =>
      have ha : AttrOK a := h a (by simp)
      have has : ∀ x ∈ as, AttrOK x := fun x hx => h x (by simp [hx])
      obtain ⟨tc, tr, htail, htc, hteq⟩ := tail_head as has sc rest
      obtain ⟨n, v⟩ := a
      have hn : NameOK n := by cases v <;> simp [AttrOK] at ha <;> first | exact ha | exact ha.1
      obtain ⟨hne, hall, hlow⟩ := hn
      obtain ⟨c, n', hnn⟩ := List.exists_cons_of_ne_nil hne
      have hc : isAttrCh c = true := hall c (by rw [hnn]; simp)
      have hcw := isWs_of_attrCh c hc
      obtain ⟨hc1, hc2, _⟩ := ne_of_attrCh c hc
      have hlen : (renderAttrs' as ++ closer sc ++ rest).length < k := by
        simp [renderAttrs'] at hk ⊢; omega
      have ih' := ih has k hlen
      -- the string after the introducing space
      have hs1 : ∀ tl : Str, ((' ' :: (n ++ tl)) : Str).dropWhile isWs = c :: (n' ++ tl) := by
        intro tl
        rw [hnn]
        exact dropWhile_space c (n' ++ tl) hcw
      cases v with
      | none =>
        have hstr : renderAttrs' ((n, none) :: as) ++ closer sc ++ rest
            = ' ' :: (n ++ (renderAttrs' as ++ closer sc ++ rest)) := by
          simp [renderAttrs', renderAttr]
        rw [hstr, htail]
        have hsp : span isAttrCh (c :: (n' ++ ' ' :: tc :: tr)) = (n, ' ' :: tc :: tr) := by
          have := span_append isAttrCh n ' ' (tc :: tr) hall attrCh_facts.1
          rw [hnn] at this ⊢; simpa using this
        have hdrop : (' ' :: tc :: tr).dropWhile isWs = tc :: tr := dropWhile_space tc tr htc
        rw [htail] at ih'
        simp only [lexAttrs, hs1, hc1, hc2, if_false, hsp, hdrop]
        have hl : (c :: (n' ++ ' ' :: tc :: tr)).length ≠ (' ' :: (n ++ ' ' :: tc :: tr)).length := by
          rw [hnn]; simp
        simp only [hl, if_false]
        have hne2 : (n.isEmpty) = false := by rw [hnn]; rfl
        simp only [hne2, Bool.false_eq_true, if_false]
        -- the character after the white space is not `=`
        split
        · rename_i heq; simp at heq; exact absurd heq.1 hteq
        · rw [ih', hlow]; rfl
      | some v =>
        simp only [AttrOK] at ha
        obtain ⟨_, hv, hnb⟩ := ha
        have hra : renderAttr (n, some v) = n ++ ('=' :: '"' :: escQ v) ++ ['"'] := by
          simp only [renderAttr]
          split
          · rename_i hcond
            simp only [Bool.and_eq_true] at hcond
            exact absurd hcond hnb
          · rfl
        have hstr : renderAttrs' ((n, some v) :: as) ++ closer sc ++ rest
            = ' ' :: (n ++ ('=' :: '"' :: (escQ v ++ '"' :: (renderAttrs' as ++ closer sc ++ rest)))) := by
          simp [renderAttrs', hra]
        rw [hstr]
        generalize htl : (renderAttrs' as ++ closer sc ++ rest) = tl at *
        have hsp : span isAttrCh (c :: (n' ++ '=' :: '"' :: (escQ v ++ '"' :: tl)))
            = (n, '=' :: '"' :: (escQ v ++ '"' :: tl)) := by
          have := span_append isAttrCh n '=' ('"' :: (escQ v ++ '"' :: tl)) hall attrCh_facts.2.1
          rw [hnn] at this ⊢; simpa using this
        have hl : (c :: (n' ++ '=' :: '"' :: (escQ v ++ '"' :: tl))).length
            ≠ (' ' :: (n ++ '=' :: '"' :: (escQ v ++ '"' :: tl))).length := by
          rw [hnn]; simp
        have hne2 : (n.isEmpty) = false := by rw [hnn]; rfl
        simp only [lexAttrs, hs1, hc1, hc2, if_false, hsp, hl, hne2, Bool.false_eq_true]
        have hd1 : ('=' :: '"' :: (escQ v ++ '"' :: tl)).dropWhile isWs = '=' :: '"' :: (escQ v ++ '"' :: tl) :=
          dropWhile_nows _ _ (by decide)
        have hd2 : ('"' :: (escQ v ++ '"' :: tl)).dropWhile isWs = '"' :: (escQ v ++ '"' :: tl) :=
          dropWhile_nows _ _ (by decide)
        simp only [hd1, hd2, Bool.true_or, if_true, BEq.rfl, decide_true]
        rw [readUntil_append '"' (escQ v) tl (escQ_no_quote v)]
        simp only
        rw [unesc_esc v hv _ (Nat.lt_succ_self _)]
        simp only
        rw [ih', hlow]; rfl

/-! ### one token -/

theorem tagCh_facts : isTagCh ' ' = false ∧ isTagCh '>' = false ∧ isTagCh '/' = false := by decide
theorem alpha_facts : isAlpha '/' = false ∧ isAlpha '!' = false ∧ isAlpha '?' = false ∧ isAlpha '#' = false := by decide
theorem entCh_semicolon : isEntCh ';' = false := by decide
theorem digit_semicolon : isDigit ';' = false := by decide

theorem isWs_of_alpha (c : Char) (h : isAlpha c = true) : isWs c = false :=
  isWs_false_of (p := isAlpha) (by decide) h

/-- the separators the serialisers put after a tag name end the name for the tokenizer -/
theorem tagNameEnds_facts (r : Str) :
    tagNameEnds (' ' :: r) = true ∧ tagNameEnds ('>' :: r) = true ∧ tagNameEnds ('/' :: r) = true := by
  simp [tagNameEnds, isTagEnd]

/-- what may follow a token in a rendering: after a data run, nothing or something that opens markup or a
    reference; after the data singleton `<`, a character that cannot open markup; after `&`, one that cannot
    start a reference -/
def Follows (t : Token) (rest : Str) : Prop :=
  match t with
  | .data s =>
    if s = ['<'] then ∃ c r, rest = c :: r ∧ isAlpha c = false ∧ c ≠ '/' ∧ c ≠ '!' ∧ c ≠ '?'
    else if s = ['&'] then ∃ c r, rest = c :: r ∧ isAlpha c = false ∧ c ≠ '#'
    else rest = [] ∨ ∃ r, rest = '<' :: r ∨ rest = '&' :: r
  | _ => True

theorem hex_semicolon : isHex ';' = false := by decide

theorem commentCloses_none (c0 : Char) (t : Str) (h : ¬ (c0 = '-' ∧ ∃ r, t = '-' :: r)) :
    commentCloses (c0 :: t) = none := by
  unfold commentCloses
  split
  · rename_i r heq
    simp at heq
    exact absurd ⟨heq.1, r, heq.2⟩ h
  · rfl

theorem lexComment_render (c : Str) (h : CommentOK c) (rest : Str) :
    ∀ k, (c ++ '-' :: '-' :: '>' :: rest).length < k → lexComment k (c ++ '-' :: '-' :: '>' :: rest) = some (c, rest) := by
  induction c with
  | nil =>
    intro k hk
    cases k with
    | zero => simp at hk
    | succ k =>
      have : ('>' :: rest).dropWhile isWs = '>' :: rest := dropWhile_nows _ _ (by decide)
      simp [lexComment, commentCloses, this]
  | cons c0 cs ih =>
    intro k hk
    cases k with
    | zero => simp at hk
    | succ k =>
      have hlen : (cs ++ '-' :: '-' :: '>' :: rest).length < k := by simp at hk ⊢; omega
      have hcs : CommentOK cs := by
        cases cs with
        | nil => trivial
        | cons d r => exact h.2
      -- the close pattern does not match at this position
      have hno : ¬ (c0 = '-' ∧ ∃ r, cs ++ '-' :: '-' :: '>' :: rest = '-' :: r) := by
        rintro ⟨h0, r, hr⟩
        cases cs with
        | nil => exact h h0
        | cons d r' =>
          simp at hr
          exact h.1 ⟨h0, hr.1⟩
      have ih' := ih hcs k hlen
      simp only [List.cons_append, lexComment, commentCloses_none c0 _ hno, ih']
      rfl

theorem lexOne_render (t : Token) (h : TokOK t) (rest : Str) (hf : Follows t rest) :
    ∀ k, (renderTok t ++ rest).length < k → lexOne k (renderTok t ++ rest) = some ([t], rest) := by
  intro k hk
  cases t with
  | unknownDecl d => exact absurd h (by simp [TokOK])
  | data s =>
    rcases h with rfl | rfl | ⟨hne, hall⟩
    · -- the singleton `<`
      simp only [Follows, if_true] at hf
      obtain ⟨c, r, rfl, h1, h2, h3, h4⟩ := hf
      simp [renderTok, lexOne, h1, h2, h3, h4]
    · -- the singleton `&`
      have hne' : (['&'] : Str) ≠ ['<'] := by decide
      simp only [Follows, hne', if_false, if_true] at hf
      obtain ⟨c, r, rfl, h1, h2⟩ := hf
      simp [renderTok, lexOne, h1, h2]
    · obtain ⟨c, s', rfl⟩ := List.exists_cons_of_ne_nil hne
      have hc := hall c (by simp)
      have hn1 : (c :: s') ≠ ['<'] := by intro e; simp at e; exact hc.1 e.1
      have hn2 : (c :: s') ≠ ['&'] := by intro e; simp at e; exact hc.2 e.1
      simp only [Follows, hn1, hn2, if_false] at hf
      have hallT : ∀ x ∈ c :: s', isTextCh x = true := by
        intro x hx; have := hall x hx; simp [isTextCh, this.1, this.2]
      have hsp : span isTextCh ((c :: s') ++ rest) = (c :: s', rest) := by
        rcases hf with rfl | ⟨r, rfl | rfl⟩
        · simpa using span_all _ (c :: s') hallT
        · exact span_append _ _ _ _ hallT (by decide)
        · exact span_append _ _ _ _ hallT (by decide)
      simp only [renderTok, List.cons_append] at hsp ⊢
      unfold lexOne
      split
      · rename_i heq; simp at heq
      · rename_i heq; simp at heq; exact absurd heq.1 hc.1
      · rename_i heq; simp at heq; exact absurd heq.1 hc.2
      · rename_i c' r' _ _ heq
        simp at heq
        obtain ⟨rfl, rfl⟩ := heq
        simp [hsp]
  | entity n =>
    obtain ⟨⟨c, cs, rfl, hca⟩, hall⟩ := h
    have hsp : span isEntCh ((c :: cs) ++ ';' :: rest) = (c :: cs, ';' :: rest) :=
      span_append _ _ _ _ hall entCh_semicolon
    have hne : c ≠ '#' := by intro e; rw [e] at hca; exact absurd hca (by decide)
    simp only [renderTok, List.cons_append, List.append_assoc, List.singleton_append] at hsp ⊢
    simp [lexOne, hne, hca, hsp]
  | charref n =>
    rcases h with ⟨hne, hall⟩ | ⟨x, hs, rfl, hx, hne, hall⟩
    · obtain ⟨c, cs, rfl⟩ := List.exists_cons_of_ne_nil hne
      have hcd := hall c (by simp)
      have hx : c ≠ 'x' ∧ c ≠ 'X' := by
        constructor <;> (intro e; rw [e] at hcd; exact absurd hcd (by decide))
      have hsp : span isDigit ((c :: cs) ++ ';' :: rest) = (c :: cs, ';' :: rest) :=
        span_append _ _ _ _ hall digit_semicolon
      simp only [renderTok, List.cons_append, List.append_assoc] at hsp ⊢
      simp [lexOne, hx.1, hx.2, hsp]
    · have hsp : span isHex (hs ++ ';' :: rest) = (hs, ';' :: rest) :=
        span_append _ _ _ _ hall hex_semicolon
      have hne2 : hs.isEmpty = false := by cases hs <;> simp_all
      simp only [renderTok, List.cons_append, List.append_assoc]
      rcases hx with rfl | rfl <;> simp [lexOne, hsp, hne2]
  | comment c =>
    have hlen : (c ++ '-' :: '-' :: '>' :: rest).length < k := by
      simp [renderTok] at hk ⊢; omega
    have := lexComment_render c h rest k hlen
    have hr : renderTok (.comment c) ++ rest = '<' :: '!' :: '-' :: '-' :: (c ++ '-' :: '-' :: '>' :: rest) := by
      simp [renderTok]
    rw [hr]
    simp [lexOne, alpha_facts, this]
  | decl d =>
    obtain ⟨hd, hgt⟩ := h
    have hr := readUntil_append '>' d rest hgt
    have hlen7 : 7 ≤ d.length := by
      have h2 := congrArg List.length hd
      simp [lower] at h2
      omega
    have hlow : lower (List.take 7 (d ++ '>' :: rest)) = "doctype".toList := by
      rw [List.take_append_of_le_length hlen7]; exact hd
    -- a doctype declaration does not start with a dash
    obtain ⟨d0, d1, rfl⟩ : ∃ d0 d1, d = d0 :: d1 := by
      cases d with
      | nil => simp at hlen7
      | cons d0 d1 => exact ⟨d0, d1, rfl⟩
    have hd0 : d0 ≠ '-' := by
      intro e; subst e
      have := congrArg List.head? hd
      simp [lower, lowerChar] at this
    have hrender : renderTok (.decl (d0 :: d1)) ++ rest = '<' :: '!' :: d0 :: (d1 ++ '>' :: rest) := by
      simp [renderTok]
    rw [hrender]
    simp only [List.cons_append] at hlow hr
    unfold lexOne
    simp only [alpha_facts, Bool.false_eq_true, if_false, show ('!' : Char) ≠ '/' by decide, if_true]
    split
    · rename_i r2 heq; simp at heq; exact absurd heq.1 hd0
    · rw [if_pos hlow, hr]; rfl
  | pi p =>
    have hr := readUntil_append '>' p rest h
    simp only [renderTok, List.cons_append, List.append_assoc, List.singleton_append]
    simp [lexOne, alpha_facts, hr]
  | end_ n =>
    obtain ⟨⟨c, cs, rfl, hca⟩, hall, hlow⟩ := h
    have hsp : span isTagCh ((c :: cs) ++ '>' :: rest) = (c :: cs, '>' :: rest) :=
      span_append _ _ _ _ hall tagCh_facts.2.1
    have hcw : isWs c = false := isWs_of_alpha c hca
    have hd1 := dropWhile_nows c (cs ++ '>' :: rest) hcw
    have hd2 : ('>' :: rest).dropWhile isWs = '>' :: rest := dropWhile_nows _ _ (by decide)
    simp only [renderTok, List.cons_append, List.append_assoc, List.singleton_append] at hsp ⊢
    simp [lexOne, alpha_facts, hd1, hca, hsp, hd2, hlow]
  | start n a =>
    obtain ⟨⟨⟨c, cs, rfl, hca⟩, hall, hlow⟩, hraw, hattrs⟩ := h
    obtain ⟨tc, tr, htail, _, _⟩ := tail_head a hattrs false rest
    have hsp : span isTagCh ((c :: cs) ++ ' ' :: tc :: tr) = (c :: cs, ' ' :: tc :: tr) :=
      span_append _ _ _ _ hall tagCh_facts.1
    have hlen : (renderAttrs' a ++ closer false ++ rest).length < k := by
      simp [renderTok, renderAttrs_eq, closer] at hk ⊢; omega
    have hA := lexAttrs_render a hattrs false rest k hlen
    have hrender : renderTok (.start (c :: cs) a) ++ rest = '<' :: c :: (cs ++ (renderAttrs' a ++ closer false ++ rest)) := by
      simp [renderTok, renderAttrs_eq, closer]
    rw [hrender, htail]
    rw [htail] at hA
    simp only [List.cons_append] at hsp
    simp [lexOne, hca, hsp, hA, hlow, hraw, (tagNameEnds_facts _).1]
  | startend n a =>
    obtain ⟨⟨⟨c, cs, rfl, hca⟩, hall, hlow⟩, hattrs⟩ := h
    obtain ⟨tc, tr, htail, _, _⟩ := tail_head a hattrs true rest
    have hsp : span isTagCh ((c :: cs) ++ ' ' :: tc :: tr) = (c :: cs, ' ' :: tc :: tr) :=
      span_append _ _ _ _ hall tagCh_facts.1
    have hlen : (renderAttrs' a ++ closer true ++ rest).length < k := by
      simp [renderTok, renderAttrs_eq, closer] at hk ⊢; omega
    have hA := lexAttrs_render a hattrs true rest k hlen
    have hrender : renderTok (.startend (c :: cs) a) ++ rest = '<' :: c :: (cs ++ (renderAttrs' a ++ closer true ++ rest)) := by
      simp [renderTok, renderAttrs_eq, closer]
    rw [hrender, htail]
    rw [htail] at hA
    simp only [List.cons_append] at hsp
    simp [lexOne, hca, hsp, hA, hlow, (tagNameEnds_facts _).1]

/-- the token block a raw-text element (`script` / `style`) is read as: start tag, the content as ONE data token
    (none when the content is empty), end tag -/
def rawBlock (n : Str) (a : List Attr) (raw : Str) : List Token :=
  if raw.isEmpty then [.start n a, .end_ n] else [.start n a, .data raw, .end_ n]

/-- **raw-text elements.**  The start tag of `script` / `style`, content that nowhere matches the closing
    expression (`RawOK`: may contain `<`, `&`, other tags, comments, anything else), and the closing tag are read
    by ONE step of the lexer as start tag, one data token, end tag. -/
theorem lexOne_render_raw (n : Str) (a : List Attr) (raw rest : Str) (hraw : isRawText n = true)
    (hattrs : ∀ x ∈ a, AttrOK x) (hok : RawOK n raw) :
    ∀ k, (renderTok (.start n a) ++ (raw ++ (renderTok (.end_ n) ++ rest))).length < k →
      lexOne k (renderTok (.start n a) ++ (raw ++ (renderTok (.end_ n) ++ rest))) = some (rawBlock n a raw, rest) := by
  intro k hk
  obtain ⟨hlow, hne, hlt, hw, ⟨c, cs, rfl, hca⟩, hall⟩ := rawName_facts n hraw
  generalize hrest' : raw ++ (renderTok (.end_ (c :: cs)) ++ rest) = rest' at hk ⊢
  have hrest'' : rest' = raw ++ '<' :: '/' :: ((c :: cs) ++ '>' :: rest) := by
    rw [← hrest']; simp [renderTok]
  obtain ⟨tc, tr, htail, _, _⟩ := tail_head a hattrs false rest'
  have hsp : span isTagCh ((c :: cs) ++ ' ' :: tc :: tr) = (c :: cs, ' ' :: tc :: tr) :=
    span_append _ _ _ _ hall tagCh_facts.1
  have hlen : (renderAttrs' a ++ closer false ++ rest').length < k := by
    simp [renderTok, renderAttrs_eq, closer] at hk ⊢; omega
  have hA := lexAttrs_render a hattrs false rest' k hlen
  have hlenR : rest'.length < k := by simp at hlen; omega
  have hR : lexRaw (c :: cs) k rest' = some (raw, rest) := by
    rw [hrest''] at hlenR ⊢
    exact lexRaw_render (c :: cs) raw rest hlow hne hlt hw hok k hlenR
  have hrender : renderTok (.start (c :: cs) a) ++ rest' = '<' :: c :: (cs ++ (renderAttrs' a ++ closer false ++ rest')) := by
    simp [renderTok, renderAttrs_eq, closer]
  rw [hrender, htail]
  rw [htail] at hA
  simp only [List.cons_append] at hsp
  simp only [lexOne, hca, if_true, hsp, (tagNameEnds_facts _).1, Bool.not_true, hA, hlow, Bool.false_eq_true, if_false, hraw, hR, rawBlock]

/-! ### whole token lists -/

theorem renderToks_append (xs ys : List Token) : renderToks (xs ++ ys) = renderToks xs ++ renderToks ys := by
  induction xs with
  | nil => rfl
  | cons x xs ih => simp [renderToks, ih]

theorem renderTok_ne_nil (t : Token) (h : TokOK t) : renderTok t ≠ [] := by
  cases t <;> simp [renderTok, TokOK] at h ⊢
  rcases h with rfl | rfl | h
  · simp
  · simp
  · exact h.1

/-- a token list in the serialiser's image: every token well formed and followed by something that keeps
    it a token of its own (`cons`); a raw-text element (`script` / `style`) is its start tag, at most one data
    token whose text nowhere matches the element's closing expression `</ ws* name ws* >` (`RawOK` — it may
    contain `<`, `&`, tags, comments, references: none of them is markup there), and its end tag
    (`raw` / `rawEmpty`) -/
inductive ListOK : List Token → Prop
  | nil : ListOK []
  | cons {t : Token} {ts : List Token} : TokOK t → Follows t (renderToks ts) → ListOK ts → ListOK (t :: ts)
  | raw {n : Str} {a : List Attr} {raw : Str} {ts : List Token} :
      isRawText n = true → (∀ x ∈ a, AttrOK x) → raw ≠ [] → RawOK n raw → ListOK ts →
      ListOK (.start n a :: .data raw :: .end_ n :: ts)
  | rawEmpty {n : Str} {a : List Attr} {ts : List Token} :
      isRawText n = true → (∀ x ∈ a, AttrOK x) → ListOK ts → ListOK (.start n a :: .end_ n :: ts)

/-- the tokens of a raw-text element that `TokOK` (the grammar outside raw text) does not describe: the
    element's start tag and its content -/
def RawTok : Token → Prop
  | .start n a => isRawText n = true ∧ ∀ x ∈ a, AttrOK x
  | .data s => s ≠ []
  | _ => False

theorem rawName_tagNameOK (n : Str) (h : isRawText n = true) : TagNameOK n := by
  obtain ⟨hlow, _, _, _, hex, hall⟩ := rawName_facts n h
  exact ⟨hex, hall, hlow⟩

/-- every token of a list in the serialiser's image is well formed, or is the start tag / content of a
    raw-text element -/
theorem ListOK.tokOK {ts : List Token} (h : ListOK ts) : ∀ t ∈ ts, TokOK t ∨ RawTok t := by
  induction h with
  | nil => intro t ht; simp at ht
  | cons h1 _ _ ih =>
    intro t ht
    rcases List.mem_cons.mp ht with e | e
    · rw [e]; exact Or.inl h1
    · exact ih t e
  | raw hr ha hne _ _ ih =>
    intro t ht
    simp only [List.mem_cons] at ht
    rcases ht with e | e | e | e
    · rw [e]; exact Or.inr ⟨hr, ha⟩
    · rw [e]; exact Or.inr hne
    · rw [e]; exact Or.inl (rawName_tagNameOK _ hr)
    · exact ih t e
  | rawEmpty hr ha _ ih =>
    intro t ht
    simp only [List.mem_cons] at ht
    rcases ht with e | e | e
    · rw [e]; exact Or.inr ⟨hr, ha⟩
    · rw [e]; exact Or.inl (rawName_tagNameOK _ hr)
    · exact ih t e

/-- in particular no `<![ … ]>` declaration occurs -/
theorem ListOK.no_unknownDecl {ts : List Token} (h : ListOK ts) (x : Str) : Token.unknownDecl x ∉ ts := by
  intro hm
  rcases h.tokOK _ hm with h1 | h1
  · exact absurd h1 (by simp [TokOK])
  · exact absurd h1 (by simp [RawTok])

/-- a token that is not a data run renders to something that starts with `<` or `&` -/
theorem render_head (t : Token) (h : TokOK t) (hd : isData t = false) :
    ∃ r, renderTok t = '<' :: r ∨ renderTok t = '&' :: r := by
  cases t with
  | data s => simp [isData] at hd
  | unknownDecl d => exact absurd h (by simp [TokOK])
  | start n a => exact ⟨_, Or.inl rfl⟩
  | startend n a => exact ⟨_, Or.inl rfl⟩
  | end_ n => exact ⟨_, Or.inl rfl⟩
  | entity n => exact ⟨_, Or.inr rfl⟩
  | charref n => exact ⟨_, Or.inr rfl⟩
  | comment c => exact ⟨_, Or.inl rfl⟩
  | decl d => exact ⟨_, Or.inl rfl⟩
  | pi d => exact ⟨_, Or.inl rfl⟩

/-- the token is not one of the data singletons `<` / `&` -/
def NotSingleton : Token → Prop
  | .data s => s ≠ ['<'] ∧ s ≠ ['&']
  | _ => True

instance : (t : Token) → Decidable (NotSingleton t)
  | .data s => inferInstanceAs (Decidable (s ≠ ['<'] ∧ s ≠ ['&']))
  | .start _ _ => isTrue trivial
  | .startend _ _ => isTrue trivial
  | .end_ _ => isTrue trivial
  | .entity _ => isTrue trivial
  | .charref _ => isTrue trivial
  | .comment _ => isTrue trivial
  | .decl _ => isTrue trivial
  | .pi _ => isTrue trivial
  | .unknownDecl _ => isTrue trivial

theorem renderToks_follows (t : Token) (hns : NotSingleton t) (ts : List Token) (hts : ∀ x ∈ ts, TokOK x)
    (hadj : NoAdjData (t :: ts)) : Follows t (renderToks ts) := by
  cases t with
  | data s =>
    simp only [NotSingleton] at hns
    simp only [Follows, hns.1, hns.2, if_false]
    cases ts with
    | nil => left; rfl
    | cons t2 ts2 =>
      right
      have h2 : isData t2 = false := by
        have := hadj.1
        cases hd : isData t2 with
        | false => rfl
        | true => exact absurd ⟨rfl, hd⟩ this
      obtain ⟨r, hr⟩ := render_head t2 (hts t2 (by simp)) h2
      rcases hr with hr | hr
      · exact ⟨r ++ renderToks ts2, Or.inl (by simp [renderToks, hr])⟩
      · exact ⟨r ++ renderToks ts2, Or.inr (by simp [renderToks, hr])⟩
  | _ => trivial

theorem renderToks_raw (n : Str) (a : List Attr) (raw : Str) (ts : List Token) :
    renderToks (rawBlock n a raw ++ ts)
      = renderTok (.start n a) ++ (raw ++ (renderTok (.end_ n) ++ renderToks ts)) := by
  unfold rawBlock
  by_cases h : raw.isEmpty = true
  · have : raw = [] := by simpa using h
    subst this
    simp [renderToks]
  · simp [h, renderToks, renderTok]

/-- one step of `lexN` over a raw-text element -/
theorem lexN_raw_step (n : Str) (a : List Attr) (raw : Str) (ts : List Token) (hr : isRawText n = true)
    (ha : ∀ x ∈ a, AttrOK x) (hok : RawOK n raw)
    (ih : ∀ k, (renderToks ts).length < k → lexN k (renderToks ts) = some ts) :
    ∀ k, (renderToks (rawBlock n a raw ++ ts)).length < k →
      lexN k (renderToks (rawBlock n a raw ++ ts)) = some (rawBlock n a raw ++ ts) := by
  intro k hk
  rw [renderToks_raw] at hk ⊢
  cases k with
  | zero => simp at hk
  | succ k =>
    have hone := lexOne_render_raw n a raw (renderToks ts) hr ha hok (k + 1) hk
    have hlen : (renderToks ts).length < k := by
      simp [renderTok] at hk; omega
    have hlt : (renderToks ts).length
        < (renderTok (.start n a) ++ (raw ++ (renderTok (.end_ n) ++ renderToks ts))).length := by
      simp [renderTok]; omega
    have hnn : (renderTok (.start n a) ++ (raw ++ (renderTok (.end_ n) ++ renderToks ts))).isEmpty = false := by
      simp [renderTok]
    unfold lexN
    rw [hnn]
    simp only [Bool.false_eq_true, if_false, hone, hlt, if_true, ih k hlen, Option.map]

/-- **lexing the rendering of a well-formed token list gives the list back** -/
theorem lexN_renderToks (ts : List Token) (h : ListOK ts) :
    ∀ k, (renderToks ts).length < k → lexN k (renderToks ts) = some ts := by
  induction h with
  | nil =>
    intro k hk
    cases k with
    | zero => simp at hk
    | succ k => simp [renderToks, lexN]
  | @cons t ts ht hf hts ih =>
    intro k hk
    cases k with
    | zero => simp at hk
    | succ k =>
      have hne := renderTok_ne_nil t ht
      have hpos : 0 < (renderTok t).length := List.length_pos_iff.mpr hne
      have hlen : (renderToks ts).length < k := by
        simp [renderToks] at hk; omega
      have hone := lexOne_render t ht (renderToks ts) hf (k + 1) (by simpa [renderToks] using hk)
      have hnn : (renderTok t ++ renderToks ts).isEmpty = false := by
        cases hr : renderTok t with
        | nil => exact absurd hr hne
        | cons c r => rfl
      simp [renderToks, lexN, hnn, hone, hne, ih k hlen]
  | @raw n a raw ts hr ha hne hok _ ih =>
    have hb : rawBlock n a raw = [.start n a, .data raw, .end_ n] := by
      have : raw.isEmpty = false := by cases raw <;> simp_all
      simp [rawBlock, this]
    have := lexN_raw_step n a raw ts hr ha hok ih
    rw [hb] at this
    exact this
  | @rawEmpty n a ts hr ha _ ih =>
    have := lexN_raw_step n a [] ts hr ha trivial ih
    exact this

theorem lexStrict_renderToks (ts : List Token) (h : ListOK ts) :
    lexStrict (renderToks ts) = some ts :=
  lexN_renderToks ts h _ (Nat.lt_succ_self _)

/-- a sufficient condition without the singletons: all tokens well formed, no two data runs adjacent -/
theorem listOK_of_noAdjData (ts : List Token) (h : ∀ t ∈ ts, TokOK t) (hns : ∀ t ∈ ts, NotSingleton t)
    (hadj : NoAdjData ts) : ListOK ts := by
  induction ts with
  | nil => exact .nil
  | cons t ts ih =>
    have hts : ∀ x ∈ ts, TokOK x := fun x hx => h x (by simp [hx])
    have hadj' : NoAdjData ts := by
      cases ts with
      | nil => trivial
      | cons t2 ts2 => exact hadj.2
    exact .cons (h t (by simp)) (renderToks_follows t (hns t (by simp)) ts hts hadj)
      (ih hts (fun x hx => hns x (by simp [hx])) hadj')

end AHP
