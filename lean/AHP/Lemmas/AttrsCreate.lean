/-
  AHP.Lemmas.AttrsCreate — C08: the list of a freshly constructed element for EVERY raw attribute list (upper-case,
  invalid and repeated names included), against a specification written from the property text, not from the code:

    "attribute names are lower-cased with invalid names dropped and the last duplicate winning" (C02),
    "names are … stored lower-case" (C08), class listed last (C09: materialised by the first reader), style shown as
    the style object renders it and only while it has a property (C10).

  `createdList` below is declarative (names in order of first occurrence, each with the value of its LAST
  occurrence); the constructor `mk` is a left fold of dict writes.  One quirk of the code is part of the
  specification because it is observable in the order: a `style` entry whose value has no declaration DELETES the
  attribute, so a later non-empty `style` entry is listed at the position of that later entry (`effective`).
-/
import AHP.Lemmas.AttrsWriteRead
namespace AHP.Attrs
open AHP

/-! #### the specification -/

/-- lower-case the names, drop the entries whose name is invalid -/
def normNames (l : List (Str × Option Str)) : List (Str × Option Str) :=
  l.filterMap (fun p => if validName (lower p.1) then some (lower p.1, p.2) else none)

/-- the value of the LAST entry named `k` -/
def lastValue (k : Str) : List (Str × Option Str) → Option (Option Str)
  | [] => none
  | p :: r =>
    match lastValue k r with
    | some v => some v
    | none => if p.1 = k then some p.2 else none

/-- the names of a list in order of first occurrence -/
def firstNames : List Str → List Str
  | [] => []
  | k :: r => k :: (firstNames r).filter (fun x => decide (x ≠ k))

/-- the style value has no declaration (`style=""`, `style`, `style="junk"`) -/
def emptyStyleVal (v : Option Str) : Bool := (styleToDict (v.getD [])).isEmpty

/-- is there an entry named `style` without any declaration? -/
def hasEmptyStyle (l : List (Str × Option Str)) : Bool := l.any (fun q => decide (q.1 = styleK) && emptyStyleVal q.2)

/-- the entries that decide WHERE a name is listed: a `style` entry that is followed by (or is itself) a `style`
    entry without declarations does not count — the attribute was deleted in between -/
def effective : List (Str × Option Str) → List (Str × Option Str)
  | [] => []
  | p :: r =>
    if decide (p.1 = styleK) && (emptyStyleVal p.2 || hasEmptyStyle r) then effective r else p :: effective r

/-- what the views show for a stored value: a boolean-string attribute normalised, `style` re-rendered -/
def shownValue (T : Tables) (k : Str) (v : Option Str) : Option Str :=
  if k = styleK then some (asStr (styleToDict (v.getD []))) else normVal T k v

/-- the names listed before `class`, in order -/
def listedNames (n : List (Str × Option Str)) : List Str :=
  firstNames (((effective n).filter (fun p => decide (p.1 ≠ classK))).map (fun p => p.1))

/-- the entry `class` contributes -/
def classEntry (n : List (Str × Option Str)) : List (Str × Option Str) :=
  match lastValue classK n with
  | some v => if (words (v.getD [])).isEmpty then [] else [(classK, some (joinWith [' '] (words (v.getD []))))]
  | none => []

/-- **The specification**: `getAttributesList()` of `AdvancedTag(tag, l)` / of a parsed start tag with attributes `l`. -/
def createdList (T : Tables) (l : List (Str × Option Str)) : List (Str × Option Str) :=
  (listedNames (normNames l)).map (fun k => (k, shownValue T k ((lastValue k (normNames l)).getD none)))
    ++ classEntry (normNames l)

/-! #### the constructor only sees the normalised list -/

theorem foldl_initStep_normNames (T : Tables) : ∀ (l : List (Str × Option Str)) (e : El),
    l.foldl (initStep T) e = (normNames l).foldl (initStep T) e
  | [], _ => rfl
  | p :: l, e => by
    simp only [List.foldl_cons]
    rw [foldl_initStep_normNames T l]
    unfold normNames
    rw [List.filterMap_cons]
    by_cases hv : validName (lower p.1) = true
    · simp only [hv, if_true, List.foldl_cons]
      congr 1
      unfold initStep
      simp only [lower_idem, hv, if_true]
    · have hv' : validName (lower p.1) = false := by simpa using hv
      simp only [hv', Bool.false_eq_true, if_false]
      congr 1
      unfold initStep
      simp only [hv', Bool.false_eq_true, if_false]

theorem mk_normNames (T : Tables) (tag : Str) (sc : Bool) (l : List (Str × Option Str)) :
    mk T tag sc l = mk T tag sc (normNames l) := foldl_initStep_normNames T l _

/-- every name of the normalised list is valid and lower-case -/
def AllGood (n : List (Str × Option Str)) : Prop := ∀ p ∈ n, validName p.1 = true ∧ lower p.1 = p.1

theorem allGood_normNames (l : List (Str × Option Str)) : AllGood (normNames l) := by
  intro p hp
  unfold normNames at hp
  obtain ⟨q, _, hq⟩ := List.mem_filterMap.mp hp
  split at hq
  · next hv =>
    cases hq
    exact ⟨hv, lower_idem _⟩
  · cases hq

/-! #### the specification functions and `snoc` -/

theorem lastValue_snoc (j k : Str) (v : Option Str) : ∀ n : List (Str × Option Str),
    lastValue j (n ++ [(k, v)]) = if k = j then some v else lastValue j n
  | [] => by simp [lastValue]
  | p :: r => by
    simp only [List.cons_append, lastValue]
    rw [lastValue_snoc j k v r]
    by_cases h : k = j
    · simp [h]
    · simp only [h, if_false]

theorem mem_firstNames {x : Str} : ∀ {ks : List Str}, x ∈ firstNames ks ↔ x ∈ ks
  | [] => by simp [firstNames]
  | k :: r => by
    simp only [firstNames, List.mem_cons, List.mem_filter, decide_eq_true_eq]
    rw [mem_firstNames (ks := r)]
    constructor
    · rintro (h | h)
      · exact Or.inl h
      · exact Or.inr h.1
    · rintro (h | h)
      · exact Or.inl h
      · by_cases hx : x = k
        · exact Or.inl hx
        · exact Or.inr ⟨h, hx⟩

theorem nodup_firstNames : ∀ ks : List Str, (firstNames ks).Nodup
  | [] => by simp [firstNames]
  | k :: r => by
    simp only [firstNames, List.nodup_cons]
    refine ⟨?_, (nodup_firstNames r).filter _⟩
    intro h
    have := (List.mem_filter.mp h).2
    simp at this

theorem firstNames_snoc (k : Str) : ∀ ks : List Str,
    firstNames (ks ++ [k]) = if k ∈ ks then firstNames ks else firstNames ks ++ [k]
  | [] => by simp [firstNames]
  | a :: r => by
    simp only [List.cons_append, firstNames]
    rw [firstNames_snoc k r]
    by_cases hka : k = a
    · subst hka
      simp only [List.mem_cons, true_or, if_true]
      by_cases hr : k ∈ r
      · simp only [hr, if_true]
      · simp only [hr, if_false, List.filter_append]
        simp
    · have hmem : (k ∈ a :: r) ↔ k ∈ r := by simp [hka]
      by_cases hr : k ∈ r
      · simp only [hr, if_true, hmem]
      · simp only [hr, if_false, hmem, List.filter_append]
        simp [hka]

theorem firstNames_filter (s : Str) : ∀ ks : List Str,
    firstNames (ks.filter (fun x => decide (x ≠ s))) = (firstNames ks).filter (fun x => decide (x ≠ s))
  | [] => rfl
  | a :: r => by
    by_cases has : a = s
    · subst has
      simp only [List.filter_cons, ne_eq, not_true_eq_false, decide_false, Bool.false_eq_true, if_false, firstNames]
      rw [firstNames_filter a r, List.filter_filter]
      simp
    · have : decide (a ≠ s) = true := by simpa using has
      simp only [List.filter_cons, this, if_true, firstNames]
      rw [firstNames_filter s r, List.filter_filter, List.filter_filter]
      congr 1
      apply List.filter_congr
      intro x _
      exact Bool.and_comm _ _

theorem hasEmptyStyle_snoc (n : List (Str × Option Str)) (p : Str × Option Str) :
    hasEmptyStyle (n ++ [p]) = (hasEmptyStyle n || (decide (p.1 = styleK) && emptyStyleVal p.2)) := by
  unfold hasEmptyStyle
  simp [List.any_append]

/-- appending an entry that is not an empty `style` entry: it counts, the others count as before -/
theorem effective_snoc_keep (p : Str × Option Str) (hp : (decide (p.1 = styleK) && emptyStyleVal p.2) = false) :
    ∀ n : List (Str × Option Str), effective (n ++ [p]) = effective n ++ [p]
  | [] => by simp [effective, hasEmptyStyle, hp]
  | q :: r => by
    simp only [List.cons_append, effective]
    rw [hasEmptyStyle_snoc, hp, Bool.or_false, effective_snoc_keep p hp r]
    split <;> rfl

/-- appending a `style` entry without declarations: no `style` entry counts any more -/
theorem effective_snoc_empty_style (v : Option Str) (hv : emptyStyleVal v = true) :
    ∀ n : List (Str × Option Str),
      effective (n ++ [(styleK, v)]) = (effective n).filter (fun p => decide (p.1 ≠ styleK))
  | [] => by simp [effective, hv]
  | q :: r => by
    simp only [List.cons_append, effective]
    rw [hasEmptyStyle_snoc, effective_snoc_empty_style v hv r]
    simp only [decide_true, hv, Bool.and_self, Bool.or_true]
    by_cases hq : q.1 = styleK
    · simp only [hq, decide_true, Bool.and_self, if_true]
      split
      · rfl
      · simp [List.filter_cons, hq]
    · have : decide (q.1 = styleK) = false := by simpa using hq
      simp only [this, Bool.false_and, Bool.false_eq_true, if_false, List.filter_cons]
      simp [hq]

/-! #### lists of the form `names.map (k ↦ (k, f k))` under dict writes -/

theorem aset_map_names (k : Str) (x : Option Str) (f : Str → Option Str) : ∀ (names : List Str), names.Nodup →
    aset k x (names.map (fun j => (j, f j))) =
      (if k ∈ names then names else names ++ [k]).map (fun j => (j, if j = k then x else f j))
  | [], _ => by simp [aset]
  | a :: r, hn => by
    have hn' := List.nodup_cons.mp hn
    by_cases hak : a = k
    · subst hak
      simp only [List.map_cons, aset_cons_same, List.mem_cons, true_or, if_true, Prod.mk.injEq, true_and]
      congr 1
      apply List.map_congr_left
      intro j hj
      have : j ≠ a := fun e => hn'.1 (e ▸ hj)
      simp [this]
    · have hmem : (k ∈ a :: r) ↔ k ∈ r := by simp [Ne.symm hak]
      simp only [List.map_cons]
      rw [aset_cons_ne hak, aset_map_names k x f r hn'.2]
      by_cases hr : k ∈ r
      · simp only [hr, if_true, hmem, List.map_cons, hak, if_false]
      · simp only [hr, if_false, hmem, List.cons_append, List.map_cons, hak]

theorem adel_map_names (s : Str) (f : Str → Option Str) (names : List Str) :
    adel s (names.map (fun j => (j, f j))) = (names.filter (fun x => decide (x ≠ s))).map (fun j => (j, f j)) := by
  unfold adel
  rw [List.filter_map]
  rfl

theorem map_fst_filter_ne (s : Str) (l : List (Str × Option Str)) :
    (l.filter (fun p => decide (p.1 ≠ s))).map (fun p => p.1) = (l.map (fun p => p.1)).filter (fun x => decide (x ≠ s)) := by
  rw [List.filter_map]
  rfl

/-! #### `listedNames` and `snoc` -/

theorem listedNames_snoc_class (n : List (Str × Option Str)) (v : Option Str) :
    listedNames (n ++ [(classK, v)]) = listedNames n := by
  unfold listedNames
  rw [effective_snoc_keep (classK, v) (by simp [classK_ne_styleK]), List.filter_append]
  simp

theorem listedNames_snoc_keep (n : List (Str × Option Str)) (p : Str × Option Str) (hc : p.1 ≠ classK)
    (hp : (decide (p.1 = styleK) && emptyStyleVal p.2) = false) :
    listedNames (n ++ [p]) = if p.1 ∈ listedNames n then listedNames n else listedNames n ++ [p.1] := by
  unfold listedNames
  rw [effective_snoc_keep p hp, List.filter_append]
  have : [p].filter (fun q => decide (q.1 ≠ classK)) = [p] := by simp [hc]
  rw [this, List.map_append, List.map_cons, List.map_nil, firstNames_snoc]
  simp only [mem_firstNames]

theorem listedNames_snoc_empty_style (n : List (Str × Option Str)) (v : Option Str) (hv : emptyStyleVal v = true) :
    listedNames (n ++ [(styleK, v)]) = (listedNames n).filter (fun x => decide (x ≠ styleK)) := by
  unfold listedNames
  rw [effective_snoc_empty_style v hv, List.filter_filter]
  have : (effective n).filter (fun a => decide (a.1 ≠ classK) && decide (a.1 ≠ styleK))
      = ((effective n).filter (fun p => decide (p.1 ≠ classK))).filter (fun p => decide (p.1 ≠ styleK)) := by
    rw [List.filter_filter]
    apply List.filter_congr
    intro x _
    exact Bool.and_comm _ _
  rw [this, map_fst_filter_ne, firstNames_filter]

/-! #### the invariant of the constructor's loop -/

/-- what the views show under name `k` for the (normalised) list `n` -/
def shownIn (T : Tables) (n : List (Str × Option Str)) (k : Str) : Option Str :=
  shownValue T k ((lastValue k n).getD none)

structure MkInv (T : Tables) (e : El) (n : List (Str × Option Str)) : Prop where
  cls : e.cls = match lastValue classK n with
    | some v => words (v.getD [])
    | none => []
  sty : e.sty = match lastValue styleK n with
    | some v => styleToDict (v.getD [])
    | none => []
  noClass : classK ∉ akeys e.dict
  dict : e.dict.map (fun p => (p.1, slotView e.sty p.2)) = (listedNames n).map (fun k => (k, shownIn T n k))
  inv : DictInv e

theorem shownIn_snoc_ne (T : Tables) (n : List (Str × Option Str)) {j k : Str} (v : Option Str) (h : j ≠ k) :
    shownIn T (n ++ [(k, v)]) j = shownIn T n j := by
  unfold shownIn
  rw [lastValue_snoc, if_neg (Ne.symm h)]

theorem shownIn_snoc_same (T : Tables) (n : List (Str × Option Str)) (k : Str) (v : Option Str) :
    shownIn T (n ++ [(k, v)]) k = shownValue T k v := by
  unfold shownIn
  rw [lastValue_snoc, if_pos rfl]
  rfl

theorem slot_sty_only_style {e : El} (h : DictInv e) (m : AL Str) :
    ∀ p ∈ e.dict, p.1 ≠ styleK → slotView m p.2 = slotView e.sty p.2 := by
  intro p hp hk
  have := (h.slots p hp).2.2
  cases hs : p.2 with
  | val v => rfl
  | cls s => rfl
  | sty => rw [hs] at this; exact absurd this hk

theorem mkInv_empty (T : Tables) (tag : Str) (sc : Bool) : MkInv T (El.empty tag sc) [] :=
  ⟨rfl, rfl, by simp [El.empty, akeys], rfl, dictInv_empty tag sc⟩

theorem mkInv_snoc (T : Tables) {e : El} {n : List (Str × Option Str)} (h : MkInv T e n) (k : Str) (v : Option Str)
    (hv : validName k = true) (hl : lower k = k) : MkInv T (initStep T e (k, v)) (n ++ [(k, v)]) := by
  have hstep : initStep T e (k, v) = (mapSet T k v e).2 := initStep_good T e (k, v) hv hl
  rw [hstep]
  have hinv : DictInv (mapSet T k v e).2 := dictInv_mapSet T k v h.inv
  by_cases hc : k = classK
  · -- `class`: only the class list changes
    subst hc
    rw [mapSet_class T hl] at hinv ⊢
    refine ⟨?_, ?_, h.noClass, ?_, hinv⟩
    · show words (v.getD []) = _
      rw [lastValue_snoc, if_pos rfl]
    · show e.sty = _
      rw [lastValue_snoc, if_neg classK_ne_styleK]; exact h.sty
    · show e.dict.map (fun p => (p.1, slotView e.sty p.2)) = _
      rw [h.dict, listedNames_snoc_class]
      apply List.map_congr_left
      intro j hj
      have hjc : j ≠ classK := by
        intro e'
        have hm : j ∈ akeys (e.dict.map (fun p => (p.1, slotView e.sty p.2))) := by
          rw [h.dict]; unfold akeys; rw [List.map_map]; exact List.mem_map.mpr ⟨j, hj, rfl⟩
        rw [akeys_map] at hm
        exact h.noClass (e' ▸ hm)
      rw [shownIn_snoc_ne T n v hjc]
  · by_cases hs : k = styleK
    · -- `style`: the map is replaced, `_ensureHtmlAttribute` runs
      subst hs
      rw [mapSet_style T hl] at hinv ⊢
      have hsty' : (ensureStyle { e with sty := styleToDict (v.getD []) }).sty = styleToDict (v.getD []) := ensureStyle_sty _
      have hdict' : (ensureStyle { e with sty := styleToDict (v.getD []) }).dict = styleStep (styleToDict (v.getD [])) e.dict :=
        ensureStyle_dict _
      refine ⟨?_, ?_, ?_, ?_, hinv⟩
      · rw [ensureStyle_cls, lastValue_snoc, if_neg styleK_ne_classK]; exact h.cls
      · rw [hsty', lastValue_snoc, if_pos rfl]
      · rw [hdict']
        rw [styleStep_mem_other _ _ classK_ne_styleK]
        exact h.noClass
      · rw [hsty', hdict']
        cases he : (styleToDict (v.getD [])).isEmpty with
        | true =>
          have e1 : styleStep (styleToDict (v.getD [])) e.dict = adel styleK e.dict := by unfold styleStep; rw [he]; rfl
          rw [e1, adel_map, adel_map_congr styleK (slot_sty_only_style h.inv _), h.dict, adel_map_names,
              listedNames_snoc_empty_style n v he]
          apply List.map_congr_left
          intro j hj
          have hjs : j ≠ styleK := by simpa using (List.mem_filter.mp hj).2
          rw [shownIn_snoc_ne T n v hjs]
        | false =>
          have e1 : styleStep (styleToDict (v.getD [])) e.dict = aset styleK Slot.sty e.dict := by unfold styleStep; rw [he]; rfl
          rw [e1, aset_map, aset_map_congr styleK _ h.inv.nodup (slot_sty_only_style h.inv _), h.dict,
              aset_map_names _ _ _ (listedNames n) (nodup_firstNames _),
              listedNames_snoc_keep n (styleK, v) styleK_ne_classK (by simp [emptyStyleVal, he])]
          apply List.map_congr_left
          intro j _
          by_cases hjs : j = styleK
          · subst hjs
            rw [if_pos rfl, shownIn_snoc_same]
            unfold shownValue
            rw [if_pos rfl]
            rfl
          · rw [if_neg hjs, shownIn_snoc_ne T n v hjs]
    · -- an ordinary name: one dict write
      rw [mapSet_ordinary T hv (by rw [hl]; exact hc) (by rw [hl]; exact hs)] at hinv ⊢
      rw [hl] at hinv ⊢
      refine ⟨?_, ?_, ?_, ?_, hinv⟩
      · show e.cls = _
        rw [lastValue_snoc, if_neg hc]; exact h.cls
      · show e.sty = _
        rw [lastValue_snoc, if_neg hs]; exact h.sty
      · show classK ∉ akeys (aset k _ e.dict)
        intro hm
        rcases (mem_akeys_aset _).mp hm with e' | hm'
        · exact hc e'.symm
        · exact h.noClass hm'
      · show (aset k (Slot.val (normVal T k v)) e.dict).map (fun p => (p.1, slotView e.sty p.2)) = _
        rw [aset_map, h.dict, aset_map_names _ _ _ (listedNames n) (nodup_firstNames _),
            listedNames_snoc_keep n (k, v) hc (by simp [hs])]
        apply List.map_congr_left
        intro j _
        by_cases hjk : j = k
        · subst hjk
          rw [if_pos rfl, shownIn_snoc_same]
          unfold shownValue
          rw [if_neg hs]
          rfl
        · rw [if_neg hjk, shownIn_snoc_ne T n v hjk]

theorem mkInv_foldl_rev (T : Tables) (tag : Str) (sc : Bool) : ∀ (r : List (Str × Option Str)), AllGood r →
    MkInv T (r.reverse.foldl (initStep T) (El.empty tag sc)) r.reverse
  | [], _ => mkInv_empty T tag sc
  | p :: r, hg => by
    have ih := mkInv_foldl_rev T tag sc r (fun q hq => hg q (List.mem_cons_of_mem _ hq))
    have hp := hg p (by simp)
    rw [List.reverse_cons, List.foldl_append]
    exact mkInv_snoc T ih p.1 p.2 hp.1 hp.2

theorem mkInv_mk (T : Tables) (tag : Str) (sc : Bool) {n : List (Str × Option Str)} (hg : AllGood n) :
    MkInv T (mk T tag sc n) n := by
  have := mkInv_foldl_rev T tag sc n.reverse (fun q hq => hg q (List.mem_reverse.mp hq))
  rw [List.reverse_reverse] at this
  exact this

/-- **C08, creation, every raw list.**  `getAttributesList()` of `AdvancedTag(tag, l)` is `createdList T l`. -/
theorem viewList_mk_all (T : Tables) (tag : Str) (sc : Bool) (l : List (Str × Option Str)) :
    viewList (mk T tag sc l) = createdList T l := by
  rw [mk_normNames]
  have h := mkInv_mk T tag sc (allGood_normNames l)
  generalize mk T tag sc (normNames l) = e at h
  rw [viewList_eq]
  unfold viewOf createdList
  rw [syncDict_eq_classStep h.inv]
  unfold classStep classEntry
  rw [h.cls]
  cases hlv : lastValue classK (normNames l) with
  | none =>
    simp only [List.isEmpty_nil, if_true, List.append_nil]
    rw [adel_of_not_mem h.noClass]
    exact h.dict
  | some v =>
    simp only
    cases hw : (words (v.getD [])).isEmpty with
    | true =>
      simp only [if_true, List.append_nil]
      rw [adel_of_not_mem h.noClass]
      exact h.dict
    | false =>
      simp only [Bool.false_eq_true, if_false]
      rw [aset_of_not_mem _ h.noClass, List.map_append, h.dict]
      rfl

/-- "the last duplicate wins", per key: under a name other than class / style a constructed element lists the
    (normalised) value of the LAST entry of that name -/
theorem foldl_initStep_lookup_rev (T : Tables) (tag : Str) (sc : Bool) {k : Str} (hc : k ≠ classK) (hs : k ≠ styleK) :
    ∀ (r : List (Str × Option Str)), AllGood r →
      aget k (viewList (r.reverse.foldl (initStep T) (El.empty tag sc))) = (lastValue k r.reverse).map (normVal T k)
  | [], _ => by
    simp only [List.reverse_nil, List.foldl_nil, lastValue, Option.map_none]
    rw [viewList_ordinary (dictInv_empty tag sc) hc hs]
    rfl
  | p :: r, hg => by
    have ih := foldl_initStep_lookup_rev T tag sc hc hs r (fun q hq => hg q (List.mem_cons_of_mem _ hq))
    have hp := hg p (by simp)
    have hinv : DictInv (r.reverse.foldl (initStep T) (El.empty tag sc)) :=
      dictInv_foldl_initStep T _ (dictInv_empty tag sc)
    rw [List.reverse_cons, List.foldl_append]
    simp only [List.foldl_cons, List.foldl_nil]
    rw [initStep_good T _ p hp.1 hp.2]
    obtain ⟨pk, pv⟩ := p
    simp only at hp ⊢
    rw [lastValue_snoc]
    by_cases hk : pk = k
    · subst hk
      rw [if_pos rfl]
      have := mapSet_listed T hinv hp.1 (by rw [hp.2]; exact hc) (by rw [hp.2]; exact hs) pv
      rw [hp.2] at this
      rw [this]
      rfl
    · rw [if_neg hk, ← ih]
      exact frame_lookup T (.mapSet pk pv) hinv (by simp [addresses, hp.2, Ne.symm hk])

theorem mk_lookup_lastValue (T : Tables) (tag : Str) (sc : Bool) (l : List (Str × Option Str)) {k : Str}
    (hc : k ≠ classK) (hs : k ≠ styleK) :
    aget k (viewList (mk T tag sc l)) = (lastValue k (normNames l)).map (normVal T k) := by
  rw [mk_normNames]
  have := foldl_initStep_lookup_rev T tag sc hc hs (normNames l).reverse
    (fun q hq => allGood_normNames l q (List.mem_reverse.mp hq))
  rw [List.reverse_reverse] at this
  exact this

end AHP.Attrs
